import MpVerif.C20.ModelExport
/-! # C20 lemmas for the link-export protocol: `i_exported_ ≤ brl_.size()` is an invariant -/
namespace MpVerif.C20

theorem iExp_le_exportRemaining (s : PState) : (exportRemaining s).brl.length ≤ (exportRemaining s).iExp := by
  simp [exportRemaining]; omega

theorem addRange_inv (s : PState) (br : LRange) (h : s.iExp ≤ s.brl.length) :
    (addRange s br).iExp ≤ (addRange s br).brl.length := by
  unfold addRange
  cases hl : s.brl.getLast? with
  | none => simp [exportRemaining]; omega
  | some b =>
    by_cases hc : (b.link = br.link && b.end_ = br.beg) = true
    · have hne : s.brl ≠ [] := by intro h0; simp [h0] at hl
      have : (s.brl.dropLast ++ [{ b with end_ := br.end_ }]).length = s.brl.length := by
        simp [List.length_dropLast]
        cases hb : s.brl with
        | nil => exact absurd hb hne
        | cons a l => simp
      simp only [hc, if_true]
      simp only [this]; exact h
    · simp only [hc]
      simp [exportRemaining]; omega

theorem setEnts_brl (s : PState) (k : LKind) (l : List Entry) :
    (s.setEnts k l).brl = s.brl ∧ (s.setEnts k l).iExp = s.iExp := by
  cases k <;> simp [PState.setEnts]

theorem addEntry_inv (s : PState) (k : LKind) (e : Entry) (h : s.iExp ≤ s.brl.length) :
    (addEntry s k e).iExp ≤ (addEntry s k e).brl.length := by
  have hpush : (pushEntry s k e).iExp ≤ (pushEntry s k e).brl.length := by
    unfold pushEntry
    apply addRange_inv
    rw [(setEnts_brl s k _).1, (setEnts_brl s k _).2]; exact h
  have hrep : ∀ e', (replaceLast s k e').iExp ≤ (replaceLast s k e').brl.length := by
    intro e'
    unfold replaceLast
    simp only
    rw [(setEnts_brl s k _).1, (setEnts_brl s k _).2]; exact h
  unfold addEntry
  cases (s.ents k).getLast? with
  | none => exact hpush
  | some last =>
    simp only
    split
    · exact hpush
    cases k
    · simp only; split
      · exact hrep _
      · exact hpush
    · simp only; split
      · exact hrep _
      · split
        · exact hrep _
        · exact hpush
    · simp only; split
      · exact hrep _
      · split
        · exact hrep _
        · exact hpush

theorem xrun_inv : ∀ (ops : List XOp) (s : PState), s.iExp ≤ s.brl.length →
    (xrun s ops).iExp ≤ (xrun s ops).brl.length
  | [], s, h => h
  | op :: ops, s, h => by
    have : (xstep s op).iExp ≤ (xstep s op).brl.length := by
      cases op with
      | add k e => exact addEntry_inv s k e h
      | finish => simp [xstep, exportRemaining]; omega
    exact xrun_inv ops (xstep s op) this

/-! ## exported extents are final unless an entry is extended in place after its export -/

/-- every exported record shows the current extent of its entry -/
def Consistent (s : PState) : Prop := ∀ x, x ∈ s.out → (x.src, x.dst) = extentOf s x.link x.entry

structure XInv (s : PState) : Prop where
  cons : s.late = false → Consistent s
  rng : ∀ r, r ∈ s.brl → r.end_ ≤ (s.ents r.link).length
  ent : ∀ x, x ∈ s.out → x.entry < (s.ents x.link).length

theorem ents_setEnts (s : PState) (k k' : LKind) (l : List Entry) :
    (s.setEnts k l).ents k' = if k' = k then l else s.ents k' := by
  cases k <;> cases k' <;> simp [PState.setEnts, PState.ents]

theorem setEnts_fields (s : PState) (k : LKind) (l : List Entry) :
    (s.setEnts k l).out = s.out ∧ (s.setEnts k l).late = s.late ∧ (s.setEnts k l).brl = s.brl
      ∧ (s.setEnts k l).iExp = s.iExp := by
  cases k <;> simp [PState.setEnts]

theorem mem_exportFrom (s : PState) : ∀ (rs : List LRange) (i : Nat) (x : XRec),
    (∀ r, r ∈ rs → r.end_ ≤ (s.ents r.link).length) → x ∈ exportFrom s i rs →
    (x.src, x.dst) = extentOf s x.link x.entry ∧ x.entry < (s.ents x.link).length
  | [], _, _, _, hx => by simp [exportFrom] at hx
  | r :: rs, i, x, hr, hx => by
    simp only [exportFrom, List.mem_append] at hx
    rcases hx with hx | hx
    · simp only [exportRange, List.mem_map, List.mem_range'_1] at hx
      obtain ⟨j, hj, rfl⟩ := hx
      have := hr r (by simp)
      refine ⟨rfl, ?_⟩
      simp only
      omega
    · exact mem_exportFrom s rs (i + 1) x (fun r' h' => hr r' (by simp [h'])) hx

theorem exportRemaining_inv (s : PState) (h : XInv s) : XInv (exportRemaining s) := by
  have hdrop : ∀ r, r ∈ s.brl.drop s.iExp → r.end_ ≤ (s.ents r.link).length :=
    fun r hr => h.rng r (List.mem_of_mem_drop hr)
  refine ⟨?_, ?_, ?_⟩
  · intro hl x hx
    simp only [exportRemaining, List.mem_append] at hx
    rcases hx with hx | hx
    · exact h.cons hl x hx
    · exact (mem_exportFrom s _ _ x hdrop hx).1
  · intro r hr; exact h.rng r hr
  · intro x hx
    simp only [exportRemaining, List.mem_append] at hx
    rcases hx with hx | hx
    · exact h.ent x hx
    · exact (mem_exportFrom s _ _ x hdrop hx).2

theorem exportRemaining_ents (s : PState) (k : LKind) : (exportRemaining s).ents k = s.ents k := by
  cases k <;> rfl

theorem addRange_xinv (s : PState) (br : LRange) (h : XInv s) (hb : br.end_ ≤ (s.ents br.link).length) :
    XInv (addRange s br) := by
  unfold addRange
  have hnew : XInv { exportRemaining s with brl := (exportRemaining s).brl ++ [br] } := by
    have h1 := exportRemaining_inv s h
    refine ⟨h1.cons, ?_, h1.ent⟩
    intro r hr
    simp only [List.mem_append, List.mem_singleton] at hr
    rcases hr with hr | hr
    · exact h1.rng r hr
    · subst hr; exact hb
  cases hl : s.brl.getLast? with
  | none => exact hnew
  | some b =>
    simp only
    split
    · rename_i hc
      simp only [Bool.and_eq_true, decide_eq_true_eq] at hc
      refine ⟨h.cons, ?_, h.ent⟩
      intro r hr
      simp only [List.mem_append, List.mem_singleton] at hr
      rcases hr with hr | hr
      · exact h.rng r ((List.dropLast_sublist _).subset hr)
      · subst hr
        simp only
        have : (s.ents b.link) = s.ents br.link := by rw [hc.1]
        show br.end_ ≤ (s.ents b.link).length
        rw [this]; exact hb
    · exact hnew


theorem getD_append_left (l : List Entry) (e d : Entry) (j : Nat) (hj : j < l.length) :
    (l ++ [e]).getD j d = l.getD j d := by
  simp [List.getD_eq_getElem?_getD, List.getElem?_append_left hj]

theorem pushEntry_xinv (s : PState) (k : LKind) (e : Entry) (h : XInv s) : XInv (pushEntry s k e) := by
  unfold pushEntry
  apply addRange_xinv
  · have hf := setEnts_fields s k (s.ents k ++ [e])
    refine ⟨?_, ?_, ?_⟩
    · intro hl x hx
      rw [hf.1] at hx
      rw [hf.2.1] at hl
      have h1 := h.cons hl x hx
      have h2 := h.ent x hx
      rw [h1]
      simp only [extentOf, ents_setEnts]
      split
      · rename_i hk; rw [hk] at h2 ⊢; exact (getD_append_left _ _ _ _ h2).symm
      · rfl
    · intro r hr
      rw [hf.2.2.1] at hr
      have := h.rng r hr
      simp only [ents_setEnts]
      split
      · rename_i hk; rw [hk] at this; simp; omega
      · exact this
    · intro x hx
      rw [hf.1] at hx
      have := h.ent x hx
      simp only [ents_setEnts]
      split
      · rename_i hk; rw [hk] at this; simp; omega
      · exact this
  · simp [ents_setEnts]

theorem ents_late (t : PState) (b : Bool) (k : LKind) : ({ t with late := b } : PState).ents k = t.ents k := by
  cases k <;> rfl

theorem replaceLast_xinv (s : PState) (k : LKind) (e' : Entry) (h : XInv s) (hne : s.ents k ≠ []) :
    XInv (replaceLast s k e') := by
  have hf := setEnts_fields s k ((s.ents k).dropLast ++ [e'])
  have hlen : ((s.ents k).dropLast ++ [e']).length = (s.ents k).length := by
    have : 0 < (s.ents k).length := List.length_pos_iff.mpr hne
    simp; omega
  unfold replaceLast
  refine ⟨?_, ?_, ?_⟩
  · intro hl x hx
    simp only [Bool.or_eq_false_iff] at hl
    simp only at hx
    rw [hf.1] at hx
    have h1 := h.cons hl.1 x hx
    have h2 := h.ent x hx
    rw [h1]
    simp only [extentOf, ents_late, ents_setEnts]
    split
    · rename_i hk
      have hnot : ¬ (x.entry = (s.ents k).length - 1) := by
        intro he
        have : isExported s k ((s.ents k).length - 1) = true := by
          simp only [isExported, List.any_eq_true, Bool.and_eq_true, decide_eq_true_eq]
          exact ⟨x, hx, hk, he⟩
        rw [this] at hl; exact Bool.noConfusion hl.2
      rw [hk] at h2
      have hj : x.entry < (s.ents k).dropLast.length := by simp; omega
      rw [hk]
      simp only [List.getD_eq_getElem?_getD, List.getElem?_append_left hj, List.getElem?_dropLast]
      simp [show x.entry < (s.ents k).length - 1 by omega]
    · rfl
  · intro r hr
    simp only at hr
    rw [hf.2.2.1] at hr
    have := h.rng r hr
    simp only [ents_late, ents_setEnts]
    split
    · rename_i hk; rw [hk] at this; rw [hlen]; exact this
    · exact this
  · intro x hx
    simp only at hx
    rw [hf.1] at hx
    have := h.ent x hx
    simp only [ents_late, ents_setEnts]
    split
    · rename_i hk; rw [hk] at this; rw [hlen]; exact this
    · exact this

theorem addEntry_xinv (s : PState) (k : LKind) (e : Entry) (h : XInv s) : XInv (addEntry s k e) := by
  unfold addEntry
  cases hl : (s.ents k).getLast? with
  | none => exact pushEntry_xinv s k e h
  | some last =>
    have hne : s.ents k ≠ [] := by intro h0; simp [h0] at hl
    simp only
    split
    · exact pushEntry_xinv s k e h
    cases k
    · simp only; split
      · exact replaceLast_xinv s _ _ h hne
      · exact pushEntry_xinv s _ e h
    · simp only; split
      · exact replaceLast_xinv s _ _ h hne
      · split
        · exact replaceLast_xinv s _ _ h hne
        · exact pushEntry_xinv s _ e h
    · simp only; split
      · exact replaceLast_xinv s _ _ h hne
      · split
        · exact replaceLast_xinv s _ _ h hne
        · exact pushEntry_xinv s _ e h

theorem xrun_xinv : ∀ (ops : List XOp) (s : PState), XInv s → XInv (xrun s ops)
  | [], _, h => h
  | op :: ops, s, h => by
    have : XInv (xstep s op) := by
      cases op with
      | add k e => exact addEntry_xinv s k e h
      | finish => exact exportRemaining_inv s h
    exact xrun_xinv ops (xstep s op) this

theorem xinv_init : XInv {} := by
  refine ⟨?_, ?_, ?_⟩
  · intro _ x hx; simp at hx
  · intro r hr; simp at hr
  · intro x hx; simp at hx

/-! ## with the "extend only the most recently registered entry" rule no exported entry is ever extended -/

/-- invariant of add-only runs (no `Finish` yet) under the "extend only the most recently registered entry" rule -/
structure AInv (s : PState) : Prop where
  xi : XInv s
  nl : s.late = false
  fresh : ∀ b, s.brl.getLast? = some b → ∀ x, x ∈ s.out → x.link = b.link → x.entry < b.beg
  pos : ∀ r, r ∈ s.brl → r.beg < r.end_

theorem mem_exportFrom_range (s : PState) : ∀ (rs : List LRange) (i : Nat) (x : XRec),
    x ∈ exportFrom s i rs → ∃ r, r ∈ rs ∧ x.link = r.link ∧ x.entry < r.end_
  | [], _, _, hx => by simp [exportFrom] at hx
  | r :: rs, i, x, hx => by
    simp only [exportFrom, List.mem_append] at hx
    rcases hx with hx | hx
    · simp only [exportRange, List.mem_map, List.mem_range'_1] at hx
      obtain ⟨j, hj, rfl⟩ := hx
      exact ⟨r, by simp, rfl, by simp only; omega⟩
    · obtain ⟨r', hr', h1, h2⟩ := mem_exportFrom_range s rs (i + 1) x hx
      exact ⟨r', by simp [hr'], h1, h2⟩

theorem mem_of_getLast? {α} (l : List α) (b : α) (h : l.getLast? = some b) : b ∈ l := by
  obtain ⟨ys, rfl⟩ := List.getLast?_eq_some_iff.mp h
  simp

theorem exportRemaining_late (s : PState) : (exportRemaining s).late = s.late := rfl

theorem addRange_late (s : PState) (br : LRange) : (addRange s br).late = s.late := by
  unfold addRange
  cases s.brl.getLast? with
  | none => rfl
  | some b => simp only; split <;> rfl

theorem pushEntry_ainv (s : PState) (k : LKind) (e : Entry) (h : AInv s) : AInv (pushEntry s k e) := by
  have hx := pushEntry_xinv s k e h.xi
  have hf := setEnts_fields s k (s.ents k ++ [e])
  refine ⟨hx, ?_, ?_, ?_⟩
  · unfold pushEntry; rw [addRange_late, hf.2.1]; exact h.nl
  · unfold pushEntry addRange
    rw [hf.2.2.1]
    cases hl : s.brl.getLast? with
    | none =>
      intro b hb x hxm hk
      simp only [exportRemaining, List.getLast?_append, List.getLast?_singleton, Option.some_or] at hb
      simp only [Option.some.injEq] at hb
      subst hb
      simp only [exportRemaining, hf.1, hf.2.2.1, hf.2.2.2, List.mem_append] at hxm
      simp only at hk ⊢
      rcases hxm with hxm | hxm
      · have := h.xi.ent x hxm; rw [hk] at this; exact this
      · obtain ⟨r, hr, h1, h2⟩ := mem_exportFrom_range _ _ _ x hxm
        have := h.xi.rng r (List.mem_of_mem_drop hr)
        rw [← h1, hk] at this; omega
    | some b0 =>
      simp only
      split
      · rename_i hc
        simp only [Bool.and_eq_true, decide_eq_true_eq] at hc
        intro b hb x hxm hk
        simp only [List.getLast?_append, List.getLast?_singleton, Option.some_or, Option.some.injEq] at hb
        subst hb
        simp only [hf.1] at hxm
        exact h.fresh b0 hl x hxm hk
      · intro b hb x hxm hk
        simp only [exportRemaining, List.getLast?_append, List.getLast?_singleton, Option.some_or,
          Option.some.injEq] at hb
        subst hb
        simp only [exportRemaining, hf.1, hf.2.2.1, hf.2.2.2, List.mem_append] at hxm
        simp only at hk ⊢
        rcases hxm with hxm | hxm
        · have := h.xi.ent x hxm; rw [hk] at this; exact this
        · obtain ⟨r, hr, h1, h2⟩ := mem_exportFrom_range _ _ _ x hxm
          have := h.xi.rng r (List.mem_of_mem_drop hr)
          rw [← h1, hk] at this; omega
  · unfold pushEntry addRange
    rw [hf.2.2.1]
    cases hl : s.brl.getLast? with
    | none =>
      intro r hr
      simp only [exportRemaining, hf.2.2.1, List.mem_append, List.mem_singleton] at hr
      rcases hr with hr | hr
      · exact h.pos r hr
      · subst hr; simp
    | some b0 =>
      simp only
      split
      · rename_i hc
        simp only [Bool.and_eq_true, decide_eq_true_eq] at hc
        intro r hr
        simp only [List.mem_append, List.mem_singleton] at hr
        rcases hr with hr | hr
        · exact h.pos r ((List.dropLast_sublist _).subset hr)
        · subst hr
          have := h.pos b0 (mem_of_getLast? _ _ hl)
          simp only; omega
      · intro r hr
        simp only [exportRemaining, hf.2.2.1, List.mem_append, List.mem_singleton] at hr
        rcases hr with hr | hr
        · exact h.pos r hr
        · subst hr; simp


theorem replaceLast_fields (s : PState) (k : LKind) (e' : Entry) :
    (replaceLast s k e').brl = s.brl ∧ (replaceLast s k e').out = s.out := by
  have hf := setEnts_fields s k ((s.ents k).dropLast ++ [e'])
  unfold replaceLast
  exact ⟨hf.2.2.1, hf.1⟩

theorem replaceLast_ainv (s : PState) (k : LKind) (e' : Entry) (h : AInv s) (hne : s.ents k ≠ [])
    (hlast : isLastReg s k = true) : AInv (replaceLast s k e') := by
  have hx := replaceLast_xinv s k e' h.xi hne
  have hf := replaceLast_fields s k e'
  refine ⟨hx, ?_, ?_, ?_⟩
  · have hfs := setEnts_fields s k ((s.ents k).dropLast ++ [e'])
    unfold replaceLast
    simp only [Bool.or_eq_false_iff]
    refine ⟨h.nl, ?_⟩
    cases hex : isExported s k ((s.ents k).length - 1) with
    | false => rfl
    | true =>
      exfalso
      simp only [isExported, List.any_eq_true, Bool.and_eq_true, decide_eq_true_eq] at hex
      obtain ⟨x, hxm, hk, he⟩ := hex
      unfold isLastReg at hlast
      cases hl : s.brl.getLast? with
      | none => simp [hl] at hlast
      | some b =>
        simp only [hl, Bool.and_eq_true, decide_eq_true_eq] at hlast
        have h1 := h.fresh b hl x hxm (by rw [hk, hlast.1])
        have h2 := h.pos b (mem_of_getLast? _ _ hl)
        omega
  · intro b hb x hxm hk
    rw [hf.1] at hb; rw [hf.2] at hxm
    exact h.fresh b hb x hxm hk
  · intro r hr
    rw [hf.1] at hr
    exact h.pos r hr

theorem addEntry_ainv (s : PState) (k : LKind) (e : Entry) (h : AInv s) : AInv (addEntry s k e) := by
  unfold addEntry
  cases hl : (s.ents k).getLast? with
  | none => exact pushEntry_ainv s k e h
  | some last =>
    have hne : s.ents k ≠ [] := by intro h0; simp [h0] at hl
    simp only
    split
    · exact pushEntry_ainv s k e h
    · rename_i hlast
      have hlast' : isLastReg s k = true := by simpa using hlast
      cases k
      · simp only; split
        · exact replaceLast_ainv s _ _ h hne hlast'
        · exact pushEntry_ainv s _ e h
      · simp only; split
        · exact replaceLast_ainv s _ _ h hne hlast'
        · split
          · exact replaceLast_ainv s _ _ h hne hlast'
          · exact pushEntry_ainv s _ e h
      · simp only; split
        · exact replaceLast_ainv s _ _ h hne hlast'
        · split
          · exact replaceLast_ainv s _ _ h hne hlast'
          · exact pushEntry_ainv s _ e h

/-- a run consisting of `AddEntry` calls only -/
def addsOf (l : List (LKind × Entry)) : List XOp := l.map (fun p => .add p.1 p.2)

theorem xrun_adds_ainv : ∀ (l : List (LKind × Entry)) (s : PState), AInv s → AInv (xrun s (addsOf l))
  | [], _, h => h
  | p :: l, s, h => xrun_adds_ainv l (addEntry s p.1 p.2) (addEntry_ainv s p.1 p.2 h)

theorem ainv_init : AInv {} := by
  refine ⟨xinv_init, rfl, ?_, ?_⟩
  · intro b hb; simp at hb
  · intro r hr; simp at hr

theorem export_complete (l : List (LKind × Entry)) :
    XInv (xrun {} (addsOf l ++ [.finish])) ∧ (xrun {} (addsOf l ++ [.finish])).late = false := by
  have h := xrun_adds_ainv l {} ainv_init
  have : xrun {} (addsOf l ++ [.finish]) = exportRemaining (xrun {} (addsOf l)) := by
    simp [xrun, List.foldl_append, xstep]
  rw [this]
  exact ⟨exportRemaining_inv _ h.xi, h.nl⟩

end MpVerif.C20

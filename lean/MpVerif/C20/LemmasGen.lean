import MpVerif.Gen.C20Json
import MpVerif.C20.ModelEscape
/-! # C20: the hand model equals the definitions generated from the source -/
namespace MpVerif.C20
open GenBase MpVerif.Gen.C20Json

theorem gen_EnsureArray (nd : Node) : EnsureArray nd = ensureArr nd := by
  cases nd with | mk kind n => cases kind <;> rfl

theorem gen_EnsureDictionary (nd : Node) : EnsureDictionary nd = ensureDict nd := by
  cases nd with | mk kind n => cases kind <;> rfl

theorem gen_MakeScalarIfUnset (nd : Node) : MakeScalarIfUnset nd = ([], makeScalar nd) := by
  cases nd with | mk kind n => cases kind <;> rfl

theorem gen_InsertElementSeparator (nd : Node) : InsertElementSeparator nd = (sep nd.n, nd) := by
  cases nd with | mk kind n =>
    cases n with
    | zero => rfl
    | succ m => simp [InsertElementSeparator, ifNNonzero, emit, skip, sep]

theorem gen_Close (nd : Node) : Close nd = (closeText nd.kind, { nd with kind := .closed }) := by
  cases nd with | mk kind n => cases kind <;> rfl

theorem gen_EnsureUnset (nd : Node) : EnsureUnset nd = ([], nd) := rfl

theorem gen_EnsureCanWrite (nd : Node) : EnsureCanWrite nd = ([], nd) := by
  cases nd with | mk kind n => cases kind <;> rfl

theorem gen_step_key (out : Str) (nd : Node) (rest : List Node) (k : Str) :
    step ⟨out, nd :: rest⟩ (.key k) = ⟨out ++ (opIndex k nd).1, ⟨.unset, 0⟩ :: (opIndex k nd).2 :: rest⟩ := by
  cases nd with | mk kind n =>
    cases n with
    | zero => cases kind <;> simp [step, opIndex, seq, EnsureDictionary, InsertElementSeparator, ifKindEq, ifNNonzero, setKind, emit, skip, incN, ensureDict, sep, quote]
    | succ m => cases kind <;> simp [step, opIndex, seq, EnsureDictionary, InsertElementSeparator, ifKindEq, ifNNonzero, setKind, emit, skip, incN, ensureDict, sep, quote]

theorem gen_step_elem (out : Str) (nd : Node) (rest : List Node) :
    step ⟨out, nd :: rest⟩ .elem = ⟨out ++ (opIncr nd).1, ⟨.unset, 0⟩ :: (opIncr nd).2 :: rest⟩ := by
  cases nd with | mk kind n =>
    cases n with
    | zero => cases kind <;> simp [step, opIncr, seq, EnsureArray, InsertElementSeparator, ifKindEq, ifNNonzero, setKind, emit, skip, incN, ensureArr, sep]
    | succ m => cases kind <;> simp [step, opIncr, seq, EnsureArray, InsertElementSeparator, ifKindEq, ifNNonzero, setKind, emit, skip, incN, ensureArr, sep]

theorem gen_step_close (out : Str) (nd : Node) (rest : List Node) :
    step ⟨out, nd :: rest⟩ .close = ⟨out ++ (Close nd).1, rest⟩ := by
  rw [gen_Close]; rfl

/-! ## `EscapeJSON` -/

theorem byteAt_pre0 (pre : List Nat) (c : Nat) (t : List Nat) : byteAt (pre ++ c :: t) pre.length = c := by
  simp [byteAt, List.getD_eq_getElem?_getD]

theorem byteAt_preS (pre : List Nat) (c : Nat) (t : List Nat) (k : Nat) :
    byteAt (pre ++ c :: t) (pre.length + (k + 1)) = t.getD k 0 := by
  simp [byteAt, List.getD_eq_getElem?_getD, List.getElem?_append_right]

theorem substr_pre (pre : List Nat) (c : Nat) (t : List Nat) (n : Nat) :
    substr (pre ++ c :: t) pre.length (n + 1) = c :: t.take n := by
  simp [substr]

theorem genN_eq (c : Nat) :
    (if ((decide (c >= 194)) && (decide (c <= 223))) = true then 1 else (if ((decide (c >= 224)) && (decide (c <= 239))) = true then 2 else (if ((decide (c >= 240)) && (decide (c <= 244))) = true then 3 else 0))) = seqLen c := by
  simp [seqLen]

theorem loop_eq (pre : List Nat) (c : Nat) (t : List Nat) (n : Nat) (hn : n ≤ 3) (hl : n ≤ t.length) :
    loopAnd true n (fun k => decide (byteAt (pre ++ c :: t) (pre.length + k) &&& 192 = 128)) = (t.take n).all isCont := by
  have e1 := byteAt_preS pre c t 0
  have e2 := byteAt_preS pre c t 1
  have e3 := byteAt_preS pre c t 2
  match n, hn with
  | 0, _ => simp [loopAnd]
  | 1, _ =>
    obtain ⟨b1, t', rfl⟩ : ∃ b1 t', t = b1 :: t' := by cases t with | nil => simp at hl | cons a t => exact ⟨a, t, rfl⟩
    simp [loopAnd, List.range', e1, isCont]
  | 2, _ =>
    obtain ⟨b1, b2, t', rfl⟩ : ∃ b1 b2 t', t = b1 :: b2 :: t' := by
      cases t with
      | nil => simp at hl
      | cons a t => cases t with
        | nil => simp at hl
        | cons b t => exact ⟨a, b, t, rfl⟩
    simp [loopAnd, List.range', e1, e2, isCont]
  | 3, _ =>
    obtain ⟨b1, b2, b3, t', rfl⟩ : ∃ b1 b2 b3 t', t = b1 :: b2 :: b3 :: t' := by
      cases t with
      | nil => simp at hl
      | cons a t => cases t with
        | nil => simp at hl
        | cons b t => cases t with
          | nil => simp at hl
          | cons d t => exact ⟨a, b, d, t, rfl⟩
    simp [loopAnd, List.range', e1, e2, e3, isCont]

theorem badSecond_fold (c c1 : Nat) :
    ((((((decide (c = 224)) && (decide (c1 < 160))) || ((decide (c = 237)) && (decide (c1 > 159)))) || ((decide (c = 240)) && (decide (c1 < 144)))) || ((decide (c = 244)) && (decide (c1 > 143))))) = badSecond c c1 := rfl

/-- **`escBody` (generated from the source) = `escStep` (hand model)**: at index `|pre|` of `pre ++ c :: t` the loop body
    appends `(escStep c t).1` and leaves `i = |pre| + (escStep c t).2` -/
theorem gen_escBody (pre : List Nat) (c : Nat) (t : List Nat) :
    (escBody (pre ++ c :: t) pre.length).1 = (escStep c t).1 ∧
    (escBody (pre ++ c :: t) pre.length).2.1 = pre.length + (escStep c t).2 := by
  have hb0 := byteAt_pre0 pre c t
  have hb1 : byteAt (pre ++ c :: t) (pre.length + 1) = t.headD 0 := by
    have := byteAt_preS pre c t 0
    simp only [Nat.zero_add] at this
    rw [this]; cases t <;> rfl
  have hlen : (pre ++ c :: t).length = pre.length + t.length + 1 := by simp; omega
  unfold escBody escStep
  simp only [hb0, badSecond_fold, hb1]
  by_cases h1 : c = 34
  · simp [h1]
  by_cases h2 : c = 92
  · simp [h2]
  by_cases h3 : c = 10
  · simp [h3]
  by_cases h4 : c = 13
  · simp [h4]
  by_cases h5 : c = 9
  · simp [h5]
  simp only [h1, h2, h3, h4, h5, if_false]
  by_cases h6 : c < 32
  · simp [h6]
  by_cases h7 : c < 128
  · simp [h6, h7]
  simp only [h6, h7, decide_false, decide_true, if_false, Bool.false_eq_true]
  rw [genN_eq c]
  have hn3 : seqLen c ≤ 3 := by unfold seqLen; split <;> (try split) <;> (try split) <;> omega
  generalize hbs : badSecond c (t.headD 0) = bs
  by_cases hpos : seqLen c > 0 ∧ seqLen c ≤ t.length
  · have hlt : pre.length + seqLen c < (pre ++ c :: t).length := by omega
    have hloop := loop_eq pre c t (seqLen c) hn3 hpos.2
    have hso : seqOk c t = ((t.take (seqLen c)).all isCont && !bs) := by
      simp only [seqOk, hpos.1, hpos.2, decide_true, Bool.true_and, hbs]
    simp only [hpos.1, hlt, decide_true, Bool.and_self, Bool.true_and, hloop, substr_pre, hso]
    cases hall : (t.take (seqLen c)).all isCont <;> cases bs <;> simp [substr_pre]
  · have : seqOk c t = false := by
      simp only [seqOk]
      by_cases hp : seqLen c > 0
      · have : ¬ seqLen c ≤ t.length := fun h => hpos ⟨hp, h⟩
        simp [this]
      · simp [hp]
    have hdec : (decide (seqLen c > 0) && decide (pre.length + seqLen c < (pre ++ c :: t).length)) = false := by
      by_cases hp : seqLen c > 0
      · have : ¬ pre.length + seqLen c < (pre ++ c :: t).length := by
          intro h; exact hpos ⟨hp, by omega⟩
        simp only [hp, decide_true, Bool.true_and, decide_eq_false_iff_not]; exact this
      · simp [hp]
    simp only [hdec, this, loopAnd, Bool.false_and]
    simp

theorem escStep_le (c : Nat) (t : List Nat) : (escStep c t).2 ≤ t.length := by
  unfold escStep
  repeat' split
  all_goals (try simp)
  rename_i h
  simp only [seqOk, Bool.and_eq_true, decide_eq_true_eq] at h
  exact h.1.1.2

/-- the loop `for (size_t i=0; i<s.size(); ++i) <body>` around the generated body (the header shape is checked by the
    translator) -/
def genLoop (s : List Nat) : Nat → Nat → List Nat
  | 0, _ => []
  | f + 1, i => if i < s.length then (escBody s i).1 ++ genLoop s f ((escBody s i).2.1 + 1) else []

/-- `EscapeJSON` assembled from the generated loop body -/
def genEscape (s : List Nat) : List Nat := genLoop s s.length 0

theorem genLoop_eq : ∀ (f : Nat) (pre rest : List Nat), genLoop (pre ++ rest) f pre.length = escapeBF f rest
  | 0, _, _ => by simp [genLoop, escapeBF]
  | f + 1, pre, [] => by simp [genLoop, escapeBF]
  | f + 1, pre, c :: t => by
    have hg := gen_escBody pre c t
    have hk := escStep_le c t
    have hlt : pre.length < (pre ++ c :: t).length := by simp
    simp only [genLoop, hlt, if_true, escapeBF, hg.1, hg.2]
    have hsplit : pre ++ c :: t = (pre ++ c :: t.take (escStep c t).2) ++ t.drop (escStep c t).2 := by
      simp [List.take_append_drop]
    have hl : (pre ++ c :: t.take (escStep c t).2).length = pre.length + (escStep c t).2 + 1 := by
      simp [List.length_take, Nat.min_eq_left hk]; omega
    have ih := genLoop_eq f (pre ++ c :: t.take (escStep c t).2) (t.drop (escStep c t).2)
    rw [← hsplit, hl] at ih
    rw [ih]

theorem genEscape_eq (s : List Nat) : genEscape s = escapeB s := by
  have := genLoop_eq s.length [] s
  simpa [genEscape, escapeB] using this

end MpVerif.C20

import MpVerif.C20.Model
/-!
# C20 model, part (c): records of the graph export, the delivered log, the validator

A line of the file named by `cvt:writegraph` is decoded (`classify`) into one of the record
shapes the exporters in `valcvt.h`, `constr_keeper.h`, `converter_model.h` and
`problem_flattener.h` write.  `Delivered` is the *independent* record: sizes of the NL model (known
to the generator) and what `RecModelAPI` was handed (`AddVariables`, `Set*Objective`,
every `AddConstraint` with its type, constraint group and name).

Numbers other than indices are never looked at (the export prints doubles with 6 significant
digits and infinities as `1.79769e+308`, the `printed` fields can misstate a constraint – A20).
-/
namespace MpVerif.C20

def tokNat? (t : Str) : Option Nat :=
  if t != [] && allDigits t then some (t.foldl (fun a c => a * 10 + (c.toNat - 48)) 0) else none

def JMems.getNat? (ms : JMems) (k : Str) : Option Nat :=
  match ms.get? k with
  | some (.num t) => tokNat? t
  | _ => none

def JMems.getStr? (ms : JMems) (k : Str) : Option Str :=
  match ms.get? k with
  | some (.str s) => some s
  | _ => none

def JMems.has (ms : JMems) (k : Str) : Bool := (ms.get? k).isSome

def flag? (ms : JMems) (k : Str) : Option Bool :=
  match ms.getNat? k with
  | some 0 => some false
  | some 1 => some true
  | _ => none

/-- an endpoint of a link record: value-node name and inclusive index range -/
structure NodeRef where
  node : Str
  beg : Nat
  last : Nat
  deriving DecidableEq, Repr, Inhabited

/-- structure of a flat variable as exported / as received by the API: type (0 continuous, 1 integer) and
    which bounds are infinite (the export prints them as `∓1.79769e+308`) -/
structure VarInfo where
  ty : Nat
  lbInf : Bool
  ubInf : Bool
  deriving DecidableEq, Repr, Inhabited

/-- structure of a flat objective: sense (0 min, 1 max), variables of the linear terms, variable pairs of the
    quadratic terms (numbers of terms = lengths; coefficients are not compared) -/
structure ObjInfo where
  sense : Nat
  lin : List Nat
  q1 : List Nat
  q2 : List Nat
  deriving DecidableEq, Repr, Inhabited

inductive Rec where
  | comment
  | var (i : Nat) (fromNl : Bool) (info : VarInfo)
  | nlDefVar (i : Nat)
  | nlObj (i : Nat)
  | nlCon (i : Nat) (logical : Bool)
  | obj (i : Nat) (info : ObjInfo)
  | conNew (ty : Str) (i : Nat)
  | conStatus (ty : Str) (i : Nat) (name : Str) (unused bridged final : Bool)
  | conGroup (ty : Str) (grp : Nat)
  | link (ty : Str) (entry : Nat) (src dst : List NodeRef)
  deriving DecidableEq, Repr, Inhabited

/-- `{"<node>": i}` or `{"<node>": [beg, last]}` -/
def nodeRef? : Json → Option NodeRef
  | .obj (.cons k (.num t) .nil) =>
    match tokNat? t with
    | some i => some ⟨k, i, i⟩
    | none => none
  | .obj (.cons k (.arr (.cons (.num a) (.cons (.num b) .nil))) .nil) =>
    match tokNat? a, tokNat? b with
    | some x, some y => some ⟨k, x, y⟩
    | _, _ => none
  | _ => none

def nodeRefs? : JList → Option (List NodeRef)
  | .nil => some []
  | .cons x xs =>
    match nodeRef? x, nodeRefs? xs with
    | some r, some rs => some (r :: rs)
    | _, _ => none

def isTwoNums : Json → Bool
  | .arr (.cons (.num _) (.cons (.num _) .nil)) => true
  | _ => false

/-- `[lb, ub]` -> which of the two is printed as the clamped infinity -/
def boundInf? (clamp : Str) : Json → Option Bool
  | .num t => some (t = clamp)
  | .str _ => some true       -- a non-finite bound the exporter did not clamp (e.g. an upper bound `-inf`): written as a string
  | _ => none

def boundsInf? : Json → Option (Bool × Bool)
  | .arr (.cons a (.cons b .nil)) =>
    match boundInf? cl!"-1.79769e+308" a, boundInf? cl!"1.79769e+308" b with
    | some x, some y => some (x, y)
    | _, _ => none
  | _ => none

def natList? : JList → Option (List Nat)
  | .nil => some []
  | .cons (.num t) xs =>
    match tokNat? t, natList? xs with
    | some n, some ns => some (n :: ns)
    | _, _ => none
  | .cons _ _ => none

def numCount? : JList → Option Nat
  | .nil => some 0
  | .cons (.num _) xs => (numCount? xs).map (· + 1)
  | .cons (.str _) xs => (numCount? xs).map (· + 1)     -- non-finite coefficients are written as strings
  | .cons _ _ => none

/-- `{"coefs": [...], "vars": [...]}` with equally many entries -> the variables -/
def linTerms? : Json → Option (List Nat)
  | .obj ms =>
    match ms.get? cl!"coefs", ms.get? cl!"vars" with
    | some (.arr cs), some (.arr vs) =>
      match numCount? cs, natList? vs with
      | some n, some l => if n = l.length then some l else none
      | _, _ => none
    | _, _ => none
  | _ => none

/-- `{"coefs": [...], "vars1": [...], "vars2": [...]}` with equally many entries -/
def quadTerms? : Json → Option (List Nat × List Nat)
  | .obj ms =>
    match ms.get? cl!"coefs", ms.get? cl!"vars1", ms.get? cl!"vars2" with
    | some (.arr cs), some (.arr v1), some (.arr v2) =>
      match numCount? cs, natList? v1, natList? v2 with
      | some n, some l1, some l2 => if n = l1.length && n = l2.length then some (l1, l2) else none
      | _, _, _ => none
    | _, _, _ => none
  | _ => none

def nodup : List Str → Bool
  | [] => true
  | k :: ks => !ks.contains k && nodup ks

/-- decode one top-level object; `none` = not a record shape the exporters write -/
def classify (ms : JMems) : Option Rec :=
  if !nodup ms.keys then none
  else if ms.has cl!"COMMENT" then some .comment
  else if ms.has cl!"link_index" then
    match ms.get? cl!"link_index", ms.getStr? cl!"link_type",
          ms.get? cl!"src_nodes", ms.get? cl!"dest_nodes" with
    | some (.arr (.cons (.num a) (.cons (.num b) .nil))), some ty, some (.arr s), some (.arr t) =>
      match tokNat? a, tokNat? b, nodeRefs? s, nodeRefs? t with
      | some _, some e, some ss, some ts => some (.link ty e ss ts)
      | _, _, _, _ => none
    | _, _, _, _ => none
  else if ms.has cl!"CON_TYPE" then
    match ms.getStr? cl!"CON_TYPE" with
    | none => none
    | some ty =>
      if ms.has cl!"final" then
        match ms.getNat? cl!"index", ms.getNat? cl!"depth", flag? ms cl!"unused", flag? ms cl!"bridged", flag? ms cl!"final" with
        | some i, some _, some u, some b, some f =>
          if ms.has cl!"name" then
            match ms.getStr? cl!"name" with
            | some nm => some (.conStatus ty i nm u b f)
            | none => none
          else some (.conStatus ty i [] u b f)
        | _, _, _, _, _ => none
      else if ms.has cl!"data" then
        match ms.getNat? cl!"index", ms.getNat? cl!"depth" with
        | some i, some _ => some (.conNew ty i)
        | _, _ => none
      else if ms.has cl!"CON_GROUP" then
        match ms.getStr? cl!"CON_GROUP", ms.getNat? cl!"CON_GROUP_index" with
        | some _, some g => some (.conGroup ty g)
        | _, _ => none
      else none
  else if ms.has cl!"VAR_index" then
    match ms.getNat? cl!"VAR_index", flag? ms cl!"is_from_nl", ms.getNat? cl!"type", ms.get? cl!"bounds" with
    | some i, some b, some ty, some bd =>
      match boundsInf? bd with
      | some (li, ui) => some (.var i b ⟨ty, li, ui⟩)
      | none => none
    | _, _, _, _ => none
  else if ms.has cl!"NL_COMMON_EXPR_index" then
    match ms.getNat? cl!"NL_COMMON_EXPR_index" with
    | some i => some (.nlDefVar i)
    | none => none
  else if ms.has cl!"NL_OBJECTIVE_index" then
    match ms.getNat? cl!"NL_OBJECTIVE_index", ms.getNat? cl!"sense" with
    | some i, some _ => some (.nlObj i)
    | _, _ => none
  else if ms.has cl!"NL_CON_TYPE" then
    match ms.getStr? cl!"NL_CON_TYPE", ms.getNat? cl!"index" with
    | some ty, some i =>
      if ty = cl!"logical" then some (.nlCon i true)
      else if ty = cl!"lin" || ty = cl!"nonlin" then some (.nlCon i false)
      else none
    | _, _ => none
  else if ms.has cl!"OBJECTIVE_index" then
    match ms.getNat? cl!"OBJECTIVE_index", ms.getNat? cl!"sense", ms.get? cl!"lin_terms", ms.get? cl!"qp_terms" with
    | some i, some sn, some lt, some qt =>
      match linTerms? lt, quadTerms? qt with
      | some l, some (a, b) => some (.obj i ⟨sn, l, a, b⟩)
      | _, _ => none
    | _, _, _, _ => none
  else none

/-- a delivered constraint as the recording ModelAPI saw it -/
structure DCon where
  ty : Str          -- short type name (`_linrange`, …)
  grp : Nat         -- constraint group number the ModelAPI assigns to the type
  name : Str
  deriving DecidableEq, Repr, Inhabited

/-- independent record: NL model sizes (generator) + what the ModelAPI received (recorder) -/
structure Delivered where
  nlVars : Nat
  nlObjs : Nat
  nlAlgCons : Nat
  nlLogCons : Nat
  nlDefVars : Nat          -- common expressions (defined variables) of the NL model
  vars : List VarInfo      -- `AddVariables`
  objs : List ObjInfo      -- `SetLinearObjective` / `SetQuadraticObjective`, by index
  cons : List DCon
  deriving Repr, Inhabited

def Delivered.nVars (d : Delivered) : Nat := d.vars.length
def Delivered.nObjs (d : Delivered) : Nat := d.objs.length

def hasVar (g : List Rec) (i : Nat) (b : Bool) : Bool :=
  g.any (fun r => match r with | .var j b' _ => j == i && b' == b | _ => false)

def hasObj (g : List Rec) (i : Nat) : Bool :=
  g.any (fun r => match r with | .obj j _ => j == i | _ => false)

/-- the last record of flat variable `i` in the file -/
def lastVar : List Rec → Nat → Option VarInfo
  | [], _ => none
  | r :: g, i =>
    match lastVar g i with
    | some x => some x
    | none => match r with
      | .var j _ info => if j = i then some info else none
      | _ => none

/-- the last record of flat objective `i` in the file -/
def lastObj : List Rec → Nat → Option ObjInfo
  | [], _ => none
  | r :: g, i =>
    match lastObj g i with
    | some x => some x
    | none => match r with
      | .obj j info => if j = i then some info else none
      | _ => none

/-- `p i l[i]` for all positions, counting from `i0` -/
def allIdx {α : Type} (p : Nat → α → Bool) : Nat → List α → Bool
  | _, [] => true
  | i, a :: l => p i a && allIdx p (i + 1) l

def isNew (ty : Str) : Rec → Bool
  | .conNew t _ => t = ty
  | _ => false

def isStatusOf (ty : Str) (i : Nat) : Rec → Bool
  | .conStatus t j _ _ _ _ => t = ty && j = i
  | _ => false

/-- number of stored constraints of type `ty` = size of the item class named `ty` -/
def classSize (g : List Rec) (ty : Str) : Nat := (g.filter (isNew ty)).length

def countNew (g : List Rec) (ty : Str) (i : Nat) : Nat := (g.filter (· == Rec.conNew ty i)).length

def countStatus (g : List Rec) (ty : Str) (i : Nat) : Nat := (g.filter (isStatusOf ty i)).length

def groupCount (d : Delivered) (grp : Nat) : Nat := (d.cons.filter (fun c => c.grp == grp)).length

/-- `dest_cons(<n>)` -/
def destConsGroup? (name : Str) : Option Nat :=
  match dropPrefix cl!"dest_cons(" name with
  | none => none
  | some r =>
    match r.reverse with
    | ')' :: ds => tokNat? ds.reverse
    | _ => none

/-- size of the item class a link endpoint names -/
def nodeSize (g : List Rec) (d : Delivered) (name : Str) : Option Nat :=
  if name = cl!"src_vars()" then some d.nlVars
  else if name = cl!"src_cons()" then some (d.nlAlgCons + d.nlLogCons)
  else if name = cl!"src_objs()" then some d.nlObjs
  else if name = cl!"dest_vars()" then some d.nVars
  else if name = cl!"dest_objs()" then some d.nObjs
  else match destConsGroup? name with
    | some grp => some (groupCount d grp)
    | none => if classSize g name = 0 then none else some (classSize g name)

def refOk (g : List Rec) (d : Delivered) (r : NodeRef) : Bool :=
  match nodeSize g d r.node with
  | some sz => r.beg ≤ r.last && r.last < sz
  | none => false

/-- constraints the export marks as delivered (`final`: 1), in file order -/
def markedDelivered : List Rec → List (Str × Str)
  | [] => []
  | .conStatus ty _ nm _ _ true :: g => (ty, nm) :: markedDelivered g
  | _ :: g => markedDelivered g

def statusOk : Rec → Bool
  | .conStatus _ _ _ u b f => (f && !b && !u) || (!f && b)
  | _ => true

def single (r : NodeRef) : Bool := r.beg == r.last

/-- shape of a link record for its link type (valcvt-link.h, redef/MIP/range_con.h): CopyLink one range -> one range of
    equal length; One2ManyLink one item -> one range; Many2OneLink one range -> one item; Range2Slk one range constraint ->
    one equality constraint + one slack variable; other link types: at least one source and one destination -/
def linkShapeOk (lty : Str) (src dst : List NodeRef) : Bool :=
  if lty = cl!"CopyLink" then
    match src, dst with
    | [a], [b] => a.last - a.beg == b.last - b.beg
    | _, _ => false
  else if lty = cl!"One2ManyLink" then
    match src, dst with
    | [a], [_] => single a
    | _, _ => false
  else if lty = cl!"Many2OneLink" then
    match src, dst with
    | [_], [b] => single b
    | _, _ => false
  else if lty = cl!"Range2Slk<...>" then
    match src, dst with
    | [a], [b, c] => single a && single b && single c && c.node = cl!"dest_vars()"
    | _, _ => false
  else !src.isEmpty && !dst.isEmpty

/-- per-record conditions -/
def recOk (g : List Rec) (d : Delivered) : Rec → Bool
  | .comment => true
  | .var i b _ => i < d.nVars && (b == decide (i < d.nlVars))
  | .nlDefVar i => i < d.nlDefVars
  | .nlObj i => i < d.nlObjs
  | .nlCon i l => i < d.nlAlgCons + d.nlLogCons && (l == decide (d.nlAlgCons ≤ i))
  | .obj i _ => i < d.nObjs
  | .conNew ty i => i < classSize g ty && countNew g ty i == 1 && countStatus g ty i == 1
  | .conStatus ty i nm u b f => statusOk (.conStatus ty i nm u b f) && g.contains (.conNew ty i)
  | .conGroup _ _ => true
  | .link lty _ src dst => src.all (refOk g d) && dst.all (refOk g d) && linkShapeOk lty src dst

/-- the validator -/
def checkGraph (g : List Rec) (d : Delivered) : Bool :=
  (List.range d.nlVars).all (fun i => hasVar g i true) &&
  (List.range d.nlObjs).all (fun i => g.contains (.nlObj i)) &&
  (List.range d.nlDefVars).all (fun i => g.contains (.nlDefVar i)) &&
  (List.range (d.nlAlgCons + d.nlLogCons)).all (fun i => g.contains (.nlCon i (decide (d.nlAlgCons ≤ i)))) &&
  (List.range d.nVars).all (fun i => hasVar g i (decide (i < d.nlVars))) &&
  (List.range d.nObjs).all (fun i => hasObj g i) &&
  g.all (recOk g d) &&
  allIdx (fun i o => lastVar g i == some o) 0 d.vars &&
  allIdx (fun i o => lastObj g i == some o) 0 d.objs &&
  (markedDelivered g == d.cons.map (fun c => (c.ty, c.name))) &&
  d.cons.all (fun c => g.contains (.conGroup c.ty c.grp))

/-- decode all lines: every line must parse as a JSON object of a known record shape -/
def decodeLines : List Str → Option (List Rec)
  | [] => some []
  | l :: ls =>
    match parseLine l with
    | none => none
    | some ms =>
      match classify ms, decodeLines ls with
      | some r, some rs => some (r :: rs)
      | _, _ => none

/-- the whole check on a file (list of lines) -/
def checkFile (lines : List Str) (d : Delivered) : Bool :=
  match decodeLines lines with
  | some g => checkGraph g d
  | none => false

end MpVerif.C20

namespace MpVerif.C20
/-! ## diagnostics for the driver (not part of any theorem): which conjunct of `checkGraph` fails -/

def firstBad (g : List Rec) (d : Delivered) : Option (Nat × Rec) :=
  (g.zipIdx.find? (fun p => !recOk g d p.1)).map (fun p => (p.2, p.1))

def recTag : Rec → String
  | .comment => "comment" | .var _ _ _ => "var" | .nlDefVar _ => "nldefvar" | .nlObj _ => "nlobj"
  | .nlCon _ _ => "nlcon" | .obj _ _ => "obj" | .conNew _ _ => "connew" | .conStatus _ _ _ _ _ _ => "constatus"
  | .conGroup _ _ => "congroup" | .link _ _ _ _ => "link"

def failReasons (g : List Rec) (d : Delivered) : List String :=
  (if (List.range d.nlVars).all (fun i => hasVar g i true) then [] else ["nl-var-missing"]) ++
  (if (List.range d.nlObjs).all (fun i => g.contains (.nlObj i)) then [] else ["nl-obj-missing"]) ++
  (if (List.range d.nlDefVars).all (fun i => g.contains (.nlDefVar i)) then [] else ["nl-defvar-missing"]) ++
  (if (List.range (d.nlAlgCons + d.nlLogCons)).all (fun i => g.contains (.nlCon i (decide (d.nlAlgCons ≤ i)))) then [] else ["nl-con-missing"]) ++
  (if (List.range d.nVars).all (fun i => hasVar g i (decide (i < d.nlVars))) then [] else ["delivered-var-missing"]) ++
  (if (List.range d.nObjs).all (fun i => hasObj g i) then [] else ["delivered-obj-missing"]) ++
  (if allIdx (fun i o => lastVar g i == some o) 0 d.vars then [] else ["delivered-var-differs"]) ++
  (if allIdx (fun i o => lastObj g i == some o) 0 d.objs then [] else ["delivered-obj-differs"]) ++
  (match firstBad g d with
   | some (i, r) => ["bad-" ++ recTag r ++ "@" ++ toString i]
   | none => []) ++
  (if markedDelivered g == d.cons.map (fun c => (c.ty, c.name)) then []
   else if (markedDelivered g).map (·.1) == d.cons.map (·.ty) then ["delivered-name-mismatch"]
   else ["delivered-set-mismatch"]) ++
  (if d.cons.all (fun c => g.contains (.conGroup c.ty c.grp)) then [] else ["delivered-group-mismatch"])

end MpVerif.C20

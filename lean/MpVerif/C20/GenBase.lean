import MpVerif.C20.Model
/-!
# C20: target language of `translators/gen_c20json.py`

Hand-written once; the *generated* file `MpVerif/Gen/C20Json.lean` consists of terms built from these
combinators.  A `MiniJSONWriter` method body becomes a state transformer `Node → Str × Node`
(text written to `wrt_`, new `(kind_, n_written_)`); the loop body of `EscapeJSON` becomes a function on a
byte string (`List Nat`, values 0..255) and an index.
-/
namespace MpVerif.C20.GenBase
open MpVerif.C20

abbrev M := Node → Str × Node

def skip : M := fun nd => ([], nd)
/-- `wrt_.write(...)` -/
def emit (s : Str) : M := fun nd => (s, nd)
/-- `kind_ = Kind::k` -/
def setKind (k : Kind) : M := fun nd => ([], { nd with kind := k })
/-- `++n_written_` -/
def incN : M := fun nd => ([], { nd with n := nd.n + 1 })
/-- `a; b` -/
def seq (a b : M) : M := fun nd => ((a nd).1 ++ (b (a nd).2).1, (b (a nd).2).2)
/-- `if (Kind::k == kind_) t else e` -/
def ifKindEq (k : Kind) (t e : M) : M := fun nd => if nd.kind = k then t nd else e nd
/-- `if (n_written_) t else e` -/
def ifNNonzero (t e : M) : M := fun nd => if nd.n ≠ 0 then t nd else e nd
/-- `switch (kind_)` -/
def switchKind (f : Kind → M) : M := fun nd => f nd.kind nd

/-! ### bytes -/

/-- `s[i]` (the C++ never indexes out of range: every access is guarded by `i < s.size()` / `i+n < s.size()`) -/
def byteAt (s : List Nat) (i : Nat) : Nat := s.getD i 0

/-- ASCII code of a lower-case hex digit (`%x`) -/
def hexLo (n : Nat) : Nat := if n < 10 then 48 + n else 87 + n

/-- `snprintf(buf, 8, "\\u%04x", c)` for `c < 65536` -/
def fmtU4 (c : Nat) : List Nat := [92, 117, hexLo (c / 4096 % 16), hexLo (c / 256 % 16), hexLo (c / 16 % 16), hexLo (c % 16)]

/-- `for (int k=1; ok && k<=n; ++k) ok = f(k);` -/
def loopAnd (ok : Bool) (n : Nat) (f : Nat → Bool) : Bool := ok && (List.range' 1 n).all f

/-- `s.substr(pos, len)` -/
def substr (s : List Nat) (pos len : Nat) : List Nat := (s.drop pos).take len

end MpVerif.C20.GenBase

import MpVerif.C20.ModelGraph
/-!
# C20 model, part (e): the EXPORTER as a transition system

The producer of the records that `ModelGraph.lean` validates, mirroring the call sites:

* `ProblemFlattener::ExportCommonExpr / ExportObj / ExportAlgCon / ExportLogCon(i)` in the loops of `ConvertStandardItems`
  (item `i` = number of items of that kind exported so far)                          (`Ev.nlDefVar`, `Ev.nlObj`, `Ev.nlCon logical`)
* `FlatModel::AddObjective` → `ExportObjective(num_objs()-1, …)`; in-place rewrite of a flat objective (conic
  reformulation)                                                                                (`Ev.addObj`, `Ev.setObj`)
* `FlatModel::AddVar__basic / AddVars__basic` → `ExportVars(new index …)`                     (`Ev.addVar`)
* bound/type updates of a flat variable (no export until the push)                             (`Ev.setVar`)
* `ConstraintKeeper<…>::AddConstraint` → `ExportConstraint(cons_.size()-1, …)`                 (`Ev.store ty`)
* `ConstraintKeeper::MarkAsBridged / MarkAsUnused(i)` (guard `check_index(i)`)                 (`Ev.bridge`, `Ev.unuse`)
* `ValueNode::Add(n)` on one of the append-only value nodes `src_vars()`, `src_cons()`, `src_objs()`, `dest_objs()`
  (`ProblemFlattener::ConvertVars/Convert(obj)/ConvertAlgCon/ConvertLogicalCon`): the node's items ARE what has been
  added                                                                                         (`Ev.addItems node n`)
* an exported link record (`ExportLinkEntry`; when it is exported and with which extent is the subject of
  `ModelExport.lean`).  `ExportLinkEntry` has **no range check** and `ValueNode::Select` would silently grow a node, so
  the model has none either: the only condition on a link event is that each endpoint is a `NodeRange` value that exists,
  i.e. it starts where a range handed out by `Select`/`Add` starts and ends where one ends (`covered`; consecutive ranges
  are merged by `TryExtendBy`).  Ranges are handed out at the call sites only for the item just created
  (`AddVar` → `Select(v)`, `AddConstraintAndTryNoteResultVariable` → `SelectValueNodeRange(i)`, `Add()` per NL item and per
  delivered constraint), which is what makes "node size ≤ item count" an invariant rather than an assumption  (`Ev.link`)
* `FlatModel::PushModelTo`: `ExportVars(0, all, "Updated …")`, then for every keeper in priority order
  `AddAllUnbridged` (hand every non-bridged constraint to the ModelAPI and `ExportConStatus` for every stored
  constraint), then `LogConstraintGroups`                                                       (`Ev.finish`)

Events whose guard fails (an index outside the keeper — `check_index` —, anything but a link after the push, a second
push, an endpoint that is not made of handed-out ranges) change nothing but the counter `rejected`.
The constraint types (keepers) and their order, the constraint group of each type, the final names and the sizes of
the NL-side value nodes are parameters (`Cfg`).
-/
namespace MpVerif.C20

inductive CStat where
  | fresh | bridged | unused
  deriving DecidableEq, Repr, Inhabited

structure Cfg where
  types : List Str                    -- keepers in priority order (distinct)
  grp : Str → Nat                     -- constraint group of a type in the ModelAPI
  name : Str → Nat → Str              -- final name of stored constraint `i` of type `ty`
  addNodes : List Str                 -- the append-only value nodes: `src_vars()`, `src_cons()`, `src_objs()`, `dest_objs()`

structure XState where
  vars : List (Bool × VarInfo) := []          -- flat variables: (is_from_nl, current type/bounds class)
  cons : Str → List CStat := fun _ => []      -- stored constraints per type
  out : List Rec := []                        -- the exported records
  delivered : List DCon := []                 -- what `AddAllUnbridged` handed to the ModelAPI
  extra : Str → Nat := fun _ => 0             -- number of items `Add`ed to each append-only node
  created : List NodeRef := []                -- every `NodeRange` handed out by `Select`/`Add` (except on `dest_cons(g)`)
  finished : Bool := false
  rejected : Nat := 0
  nlObjs : Nat := 0                           -- NL objectives exported so far
  nlCons : List Bool := []                    -- NL constraints exported so far (true = logical)
  nlDefs : Nat := 0                           -- NL common expressions exported so far
  objs : List ObjInfo := []                   -- flat objectives (current structure)

inductive Ev where
  | addVar (fromNl : Bool) (info : VarInfo)
  | setVar (i : Nat) (info : VarInfo)
  | store (ty : Str)
  | bridge (ty : Str) (i : Nat)
  | unuse (ty : Str) (i : Nat)
  | addItems (node : Str) (n : Nat)
  | nlObj
  | nlCon (logical : Bool)
  | nlDefVar
  | addObj (info : ObjInfo)
  | setObj (i : Nat) (info : ObjInfo)
  | link (lty : Str) (entry : Nat) (src dst : List NodeRef)
  | finish

def setAt {α : Type} (l : List α) (i : Nat) (a : α) : List α := l.set i a

def updCons (f : Str → List CStat) (ty : Str) (l : List CStat) : Str → List CStat :=
  fun t => if t = ty then l else f t

/-- status records and deliveries of one keeper, constraints numbered from `i` -/
def keeperFinish (cfg : Cfg) (ty : Str) : Nat → List CStat → List Rec × List DCon
  | _, [] => ([], [])
  | i, st :: rest =>
    let p := keeperFinish cfg ty (i + 1) rest
    (Rec.conStatus ty i (cfg.name ty i) (st == .unused) (st != .fresh) (st == .fresh) :: p.1,
     if st = .fresh then ⟨ty, cfg.grp ty, cfg.name ty i⟩ :: p.2 else p.2)

def allFinish (cfg : Cfg) (cons : Str → List CStat) : List Str → List Rec × List DCon
  | [] => ([], [])
  | ty :: tys =>
    let a := keeperFinish cfg ty 0 (cons ty)
    let b := allFinish cfg cons tys
    (a.1 ++ b.1, a.2 ++ b.2)

/-- `ExportVars(0, all …)` -/
def varRecs : Nat → List (Bool × VarInfo) → List Rec
  | _, [] => []
  | i, (b, info) :: rest => Rec.var i b info :: varRecs (i + 1) rest

/-- current size of the item class a link endpoint names (the value node's size at this moment) -/
def sizeNow (cfg : Cfg) (s : XState) (node : Str) : Option Nat :=
  if node = cl!"dest_vars()" then some s.vars.length
  else if cfg.addNodes.contains node then some (s.extra node)
  else
      match destConsGroup? node with
      | some g => some (s.delivered.filter (fun c => c.grp == g)).length
      | none => if cfg.types.contains node then some (s.cons node).length else none

def refIn (cfg : Cfg) (s : XState) (r : NodeRef) : Bool :=
  match sizeNow cfg s r.node with
  | some sz => decide (r.beg ≤ r.last) && decide (r.last < sz)
  | none => false

/-- is the endpoint a `NodeRange` that exists: on `dest_cons(g)` one `Add()`ed range per delivered constraint; elsewhere it
    starts where a handed-out range starts and ends where one ends -/
def covered (cfg : Cfg) (s : XState) (r : NodeRef) : Bool :=
  decide (r.beg ≤ r.last) &&
  (match destConsGroup? r.node with
   | some g => !(r.node = cl!"dest_vars()") && !cfg.addNodes.contains r.node && decide (r.last < (s.delivered.filter (fun c => c.grp == g)).length)
   | none => s.created.any (fun a => a.node = r.node && a.last = r.last))

def reject (s : XState) : XState := { s with rejected := s.rejected + 1 }

/-- `PushObjectivesTo`: `ExportObjective(i, obj)` for every flat objective -/
def objRecs : Nat → List ObjInfo → List Rec
  | _, [] => []
  | i, o :: rest => Rec.obj i o :: objRecs (i + 1) rest

/-- the records `PushModelTo` appends -/
def finishRecs (cfg : Cfg) (s : XState) : List Rec :=
  varRecs 0 s.vars ++ (objRecs 0 s.objs ++ ((allFinish cfg s.cons cfg.types).1 ++ cfg.types.map (fun ty => Rec.conGroup ty (cfg.grp ty))))

def finishState (cfg : Cfg) (s : XState) : XState :=
  { s with out := s.out ++ finishRecs cfg s, delivered := (allFinish cfg s.cons cfg.types).2, finished := true }

/-- `AddVar`: new flat variable, its record, and the range `Select(v)` of the new item -/
def addVarState (s : XState) (b : Bool) (info : VarInfo) : XState :=
  { s with vars := s.vars ++ [(b, info)], out := s.out ++ [Rec.var s.vars.length b info],
           created := s.created ++ [⟨cl!"dest_vars()", s.vars.length, s.vars.length⟩] }

/-- `AddConstraint` + `ExportConstraint` + `SelectValueNodeRange(i)` of the new item -/
def storeState (s : XState) (ty : Str) : XState :=
  { s with cons := updCons s.cons ty (s.cons ty ++ [.fresh]), out := s.out ++ [Rec.conNew ty (s.cons ty).length],
           created := s.created ++ [⟨ty, (s.cons ty).length, (s.cons ty).length⟩] }

/-- `ValueNode::Add(n)` on an append-only node -/
def addItemsState (s : XState) (node : Str) (n : Nat) : XState :=
  { s with extra := fun t => if t = node then s.extra node + n else s.extra t,
           created := s.created ++ [⟨node, s.extra node, s.extra node + n - 1⟩] }

def xev (cfg : Cfg) (s : XState) : Ev → XState
  | .addVar b info =>
    if s.finished then reject s
    else addVarState s b info
  | .setVar i info =>
    if s.finished then reject s
    else match s.vars[i]? with
      | some (b, _) => { s with vars := setAt s.vars i (b, info) }
      | none => reject s
  | .store ty =>
    if s.finished || !cfg.types.contains ty then reject s
    else storeState s ty
  | .bridge ty i =>
    if s.finished || !cfg.types.contains ty || !decide (i < (s.cons ty).length) then reject s
    else { s with cons := updCons s.cons ty (setAt (s.cons ty) i .bridged) }
  | .unuse ty i =>
    if s.finished || !cfg.types.contains ty || !decide (i < (s.cons ty).length) then reject s
    else { s with cons := updCons s.cons ty (setAt (s.cons ty) i .unused) }
  | .addItems node n =>
    if s.finished || !cfg.addNodes.contains node || n = 0 then reject s
    else addItemsState s node n
  | .nlObj =>
    if s.finished then reject s else { s with out := s.out ++ [Rec.nlObj s.nlObjs], nlObjs := s.nlObjs + 1 }
  | .nlCon l =>
    if s.finished then reject s else { s with out := s.out ++ [Rec.nlCon s.nlCons.length l], nlCons := s.nlCons ++ [l] }
  | .nlDefVar =>
    if s.finished then reject s else { s with out := s.out ++ [Rec.nlDefVar s.nlDefs], nlDefs := s.nlDefs + 1 }
  | .addObj info =>
    if s.finished then reject s else { s with out := s.out ++ [Rec.obj s.objs.length info], objs := s.objs ++ [info] }
  | .setObj i info =>
    if s.finished || !decide (i < s.objs.length) then reject s else { s with objs := setAt s.objs i info }
  | .link lty e src dst =>
    if src.all (covered cfg s) && dst.all (covered cfg s) then { s with out := s.out ++ [Rec.link lty e src dst] }
    else reject s
  | .finish =>
    if s.finished then reject s
    else finishState cfg s

def xevs (cfg : Cfg) (s : XState) (evs : List Ev) : XState := evs.foldl (xev cfg) s

def isStatusTy (ty : Str) : Rec → Bool
  | .conStatus t _ _ _ _ _ => t = ty
  | _ => false

end MpVerif.C20

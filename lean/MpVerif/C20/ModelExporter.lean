import MpVerif.C20.ModelGraph
/-!
# C20 model, part (e): the EXPORTER as a transition system

The producer of the records that `ModelGraph.lean` validates, mirroring the call sites:

* `FlatModel::AddVar__basic / AddVars__basic` → `ExportVars(new index …)`                     (`Ev.addVar`)
* bound/type updates of a flat variable (no export until the push)                             (`Ev.setVar`)
* `ConstraintKeeper<…>::AddConstraint` → `ExportConstraint(cons_.size()-1, …)`                 (`Ev.store ty`)
* `ConstraintKeeper::MarkAsBridged / MarkAsUnused(i)` (guard `check_index(i)`)                 (`Ev.bridge`, `Ev.unuse`)
* an exported link record (`ExportLinkEntry`; when it is exported and with which extent is the subject of
  `ModelExport.lean`) — guarded by "every endpoint lies inside the size its value node has **now**"  (`Ev.link`)
* `FlatModel::PushModelTo`: `ExportVars(0, all, "Updated …")`, then for every keeper in priority order
  `AddAllUnbridged` (hand every non-bridged constraint to the ModelAPI and `ExportConStatus` for every stored
  constraint), then `LogConstraintGroups`                                                       (`Ev.finish`)

Events whose guard fails (an index outside the keeper, an endpoint outside its node, anything but a link after the
push, a second push) change nothing but the counter `rejected`; they correspond to `assert`s in the C++.
The constraint types (keepers) and their order, the constraint group of each type, the final names and the sizes of
the NL-side value nodes are parameters (`Cfg`).
-/
namespace MpVerif.C20

inductive CStat where
  | fresh | bridged | unused
  deriving DecidableEq, Repr, Inhabited

structure Cfg where
  types : List Str                    -- keepers in priority order (distinct)
  grp : Str → Nat                     -- constraint group of a type in the ModelAPI
  name : Str → Nat → Str              -- final name of stored constraint `i` of type `ty`
  static : List (Str × Nat)           -- sizes of `src_vars()`, `src_cons()`, `src_objs()`, `dest_objs()`

structure XState where
  vars : List (Bool × VarInfo) := []          -- flat variables: (is_from_nl, current type/bounds class)
  cons : Str → List CStat := fun _ => []      -- stored constraints per type
  out : List Rec := []                        -- the exported records
  delivered : List DCon := []                 -- what `AddAllUnbridged` handed to the ModelAPI
  finished : Bool := false
  rejected : Nat := 0

inductive Ev where
  | addVar (fromNl : Bool) (info : VarInfo)
  | setVar (i : Nat) (info : VarInfo)
  | store (ty : Str)
  | bridge (ty : Str) (i : Nat)
  | unuse (ty : Str) (i : Nat)
  | link (lty : Str) (entry : Nat) (src dst : List NodeRef)
  | finish

def setAt {α : Type} (l : List α) (i : Nat) (a : α) : List α := l.set i a

def updCons (f : Str → List CStat) (ty : Str) (l : List CStat) : Str → List CStat :=
  fun t => if t = ty then l else f t

/-- status records and deliveries of one keeper, constraints numbered from `i` -/
def keeperFinish (cfg : Cfg) (ty : Str) : Nat → List CStat → List Rec × List DCon
  | _, [] => ([], [])
  | i, st :: rest =>
    let p := keeperFinish cfg ty (i + 1) rest
    (Rec.conStatus ty i (cfg.name ty i) (st == .unused) (st != .fresh) (st == .fresh) :: p.1,
     if st = .fresh then ⟨ty, cfg.grp ty, cfg.name ty i⟩ :: p.2 else p.2)

def allFinish (cfg : Cfg) (cons : Str → List CStat) : List Str → List Rec × List DCon
  | [] => ([], [])
  | ty :: tys =>
    let a := keeperFinish cfg ty 0 (cons ty)
    let b := allFinish cfg cons tys
    (a.1 ++ b.1, a.2 ++ b.2)

/-- `ExportVars(0, all …)` -/
def varRecs : Nat → List (Bool × VarInfo) → List Rec
  | _, [] => []
  | i, (b, info) :: rest => Rec.var i b info :: varRecs (i + 1) rest

/-- current size of the item class a link endpoint names (the value node's size at this moment) -/
def sizeNow (cfg : Cfg) (s : XState) (node : Str) : Option Nat :=
  if node = cl!"dest_vars()" then some s.vars.length
  else match cfg.static.lookup node with
    | some n => some n
    | none =>
      match destConsGroup? node with
      | some g => some (s.delivered.filter (fun c => c.grp == g)).length
      | none => if cfg.types.contains node then some (s.cons node).length else none

def refIn (cfg : Cfg) (s : XState) (r : NodeRef) : Bool :=
  match sizeNow cfg s r.node with
  | some sz => decide (r.beg ≤ r.last) && decide (r.last < sz)
  | none => false

def reject (s : XState) : XState := { s with rejected := s.rejected + 1 }

/-- the records `PushModelTo` appends -/
def finishRecs (cfg : Cfg) (s : XState) : List Rec :=
  varRecs 0 s.vars ++ ((allFinish cfg s.cons cfg.types).1 ++ cfg.types.map (fun ty => Rec.conGroup ty (cfg.grp ty)))

def finishState (cfg : Cfg) (s : XState) : XState :=
  { s with out := s.out ++ finishRecs cfg s, delivered := (allFinish cfg s.cons cfg.types).2, finished := true }

def xev (cfg : Cfg) (s : XState) : Ev → XState
  | .addVar b info =>
    if s.finished then reject s
    else { s with vars := s.vars ++ [(b, info)], out := s.out ++ [Rec.var s.vars.length b info] }
  | .setVar i info =>
    if s.finished then reject s
    else match s.vars[i]? with
      | some (b, _) => { s with vars := setAt s.vars i (b, info) }
      | none => reject s
  | .store ty =>
    if s.finished || !cfg.types.contains ty then reject s
    else { s with cons := updCons s.cons ty (s.cons ty ++ [.fresh]), out := s.out ++ [Rec.conNew ty (s.cons ty).length] }
  | .bridge ty i =>
    if s.finished || !cfg.types.contains ty || !decide (i < (s.cons ty).length) then reject s
    else { s with cons := updCons s.cons ty (setAt (s.cons ty) i .bridged) }
  | .unuse ty i =>
    if s.finished || !cfg.types.contains ty || !decide (i < (s.cons ty).length) then reject s
    else { s with cons := updCons s.cons ty (setAt (s.cons ty) i .unused) }
  | .link lty e src dst =>
    if src.all (refIn cfg s) && dst.all (refIn cfg s) then { s with out := s.out ++ [Rec.link lty e src dst] }
    else reject s
  | .finish =>
    if s.finished then reject s
    else finishState cfg s

def xevs (cfg : Cfg) (s : XState) (evs : List Ev) : XState := evs.foldl (xev cfg) s

def isStatusTy (ty : Str) : Rec → Bool
  | .conStatus t _ _ _ _ _ => t = ty
  | _ => false

end MpVerif.C20

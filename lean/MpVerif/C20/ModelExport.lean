import MpVerif.C20.Model
/-!
# C20 model, part (b): lazy export of link entries

Mirrors `include/mp/valcvt.h` (`ValuePresolverImpl::Add`, `ExportRemainingEntries`,
`FinishExportingLinkEntries`, `ExportLinkEntry`, `WriteNodes`) and the `AddEntry` methods of
`CopyLink` and `Many2ManyLink` (`One2ManyLink`, `Many2OneLink`) in `include/mp/valcvt-link.h`,
one link object per kind, export switched on from the start.

* `CopyLink::AddEntry` extends its **last entry in place** when source and destination ranges are
  both extendable – without registering anything – but (since /repo 5f9dc1e) only if that entry is the
  most recently registered one in the presolver's chain (`IsLastRegisteredEntry`);
* `Many2ManyLink::AddEntry` does the same when the sources (resp. targets) are equal and the other
  side is extendable (`TryExtendBy` mutates inside the condition);
* `Add(LinkRange)` extends the last registered range if it is the same link and consecutive,
  otherwise it first exports everything registered so far and then appends;
* an exported record shows the extent the entry has *at export time*.
-/
namespace MpVerif.C20

/-- `NodeRange`: value node (by name) and half-open index range -/
structure NRange where
  node : Str
  beg : Nat
  end_ : Nat
  deriving DecidableEq, Repr, Inhabited

def NRange.extendableBy (a b : NRange) : Bool := a.node = b.node && a.end_ = b.beg
def NRange.extendBy (a b : NRange) : NRange := { a with end_ := b.end_ }

inductive LKind where
  | copy | one2many | many2one
  deriving DecidableEq, Repr, Inhabited

def LKind.typeName : LKind → Str
  | .copy => cl!"CopyLink"
  | .one2many => cl!"One2ManyLink"
  | .many2one => cl!"Many2OneLink"

abbrev Entry := NRange × NRange

/-- `LinkRange`: link object and range of its entry indices -/
structure LRange where
  link : LKind
  beg : Nat
  end_ : Nat
  deriving DecidableEq, Repr, Inhabited

/-- an exported link record -/
structure XRec where
  range : Nat        -- `i_exported_` at export time (first component of `link_index`)
  link : LKind
  entry : Nat
  src : NRange
  dst : NRange
  deriving DecidableEq, Repr, Inhabited

structure PState where
  copyE : List Entry := []
  o2mE : List Entry := []
  m2oE : List Entry := []
  brl : List LRange := []
  iExp : Nat := 0
  out : List XRec := []
  /-- instrumentation (not in the C++): an entry was extended in place after it had been exported -/
  late : Bool := false
  deriving Repr, Inhabited

def PState.ents (s : PState) : LKind → List Entry
  | .copy => s.copyE
  | .one2many => s.o2mE
  | .many2one => s.m2oE

def PState.setEnts (s : PState) (k : LKind) (l : List Entry) : PState :=
  match k with
  | .copy => { s with copyE := l }
  | .one2many => { s with o2mE := l }
  | .many2one => { s with m2oE := l }

def dummy : Entry := (⟨[], 0, 0⟩, ⟨[], 0, 0⟩)

/-- records for the entries of one registered range, with their current extents -/
def exportRange (s : PState) (i : Nat) (r : LRange) : List XRec :=
  (List.range' r.beg (r.end_ - r.beg)).map (fun j =>
    let e := (s.ents r.link).getD j dummy
    ⟨i, r.link, j, e.1, e.2⟩)

def exportFrom (s : PState) : Nat → List LRange → List XRec
  | _, [] => []
  | i, r :: rs => exportRange s i r ++ exportFrom s (i + 1) rs

/-- `ExportRemainingEntries` -/
def exportRemaining (s : PState) : PState :=
  { s with out := s.out ++ exportFrom s s.iExp (s.brl.drop s.iExp), iExp := max s.iExp s.brl.length }

/-- `ValuePresolverImpl::Add(LinkRange)` -/
def addRange (s : PState) (br : LRange) : PState :=
  match s.brl.getLast? with
  | some b =>
    if b.link = br.link && b.end_ = br.beg then
      { s with brl := s.brl.dropLast ++ [{ b with end_ := br.end_ }] }
    else
      let s1 := exportRemaining s
      { s1 with brl := s1.brl ++ [br] }
  | none =>
    let s1 := exportRemaining s
    { s1 with brl := s1.brl ++ [br] }

/-- push a new entry and `RegisterLinkIndex(entries_.size()-1)` -/
def pushEntry (s : PState) (k : LKind) (e : Entry) : PState :=
  let n := (s.ents k).length
  addRange (s.setEnts k (s.ents k ++ [e])) ⟨k, n, n + 1⟩

def isExported (s : PState) (k : LKind) (j : Nat) : Bool :=
  s.out.any (fun x => x.link = k && x.entry = j)

/-- replace the last entry in place -/
def replaceLast (s : PState) (k : LKind) (e : Entry) : PState :=
  let l := s.ents k
  { s.setEnts k (l.dropLast ++ [e]) with late := s.late || isExported s k (l.length - 1) }

/-- `ValuePresolverImpl::IsLastRegisteredEntry(link, entries_.size()-1)` -/
def isLastReg (s : PState) (k : LKind) : Bool :=
  match s.brl.getLast? with
  | some b => b.link = k && b.end_ = (s.ents k).length
  | none => false

/-- `CopyLink::AddEntry` / `Many2ManyLink::AddEntry` -/
def addEntry (s : PState) (k : LKind) (e : Entry) : PState :=
  match (s.ents k).getLast? with
  | none => pushEntry s k e
  | some last =>
    if !isLastReg s k then pushEntry s k e else
    match k with
    | .copy =>
      if last.1.extendableBy e.1 && last.2.extendableBy e.2 then
        replaceLast s k (last.1.extendBy e.1, last.2.extendBy e.2)
      else pushEntry s k e
    | _ =>
      if last.1 = e.1 && last.2.extendableBy e.2 then replaceLast s k (last.1, last.2.extendBy e.2)
      else if last.2 = e.2 && last.1.extendableBy e.1 then replaceLast s k (last.1.extendBy e.1, last.2)
      else pushEntry s k e

inductive XOp where
  | add (k : LKind) (e : Entry)
  | finish
  deriving Repr, Inhabited

def xstep (s : PState) : XOp → PState
  | .add k e => addEntry s k e
  | .finish => exportRemaining s

def xrun (s : PState) (ops : List XOp) : PState := ops.foldl xstep s

/-- `AllEntriesExported()` -/
def allEntriesExported (s : PState) : Bool := s.brl.length == s.iExp

/-- current extent of entry `j` of link `k` -/
def extentOf (s : PState) (k : LKind) (j : Nat) : Entry := (s.ents k).getD j dummy

/-! ### the text of an export record (`ExportLinkEntry`, `WriteNodes`) -/

def nodeJson (r : NRange) : Json :=
  .obj (.cons r.node
    (if r.beg + 1 = r.end_ then .num (natStr r.beg)
     else .arr (.cons (.num (natStr r.beg)) (.cons (.num (natStr (r.end_ - 1))) .nil))) .nil)

def xrecJson (x : XRec) : Json :=
  .obj (.cons cl!"link_index" (.arr (.cons (.num (natStr x.range)) (.cons (.num (natStr x.entry)) .nil)))
       (.cons cl!"link_type" (.str x.link.typeName)
       (.cons cl!"src_nodes" (.arr (.cons (nodeJson x.src) .nil))
       (.cons cl!"dest_nodes" (.arr (.cons (nodeJson x.dst) .nil)) .nil))))

/-- the exported text: one line per record, written with the writer machine -/
def exportText (s : PState) : Str := s.out.flatMap (fun x => writeText (xrecJson x) ++ ['\n'])

/-! ## diagnostics for the coverage note (not used in theorems): which arm of the model functions an op takes -/

def kindTag : Kind → String
  | .unset => "unset" | .scalar => "scalar" | .array => "array" | .dict => "dict" | .closed => "closed"

/-- arm of `step` taken by `op` in state `s` -/
def stepArm (s : WState) (op : Op) : String :=
  let opn := match op with
    | .key _ => "key" | .elem => "elem"
    | .scalar t => if isNonFinite t then "scalar-nonfinite" else "scalar"
    | .string _ => "string" | .close => "close"
  match s.stack with
  | [] => opn ++ "/empty-stack"
  | nd :: _ => opn ++ "/" ++ kindTag nd.kind ++ (if nd.n = 0 then "/first" else "/later")

def runArms (s : WState) : List Op → List String
  | [] => []
  | op :: ops => stepArm s op :: runArms (step s op) ops

/-- arm of `escChar` -/
def escArm (c : Char) : String :=
  if c = '"' then "quote" else if c = '\\' then "backslash" else if c = '\n' then "lf" else if c = '\r' then "cr"
  else if c = '\t' then "tab" else if c.toNat < 32 then "u00XX" else "plain"

/-- arm of `addEntry` (and of `addRange` when an entry is pushed) -/
def addEntryArm (s : PState) (k : LKind) (e : Entry) : String :=
  let reg := match s.brl.getLast? with
    | some b => if b.link = k && b.end_ = (s.ents k).length then "range-extended" else "range-new(exports-pending)"
    | none => "range-first"
  match (s.ents k).getLast? with
  | none => "first-entry/" ++ reg
  | some last =>
    if !isLastReg s k then "not-last-registered:push/" ++ reg else
    match k with
    | .copy => if last.1.extendableBy e.1 && last.2.extendableBy e.2 then "copy:extend-in-place" else "copy:push/" ++ reg
    | _ =>
      if last.1 = e.1 && last.2.extendableBy e.2 then "m2m:extend-dst"
      else if last.2 = e.2 && last.1.extendableBy e.1 then "m2m:extend-src" else "m2m:push/" ++ reg

def xrunArms (s : PState) : List XOp → List String
  | [] => []
  | .add k e :: ops => addEntryArm s k e :: xrunArms (xstep s (.add k e)) ops
  | .finish :: ops => (if s.iExp < s.brl.length then "finish:exports" else "finish:nothing-left") :: xrunArms (xstep s .finish) ops

end MpVerif.C20

import MpVerif.C08.LemmasHistory
import MpVerif.C08.GenExpected
import MpVerif.Gen.C08Easy
/-! Lemmas tying the hand model to the definitions generated from the source (`MpVerif.Gen.C08Easy`). -/
namespace MpVerif.C08
open MpVerif.Gen.C08Easy

/-- `vars.type_[j]` as the code reads it (only read when the pointer is non-null) -/
def tyAt (m : MatrixModel) (j : Nat) : Int :=
  match m.types with
  | none => 0
  | some t => (t.getD j 0 : Nat)

def lbAt (m : MatrixModel) (j : Nat) : Bnd := m.lb.getD j (.fin 0)
def ubAt (m : MatrixModel) (j : Nat) : Bnd := m.ub.getD j (.fin 0)

/-- one iteration of the generated column loop of `PermuteVars` on the model's data -/
def stepOf (m : MatrixModel) (j : Nat) (s : Int × Int × Int × Int) : Int × Int × Int × Int :=
  permuteStep (nlv m j) m.types.isSome (tyAt m j) (lbAt m j) (ubAt m j) s.1 s.2.1 s.2.2.1 s.2.2.2

theorem abs_eq_zero_iff (q : Rat) : ((if q < 0 then -q else q) = 0) ↔ q = 0 := by
  constructor
  · intro h; split at h <;> grind
  · intro h; subst h; decide

theorem notBin_eq (lb ub : Bnd) :
    (dne (dlit (0 : Rat)) (dfabs lb) || dne (dlit (1 : Rat)) ub) = !(lb == .fin 0 && ub == .fin 1) := by
  have h1 : dne (dlit (0 : Rat)) (dfabs lb) = !(lb == .fin 0) := by
    cases lb with
    | ninf => rfl
    | pinf => rfl
    | fin q =>
      simp only [dne, dlit, dfabs, bne, Bool.not_eq_eq_eq_not, Bool.not_not]
      by_cases h : q = 0
      · subst h; decide
      · have h' : ¬ (if q < 0 then -q else q) = 0 := fun hh => h ((abs_eq_zero_iff q).mp hh)
        have e1 : (Bnd.fin 0 == Bnd.fin (if q < 0 then -q else q)) = false := by
          rw [beq_eq_false_iff_ne]; intro hh; injection hh with hh; exact h' hh.symm
        have e2 : (Bnd.fin q == Bnd.fin 0) = false := by
          rw [beq_eq_false_iff_ne]; intro hh; injection hh with hh; exact h hh
        rw [e1, e2]
  have h2 : dne (dlit (1 : Rat)) ub = !(ub == .fin 1) := by
    simp only [dne, dlit, bne]
    congr 1
    by_cases h : ub = .fin 1
    · subst h; decide
    · rw [beq_eq_false_iff_ne.mpr h, beq_eq_false_iff_ne.mpr (fun hh => h hh.symm)]
  rw [h1, h2]
  cases (lb == Bnd.fin 0) <;> cases (ub == Bnd.fin 1) <;> rfl

theorem bne_zero_cast (x : Nat) : (x != 0) = decide ((x : Int) ≠ 0) := by
  by_cases h : x = 0
  · subst h; rfl
  · have h' : ((x : Nat) : Int) ≠ 0 := by omega
    rw [decide_eq_true h']
    exact bne_iff_ne.mpr h

theorem isInt_eq_gen (m : MatrixModel) (j : Nat) :
    isInt m j = (m.types.isSome && decide (tyAt m j ≠ 0)) := by
  unfold isInt tyAt
  cases m.types with
  | none => rfl
  | some t =>
    simp only [Option.isSome_some, Bool.true_and]
    exact bne_zero_cast _

/-- the generated loop body computes the model's key and adds the model's class indicators to the counters -/
theorem stepOf_eq (m : MatrixModel) (j : Nat) (s : Int × Int × Int × Int) :
    stepOf m j s =
      (key m j,
       s.2.1 + b2i (isInt m j && nlv m j),
       s.2.2.1 + b2i (isInt m j && !nlv m j && !isBin01 m j),
       s.2.2.2 + b2i (isInt m j && !nlv m j && isBin01 m j)) := by
  unfold stepOf permuteStep key
  rw [notBin_eq, isInt_eq_gen]
  have hb : isBin01 m j = (lbAt m j == .fin 0 && ubAt m j == .fin 1) := rfl
  rw [hb]
  generalize nlv m j = a
  generalize (m.types.isSome && decide (tyAt m j ≠ 0)) = b
  generalize (lbAt m j == Bnd.fin 0 && ubAt m j == Bnd.fin 1) = c
  cases a <;> cases b <;> cases c <;> simp [b2i]

theorem foldl_stepOf (m : MatrixModel) (l : List Nat) (s : Int × Int × Int × Int) :
    let r := l.foldl (fun s j => stepOf m j s) s
    r.2.1 = s.2.1 + (l.countP (fun j => isInt m j && nlv m j) : Nat) ∧
    r.2.2.1 = s.2.2.1 + (l.countP (fun j => isInt m j && !nlv m j && !isBin01 m j) : Nat) ∧
    r.2.2.2 = s.2.2.2 + (l.countP (fun j => isInt m j && !nlv m j && isBin01 m j) : Nat) := by
  induction l generalizing s with
  | nil => simp
  | cons a t ih =>
    simp only [List.foldl_cons, List.countP_cons]
    have := ih (stepOf m a s)
    rw [stepOf_eq m a s] at this ⊢
    simp only at this
    obtain ⟨h1, h2, h3⟩ := this
    refine ⟨?_, ?_, ?_⟩
    · rw [h1]; cases (isInt m a && nlv m a) <;> simp [b2i] <;> omega
    · rw [h2]; cases (isInt m a && !nlv m a && !isBin01 m a) <;> simp [b2i] <;> omega
    · rw [h3]; cases (isInt m a && !nlv m a && isBin01 m a) <;> simp [b2i] <;> omega

theorem and3_eq_mod4 (k : Nat) : cbitand (k : Int) 3 = ((k % 4 : Nat) : Int) := by
  unfold cbitand
  have h1 : ((k : Int)).toNat = k := Int.toNat_natCast k
  have h2 : (3 : Int).toNat = 3 := rfl
  rw [h1, h2]
  have := Nat.and_two_pow_sub_one_eq_mod k 2
  have h3 : (2 ^ 2 - 1 : Nat) = 3 := rfl
  rw [h3] at this
  rw [this]
  rfl

/-- the caller contract of `NLModel` (nl-model.h: arrays of `num_col_` / `num_row_` / `num_nz_` entries, indices in range,
row starts nondecreasing and inside the nonzero array) -/
structure WF (m : MatrixModel) : Prop where
  lb_len : m.lb.length = m.n
  ub_len : m.ub.length = m.n
  types_len : ∀ t, m.types = some t → t.length = m.n
  c_len : ∀ c, m.c = some c → c.length = m.n
  q_start_len : m.Q.start.length = m.n
  q_val_len : m.Q.value.length = m.Q.index.length
  q_idx : ∀ c ∈ m.Q.index, c < m.n
  q_start_le : ∀ s ∈ m.Q.start, s ≤ m.Q.nnz
  q_start_mono : m.Q.start.Pairwise (· ≤ ·)
  a_start_len : m.A.start.length = m.m
  a_val_len : m.A.value.length = m.A.index.length
  a_idx : ∀ c ∈ m.A.index, c < m.n
  a_start_le : ∀ s ∈ m.A.start, s ≤ m.A.nnz
  a_start_mono : m.A.start.Pairwise (· ≤ ·)
  rlb_len : m.rlb.length = m.m
  rub_len : m.rub.length = m.m
  ws_idx : ∀ e ∈ m.ws, e.1 < m.n
  dws_idx : ∀ e ∈ m.dws, e.1 < m.m

theorem walkDesc_pos_lt (start : List Nat) (N : Nat) (hs : ∀ s ∈ start, s ≤ N) (k pe : Nat) (hpe : pe ≤ N) :
    ∀ e ∈ walkDesc start k pe, e.2 < N := by
  induction k generalizing pe with
  | zero => simp [walkDesc]
  | succ k ih =>
    intro e he
    rw [walkDesc_succ, List.mem_append] at he
    rcases he with he | he
    · simp only [rowList, List.mem_map, List.mem_range'_1] at he
      obtain ⟨p, hp, rfl⟩ := he
      show p < N
      omega
    · have hk : start.getD k 0 ≤ N := by
        by_cases h : k < start.length
        · rw [getD_eq_getElem' _ _ h]; exact hs _ (List.getElem_mem h)
        · rw [List.getD_eq_getElem?_getD, List.getElem?_eq_none (by omega)]; exact Nat.zero_le _
      exact ih _ hk e he

theorem mem_takeWhile_true {α} {p : α → Bool} {l : List α} {x : α} (h : x ∈ l.takeWhile p) : p x = true := by
  induction l with
  | nil => cases h
  | cons a t ih =>
    rw [List.takeWhile_cons] at h
    cases hp : p a
    · rw [hp] at h; cases h
    · rw [hp] at h
      rcases List.mem_cons.mp h with h | h
      · rw [h]; exact hp
      · exact ih h

end MpVerif.C08

import MpVerif.C08.LemmasR5
/-! Round 5: the two remaining integer loops of the mechanism as folds of GENERATED step functions:
the CSR row walk with `pos_end`, and the reverse-mapping loop of `PermuteVars` (+ `VPerm` / `VPermInv`). -/
namespace MpVerif.C08
open MpVerif.Gen.C08Easy

/-! ### row walk -/

/-- `for (pos = …; cond pos pos_end; pos = inc pos) visit pos` with explicit fuel -/
def innerLoop (cond : Int → Int → Bool) (inc : Int → Int) : Nat → Int → Int → List Int
  | 0, _, _ => []
  | f + 1, pos, pe => if cond pos pe then pos :: innerLoop cond inc f (inc pos) pe else []

/-- `for (i = k; i--; ) { for (pos = init start[i]; …) visit (i,pos); pos_end = next start[i]; }`; the fuel of the inner
loop is the distance to `pos_end` (lemma `innerLoop_more_fuel`: more fuel changes nothing, the loop stops by its own test) -/
def outerLoop (init next : Int → Int) (cond : Int → Int → Bool) (inc : Int → Int) (start : List Nat) :
    Nat → Int → List (Nat × Int)
  | 0, _ => []
  | i + 1, pe =>
    let si : Int := (start.getD i 0 : Nat)
    (innerLoop cond inc (pe - init si).toNat (init si) pe).map (fun p => (i, p)) ++
      outerLoop init next cond inc start i (next si)

theorem innerLoop_count (f : Nat) (s : Nat) (e : Int) (h : (s : Int) + f = e) :
    innerLoop (fun a b => decide (a ≠ b)) (fun p => p + 1) f s e = (List.range' s f).map Int.ofNat := by
  induction f generalizing s with
  | zero => rfl
  | succ f ih =>
    have hne : ((s : Int) ≠ e) := by omega
    simp only [innerLoop, hne, ne_eq, not_false_eq_true, decide_true, if_true, List.range'_succ, List.map_cons]
    congr 1
    have := ih (s + 1) (by omega)
    simpa using this

/-- the inner loop stops because its own condition fails, not because the fuel ran out -/
theorem innerLoop_more_fuel (f g : Nat) (s : Nat) (e : Int) (h : (s : Int) + f = e) :
    innerLoop (fun a b => decide (a ≠ b)) (fun p => p + 1) (f + g) s e =
    innerLoop (fun a b => decide (a ≠ b)) (fun p => p + 1) f s e := by
  induction f generalizing s with
  | zero =>
    have : (s : Int) = e := by omega
    cases g with
    | zero => rfl
    | succ g => simp [innerLoop, this]
  | succ f ih =>
    have hne : ((s : Int) ≠ e) := by omega
    have e1 : f + 1 + g = (f + g) + 1 := by omega
    rw [e1]
    simp only [innerLoop, hne, ne_eq, not_false_eq_true, decide_true, if_true]
    congr 1
    have := ih (s + 1) (by omega)
    simpa using this

/-- the model's `walkDesc` is the fold of the canonical components -/
theorem walkDesc_eq_outerLoop (start : List Nat) (k pe : Nat) :
    (walkDesc start k pe).map (fun e => (e.1, (e.2 : Int))) =
      outerLoop (fun s => s) (fun s => s) (fun a b => decide (a ≠ b)) (fun p => p + 1) start k pe := by
  induction k generalizing pe with
  | zero => rfl
  | succ k ih =>
    rw [walkDesc_succ, List.map_append, outerLoop]
    congr 1
    · simp only [rowList, List.map_map]
      by_cases h : start.getD k 0 ≤ pe
      · have hf : ((pe : Int) - (start.getD k 0 : Nat)).toNat = pe - start.getD k 0 := by omega
        rw [hf, innerLoop_count _ _ _ (by omega), List.map_map]
        rfl
      · have hf : ((pe : Int) - (start.getD k 0 : Nat)).toNat = 0 := by omega
        have h0 : pe - start.getD k 0 = 0 := by omega
        rw [hf, h0]
        rfl
    · exact ih _

/-! ### reverse mapping -/

/-- one iteration of the reverse-mapping loop on the array `var_perm_` (pairs `(first, second)`), with the generated
target index and value; only the generated field (`first`) of the target element is overwritten -/
def revStep (a : List (Int × Nat)) (i : Nat) : List (Int × Nat) :=
  let e := a.getD i (0, 0)
  let tgt := (revMapTarget e.1 e.2 i).toNat
  a.set tgt (revMapValue e.1 e.2 i, (a.getD tgt (0, 0)).2)

def revLoop (a : List (Int × Nat)) (k : Nat) : List (Int × Nat) := (List.range k).reverse.foldl revStep a

theorem set_keep_snd (a : List (Int × Nat)) (t : Nat) (v : Int) :
    (a.set t (v, (a.getD t (0, 0)).2)).map Prod.snd = a.map Prod.snd := by
  apply List.ext_getElem?
  intro j
  rw [List.map_set, List.getElem?_set]
  by_cases h : t = j
  · subst h
    by_cases hl : t < a.length
    · have hl' : t < (a.map Prod.snd).length := by simpa using hl
      rw [if_pos rfl, if_pos hl', List.getElem?_map, List.getElem?_eq_getElem hl, getD_eq_getElem' _ _ hl]
      rfl
    · have hl' : ¬ t < (a.map Prod.snd).length := by simpa using hl
      rw [if_pos rfl, if_neg hl', List.getElem?_eq_none (by simp; omega)]
  · rw [if_neg h]

theorem set_fst_getD (a : List (Int × Nat)) (t : Nat) (v : Int) (w : Nat) (j : Nat) (hj : j < a.length) :
    ((a.set t (v, w)).getD j (0, 0)).1 = if t = j then v else (a.getD j (0, 0)).1 := by
  rw [List.getD_eq_getElem?_getD, List.getElem?_set]
  by_cases h : t = j
  · subst h
    rw [if_pos rfl, if_pos hj, if_pos rfl]
    rfl
  · rw [if_neg h, if_neg h, List.getD_eq_getElem?_getD]

theorem revStep_snd (a : List (Int × Nat)) (i : Nat) : (revStep a i).map Prod.snd = a.map Prod.snd :=
  set_keep_snd a _ _

theorem revStep_fst (a : List (Int × Nat)) (i j : Nat) (hj : j < a.length) :
    ((revStep a i).getD j (0, 0)).1 =
      if (a.getD i (0, 0)).2 = j then (i : Int) else (a.getD j (0, 0)).1 := by
  have h := set_fst_getD a (revMapTarget (a.getD i (0, 0)).1 (a.getD i (0, 0)).2 i).toNat
    (revMapValue (a.getD i (0, 0)).1 (a.getD i (0, 0)).2 i)
    (a.getD (revMapTarget (a.getD i (0, 0)).1 (a.getD i (0, 0)).2 i).toNat (0, 0)).2 j hj
  have ht : (revMapTarget (a.getD i (0, 0)).1 (a.getD i (0, 0)).2 i).toNat = (a.getD i (0, 0)).2 := by
    unfold revMapTarget; exact Int.toNat_natCast _
  rw [ht] at h
  exact h

/-- invariant of the descending loop: positions whose owner index is below `k` hold that index, the others are untouched -/
theorem revLoop_spec (S : List Nat) (hS : S.Nodup) (k : Nat) (a : List (Int × Nat))
    (ha : a.map Prod.snd = S) (hk : k ≤ S.length) :
    (revLoop a k).map Prod.snd = S ∧
    ∀ j, j ∈ S → j < S.length →
      ((revLoop a k).getD j (0, 0)).1 = if S.idxOf j < k then (S.idxOf j : Int) else (a.getD j (0, 0)).1 := by
  induction k generalizing a with
  | zero =>
    refine ⟨ha, ?_⟩
    intro j _ _
    simp [revLoop]
  | succ k ih =>
    have hstep : revLoop a (k + 1) = revLoop (revStep a k) k := by
      simp [revLoop, List.range_succ]
    rw [hstep]
    have ha' : (revStep a k).map Prod.snd = S := by rw [revStep_snd]; exact ha
    obtain ⟨h1, h2⟩ := ih (revStep a k) ha' (by omega)
    refine ⟨h1, ?_⟩
    intro j hjS hjl
    rw [h2 j hjS hjl]
    have hlen : a.length = S.length := by rw [← ha]; simp
    have hkS : k < S.length := by omega
    have hak : (a.getD k (0, 0)).2 = S[k] := by
      have : (a.map Prod.snd)[k]? = S[k]? := by rw [ha]
      rw [List.getElem?_map, List.getElem?_eq_getElem hkS] at this
      rw [List.getD_eq_getElem?_getD]
      cases hh : a[k]? with
      | none => rw [hh] at this; cases this
      | some v => rw [hh] at this; simp at this; simp [this]
    have hidx : S.idxOf j < S.length := List.idxOf_lt_length_iff.mpr hjS
    by_cases c1 : S.idxOf j < k
    · have : S.idxOf j < k + 1 := by omega
      simp [c1, this]
    · by_cases c2 : S.idxOf j = k
      · have hj : S[k] = j := by
          have := List.getElem_idxOf hidx
          simp only [c2] at this
          exact this
        have : S.idxOf j < k + 1 := by omega
        rw [if_neg c1, if_pos this, revStep_fst a k j (by omega), hak, if_pos hj, c2]
      · have hne : S[k] ≠ j := by
          intro hh
          have := hS.idxOf_getElem k hkS
          rw [hh] at this
          exact c2 this
        have : ¬ S.idxOf j < k + 1 := by omega
        rw [if_neg c1, if_neg this, revStep_fst a k j (by omega), hak, if_neg hne]

end MpVerif.C08

/-! The text of the mechanism functions of the easy API that `Model.lean` was written against (canonical rendering of
translators/gen_easy_c08.py).  HAND-MAINTAINED: when ampl/mp changes one of these functions the generated skeleton
differs, `C08_gen_skeletons` fails, and whoever updates this file must re-read the function and the model. -/
namespace MpVerif.C08.Expected

def skel_FeedObjGradient : List String := [
  "if header_.num_obj_nonzeros { decl svw := svwf.MakeVectorWriter(header_.num_obj_nonzeros) ; decl c := NLME().ObjCoefficients() ; for (decl j := 0 ; (j < header_.num_vars) ; ++(j)) { if obj_grad_supp_[j] { svw.Write(VPerm(j), (c ? c[j] : f0)) } } }"]

def skel_FeedObjExpression : List String := [
  "decl Q := NLME().Hessian()",
  "decl c0 := NLME().ObjOffset()",
  "if !(Q.num_nz_) { ew.NPut(c0) } else { decl if_offset := c0 ; decl num_el := (Q.num_nz_ + if_offset) ; decl num_pad := ((num_el < 3) ? (3 - num_el) : 0) ; decl sumw := ew.OPutN(SUM, (num_el + num_pad)) ; if if_offset { sumw.NPut(c0) } ; for ( ; (num_pad)-- ; ) { sumw.NPut(f0) } ; decl pos_end := Q.num_nz_ ; for (decl i := NLME().NumCols() ; (i)-- ; ) { for (decl pos := Q.start_[i] ; (pos != pos_end) ; ++(pos)) { decl coef := (f0.5 * Q.value_[pos]) ; decl prod1 := sumw.OPut2(MUL) ; prod1.NPut(coef) ; decl prod2 := prod1.OPut2(MUL) ; prod2.VPut(VPerm(i), NLME().ColName(i)) ; prod2.VPut(VPerm(Q.index_[pos]), NLME().ColName(Q.index_[pos])) } ; (pos_end = Q.start_[i]) } }"]

def skel_FeedVarBounds : List String := [
  "decl vars := NLME().ColData()",
  "for (decl i := 0 ; (i < header_.num_vars) ; (i)++) { vbw.WriteLbUb(vars.lower_[VPermInv(i)], vars.upper_[VPermInv(i)]) }"]

def skel_FeedConBounds : List String := [
  "for (decl j := 0 ; (j < header_.num_algebraic_cons) ; (j)++) { decl bnd := NLFeeder() ; (bnd.L = NLME().RowLowerBounds()[j]) ; (bnd.U = NLME().RowUpperBounds()[j]) ; cbw.WriteAlgConRange(bnd) }"]

def skel_FeedLinearConExpr : List String := [
  "decl A := NLME().GetA()",
  "(void)0",
  "(void)0",
  "decl start := A.start_[i]",
  "decl end := ((i < (A.num_colrow_ - 1)) ? A.start_[(i + 1)] : A.num_nz_)",
  "if (start != end) { decl sv := svw.MakeVectorWriter((end - start)) ; for (decl pos := start ; (pos != end) ; ++(pos)) { sv.Write(VPerm(A.index_[pos]), A.value_[pos]) } }"]

def skel_FeedColumnSizes : List String := [
  "if WantColumnSizes() { for (decl i := 0 ; (i < (header_.num_vars - 1)) ; ++(i)) { csw.Write(col_sizes_[VPermInv(i)]) } }"]

def skel_FeedInitialGuesses : List String := [
  "decl ini := NLME().Warmstart()",
  "if ini.num_ { decl ig := igw.MakeVectorWriter(ini.num_) ; for (decl i := 0 ; (i < ini.num_) ; ++(i)) { ig.Write(VPerm(ini.index_[i]), ini.value_[i]) } }"]

def skel_FeedInitialDualGuesses : List String := [
  "decl ini := NLME().DualWarmstart()",
  "if ini.num_ { decl ig := igw.MakeVectorWriter(ini.num_) ; for (decl i := 0 ; (i < ini.num_) ; ++(i)) { ig.Write(ini.index_[i], ini.value_[i]) } }"]

def skel_FeedSuffixes : List String := [
  "for-range suf : NLME().Suffixes() { decl nnz := 0 ; for-range v : suf.values_ { if v { ++(nnz) } } ; decl ifVars := (0 == (suf.kind_ & 3)) ; if (suf.kind_ & 4) { decl sw := swf.StartDblSuffix(suf.name_.c_str(), suf.kind_, nnz) ; for (decl i := 0 ; (i < suf.values_.size()) ; ++(i)) { if suf.values_[i] { sw.Write((ifVars ? VPerm(i) : i), suf.values_[i]) } } } else { decl sw := swf.StartIntSuffix(suf.name_.c_str(), suf.kind_, nnz) ; for (decl i := 0 ; (i < suf.values_.size()) ; ++(i)) { if suf.values_[i] { sw.Write((ifVars ? VPerm(i) : i), round(suf.values_[i])) } } } }"]

def skel_FeedRowAndObjNames : List String := [
  "if (NLME().RowNames() && wrt) { for (decl i := 0 ; (i < NLME().NumRows()) ; ++(i)) { (wrt << NLME().RowNames()[i]) } ; (wrt << NLME().ObjName()) }"]

def skel_FeedColNames : List String := [
  "if (NLME().ColNames() && wrt) { for (decl i := 0 ; (i < NLME().NumCols()) ; ++(i)) { (wrt << NLME().ColNames()[VPermInv(i)]) } }"]

def skel_ExportPreproData : List String := [
  "pd.vperm_.resize(NLME().NumCols())",
  "pd.vperm_inv_.resize(NLME().NumCols())",
  "for (decl i := pd.vperm_.size() ; (i)-- ; ) { (pd.vperm_[i] = VPerm(i)) ; (pd.vperm_inv_[i] = VPermInv(i)) }"]

def skel_Init : List String := [
  "FillNonlinearVars()",
  "PermuteVars()",
  "FillObjNonzeros()",
  "FillColSizes()",
  "FillHeader()"]

def skel_FillNonlinearVars : List String := [
  "nlv_obj_.resize(NLME().NumCols(), default)",
  "decl Q := NLME().Hessian()",
  "if Q.num_nz_ { ++(header_.num_nl_objs) ; decl pos_end := Q.num_nz_ ; for (decl i := NLME().NumCols() ; (i)-- ; ) { for (decl pos := Q.start_[i] ; (pos != pos_end) ; ++(pos)) { (void)0 ; (nlv_obj_[i] = true) ; (nlv_obj_[Q.index_[pos]] = true) } ; (pos_end = Q.start_[i]) } ; (header_.num_nl_vars_in_objs = count(nlv_obj_.begin(), nlv_obj_.end(), true)) }"]

def skel_PermuteVars : List String := [
  "decl vars := NLME().ColData()",
  "var_perm_.resize(NLME().NumCols())",
  "(void)0",
  "for (decl i := var_perm_.size() ; (i)-- ; ) { (var_perm_[i] = {(-(2) * nlv_obj_[i]), i}) ; if (vars.type_ && vars.type_[i]) { ++(var_perm_[i].first) ; if nlv_obj_[i] { ++(header_.num_nl_integer_vars_in_objs) } else { if ((f0 != fabs(vars.lower_[i])) || (f1 != vars.upper_[i])) { ++(var_perm_[i].first) ; ++(header_.num_linear_integer_vars) } else { ++(header_.num_linear_binary_vars) } } } }",
  "stable_sort(var_perm_.begin(), var_perm_.end())",
  "for (decl i := var_perm_.size() ; (i)-- ; ) { (var_perm_[var_perm_[i].second].first = i) }"]

def skel_VPerm : List String := [
  "(void)0",
  "return var_perm_[i].first"]

def skel_VPermInv : List String := [
  "(void)0",
  "return var_perm_[i].second"]

def skel_FillObjNonzeros : List String := [
  "obj_grad_supp_.resize(NLME().NumCols(), default)",
  "if NLME().ObjCoefficients() { for (decl i := NLME().NumCols() ; (i)-- ; ) { (obj_grad_supp_[i] = NLME().ObjCoefficients()[i]) } }",
  "decl Q := NLME().Hessian()",
  "if Q.num_nz_ { (void)0 ; decl pos_end := Q.num_nz_ ; for (decl i := NLME().NumCols() ; (i)-- ; ) { for (decl pos := Q.start_[i] ; (pos != pos_end) ; ++(pos)) { (obj_grad_supp_[i] = true) ; (obj_grad_supp_[Q.index_[pos]] = true) } ; (pos_end = Q.start_[i]) } }",
  "(header_.num_obj_nonzeros = accumulate(obj_grad_supp_.begin(), obj_grad_supp_.end(), f0))"]

def skel_FillColSizes : List String := [
  "decl A := NLME().GetA()",
  "col_sizes_.resize(NLME().NumCols())",
  "for (decl pos := A.num_nz_ ; (pos)-- ; ) { ++(col_sizes_[A.index_[pos]]) }"]

def skel_ComputeObjValue : List String := [
  "decl result := {obj_c0_}",
  "if obj_c_ { for (decl i := NumCols() ; (i)-- ; ) { (result += (obj_c_[i] * x[i])) } }",
  "if Q_.num_nz_ { decl pos_end := Q_.num_nz_ ; for (decl i := NumCols() ; (i)-- ; ) { for (decl pos := Q_.start_[i] ; (pos != pos_end) ; ++(pos)) { (result += (((f0.5 * Q_.value_[pos]) * x[i]) * x[Q_.index_[pos]])) } ; (pos_end = Q_.start_[i]) } }",
  "return result"]

def skel_OnDualSolution : List String := [
  "sol_.y_.clear()",
  "sol_.y_.reserve((header_.num_algebraic_cons + header_.num_logical_cons))",
  "while rd.Size() { sol_.y_.push_back(rd.ReadNext()) }"]

def skel_OnPrimalSolution : List String := [
  "sol_.x_.clear()",
  "sol_.x_.resize(header_.num_vars)",
  "for (decl i := 0 ; rd.Size() ; ++(i)) { (sol_.x_[pd_.vperm_inv_[i]] = rd.ReadNext()) }"]

def skel_NItemsMax : List String := [
  "switch (kind & 3) { case 0: return header_.num_vars ; case 1: return (header_.num_algebraic_cons + header_.num_logical_cons) ; case 2: return header_.num_objs ; default: return 1 }"]

def skel_OnSuffix : List String := [
  "decl si := sr.SufInfo()",
  "decl kind := si.Kind()",
  "decl nmax := NItemsMax(kind)",
  "decl values := vector(nmax, default)",
  "decl name := si.Name()",
  "decl table := si.Table()",
  "decl ifVars := (0 == (kind & 3))",
  "while sr.Size() { decl val := sr.ReadNext() ; if ((val.first < 0) || (val.first >= nmax)) { sr.SetError(NLW2_SOLRead_Bad_Suffix, string(\"bad suffix element index\", default)) ; return  } ; (values[(ifVars ? pd_.vperm_inv_[val.first] : val.first)] = val.second) }",
  "if (NLW2_SOLRead_OK == sr.ReadResult()) { sol_.suffixes_.Add({name, table, kind, move(values)}) }"]

def skel_OnIntSuffix : List String := [
  "OnSuffix(sr)"]

def skel_OnDblSuffix : List String := [
  "OnSuffix(sr)"]

def skel_NLSolver_LoadModel : List String := [
  "decl nlf := NLFeeder_Easy(mdl, nl_opts_)",
  "nlf.ExportPreproData(pd_)",
  "p_nlheader_.reset(new nlf.Header())",
  "return LoadModel(nlf)"]

def skel_NLSolver_ReadSolution : List String := [
  "decl result := NLSolution()",
  "if !(p_nlheader_) { return ((err_msg_ = \"NLSolver: can only ReadSolution(void) after loading NLModel\") , result) }",
  "decl solh := SOLHandler_Easy(*(p_nlheader_), pd_, result)",
  "ReadSolution(solh)",
  "return result"]

def skel_NLSolver_Solve : List String := [
  "decl sol := NLSolution()",
  "if (LoadModel(mdl) && Solve(solver, solver_opts)) { (sol = ReadSolution()) ; if sol.x_.size() { (sol.obj_val_ = mdl.ComputeObjValue(sol.x_.data())) } }",
  "return sol"]

def skel_NLSuffix_less : List String := [
  "return (make_pair(name_, (kind_ & 3)) < make_pair(s.name_, (s.kind_ & 3)))"]

def skel_StringFileWriter_dtor : List String := [
  "if (!(cnt_) && !(fTriedOpen_)) { opener_(true) }"]

def skel_NLW2_SetWarmstart_C : List String := [
  "CastNZ(nlme.p_data_).SetWarmstart(ini_x)"]

def skel_NLW2_SetDualWarmstart_C : List String := [
  "CastNZ(nlme.p_data_).SetDualWarmstart(ini_y)"]

def skeletons : List (String × List String) := [
  ("FeedObjGradient", skel_FeedObjGradient),
  ("FeedObjExpression", skel_FeedObjExpression),
  ("FeedVarBounds", skel_FeedVarBounds),
  ("FeedConBounds", skel_FeedConBounds),
  ("FeedLinearConExpr", skel_FeedLinearConExpr),
  ("FeedColumnSizes", skel_FeedColumnSizes),
  ("FeedInitialGuesses", skel_FeedInitialGuesses),
  ("FeedInitialDualGuesses", skel_FeedInitialDualGuesses),
  ("FeedSuffixes", skel_FeedSuffixes),
  ("FeedRowAndObjNames", skel_FeedRowAndObjNames),
  ("FeedColNames", skel_FeedColNames),
  ("ExportPreproData", skel_ExportPreproData),
  ("Init", skel_Init),
  ("FillNonlinearVars", skel_FillNonlinearVars),
  ("PermuteVars", skel_PermuteVars),
  ("VPerm", skel_VPerm),
  ("VPermInv", skel_VPermInv),
  ("FillObjNonzeros", skel_FillObjNonzeros),
  ("FillColSizes", skel_FillColSizes),
  ("ComputeObjValue", skel_ComputeObjValue),
  ("OnDualSolution", skel_OnDualSolution),
  ("OnPrimalSolution", skel_OnPrimalSolution),
  ("NItemsMax", skel_NItemsMax),
  ("OnSuffix", skel_OnSuffix),
  ("OnIntSuffix", skel_OnIntSuffix),
  ("OnDblSuffix", skel_OnDblSuffix),
  ("NLSolver_LoadModel", skel_NLSolver_LoadModel),
  ("NLSolver_ReadSolution", skel_NLSolver_ReadSolution),
  ("NLSolver_Solve", skel_NLSolver_Solve),
  ("NLSuffix_less", skel_NLSuffix_less),
  ("StringFileWriter_dtor", skel_StringFileWriter_dtor),
  ("NLW2_SetWarmstart_C", skel_NLW2_SetWarmstart_C),
  ("NLW2_SetDualWarmstart_C", skel_NLW2_SetDualWarmstart_C)]

def permuteStep_leaves : List String := ["nlv_obj_[i]", "vars.type_", "vars.type_[i]", "vars.lower_[i]", "vars.upper_[i]"]

def permuteVars_rest : List String := [
  "decl vars := NLME().ColData()",
  "var_perm_.resize(NLME().NumCols())",
  "(void)0",
  "stable_sort(var_perm_.begin(), var_perm_.end())",
  "for (decl i := var_perm_.size() ; (i)-- ; ) { (var_perm_[var_perm_[i].second].first = i) }"]

def objLinTerm_leaves : List String := ["obj_c_[i]", "x[i]"]

def objQuadTerm_leaves : List String := ["Q_.value_[pos]", "x[i]", "x[Q_.index_[pos]]"]

def sufTarget_leaves : List String := ["ifVars", "pd_.vperm_inv_[val.first]", "val.first"]

def primalTarget_leaves : List String := ["pd_.vperm_inv_[i]"]

def feedSufIndex_leaves : List String := ["ifVars", "VPerm(i)", "i"]

def permuteLoop_header : String := "for (decl i := var_perm_.size() ; (i)-- ; )"

end MpVerif.C08.Expected

import MpVerif.C08.LemmasFeeds
/-! Lemmas about the state that outlives one model (`PreprocessData`) and the SOL handler reading it. -/
namespace MpVerif.C08

theorem foldl_set_length (f : Nat → Nat) (k : Nat) (l : List Nat) :
    ((List.range k).foldl (fun acc i => acc.set i (f i)) l).length = l.length := by
  induction k with
  | zero => simp
  | succ k ih => rw [List.range_succ, List.foldl_append]; simp [ih]

theorem foldl_set_getElem? (f : Nat → Nat) (k : Nat) (l : List Nat) (i : Nat) :
    ((List.range k).foldl (fun acc i => acc.set i (f i)) l)[i]? =
      if i < k then (if i < l.length then some (f i) else none) else l[i]? := by
  induction k with
  | zero => simp
  | succ k ih =>
    rw [List.range_succ, List.foldl_append]
    simp only [List.foldl_cons, List.foldl_nil, List.getElem?_set, foldl_set_length, ih]
    by_cases h1 : k = i
    · subst h1
      by_cases h2 : k < l.length <;> simp [h2]
    · by_cases h3 : i < k
      · have : i < k + 1 := by omega
        simp [h1, h3, this]
      · have : ¬ i < k + 1 := by omega
        simp [h1, h3, this]

theorem resizeTo_length (l : List Nat) (n : Nat) : (resizeTo l n).length = n := by
  simp [resizeTo]; omega

/-- `ExportPreproData` overwrites whatever the `PreprocessData` held before -/
theorem exportPrepro_eq (old : Pd) (m : MatrixModel) : exportPrepro old m = pdOf m := by
  unfold exportPrepro pdOf
  congr 1
  · apply List.ext_getElem?
    intro i
    rw [foldl_set_getElem?, resizeTo_length]
    by_cases h : i < m.n <;> simp [h, resizeTo]
    omega
  · apply List.ext_getElem?
    intro i
    rw [foldl_set_getElem?, resizeTo_length]
    by_cases h : i < m.n <;> simp [h, resizeTo]
    omega

theorem pdOf_vpermInv_getD (m : MatrixModel) (i : Nat) : (pdOf m).vpermInv.getD i 0 = vpermInv m i := by
  unfold pdOf
  by_cases h : i < m.n
  · exact getD_map_range _ _ _ h
  · simp only [List.getD_eq_getElem?_getD]
    rw [List.getElem?_eq_none (by simp; omega)]
    unfold vpermInv
    rw [List.getD_eq_getElem?_getD, List.getElem?_eq_none (by rw [order_length]; omega)]

theorem find?_unique {α} (l : List α) (p : α → Bool) (a : α) (ha : a ∈ l) (hp : p a = true)
    (hu : ∀ b ∈ l, p b = true → b = a) : l.find? p = some a := by
  induction l with
  | nil => cases ha
  | cons x t ih =>
    rw [List.find?_cons]
    cases hx : p x
    · have hne : a ≠ x := fun h => by rw [h] at hp; rw [hp] at hx; cases hx
      have hat : a ∈ t := by
        rcases List.mem_cons.mp ha with h | h
        · exact absurd h hne
        · exact h
      exact ih hat (fun b hb => hu b (List.mem_cons_of_mem _ hb))
    · rw [hu x List.mem_cons_self hx]

/-- reading the dense vector back from its own (index, value) listing -/
theorem dense_zipIdx (n : Nat) (xs : List Rat) {p : Nat} (hp : p < n) :
    (dense n (xs.zipIdx.map (fun e => (e.2, e.1)))).getD p 0 = xs.getD p 0 := by
  rw [dense_getD _ _ hp]
  by_cases h : p < xs.length
  · have hfind : (xs.zipIdx.map (fun e => (e.2, e.1))).reverse.find? (fun e => e.1 == p) = some (p, xs[p]) := by
      apply find?_unique
      · rw [List.mem_reverse, List.mem_map]
        exact ⟨(xs[p], p), by rw [List.mem_zipIdx_iff_getElem?]; simp [h], rfl⟩
      · simp
      · intro b hb hbp
        rw [List.mem_reverse, List.mem_map] at hb
        obtain ⟨⟨v, i⟩, hmem, rfl⟩ := hb
        rw [List.mem_zipIdx_iff_getElem?] at hmem
        simp only [beq_iff_eq] at hbp
        subst hbp
        simp only [List.getElem?_eq_getElem h, Option.some.injEq] at hmem
        rw [hmem]
    rw [hfind, getD_eq_getElem' _ _ h]
    rfl
  · have hnone : (xs.zipIdx.map (fun e => (e.2, e.1))).reverse.find? (fun e => e.1 == p) = none := by
      rw [List.find?_eq_none]
      intro b hb
      rw [List.mem_reverse, List.mem_map] at hb
      obtain ⟨⟨v, i⟩, hmem, rfl⟩ := hb
      rw [List.mem_zipIdx_iff_getElem?] at hmem
      have hi : i < xs.length := by
        rcases Nat.lt_or_ge i xs.length with hlt | hge
        · exact hlt
        · rw [List.getElem?_eq_none hge] at hmem; cases hmem
      simp only [beq_iff_eq]
      omega
    rw [hnone, List.getD_eq_getElem?_getD, List.getElem?_eq_none (by omega)]
    rfl

/-- with the permutation of the model itself stored, `OnPrimalSolution` is `onPrimal` -/
theorem onPrimalPd_pdOf (m : MatrixModel) (xs : List Rat) (hl : xs.length ≤ m.n) :
    onPrimalPd (pdOf m) m.n xs = onPrimal m xs := by
  unfold onPrimalPd onPrimal
  split
  · rfl
  · apply List.ext_getElem?
    intro j
    by_cases hj : j < m.n
    · have h1 : ∀ (l : List Rat) (hlen : l.length = m.n), l[j]? = some (l.getD j 0) := by
        intro l hlen
        rw [List.getD_eq_getElem?_getD, List.getElem?_eq_getElem (by omega)]; rfl
      rw [h1 _ (by simp [dense]), h1 _ (by simp)]
      congr 1
      rw [getD_map_range _ _ _ hj]
      have hfun : (fun e : Rat × Nat => ((pdOf m).vpermInv.getD e.2 0, e.1)) =
          (fun e : Nat × Rat => (vpermInv m e.1, e.2)) ∘ (fun e : Rat × Nat => (e.2, e.1)) := by
        funext e
        show ((pdOf m).vpermInv.getD e.2 0, e.1) = (vpermInv m e.2, e.1)
        rw [pdOf_vpermInv_getD]
      rw [hfun, ← List.map_map]
      have := dense_reindex_inv m (xs.zipIdx.map (fun e => (e.2, e.1))) (by
        intro e he
        rw [List.mem_map] at he
        obtain ⟨⟨v, i⟩, hmem, rfl⟩ := he
        rw [List.mem_zipIdx_iff_getElem?] at hmem
        have hi : i < xs.length := by
          rcases Nat.lt_or_ge i xs.length with hlt | hge
          · exact hlt
          · rw [List.getElem?_eq_none hge] at hmem; cases hmem
        show i < m.n
        omega) (vperm_lt m hj)
      rw [vpermInv_vperm m hj] at this
      rw [this, dense_zipIdx _ _ (vperm_lt m hj)]
    · rw [List.getElem?_eq_none (by simp [dense]; omega), List.getElem?_eq_none (by simp; omega)]

theorem onSuffixPd_pdOf (m : MatrixModel) (kind : Nat) (entries : List (Nat × Rat)) :
    onSuffixPd (pdOf m) m.n m.m kind entries = onSuffix m kind entries := by
  unfold onSuffixPd onSuffix
  simp only [pdOf_vpermInv_getD]

end MpVerif.C08

import MpVerif.C08.Lemmas
/-! Objective-value lemmas for C08: the row walk of the code visits exactly the CSR entries; sums over
`Rat` do not depend on the order. -/
namespace MpVerif.C08

theorem perm_sum {l₁ l₂ : List Rat} (h : l₁.Perm l₂) : l₁.sum = l₂.sum := by
  induction h with
  | nil => rfl
  | cons a _ ih => simp only [List.sum_cons, ih]
  | swap a b l => simp only [List.sum_cons]; grind
  | trans _ _ ih1 ih2 => exact ih1.trans ih2

theorem foldl_add (l : List Rat) (a : Rat) : l.foldl (· + ·) a = a + l.sum := by
  induction l generalizing a with
  | nil => simp only [List.foldl_nil, List.sum_nil]; grind
  | cons b t ih => simp only [List.foldl_cons, List.sum_cons, ih]; grind

def rowList (i s e : Nat) : List (Nat × Nat) := (List.range' s (e - s)).map (fun p => (i, p))

theorem walkDesc_succ (start : List Nat) (k e : Nat) :
    walkDesc start (k + 1) e = rowList k (start.getD k 0) e ++ walkDesc start k (start.getD k 0) := rfl

theorem entriesAsc_succ (start : List Nat) (k e : Nat) :
    entriesAsc start (k + 1) e = entriesAsc start k (start.getD k 0) ++ rowList k (start.getD k 0) e := by
  unfold entriesAsc
  rw [List.range_succ, List.flatMap_append, List.flatMap_singleton]
  congr 1
  · rw [List.flatMap_def, List.flatMap_def]
    congr 1
    apply List.map_congr_left
    intro i hi
    rw [List.mem_range] at hi
    by_cases h : i + 1 < k
    · simp [h, Nat.lt_succ_of_lt h]
    · have : i + 1 = k := by omega
      simp [this]
  · simp [rowList]

theorem walkDesc_perm (start : List Nat) (k e : Nat) : (walkDesc start k e).Perm (entriesAsc start k e) := by
  induction k generalizing e with
  | zero => simp [walkDesc, entriesAsc]
  | succ k ih =>
    rw [walkDesc_succ, entriesAsc_succ]
    exact (List.Perm.append_left _ (ih _)).trans List.perm_append_comm

theorem walkDesc_row_lt (start : List Nat) (k e : Nat) : ∀ x ∈ walkDesc start k e, x.1 < k := by
  induction k generalizing e with
  | zero => simp [walkDesc]
  | succ k ih =>
    intro x hx
    rw [walkDesc_succ, List.mem_append] at hx
    rcases hx with hx | hx
    · simp only [rowList, List.mem_map] at hx
      obtain ⟨p, _, rfl⟩ := hx
      exact Nat.lt_succ_self k
    · exact Nat.lt_succ_of_lt (ih _ x hx)

theorem qEntries_row_lt (m : MatrixModel) : ∀ x ∈ qEntries m, x.1 < m.n := by
  unfold qEntries
  split
  · simp
  · exact walkDesc_row_lt _ _ _

theorem qCol_lt (m : MatrixModel) (hq : ∀ c ∈ m.Q.index, c < m.n) (hn : 0 < m.n) (pos : Nat) : qCol m pos < m.n := by
  unfold qCol
  by_cases h : pos < m.Q.index.length
  · rw [getD_eq_getElem' _ _ h]; exact hq _ (List.getElem_mem h)
  · rw [List.getD_eq_getElem?_getD, List.getElem?_eq_none (by omega)]; exact hn

theorem entriesAsc_zero (start : List Nat) (k : Nat) (h0 : ∀ s ∈ start, s = 0) : entriesAsc start k 0 = [] := by
  unfold entriesAsc
  rw [List.flatMap_eq_nil_iff]
  intro i _
  have hg : ∀ j : Nat, start[j]?.getD 0 = 0 := by
    intro j
    rw [← List.getD_eq_getElem?_getD]
    by_cases hj : j < start.length
    · rw [getD_eq_getElem' _ _ hj]; exact h0 _ (List.getElem_mem hj)
    · rw [List.getD_eq_getElem?_getD, List.getElem?_eq_none (by omega)]; rfl
  simp [hg]

/-- the quadratic part of the specification, summed in the order in which the code walks `Q` -/
theorem spec_quad_eq (m : MatrixModel) (hst : ∀ s ∈ m.Q.start, s ≤ m.Q.nnz) (f : Nat × Nat → Rat) :
    ((entriesAsc m.Q.start m.n m.Q.nnz).map f).sum = ((qEntries m).map f).sum := by
  unfold qEntries
  split
  · next h =>
    rw [h, entriesAsc_zero]
    intro s hs
    have := hst s hs
    omega
  · exact (perm_sum ((walkDesc_perm _ _ _).map f)).symm

theorem sum_filter_zero {α} (l : List α) (p : α → Bool) (f : α → Rat) (h : ∀ x ∈ l, p x = false → f x = 0) :
    ((l.filter p).map f).sum = (l.map f).sum := by
  induction l with
  | nil => rfl
  | cons a t ih =>
    have ih' := ih (fun x hx => h x (List.mem_cons_of_mem _ hx))
    cases hp : p a
    · have := h a List.mem_cons_self hp
      simp [hp, ih', this]
      grind
    · simp [hp, ih']

theorem evalList_append (z : Nat → Rat) (a b : List Expr) :
    evalExpr.evalList z (a ++ b) = evalExpr.evalList z a + evalExpr.evalList z b := by
  induction a with
  | nil => simp only [List.nil_append, evalExpr.evalList]; grind
  | cons x t ih => simp only [List.cons_append, evalExpr.evalList, ih]; grind

theorem evalList_map {α} (z : Nat → Rat) (l : List α) (g : α → Expr) :
    evalExpr.evalList z (l.map g) = (l.map (fun e => evalExpr z (g e))).sum := by
  induction l with
  | nil => simp [evalExpr.evalList]
  | cons x t ih => simp only [List.map_cons, evalExpr.evalList, List.sum_cons, ih]

theorem evalList_replicate_zero (z : Nat → Rat) (k : Nat) :
    evalExpr.evalList z (List.replicate k (.num 0)) = 0 := by
  induction k with
  | zero => rfl
  | succ k ih => simp only [List.replicate_succ, evalExpr.evalList, evalExpr, ih]; grind

theorem supp_false_c (m : MatrixModel) (j : Nat) (h : supp m j = false) : cCoef m j = 0 := by
  unfold supp at h
  simp only [Bool.or_eq_false_iff, bne_eq_false_iff_eq] at h
  exact h.1

/-- the objective as written, evaluated at the permuted point, is the caller's objective -/
theorem writtenObj_eq (m : MatrixModel) (hq : ∀ c ∈ m.Q.index, c < m.n) (hst : ∀ s ∈ m.Q.start, s ≤ m.Q.nnz)
    (x : Nat → Rat) : writtenObj m (fun p => x (vpermInv m p)) = objSpec m x := by
  unfold writtenObj objSpec
  -- linear part
  have hlin : evalLin (fun p => x (vpermInv m p)) (feedObjGradient m) = ((List.range m.n).map (fun j => cCoef m j * x j)).sum := by
    unfold evalLin feedObjGradient
    rw [List.map_map, ← sum_filter_zero (List.range m.n) (supp m) (fun j => cCoef m j * x j)]
    · congr 1
      apply List.map_congr_left
      intro j hj
      have hj' : j < m.n := List.mem_range.mp (List.mem_filter.mp hj).1
      simp only [Function.comp_apply, vpermInv_vperm m hj']
    · intro j _ hs
      rw [supp_false_c m j hs]; grind
  -- quadratic part
  have hquad : evalExpr (fun p => x (vpermInv m p)) (feedObjExpr m) =
      m.c0 + ((qEntries m).map (fun e => qVal m e.2 / 2 * x e.1 * x (qCol m e.2))).sum := by
    unfold feedObjExpr
    split
    · next h => simp [qEntries, h, evalExpr]; grind
    · rw [evalExpr, evalList_append, evalList_append, evalList_replicate_zero, evalList_map]
      congr 1
      · split <;> simp_all [evalExpr.evalList, evalExpr] <;> grind
      · congr 1
        apply List.map_congr_left
        intro e he
        have h1 : e.1 < m.n := qEntries_row_lt m e he
        have h2 : qCol m e.2 < m.n := qCol_lt m hq (by omega) e.2
        simp only [qTerm, evalExpr, vpermInv_vperm m h1, vpermInv_vperm m h2]
        grind
  rw [hlin, hquad, spec_quad_eq m hst]
  grind

/-- `ComputeObjValue` is the caller's objective -/
theorem computeObjValue_eq (m : MatrixModel) (hst : ∀ s ∈ m.Q.start, s ≤ m.Q.nnz)
    (x : Nat → Rat) : computeObjValue m x = some (objSpec m x) := by
  unfold computeObjValue objSpec
  simp only [foldl_add, Option.some.injEq]
  rw [spec_quad_eq m hst, List.map_reverse, List.sum_reverse]

end MpVerif.C08

/-!
# C08 — model of the matrix-based ("easy") model API of NL writer 2

Mirrors, function by function, `NLFeeder_Easy`, `NLModel::ComputeObjValue` and `SOLHandler_Easy`
in `nl-writer2/src/nl-solver.cc` (plus the two C wrappers `nl-model-c.cc`, `nl-solver-c.cc`), and the
part of the real NL reader (`include/mp/nl-reader.h`, `NLProblemBuilder::AddVariables`, `ReadNumArgs`)
that decodes what the feeder writes.  Numbers are exact rationals (the correspondence uses dyadic
data so the C++ double arithmetic is exact).  Core Lean only.

This is the model of the code AFTER repo_patches/C08-easy-api-fixes.diff (branch agent-C08-fixed):
* `FillNonlinearVars` flags the row and the column variable of every Hessian entry and sets
  `num_nl_vars_in_objs` to the number of flagged variables;
* `FeedObjExpression` pads the `sum` node with `n0` to at least 3 arguments;
* `ComputeObjValue` skips the linear part when the coefficient pointer is null;
* the C wrapper `NLW2_SetDualWarmstart_C` calls `SetDualWarmstart`;
* the declared Hessian format is never consulted.
-/

namespace MpVerif.C08

/-- a bound: `-inf`, finite, `+inf` -/
inductive Bnd where
  | ninf
  | fin (q : Rat)
  | pinf
  deriving DecidableEq, Repr, Inhabited

/-- sparse matrix as the API takes it: `start_` (one entry per row, no terminator), `index_`, `value_`;
`num_nz_` is `index.length` -/
structure Csr where
  start : List Nat
  index : List Nat
  value : List Rat
  deriving Repr, Inhabited

structure Suffix where
  name : String
  kind : Nat
  values : List Rat
  deriving Repr, Inhabited

structure MatrixModel where
  api : Nat                      -- 0: C++ API, 1: C wrapper
  n : Nat
  types : Option (List Nat)      -- `type_` may be NULL
  lb : List Bnd
  ub : List Bnd
  sense : Nat
  c0 : Rat
  c : Option (List Rat)          -- `obj_c_` may be NULL
  qfmt : Nat                     -- declared Hessian format (never read by the code)
  Q : Csr
  m : Nat
  rlb : List Bnd
  rub : List Bnd
  A : Csr
  ws : List (Nat × Rat)
  dws : List (Nat × Rat)
  sufs : List Suffix             -- in `AddSuffix` call order
  colNames : Option (List String)
  rowNames : Option (List String)
  objName : String
  deriving Repr, Inhabited

def Csr.nnz (q : Csr) : Nat := q.index.length

/-! ## Init(): FillNonlinearVars, PermuteVars, FillObjNonzeros, FillColSizes, FillHeader -/

/-- the row walk shared by `FeedObjExpression`, `FillObjNonzeros`, `ComputeObjValue`:
`for (i = n; i--; ) { for (pos = start[i]; pos != pos_end; ++pos) …; pos_end = start[i]; }`,
as the list of `(row, pos)` visited -/
def walkDesc (start : List Nat) : Nat → Nat → List (Nat × Nat)
  | 0, _ => []
  | i + 1, posEnd =>
    let s := start.getD i 0
    (List.range' s (posEnd - s)).map (fun p => (i, p)) ++ walkDesc start i s

/-- every walk over `Q` in the code is guarded by `if (Q.num_nz_)` -/
def qEntries (m : MatrixModel) : List (Nat × Nat) :=
  if m.Q.nnz = 0 then [] else walkDesc m.Q.start m.n m.Q.nnz

def qCol (m : MatrixModel) (pos : Nat) : Nat := m.Q.index.getD pos 0
def qVal (m : MatrixModel) (pos : Nat) : Rat := m.Q.value.getD pos 0

/-- `nlv_obj_[j]` after `FillNonlinearVars`: set for the row and the column variable of every entry -/
def nlv (m : MatrixModel) (j : Nat) : Bool := (qEntries m).any (fun e => e.1 == j || qCol m e.2 == j)

/-- `header_.num_nl_vars_in_objs`: number of flagged variables -/
def nlvo (m : MatrixModel) : Nat := (List.range m.n).countP (nlv m)

def isInt (m : MatrixModel) (j : Nat) : Bool :=
  match m.types with
  | none => false
  | some t => t.getD j 0 != 0

/-- `!(0.0 != fabs(lower) || 1.0 != upper)` -/
def isBin01 (m : MatrixModel) (j : Nat) : Bool :=
  m.lb.getD j (.fin 0) == .fin 0 && m.ub.getD j (.fin 0) == .fin 1

/-- sort key of `PermuteVars`: −2 if nonlinear, +1 if integer, +1 more if linear non-binary integer -/
def key (m : MatrixModel) (j : Nat) : Int :=
  (if nlv m j then -2 else 0) +
  (if isInt m j then (if !nlv m j && !isBin01 m j then 2 else 1) else 0)

def nlvoi (m : MatrixModel) : Nat := (List.range m.n).countP (fun j => isInt m j && nlv m j)
def niv (m : MatrixModel) : Nat := (List.range m.n).countP (fun j => isInt m j && !nlv m j && !isBin01 m j)
def nbv (m : MatrixModel) : Nat := (List.range m.n).countP (fun j => isInt m j && !nlv m j && isBin01 m j)

/-- `operator<` of `std::pair<int,int>`, as `≤` (a total order on the distinct pairs) -/
def pairLE (a b : Int × Nat) : Bool := decide (a.1 < b.1) || (decide (a.1 = b.1) && decide (a.2 ≤ b.2))

def pairs (m : MatrixModel) : List (Int × Nat) := (List.range m.n).map (fun j => (key m j, j))

/-- `std::stable_sort(var_perm_.begin(), var_perm_.end())` -/
def sortedPairs (m : MatrixModel) : List (Int × Nat) := (pairs m).mergeSort pairLE

/-- caller indices in NL order: `var_perm_[i].second` -/
def order (m : MatrixModel) : List Nat := (sortedPairs m).map Prod.snd

/-- `VPermInv(i)`: caller index of the variable at NL position `i` -/
def vpermInv (m : MatrixModel) (i : Nat) : Nat := (order m).getD i 0

/-- `VPerm(j)`: NL position of caller variable `j` (the reverse mapping loop) -/
def vperm (m : MatrixModel) (j : Nat) : Nat := (order m).idxOf j

def cCoef (m : MatrixModel) (j : Nat) : Rat :=
  match m.c with
  | none => 0
  | some c => c.getD j 0

/-- `obj_grad_supp_[j]` after `FillObjNonzeros` -/
def supp (m : MatrixModel) (j : Nat) : Bool :=
  cCoef m j != 0 || nlv m j

def numObjNonzeros (m : MatrixModel) : Nat := (List.range m.n).countP (supp m)

def colSize (m : MatrixModel) (j : Nat) : Nat := m.A.index.count j

def maxLen (l : List String) : Nat := l.foldl (fun a s => max a s.utf8ByteSize) 0

structure Header where
  text : Bool
  flags : Nat
  nvars : Nat
  ncons : Nat
  nobjs : Nat
  nranges : Nat
  nlobjs : Nat
  nlvo : Nat
  nbv : Nat
  niv : Nat
  nlvoi : Nat
  nzc : Nat
  nzo : Nat
  maxcn : Nat
  maxvn : Nat
  deriving Repr, DecidableEq

def header (m : MatrixModel) (text : Bool) (flags : Nat) : Header :=
  { text := text, flags := flags, nvars := m.n, ncons := m.m, nobjs := 1, nranges := m.m
    nlobjs := if m.Q.nnz != 0 then 1 else 0
    nlvo := nlvo m, nbv := nbv m, niv := niv m, nlvoi := nlvoi m
    nzc := m.A.nnz, nzo := numObjNonzeros m
    -- FillHeader's values are overwritten by NLWriter2::WriteAuxFiles with the longest string written
    -- to .row / .col (0 if the file is not written)
    maxcn := match m.rowNames with | none => 0 | some r => max (maxLen (r.take m.m)) m.objName.utf8ByteSize
    maxvn := match m.colNames with | none => 0 | some r => maxLen (r.take m.n) }

/-! ## Feeds -/

/-- NL expression trees the feeder can produce -/
inductive Expr where
  | num (q : Rat)
  | var (i : Nat)
  | mul (a b : Expr)
  | sum (args : List Expr)
  deriving Repr, Inhabited

/-- `FeedObjGradient`: `(VPerm(j), c[j])` for `j` ascending with `obj_grad_supp_[j]` -/
def feedObjGradient (m : MatrixModel) : List (Nat × Rat) :=
  ((List.range m.n).filter (supp m)).map (fun j => (vperm m j, cCoef m j))

def qTerm (m : MatrixModel) (e : Nat × Nat) : Expr :=
  .mul (.num (qVal m e.2 / 2)) (.mul (.var (vperm m e.1)) (.var (vperm m (qCol m e.2))))

/-- number of `n0` arguments added so that the `sum` node has at least 3 -/
def numPad (m : MatrixModel) : Nat := 3 - ((if m.c0 != 0 then 1 else 0) + m.Q.nnz)

/-- `FeedObjExpression` -/
def feedObjExpr (m : MatrixModel) : Expr :=
  if m.Q.nnz = 0 then .num m.c0
  else .sum ((if m.c0 != 0 then [.num m.c0] else []) ++ List.replicate (numPad m) (.num 0) ++ (qEntries m).map (qTerm m))

/-- `FeedVarBounds` -/
def feedVarBounds (m : MatrixModel) : List (Bnd × Bnd) :=
  (List.range m.n).map (fun i => (m.lb.getD (vpermInv m i) (.fin 0), m.ub.getD (vpermInv m i) (.fin 0)))

/-- `FeedConBounds` -/
def feedConBounds (m : MatrixModel) : List (Bnd × Bnd) :=
  (List.range m.m).map (fun i => (m.rlb.getD i (.fin 0), m.rub.getD i (.fin 0)))

/-- `FeedLinearConExpr(i)`: `end = (i < rows-1) ? start[i+1] : nnz` -/
def feedLinearConExpr (m : MatrixModel) (i : Nat) : List (Nat × Rat) :=
  let s := m.A.start.getD i 0
  let e := if i + 1 < m.m then m.A.start.getD (i + 1) 0 else m.A.nnz
  (List.range' s (e - s)).map (fun pos => (vperm m (m.A.index.getD pos 0), m.A.value.getD pos 0))

/-- `FeedColumnSizes` -/
def feedColumnSizes (m : MatrixModel) : List Nat :=
  (List.range (m.n - 1)).map (fun i => colSize m (vpermInv m i))

/-- primal / dual warm start as stored in the NLModel (same through both APIs) -/
def effWs (m : MatrixModel) : List (Nat × Rat) := m.ws

def effDws (m : MatrixModel) : List (Nat × Rat) := m.dws

/-- `FeedInitialGuesses` -/
def feedInitialGuesses (m : MatrixModel) : List (Nat × Rat) :=
  (effWs m).map (fun e => (vperm m e.1, e.2))

/-- `FeedInitialDualGuesses` -/
def feedInitialDualGuesses (m : MatrixModel) : List (Nat × Rat) := effDws m

/-- `std::round` (half away from zero) -/
def roundHA (q : Rat) : Int := if q ≥ 0 then (q + 1/2).floor else -((-q + 1/2).floor)

/-- `NLSuffixSet::Add`: a `std::set` keyed by `(name, kind & 3)`; a second insert with an equal key is dropped -/
def sufSet (l : List Suffix) : List Suffix :=
  l.foldl (fun acc s => if acc.any (fun t => t.name == s.name && t.kind % 4 == s.kind % 4) then acc else acc ++ [s]) []

structure SufFeed where
  name : String
  kind : Nat
  entries : List (Nat × Rat)
  deriving Repr

/-- `FeedSuffixes`: all entries with a nonzero value; variable suffixes through `VPerm`;
integer suffixes rounded -/
def feedSuffix (m : MatrixModel) (s : Suffix) : SufFeed :=
  let ifVars := s.kind % 4 == 0
  let isDbl := (s.kind / 4) % 2 == 1
  { name := s.name, kind := s.kind,
    entries := (s.values.zipIdx.filter (fun e => e.1 != 0)).map (fun e =>
      (if ifVars then vperm m e.2 else e.2, if isDbl then e.1 else ((roundHA e.1 : Int) : Rat)) ) }

def feedSuffixes (m : MatrixModel) : List SufFeed := (sufSet m.sufs).map (feedSuffix m)

/-- `FeedColNames` -/
def feedColNames (m : MatrixModel) : Option (List String) :=
  m.colNames.map (fun nm => (List.range m.n).map (fun i => nm.getD (vpermInv m i) ""))

/-- `FeedRowAndObjNames` -/
def feedRowObjNames (m : MatrixModel) : Option (List String) :=
  m.rowNames.map (fun nm => (List.range m.m).map (fun i => nm.getD i "") ++ [m.objName])

/-! ## What the real NL reader makes of it (`NLProblemBuilder`) -/

/-- `AddVariables` (with `nlvc = nlvb = 0`): successive `AddVars(count, type)` calls are vector
resizes, so a negative count truncates.  Closed form of the final `is_var_int_[pos]`. -/
def decodeIsInt (h : Header) (pos : Nat) : Bool :=
  if h.nvars - (h.nbv + h.niv) ≤ pos then true
  else decide (h.nlvo - h.nlvoi ≤ pos) && decide (pos < h.nlvo)

/-- number of arguments of the `sum` node; the reader demands at least 3 (`ReadNumArgs`) -/
def sumArity (m : MatrixModel) : Nat := (if m.c0 != 0 then 1 else 0) + m.Q.nnz + numPad m

def readable (m : MatrixModel) : Bool := decide (m.Q.nnz = 0) || decide (3 ≤ sumArity m)

/-- dense vector from sparse entries, later entries win -/
def dense (size : Nat) (l : List (Nat × Rat)) : List Rat :=
  (List.range size).map (fun i => match (l.reverse.find? (fun e => e.1 == i)) with | some e => e.2 | none => 0)

def evalExpr (z : Nat → Rat) : Expr → Rat
  | .num q => q
  | .var i => z i
  | .mul a b => evalExpr z a * evalExpr z b
  | .sum args => evalList z args
where
  evalList (z : Nat → Rat) : List Expr → Rat
    | [] => 0
    | a :: as => evalExpr z a + evalList z as

def evalLin (z : Nat → Rat) (l : List (Nat × Rat)) : Rat := (l.map (fun e => e.2 * z e.1)).sum

/-- value of the objective *as written* at a point `z` given in NL order -/
def writtenObj (m : MatrixModel) (z : Nat → Rat) : Rat :=
  evalLin z (feedObjGradient m) + evalExpr z (feedObjExpr m)

/-! ## Reference semantics of the caller's model -/

/-- textbook CSR row ranges, ascending: `(row, pos)` -/
def entriesAsc (start : List Nat) (rows nnz : Nat) : List (Nat × Nat) :=
  (List.range rows).flatMap (fun i =>
    let s := start.getD i 0
    let e := if i + 1 < rows then start.getD (i + 1) 0 else nnz
    (List.range' s (e - s)).map (fun p => (i, p)))

/-- the caller's objective `c0 + c·x + ½ Σ_entries q x_row x_col` -/
def objSpec (m : MatrixModel) (x : Nat → Rat) : Rat :=
  m.c0 + ((List.range m.n).map (fun j => cCoef m j * x j)).sum +
  ((entriesAsc m.Q.start m.n m.Q.nnz).map (fun e => qVal m e.2 / 2 * x e.1 * x (qCol m e.2))).sum

/-- `NLModel::ComputeObjValue` (`some`: kept as an option so that the driver is unchanged) -/
def computeObjValue (m : MatrixModel) (x : Nat → Rat) : Option Rat :=
  let lin := ((List.range m.n).reverse.map (fun j => cCoef m j * x j)).foldl (· + ·) m.c0
  some (((qEntries m).map (fun e => qVal m e.2 / 2 * x e.1 * x (qCol m e.2))).foldl (· + ·) lin)

/-! ## SOLHandler_Easy -/

/-- `OnPrimalSolution`: `x_.resize(num_vars); x_[vperm_inv_[i]] = value_i` -/
def onPrimal (m : MatrixModel) (xs : List Rat) : List Rat :=
  if xs.isEmpty then []
  else (List.range m.n).map (fun j => xs.getD (vperm m j) 0)

/-- `OnSuffix`: dense `values(nmax)`, variable suffixes through `vperm_inv_` -/
def onSuffix (m : MatrixModel) (kind : Nat) (entries : List (Nat × Rat)) : List Rat :=
  let nmax := match kind % 4 with | 0 => m.n | 1 => m.m | _ => 1
  if kind % 4 == 0 then dense nmax (entries.map (fun e => (vpermInv m e.1, e.2)))
  else dense nmax entries

/-! ## State that outlives one model: `NLModel::PreprocessData` (owned by `NLSolver` as `pd_`) -/

/-- `NLModel::PreprocessData` -/
structure Pd where
  vperm : List Nat
  vpermInv : List Nat
  deriving Repr, DecidableEq, Inhabited

/-- `std::vector<int>::resize(n)` -/
def resizeTo (l : List Nat) (n : Nat) : List Nat := l.take n ++ List.replicate (n - l.length) 0

/-- `NLFeeder_Easy::ExportPreproData(pd)`: resize both vectors to `NumCols()`, then assign every entry.
A state update: `pd` may hold the permutation of a previously loaded model. -/
def exportPrepro (old : Pd) (m : MatrixModel) : Pd :=
  { vperm := (List.range m.n).foldl (fun acc i => acc.set i (vperm m i)) (resizeTo old.vperm m.n)
    vpermInv := (List.range m.n).foldl (fun acc i => acc.set i (vpermInv m i)) (resizeTo old.vpermInv m.n) }

/-- what a fresh `PreprocessData` holds after exporting `m` -/
def pdOf (m : MatrixModel) : Pd :=
  { vperm := (List.range m.n).map (vperm m), vpermInv := (List.range m.n).map (vpermInv m) }

/-- a history: models loaded one after the other through the same `NLSolver` / `PreprocessData` -/
def runHistory (pd0 : Pd) (ms : List MatrixModel) : Pd := ms.foldl exportPrepro pd0

/-- `SOLHandler_Easy::OnPrimalSolution` as written: uses the stored `pd_.vperm_inv_`
(`x_.resize(num_vars)`, then `x_[pd_.vperm_inv_[i]] = value_i` for `i` ascending: a later write wins) -/
def onPrimalPd (pd : Pd) (n : Nat) (xs : List Rat) : List Rat :=
  if xs.isEmpty then []
  else dense n (xs.zipIdx.map (fun e => (pd.vpermInv.getD e.2 0, e.1)))

/-- `SOLHandler_Easy::OnSuffix` as written: uses the stored `pd_.vperm_inv_` -/
def onSuffixPd (pd : Pd) (n mrows : Nat) (kind : Nat) (entries : List (Nat × Rat)) : List Rat :=
  let nmax := match kind % 4 with | 0 => n | 1 => mrows | _ => 1
  if kind % 4 == 0 then dense nmax (entries.map (fun e => (pd.vpermInv.getD e.1 0, e.2)))
  else dense nmax entries

/-! ## File-system state of a stub: the auxiliary name files -/

/-- what is on disk next to `<stub>.nl`: the lines of `<stub>.col` / `<stub>.row`, `none` = no such file -/
structure NameFiles where
  col : Option (List String)
  row : Option (List String)
  deriving Repr, DecidableEq, Inhabited

/-- `StringFileWriter` (nl-writer2.hpp) for one file: the file is opened (created / truncated) at the first `Write`,
i.e. only when the feeder has names (`some l`: the file then holds exactly `l`); a writer that was never opened REMOVES the
file in its destructor (`if (!cnt_ && !fTriedOpen_) opener_(true)`), whatever an earlier model left there -/
def writeNameFile (old : Option (List String)) (fed : Option (List String)) : Option (List String) :=
  match fed with
  | some l => let _ := old; some l      -- truncated and rewritten: the old content is gone
  | none => none                        -- never opened: removed

/-- `NLWriter2::WriteAuxFiles` for the easy feeder: `.row` (row names + objective name) and `.col` -/
def writeNameFiles (old : NameFiles) (m : MatrixModel) : NameFiles :=
  { col := writeNameFile old.col (feedColNames m), row := writeNameFile old.row (feedRowObjNames m) }

/-- models written one after the other to the SAME stub -/
def runStubHistory (fs0 : NameFiles) (ms : List MatrixModel) : NameFiles := ms.foldl writeNameFiles fs0

/-- `OnSuffix` index test `val.first<0 || val.first>=nmax` (indices are naturals here) -/
def solSuffixOk (n mrows kind : Nat) (entries : List (Nat × Rat)) : Bool :=
  let nmax := match kind % 4 with | 0 => n | 1 => mrows | _ => 1
  entries.all (fun e => decide (e.1 < nmax))

/-- suffixes delivered by `ReadSolution`, in file order: a suffix with a bad index is dropped (`SetError`,
`return` before `Add`) and the SOL reader stops there, so the later ones are never read -/
def readSolSuffixes (pd : Pd) (n mrows : Nat) (l : List (String × Nat × List (Nat × Rat))) : List (String × Nat × List Rat) :=
  (l.takeWhile (fun s => solSuffixOk n mrows s.2.1 s.2.2)).map (fun s => (s.1, s.2.1, onSuffixPd pd n mrows s.2.1 s.2.2))

/-- `NLSolver::ReadSolution` leaves an error message iff the SOL reader stopped at a bad suffix -/
def solReadError (n mrows : Nat) (l : List (String × Nat × List (Nat × Rat))) : Bool :=
  !(l.all (fun s => solSuffixOk n mrows s.2.1 s.2.2))

/-- `err_msg_` of an `NLSolver` is only ever assigned, never cleared: the flag seen after a read is sticky -/
def stickyErr (before now : Bool) : Bool := before || now

/-- failure paths that need no model data (harness op `P`): `ReadSolution` before any model was loaded gives
"no result" (`solve_result_ = -2`, no values, an error message); with a stub that cannot be written `LoadModel` /
`WriteNL` fail with a message, the permutation is still exported, and `ReadSolution` gives "no result" -/
def probeLines : List String :=
  ["probe cpp presol code -2 nx 0 err 1", "probe cpp badstub load 0 werr 1 err 1 code -2 nx 0 perm 2",
   "probe c presol code -2 nx 0 err 1", "probe c badstub load 0 werr 1 err 1 code -2 nx 0 perm 2"]

end MpVerif.C08

import MpVerif.C08.Model
namespace MpVerif.C08
theorem C08_placeholder : True := trivial
end MpVerif.C08

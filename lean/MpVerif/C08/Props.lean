import MpVerif.C08.LemmasReader
/-!
# C08 — property theorems

All theorems are about `MpVerif.C08` (Model.lean), quantified over **every** matrix model.
Well-formedness hypotheses used, and nothing else:
* `hq : ∀ c ∈ m.Q.index, c < m.n`, `ha : ∀ c ∈ m.A.index, c < m.n` (column indices in range),
* `hst : ∀ s ∈ m.Q.start, s ≤ m.Q.nnz` (row starts inside the nonzero array).

This is the version for the tree with repo_patches/C08-easy-api-fixes.diff applied: every statement is at
full strength (the former `_partial` theorems and counterexamples of the unfixed code are gone; their
corpus cases stay in checks/c08.py as regression inputs).
-/
namespace MpVerif.C08

/-! ## 1. The reported permutation -/

/-- `vperm_` / `vperm_inv_` are mutually inverse bijections of `[0, n)` -/
theorem C08_perm_bijection (m : MatrixModel) (j : Nat) (hj : j < m.n) :
    vperm m j < m.n ∧ vpermInv m (vperm m j) = j ∧ vpermInv m j < m.n ∧ vperm m (vpermInv m j) = j :=
  ⟨vperm_lt m hj, vpermInv_vperm m hj, vpermInv_lt m hj, vperm_vpermInv m hj⟩

/-- NL order is sorted by the key, and stable: inside a key class caller order is kept -/
theorem C08_perm_sorted_stable (m : MatrixModel) (p q : Nat) (hpq : p < q) (hq : q < m.n) :
    key m (vpermInv m p) < key m (vpermInv m q) ∨
    (key m (vpermInv m p) = key m (vpermInv m q) ∧ vpermInv m p < vpermInv m q) := by
  have hs := sortedPairs_pairwise m
  rw [List.pairwise_iff_getElem] at hs
  have hlq : q < (sortedPairs m).length := by rw [sortedPairs_length]; exact hq
  have hlp : p < (sortedPairs m).length := by omega
  have h := hs p q hlp hlq hpq
  rw [sortedPairs_getElem m hlp, sortedPairs_getElem m hlq] at h
  simp only [pairLE, Bool.or_eq_true, Bool.and_eq_true, decide_eq_true_eq] at h
  have hne : vpermInv m p ≠ vpermInv m q := fun hh => by
    have := vpermInv_inj m (by omega) hq hh
    omega
  omega

/-- `std::stable_sort` is only skeleton-tied, but WHICH stable sort is used does not matter: any rearrangement of the
`(key, index)` pairs that is sorted by the `std::pair` order is the model's `sortedPairs` — in particular any list that is
sorted by the (generated, `C08_gen_key`) key alone and keeps the caller order inside equal keys (the specification of a
stable sort by key).  So the reported permutation is THE stable-sort permutation of the keys. -/
theorem C08_sort_unique (m : MatrixModel) (L : List (Int × Nat)) (hperm : L.Perm (pairs m)) :
    (L.Pairwise (fun a b => pairLE a b = true) → L = sortedPairs m) ∧
    (L.Pairwise (fun a b => a.1 < b.1 ∨ (a.1 = b.1 ∧ a.2 < b.2)) → L = sortedPairs m) := by
  have huniq : L.Pairwise (fun a b => pairLE a b = true) → L = sortedPairs m := by
    intro hs
    apply List.Perm.eq_of_pairwise (le := fun a b => pairLE a b = true) _ hs (sortedPairs_pairwise m)
      (hperm.trans (sortedPairs_perm m).symm)
    intro a b _ _ h1 h2
    simp only [pairLE, Bool.or_eq_true, Bool.and_eq_true, decide_eq_true_eq] at h1 h2
    apply Prod.ext <;> omega
  refine ⟨huniq, ?_⟩
  intro hs
  apply huniq
  apply hs.imp
  intro a b h
  simp only [pairLE, Bool.or_eq_true, Bool.and_eq_true, decide_eq_true_eq]
  omega

/-- position of column `j` lies in the block of its key class -/
theorem C08_block_position (m : MatrixModel) (j : Nat) (hj : j < m.n) :
    (List.range m.n).countP (fun i => decide (key m i < key m j)) ≤ vperm m j ∧
    vperm m j < (List.range m.n).countP (fun i => decide (key m i ≤ key m j)) :=
  pos_bounds m hj

/-! ## 2. Header class counts and type-by-position decoding -/

/-- the linear-integer and nonlinear-integer header counts are the sizes of the key classes 1, 2, −1 -/
theorem C08_header_integer_counts (m : MatrixModel) (text : Bool) (flags : Nat) :
    (header m text flags).nbv = (List.range m.n).countP (fun j => decide (key m j = 1)) ∧
    (header m text flags).niv = (List.range m.n).countP (fun j => decide (key m j = 2)) ∧
    (header m text flags).nlvoi = (List.range m.n).countP (fun j => decide (key m j = -1)) := by
  refine ⟨?_, ?_, ?_⟩ <;>
  · simp only [header, nbv, niv, nlvoi]
    apply List.countP_congr
    intro x _
    rw [key_eq]
    generalize nlv m x = a
    generalize isInt m x = b
    generalize isBin01 m x = c
    cases a <;> cases b <;> cases c <;> decide

/-- `num_nl_vars_in_objs` is the size of the nonlinear block -/
theorem C08_header_nlvo (m : MatrixModel) (text : Bool) (flags : Nat) :
    (header m text flags).nlvo = (List.range m.n).countP (fun j => decide (key m j < 0)) := by
  rw [count_lt_zero_nlv]
  rfl

/-- the reader's type-by-position decoding gives column `j` its own integrality at its permuted position -/
theorem C08_types (m : MatrixModel) (text : Bool) (flags : Nat) (j : Nat) (hj : j < m.n) :
    decodeIsInt (header m text flags) (vperm m j) = isInt m j :=
  types_ok m text flags hj

/-- two general-integer columns, triangular Hessian (0,0),(0,1),(1,1): regression input of the former defect -/
def cxTypes : MatrixModel :=
  { api := 0, n := 2, types := some [1, 1], lb := [.fin 0, .fin 0], ub := [.fin 5, .fin 5], sense := 0, c0 := 1,
    c := some [0, 0], qfmt := 1, Q := { start := [0, 2], index := [0, 1, 1], value := [2, 1, 2] }, m := 0, rlb := [], rub := [],
    A := { start := [], index := [], value := [] }, ws := [], dws := [], sufs := [], colNames := none, rowNames := none,
    objName := "obj" }

example : (header cxTypes true 1).nlvo = 2 ∧ (header cxTypes true 1).nlvoi = 2 := by decide

/-- every variable occurring in the quadratic part sits in the leading (nonlinear) block -/
theorem C08_nonlinear_block (m : MatrixModel) (e : Nat × Nat) (he : e ∈ qEntries m) :
    key m e.1 < 0 ∧ key m (qCol m e.2) < 0 := by
  have h1 : nlv m e.1 = true := by
    unfold nlv
    rw [List.any_eq_true]
    exact ⟨e, he, by simp⟩
  have h2 : nlv m (qCol m e.2) = true := by
    unfold nlv
    rw [List.any_eq_true]
    exact ⟨e, he, by simp⟩
  constructor
  · rw [key_eq, h1]
    generalize isInt m e.1 = b
    cases b <;> simp
  · rw [key_eq, h2]
    generalize isInt m (qCol m e.2) = b
    cases b <;> simp

/-! ## 3. Bounds, names, rows -/

theorem C08_bounds_follow (m : MatrixModel) (j : Nat) (hj : j < m.n) :
    (feedVarBounds m).getD (vperm m j) (.fin 0, .fin 0) = (m.lb.getD j (.fin 0), m.ub.getD j (.fin 0)) := by
  unfold feedVarBounds
  rw [getD_map_range _ _ _ (vperm_lt m hj), vpermInv_vperm m hj]

theorem C08_colnames_follow (m : MatrixModel) (nm : List String) (h : m.colNames = some nm) (j : Nat) (hj : j < m.n) :
    ∃ l, feedColNames m = some l ∧ l.length = m.n ∧ l.getD (vperm m j) "" = nm.getD j "" := by
  refine ⟨(List.range m.n).map (fun i => nm.getD (vpermInv m i) ""), ?_, ?_, ?_⟩
  · simp [feedColNames, h]
  · simp
  · rw [getD_map_range _ _ _ (vperm_lt m hj), vpermInv_vperm m hj]

/-- row names are written in caller order followed by the objective name (rows are not permuted) -/
theorem C08_rownames (m : MatrixModel) (nm : List String) (h : m.rowNames = some nm) :
    feedRowObjNames m = some ((List.range m.m).map (fun i => nm.getD i "") ++ [m.objName]) := by
  simp [feedRowObjNames, h]

/-- the caller's row `i` as a function: textbook CSR row range -/
def rowSpec (m : MatrixModel) (i : Nat) (x : Nat → Rat) : Rat :=
  let s := m.A.start.getD i 0
  let e := if i + 1 < m.m then m.A.start.getD (i + 1) 0 else m.A.nnz
  ((List.range' s (e - s)).map (fun pos => m.A.value.getD pos 0 * x (m.A.index.getD pos 0))).sum

/-- every row has the same value at every point (and its range is passed through unchanged) -/
theorem C08_rows_same_function (m : MatrixModel) (ha : ∀ c ∈ m.A.index, c < m.n) (hn : 0 < m.n) (i : Nat) (x : Nat → Rat) :
    evalLin (fun p => x (vpermInv m p)) (feedLinearConExpr m i) = rowSpec m i x ∧
    (i < m.m → (feedConBounds m).getD i (.fin 0, .fin 0) = (m.rlb.getD i (.fin 0), m.rub.getD i (.fin 0))) := by
  constructor
  · unfold evalLin feedLinearConExpr rowSpec
    simp only [List.map_map]
    congr 1
    apply List.map_congr_left
    intro pos _
    have hc : m.A.index.getD pos 0 < m.n := by
      by_cases h : pos < m.A.index.length
      · rw [getD_eq_getElem' _ _ h]; exact ha _ (List.getElem_mem h)
      · rw [List.getD_eq_getElem?_getD, List.getElem?_eq_none (by omega)]; exact hn
    simp only [Function.comp_apply, vpermInv_vperm m hc]
  · intro hi
    unfold feedConBounds
    rw [getD_map_range _ _ _ hi]

/-- Jacobian column sizes (k segment: all positions but the last) follow their columns -/
theorem C08_colsizes_follow (m : MatrixModel) (j : Nat) (hj : j < m.n) (hl : vperm m j < m.n - 1) :
    (feedColumnSizes m).getD (vperm m j) 0 = m.A.index.count j := by
  unfold feedColumnSizes colSize
  rw [getD_map_range _ _ _ hl, vpermInv_vperm m hj]

/-- the NL `k` segment omits the LAST position; its column size is nevertheless determined by what is written:
the sizes at all positions sum to the number of Jacobian nonzeros of the header (`nzc`), so the last column has
`nzc − Σ written sizes` entries — and that is the caller's count for the column placed last -/
theorem C08_colsizes_last (m : MatrixModel) (ha : ∀ c ∈ m.A.index, c < m.n) (hn : 0 < m.n) (text : Bool) (flags : Nat) :
    (feedColumnSizes m).sum + m.A.index.count (vpermInv m (m.n - 1)) = (header m text flags).nzc ∧
    m.A.index.count (vpermInv m (m.n - 1)) = (header m text flags).nzc - (feedColumnSizes m).sum := by
  have h1 := sum_over_positions m (fun j => m.A.index.count j)
  rw [sum_count_range m.A.index m.n ha] at h1
  have hsplit : List.range m.n = List.range (m.n - 1) ++ [m.n - 1] := by
    have : m.n = (m.n - 1) + 1 := by omega
    rw [this, List.range_succ]; simp
  rw [hsplit, List.map_append, List.sum_append] at h1
  simp only [List.map_cons, List.map_nil, List.sum_cons, List.sum_nil, Nat.add_zero] at h1
  have hf : (feedColumnSizes m).sum = ((List.range (m.n - 1)).map (fun i => m.A.index.count (vpermInv m i))).sum := rfl
  have hz : (header m text flags).nzc = m.A.index.length := rfl
  rw [hf, hz]
  omega

/-! ## 4. Objective -/

/-- the objective written to NL (gradient + expression tree), evaluated at the permuted image of any
point, equals the caller's objective `c0 + c·x + ½ Σ q x_r x_c` — for every point -/
theorem C08_objective_same_function (m : MatrixModel) (hq : ∀ c ∈ m.Q.index, c < m.n)
    (hst : ∀ s ∈ m.Q.start, s ≤ m.Q.nnz) (x : Nat → Rat) :
    writtenObj m (fun p => x (vpermInv m p)) = objSpec m x :=
  writtenObj_eq m hq hst x

/-- the `sum` node always has at least 3 arguments: the written file passes the reader's arity test -/
theorem C08_readable (m : MatrixModel) : readable m = true := by
  unfold readable sumArity numPad
  simp only [Bool.or_eq_true, decide_eq_true_eq]
  right
  split <;> omega

/-- `ComputeObjValue` returns the caller's objective at the given point (with or without linear coefficients) -/
theorem C08_objective_recomputed (m : MatrixModel)
    (hst : ∀ s ∈ m.Q.start, s ≤ m.Q.nnz) (x : Nat → Rat) : computeObjValue m x = some (objSpec m x) :=
  computeObjValue_eq m hst x

/-! ## 5. Warm starts and suffixes -/

/-- the primal warm start read back at the permuted position is the caller's value; the dual one is
passed through — both APIs -/
theorem C08_warmstart_follow (m : MatrixModel) (hw : ∀ e ∈ m.ws, e.1 < m.n)
    (j : Nat) (hj : j < m.n) :
    (dense m.n (feedInitialGuesses m)).getD (vperm m j) 0 = (dense m.n m.ws).getD j 0 ∧
    feedInitialDualGuesses m = m.dws := by
  constructor
  · unfold feedInitialGuesses effWs
    exact dense_reindex m m.ws hw hj
  · rfl

/-- every entry written for a variable suffix is `(VPerm j, value_j)` (rounded for integer suffixes) of a
nonzero caller value, and every nonzero caller value is written -/
theorem C08_suffix_follow (m : MatrixModel) (s : Suffix) (hk : s.kind % 4 = 0) (e : Nat × Rat) :
    e ∈ (feedSuffix m s).entries ↔
    ∃ j v, s.values[j]? = some v ∧ v ≠ 0 ∧
      e = (vperm m j, if (s.kind / 4) % 2 == 1 then v else ((roundHA v : Int) : Rat)) := by
  simp only [feedSuffix, hk, List.mem_map, List.mem_filter, Prod.exists, List.mem_zipIdx_iff_getElem?]
  constructor
  · rintro ⟨v, j, ⟨hv, hnz⟩, rfl⟩
    exact ⟨j, v, hv, by simpa using hnz, by simp⟩
  · rintro ⟨j, v, hv, hnz, rfl⟩
    exact ⟨v, j, ⟨hv, by simpa using hnz⟩, by simp⟩

/-- suffixes of constraints/objectives/problem are not re-indexed -/
theorem C08_suffix_nonvar (m : MatrixModel) (s : Suffix) (hk : s.kind % 4 ≠ 0) (e : Nat × Rat) :
    e ∈ (feedSuffix m s).entries → ∃ v, s.values[e.1]? = some v ∧ v ≠ 0 := by
  have hk' : (s.kind % 4 == 0) = false := by simp [hk]
  simp only [feedSuffix, hk', List.mem_map, List.mem_filter, Prod.exists, List.mem_zipIdx_iff_getElem?]
  rintro ⟨v, j, ⟨hv, hnz⟩, rfl⟩
  exact ⟨v, by simpa using hv, by simpa using hnz⟩

/-! ## 6. Solutions come back in caller order -/

/-- the value the solver reports for NL position `p` is returned at caller index `vpermInv p`;
equivalently caller index `j` receives the value at position `vperm j` -/
theorem C08_unpermute_primal (m : MatrixModel) (xs : List Rat) (hne : xs ≠ []) (j : Nat) (hj : j < m.n) :
    (onPrimal m xs).length = m.n ∧
    (onPrimal m xs).getD j 0 = xs.getD (vperm m j) 0 ∧
    (onPrimal m xs).getD (vpermInv m j) 0 = xs.getD j 0 := by
  have he : xs.isEmpty = false := by
    cases xs with
    | nil => exact absurd rfl hne
    | cons _ _ => rfl
  unfold onPrimal
  simp only [he, Bool.false_eq_true, if_false]
  refine ⟨by simp, ?_, ?_⟩
  · rw [getD_map_range _ _ _ hj]
  · rw [getD_map_range _ _ _ (vpermInv_lt m hj), vperm_vpermInv m hj]

/-- round trip: a caller-order point written by a solver in NL order is returned unchanged -/
theorem C08_unpermute_roundtrip (m : MatrixModel) (x : Nat → Rat) (hn : 0 < m.n) :
    onPrimal m ((List.range m.n).map (fun p => x (vpermInv m p))) = (List.range m.n).map x := by
  have he : ((List.range m.n).map (fun p => x (vpermInv m p))).isEmpty = false := by
    cases h : m.n with
    | zero => omega
    | succ k => simp [List.range_succ]
  unfold onPrimal
  simp only [he, Bool.false_eq_true, if_false]
  apply List.map_congr_left
  intro j hj
  rw [List.mem_range] at hj
  rw [getD_map_range _ _ _ (vperm_lt m hj), vpermInv_vperm m hj]

/-- solution suffixes on variables are returned at the caller's index -/
theorem C08_unpermute_suffix (m : MatrixModel) (kind : Nat) (hk : kind % 4 = 0) (entries : List (Nat × Rat))
    (he : ∀ e ∈ entries, e.1 < m.n) (p : Nat) (hp : p < m.n) :
    (onSuffix m kind entries).getD (vpermInv m p) 0 = (dense m.n entries).getD p 0 := by
  unfold onSuffix
  simp only [hk, beq_self_eq_true, if_true]
  exact dense_reindex_inv m entries he hp

/-- the objective value recomputed from the returned solution is the caller's objective at the
caller-order point the solver's values denote -/
theorem C08_solution_objective (m : MatrixModel)
    (hst : ∀ s ∈ m.Q.start, s ≤ m.Q.nnz) (xs : List Rat) (hne : xs ≠ []) :
    computeObjValue m (fun j => (onPrimal m xs).getD j 0) =
      some (objSpec m (fun j => if j < m.n then xs.getD (vperm m j) 0 else 0)) := by
  rw [computeObjValue_eq m hst]
  congr 2
  funext j
  by_cases hj : j < m.n
  · rw [(C08_unpermute_primal m xs hne j hj).2.1]; simp [hj]
  · have hl := (C08_unpermute_primal m xs hne 0)
    have : (onPrimal m xs).length ≤ j := by
      have he : xs.isEmpty = false := by
        cases xs with
        | nil => exact absurd rfl hne
        | cons _ _ => rfl
      unfold onPrimal
      simp only [he, Bool.false_eq_true, if_false, List.length_map, List.length_range]
      omega
    rw [List.getD_eq_getElem?_getD, List.getElem?_eq_none this]
    simp [hj]

/-! ## 7. Histories: several models through one `NLSolver` / one `PreprocessData` -/

/-- `ExportPreproData` is a state update whose result does not depend on the previous state -/
theorem C08_export_overwrites (old : Pd) (m : MatrixModel) :
    exportPrepro old m = pdOf m ∧ (exportPrepro old m).vperm.length = m.n ∧ (exportPrepro old m).vpermInv.length = m.n := by
  rw [exportPrepro_eq]
  simp [pdOf]

/-- after ANY history of loaded models (any initial state, any earlier models of any sizes) the exported
permutation is exactly that of the LAST model -/
theorem C08_history_last (pd0 : Pd) (ms : List MatrixModel) (m : MatrixModel) :
    runHistory pd0 (ms ++ [m]) = pdOf m := by
  unfold runHistory
  rw [List.foldl_append]
  exact exportPrepro_eq _ m

/-- hence the solution of the last loaded model comes back in that model's caller order, whatever was
loaded before: `SOLHandler_Easy` reading the stored state behaves as `onPrimal` / `onSuffix` of the last model -/
theorem C08_history_solution (pd0 : Pd) (ms : List MatrixModel) (m : MatrixModel) (xs : List Rat) (hl : xs.length ≤ m.n)
    (kind : Nat) (entries : List (Nat × Rat)) :
    onPrimalPd (runHistory pd0 (ms ++ [m])) m.n xs = onPrimal m xs ∧
    onSuffixPd (runHistory pd0 (ms ++ [m])) m.n m.m kind entries = onSuffix m kind entries := by
  rw [C08_history_last]
  exact ⟨onPrimalPd_pdOf m xs hl, onSuffixPd_pdOf m kind entries⟩

/-! ## 7b. Histories on one file stub: the auxiliary name files -/

/-- writing a model replaces or removes the name files, whatever an earlier model left on the stub -/
theorem C08_namefiles_overwrite (old : NameFiles) (m : MatrixModel) :
    writeNameFiles old m = ⟨feedColNames m, feedRowObjNames m⟩ := by
  unfold writeNameFiles writeNameFile
  cases feedColNames m <;> cases feedRowObjNames m <;> rfl

/-- after ANY history of models written to one stub (any initial files, any earlier models, named or not) the name
files are those of the LAST model: `.col` exists iff that model has column names and then its line `vperm j` is the name of
column `j`; `.row` exists iff it has row names and then holds them in caller order followed by the objective name -/
theorem C08_namefiles_history_last (fs0 : NameFiles) (ms : List MatrixModel) (m : MatrixModel) :
    runStubHistory fs0 (ms ++ [m]) = ⟨feedColNames m, feedRowObjNames m⟩ ∧
    ((runStubHistory fs0 (ms ++ [m])).col.isSome = m.colNames.isSome) ∧
    ((runStubHistory fs0 (ms ++ [m])).row.isSome = m.rowNames.isSome) ∧
    (∀ nm, m.colNames = some nm → ∀ j, j < m.n →
      ∃ l, (runStubHistory fs0 (ms ++ [m])).col = some l ∧ l.length = m.n ∧ l.getD (vperm m j) "" = nm.getD j "") := by
  have h : runStubHistory fs0 (ms ++ [m]) = ⟨feedColNames m, feedRowObjNames m⟩ := by
    unfold runStubHistory
    rw [List.foldl_append]
    exact C08_namefiles_overwrite _ m
  rw [h]
  refine ⟨rfl, ?_, ?_, ?_⟩
  · simp [feedColNames]
  · simp [feedRowObjNames]
  · intro nm hnm j hj
    exact C08_colnames_follow m nm hnm j hj

/-! ## 8. Ties to the definitions GENERATED from the current source (`MpVerif.Gen.C08Easy`, translators/gen_easy_c08.py)

The model functions the theorems above speak about are proved equal to what the translator extracts from
`nl-solver.cc` on every run; a change of the C++ changes the generated file and these proofs stop checking. -/
section Gen
open MpVerif.Gen.C08Easy

/-- the text of every mechanism function is the text the model was written against -/
theorem C08_gen_skeletons : MpVerif.Gen.C08Easy.skeletons = Expected.skeletons := rfl

/-- what the translated expressions read (which array, which permutation direction), the loop header of `PermuteVars`
and the statements around its column loop (`stable_sort` with the default `pair` order, the reverse-mapping loop) -/
theorem C08_gen_leaves :
    permuteStep_leaves = Expected.permuteStep_leaves ∧ permuteLoop_header = Expected.permuteLoop_header ∧
    permuteVars_rest = Expected.permuteVars_rest ∧ objLinTerm_leaves = Expected.objLinTerm_leaves ∧
    objQuadTerm_leaves = Expected.objQuadTerm_leaves ∧ sufTarget_leaves = Expected.sufTarget_leaves ∧
    primalTarget_leaves = Expected.primalTarget_leaves ∧ feedSufIndex_leaves = Expected.feedSufIndex_leaves := by decide

/-- the model's sort key is the value the generated loop body of `PermuteVars` leaves in `var_perm_[j].first`,
whatever the cell and the counters held before -/
theorem C08_gen_key (m : MatrixModel) (j : Nat) (s : Int × Int × Int × Int) : (stepOf m j s).1 = key m j := by
  rw [stepOf_eq]

/-- running the generated loop body over all columns (in the code's descending order) from zeroed counters yields the
model's header class counts `nlvoi`, `niv`, `nbv` -/
theorem C08_gen_header_counts (m : MatrixModel) :
    ((List.range m.n).reverse.foldl (fun s j => stepOf m j s) (0, 0, 0, 0)).2.1 = nlvoi m ∧
    ((List.range m.n).reverse.foldl (fun s j => stepOf m j s) (0, 0, 0, 0)).2.2.1 = niv m ∧
    ((List.range m.n).reverse.foldl (fun s j => stepOf m j s) (0, 0, 0, 0)).2.2.2 = nbv m := by
  have h := foldl_stepOf m (List.range m.n).reverse (0, 0, 0, 0)
  simp only [List.countP_reverse, Int.zero_add] at h
  exact h

/-- `computeObjValue` is the fold of the generated initial value and the two generated `result += …` terms -/
theorem C08_gen_objvalue (m : MatrixModel) (x : Nat → Rat) :
    computeObjValue m x =
      some (((qEntries m).map (fun e => objQuadTerm (qVal m e.2) (x e.1) (x (qCol m e.2)))).foldl (· + ·)
        (((List.range m.n).reverse.map (fun j => objLinTerm (cCoef m j) (x j))).foldl (· + ·) (objInit m.c0))) := by
  unfold computeObjValue objQuadTerm objLinTerm objInit
  have : (fun e : Nat × Nat => qVal m e.2 / 2 * x e.1 * x (qCol m e.2)) =
      (fun e : Nat × Nat => (1 : Rat) / 2 * qVal m e.2 * x e.1 * x (qCol m e.2)) := by
    funext e; grind
  rw [this]

/-- the coefficient written by `FeedObjExpression` is the generated `0.5 * Q.value_[pos]` -/
theorem C08_gen_objexpr_coef (m : MatrixModel) (e : Nat × Nat) :
    qTerm m e = .mul (.num (objExprCoef (qVal m e.2))) (.mul (.var (vperm m e.1)) (.var (vperm m (qCol m e.2)))) := by
  unfold qTerm objExprCoef
  have : qVal m e.2 / 2 = (1 : Rat) / 2 * qVal m e.2 := by grind
  rw [this]

theorem C08_gen_suffix_is_var (kind : Nat) :
    sufIsVar kind = (kind % 4 == 0) ∧ feedSufIsVar kind = (kind % 4 == 0) := by
  unfold sufIsVar feedSufIsVar
  rw [and3_eq_mod4]
  have : decide ((0 : Int) = ((kind % 4 : Nat) : Int)) = (kind % 4 == 0) := by
    generalize kind % 4 = r
    by_cases h : r = 0
    · subst h; rfl
    · have h' : ¬ (0 : Int) = ((r : Nat) : Int) := by omega
      rw [decide_eq_false h']
      exact (beq_eq_false_iff_ne.mpr h).symm
  exact ⟨this, this⟩

/-- the model's `nmax` (model header: `num_objs = 1`, no logical constraints) is the generated `NItemsMax` -/
theorem C08_gen_nitemsmax (kind n mrows : Nat) :
    (((match kind % 4 with | 0 => n | 1 => mrows | _ => 1) : Nat) : Int) = nItemsMax kind n mrows 0 1 := by
  unfold nItemsMax
  rw [and3_eq_mod4]
  have h4 : kind % 4 < 4 := Nat.mod_lt _ (by decide)
  generalize kind % 4 = r at *
  match r, h4 with
  | 0, _ => simp
  | 1, _ => simp
  | 2, _ => simp
  | 3, _ => simp

/-- the index guard of the model is the generated guard `val.first<0 || val.first>=nmax` with the generated `NItemsMax` -/
theorem C08_gen_bad_index (n mrows kind : Nat) (entries : List (Nat × Rat)) :
    solSuffixOk n mrows kind entries = entries.all (fun e => !sufBadIndex e.1 (nItemsMax kind n mrows 0 1)) := by
  have guard_eq : ∀ (a nm : Nat), decide (a < nm) = !(decide ((a : Int) < 0) || decide ((a : Int) ≥ (nm : Int))) := by
    intro a nm
    by_cases h : a < nm
    · have h1 : ¬ ((a : Int) < 0) := by omega
      have h2 : ¬ ((a : Int) ≥ (nm : Int)) := by omega
      simp [h, h1, h2]
    · have h2 : ((a : Int) ≥ (nm : Int)) := by omega
      simp [h, h2]
  unfold solSuffixOk sufBadIndex
  rw [← C08_gen_nitemsmax]
  dsimp only
  have h4 : kind % 4 < 4 := Nat.mod_lt _ (by decide)
  generalize kind % 4 = r at *
  match r, h4 with
  | 0, _ => simp only [guard_eq]
  | 1, _ => simp only [guard_eq]
  | 2, _ => simp only [guard_eq]
  | 3, _ => simp only [guard_eq]

/-- un-permutation index arithmetic: the index written by `SOLHandler_Easy::OnSuffix` / `OnPrimalSolution` and by
`FeedSuffixes`, as the model uses them (`sufTarget_leaves`, `primalTarget_leaves`, `feedSufIndex_leaves` say which
arrays the parameters stand for: `pd_.vperm_inv_[…]` on the way back, `VPerm(i)` on the way out) -/
theorem C08_gen_index_arithmetic (kind i invAt permAt : Nat) :
    (((if kind % 4 == 0 then invAt else i) : Nat) : Int) = sufTarget (sufIsVar kind) invAt i ∧
    primalTarget (invAt : Int) i = invAt ∧
    (((if kind % 4 == 0 then permAt else i) : Nat) : Int) = feedSufIndex (feedSufIsVar kind) permAt i := by
  obtain ⟨h1, h2⟩ := C08_gen_suffix_is_var kind
  unfold sufTarget primalTarget feedSufIndex
  rw [h1, h2]
  cases (kind % 4 == 0) <;> simp

/-- the CSR row walk: the model's `qEntries` (used by `nlv`, `supp`, `feedObjExpr`, `computeObjValue`) is the fold of the
GENERATED loop components of `ComputeObjValue` (`pos_end = num_nz; for rows descending { for (pos = start[i]; pos != pos_end;
++pos) visit; pos_end = start[i] }`) -/
theorem C08_gen_walk (m : MatrixModel) :
    (qEntries m).map (fun e => (e.1, (e.2 : Int))) =
      if m.Q.nnz = 0 then []
      else outerLoop walk_ComputeObjValue_init walk_ComputeObjValue_next walk_ComputeObjValue_cond walk_ComputeObjValue_inc
             m.Q.start m.n (walk_ComputeObjValue_posEnd0 m.Q.nnz) := by
  unfold qEntries
  split
  · rfl
  · exact walkDesc_eq_outerLoop m.Q.start m.n m.Q.nnz

/-- the three other functions that walk the Hessian use the same five components -/
theorem C08_gen_walk_same :
    walk_functions = ["FillNonlinearVars", "FillObjNonzeros", "FeedObjExpression", "ComputeObjValue"] ∧
    (walk_FillNonlinearVars_posEnd0 = walk_ComputeObjValue_posEnd0 ∧ walk_FillNonlinearVars_init = walk_ComputeObjValue_init ∧
     walk_FillNonlinearVars_cond = walk_ComputeObjValue_cond ∧ walk_FillNonlinearVars_inc = walk_ComputeObjValue_inc ∧
     walk_FillNonlinearVars_next = walk_ComputeObjValue_next) ∧
    (walk_FillObjNonzeros_posEnd0 = walk_ComputeObjValue_posEnd0 ∧ walk_FillObjNonzeros_init = walk_ComputeObjValue_init ∧
     walk_FillObjNonzeros_cond = walk_ComputeObjValue_cond ∧ walk_FillObjNonzeros_inc = walk_ComputeObjValue_inc ∧
     walk_FillObjNonzeros_next = walk_ComputeObjValue_next) ∧
    (walk_FeedObjExpression_posEnd0 = walk_ComputeObjValue_posEnd0 ∧ walk_FeedObjExpression_init = walk_ComputeObjValue_init ∧
     walk_FeedObjExpression_cond = walk_ComputeObjValue_cond ∧ walk_FeedObjExpression_inc = walk_ComputeObjValue_inc ∧
     walk_FeedObjExpression_next = walk_ComputeObjValue_next) := by
  refine ⟨rfl, ⟨rfl, rfl, rfl, rfl, rfl⟩, ⟨rfl, rfl, rfl, rfl, rfl⟩, ⟨rfl, rfl, rfl, rfl, rfl⟩⟩

/-- with nondecreasing row starts the generated inner loop stops by its own test `pos != pos_end` exactly at `pos_end`:
any additional fuel changes nothing (so the fuel in `outerLoop` is not what ends the loop) -/
theorem C08_gen_walk_terminates (s e g : Nat) (h : s ≤ e) :
    innerLoop walk_ComputeObjValue_cond walk_ComputeObjValue_inc ((e - s) + g) s e =
    innerLoop walk_ComputeObjValue_cond walk_ComputeObjValue_inc (e - s) s e :=
  innerLoop_more_fuel (e - s) g s e (by omega)

/-- `VPerm` / `VPermInv` after the GENERATED reverse-mapping loop: running `var_perm_[var_perm_[i].second].first = i` for `i`
descending over the sorted array leaves, at caller index `j`, `first` = the model's `vperm m j` and `second` = the model's
`vpermInv m j`; `VPerm` returns `.first`, `VPermInv` returns `.second` -/
theorem C08_gen_vperm (m : MatrixModel) (j : Nat) (hj : j < m.n) :
    ((revLoop (sortedPairs m) m.n).getD j (0, 0)).1 = (vperm m j : Int) ∧
    ((revLoop (sortedPairs m) m.n).getD j (0, 0)).2 = vpermInv m j ∧
    VPerm_field = "first" ∧ VPermInv_field = "second" ∧ revMap_field = "first" ∧
    revMap_header = Expected.permuteLoop_header := by
  have hS := revLoop_spec (order m) (order_nodup m) m.n (sortedPairs m) rfl (by rw [order_length]; exact Nat.le_refl _)
  obtain ⟨h1, h2⟩ := hS
  have hjS : j ∈ order m := (mem_order m j).mpr hj
  have hjl : j < (order m).length := by rw [order_length]; exact hj
  have hidx : (order m).idxOf j < m.n := vperm_lt m hj
  refine ⟨?_, ?_, rfl, rfl, rfl, rfl⟩
  · rw [h2 j hjS hjl, if_pos hidx]; rfl
  · have hlen : j < (revLoop (sortedPairs m) m.n).length := by
      have : ((revLoop (sortedPairs m) m.n).map Prod.snd).length = (order m).length := by rw [h1]
      simp at this; omega
    have : ((revLoop (sortedPairs m) m.n).map Prod.snd)[j]? = (order m)[j]? := by rw [h1]
    rw [List.getElem?_map, List.getElem?_eq_getElem hlen, List.getElem?_eq_getElem hjl] at this
    simp only [Option.map_some, Option.some.injEq] at this
    unfold vpermInv
    rw [getD_eq_getElem' _ _ hlen, getD_eq_getElem' _ _ hjl]
    exact this

/-- the removal rule of the model's `writeNameFile` is the GENERATED destructor condition of `StringFileWriter`: a writer
that was never opened and wrote nothing (feeder without names) removes the file; one that was opened never does -/
theorem C08_gen_namefile_removed :
    sfwRemoves 0 false = true ∧ (∀ cnt, sfwRemoves cnt true = false) ∧ (∀ cnt, cnt ≠ 0 → ∀ b, sfwRemoves cnt b = false) ∧
    (∀ old, writeNameFile old none = none) ∧ (∀ old l, writeNameFile old (some l) = some l) := by
  refine ⟨by decide, ?_, ?_, fun _ => rfl, fun _ _ => rfl⟩
  · intro cnt; simp [sfwRemoves]
  · intro cnt h b; simp [sfwRemoves, h]

/-- THE READER SIDE, generated: `NLProblemBuilder<Problem>::AddVariables` (include/mp/nl-reader.h, incl. its header
consistency checks and `MP_ASSERT_ALWAYS`s) run on the header the model writes never throws, and the `is_var_int_` vector
its `AddVars` calls build (`varTypesOf`: vector resize semantics of `BasicProblem::AddVars`) is the model's `decodeIsInt` at
every position; hence (with `C08_types`) the real reader's rule gives every caller column its own integrality at `vperm j` -/
theorem C08_gen_reader_types (m : MatrixModel) (text : Bool) (flags : Nat) :
    (addVariables m.n 0 (nlvo m) 0 (nbv m) (niv m) 0 0 (nlvoi m)).map varTypesOf =
      some ((List.range m.n).map (decodeIsInt (header m text flags))) ∧
    ∃ tys, (addVariables m.n 0 (nlvo m) 0 (nbv m) (niv m) 0 0 (nlvoi m)).map varTypesOf = some tys ∧
      tys.length = m.n ∧ ∀ j, j < m.n → tys.getD (vperm m j) false = isInt m j := by
  obtain ⟨hb, hs⟩ := header_counts_consistent m
  have h := addVariables_easy m.n (nlvo m) (nlvoi m) (nbv m) (niv m) hb hs
  rw [blocks_eq_decode _ _ _ _ _ hb hs] at h
  have hd : (fun pos => if m.n - (nbv m + niv m) ≤ pos then true else decide (nlvo m - nlvoi m ≤ pos) && decide (pos < nlvo m)) =
      decodeIsInt (header m text flags) := by
    funext pos; rfl
  rw [hd] at h
  refine ⟨h, _, h, by simp, ?_⟩
  intro j hj
  rw [getD_map_range _ _ _ (vperm_lt m hj)]
  exact C08_types m text flags j hj

/-- the last hand-written link of the reader chain: each `AddVars(count, type)` call made by the generated `AddVariables`
acts on `is_var_int_` as `std::vector::resize` (library semantics `vecResize`, hand-written) to the GENERATED new size with the
GENERATED fill value of `BasicProblem<>::AddVars` (include/mp/problem.h); so `varTypesOf` in `C08_gen_reader_types` is the fold of
generated steps, for any two distinct enum codes of `var::CONTINUOUS` / `var::INTEGER` -/
theorem C08_gen_addvars (calls : List (Int × Bool)) (contVal intVal : Int) (h : contVal ≠ intVal) :
    varTypesOf calls =
      calls.foldl (fun l c => vecResize l (addVarsNewSize l.length c.1).toNat
        (addVarsFill (if c.2 then intVal else contVal) contVal)) [] := by
  unfold varTypesOf
  congr 1
  funext l c
  exact applyAddVars_eq_gen l c contVal intVal h

/-- instance: `AddVars(2, CONTINUOUS)`, `AddVars(1, INTEGER)`, then a negative count truncates (release build) -/
example : varTypesOf [(2, false), (1, true), (-2, false)] = [false] := by decide

/-- the model's `readable` (does the reader accept the `sum` node the feeder writes) is the GENERATED arity test of
`NLReader::ReadNumArgs` with the generated default minimum `MIN_ITER_ARGS`; with `C08_readable` the generated test never fails on
what the (padded) writer produces.  That the `sum` case of `ReadNumericExpr` calls `ReadNumArgs()` with the default is sampled. -/
theorem C08_gen_readable (m : MatrixModel) :
    readable m = (decide (m.Q.nnz = 0) || !readNumArgsFails (sumArity m) minIterArgs) ∧
    (m.Q.nnz ≠ 0 → readNumArgsFails (sumArity m) minIterArgs = false) := by
  have h : (!readNumArgsFails (sumArity m) minIterArgs) = decide (3 ≤ sumArity m) := by
    unfold readNumArgsFails minIterArgs
    by_cases h3 : 3 ≤ sumArity m
    · have : ¬ ((sumArity m : Int) < 3) := by omega
      simp [h3, this]
    · have : ((sumArity m : Int) < 3) := by omega
      simp [h3, this]
  constructor
  · unfold readable; rw [h]
  · intro hn
    have hr := C08_readable m
    unfold readable at hr
    simp only [Bool.or_eq_true, decide_eq_true_eq, hn, false_or] at hr
    have : decide (3 ≤ sumArity m) = true := by simpa using hr
    rw [← h] at this
    simpa using this

/-- instance: the header of the library's 6-variable MIQP (nlvo 3, nlvoi 1, nbv 1, niv 1) -/
example : (addVariables 6 0 3 0 1 1 0 0 1).map varTypesOf = some [false, false, true, false, true, true] := by decide
/-- an inconsistent header (more nonlinear variables than variables) makes the generated reader throw -/
example : addVariables 2 0 3 0 0 0 0 0 2 = none := by decide

end Gen

/-! ## Non-vacuity -/

/-- the worked example of the library (6 variables, MIQP): header counts are consistent here -/
def ex6 : MatrixModel :=
  { api := 0, n := 6, types := some [0, 1, 1, 1, 0, 0],
    lb := [.fin 0, .fin (-3), .fin 0, .fin (-1), .fin (-1), .fin (-2)], ub := [.fin 0, .fin 20, .fin 1, .pinf, .fin (-1), .fin 10],
    sense := 0, c0 := 13/4, c := some [0, 1, 0, 0, 0, 0], qfmt := 2,
    Q := { start := [0, 0, 0, 0, 2, 3], index := [3, 5, 4], value := [10, 12, 14] }, m := 2,
    rlb := [.fin 15, .fin 10], rub := [.fin 15, .pinf],
    A := { start := [0, 4], index := [1, 2, 3, 5, 1, 2, 3, 5], value := [1, 1, 1, 1, 1, -1, -1, 1] },
    ws := [], dws := [], sufs := [], colNames := none, rowNames := none, objName := "obj[1]" }


/-! ## 9. Statement audit (round 4): guards of the real code, error branch, instances of the hypotheses

The model is total (`getD` with defaults, truncated subtraction in the row walk) where the C++ reads arrays without a test
and would loop forever on decreasing row starts.  `WF` states the caller contract the real code relies on; the theorems
below show that under `WF` no default is ever used, so the theorems of §§1–6 are not true "for the wrong reason". -/

/-- under the caller contract every array read of the Hessian walk (`FillNonlinearVars`, `FillObjNonzeros`,
`FeedObjExpression`, `ComputeObjValue`) is in range: the `getD` defaults of `qCol` / `qVal` are never used -/
theorem C08_reads_in_range (m : MatrixModel) (h : WF m) (e : Nat × Nat) (he : e ∈ qEntries m) :
    e.1 < m.n ∧ e.2 < m.Q.index.length ∧ e.2 < m.Q.value.length ∧ qCol m e.2 < m.n ∧
    m.Q.index[e.2]? = some (qCol m e.2) := by
  have h1 : e.1 < m.n := qEntries_row_lt m e he
  have h2 : e.2 < m.Q.index.length := by
    unfold qEntries at he
    split at he
    · cases he
    · exact walkDesc_pos_lt _ _ h.q_start_le _ _ (Nat.le_refl _) e he
  refine ⟨h1, h2, by rw [h.q_val_len]; exact h2, qCol_lt m h.q_idx (by omega) _, ?_⟩
  unfold qCol
  rw [getD_eq_getElem' _ _ h2, List.getElem?_eq_getElem h2]

/-- bounds without defaults: whatever the caller stored for column `j` is what is written at position `vperm j` -/
theorem C08_bounds_follow_exact (m : MatrixModel) (j : Nat) (hj : j < m.n) (l u : Bnd)
    (hl : m.lb[j]? = some l) (hu : m.ub[j]? = some u) :
    (feedVarBounds m)[vperm m j]? = some (l, u) := by
  have h := C08_bounds_follow m j hj
  have hlen : vperm m j < (feedVarBounds m).length := by simp [feedVarBounds]; exact vperm_lt m hj
  rw [List.getD_eq_getElem?_getD, List.getElem?_eq_getElem hlen] at h
  rw [List.getElem?_eq_getElem hlen]
  simp only [Option.getD_some] at h
  rw [h, List.getD_eq_getElem?_getD, List.getD_eq_getElem?_getD, hl, hu]
  rfl

/-- ERROR BRANCH of the solution side: a suffix with an out-of-range index is never delivered, nor anything after it;
everything delivered has only in-range indices and is the un-permuted dense vector of its own entries -/
theorem C08_solution_suffixes_in_range (pd : Pd) (n mrows : Nat) (l : List (String × Nat × List (Nat × Rat)))
    (s : String × Nat × List Rat) (hs : s ∈ readSolSuffixes pd n mrows l) :
    ∃ t ∈ l, t.1 = s.1 ∧ t.2.1 = s.2.1 ∧ solSuffixOk n mrows t.2.1 t.2.2 = true ∧
      s.2.2 = onSuffixPd pd n mrows t.2.1 t.2.2 := by
  unfold readSolSuffixes at hs
  rw [List.mem_map] at hs
  obtain ⟨t, ht, rfl⟩ := hs
  exact ⟨t, (List.takeWhile_sublist _).subset ht, rfl, rfl,
    mem_takeWhile_true (p := fun s : String × Nat × List (Nat × Rat) => solSuffixOk n mrows s.2.1 s.2.2) ht, rfl⟩

/-- and if the first suffix of the file is bad nothing is delivered -/
theorem C08_bad_first_suffix (pd : Pd) (n mrows : Nat) (t : String × Nat × List (Nat × Rat))
    (rest : List (String × Nat × List (Nat × Rat))) (hbad : solSuffixOk n mrows t.2.1 t.2.2 = false) :
    readSolSuffixes pd n mrows (t :: rest) = [] ∧ solReadError n mrows (t :: rest) = true := by
  constructor
  · simp [readSolSuffixes, hbad]
  · simp [solReadError, hbad]

/-! ### Instances: the hypotheses used above are met by non-trivial models -/

/-- the library's 6-variable MIQP meets the whole caller contract -/
example : WF ex6 := by
  constructor <;> first | decide | (intro t ht; cases ht; decide) | (intro c hc; cases hc; decide)

example : (∀ c ∈ ex6.A.index, c < ex6.n) ∧ 0 < ex6.n ∧ ex6.Q.nnz = 3 ∧ ex6.A.nnz = 8 := by decide
example : cxTypes.n = 2 ∧ (∀ c ∈ cxTypes.Q.index, c < cxTypes.n) ∧ (∀ s ∈ cxTypes.Q.start, s ≤ cxTypes.Q.nnz) ∧ ¬ cxTypes.Q.index.Nodup := by decide
/-- `C08_suffix_follow`, direction ⇐: a nonzero value of a (double, variable) suffix is written at `vperm j` -/
example : (vperm ex6 1, (5 : Rat)) ∈ (feedSuffix ex6 ⟨"priority", 4, [0, 5, 0, 0, 0, 0]⟩).entries :=
  (C08_suffix_follow ex6 ⟨"priority", 4, [0, 5, 0, 0, 0, 0]⟩ (by decide) _).mpr ⟨1, 5, by decide, by decide, by simp⟩
/-- direction ⇒: every written entry comes from a nonzero value -/
example (e : Nat × Rat) (h : e ∈ (feedSuffix ex6 ⟨"priority", 4, [0, 5, 0, 0, 0, 0]⟩).entries) :
    ∃ j v, ([0, 5, 0, 0, 0, 0] : List Rat)[j]? = some v ∧ v ≠ 0 ∧ e.1 = vperm ex6 j := by
  obtain ⟨j, v, h1, h2, h3⟩ := (C08_suffix_follow ex6 ⟨"priority", 4, [0, 5, 0, 0, 0, 0]⟩ (by decide) e).mp h
  exact ⟨j, v, h1, h2, by rw [h3]⟩
/-- a history of three models of different sizes: the state is that of the last one -/
example : runHistory ⟨[7, 7, 7, 7, 7, 7, 7], []⟩ [ex6, cxTypes, ex6, cxTypes] = pdOf cxTypes :=
  C08_history_last _ [ex6, cxTypes, ex6] cxTypes
/-- error branch instance: second suffix of the file has index 6 for 6 columns -/
example : solSuffixOk 6 2 0 [(6, 1)] = false ∧ solSuffixOk 6 2 0 [(5, 1)] = true := by decide



example : ex6.Q.index.Nodup ∧ (∀ c ∈ ex6.Q.index, c < ex6.n) ∧ (∀ s ∈ ex6.Q.start, s ≤ ex6.Q.nnz) := by decide
example : (header ex6 true 1).nlvo = 3 ∧ (header ex6 true 1).nlvoi = 1 ∧ (header ex6 true 1).nbv = 1 ∧ (header ex6 true 1).niv = 1 := by decide
example : readable ex6 = true := C08_readable ex6
example : qEntries ex6 = [(4, 2), (3, 0), (3, 1)] ∧ entriesAsc ex6.Q.start ex6.n ex6.Q.nnz = [(3, 0), (3, 1), (4, 2)] := by decide

end MpVerif.C08

import MpVerif.C08.Model
/-! Helper lemmas for C08 (core Lean only). -/
namespace MpVerif.C08

theorem getD_eq_getElem' {α} (l : List α) (d : α) {i : Nat} (h : i < l.length) : l.getD i d = l[i] := by
  simp [List.getD_eq_getElem?_getD, h]

theorem pairLE_trans (a b c : Int × Nat) : pairLE a b = true → pairLE b c = true → pairLE a c = true := by
  simp only [pairLE, Bool.or_eq_true, Bool.and_eq_true, decide_eq_true_eq]
  omega

theorem pairLE_total (a b : Int × Nat) : (pairLE a b || pairLE b a) = true := by
  simp only [pairLE, Bool.or_eq_true, Bool.and_eq_true, decide_eq_true_eq]
  omega

theorem sortedPairs_perm (m : MatrixModel) : (sortedPairs m).Perm (pairs m) :=
  List.mergeSort_perm _ _

theorem sortedPairs_pairwise (m : MatrixModel) :
    (sortedPairs m).Pairwise (fun a b => pairLE a b = true) :=
  List.pairwise_mergeSort pairLE_trans pairLE_total _

theorem map_snd_pairs (m : MatrixModel) : (pairs m).map Prod.snd = List.range m.n := by
  simp [pairs, List.map_map, Function.comp_def]

theorem order_perm (m : MatrixModel) : (order m).Perm (List.range m.n) := by
  have h := (sortedPairs_perm m).map Prod.snd
  rw [map_snd_pairs] at h
  exact h

theorem order_nodup (m : MatrixModel) : (order m).Nodup :=
  (order_perm m).nodup_iff.mpr List.nodup_range

theorem order_length (m : MatrixModel) : (order m).length = m.n := by
  rw [(order_perm m).length_eq, List.length_range]

theorem mem_order (m : MatrixModel) (j : Nat) : j ∈ order m ↔ j < m.n := by
  rw [(order_perm m).mem_iff, List.mem_range]

theorem vperm_lt (m : MatrixModel) {j : Nat} (h : j < m.n) : vperm m j < m.n := by
  have : List.idxOf j (order m) < (order m).length := List.idxOf_lt_length_iff.mpr ((mem_order m j).mpr h)
  rw [order_length] at this
  exact this

theorem vpermInv_vperm (m : MatrixModel) {j : Nat} (h : j < m.n) : vpermInv m (vperm m j) = j := by
  have hl : List.idxOf j (order m) < (order m).length := List.idxOf_lt_length_iff.mpr ((mem_order m j).mpr h)
  unfold vpermInv vperm
  rw [getD_eq_getElem' _ _ hl]
  exact List.getElem_idxOf hl

theorem vpermInv_lt (m : MatrixModel) {i : Nat} (h : i < m.n) : vpermInv m i < m.n := by
  have hl : i < (order m).length := by rw [order_length]; exact h
  unfold vpermInv
  rw [getD_eq_getElem' _ _ hl]
  exact (mem_order m _).mp (List.getElem_mem hl)

theorem vperm_vpermInv (m : MatrixModel) {i : Nat} (h : i < m.n) : vperm m (vpermInv m i) = i := by
  have hl : i < (order m).length := by rw [order_length]; exact h
  unfold vpermInv vperm
  rw [getD_eq_getElem' _ _ hl]
  exact (order_nodup m).idxOf_getElem i hl

theorem pairLE_fst {a b : Int × Nat} (h : pairLE a b = true) : a.1 ≤ b.1 := by
  simp only [pairLE, Bool.or_eq_true, Bool.and_eq_true, decide_eq_true_eq] at h
  omega

theorem countP_split_sorted (l₁ l₂ : List (Int × Nat)) (a : Int × Nat)
    (hs : (l₁ ++ a :: l₂).Pairwise (fun x y => pairLE x y = true)) :
    (l₁ ++ a :: l₂).countP (fun e => decide (e.1 < a.1)) ≤ l₁.length ∧
    l₁.length < (l₁ ++ a :: l₂).countP (fun e => decide (e.1 ≤ a.1)) := by
  rw [List.pairwise_append] at hs
  obtain ⟨_, h2, h3⟩ := hs
  rw [List.pairwise_cons] at h2
  constructor
  · rw [List.countP_append, List.countP_cons]
    have hz : l₂.countP (fun e => decide (e.1 < a.1)) = 0 := by
      rw [List.countP_eq_zero]
      intro y hy
      have := pairLE_fst (h2.1 y hy)
      simp only [decide_eq_true_eq]; omega
    have hl := List.countP_le_length (p := fun e : Int × Nat => decide (e.1 < a.1)) (l := l₁)
    simp only [hz, Int.lt_irrefl, decide_false, Bool.false_eq_true, if_false]
    omega
  · rw [List.countP_append, List.countP_cons]
    have hl : l₁.countP (fun e => decide (e.1 ≤ a.1)) = l₁.length := by
      rw [List.countP_eq_length]
      intro x hx
      have := pairLE_fst (h3 x hx a (List.mem_cons_self))
      simp only [decide_eq_true_eq]; omega
    simp only [hl, Int.le_refl, decide_true, if_true]
    omega

theorem sortedPairs_length (m : MatrixModel) : (sortedPairs m).length = m.n := by
  simp [sortedPairs, pairs]

theorem sortedPairs_getElem (m : MatrixModel) {p : Nat} (hp : p < (sortedPairs m).length) :
    (sortedPairs m)[p] = (key m (vpermInv m p), vpermInv m p) := by
  have hmem : (sortedPairs m)[p] ∈ pairs m := (sortedPairs_perm m).mem_iff.mp (List.getElem_mem hp)
  simp only [pairs, List.mem_map, List.mem_range] at hmem
  obtain ⟨j, _, hj⟩ := hmem
  have hl : p < (order m).length := by simpa [order] using hp
  have hv : vpermInv m p = ((sortedPairs m)[p]).2 := by
    unfold vpermInv
    rw [getD_eq_getElem' _ _ hl]
    simp [order]
  rw [hv, ← hj]

/-- position of caller variable `j` in NL order lies in the interval of its key class -/
theorem pos_bounds (m : MatrixModel) {j : Nat} (hj : j < m.n) :
    (List.range m.n).countP (fun i => decide (key m i < key m j)) ≤ vperm m j ∧
    vperm m j < (List.range m.n).countP (fun i => decide (key m i ≤ key m j)) := by
  have hp : vperm m j < (sortedPairs m).length := by rw [sortedPairs_length]; exact vperm_lt m hj
  have hel := sortedPairs_getElem m hp
  rw [vpermInv_vperm m hj] at hel
  have hsplit : sortedPairs m = (sortedPairs m).take (vperm m j) ++ (key m j, j) :: (sortedPairs m).drop (vperm m j + 1) := by
    rw [← hel, ← List.drop_eq_getElem_cons hp, List.take_append_drop]
  have hs := sortedPairs_pairwise m
  rw [hsplit] at hs
  have h := countP_split_sorted _ _ _ hs
  rw [← hsplit] at h
  have hlen : ((sortedPairs m).take (vperm m j)).length = vperm m j := by
    rw [List.length_take]; omega
  rw [hlen] at h
  have hc : ∀ q : Int × Nat → Bool, (sortedPairs m).countP q = (List.range m.n).countP (fun i => q (key m i, i)) := by
    intro q
    rw [(sortedPairs_perm m).countP_eq, pairs, List.countP_map]
    rfl
  rw [hc, hc] at h
  exact h

/-! ### key classes and header counts -/

theorem key_eq (m : MatrixModel) (j : Nat) :
    key m j = if nlv m j then (if isInt m j then -1 else -2)
              else (if isInt m j then (if isBin01 m j then 1 else 2) else 0) := by
  unfold key
  generalize nlv m j = a
  generalize isInt m j = b
  generalize isBin01 m j = c
  cases a <;> cases b <;> cases c <;> decide

theorem countP_or_disjoint {α} (p q : α → Bool) (l : List α) (h : ∀ x ∈ l, p x = true → q x = true → False) :
    l.countP (fun x => p x || q x) = l.countP p + l.countP q := by
  induction l with
  | nil => simp
  | cons a t ih =>
    have ih' := ih (fun x hx => h x (List.mem_cons_of_mem _ hx))
    have ha := h a List.mem_cons_self
    simp only [List.countP_cons, ih']
    cases hp : p a <;> cases hq : q a <;> simp_all <;> omega

theorem count_lt_one (m : MatrixModel) :
    (List.range m.n).countP (fun i => decide (key m i < 1)) + (nbv m + niv m) = m.n := by
  have h := List.length_eq_countP_add_countP (fun i => decide (key m i < 1)) (l := List.range m.n)
  rw [List.length_range] at h
  have h2 : (List.range m.n).countP (fun a => decide ¬(decide (key m a < 1)) = true) = nbv m + niv m := by
    unfold nbv niv
    rw [← countP_or_disjoint]
    · apply List.countP_congr
      intro x _
      rw [key_eq]
      generalize nlv m x = a
      generalize isInt m x = b
      generalize isBin01 m x = c
      cases a <;> cases b <;> cases c <;> decide
    · intro x _
      generalize nlv m x = a
      generalize isInt m x = b
      generalize isBin01 m x = c
      cases a <;> cases b <;> cases c <;> decide
  omega

theorem count_lt_zero_split (m : MatrixModel) :
    (List.range m.n).countP (fun i => decide (key m i < 0)) =
    (List.range m.n).countP (fun i => decide (key m i < -1)) + nlvoi m := by
  unfold nlvoi
  rw [← countP_or_disjoint]
  · apply List.countP_congr
    intro x _
    rw [key_eq]
    generalize nlv m x = a
    generalize isInt m x = b
    generalize isBin01 m x = c
    cases a <;> cases b <;> cases c <;> decide
  · intro x _
    rw [key_eq]
    generalize nlv m x = a
    generalize isInt m x = b
    generalize isBin01 m x = c
    cases a <;> cases b <;> cases c <;> decide

theorem count_lt_zero_nlv (m : MatrixModel) :
    (List.range m.n).countP (fun i => decide (key m i < 0)) = (List.range m.n).countP (nlv m) := by
  apply List.countP_congr
  intro x _
  rw [key_eq]
  generalize nlv m x = a
  generalize isInt m x = b
  generalize isBin01 m x = c
  cases a <;> cases b <;> cases c <;> decide

theorem isInt_iff_key (m : MatrixModel) (j : Nat) :
    isInt m j = decide (key m j = -1 ∨ 1 ≤ key m j) := by
  rw [key_eq]
  generalize nlv m j = a
  generalize isInt m j = b
  generalize isBin01 m j = c
  cases a <;> cases b <;> cases c <;> decide

theorem decodeIsInt_iff (h : Header) (pos : Nat) :
    decodeIsInt h pos = true ↔ (h.nvars - (h.nbv + h.niv) ≤ pos ∨ (h.nlvo - h.nlvoi ≤ pos ∧ pos < h.nlvo)) := by
  unfold decodeIsInt
  split
  · simp [*]
  · simp [*]

theorem key_range (m : MatrixModel) (j : Nat) :
    key m j = -2 ∨ key m j = -1 ∨ key m j = 0 ∨ key m j = 1 ∨ key m j = 2 := by
  rw [key_eq]
  generalize nlv m j = a
  generalize isInt m j = b
  generalize isBin01 m j = c
  cases a <;> cases b <;> cases c <;> decide

/-- the reader's type-by-position decoding gives every caller column its own integrality -/
theorem types_ok (m : MatrixModel) (text : Bool) (flags : Nat) {j : Nat} (hj : j < m.n) :
    decodeIsInt (header m text flags) (vperm m j) = isInt m j := by
  obtain ⟨hA, hB⟩ := pos_bounds m hj
  have hB' : vperm m j < (List.range m.n).countP (fun i => decide (key m i < key m j + 1)) := by
    have : (List.range m.n).countP (fun i => decide (key m i ≤ key m j)) =
        (List.range m.n).countP (fun i => decide (key m i < key m j + 1)) := by
      apply List.countP_congr
      intro x _
      simp only [decide_eq_true_eq]
      omega
    omega
  have h1 := count_lt_one m
  have h0 := count_lt_zero_split m
  have hz := count_lt_zero_nlv m
  have mono1 : (List.range m.n).countP (fun i => decide (key m i < -1)) ≤ (List.range m.n).countP (fun i => decide (key m i < 0)) :=
    List.countP_mono_left (by intro x _ h; simp only [decide_eq_true_eq] at *; omega)
  have mono2 : (List.range m.n).countP (fun i => decide (key m i < 0)) ≤ (List.range m.n).countP (fun i => decide (key m i < 1)) :=
    List.countP_mono_left (by intro x _ h; simp only [decide_eq_true_eq] at *; omega)
  have mono3 : (List.range m.n).countP (fun i => decide (key m i < 1)) ≤ (List.range m.n).countP (fun i => decide (key m i < 2)) :=
    List.countP_mono_left (by intro x _ h; simp only [decide_eq_true_eq] at *; omega)
  rw [Bool.eq_iff_iff, decodeIsInt_iff, isInt_iff_key, decide_eq_true_eq]
  simp only [header, nlvo]
  rcases key_range m j with hk | hk | hk | hk | hk <;> rw [hk] at hA hB' ⊢ <;>
    simp only [Int.reduceAdd, Int.reduceNeg] at hB' <;> omega

end MpVerif.C08

import MpVerif.C08.LemmasObj
/-! Lemmas about the remaining feeds (bounds, names, rows, warm starts, suffixes) and SOLHandler_Easy. -/
namespace MpVerif.C08

theorem getD_map_range {α} (n : Nat) (f : Nat → α) (d : α) {p : Nat} (h : p < n) :
    ((List.range n).map f).getD p d = f p := by
  rw [getD_eq_getElem' _ _ (by simpa using h)]
  simp

theorem find?_congr' {α} {p q : α → Bool} {l : List α} (h : ∀ x ∈ l, p x = q x) : l.find? p = l.find? q := by
  induction l with
  | nil => rfl
  | cons a t ih =>
    simp only [List.find?_cons, h a List.mem_cons_self]
    rw [ih (fun x hx => h x (List.mem_cons_of_mem _ hx))]

theorem vperm_inj (m : MatrixModel) {a b : Nat} (ha : a < m.n) (hb : b < m.n) (h : vperm m a = vperm m b) : a = b := by
  have := congrArg (vpermInv m) h
  rwa [vpermInv_vperm m ha, vpermInv_vperm m hb] at this

theorem vpermInv_inj (m : MatrixModel) {a b : Nat} (ha : a < m.n) (hb : b < m.n) (h : vpermInv m a = vpermInv m b) : a = b := by
  have := congrArg (vperm m) h
  rwa [vperm_vpermInv m ha, vperm_vpermInv m hb] at this

theorem dense_getD (size : Nat) (l : List (Nat × Rat)) {i : Nat} (h : i < size) :
    (dense size l).getD i 0 = ((l.reverse.find? (fun e => e.1 == i)).map Prod.snd).getD 0 := by
  unfold dense
  rw [getD_map_range _ _ _ h]
  cases l.reverse.find? (fun e => e.1 == i) <;> rfl

/-- sparse entries re-indexed by an injective map read back densely at the mapped position -/
theorem dense_reindex (m : MatrixModel) (l : List (Nat × Rat)) (hl : ∀ e ∈ l, e.1 < m.n) {j : Nat} (hj : j < m.n) :
    (dense m.n (l.map (fun e => (vperm m e.1, e.2)))).getD (vperm m j) 0 = (dense m.n l).getD j 0 := by
  rw [dense_getD _ _ (vperm_lt m hj), dense_getD _ _ hj, ← List.map_reverse, List.find?_map]
  have : l.reverse.find? ((fun e : Nat × Rat => e.1 == vperm m j) ∘ fun e => (vperm m e.1, e.2)) =
      l.reverse.find? (fun e => e.1 == j) := by
    apply find?_congr'
    intro x hx
    have hx' : x.1 < m.n := hl x (List.mem_reverse.mp hx)
    show (vperm m x.1 == vperm m j) = (x.1 == j)
    by_cases h : x.1 = j
    · rw [h] <;> simp
    · have : vperm m x.1 ≠ vperm m j := fun hh => h (vperm_inj m hx' hj hh)
      rw [beq_eq_false_iff_ne.mpr this, beq_eq_false_iff_ne.mpr h]
  rw [this]
  cases l.reverse.find? (fun e => e.1 == j) <;> rfl

theorem dense_reindex_inv (m : MatrixModel) (l : List (Nat × Rat)) (hl : ∀ e ∈ l, e.1 < m.n) {p : Nat} (hp : p < m.n) :
    (dense m.n (l.map (fun e => (vpermInv m e.1, e.2)))).getD (vpermInv m p) 0 = (dense m.n l).getD p 0 := by
  rw [dense_getD _ _ (vpermInv_lt m hp), dense_getD _ _ hp, ← List.map_reverse, List.find?_map]
  have : l.reverse.find? ((fun e : Nat × Rat => e.1 == vpermInv m p) ∘ fun e => (vpermInv m e.1, e.2)) =
      l.reverse.find? (fun e => e.1 == p) := by
    apply find?_congr'
    intro x hx
    have hx' : x.1 < m.n := hl x (List.mem_reverse.mp hx)
    show (vpermInv m x.1 == vpermInv m p) = (x.1 == p)
    by_cases h : x.1 = p
    · rw [h] <;> simp
    · have : vpermInv m x.1 ≠ vpermInv m p := fun hh => h (vpermInv_inj m hx' hp hh)
      rw [beq_eq_false_iff_ne.mpr this, beq_eq_false_iff_ne.mpr h]
  rw [this]
  cases l.reverse.find? (fun e => e.1 == p) <;> rfl

end MpVerif.C08

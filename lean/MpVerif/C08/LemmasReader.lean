import MpVerif.C08.LemmasWalk
/-! Round 7: the READER's type-by-position rule, generated from `NLProblemBuilder<Problem>::AddVariables`
(include/mp/nl-reader.h), executed on the vector semantics of `BasicProblem::AddVars`, equals the model's `decodeIsInt`. -/
namespace MpVerif.C08
open MpVerif.Gen.C08Easy

/-- `BasicProblem::AddVars(n, type)` in a release build: `is_var_int_.resize(size + n, type != CONTINUOUS)` -/
def applyAddVars (l : List Bool) (c : Int × Bool) : List Bool :=
  let newSize := ((l.length : Int) + c.1).toNat
  l.take newSize ++ List.replicate (newSize - l.length) c.2

/-- `is_var_int_` after the calls, starting from an empty problem -/
def varTypesOf (calls : List (Int × Bool)) : List Bool := calls.foldl applyAddVars []

theorem applyAddVars_nonneg (l : List Bool) (k : Nat) (t : Bool) :
    applyAddVars l ((k : Int), t) = l ++ List.replicate k t := by
  unfold applyAddVars
  have h : ((l.length : Int) + (k : Int)).toNat = l.length + k := by omega
  simp only [h]
  rw [List.take_of_length_le (by omega)]
  congr 2
  omega

theorem applyAddVars_of_eq (l : List Bool) (x : Int) (k : Nat) (t : Bool) (h : x = (k : Int)) :
    applyAddVars l (x, t) = l ++ List.replicate k t := by
  subst h; exact applyAddVars_nonneg l k t

theorem foldl_applyAddVars_nonneg (calls : List (Int × Bool)) (h : ∀ c ∈ calls, 0 ≤ c.1) (l : List Bool) :
    calls.foldl applyAddVars l = l ++ calls.flatMap (fun c => List.replicate c.1.toNat c.2) := by
  induction calls generalizing l with
  | nil => simp
  | cons c t ih =>
    have hc : 0 ≤ c.1 := h c List.mem_cons_self
    have e : applyAddVars l c = l ++ List.replicate c.1.toNat c.2 := by
      have := applyAddVars_nonneg l c.1.toNat c.2
      rw [Int.toNat_of_nonneg hc] at this
      exact this
    rw [List.foldl_cons, e, ih (fun x hx => h x (List.mem_cons_of_mem _ hx)), List.flatMap_cons, List.append_assoc]

/-- the generated `AddVariables` on a header of the shape the easy feeder writes (`nlvc = nlvb = 0`, no nonlinear
integers in constraints): no exception, and the calls build exactly the four blocks -/
theorem addVariables_easy (n a b c d : Nat) (hb : b ≤ a) (hs : a + c + d ≤ n) :
    (addVariables n 0 a 0 c d 0 0 b).map varTypesOf =
      some (List.replicate (a - b) false ++ List.replicate b true ++
        List.replicate (n - (a + c + d)) false ++ List.replicate (c + d) true) := by
  have e1 : ((a : Int) - 0 - b).toNat = a - b := by omega
  have e2 : ((b : Int)).toNat = b := by omega
  have e3 : ((n : Int) - (a + d + c)).toNat = n - (a + c + d) := by omega
  have e4 : ((d : Int) + c).toNat = c + d := by omega
  have e5 : ((0 : Int) - b).toNat = 0 := by omega
  unfold addVariables
  repeat' split
  all_goals first
    | (exfalso; simp at * <;> omega)
    | (simp only [Option.map_some, varTypesOf, Option.some.injEq]
       rw [foldl_applyAddVars_nonneg _ (by
         simp only [List.mem_cons, List.mem_nil_iff, or_false, forall_eq_or_imp, forall_eq]
         simp at *
         omega)]
       simp at *
       first
         | (have hb0 : b = 0 := by omega
            have ha0 : a = 0 := by omega
            subst hb0; subst ha0
            simp [e3, e4] <;> omega)
         | (simp [e1, e2, e3, e4, e5] <;> omega))

theorem blocks_eq_decode (n a b c d : Nat) (hb : b ≤ a) (hs : a + c + d ≤ n) :
    List.replicate (a - b) false ++ List.replicate b true ++ List.replicate (n - (a + c + d)) false ++
        List.replicate (c + d) true =
      (List.range n).map (fun pos => if n - (c + d) ≤ pos then true else decide (a - b ≤ pos) && decide (pos < a)) := by
  apply List.ext_getElem
  · simp; omega
  · intro i h1 h2
    simp only [List.getElem_map, List.getElem_range, List.getElem_append, List.getElem_replicate, List.length_append,
      List.length_replicate]
    have hi : i < n := by simpa using h2
    repeat' split
    all_goals (simp at * <;> omega)

/-- header class counts of the model are consistent: what `AddVariables` checks -/
theorem header_counts_consistent (m : MatrixModel) : nlvoi m ≤ nlvo m ∧ nlvo m + nbv m + niv m ≤ m.n := by
  have h1 := count_lt_one m
  have h0 := count_lt_zero_split m
  have hz := count_lt_zero_nlv m
  have mono2 : (List.range m.n).countP (fun i => decide (key m i < 0)) ≤ (List.range m.n).countP (fun i => decide (key m i < 1)) :=
    List.countP_mono_left (by intro x _ h; simp only [decide_eq_true_eq] at *; omega)
  unfold nlvo
  omega

/-- `std::vector<bool>::resize(n, fill)` (library semantics, hand-written) -/
def vecResize (l : List Bool) (n : Nat) (fill : Bool) : List Bool := l.take n ++ List.replicate (n - l.length) fill

/-- the hand model `applyAddVars` is `vector::resize` to the GENERATED new size with the GENERATED fill value of
`BasicProblem::AddVars`, for any two distinct enum codes of `var::CONTINUOUS` / `var::INTEGER` -/
theorem applyAddVars_eq_gen (l : List Bool) (c : Int × Bool) (contVal intVal : Int) (h : contVal ≠ intVal) :
    applyAddVars l c =
      vecResize l (addVarsNewSize l.length c.1).toNat (addVarsFill (if c.2 then intVal else contVal) contVal) := by
  unfold applyAddVars vecResize addVarsNewSize addVarsFill
  have hf : decide ((if c.2 then intVal else contVal) ≠ contVal) = c.2 := by
    cases c.2
    · simp
    · simp; exact fun hh => h hh.symm
  simp only [hf]

end MpVerif.C08

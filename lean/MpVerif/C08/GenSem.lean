import MpVerif.C08.Model
/-! Semantics of the C++ fragments that `translators/gen_easy_c08.py` translates (hand-written once, trusted):
`double` values that are only compared / passed through are the model's `Bnd` (−∞, finite rational, +∞: no NaN, no
signed zero distinction), `double` arithmetic of `ComputeObjValue` is exact rational arithmetic, `int` arithmetic is
unbounded (`Int`; the translated expressions add at most 2 to a value in −2…0 and increment counters ≤ number of columns),
`bool → int` is `b2i`, `a & b` on non-negative ints is `cbitand`. -/
namespace MpVerif.C08

def b2i (b : Bool) : Int := if b then 1 else 0

/-- a `double` literal -/
def dlit (q : Rat) : Bnd := .fin q

/-- `std::fabs` -/
def dfabs : Bnd → Bnd
  | .ninf => .pinf
  | .pinf => .pinf
  | .fin q => .fin (if q < 0 then -q else q)

/-- `!=` / `==` on doubles -/
def dne (a b : Bnd) : Bool := a != b
def deq (a b : Bnd) : Bool := a == b

/-- `a & b` for non-negative `int`s -/
def cbitand (a b : Int) : Int := Int.ofNat (a.toNat &&& b.toNat)

end MpVerif.C08

import MpVerif.C08.Model
/-! Line driver for C08: one case per line (grammar: checks/c08.py), prints the model's prediction of
every observation line of harness/h_easy.cc.  No logic of its own: only parsing, calls into
`MpVerif.C08` model functions, and printing. -/
open MpVerif.C08

abbrev P := StateT (List String) (Except String)

def tok : P String := do
  match (← get) with
  | [] => throw "short"
  | t :: ts => set ts; pure t

def pNat : P Nat := do
  let t ← tok
  match t.toNat? with
  | some n => pure n
  | none => throw s!"nat {t}"

def pInt : P Int := do
  let t ← tok
  match t.toInt? with
  | some n => pure n
  | none => throw s!"int {t}"

/-- integer `k` meaning `k/8` -/
def pRat : P Rat := do
  let k ← pInt
  pure ((k : Rat) / 8)

def pBnd : P Bnd := do
  match (← get) with
  | "I" :: ts => set ts; pure .pinf
  | "-I" :: ts => set ts; pure .ninf
  | _ => pure (.fin (← pRat))

def pName : P String := do
  let t ← tok
  pure (if t == "~" then "" else t)

def rep {α} (n : Nat) (p : P α) : P (List α) := do
  let mut acc : Array α := #[]
  for _ in [0:n] do
    acc := acc.push (← p)
  pure acc.toList

structure SolSuf where
  name : String
  kind : Nat
  entries : List (Nat × Rat)

structure Case where
  id : String
  session : Nat
  text : Bool
  flags : Nat
  m : MatrixModel
  solx : List Rat
  soly : List Rat
  code : Int
  ssuf : List SolSuf

def pCase : P Case := do
  let c ← tok
  if c != "C" then throw "not a case"
  let id ← tok
  let session ← pNat
  let _mode ← pNat      -- LoadModel+ReadSolution / Solve with a fake solver / the same with an automatic stub: same observations
  let api ← pNat
  let text ← pNat
  let _comments ← pNat
  let flags ← pNat
  let n ← pNat
  let hasT ← pNat
  let types ← if hasT != 0 then (do pure (some (← rep n pNat))) else pure none
  let lb ← rep n pBnd
  let ub ← rep n pBnd
  let sense ← pNat
  let c0 ← pRat
  let hasC ← pNat
  let cc ← if hasC != 0 then (do pure (some (← rep n pRat))) else pure none
  let qfmt ← pNat
  let qnz ← pNat
  let qstart ← rep n pNat
  let qidx ← rep qnz pNat
  let qval ← rep qnz pRat
  let mm ← pNat
  let rlb ← rep mm pBnd
  let rub ← rep mm pBnd
  let anz ← pNat
  let astart ← rep mm pNat
  let aidx ← rep anz pNat
  let aval ← rep anz pRat
  let nw ← pNat
  let ws ← rep nw (do let i ← pNat; let v ← pRat; pure (i, v))
  let nd ← pNat
  let dws ← rep nd (do let i ← pNat; let v ← pRat; pure (i, v))
  let ns ← pNat
  let sufs ← rep ns (do
    let name ← tok; let kind ← pNat; let len ← pNat; let vals ← rep len pRat
    pure ({ name := name, kind := kind, values := vals } : Suffix))
  let hasCN ← pNat
  let cn ← if hasCN != 0 then (do pure (some (← rep n pName))) else pure none
  let hasRN ← pNat
  let rn ← if hasRN != 0 then (do pure (some (← rep mm pName))) else pure none
  let objName ← pName
  let _solbin ← pNat
  let nx ← pNat
  let solx ← rep nx pRat
  let ny ← pNat
  let soly ← rep ny pRat
  let code ← pInt
  let nss ← pNat
  let ssuf ← rep nss (do
    let name ← tok; let kind ← pNat; let ne ← pNat
    let ents ← rep ne (do let i ← pNat; let v ← pRat; pure (i, v))
    pure ({ name := name, kind := kind, entries := ents } : SolSuf))
  if !(← get).isEmpty then throw "trailing tokens"
  let model : MatrixModel :=
    { api := api, n := n, types := types, lb := lb, ub := ub, sense := sense, c0 := c0, c := cc, qfmt := qfmt,
      Q := { start := qstart, index := qidx, value := qval }, m := mm, rlb := rlb, rub := rub,
      A := { start := astart, index := aidx, value := aval }, ws := ws, dws := dws, sufs := sufs,
      colNames := cn, rowNames := rn, objName := objName }
  pure { id := id, session := session, text := text != 0, flags := flags, m := model, solx := solx, soly := soly, code := code, ssuf := ssuf }

/-- numbers are printed scaled by 1024 -/
def showRat (q : Rat) : String :=
  let s := q * 1024
  if s.den == 1 then toString s.num else s!"R{s.num}/{s.den}"

def showBnd : Bnd → String
  | .ninf => "-I"
  | .pinf => "I"
  | .fin q => showRat q

partial def showExpr : Expr → String
  | .num q => "n" ++ showRat q
  | .var i => "v" ++ toString i
  | .mul a b => "(* " ++ showExpr a ++ " " ++ showExpr b ++ ")"
  | .sum args => "(+" ++ String.join (args.map (fun a => " " ++ showExpr a)) ++ ")"

def showEntries (l : List (Nat × Rat)) : String :=
  String.join (l.map (fun e => s!" {e.1}:{showRat e.2}"))

def showDenseNZ (l : List Rat) : String :=
  String.join ((l.zipIdx.filter (fun e => e.1 != 0)).map (fun e => s!" {e.2}:{showRat e.1}"))

def showName (s : String) : String := if s.isEmpty then "~" else s

def sufSize (m : MatrixModel) (kind : Nat) : Nat :=
  match kind % 4 with | 0 => m.n | 1 => m.m | _ => 1

/-- `pdOld`: the `PreprocessData` state of the case's session before this model is loaded -/
def runCase (c : Case) (pdOld : Pd) (errOld : Bool) (fsOld : NameFiles) : List String × Pd × Bool × NameFiles := Id.run do
  let m := c.m
  let id := c.id
  let pd := exportPrepro pdOld m
  let mut out : Array String := #[]
  out := out.push (s!"{id} perm" ++ String.join (pd.vperm.map (fun v => s!" {v}")))
  out := out.push (s!"{id} inv" ++ String.join (pd.vpermInv.map (fun v => s!" {v}")))
  out := out.push s!"{id} getters 1"
  out := out.push s!"{id} load 1 1"
  let h := header m c.text c.flags
  out := out.push (s!"{id} hdr fmt {if h.text then "t" else "b"} flags {h.flags} nvars {h.nvars} ncons {h.ncons} nobjs {h.nobjs}" ++
    s!" nranges {h.nranges} neqns 0 nlc 0 nlo {h.nlobjs} nlvc 0 nlvo {h.nlvo} nlvb 0 nbv {h.nbv} niv {h.niv}" ++
    s!" nlvbi 0 nlvci 0 nlvoi {h.nlvoi} nzc {h.nzc} nzo {h.nzo} maxcn {h.maxcn} maxvn {h.maxvn}")
  if !readable m then
    out := out.push s!"{id} readback read-error:too-few-arguments"
  else
    out := out.push s!"{id} readback ok nvars {m.n} ncons {m.m} nobjs 1"
    let x0 := dense m.n (feedInitialGuesses m)
    let vb := feedVarBounds m
    for i in List.range m.n do
      let b := vb.getD i (.fin 0, .fin 0)
      out := out.push s!"{id} var {i} {showBnd b.1} {showBnd b.2} {if decodeIsInt h i then "int" else "cont"} x0 {showRat (x0.getD i 0)}"
    let e := feedObjExpr m
    let es := match e with
      | .num q => if q == 0 then "nil" else showExpr e
      | _ => showExpr e
    out := out.push (s!"{id} obj 0 {if m.sense != 0 then "max" else "min"} lin" ++ showEntries (feedObjGradient m) ++ " nl " ++ es)
    let y0 := dense m.m (feedInitialDualGuesses m)
    let cb := feedConBounds m
    for i in List.range m.m do
      let b := cb.getD i (.fin 0, .fin 0)
      out := out.push (s!"{id} row {i} {showBnd b.1} {showBnd b.2} y0 {showRat (y0.getD i 0)} lin" ++ showEntries (feedLinearConExpr m i))
    out := out.push (s!"{id} colsizes" ++ String.join ((feedColumnSizes m).map (fun v => s!" {v}")))
    for s in feedSuffixes m do
      if !s.entries.isEmpty then
        out := out.push (s!"{id} suf {s.name} {s.kind % 8}" ++ showDenseNZ (dense (sufSize m s.kind) s.entries))
  let fs := writeNameFiles fsOld m
  match fs.col with
  | none => out := out.push s!"{id} colfile 0"
  | some l => out := out.push (s!"{id} colfile 1" ++ String.join (l.map (fun s => " " ++ showName s)))
  match fs.row with
  | none => out := out.push s!"{id} rowfile 0"
  | some l => out := out.push (s!"{id} rowfile 1" ++ String.join (l.map (fun s => " " ++ showName s)))
  out := out.push s!"{id} sol code {c.code}"
  let x := onPrimalPd pd m.n c.solx
  out := out.push (s!"{id} sol x" ++ String.join (x.map (fun v => " " ++ showRat v)))
  out := out.push (s!"{id} sol y" ++ String.join (c.soly.map (fun v => " " ++ showRat v)))
  for s in readSolSuffixes pd m.n m.m (c.ssuf.map (fun s => (s.name, s.kind, s.entries))) do
    out := out.push (s!"{id} sol suf {s.1} {s.2.1} {sufSize m s.2.1}" ++ showDenseNZ s.2.2)
  if x.length == m.n then
    match computeObjValue m (fun j => x.getD j 0) with
    | some v => out := out.push s!"{id} sol obj {showRat v}"
    | none => out := out.push s!"{id} sol obj crash"
  let err := stickyErr errOld (solReadError m.n m.m (c.ssuf.map (fun s => (s.name, s.kind, s.entries))))
  out := out.push s!"{id} sol err {if err then 1 else 0}"
  if m.api == 0 then out := out.push s!"{id} samefile 1"
  out := out.push s!"{id} end"
  pure (out.toList, pd, err, fs)

/-- sessions: association list session id -> stored `PreprocessData` (session 0 is always fresh) -/
partial def loop (h : IO.FS.Stream) (o : IO.FS.Stream) (st : List (Nat × Pd)) (errs : List ((Nat × Nat) × Bool) := [])
    (files : List (Nat × NameFiles) := []) : IO Unit := do
  let line ← h.getLine
  if line.isEmpty then return
  let l := line.trimAscii.toString
  if l.isEmpty || l.startsWith "#" then loop h o st errs files
  else
    let toks := (l.splitOn " ").filter (fun t => !t.isEmpty)
    if toks == ["P"] then
      for s in probeLines do o.putStrLn s
      loop h o st errs files
    else
    match (pCase.run toks) with
    | .ok (c, _) =>
      let pdOld : Pd := if c.session == 0 then ⟨[], []⟩ else ((st.lookup c.session).getD ⟨[], []⟩)
      -- the error flag lives in the solver object of the session: one C++ NLSolver and one C solver per session
      let errOld : Bool := if c.session == 0 then false else ((errs.lookup (c.session, c.m.api)).getD false)
      -- a session also keeps one file stub: the name files of the previous model are on disk
      let fsOld : NameFiles := if c.session == 0 then ⟨none, none⟩ else ((files.lookup c.session).getD ⟨none, none⟩)
      let (lines, pd, err, fs) := runCase c pdOld errOld fsOld
      for s in lines do o.putStrLn s
      if c.session == 0 then loop h o st errs files
      else loop h o ((c.session, pd) :: st) (((c.session, c.m.api), err) :: errs) ((c.session, fs) :: files)
    | .error e =>
      o.putStrLn s!"bad-op {e}"
      loop h o st errs files

def main : IO Unit := do
  let i ← IO.getStdin
  let o ← IO.getStdout
  loop i o []

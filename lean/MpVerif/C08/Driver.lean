/-! Line driver for C08 (stub; replaced when the model is written). -/
def main : IO Unit := pure ()

import MpVerif.C08.LemmasGen
/-! Round-5 lemmas: column sizes sum to the number of nonzeros. -/
namespace MpVerif.C08

theorem sum_map_add_nat {α} (L : List α) (f g : α → Nat) :
    (L.map (fun j => f j + g j)).sum = (L.map f).sum + (L.map g).sum := by
  induction L with
  | nil => rfl
  | cons a t ih => simp only [List.map_cons, List.sum_cons, ih]; omega

theorem sum_indicator_range (a n : Nat) :
    ((List.range n).map (fun j => if a = j then 1 else 0)).sum = if a < n then 1 else 0 := by
  induction n with
  | zero => rfl
  | succ n ih =>
    rw [List.range_succ, List.map_append, List.sum_append, ih]
    simp only [List.map_cons, List.map_nil, List.sum_cons, List.sum_nil]
    by_cases h1 : a < n
    · have : a ≠ n := by omega
      simp [h1, this]; omega
    · by_cases h2 : a = n
      · subst h2; simp
      · have : ¬ a < n + 1 := by omega
        simp [h1, h2, this]

theorem sum_count_range (l : List Nat) (n : Nat) (h : ∀ c ∈ l, c < n) :
    ((List.range n).map (fun j => l.count j)).sum = l.length := by
  induction l with
  | nil =>
    simp only [List.count_nil, List.length_nil]
    generalize List.range n = L
    induction L with
    | nil => rfl
    | cons _ _ ih => simp [ih]
  | cons a t ih =>
    have ht := ih (fun c hc => h c (List.mem_cons_of_mem _ hc))
    have ha : a < n := h a List.mem_cons_self
    have : (fun j => (a :: t).count j) = (fun j => t.count j + (if a = j then 1 else 0)) := by
      funext j
      rw [List.count_cons]
      by_cases hj : a = j
      · simp [hj]
      · simp [hj]
    rw [this, sum_map_add_nat, ht, sum_indicator_range]
    simp [ha]

theorem order_eq_map (m : MatrixModel) : order m = (List.range m.n).map (vpermInv m) := by
  apply List.ext_getElem
  · simp [order_length]
  · intro i h1 h2
    simp only [List.getElem_map, List.getElem_range]
    unfold vpermInv
    rw [getD_eq_getElem' _ _ h1]

/-- summing any per-column quantity over NL positions is summing it over the caller's columns -/
theorem sum_over_positions (m : MatrixModel) (f : Nat → Nat) :
    ((List.range m.n).map (fun i => f (vpermInv m i))).sum = ((List.range m.n).map f).sum := by
  have h : (List.range m.n).map (fun i => f (vpermInv m i)) = (order m).map f := by
    rw [order_eq_map, List.map_map]; rfl
  rw [h]
  exact List.Perm.sum_nat ((order_perm m).map f)

end MpVerif.C08

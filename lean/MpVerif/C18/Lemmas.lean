import MpVerif.C18.Model
/-! Helper lemmas for C18 (core Lean only). -/
namespace MpVerif.C18

@[simp] theorem R.and_eq_tt {x y : R} : x.and y = .tt ↔ x = .tt ∧ y = .tt := by
  cases x <;> cases y <;> simp [R.and]

@[simp] theorem R.ofBool_eq_tt {b : Bool} : R.ofBool b = .tt ↔ b = true := by
  cases b <;> simp [R.ofBool]

@[simp] theorem R.tt_and (y : R) : R.tt.and y = y := rfl

theorem R.ofBool_ne_unsup {b : Bool} : R.ofBool b ≠ .unsup := by cases b <;> simp [R.ofBool]
theorem R.ofBool_ne_ub {b : Bool} : R.ofBool b ≠ .ub := by cases b <;> simp [R.ofBool]

variable {C : Type} (N : NumOps C)

theorem plPairs_symm : ∀ (ps qs : List (C × C)), plPairs N ps qs = plPairs N qs ps
  | [], [] => rfl
  | [], _ :: _ => rfl
  | _ :: _, [] => rfl
  | p :: ps, q :: qs => by
    simp only [plPairs, plPairs_symm ps qs, N.symm p.1 q.1, N.symm p.2 q.2]

mutual
theorem equalX_symm : ∀ (a b : E C), equalX N a b = equalX N b a
  | .num x, .num y => by simp only [equalX, N.symm x y]
  | .ref k i, .ref k' j => by
    simp only [equalX]
    by_cases h : k = k'
    · subst h; simp only [if_true]; congr 1; exact BEq.comm
    · simp [h, Ne.symm h]
  | .un k a, .un k' b => by
    simp only [equalX]
    by_cases h : k = k'
    · subst h; simp only [if_true]; exact equalX_symm a b
    · simp [h, Ne.symm h]
  | .bin k l r, .bin k' l' r' => by
    simp only [equalX]
    by_cases h : k = k'
    · subst h; simp only [if_true, equalX_symm l l', equalX_symm r r']
    · simp [h, Ne.symm h]
  | .ite k c t e, .ite k' c' t' e' => by
    simp only [equalX]
    by_cases h : k = k'
    · subst h; simp only [if_true, equalX_symm c c', equalX_symm t t', equalX_symm e e']
    · simp [h, Ne.symm h]
  | .pl sb last arg, .pl sb' last' arg' => by
    simp only [equalX, plPairs_symm N sb sb', N.symm last last', equalX_symm arg arg', ne_eq, eq_comm (a := sb.length)]
  | .call f as, .call g bs => by
    simp only [equalX, equalArgs_symm as bs, ne_eq, eq_comm (a := f), eq_comm (a := as.length)]
  | .iter k as, .iter k' bs => by
    simp only [equalX]
    by_cases h : k = k'
    · subst h; simp only [if_true, equalList_symm as bs]
    · simp [h, Ne.symm h]
  | .bool x, .bool y => by simp only [equalX]; congr 1; exact BEq.comm
  | .str _, .str _ => by simp only [equalX]
  | .num _, .ref .. | .num _, .un .. | .num _, .bin .. | .num _, .ite .. | .num _, .pl .. | .num _, .call .. | .num _, .iter .. | .num _, .bool _ | .num _, .str _
  | .ref .., .num _ | .ref .., .un .. | .ref .., .bin .. | .ref .., .ite .. | .ref .., .pl .. | .ref .., .call .. | .ref .., .iter .. | .ref .., .bool _ | .ref .., .str _
  | .un .., .num _ | .un .., .ref .. | .un .., .bin .. | .un .., .ite .. | .un .., .pl .. | .un .., .call .. | .un .., .iter .. | .un .., .bool _ | .un .., .str _
  | .bin .., .num _ | .bin .., .ref .. | .bin .., .un .. | .bin .., .ite .. | .bin .., .pl .. | .bin .., .call .. | .bin .., .iter .. | .bin .., .bool _ | .bin .., .str _
  | .ite .., .num _ | .ite .., .ref .. | .ite .., .un .. | .ite .., .bin .. | .ite .., .pl .. | .ite .., .call .. | .ite .., .iter .. | .ite .., .bool _ | .ite .., .str _
  | .pl .., .num _ | .pl .., .ref .. | .pl .., .un .. | .pl .., .bin .. | .pl .., .ite .. | .pl .., .call .. | .pl .., .iter .. | .pl .., .bool _ | .pl .., .str _
  | .call .., .num _ | .call .., .ref .. | .call .., .un .. | .call .., .bin .. | .call .., .ite .. | .call .., .pl .. | .call .., .iter .. | .call .., .bool _ | .call .., .str _
  | .iter .., .num _ | .iter .., .ref .. | .iter .., .un .. | .iter .., .bin .. | .iter .., .ite .. | .iter .., .pl .. | .iter .., .call .. | .iter .., .bool _ | .iter .., .str _
  | .bool _, .num _ | .bool _, .ref .. | .bool _, .un .. | .bool _, .bin .. | .bool _, .ite .. | .bool _, .pl .. | .bool _, .call .. | .bool _, .iter .. | .bool _, .str _
  | .str _, .num _ | .str _, .ref .. | .str _, .un .. | .str _, .bin .. | .str _, .ite .. | .str _, .pl .. | .str _, .call .. | .str _, .iter .. | .str _, .bool _ => by
    simp only [equalX]
theorem equalList_symm : ∀ (as bs : List (E C)), equalList N as bs = equalList N bs as
  | [], [] => rfl
  | [], _ :: _ => by simp only [equalList]
  | _ :: _, [] => by simp only [equalList]
  | a :: as, b :: bs => by simp only [equalList, equalX_symm a b, equalList_symm as bs]
theorem equalArgs_symm : ∀ (as bs : List (E C)), equalArgs N as bs = equalArgs N bs as
  | [], [] => by simp only [equalArgs]
  | [], _ :: _ => by simp only [equalArgs]
  | _ :: _, [] => by simp only [equalArgs]
  | a :: as, b :: bs => by
    simp only [equalArgs, equalArgs_symm as bs]
    congr 1
    by_cases hk : a.kind = b.kind
    · simp only [hk, ne_eq, not_true_eq_false, if_false]
      by_cases hn : b.kind.isNumeric
      · simp only [hn, if_true, equalX_symm a b]
      · simp only [hn]
        have ih := equalX_symm a b
        cases a <;> cases b <;> simp_all [E.kind, BEq.comm]
    · simp [hk, Ne.symm hk]
end

end MpVerif.C18

namespace MpVerif.C18
variable {C : Type} (N : NumOps C)

/-! ### `Sim` is a partial equivalence -/

theorem plSim_symm : ∀ (ps qs : List (C × C)), PLSim N ps qs → PLSim N qs ps
  | _, _, .nil => .nil
  | _, _, .cons h1 h2 h => .cons (by rw [N.symm]; exact h1) (by rw [N.symm]; exact h2) (plSim_symm _ _ h)

theorem plSim_trans : ∀ (ps qs rs : List (C × C)), PLSim N ps qs → PLSim N qs rs → PLSim N ps rs
  | _, _, _, .nil, .nil => .nil
  | _, _, _, .cons a1 a2 a, .cons b1 b2 b =>
    .cons (N.trans _ _ _ a1 b1) (N.trans _ _ _ a2 b2) (plSim_trans _ _ _ a b)

mutual
theorem sim_symm : ∀ (a b : E C), Sim N a b → Sim N b a
  | _, _, .num h => .num (by rw [N.symm]; exact h)
  | _, _, .ref => .ref
  | _, _, .un h => .un (sim_symm _ _ h)
  | _, _, .bin h1 h2 => .bin (sim_symm _ _ h1) (sim_symm _ _ h2)
  | _, _, .ite h1 h2 h3 => .ite (sim_symm _ _ h1) (sim_symm _ _ h2) (sim_symm _ _ h3)
  | _, _, .pl hp hl ha => .pl (plSim_symm N _ _ hp) (by rw [N.symm]; exact hl) (sim_symm _ _ ha)
  | _, _, .call h => .call (simList_symm _ _ h)
  | _, _, .iter h => .iter (simList_symm _ _ h)
  | _, _, .bool => .bool
  | _, _, .str h => .str h.symm
theorem simList_symm : ∀ (as bs : List (E C)), SimList N as bs → SimList N bs as
  | _, _, .nil => .nil
  | _, _, .cons h hs => .cons (sim_symm _ _ h) (simList_symm _ _ hs)
end

mutual
theorem sim_trans : ∀ (a b c : E C), Sim N a b → Sim N b c → Sim N a c
  | _, _, _, .num h, .num h' => .num (N.trans _ _ _ h h')
  | _, _, _, .ref, .ref => .ref
  | _, _, _, .un h, .un h' => .un (sim_trans _ _ _ h h')
  | _, _, _, .bin h1 h2, .bin h1' h2' => .bin (sim_trans _ _ _ h1 h1') (sim_trans _ _ _ h2 h2')
  | _, _, _, .ite h1 h2 h3, .ite h1' h2' h3' =>
    .ite (sim_trans _ _ _ h1 h1') (sim_trans _ _ _ h2 h2') (sim_trans _ _ _ h3 h3')
  | _, _, _, .pl hp hl ha, .pl hp' hl' ha' =>
    .pl (plSim_trans N _ _ _ hp hp') (N.trans _ _ _ hl hl') (sim_trans _ _ _ ha ha')
  | _, _, _, .call h, .call h' => .call (simList_trans _ _ _ h h')
  | _, _, _, .iter h, .iter h' => .iter (simList_trans _ _ _ h h')
  | _, _, _, .bool, .bool => .bool
  | _, _, _, .str h, .str h' => .str (h.trans h')
theorem simList_trans : ∀ (as bs cs : List (E C)), SimList N as bs → SimList N bs cs → SimList N as cs
  | _, _, _, .nil, .nil => .nil
  | _, _, _, .cons h hs, .cons h' hs' => .cons (sim_trans _ _ _ h h') (simList_trans _ _ _ hs hs')
end

end MpVerif.C18

namespace MpVerif.C18
variable {C : Type} (N : NumOps C)

/-! ### reflexivity of `Sim` on NaN-free trees -/

theorem plSim_refl : ∀ (ps : List (C × C)), ps.all (fun p => N.feq p.1 p.1 && N.feq p.2 p.2) = true → PLSim N ps ps
  | [], _ => .nil
  | p :: ps, h => by
    simp only [List.all_cons, Bool.and_eq_true] at h
    exact .cons h.1.1 h.1.2 (plSim_refl ps h.2)

mutual
theorem sim_refl : ∀ (a : E C), noNaN N a = true → Sim N a a
  | .num v, h => .num (by simpa only [noNaN] using h)
  | .ref .., _ => .ref
  | .un _ a, h => .un (sim_refl a (by simpa only [noNaN] using h))
  | .bin _ l r, h => by
    simp only [noNaN, Bool.and_eq_true] at h
    exact .bin (sim_refl l h.1) (sim_refl r h.2)
  | .ite _ c t e, h => by
    simp only [noNaN, Bool.and_eq_true] at h
    exact .ite (sim_refl c h.1) (sim_refl t h.2.1) (sim_refl e h.2.2)
  | .pl sb last arg, h => by
    simp only [noNaN, Bool.and_eq_true] at h
    exact .pl (plSim_refl N sb h.1) h.2.1 (sim_refl arg h.2.2)
  | .call _ as, h => .call (simList_refl as (by simpa only [noNaN] using h))
  | .iter _ as, h => .iter (simList_refl as (by simpa only [noNaN] using h))
  | .bool _, _ => .bool
  | .str _, _ => .str rfl
theorem simList_refl : ∀ (as : List (E C)), noNaNList N as = true → SimList N as as
  | [], _ => .nil
  | a :: as, h => by
    simp only [noNaNList, Bool.and_eq_true] at h
    exact .cons (sim_refl a h.1) (simList_refl as h.2)
end

/-! ### `equalX = tt` implies structural identity and comparator support -/

theorem plPairs_sim : ∀ (ps qs : List (C × C)), plPairs N ps qs = true → PLSim N ps qs
  | [], [], _ => .nil
  | [], _ :: _, h => by simp [plPairs] at h
  | _ :: _, [], h => by simp [plPairs] at h
  | p :: ps, q :: qs, h => by
    simp only [plPairs, Bool.and_eq_true] at h
    exact .cons h.1.1 h.1.2 (plPairs_sim ps qs h.2)

theorem plSim_pairs : ∀ (ps qs : List (C × C)), PLSim N ps qs → plPairs N ps qs = true ∧ ps.length = qs.length
  | _, _, .nil => ⟨rfl, rfl⟩
  | _, _, .cons h1 h2 h => by
    have := plSim_pairs _ _ h
    simp only [plPairs, h1, h2, this.1, Bool.and_self, List.length_cons, this.2, and_self]

mutual
theorem sound : ∀ (a b : E C), equalX N a b = .tt → Sim N a b ∧ okC a = true
  | .num x, b, h => by
    cases b with
    | num y => exact ⟨.num (by simpa only [equalX, R.ofBool_eq_tt] using h), rfl⟩
    | _ => simp [equalX] at h
  | .ref k i, b, h => by
    cases b with
    | ref k' j =>
      simp only [equalX] at h
      split at h
      · next hk =>
        subst hk
        simp only [R.ofBool_eq_tt, beq_iff_eq] at h
        subst h
        exact ⟨.ref, rfl⟩
      · simp at h
    | _ => simp [equalX] at h
  | .un k a, b, h => by
    cases b with
    | un k' b' =>
      simp only [equalX] at h
      split at h
      · next hk =>
        subst hk
        have := sound a b' h
        exact ⟨.un this.1, by simpa only [okC] using this.2⟩
      · simp at h
    | _ => simp [equalX] at h
  | .bin k l r, b, h => by
    cases b with
    | bin k' l' r' =>
      simp only [equalX] at h
      split at h
      · next hk =>
        subst hk
        simp only [R.and_eq_tt] at h
        have h1 := sound l l' h.1
        have h2 := sound r r' h.2
        exact ⟨.bin h1.1 h2.1, by simp only [okC, h1.2, h2.2, Bool.and_self]⟩
      · simp at h
    | _ => simp [equalX] at h
  | .ite k c t e, b, h => by
    cases b with
    | ite k' c' t' e' =>
      simp only [equalX] at h
      split at h
      · next hk =>
        subst hk
        split at h
        · simp at h
        · next hs =>
          simp only [R.and_eq_tt] at h
          have h1 := sound c c' h.1
          have h2 := sound t t' h.2.1
          have h3 := sound e e' h.2.2
          exact ⟨.ite h1.1 h2.1 h3.1, by simp [okC, h1.2, h2.2, h3.2, hs]⟩
      · simp at h
    | _ => simp [equalX] at h
  | .pl sb last arg, b, h => by
    cases b with
    | pl sb' last' arg' =>
      simp only [equalX] at h
      split at h
      · simp at h
      · split at h
        · simp at h
        · next hp =>
          simp only [R.and_eq_tt, R.ofBool_eq_tt] at h
          have h1 := sound arg arg' h.2
          exact ⟨.pl (plPairs_sim N sb sb' (by simpa using hp)) h.1 h1.1, by simpa only [okC] using h1.2⟩
    | _ => simp [equalX] at h
  | .call f as, b, h => by
    cases b with
    | call g bs =>
      simp only [equalX] at h
      split at h
      · simp at h
      · next hc =>
        simp only [ne_eq, not_or, Decidable.not_not] at hc
        have h1 := soundArgs as bs hc.2 h
        obtain ⟨hf, _⟩ := hc
        subst hf
        exact ⟨.call h1.1, by simpa only [okC] using h1.2⟩
    | _ => simp [equalX] at h
  | .iter k as, b, h => by
    cases b with
    | iter k' bs =>
      simp only [equalX] at h
      split at h
      · next hk =>
        subst hk
        split at h
        · simp at h
        · next hs =>
          have h1 := soundList as bs h
          exact ⟨.iter h1.1, by simp [okC, h1.2, hs]⟩
      · simp at h
    | _ => simp [equalX] at h
  | .bool x, b, h => by
    cases b with
    | bool y =>
      simp only [equalX, R.ofBool_eq_tt, beq_iff_eq] at h
      subst h
      exact ⟨.bool, rfl⟩
    | _ => simp [equalX] at h
  | .str _, b, h => by
    cases b <;> simp [equalX] at h
theorem soundList : ∀ (as bs : List (E C)), equalList N as bs = .tt → SimList N as bs ∧ okCList as = true
  | [], [], _ => ⟨.nil, rfl⟩
  | [], _ :: _, h => by simp [equalList] at h
  | _ :: _, [], h => by simp [equalList] at h
  | a :: as, b :: bs, h => by
    simp only [equalList, R.and_eq_tt] at h
    have h1 := sound a b h.1
    have h2 := soundList as bs h.2
    exact ⟨.cons h1.1 h2.1, by simp only [okCList, h1.2, h2.2, Bool.and_self]⟩
theorem soundArgs : ∀ (as bs : List (E C)), as.length = bs.length → equalArgs N as bs = .tt →
    SimList N as bs ∧ okCArgs as = true
  | [], [], _, _ => ⟨.nil, rfl⟩
  | [], _ :: _, hl, _ => by simp at hl
  | _ :: _, [], hl, _ => by simp at hl
  | a :: as, b :: bs, hl, h => by
    simp only [equalArgs, R.and_eq_tt] at h
    have h2 := soundArgs as bs (by simpa using hl) h.2
    have h1 := h.1
    split at h1
    · simp at h1
    · split at h1
      · next hn =>
        have h3 := sound a b h1
        exact ⟨.cons h3.1 h2.1, by simp only [okCArgs, hn, if_true, h3.2, h2.2, Bool.and_self]⟩
      · next hn =>
        split at h1
        · next s s' =>
          simp only [R.ofBool_eq_tt, beq_iff_eq] at h1
          exact ⟨.cons (.str h1) h2.1, by simp [okCArgs, E.kind, Kind.isNumeric, h2.2]⟩
        · have h3 := sound a b h1
          exact ⟨.cons h3.1 h2.1, by simp [okCArgs, hn, h3.2, h2.2]⟩
end

end MpVerif.C18

namespace MpVerif.C18
variable {C : Type} (N : NumOps C)

/-! ### structural identity of comparator-supported trees implies `equalX = tt` -/

theorem simList_length : ∀ (as bs : List (E C)), SimList N as bs → as.length = bs.length
  | _, _, .nil => rfl
  | _, _, .cons _ hs => by simp only [List.length_cons, simList_length _ _ hs]

theorem sim_kind : ∀ (a b : E C), Sim N a b → a.kind = b.kind
  | _, _, .num _ | _, _, .ref | _, _, .un _ | _, _, .bin _ _ | _, _, .ite _ _ _ | _, _, .pl _ _ _
  | _, _, .call _ | _, _, .iter _ | _, _, .bool | _, _, .str _ => rfl

mutual
theorem complete : ∀ (a b : E C), Sim N a b → okC a = true → equalX N a b = .tt
  | _, _, .num h, _ => by simp only [equalX, h, R.ofBool_eq_tt]
  | _, _, .ref, _ => by simp only [equalX, if_true, R.ofBool_eq_tt, beq_self_eq_true]
  | _, _, .un h, ho => by
    simp only [equalX, if_true]
    exact complete _ _ h (by simpa only [okC] using ho)
  | _, _, .bin h1 h2, ho => by
    simp only [okC, Bool.and_eq_true] at ho
    simp only [equalX, if_true, R.and_eq_tt]
    exact ⟨complete _ _ h1 ho.1, complete _ _ h2 ho.2⟩
  | _, _, .ite h1 h2 h3, ho => by
    simp only [okC, Bool.and_eq_true, bne_iff_ne, ne_eq] at ho
    simp only [equalX, if_true, ho.1, if_false, R.and_eq_tt]
    exact ⟨complete _ _ h1 ho.2.1, complete _ _ h2 ho.2.2.1, complete _ _ h3 ho.2.2.2⟩
  | _, _, .pl hp hl ha, ho => by
    have := plSim_pairs N _ _ hp
    simp only [equalX, this.2, ne_eq, not_true_eq_false, if_false, this.1, Bool.true_eq_false, hl,
      R.and_eq_tt, R.ofBool_eq_tt, true_and]
    exact complete _ _ ha (by simpa only [okC] using ho)
  | _, _, .call h, ho => by
    simp only [equalX, ne_eq, not_true_eq_false, simList_length N _ _ h, or_self, if_false]
    exact completeArgs _ _ h (by simpa only [okC] using ho)
  | _, _, .iter h, ho => by
    simp only [okC, Bool.and_eq_true, Bool.not_eq_true'] at ho
    simp only [equalX, if_true, ho.1, Bool.false_eq_true, if_false]
    exact completeList _ _ h ho.2
  | _, _, .bool, _ => by simp only [equalX, R.ofBool_eq_tt, beq_self_eq_true]
  | _, _, .str _, ho => by simp [okC] at ho
theorem completeList : ∀ (as bs : List (E C)), SimList N as bs → okCList as = true → equalList N as bs = .tt
  | _, _, .nil, _ => rfl
  | _, _, .cons h hs, ho => by
    simp only [okCList, Bool.and_eq_true] at ho
    simp only [equalList, R.and_eq_tt]
    exact ⟨complete _ _ h ho.1, completeList _ _ hs ho.2⟩
theorem completeArgs : ∀ (as bs : List (E C)), SimList N as bs → okCArgs as = true → equalArgs N as bs = .tt
  | _, _, .nil, _ => by simp only [equalArgs]
  | a :: _, b :: _, .cons h hs, ho => by
    simp only [okCArgs, Bool.and_eq_true] at ho
    simp only [equalArgs, R.and_eq_tt]
    refine ⟨?_, completeArgs _ _ hs ho.2⟩
    have hk := sim_kind N _ _ h
    simp only [hk, ne_eq, not_true_eq_false, if_false]
    have ho1 := ho.1
    split at ho1
    · next hn =>
      rw [hk] at hn
      simp only [hn, if_true]
      exact complete _ _ h ho1
    · next hn =>
      rw [hk] at hn
      simp only [hn]
      have hc := fun (ok : okC a = true) => complete _ _ h ok
      cases h with
      | str hs => simp [hs]
      | _ => simp_all [E.kind, okC]
end

end MpVerif.C18

namespace MpVerif.C18
variable {C : Type} (N : NumOps C) (P : Prims C)

/-! ### hashing respects structural identity -/

theorem plFold_sim (hc : ∀ x y, N.feq x y = true → P.hDbl x = P.hDbl y) :
    ∀ (ps qs : List (C × C)), PLSim N ps qs → ∀ h, plFold P h ps = plFold P h qs
  | _, _, .nil, _ => rfl
  | _, _, .cons h1 h2 hs, h => by
    simp only [plFold, hc _ _ h1, hc _ _ h2]
    exact plFold_sim hc _ _ hs _

mutual
theorem sim_hash (hc : ∀ x y, N.feq x y = true → P.hDbl x = P.hDbl y) :
    ∀ (a b : E C), Sim N a b → hashX P a = hashX P b
  | _, _, .num h => by simp only [hashX, hc _ _ h]
  | _, _, .ref => rfl
  | _, _, .un h => by simp only [hashX, sim_hash hc _ _ h]
  | _, _, .bin h1 h2 => by simp only [hashX, sim_hash hc _ _ h1, sim_hash hc _ _ h2]
  | _, _, .ite h1 h2 h3 => by
    simp only [hashX, sim_hash hc _ _ h1, sim_hash hc _ _ h2, sim_hash hc _ _ h3]
  | _, _, .pl hp hl ha => by
    simp only [hashX, sim_hash hc _ _ ha, plFold_sim N P hc _ _ hp, hc _ _ hl]
  | _, _, .call h => by simp only [hashX, simList_hash hc _ _ h]
  | _, _, .iter h => by simp only [hashX, simList_hash hc _ _ h]
  | _, _, .bool => rfl
  | _, _, .str h => by simp only [hashX, strFold, h]
theorem simList_hash (hc : ∀ x y, N.feq x y = true → P.hDbl x = P.hDbl y) :
    ∀ (as bs : List (E C)), SimList N as bs → ∀ h, hashList P h as = hashList P h bs
  | _, _, .nil, _ => rfl
  | _, _, .cons h hs, s => by
    simp only [hashList, sim_hash hc _ _ h]
    split
    · rfl
    · exact simList_hash hc _ _ hs _
end

/-! ### `hashX` throws exactly on trees containing a kind ExprHasher does not handle -/

mutual
theorem hash_isSome : ∀ (a : E C), (hashX P a).isSome = okH a
  | .num _ | .ref _ _ | .bool _ | .str _ => rfl
  | .un _ a => by
    have := hash_isSome a
    simp only [hashX, okH]
    cases h : hashX P a <;> simp_all
  | .bin _ l r => by
    have h1 := hash_isSome l
    have h2 := hash_isSome r
    simp only [hashX, okH]
    cases hl : hashX P l <;> cases hr : hashX P r <;> simp_all
  | .ite k c t e => by
    have h1 := hash_isSome c
    have h2 := hash_isSome t
    have h3 := hash_isSome e
    simp only [hashX, okH]
    by_cases hk : k = .ifSym
    · simp [hk]
    · cases hc : hashX P c <;> cases ht : hashX P t <;> cases he : hashX P e <;> simp_all
  | .pl _ _ arg => by
    have := hash_isSome arg
    simp only [hashX, okH]
    cases h : hashX P arg <;> simp_all
  | .call _ as => by simp only [hashX, okH, hashList_isSome as]
  | .iter k as => by
    simp only [hashX, okH]
    cases hk : k.unsupported
    · simp [hashList_isSome as]
    · simp
theorem hashList_isSome : ∀ (as : List (E C)) (h : UInt64), (hashList P h as).isSome = okHList as
  | [], _ => rfl
  | a :: as, s => by
    have h1 := hash_isSome a
    simp only [hashList, okHList]
    cases h : hashX P a
    · simp_all
    · simp_all [hashList_isSome as]
end

mutual
theorem okC_okH : ∀ (a : E C), okC a = true → okH a = true
  | .num _, _ | .ref _ _, _ | .bool _, _ => rfl
  | .str _, h => by simp [okC] at h
  | .un _ a, h => by simp only [okC] at h; simp only [okH, okC_okH a h]
  | .bin _ l r, h => by
    simp only [okC, Bool.and_eq_true] at h
    simp only [okH, okC_okH l h.1, okC_okH r h.2, Bool.and_self]
  | .ite _ c t e, h => by
    simp only [okC, Bool.and_eq_true] at h
    simp only [okH, h.1, okC_okH c h.2.1, okC_okH t h.2.2.1, okC_okH e h.2.2.2, Bool.and_self]
  | .pl _ _ arg, h => by simp only [okC] at h; simp only [okH, okC_okH arg h]
  | .call _ as, h => by simp only [okC] at h; simp only [okH, okCArgs_okH as h]
  | .iter _ as, h => by
    simp only [okC, Bool.and_eq_true] at h
    simp only [okH, h.1, okCList_okH as h.2, Bool.and_self]
theorem okCList_okH : ∀ (as : List (E C)), okCList as = true → okHList as = true
  | [], _ => rfl
  | a :: as, h => by
    simp only [okCList, Bool.and_eq_true] at h
    simp only [okHList, okC_okH a h.1, okCList_okH as h.2, Bool.and_self]
theorem okCArgs_okH : ∀ (as : List (E C)), okCArgs as = true → okHList as = true
  | [], _ => rfl
  | a :: as, h => by
    simp only [okCArgs, Bool.and_eq_true] at h
    simp only [okHList, okCArgs_okH as h.2, Bool.and_true]
    have h1 := h.1
    split at h1
    · exact okC_okH a h1
    · simp only [Bool.or_eq_true] at h1
      cases h1 with
      | inl hs => cases a <;> simp_all [E.kind, okH]
      | inr ho => exact okC_okH a ho
end

/-! ### outcomes -/

def R.isBool : R → Bool
  | .tt | .ff => true
  | _ => false

@[simp] theorem R.isBool_ff : R.ff.isBool = true := rfl
@[simp] theorem R.isBool_tt : R.tt.isBool = true := rfl

theorem R.isBool_and {x y : R} : x.isBool = true → y.isBool = true → (x.and y).isBool = true := by
  cases x <;> cases y <;> simp [R.and, R.isBool]

theorem R.isBool_ofBool (b : Bool) : (R.ofBool b).isBool = true := by cases b <;> rfl

theorem R.and_ne_ub {x y : R} : x ≠ .ub → y ≠ .ub → x.and y ≠ .ub := by
  cases x <;> cases y <;> simp [R.and]

theorem R.isBool_iff {x : R} : x.isBool = true ↔ x = .tt ∨ x = .ff := by cases x <;> simp [R.isBool]

mutual
/-- on a comparator-supported left operand `Equal` returns a boolean, whatever the right operand -/
theorem total : ∀ (a b : E C), okC a = true → (equalX N a b).isBool = true
  | .num _, b, _ => by cases b <;> simp [equalX, R.isBool_ff, R.isBool_ofBool]
  | .ref _ _, b, _ => by
    cases b <;> simp only [equalX, R.isBool_ff]
    split <;> simp [R.isBool_ff, R.isBool_ofBool]
  | .un _ a, b, h => by
    cases b <;> simp only [equalX, R.isBool_ff]
    split
    · exact total a _ (by simpa only [okC] using h)
    · rfl
  | .bin _ l r, b, h => by
    simp only [okC, Bool.and_eq_true] at h
    cases b <;> simp only [equalX, R.isBool_ff]
    split
    · exact R.isBool_and (total l _ h.1) (total r _ h.2)
    · rfl
  | .ite _ c t e, b, h => by
    simp only [okC, Bool.and_eq_true, bne_iff_ne, ne_eq] at h
    cases b <;> simp only [equalX, R.isBool_ff]
    split
    · simp only [h.1, if_false]
      exact R.isBool_and (total c _ h.2.1) (R.isBool_and (total t _ h.2.2.1) (total e _ h.2.2.2))
    · rfl
  | .pl _ _ arg, b, h => by
    cases b <;> simp only [equalX, R.isBool_ff]
    split
    · rfl
    · split
      · rfl
      · exact R.isBool_and (R.isBool_ofBool _) (total arg _ (by simpa only [okC] using h))
  | .call _ as, b, h => by
    cases b <;> simp only [equalX, R.isBool_ff]
    split
    · rfl
    · exact totalArgs as _ (by simpa only [okC] using h)
  | .iter _ as, b, h => by
    simp only [okC, Bool.and_eq_true, Bool.not_eq_true'] at h
    cases b <;> simp only [equalX, R.isBool_ff]
    split
    · simp only [h.1, Bool.false_eq_true, if_false]
      exact totalList as _ h.2
    · rfl
  | .bool _, b, _ => by cases b <;> simp [equalX, R.isBool_ff, R.isBool_ofBool]
  | .str _, _, h => by simp [okC] at h
theorem totalList : ∀ (as bs : List (E C)), okCList as = true → (equalList N as bs).isBool = true
  | [], [], _ => rfl
  | [], _ :: _, _ => rfl
  | _ :: _, [], _ => rfl
  | a :: as, b :: bs, h => by
    simp only [okCList, Bool.and_eq_true] at h
    simp only [equalList]
    exact R.isBool_and (total a b h.1) (totalList as bs h.2)
theorem totalArgs : ∀ (as bs : List (E C)), okCArgs as = true → (equalArgs N as bs).isBool = true
  | [], [], _ => by simp [equalArgs, R.isBool_tt]
  | [], _ :: _, _ => by simp [equalArgs, R.isBool_tt]
  | _ :: _, [], _ => by simp [equalArgs, R.isBool_tt]
  | a :: as, b :: bs, h => by
    simp only [okCArgs, Bool.and_eq_true] at h
    simp only [equalArgs]
    refine R.isBool_and ?_ (totalArgs as bs h.2)
    have h1 := h.1
    split
    · rfl
    · next hk =>
      split
      · next hn => simp only [hn, if_true] at h1; exact total a b h1
      · next hn =>
        simp only [hn] at h1
        have h1' : (a.kind == Kind.string) = true ∨ okC a = true := by
          simpa only [Bool.or_eq_true, if_false, Bool.false_eq_true] using h1
        cases h1' with
        | inl hs => cases a <;> cases b <;> simp_all [E.kind, R.isBool_ofBool]
        | inr ho =>
          have ih := total a b ho
          cases a <;> cases b <;> simp_all [E.kind, R.isBool_ofBool, okC]
end

mutual
/-- `Equal` performs no null dereference -/
theorem no_ub : ∀ (a b : E C), equalX N a b ≠ .ub
  | .num _, b => by cases b <;> simp [equalX, R.ofBool_ne_ub]
  | .ref _ _, b => by
    cases b <;> simp only [equalX, ne_eq, reduceCtorEq, not_false_eq_true]
    split <;> simp [R.ofBool_ne_ub]
  | .un _ a, b => by
    cases b <;> simp only [equalX, ne_eq, reduceCtorEq, not_false_eq_true]
    split
    · exact no_ub a _
    · simp
  | .bin _ l r, b => by
    cases b <;> simp only [equalX, ne_eq, reduceCtorEq, not_false_eq_true]
    split
    · exact R.and_ne_ub (no_ub l _) (no_ub r _)
    · simp
  | .ite _ c t e, b => by
    cases b <;> simp only [equalX, ne_eq, reduceCtorEq, not_false_eq_true]
    split
    · split
      · simp
      · exact R.and_ne_ub (no_ub c _) (R.and_ne_ub (no_ub t _) (no_ub e _))
    · simp
  | .pl _ _ arg, b => by
    cases b <;> simp only [equalX, ne_eq, reduceCtorEq, not_false_eq_true]
    split
    · simp
    · split
      · simp
      · exact R.and_ne_ub R.ofBool_ne_ub (no_ub arg _)
  | .call _ as, b => by
    cases b <;> simp only [equalX, ne_eq, reduceCtorEq, not_false_eq_true]
    split
    · simp
    · exact no_ubArgs as _
  | .iter _ as, b => by
    cases b <;> simp only [equalX, ne_eq, reduceCtorEq, not_false_eq_true]
    split
    · split
      · simp
      · exact no_ubList as _
    · simp
  | .bool _, b => by cases b <;> simp [equalX, R.ofBool_ne_ub]
  | .str _, b => by cases b <;> simp [equalX]
theorem no_ubList : ∀ (as bs : List (E C)), equalList N as bs ≠ .ub
  | [], [] => by simp [equalList]
  | [], _ :: _ => by simp [equalList]
  | _ :: _, [] => by simp [equalList]
  | a :: as, b :: bs => by
    simp only [equalList]
    exact R.and_ne_ub (no_ub a b) (no_ubList as bs)
theorem no_ubArgs : ∀ (as bs : List (E C)), equalArgs N as bs ≠ .ub
  | [], [] => by simp [equalArgs]
  | [], _ :: _ => by simp [equalArgs]
  | _ :: _, [] => by simp [equalArgs]
  | a :: as, b :: bs => by
    simp only [equalArgs]
    refine R.and_ne_ub ?_ (no_ubArgs as bs)
    have ih := no_ub a b
    split
    · simp
    · split
      · exact ih
      · cases a <;> cases b <;> simp_all [E.kind, R.ofBool_ne_ub]
end

end MpVerif.C18

namespace MpVerif.C18
variable {C : Type} (N : NumOps C)

/-- `mp::Equal` starts with `if (e1.kind() != e2.kind()) return false;` -/
theorem equalX_of_kind_ne (a b : E C) (h : a.kind ≠ b.kind) : equalX N a b = .ff := by
  cases a <;> cases b <;> simp only [equalX] <;> simp_all [E.kind]

end MpVerif.C18

namespace MpVerif.C18
variable {C : Type} (N : NumOps C)

/-- `x == y` implies `x == x` (partial equivalence) -/
theorem NumOps.refl_of {x y : C} (h : N.feq x y = true) : N.feq x x = true :=
  N.trans x y x h (by rw [N.symm]; exact h)

theorem plSim_noNaN : ∀ (ps qs : List (C × C)), PLSim N ps qs →
    ps.all (fun p => N.feq p.1 p.1 && N.feq p.2 p.2) = true
  | _, _, .nil => rfl
  | _, _, .cons h1 h2 hs => by
    simp only [List.all_cons, Bool.and_eq_true]
    exact ⟨⟨N.refl_of h1, N.refl_of h2⟩, plSim_noNaN _ _ hs⟩

mutual
/-- structurally identical to something ⇒ no NaN constant -/
theorem sim_noNaN : ∀ (a b : E C), Sim N a b → noNaN N a = true
  | _, _, .num h => by simp only [noNaN]; exact N.refl_of h
  | _, _, .ref => rfl
  | _, _, .un h => by simp only [noNaN]; exact sim_noNaN _ _ h
  | _, _, .bin h1 h2 => by simp only [noNaN, Bool.and_eq_true]; exact ⟨sim_noNaN _ _ h1, sim_noNaN _ _ h2⟩
  | _, _, .ite h1 h2 h3 => by
    simp only [noNaN, Bool.and_eq_true]; exact ⟨sim_noNaN _ _ h1, sim_noNaN _ _ h2, sim_noNaN _ _ h3⟩
  | _, _, .pl hp hl ha => by
    simp only [noNaN, Bool.and_eq_true]
    exact ⟨plSim_noNaN N _ _ hp, N.refl_of hl, sim_noNaN _ _ ha⟩
  | _, _, .call h => by simp only [noNaN]; exact simList_noNaN _ _ h
  | _, _, .iter h => by simp only [noNaN]; exact simList_noNaN _ _ h
  | _, _, .bool => rfl
  | _, _, .str _ => rfl
theorem simList_noNaN : ∀ (as bs : List (E C)), SimList N as bs → noNaNList N as = true
  | _, _, .nil => rfl
  | _, _, .cons h hs => by
    simp only [noNaNList, Bool.and_eq_true]; exact ⟨sim_noNaN _ _ h, simList_noNaN _ _ hs⟩
end

end MpVerif.C18

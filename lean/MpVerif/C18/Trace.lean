import MpVerif.C18.Model
/-! Instrumented copies of `equalX` / `hashX` that also return the labels of the model arms taken,
with C++ evaluation order (the right operand of `&&` is only visited when the left one is true).
Used only by `drv_c18 --arms` (coverage of the model by the correspondence stream); the driver
re-checks on every line that the traced result equals the result of the real model function. -/
namespace MpVerif.C18

abbrev Tr := R × List String

def Tr.and (x : Tr) (y : Unit → Tr) : Tr :=
  match x.1 with
  | .tt => let r := y (); (r.1, r.2 ++ x.2)
  | .ff => (.ff, "and.left-false" :: x.2)
  | .unsup => (.unsup, "and.left-throws" :: x.2)
  | .ub => (.ub, "and.left-ub" :: x.2)

def ofB (l : String) (b : Bool) : Tr := (R.ofBool b, [l ++ (if b then ".true" else ".false")])

variable (N : NumOps UInt64)

def plPairsT : List (UInt64 × UInt64) → List (UInt64 × UInt64) → Bool × List String
  | [], [] => (true, ["plPairs.nil-nil"])
  | p :: ps, q :: qs =>
    if !(N.feq p.1 q.1) then (false, ["plPairs.slope-ne"])
    else if !(N.feq p.2 q.2) then (false, ["plPairs.breakpoint-ne"])
    else let r := plPairsT ps qs; (r.1, "plPairs.cons-eq" :: r.2)
  | _, _ => (false, ["plPairs.length-mismatch(unreachable after the length test)"])

mutual
def equalT : E UInt64 → E UInt64 → Tr
  | .num x, .num y => ofB "equalX.num" (N.feq x y)
  | .ref k i, .ref k' j => if k = k' then ofB "equalX.ref.index" (i == j) else (.ff, ["equalX.ref.kind-ne"])
  | .un k a, .un k' b => if k = k' then (let r := equalT a b; (r.1, "equalX.un.rec" :: r.2)) else (.ff, ["equalX.un.kind-ne"])
  | .bin k l r, .bin k' l' r' =>
      if k = k' then Tr.and (let t := equalT l l'; (t.1, "equalX.bin.rec" :: t.2)) (fun _ => equalT r r')
      else (.ff, ["equalX.bin.kind-ne"])
  | .ite k c t e, .ite k' c' t' e' =>
      if k = k' then
        (if k = .ifSym then (.unsup, ["equalX.ite.ifSym-throws"])
         else Tr.and (let r := equalT c c'; (r.1, "equalX.ite.rec" :: r.2)) (fun _ => Tr.and (equalT t t') (fun _ => equalT e e')))
      else (.ff, ["equalX.ite.kind-ne"])
  | .pl sb last arg, .pl sb' last' arg' =>
      if sb.length ≠ sb'.length then (.ff, ["equalX.pl.length-ne"])
      else
        let p := plPairsT N sb sb'
        if p.1 = false then (.ff, "equalX.pl.pairs-ne" :: p.2)
        else Tr.and (let r := ofB "equalX.pl.last-slope" (N.feq last last'); (r.1, r.2 ++ p.2)) (fun _ => equalT arg arg')
  | .call f as, .call g bs =>
      if f ≠ g then (.ff, ["equalX.call.function-ne"])
      else if as.length ≠ bs.length then (.ff, ["equalX.call.arity-ne"])
      else let r := equalArgsT as bs; (r.1, "equalX.call.args" :: r.2)
  | .iter k as, .iter k' bs =>
      if k = k' then (if k.unsupported then (.unsup, ["equalX.iter.unsupported-throws"])
                      else let r := equalListT as bs; (r.1, "equalX.iter.list" :: r.2))
      else (.ff, ["equalX.iter.kind-ne"])
  | .bool x, .bool y => ofB "equalX.bool" (x == y)
  | .str _, .str _ => (.unsup, ["equalX.str-throws"])
  | _, _ => (.ff, ["equalX.layout-differs"])
def equalListT : List (E UInt64) → List (E UInt64) → Tr
  | [], [] => (.tt, ["equalList.nil-nil"])
  | [], _ :: _ => (.ff, ["equalList.left-shorter"])
  | _ :: _, [] => (.ff, ["equalList.right-shorter"])
  | a :: as, b :: bs => Tr.and (let r := equalT a b; (r.1, "equalList.cons-cons" :: r.2)) (fun _ => equalListT as bs)
def equalArgsT : List (E UInt64) → List (E UInt64) → Tr
  | a :: as, b :: bs =>
      Tr.and
        (if a.kind ≠ b.kind then (.ff, ["equalArgs.kind-ne"])
         else if a.kind.isNumeric then (let r := equalT a b; (r.1, "equalArgs.numeric" :: r.2))
         else match a, b with
           | .str s, .str s' => ofB "equalArgs.strcmp" (cstr s == cstr s')
           | _, _ => let r := equalT a b; (r.1, "equalArgs.other(Equal)" :: r.2))
        (fun _ => equalArgsT as bs)
  | _, _ => (.tt, ["equalArgs.end"])
end

variable (P : Prims UInt64)

mutual
def hashT : E UInt64 → Option UInt64 × List String
  | .num v => (some (combine (hashKind P .number) (P.hDbl v)), ["hashX.num"])
  | .ref k i => (some (combine (hashKind P (.ref k)) (P.hInt i)), ["hashX.ref"])
  | .un k a =>
      match hashT a with
      | (none, l) => (none, "hashX.un.child-throws" :: l)
      | (some ha, l) => (some (combine (hashKind P (.un k)) ha), "hashX.un" :: l)
  | .bin k l r =>
      match hashT l with
      | (none, t) => (none, "hashX.bin.lhs-throws" :: t)
      | (some hl, t) =>
        match hashT r with
        | (none, t') => (none, "hashX.bin.rhs-throws" :: (t' ++ t))
        | (some hr, t') => (some (combine (combine (hashKind P (.bin k)) hl) hr), "hashX.bin" :: (t' ++ t))
  | .ite k c t e =>
      if k = .ifSym then (none, ["hashX.ite.ifSym-throws"]) else
      match hashT c with
      | (none, l) => (none, "hashX.ite.cond-throws" :: l)
      | (some hc, l) =>
        match hashT t with
        | (none, l') => (none, "hashX.ite.then-throws" :: (l' ++ l))
        | (some ht, l') =>
          match hashT e with
          | (none, l'') => (none, "hashX.ite.else-throws" :: (l'' ++ l' ++ l))
          | (some he, l'') => (some (combine (combine (combine (hashKind P (.ifk k)) hc) ht) he), "hashX.ite" :: (l'' ++ l' ++ l))
  | .pl sb last arg =>
      match hashT arg with
      | (none, l) => (none, "hashX.pl.arg-throws(unreachable: the argument is a reference)" :: l)
      | (some ha, l) => (some (combine (combine (plFold P (hashKind P .plterm) sb) (P.hDbl last)) ha), "hashX.pl" :: l)
  | .call f as => let r := hashListT (combine (hashKind P .call) (P.hFun f)) as; (r.1, "hashX.call" :: r.2)
  | .iter k as => if k.unsupported then (none, ["hashX.iter.unsupported-throws"])
                  else let r := hashListT (hashKind P (.iter k)) as; (r.1, "hashX.iter" :: r.2)
  | .bool v => (some (combine (hashKind P .bool) (P.hBool v)), ["hashX.bool"])
  | .str s => (some (strFold P (hashKind P .string) s), [if (cstr s).length < s.length then "hashX.str.embedded-nul" else "hashX.str"])
def hashListT : UInt64 → List (E UInt64) → Option UInt64 × List String
  | h, [] => (some h, ["hashList.nil"])
  | h, a :: as =>
      match hashT a with
      | (none, l) => (none, "hashList.child-throws" :: l)
      | (some ha, l) => let r := hashListT (combine h ha) as; (r.1, "hashList.cons" :: (r.2 ++ l))
end

end MpVerif.C18

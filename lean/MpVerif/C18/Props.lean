import MpVerif.C18.Lemmas
import MpVerif.C18.GenTie
/-!
# C18 — Expression equality is a structural equivalence consistent with hashing

Property theorems about the model in `Model.lean` (`equalX` = `mp::Equal`, `hashX` =
`std::hash<mp::Expr>`), for **all** trees `E C` (unbounded depth and arity, every kind the
factory can store), all constants types `C` with a symmetric, transitive `==` (`NumOps`; IEEE
doubles are the instance `ieee`) and all primitive hashers `Prims`.

Full-strength statements that are *false* for the code as it exists are kept in comments next to
the proved `_partial` variants and the proved counterexamples (`C18_counterexample_*`).
-/
namespace MpVerif.C18
variable {C : Type} (N : NumOps C) (P : Prims C)

/-! ## Equivalence -/

/-- Symmetry, at full strength and for the whole outcome (value, exception or crash):
`Equal(a, b)` and `Equal(b, a)` behave identically. -/
theorem C18_symm (a b : E C) : equalX N a b = equalX N b a := equalX_symm N a b

/-- Transitivity, at full strength. -/
theorem C18_trans (a b c : E C) (hab : equalX N a b = .tt) (hbc : equalX N b c = .tt) :
    equalX N a c = .tt := by
  have h1 := sound N a b hab
  have h2 := sound N b c hbc
  exact complete N a c (sim_trans N a b c h1.1 h2.1) h1.2

/- Reflexivity at full strength:
     theorem C18_refl (a : E C) : equalX N a a = .tt
   is FALSE for the code as it exists: see C18_counterexample_refl_nan (a NaN constant),
   C18_counterexample_symbolic_* and C18_counterexample_call_arg_symbolic_if (kinds that throw).  Proved: reflexivity on trees without NaN constants all of
   whose nodes the comparator handles. -/
theorem C18_refl_partial (a : E C) (hn : noNaN N a = true) (hs : okC a = true) :
    equalX N a a = .tt :=
  complete N a a (sim_refl N a hn) hs

/-- On comparator-supported trees reflexivity fails *exactly* at NaN constants. -/
theorem C18_refl_iff_noNaN_partial (a : E C) (hs : okC a = true) :
    equalX N a a = .tt ↔ noNaN N a = true :=
  ⟨fun h => sim_noNaN N a a (sound N a a h).1, fun hn => C18_refl_partial N a hn hs⟩

/-- ... and there the answer is `false` (not an exception). -/
theorem C18_refl_nan_is_false_partial (a : E C) (hs : okC a = true) (hn : noNaN N a = false) :
    equalX N a a = .ff := by
  have h := C18_refl_iff_noNaN_partial N a hs
  have ht : equalX N a a ≠ .tt := fun e => by rw [h.mp e] at hn; exact Bool.noConfusion hn
  have := R.isBool_iff.mp (total N a a hs)
  cases this with
  | inl e => exact absurd e ht
  | inr e => exact e

/-- Composition: on the comparator-supported NaN-free trees, "`Equal` returns true" is an equivalence
relation (reflexive, symmetric, transitive together, any number of steps). -/
theorem C18_equivalence_partial :
    Equivalence (fun (a b : {a : E C // okC a = true ∧ noNaN N a = true}) => equalX N a.1 b.1 = .tt) where
  refl a := C18_refl_partial N a.1 a.2.2 a.2.1
  symm h := by rw [C18_symm]; exact h
  trans h1 h2 := C18_trans N _ _ _ h1 h2

/-! ## Equality is structural identity -/

/-- `Equal` returns true only for structurally identical trees (full strength). -/
theorem C18_true_only_if_structural (a b : E C) (h : equalX N a b = .tt) : Sim N a b :=
  (sound N a b h).1

/-- The kind test comes first: different kinds compare unequal without looking further. -/
theorem C18_kind_first (a b : E C) (h : a.kind ≠ b.kind) : equalX N a b = .ff :=
  equalX_of_kind_ne N a b h

/- Full strength:
     theorem C18_iff_structural (a b : E C) : equalX N a b = .tt ↔ Sim N a b
   is FALSE (right-to-left) on kinds that make `Equal` throw or crash; proved when one operand
   is comparator-supported. -/
theorem C18_iff_structural_partial (a b : E C) (hs : okC a = true ∨ okC b = true) :
    equalX N a b = .tt ↔ Sim N a b := by
  constructor
  · exact fun h => (sound N a b h).1
  · intro h
    cases hs with
    | inl ha => exact complete N a b h ha
    | inr hb =>
      rw [equalX_symm]
      exact complete N b a (sim_symm N a b h) hb

/-- Two trees that compare equal are both comparator-supported (no kind that throws, call
arguments numeric or string). -/
theorem C18_true_implies_supported (a b : E C) (h : equalX N a b = .tt) :
    okC a = true ∧ okC b = true :=
  ⟨(sound N a b h).2, (sound N b a (by rw [equalX_symm]; exact h)).2⟩

/-! ## Hash congruence -/

/-- Equal trees have a hash (the hasher does not throw on them) and it is the same value, for
every choice of primitive hashers such that `==` constants hash alike (true of
`std::hash<double>`: ±0 ↦ 0; checked at run time).  Full strength. -/
theorem C18_hash_congr (hc : ∀ x y, N.feq x y = true → P.hDbl x = P.hDbl y)
    (a b : E C) (h : equalX N a b = .tt) :
    hashX P a = hashX P b ∧ (hashX P a).isSome = true := by
  have h1 := sound N a b h
  exact ⟨sim_hash N P hc a b h1.1, by rw [hash_isSome]; exact okC_okH a h1.2⟩

/-- Structurally identical trees hash alike even when the comparator cannot handle them. -/
theorem C18_hash_structural (hc : ∀ x y, N.feq x y = true → P.hDbl x = P.hDbl y)
    (a b : E C) (h : Sim N a b) : hashX P a = hashX P b :=
  sim_hash N P hc a b h

/-- The hasher throws exactly on trees that contain IFSYM or NUMBEROF_SYM. -/
theorem C18_hash_defined_iff (a : E C) : (hashX P a).isSome = okH a := hash_isSome P a

/-! ## Outcomes other than true/false -/

/- Full strength ("terminates without memory errors on every expression the factory can build",
   and returns a verdict):
     theorem C18_total (a b : E C) : equalX N a b = .tt ∨ equalX N a b = .ff
   is FALSE: C18_counterexample_symbolic_* / _call_arg_symbolic_if (throws). -/
theorem C18_total_partial (a b : E C) (hs : okC a = true ∨ okC b = true) :
    equalX N a b = .tt ∨ equalX N a b = .ff := by
  cases hs with
  | inl ha => exact R.isBool_iff.mp (total N a b ha)
  | inr hb => rw [equalX_symm]; exact R.isBool_iff.mp (total N b a hb)

/-- No null dereference, at full strength (since the fix of `ExprComparator::VisitCall`). -/
theorem C18_no_ub (a b : E C) : equalX N a b ≠ .ub := no_ub N a b

/-! ## Tie to the source by translation (round 4)

`lean/MpVerif/Gen/C18.lean` is regenerated on every run by `translators/gen_expr_c18.py` from clang's typed
AST of the instantiated `src/expr.cc`: entry of `mp::Equal` / `std::hash<mp::Expr>`, the dispatch of all 71
kinds through `BasicExprVisitor` to the terminal handler of `ExprComparator` / `ExprHasher`, the body of every
handler — loop-free ones as conjunctions / hash chains (which fields, in which order, through which overload of
`HashCombine`, i.e. which `std::hash<T>`), the four loop-carrying ones as index loops —, the seed of `Hash(e)` and
the arithmetic of `HashCombine`.  `C18_gen_equal_step` / `C18_gen_hash_step`: the hand model `equalX` / `hashX`
satisfies the recursion equations of that generated description (meaning in `GenSem.lean`); `C18_gen_equal_unique` /
`C18_gen_hash_unique`: nothing else does.  So every theorem above is a theorem about *the* function the translated
code defines.  `C18_gen_helper_*` and `C18_gen_hashCombine_instances` are tripwires (comparison with a committed
expectation: they detect a change of the small `expr.h` members whose meaning `GenSem` assumes, they prove nothing). -/
section gen
open MpVerif.Gen.C18

theorem C18_gen_hashCombine (s h : UInt64) : combine s h = hashCombine s h := rfl

/-- the generated `HashCombine` as a function -/
theorem hashCombine_eq : hashCombine = combine := by
  funext s h; rfl

theorem C18_gen_equal_step (a b : E C) :
    equalX N a b = equalStep N equalEntry cmpBody (equalX N) a b := by
  cases a with
  | num x => cases b <;> simp [equalX, equalStep, equalEntry, visitCmp, E.kind, cmpBody, conjSem, atomSem]
  | ref k i =>
    cases b with
    | ref k' j =>
      by_cases h : k = k'
      · subst h; cases k <;> simp [equalX, equalStep, equalEntry, visitCmp, E.kind, cmpBody, conjSem, atomSem]
      · simp [equalX, equalStep, equalEntry, E.kind, h]
    | _ => simp [equalX, equalStep, equalEntry, E.kind]
  | un k a =>
    cases b with
    | un k' b => exact gen_equal_step_diag_un N k k' a b
    | _ => simp [equalX, equalStep, equalEntry, E.kind]
  | bin k l r =>
    cases b with
    | bin k' l' r' => exact gen_equal_step_diag_bin N k k' l r l' r'
    | _ => simp [equalX, equalStep, equalEntry, E.kind]
  | ite k c t e =>
    cases b with
    | ite k' c' t' e' =>
      by_cases h : k = k'
      · subst h; cases k <;> simp [equalX, equalStep, equalEntry, visitCmp, E.kind, cmpBody, conjSem, atomSem, child]
      · simp [equalX, equalStep, equalEntry, E.kind, h]
    | _ => simp [equalX, equalStep, equalEntry, E.kind]
  | pl sb last arg =>
    cases b with
    | pl sb' last' arg' =>
      simp only [equalX, equalStep, equalEntry, visitCmp, E.kind, cmpBody, ne_eq, not_true_eq_false, if_false]
      exact tie_cmp_pl N (equalX N) sb sb' last last' arg arg'
    | _ => simp [equalX, equalStep, equalEntry, E.kind]
  | call f as =>
    cases b with
    | call g bs =>
      simp only [equalX, equalStep, equalEntry, visitCmp, E.kind, cmpBody, ne_eq, not_true_eq_false, if_false]
      exact tie_cmp_call N f g as bs
    | _ => simp [equalX, equalStep, equalEntry, E.kind]
  | iter k as =>
    cases b with
    | iter k' bs =>
      by_cases h : k = k'
      · subst h
        cases k <;>
          simp only [equalX, equalStep, equalEntry, visitCmp, E.kind, cmpBody, IterK.unsupported, ne_eq, not_true_eq_false,
            if_false, if_true, Bool.false_eq_true] <;>
          first | rfl | exact tie_cmp_vararg N _ as bs
      · simp [equalX, equalStep, equalEntry, E.kind, h]
    | _ => simp [equalX, equalStep, equalEntry, E.kind]
  | bool x => cases b <;> simp [equalX, equalStep, equalEntry, visitCmp, E.kind, cmpBody, conjSem, atomSem]
  | str s => cases b <;> simp [equalX, equalStep, equalEntry, visitCmp, E.kind, cmpBody]

theorem C18_gen_hash_step (a : E C) :
    hashX P a = hashStep P hashEntry hashBody hashCombine hashSeed (hashX P) a := by
  cases a with
  | num v => simp [hashX, hashStep, hashEntry, hashBody, E.kind, chainSem, hashKind, hashSeed, ← C18_gen_hashCombine]
  | ref k i => cases k <;> simp [hashX, hashStep, hashEntry, hashBody, E.kind, chainSem, hashKind, hashSeed, ← C18_gen_hashCombine]
  | un k a =>
    cases k <;> simp only [hashX, hashStep, hashEntry, hashBody, E.kind, chainSem, child, hashKind, hashSeed, ← C18_gen_hashCombine] <;>
      cases hashX P a <;> rfl
  | bin k l r =>
    cases k <;> simp only [hashX, hashStep, hashEntry, hashBody, E.kind, chainSem, child, hashKind, hashSeed, ← C18_gen_hashCombine] <;>
      cases hashX P l <;> cases hashX P r <;> rfl
  | ite k c t e =>
    cases k <;> simp only [hashX, hashStep, hashEntry, hashBody, E.kind, chainSem, child, hashKind, hashSeed, ← C18_gen_hashCombine] <;>
      first | rfl | (cases hashX P c <;> cases hashX P t <;> cases hashX P e <;> simp)
  | pl sb last arg =>
    simp only [hashX, hashStep, hashEntry, hashBody, E.kind, hashKind, hashSeed, hashCombine_eq]
    exact tie_hash_pl P sb last arg _
  | call f as =>
    simp only [hashX, hashStep, hashEntry, hashBody, E.kind, hashKind, hashSeed, hashCombine_eq]
    exact tie_hash_call P f as _
  | iter k as =>
    cases k <;>
      simp only [hashX, hashStep, hashEntry, hashBody, E.kind, hashKind, hashSeed, hashCombine_eq, IterK.unsupported,
        if_true, if_false, Bool.false_eq_true] <;>
      first | rfl | exact tie_hash_vararg P _ as _
  | bool v => simp [hashX, hashStep, hashEntry, hashBody, E.kind, chainSem, hashKind, hashSeed, ← C18_gen_hashCombine]
  | str s =>
    simp only [hashX, hashStep, hashEntry, hashBody, E.kind, hashKind, hashSeed, hashCombine_eq]
    exact tie_hash_str P s _

/-- members of the handle classes (include/mp/expr.h) that the loop-carrying handlers call -/
theorem C18_gen_helper_CallExpr_function : helperShape_CallExpr_function = Frozen.helperShape_CallExpr_function := rfl
theorem C18_gen_helper_CallExpr_num_args : helperShape_CallExpr_num_args = Frozen.helperShape_CallExpr_num_args := rfl
theorem C18_gen_helper_Function_eq : helperShape_Function_eq = Frozen.helperShape_Function_eq := rfl
theorem C18_gen_helper_Function_name : helperShape_Function_name = Frozen.helperShape_Function_name := rfl
theorem C18_gen_helper_Function_ne : helperShape_Function_ne = Frozen.helperShape_Function_ne := rfl
theorem C18_gen_helper_PLTerm_arg : helperShape_PLTerm_arg = Frozen.helperShape_PLTerm_arg := rfl
theorem C18_gen_helper_PLTerm_num_breakpoints : helperShape_PLTerm_num_breakpoints = Frozen.helperShape_PLTerm_num_breakpoints := rfl
theorem C18_gen_helper_StringLiteral_value : helperShape_StringLiteral_value = Frozen.helperShape_StringLiteral_value := rfl

/-- tripwire: the `std::hash<T>` the hasher reaches (hypothesis `hc` of `C18_hash_congr` is about `std::hash<double>`,
the function `Prim.dbl` fields go through; `P.hDbl` in `hashStep`) -/
theorem C18_gen_hashCombine_instances :
    hashCombineInstances = ["bool", "char", "char *const", "double", "int", "mp::Expr"] := rfl

/-! ### memory layout (round 7): what the accessors read is what the factory wrote

Generated from `PLTerm::slope/breakpoint`, `PLTermBuilder::AddSlope/AddBreakpoint`, `BeginPLTerm`, the `Impl`
field declarations, `MakeStringLiteral` and `BasicExprFactory::Copy` (include/mp/expr.h).  `GenSem`'s `dAt`
(`slope(i)` = i-th slope given to the builder) and `strOf` (`value()` = the bytes up to the first NUL of what was
passed to `MakeStringLiteral`) rest on these facts. -/

/-- `slope(k)` / `breakpoint(k)` read the cell the k-th `AddSlope` / `AddBreakpoint` wrote, for every k. -/
theorem C18_gen_pl_read_is_write (k : Nat) :
    plSlopeRead k = plSlopeWrite k ∧ plBreakpointRead k = plBreakpointWrite k := by
  simp only [plSlopeRead, plSlopeWrite, plBreakpointRead, plBreakpointWrite, and_self]

/-- No write clobbers another: slope cells and breakpoint cells are disjoint and each family is injective. -/
theorem C18_gen_pl_writes_disjoint (i j : Nat) :
    plSlopeWrite i ≠ plBreakpointWrite j ∧ (plSlopeWrite i = plSlopeWrite j → i = j) ∧
      (plBreakpointWrite i = plBreakpointWrite j → i = j) := by
  simp only [plSlopeWrite, plBreakpointWrite]
  omega

/-- Every cell read for a term with `n` breakpoints (slopes 0..n, breakpoints 0..n-1) lies inside the
`sizeof(Impl)`-inline array plus the extra bytes `BeginPLTerm(n)` asked for (`sizeof(double)` = 8). -/
theorem C18_gen_pl_in_bounds (n i : Nat) :
    (i ≤ n → 8 * (plSlopeRead i + 1) ≤ 8 * plInlineDoubles + plExtraBytes n) ∧
      (i < n → 8 * (plBreakpointRead i + 1) ≤ 8 * plInlineDoubles + plExtraBytes n) := by
  simp only [plSlopeRead, plBreakpointRead, plInlineDoubles, plExtraBytes]
  omega

/-- … and the allocation is tight: the last slope uses the last cell (nothing is allocated that is never written). -/
theorem C18_gen_pl_allocation_tight (n : Nat) :
    8 * (plSlopeRead n + 1) = 8 * plInlineDoubles + plExtraBytes n := by
  simp only [plSlopeRead, plInlineDoubles, plExtraBytes]
  omega

/-- Whatever the allocator left in the storage, after `Copy` the C string that `StringLiteral::value()` exposes
(bytes up to the first NUL) is the C string of the source: the terminator is always written, also for the empty
string (seeded change C18-6 breaks exactly this). -/
theorem C18_gen_copy_terminated (src buf : List UInt8) (h : src.length < buf.length) :
    cstr (copyRun factoryCopy src buf) = cstr src := by
  simp only [factoryCopy, copyRun, copy_then_nul src buf h, cstr]
  exact takeWhile_append_stop _ src 0 _ (by decide)

/-- The storage `MakeStringLiteral` allocates has room for the bytes and the terminator (hypothesis of
`C18_gen_copy_terminated`). -/
theorem C18_gen_string_capacity (size : Nat) : size < stringInlineBytes + stringExtraBytes size := by
  simp only [stringInlineBytes, stringExtraBytes]
  omega

/-- non-vacuity: an empty and a non-empty source into dirty storage -/
example : cstr (copyRun factoryCopy [] [0x41, 0x42]) = [] ∧
    cstr (copyRun factoryCopy [0x61, 0x62] [0x58, 0x58, 0x58, 0x58]) = [0x61, 0x62] := by decide

/-! ### argument arrays of calls and iterated expressions (round 8)

Generated from `CallExpr::arg/begin/end`, `BasicIteratedExpr::begin/end` (every instantiation), `ExprIterator::operator*`/`++`,
`BasicIteratedExprBuilder::AddArg`, `BeginIterated<ExprType>`, `BeginCall` and the `Impl::args` declarations.  `GenSem`'s `argAt`
(`arg(i)` / the i-th iterator position = i-th argument given to the builder) and the translator's reading of the iterator loops as
index loops over `0 … num_args()-1` rest on these facts. -/

/-- `CallExpr::arg(k)` reads the cell the k-th `AddArg` wrote, for every k. -/
theorem C18_gen_args_read_is_write (k : Nat) : callArgRead k = argWrite k := by
  simp only [callArgRead, argWrite]

/-- Iteration: after k increments an iterator obtained from `begin()` dereferences the cell the k-th `AddArg` wrote, and it
compares equal to `end()` after exactly `num_args()` increments — for calls and for every iterated expression. -/
theorem C18_gen_args_iteration (n k : Nat) :
    callBeginOffset + k * iterStep + iterDerefOffset = argWrite k ∧
      iterBeginOffset + k * iterStep + iterDerefOffset = argWrite k ∧
      (callBeginOffset + k * iterStep = callEndOffset n ↔ k = n) ∧
      (iterBeginOffset + k * iterStep = iterEndOffset n ↔ k = n) := by
  simp only [callBeginOffset, iterBeginOffset, iterStep, iterDerefOffset, argWrite, callEndOffset, iterEndOffset]
  omega

/-- Every argument cell of an expression with `n` arguments lies inside the inline array plus the (possibly negative) extra
bytes `BeginIterated(kind, n)` asks for (a pointer has 8 bytes). -/
theorem C18_gen_args_in_bounds (n k : Nat) (hk : k < n) :
    (8 : Int) * ((argWrite k : Nat) + 1) ≤ 8 * (argsInline : Nat) + argsExtraBytes n := by
  simp only [argWrite, argsInline, argsExtraBytes]
  omega

/-- … and the allocation is tight, also for `n = 0` (the inline cell is given back). -/
theorem C18_gen_args_allocation_tight (n : Nat) :
    (8 : Int) * (argsInline : Nat) + argsExtraBytes n = 8 * n := by
  simp only [argsInline, argsExtraBytes]
  omega

/-- non-vacuity: the last of three arguments, and the empty argument list (negative extra bytes) -/
example : (8 : Int) * ((argWrite 2 : Nat) + 1) = 8 * (argsInline : Nat) + argsExtraBytes 3 ∧
    (8 : Int) * (argsInline : Nat) + argsExtraBytes 0 = 0 := by decide

/-- The recursion equations of the translated comparator have exactly one solution. -/
theorem C18_gen_equal_unique (f : E C → E C → R)
    (hf : ∀ a b, f a b = equalStep N equalEntry cmpBody f a b) (a b : E C) : f a b = equalX N a b := by
  suffices H : ∀ n (a : E C), sizeOf a ≤ n → ∀ b, f a b = equalX N a b from H _ a (Nat.le_refl _) b
  intro n
  induction n with
  | zero =>
    intro a ha
    cases a <;> simp at ha
  | succ n ih =>
    intro a ha b
    rw [hf a b, C18_gen_equal_step N a b]
    apply equalStep_congr
    intro x hx y
    exact ih x (by have := isPart_lt a x hx; omega) y

/-- … and so have those of the translated hasher. -/
theorem C18_gen_hash_unique (f : E C → Option UInt64)
    (hf : ∀ a, f a = hashStep P hashEntry hashBody hashCombine hashSeed f a) (a : E C) : f a = hashX P a := by
  suffices H : ∀ n (a : E C), sizeOf a ≤ n → f a = hashX P a from H _ a (Nat.le_refl _)
  intro n
  induction n with
  | zero =>
    intro a ha
    cases a <;> simp at ha
  | succ n ih =>
    intro a ha
    rw [hf a, C18_gen_hash_step P a]
    apply hashStep_congr
    intro x hx
    exact ih x (by have := isPart_lt a x hx; omega)

end gen

/-! ## Counterexamples (replayed against the real code by the check) -/

/-- the quiet NaN 0x7ff8000000000000 -/
def qnan : UInt64 := 0x7ff8000000000000

theorem C18_counterexample_refl_nan : equalX ieee (.num qnan) (.num qnan) = .ff := by decide

theorem C18_counterexample_refl_nan_pl :
    equalX ieee (.pl [(1, qnan)] 2 (.ref .var 0)) (.pl [(1, qnan)] 2 (.ref .var 0)) = .ff := by decide

theorem C18_counterexample_symbolic_numberof (as : List (E C)) :
    equalX N (.iter .numberOfSym as) (.iter .numberOfSym as) = .unsup ∧
    hashX P (.iter .numberOfSym as) = none := by
  simp [equalX, hashX, IterK.unsupported]

theorem C18_counterexample_symbolic_if (c t e : E C) :
    equalX N (.ite .ifSym c t e) (.ite .ifSym c t e) = .unsup ∧
    hashX P (.ite .ifSym c t e) = none := by
  simp [equalX, hashX]

/-- a string literal on its own: `Equal` throws although the hasher handles it -/
theorem C18_counterexample_string_toplevel (s : List UInt8) :
    equalX N (.str s) (.str s) = .unsup ∧ (hashX P (.str s)).isSome = true := by
  simp [equalX, hashX]

/-- a call whose argument is a symbolic `if` (the NL reader builds these): reported as unsupported -/
theorem C18_counterexample_call_arg_symbolic_if (f : Nat) (c t e : E C) :
    equalX N (.call f [.ite .ifSym c t e]) (.call f [.ite .ifSym c t e]) = .unsup := by
  simp [equalX, equalArgs, E.kind, Kind.isNumeric, R.and]

/-! ## Non-vacuity -/

/-- primitive hashers meeting hypothesis `hc` of `C18_hash_congr` without being constant: ±0 ↦ 0, every
other bit pattern to itself (what libstdc++'s `std::hash<double>` does up to a bijection) -/
def samplePrims : Prims UInt64 where
  hKind _ := 7
  hDbl v := if dblIsZero v then 0 else v
  hInt i := i.toNat.toUInt64
  hBool b := if b then 1 else 0
  hChar c := c.toUInt64
  hFun f := f.toUInt64

theorem samplePrims_hc : ∀ x y, ieee.feq x y = true → samplePrims.hDbl x = samplePrims.hDbl y := by
  intro x y h
  simp only [ieee, dblEq, Bool.and_eq_true, Bool.or_eq_true, Bool.not_eq_true', beq_iff_eq] at h
  simp only [samplePrims]
  cases h.2 with
  | inl e => rw [e]
  | inr z => simp [z.1, z.2]

/-- `C18_hash_congr` applied to a pair that is equal without being identical (−0.0 vs +0.0 inside a tree) -/
example :
    hashX samplePrims (.bin .add (.num 0x8000000000000000) (.ref .var 1)) =
      hashX samplePrims (.bin .add (.num 0) (.ref .var 1)) :=
  (C18_hash_congr ieee samplePrims samplePrims_hc _ _ (by decide)).1
/-- `samplePrims` separates trees that are not equal (the hypothesis is not met by collapsing everything) -/
example : hashX samplePrims (.num 0x3ff0000000000000) ≠ hashX samplePrims (.num 0x4000000000000000) := by decide
/-- `C18_trans` on a chain of three pairwise different descriptions -/
example : equalX ieee (.un .abs (.num 0)) (.un .abs (.num 0x8000000000000000)) = .tt ∧
    equalX ieee (.un .abs (.num 0x8000000000000000)) (.un .abs (.num 0)) = .tt := by decide
/-- `C18_iff_structural_partial`, both directions on concrete trees: a `Sim` derivation gives `tt` … -/
example : equalX ieee (.iter .sum [.num 0, .ref .var 2]) (.iter .sum [.num 0x8000000000000000, .ref .var 2]) = .tt :=
  (C18_iff_structural_partial ieee _ _ (.inl (by decide))).mpr
    (.iter (.cons (.num (by decide)) (.cons .ref .nil)))
/-- … and `tt` gives a `Sim` derivation; a non-identical pair gives `ff` -/
example : Sim ieee (.call 2 [.str [97]]) (.call 2 [.str [97, 0, 98]]) :=
  (C18_iff_structural_partial ieee _ _ (.inl (by decide))).mp (by decide)
example : equalX ieee (.call 2 [.str [97]]) (.call 1 [.str [97]]) = .ff := by decide
/-- `C18_refl_nan_is_false_partial`: hypotheses met by a supported tree with a NaN below the root -/
example : equalX ieee (.bin .mul (.ref .var 0) (.num qnan)) (.bin .mul (.ref .var 0) (.num qnan)) = .ff :=
  C18_refl_nan_is_false_partial ieee _ (by decide) (by decide)
/-- `C18_total_partial` with only the *right* operand supported, `C18_kind_first` on same-layout kinds -/
example : equalX ieee (.iter .numberOfSym [.str [97]]) (.iter .numberOf [.num 0]) = .ff := by decide
example : equalX ieee (.un .sin (.ref .var 0)) (.un .cos (.ref .var 0)) = .ff :=
  C18_kind_first ieee _ _ (by decide)

/-- a tree using every supported layout, NaN-free -/
def sample : E UInt64 :=
  .iter .sum [
    .bin .add (.un .sin (.ref .var 3)) (.num 0x3ff0000000000000),
    .ite .ifNum (.bin .lt (.ref .common 1) (.num 0)) (.pl [(0x3ff0000000000000, 0)] 0x4000000000000000 (.ref .var 0))
      (.call 2 [.str [97, 98], .num 0x8000000000000000, .iter .count [.bool true, .un .not (.bool false)]]),
    .iter .numberOf [.num 0, .ref .var 1]]

example : okC sample = true ∧ noNaN ieee sample = true := by decide
example : equalX ieee sample sample = .tt := C18_refl_partial ieee sample (by decide) (by decide)
/-- `-0.0 == 0.0`: equal trees with different bit patterns -/
example : equalX ieee (.num 0x8000000000000000) (.num 0) = .tt := by decide
/-- single-point mutants compare unequal -/
example : equalX ieee (.bin .add (.ref .var 0) (.ref .var 1)) (.bin .add (.ref .var 1) (.ref .var 0)) = .ff := by decide
example : equalX ieee (.iter .min [.ref .var 0]) (.iter .min [.ref .var 0, .ref .var 0]) = .ff := by decide
example : equalX ieee (.call 0 [.str [97]]) (.call 0 [.str [98]]) = .ff := by decide
example : equalX ieee (.call 0 [.str [97, 0, 98]]) (.call 0 [.str [97, 0, 99]]) = .tt := by decide
/-- `!alldiff` and logical call arguments are compared like everything else -/
example : equalX ieee (.iter .notAllDiff [.ref .var 0, .ref .var 1]) (.iter .notAllDiff [.ref .var 0, .ref .var 1]) = .tt := by decide
example : equalX ieee (.call 1 [.bool true]) (.call 1 [.bool true]) = .tt ∧
    equalX ieee (.call 1 [.bool true]) (.call 1 [.bool false]) = .ff := by decide

end MpVerif.C18

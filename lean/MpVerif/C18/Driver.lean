import MpVerif.C18.Parse
import MpVerif.C18.Trace
import Std.Data.HashMap
/-! Line driver for C18.  One line in, one line out; the part of a line after ` => ` (the
implementation's answer) is ignored.

```
K <KINDNAME> <code> <hash:hex>     std::hash<int>(kind)            -> ok
D <bits:hex> <hash:hex>            std::hash<double>               -> ok
I <int> <hash:hex>                 std::hash<int>                  -> ok
B <0|1> <hash:hex>                 std::hash<bool>                 -> ok
C <byte> <hash:hex>                std::hash<char>                 -> ok
F <fid> <hash:hex>                 std::hash<const char*>(name())  -> ok   (replaces earlier value)
P E | E | E                        -> 9 outcomes of Equal(Ti,Tj) row by row (1 0 U X), 3 hashes (hex | U)
```
Contains no model logic: parsing, table lookups, calls of `equalX` / `hashX`. -/
open MpVerif.C18

structure Tables where
  kind : Std.HashMap String UInt64 := {}
  dbl : Std.HashMap UInt64 UInt64 := {}
  int : Std.HashMap Int UInt64 := {}
  bool : Std.HashMap Bool UInt64 := {}
  char : Std.HashMap UInt8 UInt64 := {}
  func : Std.HashMap Nat UInt64 := {}

def Tables.prims (t : Tables) : Prims UInt64 where
  hKind k := t.kind.getD k.name 0
  hDbl v := t.dbl.getD v 0
  hInt i := t.int.getD i 0
  hBool b := t.bool.getD b 0
  hChar c := t.char.getD c 0
  hFun f := t.func.getD f 0

def Tables.has (t : Tables) : Key → Bool
  | .kind k => t.kind.contains k.name
  | .dbl v => t.dbl.contains v
  | .int i => t.int.contains i
  | .bool b => t.bool.contains b
  | .char c => t.char.contains c
  | .func f => t.func.contains f

def splitBar (toks : List String) : List (List String) :=
  let rec go (cur : List String) (acc : List (List String)) : List String → List (List String)
    | [] => (cur.reverse :: acc).reverse
    | "|" :: r => go [] (cur.reverse :: acc) r
    | t :: r => go (t :: cur) acc r
  go [] [] toks

def parseAll (groups : List (List String)) : Option (List T) :=
  groups.mapM (fun g => match parseE (g.length + 1) g with
    | some (e, []) => some e
    | _ => none)

def hashStr : Option UInt64 → String
  | none => "U"
  | some h => toHex h

def doP (t : Tables) (toks : List String) : String :=
  match parseAll (splitBar toks) with
  | none => "bad-op"
  | some ts =>
    if ts.isEmpty || !(ts.all (fun e => (keys e).all t.has)) then "bad-op" else
    let P := t.prims
    let eqs := ts.flatMap (fun a => ts.map (fun b => (equalX ieee a b).toStr))
    let hs := ts.map (fun a => hashStr (hashX P a))
    " ".intercalate (eqs ++ hs)

/-- `--arms`: labels of the model arms taken on this line (for the coverage note), or `bad-trace` if an
instrumented copy disagrees with the model function -/
def doArms (t : Tables) (toks : List String) : String :=
  match parseAll (splitBar toks) with
  | none => "bad-op"
  | some ts =>
    if ts.isEmpty || !(ts.all (fun e => (keys e).all t.has)) then "bad-op" else
    let P := t.prims
    let eq := ts.flatMap (fun a => ts.map (fun b => (equalT ieee a b, equalX ieee a b)))
    let hs := ts.map (fun a => (hashT P a, hashX P a))
    if eq.any (fun p => p.1.1 != p.2) || hs.any (fun p => p.1.1 != p.2) then "bad-trace" else
    let labels := (eq.flatMap (fun p => p.1.2) ++ hs.flatMap (fun p => p.1.2)).eraseDups
    " ".intercalate (labels.map (fun l => l.replace " " "_"))

def step (t : Tables) (line : String) : Tables × String :=
  let toks := (line.trimAscii.toString.splitOn " ").takeWhile (· != "=>")
  match toks with
  | ["K", name, _, h] =>
    match Kind.table.lookup name, hexU64 h with
    | some _, some h => ({ t with kind := t.kind.insert name h }, "ok")
    | _, _ => (t, "bad-op")
  | ["D", b, h] =>
    match hexU64 b, hexU64 h with
    | some b, some h => ({ t with dbl := t.dbl.insert b h }, "ok")
    | _, _ => (t, "bad-op")
  | ["I", i, h] =>
    match i.toInt?, hexU64 h with
    | some i, some h => ({ t with int := t.int.insert i h }, "ok")
    | _, _ => (t, "bad-op")
  | ["B", b, h] =>
    match b, hexU64 h with
    | "0", some h => ({ t with bool := t.bool.insert false h }, "ok")
    | "1", some h => ({ t with bool := t.bool.insert true h }, "ok")
    | _, _ => (t, "bad-op")
  | ["C", c, h] =>
    match c.toNat?, hexU64 h with
    | some c, some h => if c < 256 then ({ t with char := t.char.insert c.toUInt8 h }, "ok") else (t, "bad-op")
    | _, _ => (t, "bad-op")
  | ["F", f, h] =>
    match f.toNat?, hexU64 h with
    | some f, some h => ({ t with func := t.func.insert f h }, "ok")
    | _, _ => (t, "bad-op")
  | "P" :: rest => (t, doP t rest)
  | _ => (t, "bad-op")

partial def loop (arms : Bool) (h : IO.FS.Stream) (out : IO.FS.Stream) (t : Tables) : IO Unit := do
  let line ← h.getLine
  if line.isEmpty then return ()
  let (t', s) := step t line
  if arms then
    match (line.trimAscii.toString.splitOn " ").takeWhile (· != "=>") with
    | "P" :: rest => out.putStrLn (doArms t' rest)
    | _ => out.putStrLn s
  else out.putStrLn s
  loop arms h out t'

def main (args : List String) : IO Unit := do
  let out ← IO.getStdout
  loop (args.contains "--arms") (← IO.getStdin) out {}

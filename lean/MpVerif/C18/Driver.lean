/-! Line driver for C18 (stub; replaced when the model is written). -/
def main : IO Unit := pure ()

import MpVerif.C18.GenSem
import MpVerif.Gen.C18
import MpVerif.C18.Frozen
namespace MpVerif.C18
open MpVerif.Gen.C18
variable {C : Type} (N : NumOps C) (P : Prims C)

/-! helper lemmas for the translator tie (`C18_gen_*` in Props.lean) -/
theorem gen_equal_step_diag_un (k k' : UnK) (a b : E C) :
    equalX N (.un k a) (.un k' b) = equalStep N equalEntry cmpBody (equalX N) (.un k a) (.un k' b) := by
  by_cases h : k = k'
  · subst h
    cases k <;> simp [equalX, equalStep, equalEntry, visitCmp, E.kind, cmpBody, conjSem, atomSem, child]
  · simp [equalX, equalStep, equalEntry, E.kind, h]

theorem gen_equal_step_diag_bin (k k' : BinK) (l r l' r' : E C) :
    equalX N (.bin k l r) (.bin k' l' r') = equalStep N equalEntry cmpBody (equalX N) (.bin k l r) (.bin k' l' r') := by
  by_cases h : k = k'
  · subst h
    cases k <;> simp [equalX, equalStep, equalEntry, visitCmp, E.kind, cmpBody, conjSem, atomSem, child]
  · simp [equalX, equalStep, equalEntry, E.kind, h]

end MpVerif.C18

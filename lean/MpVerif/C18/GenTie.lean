import MpVerif.C18.GenSem
import MpVerif.Gen.C18
import MpVerif.C18.Frozen
import MpVerif.C18.Lemmas
namespace MpVerif.C18
open MpVerif.Gen.C18
variable {C : Type} (N : NumOps C) (P : Prims C)

/-! helper lemmas for the translator tie (`C18_gen_*` in Props.lean) -/
theorem gen_equal_step_diag_un (k k' : UnK) (a b : E C) :
    equalX N (.un k a) (.un k' b) = equalStep N equalEntry cmpBody (equalX N) (.un k a) (.un k' b) := by
  by_cases h : k = k'
  · subst h
    cases k <;> simp [equalX, equalStep, equalEntry, visitCmp, E.kind, cmpBody, conjSem, atomSem, child]
  · simp [equalX, equalStep, equalEntry, E.kind, h]

theorem gen_equal_step_diag_bin (k k' : BinK) (l r l' r' : E C) :
    equalX N (.bin k l r) (.bin k' l' r') = equalStep N equalEntry cmpBody (equalX N) (.bin k l r) (.bin k' l' r') := by
  by_cases h : k = k'
  · subst h
    cases k <;> simp [equalX, equalStep, equalEntry, visitCmp, E.kind, cmpBody, conjSem, atomSem, child]
  · simp [equalX, equalStep, equalEntry, E.kind, h]

/-! ## loop-carrying handlers: list recursion of the hand model = index loops of the translated code -/


@[simp] theorem R.not_not (r : R) : r.not.not = r := by cases r <;> rfl
@[simp] theorem R.and_tt_right (r : R) : r.and .tt = r := by cases r <;> rfl
@[simp] theorem R.ff_or (r : R) : R.ff.or r = r := rfl
@[simp] theorem R.tt_or (r : R) : R.tt.or r = .tt := rfl
@[simp] theorem R.ff_and (r : R) : R.ff.and r = .ff := rfl
@[simp] theorem R.not_ofBool (b : Bool) : (R.ofBool b).not = R.ofBool (!b) := by cases b <;> rfl
@[simp] theorem R.ofBool_true : R.ofBool true = .tt := rfl
@[simp] theorem R.ofBool_false : R.ofBool false = .ff := rfl
theorem R.and_assoc (x y z : R) : (x.and y).and z = x.and (y.and z) := by cases x <;> rfl

@[simp] theorem opt2_some {α β : Type} (g : α → β → R) (x : α) (y : β) : opt2 g (some x) (some y) = g x y := rfl

/-- element-wise short-circuit conjunction over two lists of the same length -/
def andAll {α β : Type} (g : α → β → R) : List α → List β → R
  | a :: as, b :: bs => (g a b).and (andAll g as bs)
  | _, _ => .tt

theorem andRange_zip {α β : Type} (g : α → β → R) :
    ∀ (as : List α) (bs : List β) (f : Nat → R), as.length = bs.length →
      (∀ k, k < as.length → f k = opt2 g as[k]? bs[k]?) →
      andRange as.length f = andAll g as bs
  | [], [], _, _, _ => rfl
  | [], _ :: _, _, h, _ => by simp at h
  | _ :: _, [], _, h, _ => by simp at h
  | a :: as, b :: bs, f, h, hf => by
    have h0 := hf 0 (by simp)
    simp only [List.getElem?_cons_zero, opt2_some] at h0
    simp only [List.length_cons, andRange, andAll, h0]
    congr 1
    apply andRange_zip g as bs (fun k => f (k + 1)) (by simpa using h)
    intro k hk
    have := hf (k + 1) (by simpa using hk)
    simpa only [List.getElem?_cons_succ] using this

/-! ### comparator: PL term -/

theorem andAll_pl : ∀ (ps qs : List (C × C)), ps.length = qs.length →
    andAll (fun p q => R.ofBool (N.feq p.1 q.1 && N.feq p.2 q.2)) ps qs = R.ofBool (plPairs N ps qs)
  | [], [], _ => rfl
  | [], _ :: _, h => by simp at h
  | _ :: _, [], h => by simp at h
  | p :: ps, q :: qs, h => by
    simp only [andAll, plPairs, andAll_pl ps qs (by simpa using h)]
    cases N.feq p.1 q.1 <;> cases N.feq p.2 q.2 <;> cases plPairs N ps qs <;> rfl

theorem dAt_slope_lt (sb : List (C × C)) (last : C) (arg : E C) (k : Nat) (hk : k < sb.length) :
    dAt .slope (.pl sb last arg) k = some sb[k].1 := by simp [dAt, hk]

theorem dAt_breakpoint_lt (sb : List (C × C)) (last : C) (arg : E C) (k : Nat) (hk : k < sb.length) :
    dAt .breakpoint (.pl sb last arg) k = some sb[k].2 := by simp [dAt, hk]

theorem dAt_slope_last (sb : List (C × C)) (last : C) (arg : E C) :
    dAt .slope (.pl sb last arg) sb.length = some last := by simp [dAt]

theorem tie_cmp_pl_loop (rec : E C → E C → R) (sb sb' : List (C × C)) (last last' : C) (arg arg' : E C)
    (hl : sb.length = sb'.length) :
    andRange sb.length (fun k => semL N rec (.pl sb last arg) (.pl sb' last' arg')
      [.failIf (.or (.neD .slope .idx) (.neD .breakpoint .idx))] k) = R.ofBool (plPairs N sb sb') := by
  rw [← andAll_pl N sb sb' hl]
  apply andRange_zip _ sb sb' _ hl
  intro k hk
  have hk' : k < sb'.length := hl ▸ hk
  simp only [semL, semS, evalB, evalI, dAt_slope_lt sb last arg k hk, dAt_slope_lt sb' last' arg' k hk',
    dAt_breakpoint_lt sb last arg k hk, dAt_breakpoint_lt sb' last' arg' k hk', opt2_some,
    List.getElem?_eq_getElem hk, List.getElem?_eq_getElem hk', R.and_tt_right]
  cases N.feq sb[k].1 sb'[k].1 <;> cases N.feq sb[k].2 sb'[k].2 <;> rfl

theorem tie_cmp_pl (rec : E C → E C → R) (sb sb' : List (C × C)) (last last' : C) (arg arg' : E C) :
    (if sb.length ≠ sb'.length then R.ff
     else if plPairs N sb sb' = false then R.ff
     else (R.ofBool (N.feq last last')).and (rec arg arg')) =
    semL N rec (.pl sb last arg) (.pl sb' last' arg')
      [.failIf .neCount,
       .forRange .selfN [.failIf (.or (.neD .slope .idx) (.neD .breakpoint .idx))],
       .ret (.and (.eqD .slope .selfN) (.equalChild .arg))] 0 := by
  by_cases hl : sb.length = sb'.length
  · have e : semL N rec (.pl sb last arg) (.pl sb' last' arg')
        [.failIf .neCount,
         .forRange .selfN [.failIf (.or (.neD .slope .idx) (.neD .breakpoint .idx))],
         .ret (.and (.eqD .slope .selfN) (.equalChild .arg))] 0 =
        ((R.ofBool (sb.length != sb'.length)).not).and
          ((andRange sb.length (fun k => semL N rec (.pl sb last arg) (.pl sb' last' arg')
              [.failIf (.or (.neD .slope .idx) (.neD .breakpoint .idx))] k)).and
           (((opt2 (fun x y => R.ofBool (N.feq x y)) (dAt .slope (.pl sb last arg) sb.length)
                (dAt .slope (E.pl sb' last' arg') sb.length)).and (opt2 rec (some arg) (some arg'))).and .tt)) := rfl
    rw [e, tie_cmp_pl_loop N rec sb sb' last last' arg arg' hl, dAt_slope_last, hl, dAt_slope_last]
    have hb : (sb'.length != sb'.length) = false := by simp
    simp only [hb, ne_eq, not_true_eq_false, if_false, opt2_some, R.and_tt_right, R.ofBool_false, R.not, R.tt_and]
    cases plPairs N sb sb' <;> simp
  · have hb : (sb.length != sb'.length) = true := by simpa [bne_iff_ne] using hl
    have e : semL N rec (.pl sb last arg) (.pl sb' last' arg')
        [.failIf .neCount,
         .forRange .selfN [.failIf (.or (.neD .slope .idx) (.neD .breakpoint .idx))],
         .ret (.and (.eqD .slope .selfN) (.equalChild .arg))] 0 =
        ((R.ofBool (sb.length != sb'.length)).not).and
          (semL N rec (.pl sb last arg) (.pl sb' last' arg')
            [.forRange .selfN [.failIf (.or (.neD .slope .idx) (.neD .breakpoint .idx))],
             .ret (.and (.eqD .slope .selfN) (.equalChild .arg))] 0) := rfl
    rw [e, hb]
    simp [hl, R.not]

/-! ### comparator: iterated expressions -/

theorem tie_cmp_vararg_aux :
    ∀ (as bs : List (E C)) (f : Nat → R),
      (∀ k, k < as.length → f k =
        ((R.ofBool (decide (bs.length ≤ k))).or ((opt2 (equalX N) as[k]? bs[k]?).not)).not) →
      (andRange as.length f).and (R.ofBool (bs.length == as.length)) = equalList N as bs
  | [], [], _, _ => rfl
  | [], _ :: _, _, _ => by simp [andRange, equalList]
  | a :: as, [], f, hf => by
    have h0 := hf 0 (by simp)
    simp only [List.length_nil, Nat.le_refl, decide_true, R.ofBool_true, R.tt_or, R.not] at h0
    simp [andRange, equalList, h0]
  | a :: as, b :: bs, f, hf => by
    have h0 := hf 0 (by simp)
    simp only [List.getElem?_cons_zero, List.length_cons, Nat.le_zero_eq, Nat.add_one_ne_zero, decide_false,
      R.ofBool_false, R.ff_or, R.not_not, opt2_some] at h0
    simp only [List.length_cons, andRange, equalList, h0, R.and_assoc]
    congr 1
    have := tie_cmp_vararg_aux as bs (fun k => f (k + 1)) (by
      intro k hk
      have := hf (k + 1) (by simpa using hk)
      simpa only [List.getElem?_cons_succ, List.length_cons, Nat.add_le_add_iff_right] using this)
    simpa using this

theorem tie_cmp_vararg (k : IterK) (as bs : List (E C)) :
    equalList N as bs =
    semL N (equalX N) (.iter k as) (.iter k bs)
      [.forRange .selfN [.failIf (.or (.otherExhausted .idx) (.not (.equalArg .idx)))],
       .ret (.otherCountIs .selfN)] 0 := by
  have e : semL N (equalX N) (.iter k as) (.iter k bs)
      [.forRange .selfN [.failIf (.or (.otherExhausted .idx) (.not (.equalArg .idx)))],
       .ret (.otherCountIs .selfN)] 0 =
      (andRange as.length (fun i => semL N (equalX N) (.iter k as) (.iter k bs)
        [.failIf (.or (.otherExhausted .idx) (.not (.equalArg .idx)))] i)).and
        ((R.ofBool (bs.length == as.length)).and .tt) := rfl
  rw [e, R.and_tt_right]
  exact (tie_cmp_vararg_aux N as bs _ (fun i _ => by
    simp only [semL, semS, evalB, evalI, selfCount, argAt, R.and_tt_right]
    rfl)).symm

/-! ### comparator: calls -/

/-- one argument of `VisitCall` as the hand model writes it -/
def argR (a b : E C) : R :=
  if a.kind ≠ b.kind then R.ff
  else if a.kind.isNumeric then equalX N a b
  else match a, b with
    | .str s, .str s' => R.ofBool (cstr s == cstr s')
    | _, _ => equalX N a b

theorem equalArgs_andAll : ∀ (as bs : List (E C)), as.length = bs.length →
    equalArgs N as bs = andAll (argR N) as bs
  | [], [], _ => by simp [equalArgs, andAll]
  | [], _ :: _, h => by simp at h
  | _ :: _, [], h => by simp at h
  | a :: as, b :: bs, h => by
    simp only [equalArgs, andAll, equalArgs_andAll as bs (by simpa using h)]
    unfold argR
    cases a <;> cases b <;> rfl

/-- the body of the loop of `VisitCall` for one pair of arguments -/
def callBody : List CStmt :=
  [.failIf (.neKindArg .idx),
   .ite (.isNumericArg .idx) [.failIf (.not (.equalArg .idx))]
     [.ite (.isStringArg .idx) [.failIf (.strcmpNeArg .idx)] [.failIf (.not (.equalArg .idx))]]]

theorem tie_cmp_call_elem (f g : Nat) (as bs : List (E C)) (k : Nat) (hk : k < as.length) (hk' : k < bs.length) :
    semL N (equalX N) (.call f as) (.call g bs) callBody k = argR N as[k] bs[k] := by
  simp only [callBody, semL, semS, evalB, evalG, evalI, argAt, List.getElem?_eq_getElem hk,
    List.getElem?_eq_getElem hk', opt2_some, R.and_tt_right, R.not_not, R.not_ofBool]
  generalize as[k] = a
  generalize bs[k] = b
  unfold argR
  by_cases hkd : a.kind = b.kind
  · simp only [hkd, ne_eq, not_true_eq_false, decide_false, Bool.not_false, R.ofBool_true, R.tt_and, if_false]
    by_cases hn : b.kind.isNumeric
    · simp [hn]
    · simp only [hn, Bool.false_eq_true, if_false]
      cases a <;> cases b <;> simp_all [E.kind, Kind.isNumeric, strcmpNe]
      rename_i s s'
      simp only [bne, Bool.not_not]
  · simp [hkd]

theorem tie_cmp_call (f g : Nat) (as bs : List (E C)) :
    (if f ≠ g ∨ as.length ≠ bs.length then R.ff else equalArgs N as bs) =
    semL N (equalX N) (.call f as) (.call g bs)
      [.failIf (.or .neFunc .neCount), .forRange .selfN callBody, .ret .tru] 0 := by
  have e : semL N (equalX N) (.call f as) (.call g bs)
      [.failIf (.or .neFunc .neCount), .forRange .selfN callBody, .ret .tru] 0 =
      (((R.ofBool (f != g)).or (R.ofBool (as.length != bs.length))).not).and
        ((andRange as.length (fun k => semL N (equalX N) (.call f as) (.call g bs) callBody k)).and (R.tt.and .tt)) := rfl
  rw [e]
  by_cases hf : f = g
  · by_cases hl : as.length = bs.length
    · have hr : andRange as.length (fun k => semL N (equalX N) (.call f as) (.call g bs) callBody k) =
          andAll (argR N) as bs := by
        apply andRange_zip _ as bs _ hl
        intro k hk
        have hk' : k < bs.length := hl ▸ hk
        rw [tie_cmp_call_elem N f g as bs k hk hk', List.getElem?_eq_getElem hk, List.getElem?_eq_getElem hk', opt2_some]
      rw [hr, equalArgs_andAll N as bs hl]
      simp [hf, hl, R.not]
    · have : (as.length != bs.length) = true := by simpa [bne_iff_ne] using hl
      simp [hf, hl, this, R.or, R.not]
  · have : (f != g) = true := by simpa [bne_iff_ne] using hf
    simp [hf, this, R.not]



theorem bind_some_right {α : Type} (x : Option α) : x.bind some = x := by cases x <;> rfl

def foldOpt {α : Type} (g : α → UInt64 → Option UInt64) : List α → UInt64 → Option UInt64
  | [], h => some h
  | x :: xs, h => (g x h).bind (foldOpt g xs)

theorem foldRange_list {α : Type} (g : α → UInt64 → Option UInt64) :
    ∀ (xs : List α) (f : Nat → UInt64 → Option UInt64),
      (∀ k, k < xs.length → ∀ h, f k h = xs[k]?.bind (fun x => g x h)) →
      ∀ h, foldRange xs.length f h = foldOpt g xs h
  | [], _, _, _ => rfl
  | x :: xs, f, hf, h => by
    have h0 := hf 0 (by simp) h
    simp only [List.getElem?_cons_zero, Option.bind_some] at h0
    simp only [List.length_cons, foldRange, foldOpt, h0]
    congr 1
    funext h'
    apply foldRange_list g xs (fun k => f (k + 1))
    intro k hk h''
    have := hf (k + 1) (by simpa using hk) h''
    simpa only [List.getElem?_cons_succ] using this

theorem hashList_foldOpt : ∀ (as : List (E C)) (h : UInt64),
    hashList P h as = foldOpt (fun x h => (hashX P x).map (combine h)) as h
  | [], _ => rfl
  | a :: as, h => by
    simp only [hashList, foldOpt]
    cases hashX P a with
    | none => rfl
    | some ha => simp only [Option.map_some, Option.bind_some]; exact hashList_foldOpt as _

theorem plFold_foldOpt : ∀ (sb : List (C × C)) (h : UInt64),
    some (plFold P h sb) = foldOpt (fun p h => some (combine (combine h (P.hDbl p.1)) (P.hDbl p.2))) sb h
  | [], _ => rfl
  | p :: ps, h => by simp only [plFold, foldOpt, Option.bind_some]; exact plFold_foldOpt ps _

theorem foldl_foldOpt (g : UInt64 → UInt8 → UInt64) : ∀ (cs : List UInt8) (h : UInt64),
    some (cs.foldl g h) = foldOpt (fun c h => some (g h c)) cs h
  | [], _ => rfl
  | c :: cs, h => by simp only [List.foldl_cons, foldOpt, Option.bind_some]; exact foldl_foldOpt g cs _

theorem tie_hash_vararg (k : IterK) (as : List (E C)) (h : UInt64) :
    hashList P h as =
    semHL P combine (hashX P) (.iter k as) [.forRange .selfN [.combine (.argAt .idx)]] 0 h := by
  have e : semHL P combine (hashX P) (.iter k as) [.forRange .selfN [.combine (.argAt .idx)]] 0 h =
      (foldRange as.length (fun i h' => semHL P combine (hashX P) (.iter k as) [.combine (.argAt .idx)] i h') h).bind some := rfl
  rw [e, bind_some_right, hashList_foldOpt]
  symm
  apply foldRange_list
  intro i hi h'
  simp only [semHL, semHS, evalHV, evalI, argAt, List.getElem?_eq_getElem hi, Option.bind_some]
  cases hashX P as[i] <;> rfl

theorem tie_hash_call (f : Nat) (as : List (E C)) (h : UInt64) :
    hashList P (combine h (P.hFun f)) as =
    semHL P combine (hashX P) (.call f as) [.combine .funcName, .forRange .selfN [.combine (.argAt .idx)]] 0 h := by
  have e : semHL P combine (hashX P) (.call f as) [.combine .funcName, .forRange .selfN [.combine (.argAt .idx)]] 0 h =
      (foldRange as.length (fun i h' => semHL P combine (hashX P) (.call f as) [.combine (.argAt .idx)] i h')
        (combine h (P.hFun f))).bind some := rfl
  rw [e, bind_some_right, hashList_foldOpt]
  symm
  apply foldRange_list
  intro i hi h'
  simp only [semHL, semHS, evalHV, evalI, argAt, List.getElem?_eq_getElem hi, Option.bind_some]
  cases hashX P as[i] <;> rfl

theorem tie_hash_str (s : List UInt8) (h : UInt64) :
    some (strFold P h s) =
    semHL P combine (hashX P) (.str s) [.forRange .strlen [.combine (.charAt .idx)]] 0 h := by
  have e : semHL P combine (hashX P) (.str s) [.forRange .strlen [.combine (.charAt .idx)]] 0 h =
      (foldRange (cstr s).length (fun i h' => semHL P combine (hashX P) (.str s) [.combine (.charAt .idx)] i h') h).bind some := rfl
  rw [e, bind_some_right, strFold, foldl_foldOpt]
  symm
  apply foldRange_list
  intro i hi h'
  simp only [semHL, semHS, evalHV, evalI, strOf, List.getElem?_eq_getElem hi, Option.bind_some, Option.map_some]

theorem tie_hash_pl (sb : List (C × C)) (last : C) (arg : E C) (h : UInt64) :
    (match hashX P arg with
     | none => none
     | some ha => some (combine (combine (plFold P h sb) (P.hDbl last)) ha)) =
    semHL P combine (hashX P) (.pl sb last arg)
      [.forRange .selfN [.combine (.dAt .slope .idx), .combine (.dAt .breakpoint .idx)],
       .combine (.dAt .slope .selfN), .combine .childArg] 0 h := by
  have e : semHL P combine (hashX P) (.pl sb last arg)
      [.forRange .selfN [.combine (.dAt .slope .idx), .combine (.dAt .breakpoint .idx)],
       .combine (.dAt .slope .selfN), .combine .childArg] 0 h =
      (foldRange sb.length (fun i h' => semHL P combine (hashX P) (.pl sb last arg)
          [.combine (.dAt .slope .idx), .combine (.dAt .breakpoint .idx)] i h') h).bind
        (fun h1 => (((dAt .slope (.pl sb last arg) sb.length).map P.hDbl).map (combine h1)).bind
          (fun h2 => (((some arg : Option (E C)).bind (hashX P)).map (combine h2)).bind some)) := rfl
  have hr : foldRange sb.length (fun i h' => semHL P combine (hashX P) (.pl sb last arg)
          [.combine (.dAt .slope .idx), .combine (.dAt .breakpoint .idx)] i h') h = some (plFold P h sb) := by
    rw [plFold_foldOpt]
    apply foldRange_list
    intro i hi h'
    have h1 : dAt .slope (.pl sb last arg) i = some sb[i].1 := by simp [dAt, hi]
    have h2 : dAt .breakpoint (.pl sb last arg) i = some sb[i].2 := by simp [dAt, hi]
    simp only [semHL, semHS, evalHV, evalI, h1, h2, List.getElem?_eq_getElem hi, Option.bind_some, Option.map_some]
  have hs : dAt .slope (.pl sb last arg) sb.length = some last := by simp [dAt]
  rw [e, hr, hs]
  simp only [Option.bind_some, Option.map_some]
  cases hashX P arg <;> rfl

/-! ## the recursion equations determine their solution (congruence of the interpreters in `rec`) -/


/-- `x` is what an accessor of `a` returns -/
def IsPart (a x : E C) : Prop := (∃ k, argAt a k = some x) ∨ (∃ fl, child fl a = some x)

theorem opt2_congr {f g : E C → E C → R} (o : Option (E C)) (o' : Option (E C))
    (h : ∀ x, o = some x → ∀ y, f x y = g x y) : opt2 f o o' = opt2 g o o' := by
  cases o with
  | none => rfl
  | some x => cases o' with
    | none => rfl
    | some y => exact h x rfl y

theorem evalB_congr {f g : E C → E C → R} (a b : E C) (h : ∀ x, IsPart a x → ∀ y, f x y = g x y) (i : Nat) :
    ∀ c : BExp, evalB N f a b i c = evalB N g a b i c
  | .tru | .neCount | .neFunc | .neD _ _ | .eqD _ _ | .otherExhausted _ | .otherCountIs _ | .neKindArg _
  | .strcmpNeArg _ => rfl
  | .equalArg ix => by
    simp only [evalB]
    exact opt2_congr _ _ (fun x hx => h x (.inl ⟨_, hx⟩))
  | .equalChild fl => by
    simp only [evalB]
    exact opt2_congr _ _ (fun x hx => h x (.inr ⟨_, hx⟩))
  | .or c d => by simp only [evalB, evalB_congr a b h i c, evalB_congr a b h i d]
  | .and c d => by simp only [evalB, evalB_congr a b h i c, evalB_congr a b h i d]
  | .not c => by simp only [evalB, evalB_congr a b h i c]

theorem andRange_congr : ∀ (n : Nat) (u v : Nat → R), (∀ k, u k = v k) → andRange n u = andRange n v
  | 0, _, _, _ => rfl
  | n + 1, u, v, h => by
    simp only [andRange, h 0]
    congr 1
    exact andRange_congr n _ _ (fun k => h (k + 1))

mutual
theorem semS_congr {f g : E C → E C → R} (a b : E C) (h : ∀ x, IsPart a x → ∀ y, f x y = g x y) :
    ∀ (s : CStmt) (i : Nat), semS N f a b s i = semS N g a b s i
  | .failIf c, i => by simp only [semS, evalB_congr N a b h i c]
  | .ite gd t e, i => by simp only [semS, semL_congr a b h t i, semL_congr a b h e i]
  | .forRange n body, i => by
    simp only [semS]
    exact andRange_congr _ _ _ (fun k => semL_congr a b h body k)
  | .ret c, i => by simp only [semS, evalB_congr N a b h i c]
theorem semL_congr {f g : E C → E C → R} (a b : E C) (h : ∀ x, IsPart a x → ∀ y, f x y = g x y) :
    ∀ (l : List CStmt) (i : Nat), semL N f a b l i = semL N g a b l i
  | [], _ => rfl
  | s :: rest, i => by simp only [semL, semS_congr a b h s i, semL_congr a b h rest i]
end

theorem atomSem_congr {f g : E C → E C → R} (a b : E C) (h : ∀ x, IsPart a x → ∀ y, f x y = g x y) (x : CmpAtom) :
    atomSem N f x a b = atomSem N g x a b := by
  cases x with
  | eqField fl => cases fl <;> cases a <;> cases b <;> rfl
  | equalField fl =>
    simp only [atomSem]
    cases hc : child fl a with
    | none => rfl
    | some x => cases child fl b with
      | none => rfl
      | some y => exact h x (.inr ⟨fl, hc⟩) y

theorem conjSem_congr {f g : E C → E C → R} (a b : E C) (h : ∀ x, IsPart a x → ∀ y, f x y = g x y) :
    ∀ atoms : List CmpAtom, conjSem N f atoms a b = conjSem N g atoms a b
  | [] => rfl
  | [x] => by simp only [conjSem, atomSem_congr N a b h x]
  | x :: y :: rest => by
    simp only [conjSem, atomSem_congr N a b h x, conjSem_congr a b h (y :: rest)]

theorem equalStep_congr {f g : E C → E C → R} (a b : E C) (h : ∀ x, IsPart a x → ∀ y, f x y = g x y) :
    equalStep N equalEntry cmpBody f a b = equalStep N equalEntry cmpBody g a b := by
  simp only [equalStep, equalEntry, visitCmp]
  split
  · rfl
  · cases cmpBody b.kind with
    | conj atoms => exact conjSem_congr N a b h atoms
    | prog p => exact semL_congr N a b h p 0
    | unsupported => rfl


theorem isPart_lt (a x : E C) (h : IsPart a x) : sizeOf x < sizeOf a := by
  cases h with
  | inl h =>
    obtain ⟨k, hk⟩ := h
    cases a <;> simp only [argAt, reduceCtorEq] at hk
    all_goals
      have hm := List.mem_of_getElem? hk
      have := List.sizeOf_lt_of_mem hm
      simp only [E.call.sizeOf_spec, E.iter.sizeOf_spec]
      omega
  | inr h =>
    obtain ⟨fl, hc⟩ := h
    cases fl <;> cases a <;> simp only [child, reduceCtorEq, Option.some.injEq] at hc <;> subst hc <;>
      simp only [E.un.sizeOf_spec, E.bin.sizeOf_spec, E.ite.sizeOf_spec, E.pl.sizeOf_spec] <;> omega




theorem bind_congr_part {f g : E C → Option UInt64} (o : Option (E C)) (h : ∀ x, o = some x → f x = g x) :
    o.bind f = o.bind g := by
  cases o with
  | none => rfl
  | some x => exact h x rfl

theorem evalHV_congr {f g : E C → Option UInt64} (a : E C) (h : ∀ x, IsPart a x → f x = g x) (i : Nat) :
    ∀ v : HVal, evalHV P f a i v = evalHV P g a i v
  | .dAt _ _ | .funcName | .charAt _ => rfl
  | .argAt ix => by
    simp only [evalHV]
    exact bind_congr_part _ (fun x hx => h x (.inl ⟨_, hx⟩))
  | .childArg => by
    simp only [evalHV]
    exact bind_congr_part _ (fun x hx => h x (.inr ⟨_, hx⟩))

theorem foldRange_congr : ∀ (n : Nat) (u v : Nat → UInt64 → Option UInt64), (∀ k h, u k h = v k h) →
    ∀ h, foldRange n u h = foldRange n v h
  | 0, _, _, _, _ => rfl
  | n + 1, u, v, hu, h => by
    simp only [foldRange, hu 0 h]
    congr 1
    funext h'
    exact foldRange_congr n _ _ (fun k => hu (k + 1)) h'

mutual
theorem semHS_congr {f g : E C → Option UInt64} (comb : UInt64 → UInt64 → UInt64) (a : E C)
    (h : ∀ x, IsPart a x → f x = g x) :
    ∀ (s : HStmt) (i : Nat) (hh : UInt64), semHS P comb f a s i hh = semHS P comb g a s i hh
  | .combine v, i, hh => by simp only [semHS, evalHV_congr P a h i v]
  | .forRange n body, i, hh => by
    simp only [semHS]
    exact foldRange_congr _ _ _ (fun k h' => semHL_congr comb a h body k h') hh
theorem semHL_congr {f g : E C → Option UInt64} (comb : UInt64 → UInt64 → UInt64) (a : E C)
    (h : ∀ x, IsPart a x → f x = g x) :
    ∀ (l : List HStmt) (i : Nat) (hh : UInt64), semHL P comb f a l i hh = semHL P comb g a l i hh
  | [], _, _ => rfl
  | s :: rest, i, hh => by
    simp only [semHL, semHS_congr comb a h s i hh]
    congr 1
    funext h'
    exact semHL_congr comb a h rest i h'
end

theorem chainSem_congr {f g : E C → Option UInt64} (comb : UInt64 → UInt64 → UInt64) (a : E C)
    (h : ∀ x, IsPart a x → f x = g x) :
    ∀ (fs : List (Fld × Prim)) (hh : UInt64), chainSem P comb f hh fs a = chainSem P comb g hh fs a
  | [], _ => by simp only [chainSem]
  | (fl, p) :: fs, hh => by
    cases p with
    | expr =>
      simp only [chainSem]
      cases hc : child fl a with
      | none => rfl
      | some x =>
        simp only [h x (.inr ⟨fl, hc⟩)]
        cases g x with
        | none => rfl
        | some hx => exact chainSem_congr comb a h fs _
    | dbl => cases fl <;> cases a <;> simp only [chainSem] <;> exact chainSem_congr comb _ h fs _
    | int => cases fl <;> cases a <;> simp only [chainSem] <;> exact chainSem_congr comb _ h fs _
    | bool => cases fl <;> cases a <;> simp only [chainSem] <;> exact chainSem_congr comb _ h fs _

theorem hashStep_congr {f g : E C → Option UInt64} (a : E C) (h : ∀ x, IsPart a x → f x = g x) :
    hashStep P hashEntry hashBody hashCombine hashSeed f a = hashStep P hashEntry hashBody hashCombine hashSeed g a := by
  simp only [hashStep, hashEntry]
  cases hashBody a.kind with
  | chain fs => exact chainSem_congr P _ a h fs _
  | prog p => exact semHL_congr P _ a h p 0 _
  | unsupported => rfl


/-! ## string literals: what `value()` reads from the storage `Copy` filled -/

theorem takeWhile_append_stop (p : UInt8 → Bool) (xs : List UInt8) (y : UInt8) (ys : List UInt8) (hy : p y = false) :
    (xs ++ y :: ys).takeWhile p = xs.takeWhile p := by
  induction xs with
  | nil => simp [List.takeWhile, hy]
  | cons x xs ih =>
    simp only [List.cons_append, List.takeWhile_cons]
    cases p x <;> simp [ih]

theorem copy_then_nul (src buf : List UInt8) (h : src.length < buf.length) :
    (src ++ buf.drop src.length).set src.length 0 = src ++ 0 :: buf.drop (src.length + 1) := by
  induction src generalizing buf with
  | nil =>
    cases buf with
    | nil => simp at h
    | cons b bs => simp
  | cons x xs ih =>
    cases buf with
    | nil => simp at h
    | cons b bs =>
      simp only [List.length_cons, List.drop_succ_cons, List.cons_append, List.set_cons_succ]
      rw [ih bs (by simpa using h)]

end MpVerif.C18

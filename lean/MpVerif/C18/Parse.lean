import MpVerif.C18.Model
/-! Text form of expression trees shared by the C++ harness, the Lean driver and the python
oracle (prefix notation, space separated tokens; kinds by their C++ enumerator name):

```
E ::= n <bits:hex>                      NumericConstant (IEEE-754 bit pattern)
    | v <int> | c <int>                 VARIABLE / COMMON_EXPR
    | u <UNK> E                         unary / NOT
    | b <BINK> E E                      binary, binary logical, relational, logical count
    | i <IFK> E E E                     IF / IMPLICATION / IFSYM
    | p <n> (<slope:hex> <bp:hex>){n} <slope:hex> E     PLTerm with n breakpoints
    | f <fid> <n> E{n}                  call of function object #fid
    | t <ITERK> <n> E{n}                iterated
    | l <0|1>                           LogicalConstant
    | s <hexbytes|->                    StringLiteral
```
No model logic here: names ↔ constructors only. -/
namespace MpVerif.C18

def hexDigit (c : Char) : Option Nat :=
  if '0' ≤ c ∧ c ≤ '9' then some (c.toNat - '0'.toNat)
  else if 'a' ≤ c ∧ c ≤ 'f' then some (c.toNat - 'a'.toNat + 10)
  else none

def hexNat (s : String) : Option Nat :=
  if s.isEmpty then none else
  s.toList.foldl (fun acc c => match acc, hexDigit c with
    | some a, some d => some (a * 16 + d)
    | _, _ => none) (some 0)

def hexU64 (s : String) : Option UInt64 :=
  if s.length > 16 then none else (hexNat s).map (·.toUInt64)

def hexBytes (s : String) : Option (List UInt8) :=
  if s == "-" then some [] else
  let rec go : List Char → Option (List UInt8)
    | [] => some []
    | [_] => none
    | a :: b :: rest => match hexDigit a, hexDigit b, go rest with
      | some x, some y, some r => some ((x * 16 + y).toUInt8 :: r)
      | _, _, _ => none
  go s.toList

def toHex (v : UInt64) : String :=
  let ds := (Nat.toDigits 16 v.toNat)
  String.ofList (List.replicate (16 - ds.length) '0' ++ ds)

def UnK.table : List (String × UnK) :=
  [("MINUS", .minus), ("ABS", .abs), ("FLOOR", .floor), ("CEIL", .ceil), ("SQRT", .sqrt), ("POW2", .pow2),
   ("EXP", .exp), ("LOG", .log), ("LOG10", .log10), ("SIN", .sin), ("SINH", .sinh), ("COS", .cos),
   ("COSH", .cosh), ("TAN", .tan), ("TANH", .tanh), ("ASIN", .asin), ("ASINH", .asinh), ("ACOS", .acos),
   ("ACOSH", .acosh), ("ATAN", .atan), ("ATANH", .atanh), ("NOT", .not)]

def BinK.table : List (String × BinK) :=
  [("ADD", .add), ("SUB", .sub), ("LESS", .less), ("MUL", .mul), ("DIV", .div), ("TRUNC_DIV", .truncDiv),
   ("MOD", .mod), ("POW", .pow), ("POW_CONST_BASE", .powConstBase), ("POW_CONST_EXP", .powConstExp),
   ("ATAN2", .atan2), ("PRECISION", .precision), ("ROUND", .round), ("TRUNC", .trunc),
   ("OR", .or), ("AND", .and), ("IFF", .iff),
   ("LT", .lt), ("LE", .le), ("EQ", .eq), ("GE", .ge), ("GT", .gt), ("NE", .ne),
   ("ATLEAST", .atLeast), ("ATMOST", .atMost), ("EXACTLY", .exactly),
   ("NOT_ATLEAST", .notAtLeast), ("NOT_ATMOST", .notAtMost), ("NOT_EXACTLY", .notExactly)]

def IfK.table : List (String × IfK) :=
  [("IF", .ifNum), ("IMPLICATION", .implication), ("IFSYM", .ifSym)]

def IterK.table : List (String × IterK) :=
  [("MIN", .min), ("MAX", .max), ("SUM", .sum), ("NUMBEROF", .numberOf), ("NUMBEROF_SYM", .numberOfSym),
   ("COUNT", .count), ("EXISTS", .exists_), ("FORALL", .forall_), ("ALLDIFF", .allDiff),
   ("NOT_ALLDIFF", .notAllDiff)]

/-- every storable kind with its C++ enumerator name -/
def Kind.table : List (String × Kind) :=
  [("NUMBER", .number), ("VARIABLE", .ref .var), ("COMMON_EXPR", .ref .common)]
  ++ UnK.table.map (fun (n, k) => (n, Kind.un k))
  ++ BinK.table.map (fun (n, k) => (n, Kind.bin k))
  ++ IfK.table.map (fun (n, k) => (n, Kind.ifk k))
  ++ [("PLTERM", .plterm), ("CALL", .call)]
  ++ IterK.table.map (fun (n, k) => (n, Kind.iter k))
  ++ [("BOOL", .bool), ("STRING", .string)]

def Kind.name (k : Kind) : String :=
  match Kind.table.find? (fun p => p.2 == k) with
  | some p => p.1
  | none => "?"

abbrev T := E UInt64

def parsePairs : Nat → List String → Option (List (UInt64 × UInt64) × List String)
  | 0, r => some ([], r)
  | n + 1, s :: b :: r => do
      let s ← hexU64 s
      let b ← hexU64 b
      let (ps, r) ← parsePairs n r
      pure ((s, b) :: ps, r)
  | _, _ => none

mutual
/-- recursive descent with fuel (one unit per node; the driver passes the number of tokens) -/
def parseE : Nat → List String → Option (T × List String)
  | 0, _ => none
  | fuel + 1, toks =>
    match toks with
    | "n" :: b :: r => (hexU64 b).map (fun v => (.num v, r))
    | "v" :: i :: r => i.toInt?.map (fun v => (.ref .var v, r))
    | "c" :: i :: r => i.toInt?.map (fun v => (.ref .common v, r))
    | "u" :: k :: r => do
        let k ← UnK.table.lookup k
        let (a, r) ← parseE fuel r
        pure (.un k a, r)
    | "b" :: k :: r => do
        let k ← BinK.table.lookup k
        let (x, r) ← parseE fuel r
        let (y, r) ← parseE fuel r
        pure (.bin k x y, r)
    | "i" :: k :: r => do
        let k ← IfK.table.lookup k
        let (c, r) ← parseE fuel r
        let (t, r) ← parseE fuel r
        let (e, r) ← parseE fuel r
        pure (.ite k c t e, r)
    | "p" :: n :: r => do
        let n ← n.toNat?
        let (sb, r) ← parsePairs n r
        match r with
        | l :: r =>
          let last ← hexU64 l
          let (a, r) ← parseE fuel r
          pure (.pl sb last a, r)
        | [] => none
    | "f" :: f :: n :: r => do
        let f ← f.toNat?
        let n ← n.toNat?
        let (as, r) ← parseN fuel n r
        pure (.call f as, r)
    | "t" :: k :: n :: r => do
        let k ← IterK.table.lookup k
        let n ← n.toNat?
        let (as, r) ← parseN fuel n r
        pure (.iter k as, r)
    | "l" :: "0" :: r => some (.bool false, r)
    | "l" :: "1" :: r => some (.bool true, r)
    | "s" :: h :: r => (hexBytes h).map (fun s => (.str s, r))
    | _ => none
def parseN : Nat → Nat → List String → Option (List T × List String)
  | _, 0, r => some ([], r)
  | 0, _ + 1, _ => none
  | fuel + 1, n + 1, r => do
      let (a, r) ← parseE fuel r
      let (as, r) ← parseN fuel n r
      pure (a :: as, r)
end

/-- primitive values whose hash the tree needs -/
inductive Key where
  | kind (k : Kind) | dbl (v : UInt64) | int (i : Int) | bool (b : Bool) | char (c : UInt8) | func (f : Nat)

mutual
def keys : T → List Key
  | .num v => [.kind .number, .dbl v]
  | .ref k i => [.kind (.ref k), .int i]
  | .un k a => .kind (.un k) :: keys a
  | .bin k l r => .kind (.bin k) :: (keys l ++ keys r)
  | .ite k c t e => .kind (.ifk k) :: (keys c ++ keys t ++ keys e)
  | .pl sb last a => .kind .plterm :: .dbl last :: (sb.flatMap (fun p => [.dbl p.1, .dbl p.2]) ++ keys a)
  | .call f as => .kind .call :: .func f :: keysL as
  | .iter k as => .kind (.iter k) :: keysL as
  | .bool v => [.kind .bool, .bool v]
  | .str s => .kind .string :: (cstr s).map .char
def keysL : List T → List Key
  | [] => []
  | a :: as => keys a ++ keysL as
end

end MpVerif.C18

/- Frozen copies of the syntax trees of the loop-carrying handlers, written by
   `translators/gen_expr_c18.py --freeze` from the tree the hand model in Model.lean was written against
   (and re-frozen after each reviewed change of those functions).  `C18_gen_shape_*` compare them with
   the trees regenerated on every run. -/
import MpVerif.C18.GenTypes
namespace MpVerif.C18.Frozen
open MpVerif.C18

def cmpShape_VisitCall : Sx :=
  .n "CXXMethodDecl" "" [
   .n "ParmVarDecl" "e : mp::BasicExprVisitor<(anonymous namespace)::ExprComparator, bool, mp::internal::ExprTypes>::CallExpr" [],
   .n "CompoundStmt" "" [
    .n "DeclStmt" "" [
     .n "VarDecl" "call : mp::BasicExprVisitor<(anonymous namespace)::ExprComparator, bool, mp::internal::ExprTypes>::CallExpr" [
      .n "CallExpr" "" [
       .n "DeclRefExpr" "Cast" [],
       .n "MemberExpr" "expr_" [
        .n "CXXThisExpr" "" []]]]],
    .n "DeclStmt" "" [
     .n "VarDecl" "num_args : int" [
      .n "CXXMemberCallExpr" "" [
       .n "MemberExpr" "num_args" [
        .n "DeclRefExpr" "call" []]]]],
    .n "IfStmt" "" [
     .n "BinaryOperator" "||" [
      .n "CXXOperatorCallExpr" "" [
       .n "DeclRefExpr" "operator!=" [],
       .n "CXXMemberCallExpr" "" [
        .n "MemberExpr" "function" [
         .n "DeclRefExpr" "call" []]],
       .n "CXXMemberCallExpr" "" [
        .n "MemberExpr" "function" [
         .n "DeclRefExpr" "e" []]]],
      .n "BinaryOperator" "!=" [
       .n "DeclRefExpr" "num_args" [],
       .n "CXXMemberCallExpr" "" [
        .n "MemberExpr" "num_args" [
         .n "DeclRefExpr" "e" []]]]],
     .n "ReturnStmt" "" [
      .n "CXXBoolLiteralExpr" "False" []]],
    .n "ForStmt" "" [
     .n "DeclStmt" "" [
      .n "VarDecl" "i : int" [
       .n "IntegerLiteral" "0" []]],
     .n "None" "" [],
     .n "BinaryOperator" "<" [
      .n "DeclRefExpr" "i" [],
      .n "DeclRefExpr" "num_args" []],
     .n "UnaryOperator" "++" [
      .n "DeclRefExpr" "i" []],
     .n "CompoundStmt" "" [
      .n "DeclStmt" "" [
       .n "VarDecl" "arg : mp::BasicExprVisitor<(anonymous namespace)::ExprComparator, bool, mp::internal::ExprTypes>::Expr" [
        .n "CXXMemberCallExpr" "" [
         .n "MemberExpr" "arg" [
          .n "DeclRefExpr" "call" []],
         .n "DeclRefExpr" "i" []]],
       .n "VarDecl" "other_arg : mp::BasicExprVisitor<(anonymous namespace)::ExprComparator, bool, mp::internal::ExprTypes>::Expr" [
        .n "CXXMemberCallExpr" "" [
         .n "MemberExpr" "arg" [
          .n "DeclRefExpr" "e" []],
         .n "DeclRefExpr" "i" []]]],
      .n "IfStmt" "" [
       .n "BinaryOperator" "!=" [
        .n "CXXMemberCallExpr" "" [
         .n "MemberExpr" "kind" [
          .n "DeclRefExpr" "arg" []]],
        .n "CXXMemberCallExpr" "" [
         .n "MemberExpr" "kind" [
          .n "DeclRefExpr" "other_arg" []]]],
       .n "ReturnStmt" "" [
        .n "CXXBoolLiteralExpr" "False" []]],
      .n "IfStmt" "" [
       .n "DeclStmt" "" [
        .n "VarDecl" "num_arg : mp::BasicExprVisitor<(anonymous namespace)::ExprComparator, bool, mp::internal::ExprTypes>::NumericExpr" [
         .n "CallExpr" "" [
          .n "DeclRefExpr" "Cast" [],
          .n "DeclRefExpr" "arg" []]]],
       .n "CXXMemberCallExpr" "" [
        .n "MemberExpr" "operator void (mp::internal::ExprBase::*)() const" [
         .n "DeclRefExpr" "num_arg" []]],
       .n "CompoundStmt" "" [
        .n "IfStmt" "" [
         .n "UnaryOperator" "!" [
          .n "CallExpr" "" [
           .n "DeclRefExpr" "Equal" [],
           .n "DeclRefExpr" "num_arg" [],
           .n "CallExpr" "" [
            .n "DeclRefExpr" "Cast" [],
            .n "DeclRefExpr" "other_arg" []]]],
         .n "ReturnStmt" "" [
          .n "CXXBoolLiteralExpr" "False" []]]],
       .n "IfStmt" "" [
        .n "DeclStmt" "" [
         .n "VarDecl" "str_arg : mp::BasicExprVisitor<(anonymous namespace)::ExprComparator, bool, mp::internal::ExprTypes>::StringLiteral" [
          .n "CallExpr" "" [
           .n "DeclRefExpr" "Cast" [],
           .n "DeclRefExpr" "arg" []]]],
        .n "CXXMemberCallExpr" "" [
         .n "MemberExpr" "operator void (mp::internal::ExprBase::*)() const" [
          .n "DeclRefExpr" "str_arg" []]],
        .n "CompoundStmt" "" [
         .n "IfStmt" "" [
          .n "BinaryOperator" "!=" [
           .n "CallExpr" "" [
            .n "DeclRefExpr" "strcmp" [],
            .n "CXXMemberCallExpr" "" [
             .n "MemberExpr" "value" [
              .n "DeclRefExpr" "str_arg" []]],
            .n "CXXMemberCallExpr" "" [
             .n "MemberExpr" "value" [
              .n "CallExpr" "" [
               .n "DeclRefExpr" "Cast" [],
               .n "DeclRefExpr" "other_arg" []]]]],
           .n "IntegerLiteral" "0" []],
          .n "ReturnStmt" "" [
           .n "CXXBoolLiteralExpr" "False" []]]],
        .n "IfStmt" "" [
         .n "UnaryOperator" "!" [
          .n "CallExpr" "" [
           .n "DeclRefExpr" "Equal" [],
           .n "DeclRefExpr" "arg" [],
           .n "DeclRefExpr" "other_arg" []]],
         .n "CompoundStmt" "" [
          .n "ReturnStmt" "" [
           .n "CXXBoolLiteralExpr" "False" []]]]]]]],
    .n "ReturnStmt" "" [
     .n "CXXBoolLiteralExpr" "True" []]]]

def cmpShape_VisitPLTerm : Sx :=
  .n "CXXMethodDecl" "" [
   .n "ParmVarDecl" "e : mp::BasicExprVisitor<(anonymous namespace)::ExprComparator, bool, mp::internal::ExprTypes>::PLTerm" [],
   .n "CompoundStmt" "" [
    .n "DeclStmt" "" [
     .n "VarDecl" "pl : mp::BasicExprVisitor<(anonymous namespace)::ExprComparator, bool, mp::internal::ExprTypes>::PLTerm" [
      .n "CallExpr" "" [
       .n "DeclRefExpr" "Cast" [],
       .n "MemberExpr" "expr_" [
        .n "CXXThisExpr" "" []]]]],
    .n "DeclStmt" "" [
     .n "VarDecl" "num_breakpoints : int" [
      .n "CXXMemberCallExpr" "" [
       .n "MemberExpr" "num_breakpoints" [
        .n "DeclRefExpr" "pl" []]]]],
    .n "IfStmt" "" [
     .n "BinaryOperator" "!=" [
      .n "DeclRefExpr" "num_breakpoints" [],
      .n "CXXMemberCallExpr" "" [
       .n "MemberExpr" "num_breakpoints" [
        .n "DeclRefExpr" "e" []]]],
     .n "ReturnStmt" "" [
      .n "CXXBoolLiteralExpr" "False" []]],
    .n "ForStmt" "" [
     .n "DeclStmt" "" [
      .n "VarDecl" "i : int" [
       .n "IntegerLiteral" "0" []]],
     .n "None" "" [],
     .n "BinaryOperator" "<" [
      .n "DeclRefExpr" "i" [],
      .n "DeclRefExpr" "num_breakpoints" []],
     .n "UnaryOperator" "++" [
      .n "DeclRefExpr" "i" []],
     .n "CompoundStmt" "" [
      .n "IfStmt" "" [
       .n "BinaryOperator" "||" [
        .n "BinaryOperator" "!=" [
         .n "CXXMemberCallExpr" "" [
          .n "MemberExpr" "slope" [
           .n "DeclRefExpr" "pl" []],
          .n "DeclRefExpr" "i" []],
         .n "CXXMemberCallExpr" "" [
          .n "MemberExpr" "slope" [
           .n "DeclRefExpr" "e" []],
          .n "DeclRefExpr" "i" []]],
        .n "BinaryOperator" "!=" [
         .n "CXXMemberCallExpr" "" [
          .n "MemberExpr" "breakpoint" [
           .n "DeclRefExpr" "pl" []],
          .n "DeclRefExpr" "i" []],
         .n "CXXMemberCallExpr" "" [
          .n "MemberExpr" "breakpoint" [
           .n "DeclRefExpr" "e" []],
          .n "DeclRefExpr" "i" []]]],
       .n "ReturnStmt" "" [
        .n "CXXBoolLiteralExpr" "False" []]]]],
    .n "ReturnStmt" "" [
     .n "BinaryOperator" "&&" [
      .n "BinaryOperator" "==" [
       .n "CXXMemberCallExpr" "" [
        .n "MemberExpr" "slope" [
         .n "DeclRefExpr" "pl" []],
        .n "DeclRefExpr" "num_breakpoints" []],
       .n "CXXMemberCallExpr" "" [
        .n "MemberExpr" "slope" [
         .n "DeclRefExpr" "e" []],
        .n "DeclRefExpr" "num_breakpoints" []]],
      .n "CallExpr" "" [
       .n "DeclRefExpr" "Equal" [],
       .n "CXXMemberCallExpr" "" [
        .n "MemberExpr" "arg" [
         .n "DeclRefExpr" "pl" []]],
       .n "CXXMemberCallExpr" "" [
        .n "MemberExpr" "arg" [
         .n "DeclRefExpr" "e" []]]]]]]]

def cmpShape_VisitVarArg : Sx :=
  .n "CXXMethodDecl" "" [
   .n "ParmVarDecl" "e" [],
   .n "CompoundStmt" "" [
    .n "DeclStmt" "" [
     .n "VarDecl" "vararg" [
      .n "CallExpr" "" [
       .n "DeclRefExpr" "Cast" [],
       .n "MemberExpr" "expr_" [
        .n "CXXThisExpr" "" []]]]],
    .n "DeclStmt" "" [
     .n "VarDecl" "i" [
      .n "CXXMemberCallExpr" "" [
       .n "MemberExpr" "begin" [
        .n "DeclRefExpr" "vararg" []]]],
     .n "VarDecl" "iend" [
      .n "CXXMemberCallExpr" "" [
       .n "MemberExpr" "end" [
        .n "DeclRefExpr" "vararg" []]]]],
    .n "DeclStmt" "" [
     .n "VarDecl" "j" [
      .n "CXXMemberCallExpr" "" [
       .n "MemberExpr" "begin" [
        .n "DeclRefExpr" "e" []]]],
     .n "VarDecl" "jend" [
      .n "CXXMemberCallExpr" "" [
       .n "MemberExpr" "end" [
        .n "DeclRefExpr" "e" []]]]],
    .n "ForStmt" "" [
     .n "None" "" [],
     .n "None" "" [],
     .n "CXXOperatorCallExpr" "" [
      .n "DeclRefExpr" "operator!=" [],
      .n "DeclRefExpr" "i" [],
      .n "DeclRefExpr" "iend" []],
     .n "BinaryOperator" "," [
      .n "CXXOperatorCallExpr" "" [
       .n "DeclRefExpr" "operator++" [],
       .n "DeclRefExpr" "i" []],
      .n "CXXOperatorCallExpr" "" [
       .n "DeclRefExpr" "operator++" [],
       .n "DeclRefExpr" "j" []]],
     .n "CompoundStmt" "" [
      .n "IfStmt" "" [
       .n "BinaryOperator" "||" [
        .n "CXXOperatorCallExpr" "" [
         .n "DeclRefExpr" "operator==" [],
         .n "DeclRefExpr" "j" [],
         .n "DeclRefExpr" "jend" []],
        .n "UnaryOperator" "!" [
         .n "CallExpr" "" [
          .n "DeclRefExpr" "Equal" [],
          .n "CXXOperatorCallExpr" "" [
           .n "DeclRefExpr" "operator*" [],
           .n "DeclRefExpr" "i" []],
          .n "CXXOperatorCallExpr" "" [
           .n "DeclRefExpr" "operator*" [],
           .n "DeclRefExpr" "j" []]]]],
       .n "ReturnStmt" "" [
        .n "CXXBoolLiteralExpr" "False" []]]]],
    .n "ReturnStmt" "" [
     .n "CXXOperatorCallExpr" "" [
      .n "DeclRefExpr" "operator==" [],
      .n "DeclRefExpr" "j" [],
      .n "DeclRefExpr" "jend" []]]]]

def hashShape_VisitCall : Sx :=
  .n "CXXMethodDecl" "" [
   .n "ParmVarDecl" "e : mp::BasicExprVisitor<(anonymous namespace)::ExprHasher, unsigned long, mp::internal::ExprTypes>::CallExpr" [],
   .n "CompoundStmt" "" [
    .n "DeclStmt" "" [
     .n "VarDecl" "hash : std::size_t" [
      .n "CallExpr" "" [
       .n "DeclRefExpr" "Hash" [],
       .n "DeclRefExpr" "e" [],
       .n "CXXMemberCallExpr" "" [
        .n "MemberExpr" "name" [
         .n "CXXMemberCallExpr" "" [
          .n "MemberExpr" "function" [
           .n "DeclRefExpr" "e" []]]]]]]],
    .n "ForStmt" "" [
     .n "DeclStmt" "" [
      .n "VarDecl" "i : int" [
       .n "IntegerLiteral" "0" []],
      .n "VarDecl" "n : int" [
       .n "CXXMemberCallExpr" "" [
        .n "MemberExpr" "num_args" [
         .n "DeclRefExpr" "e" []]]]],
     .n "None" "" [],
     .n "BinaryOperator" "<" [
      .n "DeclRefExpr" "i" [],
      .n "DeclRefExpr" "n" []],
     .n "UnaryOperator" "++" [
      .n "DeclRefExpr" "i" []],
     .n "BinaryOperator" "=" [
      .n "DeclRefExpr" "hash" [],
      .n "CallExpr" "" [
       .n "DeclRefExpr" "HashCombine" [],
       .n "DeclRefExpr" "hash" [],
       .n "CXXMemberCallExpr" "" [
        .n "MemberExpr" "arg" [
         .n "DeclRefExpr" "e" []],
        .n "DeclRefExpr" "i" []]]]],
    .n "ReturnStmt" "" [
     .n "DeclRefExpr" "hash" []]]]

def hashShape_VisitPLTerm : Sx :=
  .n "CXXMethodDecl" "" [
   .n "ParmVarDecl" "e : mp::BasicExprVisitor<(anonymous namespace)::ExprHasher, unsigned long, mp::internal::ExprTypes>::PLTerm" [],
   .n "CompoundStmt" "" [
    .n "DeclStmt" "" [
     .n "VarDecl" "hash : std::size_t" [
      .n "CallExpr" "" [
       .n "DeclRefExpr" "Hash" [],
       .n "DeclRefExpr" "e" []]]],
    .n "DeclStmt" "" [
     .n "VarDecl" "num_breakpoints : int" [
      .n "CXXMemberCallExpr" "" [
       .n "MemberExpr" "num_breakpoints" [
        .n "DeclRefExpr" "e" []]]]],
    .n "ForStmt" "" [
     .n "DeclStmt" "" [
      .n "VarDecl" "i : int" [
       .n "IntegerLiteral" "0" []]],
     .n "None" "" [],
     .n "BinaryOperator" "<" [
      .n "DeclRefExpr" "i" [],
      .n "DeclRefExpr" "num_breakpoints" []],
     .n "UnaryOperator" "++" [
      .n "DeclRefExpr" "i" []],
     .n "CompoundStmt" "" [
      .n "BinaryOperator" "=" [
       .n "DeclRefExpr" "hash" [],
       .n "CallExpr" "" [
        .n "DeclRefExpr" "HashCombine" [],
        .n "DeclRefExpr" "hash" [],
        .n "CXXMemberCallExpr" "" [
         .n "MemberExpr" "slope" [
          .n "DeclRefExpr" "e" []],
         .n "DeclRefExpr" "i" []]]],
      .n "BinaryOperator" "=" [
       .n "DeclRefExpr" "hash" [],
       .n "CallExpr" "" [
        .n "DeclRefExpr" "HashCombine" [],
        .n "DeclRefExpr" "hash" [],
        .n "CXXMemberCallExpr" "" [
         .n "MemberExpr" "breakpoint" [
          .n "DeclRefExpr" "e" []],
         .n "DeclRefExpr" "i" []]]]]],
    .n "BinaryOperator" "=" [
     .n "DeclRefExpr" "hash" [],
     .n "CallExpr" "" [
      .n "DeclRefExpr" "HashCombine" [],
      .n "DeclRefExpr" "hash" [],
      .n "CXXMemberCallExpr" "" [
       .n "MemberExpr" "slope" [
        .n "DeclRefExpr" "e" []],
       .n "DeclRefExpr" "num_breakpoints" []]]],
    .n "ReturnStmt" "" [
     .n "CallExpr" "" [
      .n "DeclRefExpr" "HashCombine" [],
      .n "DeclRefExpr" "hash" [],
      .n "CXXMemberCallExpr" "" [
       .n "MemberExpr" "arg" [
        .n "DeclRefExpr" "e" []]]]]]]

def hashShape_VisitStringLiteral : Sx :=
  .n "CXXMethodDecl" "" [
   .n "ParmVarDecl" "s : mp::BasicExprVisitor<(anonymous namespace)::ExprHasher, unsigned long, mp::internal::ExprTypes>::StringLiteral" [],
   .n "CompoundStmt" "" [
    .n "DeclStmt" "" [
     .n "VarDecl" "hash : std::size_t" [
      .n "CallExpr" "" [
       .n "DeclRefExpr" "Hash" [],
       .n "DeclRefExpr" "s" []]]],
    .n "ForStmt" "" [
     .n "DeclStmt" "" [
      .n "VarDecl" "value : const char *" [
       .n "CXXMemberCallExpr" "" [
        .n "MemberExpr" "value" [
         .n "DeclRefExpr" "s" []]]]],
     .n "None" "" [],
     .n "UnaryOperator" "*" [
      .n "DeclRefExpr" "value" []],
     .n "UnaryOperator" "++" [
      .n "DeclRefExpr" "value" []],
     .n "BinaryOperator" "=" [
      .n "DeclRefExpr" "hash" [],
      .n "CallExpr" "" [
       .n "DeclRefExpr" "HashCombine" [],
       .n "DeclRefExpr" "hash" [],
       .n "UnaryOperator" "*" [
        .n "DeclRefExpr" "value" []]]]],
    .n "ReturnStmt" "" [
     .n "DeclRefExpr" "hash" []]]]

def hashShape_VisitVarArg : Sx :=
  .n "CXXMethodDecl" "" [
   .n "ParmVarDecl" "e" [],
   .n "CompoundStmt" "" [
    .n "DeclStmt" "" [
     .n "VarDecl" "hash : std::size_t" [
      .n "CallExpr" "" [
       .n "DeclRefExpr" "Hash" [],
       .n "DeclRefExpr" "e" []]]],
    .n "ForStmt" "" [
     .n "DeclStmt" "" [
      .n "VarDecl" "i" [
       .n "CXXMemberCallExpr" "" [
        .n "MemberExpr" "begin" [
         .n "DeclRefExpr" "e" []]]],
      .n "VarDecl" "end" [
       .n "CXXMemberCallExpr" "" [
        .n "MemberExpr" "end" [
         .n "DeclRefExpr" "e" []]]]],
     .n "None" "" [],
     .n "CXXOperatorCallExpr" "" [
      .n "DeclRefExpr" "operator!=" [],
      .n "DeclRefExpr" "i" [],
      .n "DeclRefExpr" "end" []],
     .n "CXXOperatorCallExpr" "" [
      .n "DeclRefExpr" "operator++" [],
      .n "DeclRefExpr" "i" []],
     .n "BinaryOperator" "=" [
      .n "DeclRefExpr" "hash" [],
      .n "CallExpr" "" [
       .n "DeclRefExpr" "HashCombine" [],
       .n "DeclRefExpr" "hash" [],
       .n "CXXOperatorCallExpr" "" [
        .n "DeclRefExpr" "operator*" [],
        .n "DeclRefExpr" "i" []]]]],
    .n "ReturnStmt" "" [
     .n "DeclRefExpr" "hash" []]]]

def helperShape_CallExpr_arg : Sx :=
  .n "CXXMethodDecl" "" [
   .n "ParmVarDecl" "index : int" [],
   .n "CompoundStmt" "" [
    .n "CXXStaticCastExpr" "void" [
     .n "IntegerLiteral" "0" []],
    .n "ReturnStmt" "" [
     .n "CallExpr" "" [
      .n "DeclRefExpr" "Create" [],
      .n "ArraySubscriptExpr" "" [
       .n "MemberExpr" "args" [
        .n "CXXMemberCallExpr" "" [
         .n "MemberExpr" "impl" [
          .n "CXXThisExpr" "" []]]],
       .n "DeclRefExpr" "index" []]]]]]

def helperShape_CallExpr_function : Sx :=
  .n "CXXMethodDecl" "" [
   .n "CompoundStmt" "" [
    .n "ReturnStmt" "" [
     .n "MemberExpr" "func" [
      .n "CXXMemberCallExpr" "" [
       .n "MemberExpr" "impl" [
        .n "CXXThisExpr" "" []]]]]]]

def helperShape_CallExpr_num_args : Sx :=
  .n "CXXMethodDecl" "" [
   .n "CompoundStmt" "" [
    .n "ReturnStmt" "" [
     .n "MemberExpr" "num_args" [
      .n "CXXMemberCallExpr" "" [
       .n "MemberExpr" "impl" [
        .n "CXXThisExpr" "" []]]]]]]

def helperShape_Function_eq : Sx :=
  .n "CXXMethodDecl" "" [
   .n "ParmVarDecl" "other : mp::Function" [],
   .n "CompoundStmt" "" [
    .n "ReturnStmt" "" [
     .n "BinaryOperator" "==" [
      .n "MemberExpr" "impl_" [
       .n "CXXThisExpr" "" []],
      .n "MemberExpr" "impl_" [
       .n "DeclRefExpr" "other" []]]]]]

def helperShape_Function_name : Sx :=
  .n "CXXMethodDecl" "" [
   .n "CompoundStmt" "" [
    .n "ReturnStmt" "" [
     .n "MemberExpr" "name" [
      .n "MemberExpr" "impl_" [
       .n "CXXThisExpr" "" []]]]]]

def helperShape_Function_ne : Sx :=
  .n "CXXMethodDecl" "" [
   .n "ParmVarDecl" "other : mp::Function" [],
   .n "CompoundStmt" "" [
    .n "ReturnStmt" "" [
     .n "BinaryOperator" "!=" [
      .n "MemberExpr" "impl_" [
       .n "CXXThisExpr" "" []],
      .n "MemberExpr" "impl_" [
       .n "DeclRefExpr" "other" []]]]]]

def helperShape_PLTerm_arg : Sx :=
  .n "CXXMethodDecl" "" [
   .n "CompoundStmt" "" [
    .n "ReturnStmt" "" [
     .n "CallExpr" "" [
      .n "DeclRefExpr" "Create" [],
      .n "MemberExpr" "arg" [
       .n "CXXMemberCallExpr" "" [
        .n "MemberExpr" "impl" [
         .n "CXXThisExpr" "" []]]]]]]]

def helperShape_PLTerm_breakpoint : Sx :=
  .n "CXXMethodDecl" "" [
   .n "ParmVarDecl" "index : int" [],
   .n "CompoundStmt" "" [
    .n "CXXStaticCastExpr" "void" [
     .n "IntegerLiteral" "0" []],
    .n "ReturnStmt" "" [
     .n "ArraySubscriptExpr" "" [
      .n "MemberExpr" "data" [
       .n "CXXMemberCallExpr" "" [
        .n "MemberExpr" "impl" [
         .n "CXXThisExpr" "" []]]],
      .n "BinaryOperator" "+" [
       .n "BinaryOperator" "*" [
        .n "IntegerLiteral" "2" [],
        .n "DeclRefExpr" "index" []],
       .n "IntegerLiteral" "1" []]]]]]

def helperShape_PLTerm_num_breakpoints : Sx :=
  .n "CXXMethodDecl" "" [
   .n "CompoundStmt" "" [
    .n "ReturnStmt" "" [
     .n "MemberExpr" "num_breakpoints" [
      .n "CXXMemberCallExpr" "" [
       .n "MemberExpr" "impl" [
        .n "CXXThisExpr" "" []]]]]]]

def helperShape_PLTerm_slope : Sx :=
  .n "CXXMethodDecl" "" [
   .n "ParmVarDecl" "index : int" [],
   .n "CompoundStmt" "" [
    .n "CXXStaticCastExpr" "void" [
     .n "IntegerLiteral" "0" []],
    .n "ReturnStmt" "" [
     .n "ArraySubscriptExpr" "" [
      .n "MemberExpr" "data" [
       .n "CXXMemberCallExpr" "" [
        .n "MemberExpr" "impl" [
         .n "CXXThisExpr" "" []]]],
      .n "BinaryOperator" "*" [
       .n "IntegerLiteral" "2" [],
       .n "DeclRefExpr" "index" []]]]]]

def helperShape_StringLiteral_value : Sx :=
  .n "CXXMethodDecl" "" [
   .n "CompoundStmt" "" [
    .n "ReturnStmt" "" [
     .n "MemberExpr" "value" [
      .n "CXXMemberCallExpr" "" [
       .n "MemberExpr" "impl" [
        .n "CXXThisExpr" "" []]]]]]]

end MpVerif.C18.Frozen

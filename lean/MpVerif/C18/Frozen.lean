/- TRIPWIRES.  Frozen copies of the normalised syntax trees of small members of include/mp/expr.h whose
   meaning `GenSem.lean` assumes (accessors of Function / PLTerm / CallExpr / StringLiteral, the factory's string
   copy), written by `translators/gen_expr_c18.py --freeze` after a reviewed change.  `C18_gen_helper_*` compare them
   with the trees regenerated on every run: they detect a change, they prove nothing about what the members do. -/
import MpVerif.C18.GenTypes
namespace MpVerif.C18.Frozen
open MpVerif.C18

def helperShape_CallExpr_function : Sx :=
  .n "CXXMethodDecl" "" [
   .n "CompoundStmt" "" [
    .n "ReturnStmt" "" [
     .n "MemberExpr" "func" [
      .n "CXXMemberCallExpr" "" [
       .n "MemberExpr" "impl" [
        .n "CXXThisExpr" "" []]]]]]]

def helperShape_CallExpr_num_args : Sx :=
  .n "CXXMethodDecl" "" [
   .n "CompoundStmt" "" [
    .n "ReturnStmt" "" [
     .n "MemberExpr" "num_args" [
      .n "CXXMemberCallExpr" "" [
       .n "MemberExpr" "impl" [
        .n "CXXThisExpr" "" []]]]]]]

def helperShape_Function_eq : Sx :=
  .n "CXXMethodDecl" "" [
   .n "ParmVarDecl" "other : mp::Function" [],
   .n "CompoundStmt" "" [
    .n "ReturnStmt" "" [
     .n "BinaryOperator" "==" [
      .n "MemberExpr" "impl_" [
       .n "CXXThisExpr" "" []],
      .n "MemberExpr" "impl_" [
       .n "DeclRefExpr" "other" []]]]]]

def helperShape_Function_name : Sx :=
  .n "CXXMethodDecl" "" [
   .n "CompoundStmt" "" [
    .n "ReturnStmt" "" [
     .n "MemberExpr" "name" [
      .n "MemberExpr" "impl_" [
       .n "CXXThisExpr" "" []]]]]]

def helperShape_Function_ne : Sx :=
  .n "CXXMethodDecl" "" [
   .n "ParmVarDecl" "other : mp::Function" [],
   .n "CompoundStmt" "" [
    .n "ReturnStmt" "" [
     .n "BinaryOperator" "!=" [
      .n "MemberExpr" "impl_" [
       .n "CXXThisExpr" "" []],
      .n "MemberExpr" "impl_" [
       .n "DeclRefExpr" "other" []]]]]]

def helperShape_PLTerm_arg : Sx :=
  .n "CXXMethodDecl" "" [
   .n "CompoundStmt" "" [
    .n "ReturnStmt" "" [
     .n "CallExpr" "" [
      .n "DeclRefExpr" "Create" [],
      .n "MemberExpr" "arg" [
       .n "CXXMemberCallExpr" "" [
        .n "MemberExpr" "impl" [
         .n "CXXThisExpr" "" []]]]]]]]

def helperShape_PLTerm_num_breakpoints : Sx :=
  .n "CXXMethodDecl" "" [
   .n "CompoundStmt" "" [
    .n "ReturnStmt" "" [
     .n "MemberExpr" "num_breakpoints" [
      .n "CXXMemberCallExpr" "" [
       .n "MemberExpr" "impl" [
        .n "CXXThisExpr" "" []]]]]]]

def helperShape_StringLiteral_value : Sx :=
  .n "CXXMethodDecl" "" [
   .n "CompoundStmt" "" [
    .n "ReturnStmt" "" [
     .n "MemberExpr" "value" [
      .n "CXXMemberCallExpr" "" [
       .n "MemberExpr" "impl" [
        .n "CXXThisExpr" "" []]]]]]]

end MpVerif.C18.Frozen

/- TRIPWIRES.  Frozen copies of the normalised syntax trees of small members of include/mp/expr.h whose
   meaning `GenSem.lean` assumes (accessors of Function / PLTerm / CallExpr / StringLiteral, the factory's string
   copy), written by `translators/gen_expr_c18.py --freeze` after a reviewed change.  `C18_gen_helper_*` compare them
   with the trees regenerated on every run: they detect a change, they prove nothing about what the members do. -/
import MpVerif.C18.GenTypes
namespace MpVerif.C18.Frozen
open MpVerif.C18

def helperShape_BasicExprFactory_Copy : Sx :=
  .n "CXXMethodDecl" "" [
   .n "ParmVarDecl" "src : fmt::StringRef" [],
   .n "ParmVarDecl" "dst : char *" [],
   .n "CompoundStmt" "" [
    .n "DeclStmt" "" [
     .n "VarDecl" "s : const char *" [
      .n "CXXMemberCallExpr" "" [
       .n "MemberExpr" "data" [
        .n "DeclRefExpr" "src" []]]]],
    .n "DeclStmt" "" [
     .n "VarDecl" "size : std::size_t" [
      .n "CXXMemberCallExpr" "" [
       .n "MemberExpr" "size" [
        .n "DeclRefExpr" "src" []]]]],
    .n "CallExpr" "" [
     .n "DeclRefExpr" "copy" [],
     .n "DeclRefExpr" "s" [],
     .n "BinaryOperator" "+" [
      .n "DeclRefExpr" "s" [],
      .n "DeclRefExpr" "size" []],
     .n "CallExpr" "" [
      .n "DeclRefExpr" "make_ptr" [],
      .n "DeclRefExpr" "dst" [],
      .n "DeclRefExpr" "size" []]],
    .n "BinaryOperator" "=" [
     .n "ArraySubscriptExpr" "" [
      .n "DeclRefExpr" "dst" [],
      .n "DeclRefExpr" "size" []],
     .n "IntegerLiteral" "0" []]]]

def helperShape_BasicExprFactory_MakeStringLiteral : Sx :=
  .n "CXXMethodDecl" "" [
   .n "ParmVarDecl" "value : fmt::StringRef" [],
   .n "CompoundStmt" "" [
    .n "DeclStmt" "" [
     .n "VarDecl" "impl : StringLiteral::Impl *" [
      .n "CallExpr" "" [
       .n "UnresolvedMemberExpr" "" [],
       .n "DeclRefExpr" "STRING" [],
       .n "CallExpr" "" [
        .n "DeclRefExpr" "val" [],
        .n "CXXMemberCallExpr" "" [
         .n "MemberExpr" "size" [
          .n "DeclRefExpr" "value" []]]]]]],
    .n "CallExpr" "" [
     .n "DeclRefExpr" "Copy" [],
     .n "DeclRefExpr" "value" [],
     .n "MemberExpr" "value" [
      .n "DeclRefExpr" "impl" []]],
    .n "ReturnStmt" "" [
     .n "CallExpr" "" [
      .n "DeclRefExpr" "Create" [],
      .n "DeclRefExpr" "impl" []]]]]

def helperShape_CallExpr_arg : Sx :=
  .n "CXXMethodDecl" "" [
   .n "ParmVarDecl" "index : int" [],
   .n "CompoundStmt" "" [
    .n "CXXStaticCastExpr" "void" [
     .n "IntegerLiteral" "0" []],
    .n "ReturnStmt" "" [
     .n "CallExpr" "" [
      .n "DeclRefExpr" "Create" [],
      .n "ArraySubscriptExpr" "" [
       .n "MemberExpr" "args" [
        .n "CXXMemberCallExpr" "" [
         .n "MemberExpr" "impl" [
          .n "CXXThisExpr" "" []]]],
       .n "DeclRefExpr" "index" []]]]]]

def helperShape_CallExpr_function : Sx :=
  .n "CXXMethodDecl" "" [
   .n "CompoundStmt" "" [
    .n "ReturnStmt" "" [
     .n "MemberExpr" "func" [
      .n "CXXMemberCallExpr" "" [
       .n "MemberExpr" "impl" [
        .n "CXXThisExpr" "" []]]]]]]

def helperShape_CallExpr_num_args : Sx :=
  .n "CXXMethodDecl" "" [
   .n "CompoundStmt" "" [
    .n "ReturnStmt" "" [
     .n "MemberExpr" "num_args" [
      .n "CXXMemberCallExpr" "" [
       .n "MemberExpr" "impl" [
        .n "CXXThisExpr" "" []]]]]]]

def helperShape_Function_eq : Sx :=
  .n "CXXMethodDecl" "" [
   .n "ParmVarDecl" "other : mp::Function" [],
   .n "CompoundStmt" "" [
    .n "ReturnStmt" "" [
     .n "BinaryOperator" "==" [
      .n "MemberExpr" "impl_" [
       .n "CXXThisExpr" "" []],
      .n "MemberExpr" "impl_" [
       .n "DeclRefExpr" "other" []]]]]]

def helperShape_Function_name : Sx :=
  .n "CXXMethodDecl" "" [
   .n "CompoundStmt" "" [
    .n "ReturnStmt" "" [
     .n "MemberExpr" "name" [
      .n "MemberExpr" "impl_" [
       .n "CXXThisExpr" "" []]]]]]

def helperShape_Function_ne : Sx :=
  .n "CXXMethodDecl" "" [
   .n "ParmVarDecl" "other : mp::Function" [],
   .n "CompoundStmt" "" [
    .n "ReturnStmt" "" [
     .n "BinaryOperator" "!=" [
      .n "MemberExpr" "impl_" [
       .n "CXXThisExpr" "" []],
      .n "MemberExpr" "impl_" [
       .n "DeclRefExpr" "other" []]]]]]

def helperShape_PLTerm_arg : Sx :=
  .n "CXXMethodDecl" "" [
   .n "CompoundStmt" "" [
    .n "ReturnStmt" "" [
     .n "CallExpr" "" [
      .n "DeclRefExpr" "Create" [],
      .n "MemberExpr" "arg" [
       .n "CXXMemberCallExpr" "" [
        .n "MemberExpr" "impl" [
         .n "CXXThisExpr" "" []]]]]]]]

def helperShape_PLTerm_breakpoint : Sx :=
  .n "CXXMethodDecl" "" [
   .n "ParmVarDecl" "index : int" [],
   .n "CompoundStmt" "" [
    .n "CXXStaticCastExpr" "void" [
     .n "IntegerLiteral" "0" []],
    .n "ReturnStmt" "" [
     .n "ArraySubscriptExpr" "" [
      .n "MemberExpr" "data" [
       .n "CXXMemberCallExpr" "" [
        .n "MemberExpr" "impl" [
         .n "CXXThisExpr" "" []]]],
      .n "BinaryOperator" "+" [
       .n "BinaryOperator" "*" [
        .n "IntegerLiteral" "2" [],
        .n "DeclRefExpr" "index" []],
       .n "IntegerLiteral" "1" []]]]]]

def helperShape_PLTerm_num_breakpoints : Sx :=
  .n "CXXMethodDecl" "" [
   .n "CompoundStmt" "" [
    .n "ReturnStmt" "" [
     .n "MemberExpr" "num_breakpoints" [
      .n "CXXMemberCallExpr" "" [
       .n "MemberExpr" "impl" [
        .n "CXXThisExpr" "" []]]]]]]

def helperShape_PLTerm_slope : Sx :=
  .n "CXXMethodDecl" "" [
   .n "ParmVarDecl" "index : int" [],
   .n "CompoundStmt" "" [
    .n "CXXStaticCastExpr" "void" [
     .n "IntegerLiteral" "0" []],
    .n "ReturnStmt" "" [
     .n "ArraySubscriptExpr" "" [
      .n "MemberExpr" "data" [
       .n "CXXMemberCallExpr" "" [
        .n "MemberExpr" "impl" [
         .n "CXXThisExpr" "" []]]],
      .n "BinaryOperator" "*" [
       .n "IntegerLiteral" "2" [],
       .n "DeclRefExpr" "index" []]]]]]

def helperShape_StringLiteral_value : Sx :=
  .n "CXXMethodDecl" "" [
   .n "CompoundStmt" "" [
    .n "ReturnStmt" "" [
     .n "MemberExpr" "value" [
      .n "CXXMemberCallExpr" "" [
       .n "MemberExpr" "impl" [
        .n "CXXThisExpr" "" []]]]]]]

end MpVerif.C18.Frozen

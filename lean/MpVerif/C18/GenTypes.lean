import MpVerif.C18.Model
/-! Target language of `translators/gen_expr_c18.py` (C18): what the translator can say about
`ExprComparator`, `ExprHasher`, `mp::Equal`, `std::hash<mp::Expr>` and `HashCombine`. -/
namespace MpVerif.C18

/-- accessor of an expression handle (`value()`, `index()`, `arg()`, `lhs()`, …) -/
inductive Fld where
  | value | index | arg | lhs | rhs | condition | thenExpr | elseExpr
  deriving DecidableEq, Repr

/-- one conjunct of a comparator handler -/
inductive CmpAtom where
  | eqField (f : Fld)      -- Cast<T>(expr_).f() == e.f()          (double / int / bool, built-in ==)
  | equalField (f : Fld)   -- Equal(Cast<T>(expr_).f(), e.f())
  deriving DecidableEq, Repr

/-- handlers with loops: not translated statement by statement, tied by their syntax tree -/
inductive OpaqueTag where
  | plTerm | call | varArg | stringLiteral
  deriving DecidableEq, Repr

inductive CmpBody where
  | conj (atoms : List CmpAtom)   -- return a1 && a2 && …
  | opaque (t : OpaqueTag)
  | unsupported                   -- the forwarding chain ends in BasicExprVisitor::VisitUnsupported
  deriving DecidableEq, Repr

/-- which `HashCombine` overload a hashed field goes through -/
inductive Prim where
  | dbl | int | bool | expr
  deriving DecidableEq, Repr

inductive HashBody where
  | chain (fs : List (Fld × Prim))   -- Hash(e) combined, left to right, with e.f1(), e.f2(), …
  | opaque (t : OpaqueTag)
  | unsupported
  deriving DecidableEq, Repr

inductive Entry where
  | kindTestThenVisit   -- if (e1.kind() != e2.kind()) return false; return Visitor(e1).Visit(e2);
  | visit               -- return Visitor().Visit(e);
  deriving DecidableEq, Repr

/-- normalised syntax tree (node kind, label, children) -/
inductive Sx where
  | n (kind label : String) (ch : List Sx)

end MpVerif.C18

import MpVerif.C18.Model
/-! Target language of `translators/gen_expr_c18.py` (C18): what the translator can say about
`ExprComparator`, `ExprHasher`, `mp::Equal`, `std::hash<mp::Expr>` and `HashCombine`. -/
namespace MpVerif.C18

/-- accessor of an expression handle (`value()`, `index()`, `arg()`, `lhs()`, …) -/
inductive Fld where
  | value | index | arg | lhs | rhs | condition | thenExpr | elseExpr
  deriving DecidableEq, Repr

/-- one conjunct of a comparator handler -/
inductive CmpAtom where
  | eqField (f : Fld)      -- Cast<T>(expr_).f() == e.f()          (double / int / bool, built-in ==)
  | equalField (f : Fld)   -- Equal(Cast<T>(expr_).f(), e.f())
  deriving DecidableEq, Repr

/-- indexed double accessors of a PL term -/
inductive DFld where
  | slope | breakpoint
  deriving DecidableEq, Repr

/-- integer expressions of the loop-carrying handlers -/
inductive IExp where
  | idx             -- the loop variable (`i`; for iterator loops the number of `++` done so far)
  | selfN           -- `num_breakpoints()` / `num_args()` / `end() - begin()` of the left operand (hasher: of `e`)
  | lit (n : Nat)
  deriving DecidableEq, Repr

/-- conditions of the loop-carrying comparator handlers (`self` = `Cast<T>(expr_)`, `other` = `e`) -/
inductive BExp where
  | tru
  | neCount                          -- self.n() != other.n()
  | neFunc                           -- self.function() != other.function()
  | neD (f : DFld) (ix : IExp)       -- self.f(ix) != other.f(ix)      (double)
  | eqD (f : DFld) (ix : IExp)       -- self.f(ix) == other.f(ix)
  | otherExhausted (ix : IExp)       -- j == jend, j = other.begin() advanced ix times
  | otherCountIs (ix : IExp)         -- j == jend after the loop: other has exactly ix arguments
  | neKindArg (ix : IExp)            -- self.arg(ix).kind() != other.arg(ix).kind()
  | equalArg (ix : IExp)             -- Equal(self.arg(ix), other.arg(ix))
  | strcmpNeArg (ix : IExp)          -- strcmp(Cast<StringLiteral>(self.arg(ix)).value(), …other…) != 0
  | equalChild (f : Fld)             -- Equal(self.f(), other.f())
  | or (a b : BExp)
  | and (a b : BExp)
  | not (a : BExp)
  deriving Repr

inductive Guard where
  | isNumericArg (ix : IExp)         -- Cast<NumericExpr>(self.arg(ix)) is non-null
  | isStringArg (ix : IExp)          -- Cast<StringLiteral>(self.arg(ix)) is non-null
  deriving Repr

/-- statements of the loop-carrying comparator handlers; every early exit is `return false` -/
inductive CStmt where
  | failIf (c : BExp)                              -- if (c) return false;
  | ite (g : Guard) (t e : List CStmt)             -- if (T x = Cast<T>(arg)) {t} else {e}
  | forRange (n : IExp) (body : List CStmt)        -- for (int i = 0; i < n; ++i) {body}
  | ret (c : BExp)                                 -- return c;
  deriving Repr

inductive CmpBody where
  | conj (atoms : List CmpAtom)   -- return a1 && a2 && …
  | prog (p : List CStmt)         -- handlers with a loop
  | unsupported                   -- the forwarding chain ends in BasicExprVisitor::VisitUnsupported
  deriving Repr

/-- values combined into the hash by the loop-carrying hasher handlers -/
inductive HVal where
  | dAt (f : DFld) (ix : IExp)    -- e.f(ix)                (std::hash<double>)
  | argAt (ix : IExp)             -- e.arg(ix) / *i         (std::hash<mp::Expr>)
  | childArg                      -- e.arg() of a PL term   (std::hash<mp::Expr>)
  | funcName                      -- e.function().name()    (std::hash<const char*>)
  | charAt (ix : IExp)            -- s.value()[ix]          (std::hash<char>)
  deriving Repr

inductive HCount where
  | selfN        -- num_breakpoints() / num_args() / end() - begin()
  | strlen       -- characters before the terminating NUL
  deriving Repr

inductive HStmt where
  | combine (v : HVal)                             -- hash = HashCombine(hash, v);
  | forRange (n : HCount) (body : List HStmt)
  deriving Repr

/-- which `HashCombine` overload a hashed field goes through -/
inductive Prim where
  | dbl | int | bool | expr
  deriving DecidableEq, Repr

inductive HashBody where
  | chain (fs : List (Fld × Prim))   -- Hash(e) combined, left to right, with e.f1(), e.f2(), …
  | prog (p : List HStmt)            -- hash = Hash(e); p; return hash;
  | unsupported
  deriving Repr

inductive Entry where
  | kindTestThenVisit   -- if (e1.kind() != e2.kind()) return false; return Visitor(e1).Visit(e2);
  | visit               -- return Visitor().Visit(e);
  deriving DecidableEq, Repr

/-- statements of `BasicExprFactory::Copy(src, dst)` after `s = src.data(); size = src.size();` -/
inductive CopyStmt where
  | returnIfSizeZero   -- if (size == 0) return;
  | copyBytes          -- std::copy(s, s + size, dst);
  | storeNulAtSize     -- dst[size] = 0;
  deriving DecidableEq, Repr

/-- normalised syntax tree (node kind, label, children) -/
inductive Sx where
  | n (kind label : String) (ch : List Sx)

end MpVerif.C18

/-!
# C18 — model of `mp::Equal` (ExprComparator) and `std::hash<mp::Expr>` (ExprHasher)

Source mirrored: `src/expr.cc`, `include/mp/expr.h`, `include/mp/basic-expr-visitor.h`,
`include/mp/utils-hash.h` (ampl/mp).  Core Lean only.

* `E C` has one constructor per C++ `Impl` layout that `BasicExprFactory` can allocate; the
  expression kind is a field drawn from the sub-enumeration of kinds legal for that layout
  (`UnK`, `BinK`, `IfK`, `IterK`, `RefK`), so every value of `E C` is something the factory's
  public API can build (modulo the numeric/logical typing of children, which the comparator
  and hasher never look at, except for call arguments — see `equalArgs`).
* `C` is the type of floating constants; `NumOps C` packages `==` on them as a *partial*
  equivalence (IEEE: symmetric, transitive, not reflexive at NaN).
* `equalX` returns an outcome `R`: `tt`/`ff` (returned `true`/`false`), `unsup` (threw
  `UnsupportedError` — kinds for which neither ExprComparator nor BasicExprVisitor defines
  anything but `VisitUnsupported`), `ub` (null dereference; no longer produced by any path since the
  fix of `VisitCall`, see `C18_no_ub`).  `R.and` is C++ `&&`/early `return false`: the right
  operand only matters when the left one is `tt`.
* `hashX` returns `none` when ExprHasher throws `UnsupportedError`, otherwise the 64-bit value
  computed with `HashCombine`; the primitive hashers (`std::hash<int|double|bool|char|const char*>`,
  which live in libstdc++, not in ampl/mp) are parameters (`Prims`).
-/
namespace MpVerif.C18

/-- outcome of one call of `mp::Equal` -/
inductive R where
  | tt | ff | unsup | ub
  deriving DecidableEq, Repr, Inhabited

/-- C++ `a && b` / "if (!a) return false; return b": `b` matters only if `a` returned true;
an exception or a crash in `a` propagates. -/
def R.and : R → R → R
  | .tt, y => y
  | .ff, _ => .ff
  | .unsup, _ => .unsup
  | .ub, _ => .ub

def R.ofBool (b : Bool) : R := if b then .tt else .ff

def R.toStr : R → String
  | .tt => "1" | .ff => "0" | .unsup => "U" | .ub => "X"

/-- `VARIABLE`, `COMMON_EXPR` (class `Reference`) -/
inductive RefK where
  | var | common
  deriving DecidableEq, Repr

/-- `FIRST_UNARY..LAST_UNARY` (class `UnaryExpr`) and `NOT` (class `NotExpr`): `BasicUnaryExpr` -/
inductive UnK where
  | minus | abs | floor | ceil | sqrt | pow2 | exp | log | log10 | sin | sinh | cos | cosh
  | tan | tanh | asin | asinh | acos | acosh | atan | atanh | not
  deriving DecidableEq, Repr

/-- `BasicBinaryExpr` (`BinaryExpr`, `BinaryLogicalExpr`, `RelationalExpr`) and `LogicalCountExpr`
(same two-pointer layout; ExprComparator sends all four through `VisitBinary`) -/
inductive BinK where
  | add | sub | less | mul | div | truncDiv | mod | pow | powConstBase | powConstExp
  | atan2 | precision | round | trunc
  | or | and | iff
  | lt | le | eq | ge | gt | ne
  | atLeast | atMost | exactly | notAtLeast | notAtMost | notExactly
  deriving DecidableEq, Repr

/-- `BasicIfExpr`: `IF`, `IMPLICATION`, `IFSYM` -/
inductive IfK where
  | ifNum | implication | ifSym
  deriving DecidableEq, Repr

/-- `BasicIteratedExpr`: `MIN MAX SUM NUMBEROF NUMBEROF_SYM COUNT EXISTS FORALL ALLDIFF NOT_ALLDIFF` -/
inductive IterK where
  | min | max | sum | numberOf | numberOfSym | count | exists_ | forall_ | allDiff | notAllDiff
  deriving DecidableEq, Repr

/-- `expr::Kind` restricted to the values the factory can store. -/
inductive Kind where
  | number
  | ref (k : RefK)
  | un (k : UnK)
  | bin (k : BinK)
  | ifk (k : IfK)
  | plterm
  | call
  | iter (k : IterK)
  | bool
  | string
  deriving DecidableEq, Repr

/-- `internal::Is<NumericExpr>(kind)`: kind ∈ [FIRST_NUMERIC, LAST_NUMERIC] = NUMBER..COUNT -/
def Kind.isNumeric : Kind → Bool
  | .number | .ref _ | .plterm | .call => true
  | .un k => k != .not
  | .bin k => match k with
    | .add | .sub | .less | .mul | .div | .truncDiv | .mod | .pow | .powConstBase | .powConstExp
    | .atan2 | .precision | .round | .trunc => true
    | _ => false
  | .ifk k => k == .ifNum
  | .iter k => match k with
    | .min | .max | .sum | .numberOf | .numberOfSym | .count => true
    | _ => false
  | .bool | .string => false

/-- Iterated kinds that reach `VisitUnsupported` in *both* visitors: nothing is defined for
`VisitNumberOfSym`. -/
def IterK.unsupported : IterK → Bool
  | .numberOfSym => true
  | _ => false

/-- Floating constants with C++ `==`. -/
structure NumOps (C : Type) where
  feq : C → C → Bool
  symm : ∀ a b, feq a b = feq b a
  trans : ∀ a b c, feq a b = true → feq b c = true → feq a c = true

/-- Expression trees. -/
inductive E (C : Type) : Type where
  | num (v : C)                                   -- NumericConstant
  | ref (k : RefK) (i : Int)                      -- Reference
  | un (k : UnK) (a : E C)                        -- BasicUnaryExpr
  | bin (k : BinK) (l r : E C)                    -- BasicBinaryExpr / LogicalCountExpr
  | ite (k : IfK) (c t e : E C)                   -- BasicIfExpr
  | pl (sb : List (C × C)) (last : C) (arg : E C) -- PLTerm: (slope i, breakpoint i) i<n, slope n, arg
  | call (f : Nat) (args : List (E C))            -- CallExpr: f = identity of the Function object
  | iter (k : IterK) (args : List (E C))          -- BasicIteratedExpr
  | bool (v : Bool)                               -- LogicalConstant
  | str (s : List UInt8)                          -- StringLiteral: bytes copied by MakeStringLiteral
  deriving Repr

def E.kind {C} : E C → Kind
  | .num _ => .number
  | .ref k _ => .ref k
  | .un k _ => .un k
  | .bin k _ _ => .bin k
  | .ite k _ _ _ => .ifk k
  | .pl _ _ _ => .plterm
  | .call _ _ => .call
  | .iter k _ => .iter k
  | .bool _ => .bool
  | .str _ => .string

/-- what `StringLiteral::value()` shows to `strcmp` and to the hashing loop: bytes up to the first NUL -/
def cstr (s : List UInt8) : List UInt8 := s.takeWhile (· != 0)

section equal
variable {C : Type} (N : NumOps C)

/-- the loop of `VisitPLTerm` over (slope i, breakpoint i), after the length test -/
def plPairs : List (C × C) → List (C × C) → Bool
  | [], [] => true
  | p :: ps, q :: qs => (N.feq p.1 q.1 && N.feq p.2 q.2) && plPairs ps qs
  | _, _ => false

mutual
/-- `mp::Equal(e1, e2)`: kind test, then `ExprComparator(e1).Visit(e2)`.  Two trees whose
constructors differ have different kinds (`equalX_of_kind_ne`), hence the final catch-all. -/
def equalX : E C → E C → R
  | .num x, .num y => .ofBool (N.feq x y)                                  -- VisitNumericConstant
  | .ref k i, .ref k' j => if k = k' then .ofBool (i == j) else .ff          -- VisitVariable / VisitCommonExpr
  | .un k a, .un k' b => if k = k' then equalX a b else .ff                 -- VisitUnary
  | .bin k l r, .bin k' l' r' =>                                            -- VisitBinary
      if k = k' then (equalX l l').and (equalX r r') else .ff
  | .ite k c t e, .ite k' c' t' e' =>                                       -- VisitIf / VisitSymbolicIf
      if k = k' then
        (if k = .ifSym then .unsup
         else (equalX c c').and ((equalX t t').and (equalX e e')))
      else .ff
  | .pl sb last arg, .pl sb' last' arg' =>                                  -- VisitPLTerm
      if sb.length ≠ sb'.length then .ff
      else if plPairs N sb sb' = false then .ff
      else (R.ofBool (N.feq last last')).and (equalX arg arg')
  | .call f as, .call g bs =>                                               -- VisitCall
      if f ≠ g ∨ as.length ≠ bs.length then .ff else equalArgs as bs
  | .iter k as, .iter k' bs =>                                              -- VisitVarArg & co.
      if k = k' then (if k.unsupported then .unsup else equalList as bs) else .ff
  | .bool x, .bool y => .ofBool (x == y)                                   -- VisitLogicalConstant
  | .str _, .str _ => .unsup                                                -- VisitStringLiteral (base class)
  | _, _ => .ff                                                             -- e1.kind() != e2.kind()
/-- the loop of `VisitVarArg` -/
def equalList : List (E C) → List (E C) → R
  | [], [] => .tt
  | [], _ :: _ => .ff
  | _ :: _, [] => .ff
  | a :: as, b :: bs => (equalX a b).and (equalList as bs)
/-- the loop of `VisitCall` (argument counts already known to be equal) -/
def equalArgs : List (E C) → List (E C) → R
  | a :: as, b :: bs =>
      (if a.kind ≠ b.kind then R.ff
       else if a.kind.isNumeric then equalX a b
       else match a, b with
         | .str s, .str s' => R.ofBool (cstr s == cstr s')   -- strcmp(...) == 0
         | _, _ => equalX a b                                 -- neither numeric nor string: Equal(arg, other_arg)
      ).and (equalArgs as bs)
  | _, _ => .tt
end

end equal

/-! ## Hashing -/

structure Prims (C : Type) where
  hKind : Kind → UInt64     -- std::hash<int>()(e.kind())
  hDbl  : C → UInt64        -- std::hash<double>
  hInt  : Int → UInt64      -- std::hash<int>
  hBool : Bool → UInt64     -- std::hash<bool>
  hChar : UInt8 → UInt64    -- std::hash<char>
  hFun  : Nat → UInt64      -- std::hash<const char*>()(function.name())

/-- `internal::HashCombine` with `h = std::hash<T>()(v)` -/
def combine (seed h : UInt64) : UInt64 :=
  seed ^^^ (h + (0x9e3779b9 : UInt64) + (seed <<< 6) + (seed >>> 2))

section hash
variable {C : Type} (P : Prims C)

/-- `ExprHasher::Hash(Expr e)` = `HashCombine<int>(0, e.kind())` -/
def hashKind (k : Kind) : UInt64 := combine 0 (P.hKind k)

/-- slopes and breakpoints loop of `VisitPLTerm` -/
def plFold : UInt64 → List (C × C) → UInt64
  | h, [] => h
  | h, p :: ps => plFold (combine (combine h (P.hDbl p.1)) (P.hDbl p.2)) ps

def strFold (h : UInt64) (s : List UInt8) : UInt64 :=
  (cstr s).foldl (fun h c => combine h (P.hChar c)) h

mutual
/-- `std::hash<mp::Expr>()(e)` = `ExprHasher().Visit(e)`; `none` = throws UnsupportedError -/
def hashX : E C → Option UInt64
  | .num v => some (combine (hashKind P .number) (P.hDbl v))
  | .ref k i => some (combine (hashKind P (.ref k)) (P.hInt i))
  | .un k a =>
      match hashX a with
      | none => none
      | some ha => some (combine (hashKind P (.un k)) ha)
  | .bin k l r =>
      match hashX l, hashX r with
      | some hl, some hr => some (combine (combine (hashKind P (.bin k)) hl) hr)
      | _, _ => none
  | .ite k c t e =>
      if k = .ifSym then none else
      match hashX c, hashX t, hashX e with
      | some hc, some ht, some he => some (combine (combine (combine (hashKind P (.ifk k)) hc) ht) he)
      | _, _, _ => none
  | .pl sb last arg =>
      match hashX arg with
      | none => none
      | some ha => some (combine (combine (plFold P (hashKind P .plterm) sb) (P.hDbl last)) ha)
  | .call f as => hashList (combine (hashKind P .call) (P.hFun f)) as
  | .iter k as => if k.unsupported then none else hashList (hashKind P (.iter k)) as
  | .bool v => some (combine (hashKind P .bool) (P.hBool v))
  | .str s => some (strFold P (hashKind P .string) s)
def hashList : UInt64 → List (E C) → Option UInt64
  | h, [] => some h
  | h, a :: as =>
      match hashX a with
      | none => none
      | some ha => hashList (combine h ha) as
end

end hash

/-! ## Predicates used in the statements -/

section preds
variable {C : Type}

mutual
/-- every node is one ExprHasher handles (no IFSYM, NUMBEROF_SYM, NOT_ALLDIFF anywhere) -/
def okH : E C → Bool
  | .num _ | .ref _ _ | .bool _ | .str _ => true
  | .un _ a => okH a
  | .bin _ l r => okH l && okH r
  | .ite k c t e => (k != .ifSym) && (okH c && (okH t && okH e))
  | .pl _ _ arg => okH arg
  | .call _ as => okHList as
  | .iter k as => !k.unsupported && okHList as
def okHList : List (E C) → Bool
  | [] => true
  | a :: as => okH a && okHList as
end

mutual
/-- every node is one ExprComparator handles: as `okH`, and string literals occur only as call
arguments -/
def okC : E C → Bool
  | .num _ | .ref _ _ | .bool _ => true
  | .str _ => false
  | .un _ a => okC a
  | .bin _ l r => okC l && okC r
  | .ite k c t e => (k != .ifSym) && (okC c && (okC t && okC e))
  | .pl _ _ arg => okC arg
  | .call _ as => okCArgs as
  | .iter k as => !k.unsupported && okCList as
def okCList : List (E C) → Bool
  | [] => true
  | a :: as => okC a && okCList as
def okCArgs : List (E C) → Bool
  | [] => true
  | a :: as => (if a.kind.isNumeric then okC a else (a.kind == .string || okC a)) && okCArgs as
end

variable (N : NumOps C)

mutual
/-- no constant in the tree is a NaN (`c == c` holds for each) -/
def noNaN : E C → Bool
  | .num v => N.feq v v
  | .ref _ _ | .bool _ | .str _ => true
  | .un _ a => noNaN a
  | .bin _ l r => noNaN l && noNaN r
  | .ite _ c t e => noNaN c && (noNaN t && noNaN e)
  | .pl sb last arg => sb.all (fun p => N.feq p.1 p.1 && N.feq p.2 p.2) && (N.feq last last && noNaN arg)
  | .call _ as => noNaNList as
  | .iter _ as => noNaNList as
def noNaNList : List (E C) → Bool
  | [] => true
  | a :: as => noNaN a && noNaNList as
end

/-! ## Structural identity, defined without reference to `equalX`:
same constructor, same kind, same references / function, pairwise `==` constants,
children related position by position (same number of them). -/
/-- slopes and breakpoints pairwise `==`, same number of them -/
inductive PLSim : List (C × C) → List (C × C) → Prop where
  | nil : PLSim [] []
  | cons {p q ps qs} : N.feq p.1 q.1 = true → N.feq p.2 q.2 = true → PLSim ps qs → PLSim (p :: ps) (q :: qs)

mutual
inductive Sim : E C → E C → Prop where
  | num {x y} : N.feq x y = true → Sim (.num x) (.num y)
  | ref {k i} : Sim (.ref k i) (.ref k i)
  | un {k a b} : Sim a b → Sim (.un k a) (.un k b)
  | bin {k l r l' r'} : Sim l l' → Sim r r' → Sim (.bin k l r) (.bin k l' r')
  | ite {k c t e c' t' e'} : Sim c c' → Sim t t' → Sim e e' → Sim (.ite k c t e) (.ite k c' t' e')
  | pl {sb sb' last last' arg arg'} :
      PLSim N sb sb' →
      N.feq last last' = true → Sim arg arg' → Sim (.pl sb last arg) (.pl sb' last' arg')
  | call {f as bs} : SimList as bs → Sim (.call f as) (.call f bs)
  | iter {k as bs} : SimList as bs → Sim (.iter k as) (.iter k bs)
  | bool {v} : Sim (.bool v) (.bool v)
  | str {s s'} : cstr s = cstr s' → Sim (.str s) (.str s')
inductive SimList : List (E C) → List (E C) → Prop where
  | nil : SimList [] []
  | cons {a b as bs} : Sim a b → SimList as bs → SimList (a :: as) (b :: bs)
end

end preds

/-! ## IEEE-754 binary64 `==` on bit patterns (the concrete `NumOps` used by the driver) -/

def dblIsNaN (b : UInt64) : Bool :=
  ((b >>> 52) &&& 0x7ff) == 0x7ff && (b &&& 0xfffffffffffff) != 0

def dblIsZero (b : UInt64) : Bool := (b &&& 0x7fffffffffffffff) == 0

def dblEq (a b : UInt64) : Bool :=
  !dblIsNaN a && !dblIsNaN b && (a == b || (dblIsZero a && dblIsZero b))

theorem dblEq_symm (a b : UInt64) : dblEq a b = dblEq b a := by
  unfold dblEq
  rw [BEq.comm (a := a) (b := b)]
  cases dblIsNaN a <;> cases dblIsNaN b <;> cases dblIsZero a <;> cases dblIsZero b <;> simp

theorem dblEq_trans (a b c : UInt64) : dblEq a b = true → dblEq b c = true → dblEq a c = true := by
  unfold dblEq
  simp only [Bool.and_eq_true, Bool.or_eq_true, Bool.not_eq_true', beq_iff_eq]
  grind

def ieee : NumOps UInt64 := ⟨dblEq, dblEq_symm, dblEq_trans⟩

end MpVerif.C18

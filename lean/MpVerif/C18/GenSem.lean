import MpVerif.C18.GenTypes
/-! Meaning of the terms produced by `translators/gen_expr_c18.py`: one step of `mp::Equal` /
`std::hash<mp::Expr>` given the generated entry, dispatch+bodies, seed and `HashCombine`, with the
recursive calls (`Equal` on children, `std::hash<Expr>` of children) as a parameter `rec`.
`Props.lean` proves that the hand model satisfies exactly these equations (`C18_gen_equal_step`,
`C18_gen_hash_step`), i.e. the model is the fixed point of the translated code. -/
namespace MpVerif.C18
variable {C : Type} (N : NumOps C)

def child : Fld → E C → Option (E C)
  | .arg, .un _ a => some a
  | .lhs, .bin _ l _ => some l
  | .rhs, .bin _ _ r => some r
  | .condition, .ite _ c _ _ => some c
  | .thenExpr, .ite _ _ t _ => some t
  | .elseExpr, .ite _ _ _ e => some e
  | _, _ => none

/-- a conjunct; using an accessor the layout does not have is a null/garbage access (`ub`) -/
def atomSem (rec : E C → E C → R) : CmpAtom → E C → E C → R
  | .eqField .value, .num x, .num y => .ofBool (N.feq x y)
  | .eqField .value, .bool x, .bool y => .ofBool (x == y)
  | .eqField .index, .ref _ i, .ref _ j => .ofBool (i == j)
  | .equalField f, a, b =>
      match child f a, child f b with
      | some x, some y => rec x y
      | _, _ => .ub
  | _, _, _ => .ub

def conjSem (rec : E C → E C → R) : List CmpAtom → E C → E C → R
  | [], _, _ => .tt
  | [x], a, b => atomSem N rec x a b
  | x :: xs, a, b => (atomSem N rec x a b).and (conjSem rec xs a b)

/-- loop-carrying comparator handlers: the arm of the hand model (the source of these handlers is
tied by `C18_gen_shape_cmp_*`) -/
def opaqueCmp (rec : E C → E C → R) : OpaqueTag → E C → E C → R
  | .plTerm, .pl sb last arg, .pl sb' last' arg' =>
      if sb.length ≠ sb'.length then .ff
      else if plPairs N sb sb' = false then .ff
      else (R.ofBool (N.feq last last')).and (rec arg arg')
  | .call, .call f as, .call g bs =>
      if f ≠ g ∨ as.length ≠ bs.length then .ff else equalArgs N as bs
  | .varArg, .iter _ as, .iter _ bs => equalList N as bs
  | _, _, _ => .ub

def visitCmp (body : Kind → CmpBody) (rec : E C → E C → R) (a b : E C) : R :=
  match body b.kind with            -- ExprComparator(e1).Visit(e2) dispatches on e2.kind()
  | .conj atoms => conjSem N rec atoms a b
  | .opaque t => opaqueCmp N rec t a b
  | .unsupported => .unsup

def equalStep (entry : Entry) (body : Kind → CmpBody) (rec : E C → E C → R) (a b : E C) : R :=
  match entry with
  | .kindTestThenVisit => if a.kind ≠ b.kind then .ff else visitCmp N body rec a b
  | .visit => visitCmp N body rec a b

variable (P : Prims C)

def chainSem (comb : UInt64 → UInt64 → UInt64) (rec : E C → Option UInt64) :
    UInt64 → List (Fld × Prim) → E C → Option UInt64
  | h, [], _ => some h
  | h, (f, .expr) :: fs, a =>
      match child f a with
      | none => none
      | some c =>
        match rec c with
        | none => none
        | some hc => chainSem comb rec (comb h hc) fs a
  | h, (.value, .dbl) :: fs, .num v => chainSem comb rec (comb h (P.hDbl v)) fs (.num v)
  | h, (.value, .bool) :: fs, .bool v => chainSem comb rec (comb h (P.hBool v)) fs (.bool v)
  | h, (.index, .int) :: fs, .ref k i => chainSem comb rec (comb h (P.hInt i)) fs (.ref k i)
  | _, _, _ => none

/-- loop-carrying hasher handlers: the arm of the hand model (tied by `C18_gen_shape_hash_*`) -/
def opaqueHash (rec : E C → Option UInt64) : OpaqueTag → E C → Option UInt64
  | .plTerm, .pl sb last arg =>
      match rec arg with
      | none => none
      | some ha => some (combine (combine (plFold P (hashKind P .plterm) sb) (P.hDbl last)) ha)
  | .call, .call f as => hashList P (combine (hashKind P .call) (P.hFun f)) as
  | .varArg, .iter k as => hashList P (hashKind P (.iter k)) as
  | .stringLiteral, .str s => some (strFold P (hashKind P .string) s)
  | _, _ => none

def hashStep (entry : Entry) (body : Kind → HashBody) (comb : UInt64 → UInt64 → UInt64) (seed : UInt64)
    (rec : E C → Option UInt64) (a : E C) : Option UInt64 :=
  match entry with
  | .kindTestThenVisit => none
  | .visit =>
    match body a.kind with
    | .chain fs => chainSem P comb rec (comb seed (P.hKind a.kind)) fs a   -- Hash(e) = HashCombine<int>(seed, e.kind())
    | .opaque t => opaqueHash P rec t a
    | .unsupported => none

end MpVerif.C18

import MpVerif.C18.GenTypes
/-! Meaning of the terms produced by `translators/gen_expr_c18.py`: one step of `mp::Equal` /
`std::hash<mp::Expr>` given the generated entry, dispatch+bodies, seed and `HashCombine`, with the
recursive calls (`Equal` on children, `std::hash<Expr>` of children) as a parameter `rec`.
`Props.lean` proves that the hand model satisfies exactly these equations (`C18_gen_equal_step`,
`C18_gen_hash_step`), i.e. the model is the fixed point of the translated code. -/
namespace MpVerif.C18
variable {C : Type} (N : NumOps C)

def child : Fld → E C → Option (E C)
  | .arg, .un _ a => some a
  | .arg, .pl _ _ a => some a
  | .lhs, .bin _ l _ => some l
  | .rhs, .bin _ _ r => some r
  | .condition, .ite _ c _ _ => some c
  | .thenExpr, .ite _ _ t _ => some t
  | .elseExpr, .ite _ _ _ e => some e
  | _, _ => none

/-- a conjunct; using an accessor the layout does not have is a null/garbage access (`ub`) -/
def atomSem (rec : E C → E C → R) : CmpAtom → E C → E C → R
  | .eqField .value, .num x, .num y => .ofBool (N.feq x y)
  | .eqField .value, .bool x, .bool y => .ofBool (x == y)
  | .eqField .index, .ref _ i, .ref _ j => .ofBool (i == j)
  | .equalField f, a, b =>
      match child f a, child f b with
      | some x, some y => rec x y
      | _, _ => .ub
  | _, _, _ => .ub

def conjSem (rec : E C → E C → R) : List CmpAtom → E C → E C → R
  | [], _, _ => .tt
  | [x], a, b => atomSem N rec x a b
  | x :: xs, a, b => (atomSem N rec x a b).and (conjSem rec xs a b)

/-! ### loop-carrying comparator handlers -/

/-- `num_breakpoints()` / `num_args()` / number of iterated arguments -/
def selfCount : E C → Nat
  | .pl sb _ _ => sb.length
  | .call _ as => as.length
  | .iter _ as => as.length
  | _ => 0

def argAt : E C → Nat → Option (E C)
  | .call _ as, i => as[i]?
  | .iter _ as, i => as[i]?
  | _, _ => none

/-- `slope(i)` (i ≤ n) / `breakpoint(i)` (i < n): `data[2i]`, `data[2i+1]` -/
def dAt : DFld → E C → Nat → Option C
  | .slope, .pl sb last _, i => if i < sb.length then sb[i]?.map (·.1) else if i = sb.length then some last else none
  | .breakpoint, .pl sb _ _, i => sb[i]?.map (·.2)
  | _, _, _ => none

def funcOf : E C → Option Nat
  | .call f _ => some f
  | _ => none

def evalI (a : E C) (i : Nat) : IExp → Nat
  | .idx => i
  | .selfN => selfCount a
  | .lit n => n

/-- C++ `||` on outcomes -/
def R.or : R → R → R
  | .tt, _ => .tt
  | .ff, y => y
  | .unsup, _ => .unsup
  | .ub, _ => .ub

/-- C++ `!` on outcomes -/
def R.not : R → R
  | .tt => .ff
  | .ff => .tt
  | .unsup => .unsup
  | .ub => .ub

/-- apply to two accessor results; an accessor used out of range or on the wrong layout is `ub` -/
def opt2 {α β : Type} (g : α → β → R) : Option α → Option β → R
  | some x, some y => g x y
  | _, _ => .ub

/-- `strcmp(Cast<StringLiteral>(x).value(), Cast<StringLiteral>(y).value()) != 0` -/
def strcmpNe : E C → E C → R
  | .str s, .str s' => .ofBool (cstr s != cstr s')
  | _, _ => .ub

/-- a condition -/
def evalB (rec : E C → E C → R) (a b : E C) (i : Nat) : BExp → R
  | .tru => .tt
  | .neCount => .ofBool (selfCount a != selfCount b)
  | .neFunc => opt2 (fun f g => R.ofBool (f != g)) (funcOf a) (funcOf b)
  | .neD f ix => opt2 (fun x y => R.ofBool (!N.feq x y)) (dAt f a (evalI a i ix)) (dAt f b (evalI a i ix))
  | .eqD f ix => opt2 (fun x y => R.ofBool (N.feq x y)) (dAt f a (evalI a i ix)) (dAt f b (evalI a i ix))
  | .otherExhausted ix => .ofBool (decide (selfCount b ≤ evalI a i ix))
  | .otherCountIs ix => .ofBool (selfCount b == evalI a i ix)
  | .neKindArg ix => opt2 (fun x y => R.ofBool (decide (x.kind ≠ y.kind))) (argAt a (evalI a i ix)) (argAt b (evalI a i ix))
  | .equalArg ix => opt2 rec (argAt a (evalI a i ix)) (argAt b (evalI a i ix))
  | .strcmpNeArg ix => opt2 strcmpNe (argAt a (evalI a i ix)) (argAt b (evalI a i ix))
  | .equalChild f => opt2 rec (child f a) (child f b)
  | .or x y => (evalB rec a b i x).or (evalB rec a b i y)
  | .and x y => (evalB rec a b i x).and (evalB rec a b i y)
  | .not x => (evalB rec a b i x).not

def evalG (a : E C) (i : Nat) : Guard → Bool
  | .isNumericArg ix => match argAt a (evalI a i ix) with
    | some x => x.kind.isNumeric
    | none => false
  | .isStringArg ix => match argAt a (evalI a i ix) with
    | some x => x.kind == .string
    | none => false

/-- `for (int i = 0; i < n; ++i) body` where a body that returns false yields `ff`, one that falls through `tt` -/
def andRange : Nat → (Nat → R) → R
  | 0, _ => .tt
  | n + 1, f => (f 0).and (andRange n (fun k => f (k + 1)))

mutual
/-- A statement as an outcome: `tt` = fell through, `ff` = returned false, otherwise what it threw.  Sound
because every early exit of these handlers is `return false` (checked by the translator), so the function's
value is the short-circuit conjunction of its statements. -/
def semS (rec : E C → E C → R) (a b : E C) : CStmt → Nat → R
  | .failIf c, i => (evalB N rec a b i c).not
  | .ite g t e, i => if evalG a i g then semL rec a b t i else semL rec a b e i
  | .forRange n body, i => andRange (evalI a i n) (fun k => semL rec a b body k)
  | .ret c, i => evalB N rec a b i c
def semL (rec : E C → E C → R) (a b : E C) : List CStmt → Nat → R
  | [], _ => .tt
  | s :: rest, i => (semS rec a b s i).and (semL rec a b rest i)
end

def visitCmp (body : Kind → CmpBody) (rec : E C → E C → R) (a b : E C) : R :=
  match body b.kind with            -- ExprComparator(e1).Visit(e2) dispatches on e2.kind()
  | .conj atoms => conjSem N rec atoms a b
  | .prog p => semL N rec a b p 0
  | .unsupported => .unsup

def equalStep (entry : Entry) (body : Kind → CmpBody) (rec : E C → E C → R) (a b : E C) : R :=
  match entry with
  | .kindTestThenVisit => if a.kind ≠ b.kind then .ff else visitCmp N body rec a b
  | .visit => visitCmp N body rec a b

variable (P : Prims C)

def chainSem (comb : UInt64 → UInt64 → UInt64) (rec : E C → Option UInt64) :
    UInt64 → List (Fld × Prim) → E C → Option UInt64
  | h, [], _ => some h
  | h, (f, .expr) :: fs, a =>
      match child f a with
      | none => none
      | some c =>
        match rec c with
        | none => none
        | some hc => chainSem comb rec (comb h hc) fs a
  | h, (.value, .dbl) :: fs, .num v => chainSem comb rec (comb h (P.hDbl v)) fs (.num v)
  | h, (.value, .bool) :: fs, .bool v => chainSem comb rec (comb h (P.hBool v)) fs (.bool v)
  | h, (.index, .int) :: fs, .ref k i => chainSem comb rec (comb h (P.hInt i)) fs (.ref k i)
  | _, _, _ => none

/-! ### loop-carrying hasher handlers -/

def strOf : E C → Option (List UInt8)
  | .str s => some (cstr s)
  | _ => none

/-- `std::hash<T>` of a value combined into the hash; `none` = throws / not available -/
def evalHV (rec : E C → Option UInt64) (a : E C) (i : Nat) : HVal → Option UInt64
  | .dAt f ix => (dAt f a (evalI a i ix)).map P.hDbl
  | .argAt ix => (argAt a (evalI a i ix)).bind rec
  | .childArg => (child .arg a).bind rec
  | .funcName => (funcOf a).map P.hFun
  | .charAt ix => (strOf a).bind (fun s => s[evalI a i ix]?.map P.hChar)

def evalHC (a : E C) : HCount → Nat
  | .selfN => selfCount a
  | .strlen => ((strOf a).map List.length).getD 0

/-- `for (i = 0; i < n; ++i) hash = step(i, hash)` -/
def foldRange : Nat → (Nat → UInt64 → Option UInt64) → UInt64 → Option UInt64
  | 0, _, h => some h
  | n + 1, f, h => (f 0 h).bind (foldRange n (fun k => f (k + 1)))

mutual
def semHS (comb : UInt64 → UInt64 → UInt64) (rec : E C → Option UInt64) (a : E C) : HStmt → Nat → UInt64 → Option UInt64
  | .combine v, i, h => (evalHV P rec a i v).map (comb h)
  | .forRange n body, _, h => foldRange (evalHC a n) (fun k h' => semHL comb rec a body k h') h
def semHL (comb : UInt64 → UInt64 → UInt64) (rec : E C → Option UInt64) (a : E C) : List HStmt → Nat → UInt64 → Option UInt64
  | [], _, h => some h
  | s :: rest, i, h => (semHS comb rec a s i h).bind (semHL comb rec a rest i)
end

def hashStep (entry : Entry) (body : Kind → HashBody) (comb : UInt64 → UInt64 → UInt64) (seed : UInt64)
    (rec : E C → Option UInt64) (a : E C) : Option UInt64 :=
  match entry with
  | .kindTestThenVisit => none
  | .visit =>
    match body a.kind with
    | .chain fs => chainSem P comb rec (comb seed (P.hKind a.kind)) fs a   -- Hash(e) = HashCombine<int>(seed, e.kind())
    | .prog p => semHL P comb rec a p 0 (comb seed (P.hKind a.kind))   -- hash = Hash(e); p; return hash
    | .unsupported => none

/-! ### the factory's string copy

`buf` is the destination storage as `MakeStringLiteral` got it from the allocator (arbitrary bytes). -/
def copyRun : List CopyStmt → List UInt8 → List UInt8 → List UInt8
  | [], _, buf => buf
  | .returnIfSizeZero :: rest, src, buf => if src.length = 0 then buf else copyRun rest src buf
  | .copyBytes :: rest, src, buf => copyRun rest src (src ++ buf.drop src.length)
  | .storeNulAtSize :: rest, src, buf => copyRun rest src (buf.set src.length 0)

end MpVerif.C18

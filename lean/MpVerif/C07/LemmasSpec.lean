import MpVerif.C07.Spec
import MpVerif.C07.Lemmas
/-!
# C07 — the checker's evaluators and violation measures against the mathematical clauses of `Spec.lean`

* `value_eq_denote`: every `ComputeValue` overload of the model (`Func.value`) computes the mathematical function
  `Func.denote` on the domain `Func.inDomain`;
* `sos1_iff`, `sos2_iff`, `compl_iff`: the violation measures of SOS1 / SOS2 / complementarity constraints are within a
  tolerance `0 ≤ ea < 1` exactly when the mathematical clause of `ConSpec` holds.
-/
namespace MpVerif.C07

theorem isBoolV_cases {q : Rat} (h : isBoolV q = true) : q = 0 ∨ q = 1 := by
  unfold isBoolV at h; simp at h; exact h

theorem bool_ge_half {q : Rat} (h : isBoolV q = true) : ((1/2 : Rat) ≤ q) ↔ q = 1 := by
  rcases isBoolV_cases h with h | h <;> subst h <;> constructor <;> intro hh <;> (first | rfl | (exfalso; revert hh; decide +kernel) | decide +kernel)

theorem bool_lt_half {q : Rat} (h : isBoolV q = true) : (q < (1/2 : Rat)) ↔ q = 0 := by
  rcases isBoolV_cases h with h | h <;> subst h <;> constructor <;> intro hh <;> (first | rfl | (exfalso; revert hh; decide +kernel) | decide +kernel)

theorem bool_ne_one {q : Rat} (h : isBoolV q = true) : (q = 0) ↔ ¬ (q = 1) := by
  rcases isBoolV_cases h with h | h <;> subst h <;> constructor <;> intro hh <;> (first | rfl | decide +kernel | (exfalso; revert hh; decide +kernel) | (exfalso; exact hh rfl))

theorem any_congr_mem {α} (l : List α) (p q : α → Bool) (h : ∀ a ∈ l, p a = q a) : l.any p = l.any q := by
  induction l with
  | nil => rfl
  | cons a t ih => simp only [List.any_cons]; rw [h a (by simp), ih (fun b hb => h b (List.mem_cons_of_mem _ hb))]

theorem all_congr_mem {α} (l : List α) (p q : α → Bool) (h : ∀ a ∈ l, p a = q a) : l.all p = l.all q := by
  induction l with
  | nil => rfl
  | cons a t ih => simp only [List.all_cons]; rw [h a (by simp), ih (fun b hb => h b (List.mem_cons_of_mem _ hb))]

theorem and_lemma (x : Pt) (a : List Nat) (h : ∀ i ∈ a, isBoolV (x i) = true) :
    (!(a.map x).any (fun v => decide (v < 1/2))) = a.all (fun i => decide (x i = 1)) := by
  induction a with
  | nil => rfl
  | cons i t ih =>
    have hi := h i (by simp)
    have ht := ih (fun j hj => h j (List.mem_cons_of_mem _ hj))
    simp only [List.map_cons, List.any_cons, List.all_cons, Bool.not_or, ht]
    congr 1
    rcases isBoolV_cases hi with h0 | h1
    · rw [h0]; decide +kernel
    · rw [h1]; decide +kernel

/-- the evaluator computes the mathematical function on its domain (logical family, min/max, div, if, count, reified rows,
PL, powers, affine/quadratic) -/
theorem value_eq_denote_basic (f : Func) (e : Env) (h : f.inDomain e = true)
    (hk : match f with | .alldiff _ | .numberofConst _ _ | .numberofVar _ _ => False | _ => True) :
    f.value e = f.denote e := by
  cases f with
  | affine b => rfl
  | max a => rfl
  | min a => rfl
  | abs a => rfl
  | and a =>
    simp only [Func.inDomain, List.all_eq_true] at h
    simp only [Func.value, Func.denote]
    rw [and_lemma e.x a h]
  | or a =>
    simp only [Func.inDomain, List.all_eq_true] at h
    simp only [Func.value, Func.denote, List.any_map]
    congr 1
    apply any_congr_mem
    intro i hi
    exact decide_eq_decide.mpr (bool_ge_half (h i hi))
  | not a =>
    simp only [Func.inDomain] at h
    simp only [Func.value, Func.denote]
    congr 1; exact decide_eq_decide.mpr (bool_lt_half h)
  | div a b => rfl
  | ifthen c t el =>
    simp only [Func.inDomain] at h
    simp only [Func.value, Func.denote]
    by_cases hc : e.x c = 1
    · rw [if_pos ((bool_ge_half h).mpr hc), if_pos hc]
    · rw [if_neg (fun hh => hc ((bool_ge_half h).mp hh)), if_neg hc]
  | impl c t el =>
    simp only [Func.inDomain, Bool.and_eq_true] at h
    obtain ⟨⟨hc, ht⟩, hel⟩ := h
    simp only [Func.value, Func.denote]
    congr 1
    rcases isBoolV_cases hc with h0 | h0 <;> rcases isBoolV_cases ht with t0 | t0 <;> rcases isBoolV_cases hel with e0 | e0 <;>
      simp only [h0, t0, e0] <;> decide +kernel
  | alldiff a => exact absurd hk (by simp)
  | numberofConst k a => exact absurd hk (by simp)
  | numberofVar v0 a => exact absurd hk (by simp)
  | count a =>
    simp only [Func.inDomain, List.all_eq_true] at h
    simp only [Func.value, Func.denote, List.filter_map, List.length_map]
    congr 2
    apply List.filter_congr
    intro i hi
    exact decide_eq_decide.mpr (bool_ge_half (h i hi))
  | cond c => rfl
  | pl pts a => rfl
  | pow a k => rfl

theorem isIntV_eq {q : Rat} (h : isIntV q = true) : ((cround q : Int) : Rat) = q := by
  unfold isIntV at h; simpa using h

theorem int_ne_far {a b : Rat} (ha : isIntV a = true) (hb : isIntV b = true) (hne : a ≠ b) : 1 ≤ rabs (a - b) := by
  have ea := isIntV_eq ha
  have eb := isIntV_eq hb
  have hn : cround a ≠ cround b := by
    intro h; apply hne; rw [← ea, ← eb, h]
  rw [← ea, ← eb]
  have hc : ((cround a : Int) : Rat) - ((cround b : Int) : Rat) = ((cround a - cround b : Int) : Rat) := by push_cast; rfl
  rw [hc]
  unfold rabs
  rcases Int.lt_or_gt_of_ne hn with hlt | hgt
  · have h1 : cround a - cround b ≤ -1 := by omega
    have h2 : ((cround a - cround b : Int) : Rat) ≤ ((-1 : Int) : Rat) := by exact_mod_cast h1
    have h3 : ¬ (0 ≤ ((cround a - cround b : Int) : Rat)) := by
      intro h0; have : ((-1 : Int) : Rat) = -1 := by push_cast; rfl
      grind
    simp only [h3, if_false]
    have : ((-1 : Int) : Rat) = -1 := by push_cast; rfl
    grind
  · have h1 : 1 ≤ cround a - cround b := by omega
    have h2 : ((1 : Int) : Rat) ≤ ((cround a - cround b : Int) : Rat) := by exact_mod_cast h1
    have : ((1 : Int) : Rat) = 1 := by push_cast; rfl
    have h3 : 0 ≤ ((cround a - cround b : Int) : Rat) := by grind
    simp only [h3, if_true]; grind

theorem hit_eq (e : Env) (k : Rat) (v : Nat) (hk : isIntV k = true) (hv : isIntV (e.x v) = true)
    (ht0 : 0 ≤ e.feastol) (ht : e.feastol < 1/2) : numberofHit e k v = decide (e.x v = k) := by
  unfold numberofHit
  by_cases h : e.x v = k
  · have : rabs (e.x v - k) ≤ e.feastol := by
      have : e.x v - k = 0 := by grind
      rw [this]; unfold rabs; simp only [Rat.le_refl, if_true]; exact ht0
    simp only [h, decide_true, Bool.or_eq_true, decide_eq_true_eq]
    right; rw [h] at this; exact this
  · have hfar := int_ne_far hv hk h
    have h1 : ¬ (rabs (e.x v - k) ≤ e.feastol) := by grind
    have h2 : ¬ (((cround (e.x v) : Int) : Rat) = k) := by rw [isIntV_eq hv]; exact h
    simp [h, h1, h2]

theorem anyEqRound_eq (l : List Rat) (h : ∀ q ∈ l, isIntV q = true) : anyEqRound l = anyEq l := by
  induction l with
  | nil => rfl
  | cons a t ih =>
    simp only [anyEqRound, anyEq]
    rw [ih (fun q hq => h q (List.mem_cons_of_mem _ hq))]
    congr 1
    apply any_congr_mem
    intro b hb
    have ha := h a (by simp)
    have hb' := h b (List.mem_cons_of_mem _ hb)
    by_cases hab : a = b
    · subst hab; simp
    · have : cround a ≠ cround b := by
        intro hc; apply hab; rw [← isIntV_eq ha, ← isIntV_eq hb', hc]
      simp [hab, this]

/-- **the evaluators of `constr_eval.h` compute the mathematical functions on their domain** -/
theorem value_eq_denote (f : Func) (e : Env) (h : f.inDomain e = true) (ht0 : 0 ≤ e.feastol) : f.value e = f.denote e := by
  cases f with
  | alldiff a =>
    simp only [Func.inDomain, List.all_eq_true] at h
    simp only [Func.value, Func.denote]
    rw [anyEqRound_eq]
    intro q hq
    obtain ⟨i, hi, rfl⟩ := List.mem_map.mp hq
    exact h i hi
  | numberofConst k a =>
    simp only [Func.inDomain, Bool.and_eq_true, List.all_eq_true, decide_eq_true_eq] at h
    obtain ⟨⟨hk, ha⟩, ht⟩ := h
    simp only [Func.value, Func.denote]
    congr 2
    apply List.filter_congr
    intro v hv
    exact hit_eq e k v hk (ha v hv) ht0 ht
  | numberofVar v0 a =>
    simp only [Func.inDomain, Bool.and_eq_true, List.all_eq_true, decide_eq_true_eq] at h
    obtain ⟨⟨hk, ha⟩, ht⟩ := h
    simp only [Func.value, Func.denote]
    congr 2
    apply List.filter_congr
    intro v hv
    exact hit_eq e (e.x v0) v hk (ha v hv) ht0 ht
  | _ => exact value_eq_denote_basic _ e h (by simp)

/-! ## SOS and complementarity -/

theorem nat_sum_le_iff (a b : Nat) (ea : Rat) (h0 : 0 ≤ ea) (h1 : ea < 1) : ((a : Rat) + (b : Rat) ≤ ea) ↔ (a = 0 ∧ b = 0) := by
  constructor
  · intro h
    by_cases hz : a + b = 0
    · omega
    · exfalso
      have h2 : 1 ≤ a + b := by omega
      have h3 : ((1 : Nat) : Rat) ≤ ((a + b : Nat) : Rat) := by exact_mod_cast h2
      have h4 : ((a + b : Nat) : Rat) = (a : Rat) + (b : Rat) := by push_cast; rfl
      have h5 : ((1 : Nat) : Rat) = 1 := by push_cast; rfl
      grind
  · rintro ⟨rfl, rfl⟩
    have : ((0 : Nat) : Rat) = 0 := by push_cast; rfl
    rw [this]; grind

theorem nat_le_iff (a : Nat) (ea : Rat) (h0 : 0 ≤ ea) (h1 : ea < 1) : ((a : Rat) ≤ ea) ↔ a = 0 := by
  have := nat_sum_le_iff a 0 ea h0 h1
  have hz : ((0 : Nat) : Rat) = 0 := by push_cast; rfl
  rw [hz] at this
  constructor
  · intro h; exact (this.mp (by grind)).1
  · intro h; have := this.mpr ⟨h, rfl⟩; grind

theorem sos1_iff (vs : List Nat) (e : Env) (ea er : Rat) (h0 : 0 ≤ ea) (h1 : ea < 1) :
    ((sos1Viol vs e).check ea (some er)).1 = false ↔ (vs.filter (nonZeroV e)).length ≤ 1 := by
  have hf : nonZeroV e = e.isNonzero := by funext v; rfl
  simp only [sos1Viol, within_fin_some _ _ _ _ h0, hf]
  simp only [ne_eq, not_true_eq_false, false_and, or_false]
  rw [nat_le_iff _ ea h0 h1]; omega

theorem sos2_core (L : List Nat) (ea : Rat) (h0 : 0 ≤ ea) (h1 : ea < 1) :
    ((((L.reverse.length - 2 : Nat) : Nat) : Rat) +
      (((1 - (match L.reverse with | p1 :: p2 :: _ => (p1 : Int) - (p2 : Int) | _ => (1 : Int))).natAbs : Nat) : Rat) ≤ ea) ↔ SOS2OK L := by
  rw [nat_sum_le_iff _ _ ea h0 h1]
  match L with
  | [] => simp [SOS2OK]
  | [a] => simp [SOS2OK]
  | [a, b] => simp [SOS2OK]; omega
  | a :: b :: c :: t =>
    simp only [SOS2OK, iff_false, not_and]
    intro h; simp at h

theorem sos2_iff (vs : List Nat) (e : Env) (ea er : Rat) (h0 : 0 ≤ ea) (h1 : ea < 1) :
    ((sos2Viol vs e).check ea (some er)).1 = false ↔
      SOS2OK ((List.range vs.length).filter (fun i => positiveV e (vs.getD i 0))) := by
  have hf : (fun i => positiveV e (vs.getD i 0)) = (fun i => e.isPositive (vs.getD i 0)) := by funext v; rfl
  simp only [sos2Viol, within_fin_some _ _ _ _ h0, hf]
  simp only [ne_eq, not_true_eq_false, false_and, or_false]
  rw [List.filter_reverse]
  exact sos2_core _ ea h0 h1

theorem atUbV_eq (e : Env) (v : Nat) : atUbV e v = e.isAtUb v := by
  unfold atUbV Env.isAtUb
  cases e.ub v with
  | none => rfl
  | some u =>
    simp only
    have : (u - e.x v ≤ e.feastol) ↔ (-(e.x v - u) ≤ e.feastol) := by
      have : u - e.x v = -(e.x v - u) := by grind
      rw [this]
    simp only [this]

theorem compl_iff (ex : Body) (v : Nat) (e : Env) (ea er : Rat) (h0 : 0 ≤ ea) :
    ((complViol ex v e).check ea (some er)).1 = false ↔
      (if atLbV e v then -(ex.val e.x) ≤ ea else if atUbV e v then ex.val e.x ≤ ea else rabs (ex.val e.x) ≤ ea) := by
  have hl : atLbV e v = e.isAtLb v := rfl
  rw [atUbV_eq, hl]
  simp only [complViol]
  split <;> (try split) <;> simp [within_fin_some _ _ _ _ h0]

end MpVerif.C07

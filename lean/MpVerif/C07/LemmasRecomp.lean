import MpVerif.C07.Model
/-! Lemmas about `recompute` (recomputation of auxiliary variables) — core Lean only. -/
namespace MpVerif.C07

theorem linVal_congr (t : List (Rat × Nat)) (x y : Pt) (h : ∀ p ∈ t, x p.2 = y p.2) : linVal t x = linVal t y := by
  induction t with
  | nil => rfl
  | cons p t ih =>
    obtain ⟨c, v⟩ := p
    simp only [linVal]
    rw [h (c, v) (by simp), ih (fun q hq => h q (List.mem_cons_of_mem _ hq))]

theorem quadVal_congr (t : List (Rat × Nat × Nat)) (x y : Pt)
    (h : ∀ p ∈ t, x p.2.1 = y p.2.1 ∧ x p.2.2 = y p.2.2) : quadVal t x = quadVal t y := by
  induction t with
  | nil => rfl
  | cons p t ih =>
    obtain ⟨c, v1, v2⟩ := p
    simp only [quadVal]
    have := h (c, v1, v2) (by simp)
    rw [this.1, this.2, ih (fun q hq => h q (List.mem_cons_of_mem _ hq))]

theorem Body.val_congr (b : Body) (x y : Pt) (h : ∀ v ∈ b.vars, x v = y v) : b.val x = b.val y := by
  unfold Body.val
  have hl : linVal b.lin x = linVal b.lin y := by
    apply linVal_congr; intro p hp; apply h; unfold Body.vars
    exact List.mem_append_left _ (List.mem_map.mpr ⟨p, hp, rfl⟩)
  have hq : quadVal b.quad x = quadVal b.quad y := by
    apply quadVal_congr; intro p hp
    constructor <;> (apply h; unfold Body.vars; apply List.mem_append_right; apply List.mem_flatMap.mpr;
                     refine ⟨p, hp, ?_⟩; simp)
  rw [hl, hq]

/-- the value of a defining expression only depends on the values of the variables it mentions -/
theorem Func.value_congr (f : Func) (e e' : Env) (hx : ∀ v ∈ f.vars, e.x v = e'.x v)
    (hi : e.isInt = e'.isInt) (ht : e.feastol = e'.feastol) : f.value e = f.value e' := by
  have hmap : ∀ a : List Nat, (∀ v ∈ a, e.x v = e'.x v) → a.map e.x = a.map e'.x :=
    fun a h => List.map_congr_left h
  have hhit : ∀ (k k' : Rat) (a : List Nat), k = k' → (∀ v ∈ a, e.x v = e'.x v) →
      a.filter (numberofHit e k) = a.filter (numberofHit e' k') := by
    intro k k' a hk h
    apply List.filter_congr
    intro v hv
    unfold numberofHit
    rw [h v hv, hi, ht, hk]
  cases f with
  | affine b => exact Body.val_congr b _ _ hx
  | max a => simp only [Func.value, hmap a hx]
  | min a => simp only [Func.value, hmap a hx]
  | abs a => simp only [Func.value, hx a (by simp [Func.vars])]
  | and a => simp only [Func.value, hmap a hx]
  | or a => simp only [Func.value, hmap a hx]
  | not a => simp only [Func.value, hx a (by simp [Func.vars])]
  | div a b => simp only [Func.value, hx a (by simp [Func.vars]), hx b (by simp [Func.vars])]
  | ifthen c t el =>
    simp only [Func.value, hx c (by simp [Func.vars]), hx t (by simp [Func.vars]), hx el (by simp [Func.vars])]
  | impl c t el =>
    simp only [Func.value, hx c (by simp [Func.vars]), hx t (by simp [Func.vars]), hx el (by simp [Func.vars])]
  | alldiff a => simp only [Func.value, hmap a hx]
  | numberofConst k a => simp only [Func.value, hhit k k a rfl hx]
  | numberofVar v0 a =>
    have h0 : e.x v0 = e'.x v0 := hx v0 (by simp [Func.vars])
    have ha : ∀ v ∈ a, e.x v = e'.x v := fun v hv => hx v (by simp [Func.vars, hv])
    simp only [Func.value, hhit _ _ a h0 ha]
  | count a => simp only [Func.value, hmap a hx]
  | cond c =>
    have : c.body.val e.x = c.body.val e'.x := Body.val_congr c.body _ _ hx
    simp only [Func.value, this]
  | pl pts a => simp only [Func.value, hx a (by simp [Func.vars])]
  | pow a k => simp only [Func.value, hx a (by simp [Func.vars])]

/-! ### the forward sweep -/

theorem recompStep_length (m : Model) (o : Opts) (xs : List Rat) (i : Nat) :
    (recompStep m o xs i).length = xs.length := by
  unfold recompStep; split <;> simp

theorem recomputeUpTo_length (m : Model) (o : Opts) (xs : List Rat) (k : Nat) :
    (recomputeUpTo m o xs k).length = xs.length := by
  induction k with
  | zero => rfl
  | succ k ih => simp only [recomputeUpTo, recompStep_length, ih]

theorem recompStep_getD_ne (m : Model) (o : Opts) (xs : List Rat) (i j : Nat) (h : i ≠ j) :
    (recompStep m o xs i).getD j 0 = xs.getD j 0 := by
  unfold recompStep
  split
  · simp only [List.getD_eq_getElem?_getD, List.getElem?_set_ne h]
  · rfl

theorem recompStep_getD_self (m : Model) (o : Opts) (xs : List Rat) (i : Nat) (h : i < xs.length) :
    (recompStep m o xs i).getD i 0 =
      match m.defOf i with
      | some f => f.value (m.envOf o xs [] true)
      | none => xs.getD i 0 := by
  unfold recompStep
  cases hd : m.defOf i with
  | some f => simp only [List.getD_eq_getElem?_getD, List.getElem?_set_self h, Option.getD_some]
  | none => rfl

/-- entries at or above the sweep position are still the input values -/
theorem recomputeUpTo_getD_ge (m : Model) (o : Opts) (xs : List Rat) (k j : Nat) (h : k ≤ j) :
    (recomputeUpTo m o xs k).getD j 0 = xs.getD j 0 := by
  induction k with
  | zero => rfl
  | succ k ih =>
    simp only [recomputeUpTo]
    rw [recompStep_getD_ne _ _ _ _ _ (by omega), ih (by omega)]

/-- entries below the sweep position are final -/
theorem recomputeUpTo_getD_stable (m : Model) (o : Opts) (xs : List Rat) (j k : Nat) (h : j < k) :
    (recomputeUpTo m o xs k).getD j 0 = (recomputeUpTo m o xs (j + 1)).getD j 0 := by
  induction k with
  | zero => omega
  | succ k ih =>
    by_cases hk : j = k
    · subst hk; rfl
    · simp only [recomputeUpTo]
      rw [recompStep_getD_ne _ _ _ _ _ (by omega), ih (by omega)]
      rfl

theorem ptOf_apply (xs : List Rat) (i : Nat) : ptOf xs i = xs.getD i 0 := rfl

/-- **fixpoint equations**: on a model whose definitions are ordered, every entry of the swept vector is the value
of its defining expression *at the swept vector itself* (or the input value if the variable has no definition) -/
theorem recomputeUpTo_fixpoint (m : Model) (o : Opts) (xs : List Rat) (hn : xs.length = m.nvars)
    (hord : m.ordered = true) (i : Nat) (hi : i < xs.length) :
    let y := recomputeUpTo m o xs xs.length
    y.getD i 0 =
      match m.defOf i with
      | some f => f.value (m.envOf o y [] true)
      | none => xs.getD i 0 := by
  intro y
  have h1 : y.getD i 0 = (recomputeUpTo m o xs (i + 1)).getD i 0 := recomputeUpTo_getD_stable m o xs i _ hi
  have hlen : i < (recomputeUpTo m o xs i).length := by rw [recomputeUpTo_length]; exact hi
  rw [h1]
  simp only [recomputeUpTo]
  rw [recompStep_getD_self _ _ _ _ hlen]
  cases hd : m.defOf i with
  | none => simp only [recomputeUpTo_getD_ge m o xs i i (Nat.le_refl _)]
  | some f =>
    simp only
    apply Func.value_congr
    · intro v hv
      have hvi : v < i := by
        unfold Model.ordered at hord
        rw [List.all_eq_true] at hord
        have := hord i (List.mem_range.mpr (hn ▸ hi))
        simp only [hd, List.all_eq_true, decide_eq_true_eq] at this
        exact this v hv
      show ptOf _ v = ptOf _ v
      rw [ptOf_apply, ptOf_apply]
      have hs : y.getD v 0 = (recomputeUpTo m o xs (v + 1)).getD v 0 :=
        recomputeUpTo_getD_stable m o xs v _ (by omega)
      rw [hs]
      by_cases hvi' : v + 1 = i
      · rw [hvi']
      · exact recomputeUpTo_getD_stable m o xs v i hvi
    · rfl
    · rfl

end MpVerif.C07

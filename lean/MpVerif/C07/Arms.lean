import MpVerif.C07.Model
/-! Instrumentation only (coverage of the model's own branches by the correspondence stream): for a run, the list of
`match`/`if` arms of the model functions that the evaluation goes through.  Not used by any theorem or verdict. -/
namespace MpVerif.C07

def checkArm (v : Violation) (ea : Rat) (er : Option Rat) : String :=
  match v.viol with
  | .ninf => "chk:ninf"
  | .pinf => "chk:pinf"
  | .fin a =>
    if ea < a then
      if v.ref = 0 then "chk:exceeds-abs,ref=0"
      else match er with
        | none => "chk:epsrel-inf"
        | some e => if e < rabs (a / v.ref) then "chk:exceeds-both" else "chk:within-rel"
    else "chk:within-abs"

def algArm (c : AlgCon) (x : Pt) : String :=
  let bd := c.body.val x
  let k := match c.kind with | .range => "range" | .lt => "lt" | .le => "le" | .eq => "eq" | .ge => "ge" | .gt => "gt"
  "alg:" ++ k ++ ":" ++
  (match c.lo, c.hi with
   | some l, some u => if bd < l then "both:below" else if u < bd then "both:above" else "both:inside"
   | some l, none => if bd < l then "lo:below" else "lo:ok"
   | none, some u => if u < bd then "hi:above" else "hi:ok"
   | none, none => "free")

def ctxStr : Ctx → String
  | .none => "none" | .pos => "pos" | .neg => "neg" | .mix => "mix"

def plArm (pts : List (Rat × Rat)) (x : Rat) : String :=
  match pts with
  | [] => "pl:empty"
  | (x0, _) :: _ =>
    if x < x0 then "pl:left"
    else match pts.reverse with
      | (xl, _) :: _ => if xl < x then "pl:right" else if pts.any (fun p => p.1 == x) then "pl:at-point" else "pl:interpolate"
      | [] => "pl:empty"

def funcKindArm (f : Func) (e : Env) : String :=
  match f with
  | .affine b => if b.quad.isEmpty then "val:affine" else "val:quadratic"
  | .max _ => "val:max" | .min _ => "val:min" | .abs _ => "val:abs"
  | .and _ => "val:and=" ++ toString (f.value e) | .or _ => "val:or=" ++ toString (f.value e)
  | .not _ => "val:not=" ++ toString (f.value e)
  | .div _ _ => "val:div"
  | .ifthen c _ _ => if (1/2 : Rat) ≤ e.x c then "val:ifthen:then" else "val:ifthen:else"
  | .impl c _ _ => (if (1/2 : Rat) ≤ e.x c then "val:impl:then=" else "val:impl:else=") ++ toString (f.value e)
  | .alldiff _ => "val:alldiff=" ++ toString (f.value e)
  | .numberofConst k a => "val:numberofConst:" ++
      (if a.any (fun v => e.isInt v && decide ((cround (e.x v) : Rat) = k)) then "int-hit" else
       if a.any (fun v => decide (rabs (e.x v - k) ≤ e.feastol)) then "tol-hit" else "no-hit")
  | .numberofVar v0 a => "val:numberofVar:" ++
      (if a.any (fun v => e.isInt v && decide ((cround (e.x v) : Rat) = e.x v0)) then "int-hit" else
       if a.any (fun v => decide (rabs (e.x v - e.x v0) ≤ e.feastol)) then "tol-hit" else "no-hit")
  | .count _ => "val:count"
  | .cond c => "val:cond:" ++ (match c.kind with | .lt => "lt" | .gt => "gt" | .eq => "eq" | .le => "le" | .ge => "ge" | .range => "range")
      ++ "=" ++ toString (f.value e)
  | .pl pts a => "val:" ++ plArm pts (e.x a)
  | .pow _ _ => "val:pow"

def conArm (c : Con) (e : Env) : String :=
  match c with
  | .alg a => algArm a e.x
  | .func _ ctx f => if e.recomp then "func:recomp" else "func:" ++ ctxStr ctx ++ ":" ++ funcKindArm f e
  | .adef _ _ _ => "adef:never-tested"
  | .cond res ctx a =>
    if e.recomp then "cond:recomp" else
      "cond:" ++ ctxStr ctx ++ ":b=" ++ (if (1/2 : Rat) ≤ e.x res then "1" else "0") ++ ":valid=" ++
        (if (a.viol e.x).viol.gtRat 0 then "0" else "1")
  | .indicator b bv _ => if cround (e.x b) = bv then "ind:active" else "ind:inactive"
  | .sos1 vs => "sos1:nnz=" ++ toString (min 3 (vs.filter e.isNonzero).length)
  | .sos2 vs =>
    let idx := (List.range vs.length).reverse.filter (fun i => e.isPositive (vs.getD i 0))
    "sos2:npos=" ++ toString (min 3 idx.length) ++
      (match idx with | p1 :: p2 :: _ => if p1 - p2 = 1 then ":adjacent" else ":apart" | _ => "")
  | .compl _ v => if e.isAtLb v then "compl:at-lb" else if e.isAtUb v then "compl:at-ub" else "compl:inside"

def passArms (m : Model) (o : Opts) (xs objv raw : List Rat) (recomp : Bool) : List String :=
  let mode := if recomp then o.mode >>> 5 else o.mode
  let xr := applyPrecision o xs
  let e := m.envOf o xr raw recomp
  let pre := if recomp then "ideal|" else "real|"
  let cands (tag : String) (cs : List Cand) : List String :=
    cs.map (fun c => pre ++ tag ++ "|" ++ checkArm c.v c.epsabs c.epsrel)
  (if mode &&& 1 ≠ 0 then
     cands "var-bounds" (m.varBndCands o e.x recomp false) ++ cands "aux-bounds" (m.varBndCands o e.x recomp true) ++
     cands "var-int" (m.varIntCands o e.x recomp false) ++ cands "aux-int" (m.varIntCands o e.x recomp true)
   else [pre ++ "vars-off"]) ++
  (if mode &&& 14 ≠ 0 then
     m.keepers.flatMap (fun kp => kp.items.map (fun it =>
       if it.unused then pre ++ "item:unused"
       else if !(it.selected mode) then pre ++ "item:class" ++ toString it.cclass ++ ":not-selected"
       else pre ++ "item:class" ++ toString it.cclass ++ ":slot" ++ toString it.slot ++ "|" ++ conArm it.con e ++ "|" ++
            checkArm (it.con.viol e) o.feastol (some o.feastolrel)))
   else [pre ++ "cons-off"]) ++
  (if mode &&& 16 ≠ 0 then
     (if (min m.objs.length objv.length) = 0 then [pre ++ "obj:none"] else cands "obj" (m.objCands o e.x objv))
   else [pre ++ "obj-off"])

def defArms (m : Model) (o : Opts) (xs : List Rat) : List String :=
  let xs0 := applyPrecision o xs
  (List.range xs0.length).map (fun i =>
    match (m.var i).init with
    | none => "recomp:no-init"
    | some _ => match m.defOf i with
      | some f => "recomp:" ++ funcKindArm f (m.envOf o (recomputeUpTo m o xs0 i) [] true)
      | none => "recomp:init-unused-or-not-functional")

def runArms (m : Model) (o : Opts) (xs objv : List Rat) (code : Int) : List String :=
  let ki := isProblemInfeasible code
  (match o.round with | some r => [if 0 ≤ r then "round:nonneg" else "round:neg"] | none => ["round:off"]) ++
  (match o.prec with | some _ => ["prec:on"] | none => ["prec:off"]) ++
  (if ki && !o.infeas then ["outcome:skipped"] else
    [if ki then "outcome:known-infeasible-but-checked" else "outcome:checked"] ++
    (if o.mode &&& 31 ≠ 0 then passArms m o xs objv [] false else ["real:off"]) ++
    (if o.mode &&& 992 ≠ 0 then
       defArms m o xs ++
       passArms m o (recompute m o xs) objv (if o.mode &&& 31 ≠ 0 then applyPrecision o xs else xs) true
     else ["ideal:off"])) ++
  [match solveCodeOverride o (checkSolutionCode m o xs objv code) with
   | some _ => "fail:150" | none => if warningIssued o (checkSolutionCode m o xs objv code) then "fail:warning" else "fail:no-report"]

end MpVerif.C07

/-!
# C07 — model of the automatic solution check (`include/mp/flat/sol_check.h`, `constr_eval.h`,
`constr_keeper.h`, `constr_base.h`, `constr_algebraic.h`, `constr_general.h`)

Numbers are exact rationals (`Rat`); the two places where the C++ uses `±INFINITY` on purpose
(infinite bounds, `CTX_NONE ↦ {INFINITY, 0}`) are modelled by `ER` / `Option Rat` bounds.
A *point* is a total function `Nat → Rat` (variables outside the vector read as 0).

The model follows the C++ function by function; quirks are kept (see `Violation.check`, `Con.adef`).
Core Lean only.
-/
namespace MpVerif.C07

/-! ## extended rationals for violation amounts -/

inductive ER where
  | ninf
  | fin (q : Rat)
  | pinf
  deriving DecidableEq, Repr, Inhabited

/-- `a < b` on extended rationals (as IEEE doubles compare, no NaN in the model) -/
def ER.lt : ER → ER → Bool
  | .ninf, .ninf => false
  | .ninf, _ => true
  | .fin _, .ninf => false
  | .fin a, .fin b => decide (a < b)
  | .fin _, .pinf => true
  | .pinf, _ => false

/-- `viol > eps` for a finite `eps` -/
def ER.gtRat : ER → Rat → Bool
  | .ninf, _ => false
  | .fin a, e => decide (e < a)
  | .pinf, _ => true

abbrev Pt := Nat → Rat

/-- `std::round`: half away from zero -/
def cround (q : Rat) : Int :=
  if 0 ≤ q then (q + 1/2).floor else -((-q + 1/2).floor)

def rabs (q : Rat) : Rat := if 0 ≤ q then q else -q

/-! ## `Violation` and the tolerance test (`constr_base.h`) -/

structure Violation where
  viol : ER     -- `viol_`
  ref : Rat     -- `valX_` (only read when `viol_` is finite and exceeds `epsabs`)
  deriving Repr, Inhabited

/-- relative violation `fabs(viol_/valX_)` (0 when not computed) -/
def Violation.rel (v : Violation) : Rat :=
  match v.viol with
  | .fin a => if v.ref = 0 then 0 else rabs (a / v.ref)
  | _ => 0

/-- `Violation::Check(epsabs, epsrel)`: both the absolute and the relative tolerance must be
exceeded; the relative one only if the reference value is non-zero.  `epsrel = none` is `INFINITY`
(as passed by the integrality check).  Returns (violated, violRel). -/
def Violation.check (v : Violation) (epsabs : Rat) (epsrel : Option Rat) : Bool × Rat :=
  match v.viol with
  | .ninf => (false, 0)
  | .pinf => if v.ref = 0 then (true, 0) else
      (match epsrel with | none => (false, 0) | some _ => (true, 0))
  | .fin a =>
    if epsabs < a then
      if v.ref = 0 then (true, 0)
      else match epsrel with
        | none => (false, 0)
        | some er => if er < rabs (a / v.ref) then (true, rabs (a / v.ref)) else (false, 0)
    else (false, 0)

/-! ## bodies, algebraic constraints (`constr_algebraic.h`) -/

def linVal : List (Rat × Nat) → Pt → Rat
  | [], _ => 0
  | (c, v) :: t, x => c * x v + linVal t x

def quadVal : List (Rat × Nat × Nat) → Pt → Rat
  | [], _ => 0
  | (c, v1, v2) :: t, x => c * x v1 * x v2 + quadVal t x

/-- linear + quadratic terms + constant (constant is 0 for algebraic constraints and objectives) -/
structure Body where
  lin : List (Rat × Nat)
  quad : List (Rat × Nat × Nat)
  const : Rat
  deriving Repr, Inhabited

def Body.val (b : Body) (x : Pt) : Rat := linVal b.lin x + quadVal b.quad x + b.const

def Body.vars (b : Body) : List Nat :=
  b.lin.map (·.2) ++ b.quad.flatMap (fun q => [q.2.1, q.2.2])

inductive RKind where | range | lt | le | eq | ge | gt
  deriving DecidableEq, Repr, Inhabited

/-- `AlgebraicConstraint<Body, RhsOrRange>`; `lo`/`hi` are what `lb()`/`ub()` return (`none` = ∓∞) -/
structure AlgCon where
  body : Body
  kind : RKind
  lo : Option Rat
  hi : Option Rat
  deriving Repr, Inhabited

/-- `RhsOrRange::is_valid(bv)` -/
def AlgCon.isValid (c : AlgCon) (bd : Rat) : Bool :=
  match c.kind with
  | .lt => (match c.hi with | some u => decide (bd < u) | none => true)
  | .gt => (match c.lo with | some l => decide (l < bd) | none => true)
  | _ => (match c.lo with | some l => decide (l ≤ bd) | none => true) &&
         (match c.hi with | some u => decide (bd ≤ u) | none => true)

/-- `AlgebraicConstraint::ComputeViolation(x, logical=false)` -/
def AlgCon.viol (c : AlgCon) (x : Pt) : Violation :=
  let bd := c.body.val x
  match c.lo, c.hi with
  | some l, some u =>
    if bd < l then ⟨.fin (l - bd), l⟩
    else if u < bd then ⟨.fin (bd - u), u⟩
    else ⟨.fin (max (l - bd) (bd - u)), 0⟩
  | some l, none => if bd < l then ⟨.fin (l - bd), l⟩ else ⟨.fin (l - bd), 0⟩
  | none, some u => if u < bd then ⟨.fin (bd - u), u⟩ else ⟨.fin (bd - u), 0⟩
  | none, none => ⟨.ninf, 0⟩

/-- `ComputeViolation(x, logical=true)`: `{double(!is_valid(bd)), 1.0}` -/
def AlgCon.violLogical (c : AlgCon) (x : Pt) : Violation :=
  ⟨.fin (if c.isValid (c.body.val x) then 0 else 1), 1⟩

/-! ## variable information seen by evaluators (`VarInfoImpl`) -/

structure Env where
  x : Pt                      -- current values (rounded / recomputed)
  raw : Pt                    -- solver values (`x_raw_`, idealistic mode only)
  isInt : Nat → Bool
  lb : Nat → Option Rat
  ub : Nat → Option Rat
  feastol : Rat
  recomp : Bool               -- `recomp_vals()`

def Env.isNonzero (e : Env) (i : Nat) : Bool :=
  decide ((if e.isInt i then (1/2 : Rat) else e.feastol) ≤ rabs (e.x i))
def Env.isPositive (e : Env) (i : Nat) : Bool :=
  decide ((if e.isInt i then (1/2 : Rat) else e.feastol) ≤ e.x i)
def Env.isAtLb (e : Env) (i : Nat) : Bool :=
  match e.lb i with | some l => decide (e.x i - l ≤ e.feastol) | none => false
def Env.isAtUb (e : Env) (i : Nat) : Bool :=
  match e.ub i with | some u => decide (-(e.x i - u) ≤ e.feastol) | none => false
/-- `max(0.0, bounds_viol(i))` with `bounds_viol = max(lb - x, x - ub)` -/
def Env.boundsViolPos (e : Env) (i : Nat) : Rat :=
  let a : Rat := match e.lb i with | some l => l - e.x i | none => 0
  let b : Rat := match e.ub i with | some u => e.x i - u | none => 0
  max 0 (max a b)

/-! ## functional constraints: `ComputeValue` overloads of `constr_eval.h` (exact-arithmetic fragment) -/

/-! ### piecewise-linear functions given by points (`PLPoints`, `ComputeValue(PLConstraint)`) -/

/-- `PLPoints::PreSlope()` -/
def plPre : List (Rat × Rat) → Rat
  | (x0, y0) :: (x1, y1) :: _ => if x1 ≤ x0 then 0 else (y1 - y0) / (x1 - x0)
  | _ => 0

/-- `PLPoints::PostSlope()` (the last two points) -/
def plPost (pts : List (Rat × Rat)) : Rat :=
  match pts.reverse with
  | (x1, y1) :: (x0, y0) :: _ => if x1 ≤ x0 then 0 else (y1 - y0) / (x1 - x0)
  | _ => 0

/-- the loop `for ( ; x0 > plp.x_[i0]; ++i0)` and the interpolation; `prev` is point `i0-1` -/
def plScan : List (Rat × Rat) → Rat × Rat → Rat → Rat
  | [], prev, _ => prev.2
  | (xi, yi) :: t, prev, x =>
    if xi < x then plScan t (xi, yi) x
    else if xi = x then yi
    else prev.2 + (yi - prev.2) * (x - prev.1) / (xi - prev.1)

/-- `ComputeValue(const PLConstraint&, x)` at argument value `x` -/
def plValue (pts : List (Rat × Rat)) (x : Rat) : Rat :=
  match pts with
  | [] => 0
  | (x0, y0) :: _ =>
    if x < x0 then y0 - plPre pts * (x0 - x)
    else
      match pts.reverse with
      | (xl, yl) :: _ => if xl < x then yl + plPost pts * (x - xl) else plScan pts (x0, y0) x
      | [] => 0

inductive Func where
  | affine (b : Body)                 -- LinearFunctionalConstraint / QuadraticFunctionalConstraint
  | max (args : List Nat)
  | min (args : List Nat)
  | abs (a : Nat)
  | and (args : List Nat)
  | or (args : List Nat)
  | not (a : Nat)
  | div (a b : Nat)
  | ifthen (c t e : Nat)
  | impl (c t e : Nat)
  | alldiff (args : List Nat)
  | numberofConst (k : Rat) (args : List Nat)
  | numberofVar (v0 : Nat) (args : List Nat)
  | count (args : List Nat)
  | cond (c : AlgCon)                 -- ConditionalConstraint<Con>
  | pl (pts : List (Rat × Rat)) (a : Nat)   -- PLConstraint (points form)
  | pow (a : Nat) (k : Nat)                 -- PowConstraint with a non-negative integer exponent
  deriving Repr, Inhabited

def Func.vars : Func → List Nat
  | .affine b => b.vars
  | .max a | .min a | .and a | .or a | .alldiff a | .count a => a
  | .numberofConst _ a => a
  | .numberofVar v0 a => v0 :: a
  | .abs a | .not a => [a]
  | .pl _ a => [a]
  | .pow a _ => [a]
  | .div a b => [a, b]
  | .ifthen c t e | .impl c t e => [c, t, e]
  | .cond c => c.body.vars

def maxL : List Rat → Rat
  | [] => 0
  | a :: t => t.foldl (fun r v => if r < v then v else r) a
def minL : List Rat → Rat
  | [] => 0
  | a :: t => t.foldl (fun r v => if v < r then v else r) a

def b2r (b : Bool) : Rat := if b then 1 else 0

/-- pairs (i, j), j before i, with equal rounded value? -/
def anyEqRound : List Rat → Bool
  | [] => false
  | a :: t => t.any (fun b => cround a == cround b) || anyEqRound t

/-- `x.is_var_int(v) && round(x[v]) == k || fabs(x[v]-k) <= feastol` -/
def numberofHit (e : Env) (k : Rat) (v : Nat) : Bool :=
  (e.isInt v && decide ((cround (e.x v) : Rat) = k)) || decide (rabs (e.x v - k) ≤ e.feastol)

/-- where the C++ result is a finite double (others are outside the modelled fragment) -/
def Func.finiteAt (f : Func) (x : Pt) : Bool :=
  match f with
  | .max a | .min a => !a.isEmpty
  | .div _ b => decide (x b ≠ 0)
  | .pl pts _ => !pts.isEmpty
  | _ => true

def Func.value (f : Func) (e : Env) : Rat :=
  match f with
  | .affine b => b.val e.x
  | .max a => maxL (a.map e.x)
  | .min a => minL (a.map e.x)
  | .abs a => rabs (e.x a)
  | .and a => b2r (!((a.map e.x).any (fun v => decide (v < 1/2))))
  | .or a => b2r ((a.map e.x).any (fun v => decide ((1/2 : Rat) ≤ v)))
  | .not a => b2r (decide (e.x a < 1/2))
  | .div a b => e.x a / e.x b
  | .ifthen c t el => if (1/2 : Rat) ≤ e.x c then e.x t else e.x el
  | .impl c t el =>
      b2r ((decide ((1/2 : Rat) ≤ e.x c) && decide ((1/2 : Rat) ≤ e.x t)) ||
           (decide (e.x c < 1/2) && decide ((1/2 : Rat) ≤ e.x el)))
  | .alldiff a => b2r (!(anyEqRound (a.map e.x)))
  | .numberofConst k a => ((a.filter (numberofHit e k)).length : Nat)
  | .numberofVar v0 a => ((a.filter (numberofHit e (e.x v0))).length : Nat)
  | .count a => (((a.map e.x).filter (fun v => decide ((1/2 : Rat) ≤ v))).length : Nat)
  | .cond c => b2r (c.isValid (c.body.val e.x))
  | .pl pts a => plValue pts (e.x a)
  | .pow a k => (e.x a) ^ k

inductive Ctx where | none | pos | neg | mix
  deriving DecidableEq, Repr, Inhabited

/-! ## flat constraints and their `ComputeViolation` -/

inductive Con where
  | alg (c : AlgCon)
  | func (res : Nat) (ctx : Ctx) (f : Func)          -- CustomFunctionalConstraint; f is not `.cond`/`.affine`
  | adef (res : Nat) (ctx : Ctx) (b : Body)          -- Linear/QuadraticFunctionalConstraint: no ComputeViolation of their own
  | cond (res : Nat) (ctx : Ctx) (c : AlgCon)        -- ConditionalConstraint (own ComputeViolation)
  | indicator (b : Nat) (bv : Int) (c : AlgCon)
  | sos1 (vars : List Nat)
  | sos2 (vars : List Nat)
  | compl (expr : Body) (var : Nat)
  deriving Repr, Inhabited

/-- the `recomp_vals()` branch of the generic `ComputeViolation`: recomputed value minus the solver's, plus the
bound violation of the recomputed value -/
def recompViol (res : Nat) (e : Env) : Violation :=
  ⟨.fin (rabs (e.x res - e.raw res) + e.boundsViolPos res), e.x res⟩

/-- generic `ComputeViolation(CustomFunctionalConstraint)` of `constr_base.h` -/
def funcViol (res : Nat) (ctx : Ctx) (f : Func) (e : Env) : Violation :=
  if !e.recomp then
    let viol := e.x res - f.value e
    match ctx with
    | .mix => ⟨.fin (rabs viol), e.x res⟩
    | .pos => ⟨.fin viol, e.x res⟩
    | .neg => ⟨.fin (-viol), e.x res⟩
    | .none => ⟨.pinf, 0⟩
  else recompViol res e

/-- `ConditionalConstraint::ComputeViolation`: on recomputed values it delegates to the generic formula
(since /repo ca505ad), on the solver's values it measures the gap of the wrapped constraint by context -/
def condViol (res : Nat) (ctx : Ctx) (c : AlgCon) (e : Env) : Violation :=
  if e.recomp then recompViol res e else
  let v := c.viol e.x
  let valid : Bool := !(v.viol.gtRat 0)          -- viol_ <= 0
  let hasArg : Bool := decide ((1/2 : Rat) ≤ e.x res)
  match ctx with
  | .mix => if hasArg == valid then ⟨.fin 0, 0⟩ else
      ⟨(match v.viol with | .fin a => .fin (rabs a) | .ninf => .pinf | .pinf => .pinf), v.ref⟩
  | .pos => if (!hasArg) || valid then ⟨.fin 0, 0⟩ else v
  | .neg => if hasArg || (!valid) then ⟨.fin 0, 0⟩ else
      ⟨(match v.viol with | .fin a => .fin (-a) | .ninf => .pinf | .pinf => .ninf), v.ref⟩
  | .none => ⟨.pinf, 0⟩

def sos1Viol (vars : List Nat) (e : Env) : Violation :=
  let nnz := (vars.filter e.isNonzero).length
  ⟨.fin ((nnz - 1 : Nat) : Nat), 0⟩

/-- positions (in weight order) of positive variables, scanned from the last one -/
def sos2Viol (vars : List Nat) (e : Env) : Violation :=
  let idx := (List.range vars.length).reverse.filter (fun i => e.isPositive (vars.getD i 0))
  let npos := idx.length
  let posDist : Int := match idx with
    | p1 :: p2 :: _ => (p1 : Int) - (p2 : Int)
    | _ => 1
  ⟨.fin (((npos - 2 : Nat) : Nat) + ((1 - posDist).natAbs : Nat)), 0⟩

def complViol (expr : Body) (var : Nat) (e : Env) : Violation :=
  let ve := expr.val e.x
  if e.isAtLb var then ⟨.fin (-ve), 0⟩
  else if e.isAtUb var then ⟨.fin ve, 0⟩
  else ⟨.fin (rabs ve), 0⟩

def Con.viol (c : Con) (e : Env) : Violation :=
  match c with
  | .alg a => a.viol e.x
  | .func res ctx f => funcViol res ctx f e
  | .adef _ _ _ => ⟨.fin 0, 0⟩          -- `BasicConstraint::ComputeViolation`: `{0.0, 0.0}`
  | .cond res ctx a => condViol res ctx a e
  | .indicator b bv a => if (cround (e.x b)) = bv then a.viol e.x else ⟨.fin 0, 0⟩
  | .sos1 vs => sos1Viol vs e
  | .sos2 vs => sos2Viol vs e
  | .compl ex v => complViol ex v e

/-! ## summaries (`ViolSummary`) -/

structure Summ where
  n : Nat := 0
  maxAbs : ER := .fin 0
  nameAbs : Option String := none
  maxRel : Rat := 0
  nameRel : Option String := none
  deriving Repr, Inhabited

/-- a candidate check: violation, tolerances, name of the item -/
structure Cand where
  v : Violation
  epsabs : Rat
  epsrel : Option Rat
  name : String
  deriving Repr, Inhabited

def Cand.violated (c : Cand) : Bool := (c.v.check c.epsabs c.epsrel).1

/-- `ViolSummary::CheckViol` + `CountViol` -/
def Summ.add (s : Summ) (c : Cand) : Summ :=
  let r := c.v.check c.epsabs c.epsrel
  if r.1 then
    let s1 : Summ := { s with n := s.n + 1 }
    let s2 : Summ := if s1.maxAbs.lt c.v.viol then { s1 with maxAbs := c.v.viol, nameAbs := some c.name } else s1
    if s2.maxRel < r.2 then { s2 with maxRel := r.2, nameRel := some c.name } else s2
  else s

def summarize (cs : List Cand) : Summ := cs.foldl Summ.add {}

structure Line where
  label : String
  fmax : Bool
  s : Summ
  deriving Repr, Inhabited

/-- `Gen1Viol`: a line is printed iff `N_ > 0` -/
def slotLine (label : String) (fmax : Bool) (cs : List Cand) : List Line :=
  let s := summarize cs
  if 0 < s.n then [⟨label, fmax, s⟩] else []

/-! ## the flat model -/

structure VarD where
  lb : Option Rat
  ub : Option Rat
  isInt : Bool
  orig : Bool
  name : String
  init : Option (Nat × Nat)      -- (keeper number, index) of the init expression
  deriving Repr, Inhabited

structure Item where
  con : Con
  depth : Nat
  bridged : Bool
  unused : Bool
  name : String
  deriving Repr, Inhabited

structure Keeper where
  key : String                   -- GetShortTypeName()
  logical : Bool
  items : List Item
  deriving Repr, Inhabited

structure Obj where
  body : Body
  name : String
  deriving Repr, Inhabited

structure Model where
  vars : List VarD
  keepers : List Keeper          -- in `std::map` key order (the order of the report)
  objs : List Obj
  deriving Repr, Inhabited

structure Opts where
  mode : Nat
  feastol : Rat
  feastolrel : Rat
  inttol : Rat
  round : Option Int             -- `none`: option not used (value ≥ 100)
  prec : Option Int
  fail : Bool
  infeas : Bool
  deriving Repr, Inhabited

def Model.nvars (m : Model) : Nat := m.vars.length
def Model.var (m : Model) (i : Nat) : VarD := m.vars.getD i default
def Model.lbF (m : Model) : Nat → Option Rat := fun i => (m.var i).lb
def Model.ubF (m : Model) : Nat → Option Rat := fun i => (m.var i).ub
def Model.isIntF (m : Model) : Nat → Bool := fun i => (m.var i).isInt

def ptOf (xs : List Rat) : Pt := fun i => xs.getD i 0

/-! ## rounding options (`apply_precision_options`, `round_to_digits`) -/

def pow10 (k : Int) : Rat := if 0 ≤ k then ((10 ^ k.toNat : Nat) : Rat) else 1 / ((10 ^ (-k).toNat : Nat) : Rat)

/-- smallest `e` with `|v| ≤ 10^e`, i.e. `ceil(log10 |v|)`, for `v ≠ 0`; search from a bound `fuel` downwards/upwards -/
def ceilLog10Aux (a : Rat) : Nat → Int → Int
  | 0, e => e
  | fuel + 1, e =>
    if a ≤ pow10 (e - 1) then ceilLog10Aux a fuel (e - 1)
    else if pow10 e < a then ceilLog10Aux a fuel (e + 1)
    else e
def ceilLog10 (a : Rat) : Int := ceilLog10Aux a 700 0

def roundDigits (v : Rat) (digits : Int) : Rat :=
  if v = 0 then 0 else
    let factor := pow10 (digits - ceilLog10 (rabs v))
    (cround (v * factor) : Rat) / factor

def applyPrecision (o : Opts) (xs : List Rat) : List Rat :=
  let xs1 := match o.round with
    | some r => xs.map (fun v => (cround (v * pow10 r) : Rat) * (1 / pow10 r))
    | none => xs
  match o.prec with
  | some p => xs1.map (fun v => roundDigits v p)
  | none => xs1

/-! ## recomputation of auxiliary variables (`RecomputeAuxVars`, `recomp_fn`, `VarVecRecomp`) -/

def Model.item? (m : Model) (k j : Nat) : Option Item :=
  match m.keepers[k]? with
  | some kp => kp.items[j]?
  | none => none

/-- defining expression of variable `i` that `recomp_fn` would evaluate (init expression present and not unused) -/
def Model.defOf (m : Model) (i : Nat) : Option Func :=
  match (m.var i).init with
  | none => none
  | some (k, j) =>
    match m.item? k j with
    | some it =>
      if it.unused then none else
      match it.con with
      | .func _ _ f => some f
      | .adef _ _ b => some (.affine b)
      | .cond _ _ c => some (.cond c)
      | _ => none
    | none => none

/-- every defining expression only refers to smaller variable indices (then the memoised recursion of
`VarVecRecomp::operator[]` visits each definition after its arguments) -/
def Model.ordered (m : Model) : Bool :=
  (List.range m.nvars).all (fun i =>
    match m.defOf i with
    | some f => f.vars.all (fun v => decide (v < i))
    | none => true)

def Model.envOf (m : Model) (o : Opts) (xs raw : List Rat) (recomp : Bool) : Env :=
  { x := ptOf xs, raw := ptOf raw, isInt := m.isIntF, lb := m.lbF, ub := m.ubF, feastol := o.feastol, recomp := recomp }

/-- one step: variable `i` gets the value of its defining expression at the current vector -/
def recompStep (m : Model) (o : Opts) (xs : List Rat) (i : Nat) : List Rat :=
  match m.defOf i with
  | some f => xs.set i (f.value (m.envOf o xs [] true))
  | none => xs

def recomputeUpTo (m : Model) (o : Opts) (xs : List Rat) : Nat → List Rat
  | 0 => xs
  | k + 1 => recompStep m o (recomputeUpTo m o xs k) k

/-- `RecomputeAuxVars(x)`: precision options first, then every variable is (re)computed once -/
def recompute (m : Model) (o : Opts) (xs : List Rat) : List Rat :=
  let xs0 := applyPrecision o xs
  recomputeUpTo m o xs0 xs0.length

/-- are all defining expressions finite along the recomputation? (driver-side guard of the fragment) -/
def recomputeFinite (m : Model) (o : Opts) (xs : List Rat) : Bool :=
  let xs0 := applyPrecision o xs
  (List.range xs0.length).all (fun i =>
    match m.defOf i with
    | some f => f.finiteAt (ptOf (recomputeUpTo m o xs0 i))
    | none => true)

/-- all functional constraints have a finite value at `x` (guard of the modelled fragment) -/
def Model.funcsFiniteAt (m : Model) (x : Pt) : Bool :=
  m.keepers.all (fun kp => kp.items.all (fun it =>
    match it.con with
    | .func _ _ f => f.finiteAt x
    | _ => true))

/-- the run stays inside the modelled fragment (no ±INFINITY/NaN values, definitions ordered) -/
def inFragment (m : Model) (o : Opts) (xs : List Rat) : Bool :=
  (o.mode &&& 992 == 0 || (m.ordered && recomputeFinite m o xs)) &&     -- recomputation only runs with idealistic bits
  m.funcsFiniteAt (ptOf (applyPrecision o xs))

/-! ## one checking pass (`DoCheckSol`) -/

def boundLbViol (lb : Option Rat) (x : Rat) : Violation :=
  match lb with | some l => ⟨.fin (l - x), l⟩ | none => ⟨.ninf, 0⟩
def boundUbViol (ub : Option Rat) (x : Rat) : Violation :=
  match ub with | some u => ⟨.fin (x - u), u⟩ | none => ⟨.ninf, 0⟩
/-- `{fabs(x - round(x)), round(x)}` -/
def intViol (x : Rat) : Violation := ⟨.fin (rabs (x - cround x)), cround x⟩

/-- variables looked at by `CheckVars`, in its order (last to first) -/
def Model.checkedVars (m : Model) (recomp : Bool) (aux : Bool) : List Nat :=
  (List.range m.nvars).reverse.filter (fun i =>
    let v := m.var i
    ((!v.orig) == aux) && (v.orig || !recomp))

def Model.varBndCands (m : Model) (o : Opts) (x : Pt) (recomp aux : Bool) : List Cand :=
  (m.checkedVars recomp aux).flatMap (fun i =>
    let v := m.var i
    [⟨boundLbViol v.lb (x i), o.feastol, some o.feastolrel, v.name⟩,
     ⟨boundUbViol v.ub (x i), o.feastol, some o.feastolrel, v.name⟩])

/-- integrality candidates: relative tolerance `0.0` (since /repo 1797720; it was `INFINITY` before) -/
def Model.varIntCands (m : Model) (o : Opts) (x : Pt) (recomp aux : Bool) : List Cand :=
  ((m.checkedVars recomp aux).filter (fun i => (m.var i).isInt)).map (fun i =>
    ⟨intViol (x i), o.inttol, some 0, (m.var i).name⟩)

/-- class of a constraint: 8 solver-side, 2 top-level, else 4 intermediate -/
def Item.cclass (it : Item) : Nat :=
  let c := (if it.bridged then 0 else 8) + (if it.depth = 0 then 2 else 0)
  if c = 0 then 4 else c

/-- report slot: 0 original, 1 intermediate, 2 solver-side -/
def Item.slot (it : Item) : Nat :=
  if it.cclass &&& 2 ≠ 0 then 0 else if it.cclass &&& 8 ≠ 0 then 2 else 1

def Item.selected (it : Item) (mode : Nat) : Bool :=
  !it.unused && (it.cclass &&& mode ≠ 0)

def Keeper.cands (kp : Keeper) (o : Opts) (mode : Nat) (e : Env) (slot : Nat) : List Cand :=
  (kp.items.reverse.filter (fun it => it.selected mode && it.slot == slot)).map (fun it =>
    ⟨it.con.viol e, o.feastol, some o.feastolrel, it.name⟩)

def startsWith (s p : String) : Bool := (s.toList.take p.length) == p.toList

def keeperLabel (key : String) (slot : Nat) : String :=
  match slot with
  | 0 => if startsWith key ":lin" then "algebraic con(s)"
         else if startsWith key ":quad" then "quadratic con(s)"
         else "expr '" ++ key ++ "'"
  | 1 => "interm expr '" ++ key ++ "'"
  | _ => "final expr '" ++ key ++ "'"

def Keeper.lines (kp : Keeper) (o : Opts) (mode : Nat) (e : Env) : List Line :=
  [0, 1, 2].flatMap (fun slot => slotLine (keeperLabel kp.key slot) (!kp.logical) (kp.cands o mode e slot))

def Model.objCands (m : Model) (o : Opts) (x : Pt) (objv : List Rat) : List Cand :=
  ((List.range (min m.objs.length objv.length)).reverse).map (fun i =>
    let ob := m.objs.getD i default
    let val1 := ob.body.val x
    ⟨⟨.fin (rabs (objv.getD i 0 - val1)), val1⟩, o.feastol, some o.feastolrel, ob.name⟩)

/-- `DoCheckSol`: `xs` is the vector handed in (before the precision options), `raw` the realistic
vector; returns the report lines and the vector actually checked (`x_back`). -/
def doCheckSol (m : Model) (o : Opts) (xs : List Rat) (objv : List Rat) (raw : List Rat) (recomp : Bool) :
    List Line × List Rat :=
  let mode := if recomp then o.mode >>> 5 else o.mode
  let xr := applyPrecision o xs
  let e := m.envOf o xr raw recomp
  let varLines : List Line :=
    if mode &&& 1 ≠ 0 then
      slotLine "variable bounds" true (m.varBndCands o e.x recomp false) ++
      slotLine "aux var bounds" true (m.varBndCands o e.x recomp true) ++
      slotLine "variable integrality" true (m.varIntCands o e.x recomp false) ++
      slotLine "aux var integrality" true (m.varIntCands o e.x recomp true)
    else []
  let conLines (logical : Bool) : List Line :=
    if mode &&& 14 ≠ 0 then
      (m.keepers.filter (fun kp => kp.logical == logical)).flatMap (fun kp => kp.lines o mode e)
    else []
  let objLines : List Line :=
    if mode &&& 16 ≠ 0 then slotLine "objective(s)" true (m.objCands o e.x objv) else []
  (varLines ++ conLines false ++ conLines true ++ objLines, xr)

/-! ## `CheckSolution` -/

inductive Outcome where
  | skipped                                     -- known infeasible and `sol:chk:infeas` off: returns true
  | checked (ideal real : List Line)
  deriving Repr, Inhabited

def checkSolution (m : Model) (o : Opts) (xs : List Rat) (objv : List Rat) (knownInfeas : Bool) : Outcome :=
  if knownInfeas && !o.infeas then .skipped else
    let r1 : List Line × List Rat :=
      if o.mode &&& 31 ≠ 0 then doCheckSol m o xs objv [] false else ([], xs)
    let r2 : List Line :=
      if o.mode &&& 992 ≠ 0 then (doCheckSol m o (recompute m o xs) objv r1.2 true).1 else []
    .checked r2 r1.1

/-- `BasicBackend::IsProblemInfeasible()`: solve code in `sol::INFEASIBLE .. sol::INFEASIBLE_LAST` = 200..299 -/
def isProblemInfeasible (code : Int) : Bool := decide (200 ≤ code) && decide (code ≤ 299)

/-- `FlatBackend::GetSolution` → `PostsolveSolution` → `CheckSolution`: the "known infeasible" flag handed to the
checker is `IsProblemInfeasible()` of the solver's status (and nothing else: not the unbounded / undecided statuses) -/
def checkSolutionCode (m : Model) (o : Opts) (xs : List Rat) (objv : List Rat) (code : Int) : Outcome :=
  checkSolution m o xs objv (isProblemInfeasible code)

/-- are there report lines? -/
def Outcome.hasReport : Outcome → Bool
  | .skipped => false
  | .checked ideal real => !(ideal.isEmpty && real.isEmpty)

/-- return value of `CheckSolution` when it returns -/
def Outcome.ret (oc : Outcome) : Bool := !oc.hasReport

/-- what the run does with the report: `some 150` = raise `MP_SOLUTION_CHECK`, `none` = at most a warning -/
def solveCodeOverride (o : Opts) (oc : Outcome) : Option Nat :=
  if oc.hasReport && o.fail then some 150 else none

def warningIssued (o : Opts) (oc : Outcome) : Bool := oc.hasReport && !o.fail

end MpVerif.C07

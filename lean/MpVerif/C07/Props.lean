import MpVerif.C07.Model
namespace MpVerif.C07

theorem C07_check_ninf (r : Rat) (ea : Rat) (er : Option Rat) : ((⟨.ninf, r⟩ : Violation).check ea er).1 = false := rfl

end MpVerif.C07

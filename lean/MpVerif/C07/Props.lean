import MpVerif.C07.Lemmas
import MpVerif.C07.LemmasRecomp
import MpVerif.C07.LemmasPL
import MpVerif.Gen.SolCheck
import MpVerif.C07.Spec
import MpVerif.C07.LemmasSpec
set_option linter.unusedSimpArgs false
/-!
# C07 — property theorems

Property: *the automatic solution check reports no violation exactly when the candidate point satisfies the
model's variable bounds, integrality, algebraic and logical constraints within the configured tolerances;
with `sol:chk:fail` the run ends with solve-result code 150 exactly in the violating cases.*

All theorems are about the Lean model in `Model.lean` (tied to the C++ on every run by the correspondence in
`checks/c07.py`).  They quantify over all flat models, all candidate points, all option values.
-/
namespace MpVerif.C07

/-! ## 1. the tolerance test: `>` versus `≥` pinned down -/

/-- A finite violation amount `a` with reference value `r` is *not* reported iff it is within the absolute
tolerance (`a ≤ epsabs`, boundary included) or, the reference being non-zero, within the relative one
(`a ≤ epsrel·|r|`, boundary included).  Both tolerances must be exceeded for a report. -/
theorem C07_tolerance_test (a r ea er : Rat) (hea : 0 ≤ ea) :
    ((⟨.fin a, r⟩ : Violation).check ea (some er)).1 = false ↔ (a ≤ ea ∨ (r ≠ 0 ∧ a ≤ er * rabs r)) :=
  within_fin_some a r ea er hea

/-- exactly on the absolute tolerance: not reported -/
theorem C07_tolerance_boundary (ea r er : Rat) (hea : 0 ≤ ea) :
    ((⟨.fin ea, r⟩ : Violation).check ea (some er)).1 = false :=
  (within_fin_some ea r ea er hea).mpr (Or.inl (Rat.le_refl))

/-- anything strictly above both tolerances is reported -/
theorem C07_tolerance_exceeded (a r ea er : Rat) (hea : 0 ≤ ea) (h1 : ea < a) (h2 : r = 0 ∨ er * rabs r < a) :
    ((⟨.fin a, r⟩ : Violation).check ea (some er)).1 = true := by
  cases h : ((⟨.fin a, r⟩ : Violation).check ea (some er)).1 with
  | true => rfl
  | false =>
    have := (within_fin_some a r ea er hea).mp h
    grind

/-- an infinite bound can never be violated -/
theorem C07_infinite_bound (r ea : Rat) (er : Option Rat) : ((⟨.ninf, r⟩ : Violation).check ea er).1 = false := rfl

/-! ## 2. report empty ⇔ every selected test is within tolerance -/

/-- One pass (`DoCheckSol`, realistic or idealistic): no report line iff none of the tolerance tests selected by the
mode bits fires.  `passCands` lists these tests: bounds (both sides) and integrality of the checked variables if
bit 1, every not-unused constraint whose class (2 top-level / 4 intermediate / 8 solver-side) meets the mode if bits
2|4|8, objective values if bit 16. -/
theorem C07_iff_pass (m : Model) (o : Opts) (xs objv raw : List Rat) (recomp : Bool) :
    (doCheckSol m o xs objv raw recomp).1 = [] ↔ ∀ c ∈ passCands m o xs objv raw recomp, c.violated = false :=
  doCheckSol_eq_nil m o xs objv raw recomp

/-- the vector the idealistic pass compares against -/
def xBack (m : Model) (o : Opts) (xs : List Rat) : List Rat :=
  if o.mode &&& 31 ≠ 0 then applyPrecision o xs else xs

theorem doCheckSol_snd (m : Model) (o : Opts) (xs objv raw : List Rat) (recomp : Bool) :
    (doCheckSol m o xs objv raw recomp).2 = applyPrecision o xs := rfl

/-- **C07_iff**: `CheckSolution` produces no report iff the check was skipped (known-infeasible solution without
`sol:chk:infeas`) or every selected test of the realistic pass (solver's auxiliary values) and of the idealistic pass
(recomputed auxiliary values) is within tolerance. -/
theorem C07_iff (m : Model) (o : Opts) (xs objv : List Rat) (ki : Bool) :
    (checkSolution m o xs objv ki).hasReport = false ↔
      ((ki = true ∧ o.infeas = false) ∨
       ((o.mode &&& 31 ≠ 0 → ∀ c ∈ passCands m o xs objv [] false, c.violated = false) ∧
        (o.mode &&& 992 ≠ 0 →
          ∀ c ∈ passCands m o (recompute m o xs) objv (xBack m o xs) true, c.violated = false))) := by
  unfold checkSolution
  by_cases hk : (ki && !o.infeas) = true
  · simp only [hk, if_true, Outcome.hasReport]
    simp only [Bool.and_eq_true, Bool.not_eq_true'] at hk
    simp [hk]
  · simp only [hk]
    have hk' : ¬ (ki = true ∧ o.infeas = false) := by
      simpa [Bool.and_eq_true, Bool.not_eq_true'] using hk
    simp only [Bool.false_eq_true, if_false, Outcome.hasReport, hk', false_or]
    by_cases h1 : o.mode &&& 31 ≠ 0 <;> by_cases h2 : o.mode &&& 992 ≠ 0
    all_goals
      simp only [h1, h2, if_true, if_false, xBack, doCheckSol_snd, ne_eq, not_false_eq_true, not_true_eq_false,
        List.isEmpty_iff, Bool.not_eq_false', Bool.and_eq_true, decide_eq_true_eq, Bool.not_eq_eq_eq_not,
        Bool.not_true, Bool.not_false, forall_const, false_implies, true_and, and_true, List.isEmpty_nil,
        Bool.true_and, Bool.and_true, doCheckSol_eq_nil, implies_true, not_false_iff]
    all_goals first | rfl | grind

/-! ## 3. what "within tolerance" means for each kind of item -/

/-- variable lower bound `l` at value `x` -/
theorem C07_within_lb (lb : Option Rat) (x ea er : Rat) (nm : String) (hea : 0 ≤ ea) :
    (⟨boundLbViol lb x, ea, some er, nm⟩ : Cand).violated = false ↔
      ∀ l, lb = some l → (l - x ≤ ea ∨ (l ≠ 0 ∧ l - x ≤ er * rabs l)) := by
  unfold Cand.violated boundLbViol
  cases lb with
  | none => simp [Violation.check]
  | some l => simp only [within_fin_some _ _ _ _ hea]; grind

/-- variable upper bound -/
theorem C07_within_ub (ub : Option Rat) (x ea er : Rat) (nm : String) (hea : 0 ≤ ea) :
    (⟨boundUbViol ub x, ea, some er, nm⟩ : Cand).violated = false ↔
      ∀ u, ub = some u → (x - u ≤ ea ∨ (u ≠ 0 ∧ x - u ≤ er * rabs u)) := by
  unfold Cand.violated boundUbViol
  cases ub with
  | none => simp [Violation.check]
  | some u => simp only [within_fin_some _ _ _ _ hea]; grind

/-- algebraic constraint `lo ≤ body ≤ hi` (range or one-sided; `lo ≤ hi`): not reported iff both sides are within
tolerance in the sense of `C07_tolerance_test`, i.e. `lo − ε ≤ body ≤ hi + ε` up to the relative escape. -/
theorem C07_within_alg (c : AlgCon) (x : Pt) (ea er : Rat) (hea : 0 ≤ ea)
    (hwf : ∀ l u, c.lo = some l → c.hi = some u → l ≤ u) :
    ((c.viol x).check ea (some er)).1 = false ↔
      ((∀ l, c.lo = some l → (l - c.body.val x ≤ ea ∨ (l ≠ 0 ∧ l - c.body.val x ≤ er * rabs l))) ∧
       (∀ u, c.hi = some u → (c.body.val x - u ≤ ea ∨ (u ≠ 0 ∧ c.body.val x - u ≤ er * rabs u)))) := by
  unfold AlgCon.viol
  generalize c.body.val x = bd
  cases hlo : c.lo with
  | none =>
    cases hhi : c.hi with
    | none => simp [Violation.check]
    | some u =>
      simp only
      split <;> simp only [within_fin_some _ _ _ _ hea] <;> grind
  | some l =>
    cases hhi : c.hi with
    | none =>
      simp only
      split <;> simp only [within_fin_some _ _ _ _ hea] <;> grind
    | some u =>
      have hlu := hwf l u hlo hhi
      simp only
      split
      · simp only [within_fin_some _ _ _ _ hea]; grind
      · split
        · simp only [within_fin_some _ _ _ _ hea]; grind
        · simp only [within_fin_some _ _ _ _ hea]
          have : max (l - bd) (bd - u) ≤ 0 := by
            rw [Rat.max_def]; split <;> grind
          grind

/-- **C07_integrality** (full strength, since /repo 1797720): an integer variable's value is not reported iff it is
within `sol:chk:inttol` of the nearest integer -/
theorem C07_integrality (x it : Rat) (nm : String) (hit : 0 ≤ it) :
    (⟨intViol x, it, some 0, nm⟩ : Cand).violated = false ↔ rabs (x - cround x) ≤ it := by
  unfold Cand.violated intViol
  simp only [within_fin_some _ _ _ _ hit]
  have := rabs_nonneg ((cround x : Int) : Rat)
  grind

/-- functional constraint `res = f(args)` checked on the solver's values, by context:
positive context tests `res − f ≤ ε`, negative `f − res ≤ ε`, mixed `|res − f| ≤ ε` (relative to `res`). -/
theorem C07_within_func (res : Nat) (ctx : Ctx) (f : Func) (e : Env) (ea er : Rat) (hea : 0 ≤ ea)
    (hr : e.recomp = false) :
    ((funcViol res ctx f e).check ea (some er)).1 = false ↔
      match ctx with
      | .pos => e.x res - f.value e ≤ ea ∨ (e.x res ≠ 0 ∧ e.x res - f.value e ≤ er * rabs (e.x res))
      | .neg => f.value e - e.x res ≤ ea ∨ (e.x res ≠ 0 ∧ f.value e - e.x res ≤ er * rabs (e.x res))
      | .mix => rabs (e.x res - f.value e) ≤ ea ∨
                 (e.x res ≠ 0 ∧ rabs (e.x res - f.value e) ≤ er * rabs (e.x res))
      | .none => False := by
  unfold funcViol
  simp only [hr, Bool.not_false, if_true]
  cases ctx <;> simp only [within_fin_some _ _ _ _ hea]
  · simp [Violation.check]
  · grind

/-- objective value `v` reported by the solver against the recomputed value `val` -/
theorem C07_within_obj (v val ea er : Rat) (hea : 0 ≤ ea) :
    ((⟨.fin (rabs (v - val)), val⟩ : Violation).check ea (some er)).1 = false ↔
      (rabs (v - val) ≤ ea ∨ (val ≠ 0 ∧ rabs (v - val) ≤ er * rabs val)) :=
  within_fin_some _ _ _ _ hea

/-! ## 4. selection: which items a pass looks at -/

/-- with bit 1, both bounds of every checked variable are tested (all variables on the solver's values, original
variables only on recomputed values) -/
theorem C07_selected_var_bounds (m : Model) (o : Opts) (xs objv raw : List Rat) (recomp : Bool) (i : Nat)
    (hmode : (if recomp then o.mode >>> 5 else o.mode) &&& 1 ≠ 0) (hi : i < m.nvars)
    (hsel : (m.var i).orig = true ∨ recomp = false) :
    let x := ptOf (applyPrecision o xs)
    (⟨boundLbViol (m.var i).lb (x i), o.feastol, some o.feastolrel, (m.var i).name⟩ : Cand) ∈
        passCands m o xs objv raw recomp ∧
    (⟨boundUbViol (m.var i).ub (x i), o.feastol, some o.feastolrel, (m.var i).name⟩ : Cand) ∈
        passCands m o xs objv raw recomp := by
  intro x
  have hmem : i ∈ m.checkedVars recomp (!(m.var i).orig) := by
    unfold Model.checkedVars
    simp only [List.mem_filter, List.mem_reverse, List.mem_range, hi, true_and, Bool.and_eq_true, beq_self_eq_true,
      Bool.or_eq_true, Bool.not_eq_true']
    rcases hsel with h | h <;> simp [h]
  have hL : (⟨boundLbViol (m.var i).lb (x i), o.feastol, some o.feastolrel, (m.var i).name⟩ : Cand) ∈
      m.varBndCands o x recomp (!(m.var i).orig) :=
    List.mem_flatMap.mpr ⟨i, hmem, by simp⟩
  have hU : (⟨boundUbViol (m.var i).ub (x i), o.feastol, some o.feastolrel, (m.var i).name⟩ : Cand) ∈
      m.varBndCands o x recomp (!(m.var i).orig) :=
    List.mem_flatMap.mpr ⟨i, hmem, by simp⟩
  unfold passCands
  simp only []
  rw [if_pos hmode]
  have hx : (m.envOf o (applyPrecision o xs) raw recomp).x = x := rfl
  rw [hx]
  cases ho : (m.var i).orig <;> simp only [ho, Bool.not_true, Bool.not_false] at hL hU <;>
    simp only [List.mem_append] <;> grind

/-- with bits 2|4|8, every not-unused constraint whose class meets the mode is tested -/
theorem C07_selected_con (m : Model) (o : Opts) (xs objv raw : List Rat) (recomp : Bool) (kp : Keeper) (it : Item)
    (hkp : kp ∈ m.keepers) (hit : it ∈ kp.items)
    (hsel : it.selected (if recomp then o.mode >>> 5 else o.mode) = true) :
    (⟨it.con.viol (m.envOf o (applyPrecision o xs) raw recomp), o.feastol, some o.feastolrel, it.name⟩ : Cand) ∈
      passCands m o xs objv raw recomp := by
  unfold passCands
  simp only
  generalize (if recomp then o.mode >>> 5 else o.mode) = mode at hsel ⊢
  have h14 : mode &&& 14 ≠ 0 := by
    unfold Item.selected at hsel
    simp only [Bool.and_eq_true, Bool.not_eq_true', decide_eq_true_eq] at hsel
    have hc : it.cclass &&& 14 = it.cclass := by
      unfold Item.cclass; cases it.bridged <;> by_cases hd : it.depth = 0 <;> simp [hd]
    intro h0
    apply hsel.2
    rw [← hc, Nat.and_assoc, Nat.and_comm 14 mode, h0, Nat.and_zero]
  rw [if_pos h14]
  simp only [List.mem_append]
  refine Or.inl (Or.inr ?_)
  refine List.mem_flatMap.mpr ⟨kp, hkp, ?_⟩
  unfold Keeper.selCands
  exact List.mem_map.mpr ⟨it, List.mem_filter.mpr ⟨List.mem_reverse.mpr hit, hsel⟩, rfl⟩

/-! ## 5. return value, `sol:chk:fail`, `sol:chk:infeas` -/

theorem C07_ret (m : Model) (o : Opts) (xs objv : List Rat) (ki : Bool) :
    (checkSolution m o xs objv ki).ret = true ↔ (checkSolution m o xs objv ki).hasReport = false := by
  unfold Outcome.ret; cases (checkSolution m o xs objv ki).hasReport <;> simp

/-- **C07_fail**: with `sol:chk:fail` the run ends with code 150 exactly when there is a report -/
theorem C07_fail (o : Opts) (oc : Outcome) (hf : o.fail = true) :
    solveCodeOverride o oc = some 150 ↔ oc.hasReport = true := by
  unfold solveCodeOverride; cases oc.hasReport <;> simp [hf]

/-- without the option the solve code is never overridden, and a report becomes a warning -/
theorem C07_fail_off (o : Opts) (oc : Outcome) (hf : o.fail = false) :
    solveCodeOverride o oc = none ∧ (warningIssued o oc = true ↔ oc.hasReport = true) := by
  unfold solveCodeOverride warningIssued; cases oc.hasReport <;> simp [hf]

/-- a solution flagged as known infeasible is not checked unless `sol:chk:infeas` -/
theorem C07_infeas_flag_skip (m : Model) (o : Opts) (xs objv : List Rat) (hi : o.infeas = false) :
    checkSolution m o xs objv true = .skipped ∧ (checkSolution m o xs objv true).hasReport = false := by
  unfold checkSolution; simp [hi, Outcome.hasReport]

/-- **C07_infeas_skip**: in terms of the solver's status, the check is skipped *exactly* for the codes of
`IsProblemInfeasible` (200..299) without `sol:chk:infeas` — not for unbounded (300..399), undecided (450..469), limit,
failure or solved statuses -/
theorem C07_infeas_skip (m : Model) (o : Opts) (xs objv : List Rat) (code : Int) :
    checkSolutionCode m o xs objv code = .skipped ↔ ((200 ≤ code ∧ code ≤ 299) ∧ o.infeas = false) := by
  unfold checkSolutionCode checkSolution isProblemInfeasible
  by_cases h1 : 200 ≤ code <;> by_cases h2 : code ≤ 299 <;> cases hi : o.infeas <;> simp [h1, h2, hi]

/-- for every other status (or with `sol:chk:infeas`) the point is checked: no report iff all selected tests pass -/
theorem C07_checked_for_code (m : Model) (o : Opts) (xs objv : List Rat) (code : Int)
    (h : ¬ ((200 ≤ code ∧ code ≤ 299) ∧ o.infeas = false)) :
    (checkSolutionCode m o xs objv code).hasReport = false ↔
      ((o.mode &&& 31 ≠ 0 → ∀ c ∈ passCands m o xs objv [] false, c.violated = false) ∧
       (o.mode &&& 992 ≠ 0 →
         ∀ c ∈ passCands m o (recompute m o xs) objv (xBack m o xs) true, c.violated = false)) := by
  unfold checkSolutionCode
  rw [C07_iff]
  have hk : ¬ (isProblemInfeasible code = true ∧ o.infeas = false) := by
    unfold isProblemInfeasible
    simp only [Bool.and_eq_true, decide_eq_true_eq]
    exact h
  simp [hk]

/-! ## 6. recomputation of auxiliary variables -/

theorem applyPrecision_length (o : Opts) (xs : List Rat) : (applyPrecision o xs).length = xs.length := by
  unfold applyPrecision
  cases o.round <;> cases o.prec <;> simp

/-- **C07_recompute**: on a model whose defining expressions are ordered (acyclic by variable index), the recomputed
vector satisfies every definition: each auxiliary variable with a (used) init expression equals the value of that
expression *at the recomputed vector*; all other variables keep their (rounded) solver value. -/
theorem C07_recompute (m : Model) (o : Opts) (xs : List Rat) (hn : xs.length = m.nvars) (hord : m.ordered = true)
    (i : Nat) (hi : i < xs.length) :
    (recompute m o xs).getD i 0 =
      match m.defOf i with
      | some f => f.value (m.envOf o (recompute m o xs) [] true)
      | none => (applyPrecision o xs).getD i 0 := by
  unfold recompute
  exact recomputeUpTo_fixpoint m o (applyPrecision o xs) (by rw [applyPrecision_length]; exact hn) hord i
    (by rw [applyPrecision_length]; exact hi)

/-- the recomputed vector is the *only* solution of the definitions: acyclic definitions determine the values -/
theorem C07_recompute_unique (m : Model) (o : Opts) (xs z : List Rat) (hn : xs.length = m.nvars)
    (hord : m.ordered = true)
    (hz : ∀ i, i < xs.length → z.getD i 0 =
      match m.defOf i with
      | some f => f.value (m.envOf o z [] true)
      | none => (applyPrecision o xs).getD i 0) :
    ∀ i, i < xs.length → z.getD i 0 = (recompute m o xs).getD i 0 := by
  intro i
  induction i using Nat.strongRecOn with
  | _ i ih =>
    intro hi
    rw [hz i hi, C07_recompute m o xs hn hord i hi]
    cases hd : m.defOf i with
    | none => rfl
    | some f =>
      simp only
      apply Func.value_congr
      · intro v hv
        have hvi : v < i := by
          unfold Model.ordered at hord
          rw [List.all_eq_true] at hord
          have := hord i (List.mem_range.mpr (hn ▸ hi))
          simp only [hd, List.all_eq_true, decide_eq_true_eq] at this
          exact this v hv
        exact ih v hvi (by omega)
      · rfl
      · rfl

/-- functional constraint on recomputed values: tested quantity is `|recomputed − solver's| + bound violation of the
recomputed value` -/
theorem C07_within_func_ideal (res : Nat) (ctx : Ctx) (f : Func) (e : Env) (ea er : Rat) (hea : 0 ≤ ea)
    (hr : e.recomp = true) :
    ((funcViol res ctx f e).check ea (some er)).1 = false ↔
      (rabs (e.x res - e.raw res) + e.boundsViolPos res ≤ ea ∨
       (e.x res ≠ 0 ∧ rabs (e.x res - e.raw res) + e.boundsViolPos res ≤ er * rabs (e.x res))) := by
  unfold funcViol recompViol
  simp only [hr, Bool.not_true, Bool.false_eq_true, if_false]
  exact within_fin_some _ _ _ _ hea

/-- conditional constraint on recomputed values (since /repo ca505ad): same tested quantity -/
theorem C07_within_cond_ideal (res : Nat) (ctx : Ctx) (c : AlgCon) (e : Env) (ea er : Rat) (hea : 0 ≤ ea)
    (hr : e.recomp = true) :
    ((condViol res ctx c e).check ea (some er)).1 = false ↔
      (rabs (e.x res - e.raw res) + e.boundsViolPos res ≤ ea ∨
       (e.x res ≠ 0 ∧ rabs (e.x res - e.raw res) + e.boundsViolPos res ≤ er * rabs (e.x res))) := by
  unfold condViol recompViol
  simp only [hr, if_true]
  exact within_fin_some _ _ _ _ hea

/-- **C07_ideal_cond_bounds** (full strength): if the idealistic pass does not report a conditional constraint, the
recomputed result variable respects its bounds within tolerance — so a logical constraint encoded by fixing that
result (`not (x >= 5)`: bounds [0,0]) cannot be violated unnoticed -/
theorem C07_ideal_cond_bounds (res : Nat) (ctx : Ctx) (c : AlgCon) (e : Env) (ea er : Rat) (hea : 0 ≤ ea)
    (hr : e.recomp = true) (h : ((condViol res ctx c e).check ea (some er)).1 = false) :
    e.boundsViolPos res ≤ ea ∨ (e.x res ≠ 0 ∧ e.boundsViolPos res ≤ er * rabs (e.x res)) := by
  have := (C07_within_cond_ideal res ctx c e ea er hea hr).mp h
  have h0 := rabs_nonneg (e.x res - e.raw res)
  grind

/-! ## 6b. the piecewise-linear evaluator is the mathematical PL function of its points

`ComputeValue(PLConstraint)` works on `PLPoints` (x strictly increasing).  For every argument the scan-and-interpolate
code returns the value of the piecewise-linear function through the points: linear interpolation between consecutive
points, and the first / last segment's line extended to the left / right. -/

/-- between two consecutive points (end points included) -/
theorem C07_pl_between (pre : List (Rat × Rat)) (a b : Rat × Rat) (post : List (Rat × Rat)) (x : Rat)
    (hs : plSorted (pre ++ a :: b :: post)) (ha : a.1 ≤ x) (hb : x ≤ b.1) :
    plValue (pre ++ a :: b :: post) x = a.2 + (b.2 - a.2) / (b.1 - a.1) * (x - a.1) :=
  plValue_between pre a b post x hs ha hb

/-- left of the first point: the first segment's line, extended (slope `(y1−y0)/(x1−x0)`, value decreasing by
`slope·(x0−x)` — the sign the seeded change C07-1 flips) -/
theorem C07_pl_left (a b : Rat × Rat) (post : List (Rat × Rat)) (x : Rat)
    (hs : plSorted (a :: b :: post)) (hx : x < a.1) :
    plValue (a :: b :: post) x = a.2 + (b.2 - a.2) / (b.1 - a.1) * (x - a.1) :=
  plValue_left a b post x hs hx

/-- right of the last point: the last segment's line, extended -/
theorem C07_pl_right (pre : List (Rat × Rat)) (a b : Rat × Rat) (x : Rat)
    (hs : plSorted (pre ++ [a, b])) (hx : b.1 < x) :
    plValue (pre ++ [a, b]) x = b.2 + (b.2 - a.2) / (b.1 - a.1) * (x - b.1) :=
  plValue_right pre a b x hs hx

/-- `<<0,2; -1,1,3>> x` (points (−1,1),(0,0),(2,2),(3,5)): f(−5)=5, f(−1/2)=1/2, f(1)=1, f(5)=11 -/
theorem C07_pl_example :
    plValue [(-1, 1), (0, 0), (2, 2), (3, 5)] (-5) = 5 ∧ plValue [(-1, 1), (0, 0), (2, 2), (3, 5)] (-1/2) = 1/2 ∧
    plValue [(-1, 1), (0, 0), (2, 2), (3, 5)] 1 = 1 ∧ plValue [(-1, 1), (0, 0), (2, 2), (3, 5)] 5 = 11 := by
  decide +kernel

/-! ## 7. where the real code fell / falls short of the property

### 7a, 7b (history — both fixed in /repo, the model follows the fixed code)

* 7a *integrality was only reported when the value rounds to 0* (`CheckVars` passed `epsrel = INFINITY`): fixed by
  /repo 1797720; the full-strength statement is now `C07_integrality` above.  The former theorems
  `C07_integrality_partial`, `C07_counterexample_integrality` (k ∈ [0,10] integer at 5/2, all mode bits: no report)
  and `C07_integrality_reported_near_zero` were about the old code and are gone; the same input is now a positive
  example (`C07_integrality_example`).
* 7b *conditional constraints ignored the bounds of their recomputed result in the idealistic pass*: fixed by /repo
  ca505ad; full strength: `C07_within_cond_ideal`, `C07_ideal_cond_bounds`.  The former
  `C07_counterexample_cond_ideal` (`not (x >= 5)` at x = 7, mode 96: no report) is now `C07_cond_ideal_example`. -/

def cexIntModel : Model := ⟨[⟨some 0, some 10, true, true, "k", none⟩], [], []⟩
def cexOpts (mode : Nat) : Opts := ⟨mode, 1/1000000, 1/1000000, 1/100000, none, none, false, false⟩

/-- integer variable `k ∈ [0,10]` at `5/2` and at `1/4`: reported (bit 1), code 150 under `sol:chk:fail`; at 3: not -/
theorem C07_integrality_example :
    (checkSolution cexIntModel (cexOpts 1) [5/2] [] false).hasReport = true ∧
    (checkSolution cexIntModel (cexOpts 1) [1/4] [] false).hasReport = true ∧
    solveCodeOverride { cexOpts 1 with fail := true } (checkSolution cexIntModel (cexOpts 1) [5/2] [] false) = some 150 ∧
    (checkSolution cexIntModel (cexOpts 1023) [3] [] false).hasReport = false := by
  decide +kernel

def cexCondModel : Model :=
  ⟨[⟨some 0, some 10, false, true, "x", none⟩, ⟨some 0, some 0, true, false, "r", some (0, 0)⟩],
   [⟨"_condlinge", true, [⟨.cond 1 .neg ⟨⟨[(1, 0)], [], 0⟩, .ge, some 5, none⟩, 0, true, false, "c"⟩]⟩], []⟩

/-- `not (x >= 5)` (result `r` fixed to 0): at `x = 7` the recomputed `r` is 1 and both the idealistic pass (bits
32+64) and the realistic pass (bits 1+2) report; at `x = 3` neither does -/
theorem C07_cond_ideal_example :
    (recompute cexCondModel (cexOpts 96) [7, 0]).getD 1 0 = 1 ∧
    (checkSolution cexCondModel (cexOpts 96) [7, 0] [] false).hasReport = true ∧
    (checkSolution cexCondModel (cexOpts 3) [7, 0] [] false).hasReport = true ∧
    (checkSolution cexCondModel (cexOpts 99) [3, 0] [] false).hasReport = false := by
  decide +kernel

/-! ### 7c. false alarm: a checkable constraint reading an orphaned result variable

When `c ==> exists{…}` is redefined, the original `Or` is marked unused and its result variable fixed to 0, but the
reformulated `ImplicationConstraint` remains checkable (top-level class) and still reads that variable.  The flat
counterpart of the failing input found on the real code: every variable is within its bounds and there is no
solver-side constraint at all (mode 1+8: no report), yet the default class "original constraints" (bit 2) reports. -/

def cexOrphanModel : Model :=
  ⟨[⟨some 0, some 1, true, true, "b", none⟩, ⟨some 0, some 0, true, false, "o", some (1, 0)⟩,
    ⟨some 1, some 1, false, false, "t", none⟩, ⟨some 1, some 1, true, false, "r", some (0, 0)⟩],
   [⟨"_impl", true, [⟨.func 3 .pos (.impl 0 1 2), 0, true, false, "imp"⟩]⟩,
    ⟨"_or", true, [⟨.func 1 .pos (.or [0]), 0, true, true, "or"⟩]⟩], []⟩

theorem C07_counterexample_orphan :
    (checkSolution cexOrphanModel (cexOpts 9) [1, 0, 1, 1] [] false).hasReport = false ∧
    (checkSolution cexOrphanModel (cexOpts 2) [1, 0, 1, 1] [] false).hasReport = true := by
  decide +kernel

/-! ### 7d. linear / quadratic functional constraints are never tested themselves

`LinearFunctionalConstraint` / `QuadraticFunctionalConstraint` do not derive from `CustomFunctionalConstraint` and
inherit `BasicConstraint::ComputeViolation` (`{0,0}`): a wrong solver value of `r = affine/quadratic expr` is only
visible through the constraints that use `r` (idealistic pass) or through the solver-side copy of the definition. -/
theorem C07_adef_never_reported (res : Nat) (ctx : Ctx) (b : Body) (e : Env) (ea : Rat) (er : Option Rat)
    (hea : 0 ≤ ea) : (((Con.adef res ctx b).viol e).check ea er).1 = false := by
  simp only [Con.viol, Violation.check]
  have : ¬ (ea < 0) := by grind
  simp [this]

/-! ## 8. the hand model equals the definitions generated from the source (`translators/gen_solcheck.py`)

`MpVerif.Gen.SolCheck` is regenerated on every run from the clang AST of the current tree.  The theorems below state, for
all arguments, that the model's decision functions are these generated functions (doubles read as `GenSem.D`); so the
theorems above speak about the code's own logic, and a change of that logic in the source breaks one of these obligations. -/

open GenSem
namespace G
export MpVerif.Gen.SolCheck (violationCheck algComputeViolation rangeIsValid rhsIsValidLT rhsIsValidLE rhsIsValidEQ rhsIsValidGE
  rhsIsValidGT rhsLbLT rhsUbLT rhsLbLE rhsUbLE rhsLbEQ rhsUbEQ rhsLbGE rhsUbGE rhsLbGT rhsUbGT funcComputeViolation
  condComputeViolation countViol checkViol conClass conSelected conSlot realMask idealMask varsBit consMask objBit idealShift
  failCode ctxnone ctxpos ctxneg ctxmix computeValueTypes computeViolationSites)
end G

/-- the code of a context in `mp::Context::CtxVal` (generated enumerator values) -/
def ctxCode : Ctx → Nat
  | .none => G.ctxnone | .pos => G.ctxpos | .neg => G.ctxneg | .mix => G.ctxmix

/-- a model violation as the pair of doubles `{viol_, valX_}` -/
def violD (v : Violation) : D × D := (v.viol, D.fin v.ref)

/-! ## `Violation::Check` -/

/-- **C07_gen_check**: the model's tolerance test is the generated `Violation::Check`, for every finite or infinite
violation amount (for `+∞` with the reference value the code produces, 0) -/
theorem C07_gen_check (v : Violation) (ea er : Rat) (h : v.viol = .pinf → v.ref = 0) :
    G.violationCheck v.viol (D.fin v.ref) (D.fin ea) (D.fin er) =
      ((v.check ea (some er)).1, D.fin (v.check ea (some er)).2) := by
  obtain ⟨viol, r⟩ := v
  cases viol with
  | ninf => simp [Gen.SolCheck.violationCheck, Violation.check, D.gt, D.fin, ER.lt, D.ofInt]
  | pinf =>
    have hr : r = 0 := h rfl
    subst hr
    simp [Gen.SolCheck.violationCheck, Violation.check, D.gt, D.fin, ER.lt, D.ofInt, D.eq, D.abs, rabs]
  | fin a =>
    simp only [Gen.SolCheck.violationCheck, Violation.check, D.gt, D.fin, ER.lt, D.ofInt, D.eq, D.abs, D.div]
    by_cases h1 : ea < a
    · by_cases h2 : r = 0
      · subst h2; simp [h1, rabs]
      · have hr : ¬ (0 = rabs r) := by have := rabs_pos h2; grind
        by_cases h3 : er < rabs (a / r) <;> simp [h1, h2, hr, h3, ER.lt]
    · simp [h1]

/-! ## algebraic constraints -/

/-- **C07_gen_alg**: `AlgebraicConstraint::ComputeViolation(x, false)` -/
theorem C07_gen_alg (c : AlgCon) (x : Pt) (valid : Bool) :
    G.algComputeViolation (D.fin (c.body.val x)) (loD c.lo) (hiD c.hi) valid false = violD (c.viol x) := by
  unfold AlgCon.viol violD
  generalize c.body.val x = bd
  cases hlo : c.lo <;> cases hhi : c.hi <;>
    simp only [Gen.SolCheck.algComputeViolation, loD, hiD, D.gt, D.fin, ER.lt, D.sub, D.neg, D.add, D.max', D.ofInt,
      Bool.false_eq_true, if_false, decide_eq_true_eq]
  · simp
  · split <;> simp [ER.lt] <;> grind
  · split <;> simp [ER.lt] <;> grind
  · rename_i l u
    by_cases h1 : bd < l
    · simp [h1]; grind
    · by_cases h2 : u < bd
      · simp [h1, h2]; grind
      · simp only [h1, h2, if_false]
        have : max (l - bd) (bd - u) = if l + -bd < bd + -u then bd + -u else l + -bd := by
          rw [Rat.max_def]; split <;> split <;> grind
        simp [this]; split <;> simp <;> grind

/-- logical mode `ComputeViolation(x, true)`: `{double(!is_valid(bd)), 1.0}` -/
theorem C07_gen_alg_logical (c : AlgCon) (x : Pt) :
    G.algComputeViolation (D.fin (c.body.val x)) (loD c.lo) (hiD c.hi) (c.isValid (c.body.val x)) true =
      violD (c.violLogical x) := by
  unfold AlgCon.violLogical violD
  simp only [Gen.SolCheck.algComputeViolation, if_true, D.ofBool, D.ofInt, D.fin]
  cases c.isValid (c.body.val x) <;> simp

/-- **C07_gen_isvalid**: `is_valid`, `lb()`, `ub()` of the five right-hand-side classes and of the range class are what the
model uses for the corresponding kinds -/
theorem C07_gen_isvalid (b : Body) (r l u bd : Rat) :
    ((⟨b, .lt, none, some r⟩ : AlgCon).isValid bd = G.rhsIsValidLT (D.fin bd) (D.fin r) ∧ loD none = G.rhsLbLT (D.fin r) ∧ hiD (some r) = G.rhsUbLT (D.fin r)) ∧
    ((⟨b, .le, none, some r⟩ : AlgCon).isValid bd = G.rhsIsValidLE (D.fin bd) (D.fin r) ∧ loD none = G.rhsLbLE (D.fin r) ∧ hiD (some r) = G.rhsUbLE (D.fin r)) ∧
    ((⟨b, .eq, some r, some r⟩ : AlgCon).isValid bd = G.rhsIsValidEQ (D.fin bd) (D.fin r) ∧ loD (some r) = G.rhsLbEQ (D.fin r) ∧ hiD (some r) = G.rhsUbEQ (D.fin r)) ∧
    ((⟨b, .ge, some r, none⟩ : AlgCon).isValid bd = G.rhsIsValidGE (D.fin bd) (D.fin r) ∧ loD (some r) = G.rhsLbGE (D.fin r) ∧ hiD none = G.rhsUbGE (D.fin r)) ∧
    ((⟨b, .gt, some r, none⟩ : AlgCon).isValid bd = G.rhsIsValidGT (D.fin bd) (D.fin r) ∧ loD (some r) = G.rhsLbGT (D.fin r) ∧ hiD none = G.rhsUbGT (D.fin r)) ∧
    ((⟨b, .range, some l, some u⟩ : AlgCon).isValid bd = G.rangeIsValid (D.fin bd) (D.fin l) (D.fin u)) := by
  simp only [AlgCon.isValid, Gen.SolCheck.rhsIsValidLT, Gen.SolCheck.rhsIsValidLE, Gen.SolCheck.rhsIsValidEQ,
    Gen.SolCheck.rhsIsValidGE, Gen.SolCheck.rhsIsValidGT, Gen.SolCheck.rangeIsValid, Gen.SolCheck.rhsLbLT,
    Gen.SolCheck.rhsUbLT, Gen.SolCheck.rhsLbLE, Gen.SolCheck.rhsUbLE, Gen.SolCheck.rhsLbEQ, Gen.SolCheck.rhsUbEQ,
    Gen.SolCheck.rhsLbGE, Gen.SolCheck.rhsUbGE, Gen.SolCheck.rhsLbGT, Gen.SolCheck.rhsUbGT,
    loD, hiD, D.lt, D.le, D.ge, D.gt, D.eq, D.fin, D.neg, D.pinf, ER.lt]
  repeat' constructor
  all_goals first | rfl | trivial | grind | (simp; done) | (simp; grind)

/-! ## functional and conditional constraints -/

/-- `std::max(lb - x, x - ub)` of `VarInfoImpl::bounds_viol` as a double -/
def boundsViolD (e : Env) (i : Nat) : D :=
  D.max' (D.sub (loD (e.lb i)) (D.fin (e.x i))) (D.sub (D.fin (e.x i)) (hiD (e.ub i)))

theorem max0_boundsViolD (e : Env) (i : Nat) :
    D.max' (D.ofInt 0) (boundsViolD e i) = D.fin (e.boundsViolPos i) := by
  unfold boundsViolD Env.boundsViolPos
  cases hl : e.lb i <;> cases hu : e.ub i <;>
    simp only [loD, hiD, D.sub, D.neg, D.add, D.max', D.fin, D.ofInt, ER.lt, Rat.max_def]
  · simp
  · simp [ER.lt]; split <;> split <;> (try split) <;> simp <;> grind
  · simp [ER.lt]; split <;> split <;> (try split) <;> simp <;> grind
  · simp [ER.lt]; repeat' split
    all_goals (simp; try grind)

/-- **C07_gen_varinfo**: `VarInfoImpl::is_at_lb / is_at_ub / is_nonzero / is_positive / bounds_viol` (constr_keeper.h) are the
model's `Env.isAtLb / isAtUb / isNonzero / isPositive` and the bound excess used by `Env.boundsViolPos` -/
theorem C07_gen_varinfo (e : Env) (i : Nat) :
    e.isAtLb i = Gen.SolCheck.isAtLb (D.fin (e.x i)) (loD (e.lb i)) (D.fin e.feastol) ∧
    e.isAtUb i = Gen.SolCheck.isAtUb (D.fin (e.x i)) (hiD (e.ub i)) (D.fin e.feastol) ∧
    e.isNonzero i = Gen.SolCheck.isNonzero (D.fin (e.x i)) (e.isInt i) (D.fin e.feastol) ∧
    e.isPositive i = Gen.SolCheck.isPositive (D.fin (e.x i)) (e.isInt i) (D.fin e.feastol) ∧
    boundsViolD e i = Gen.SolCheck.boundsViol (loD (e.lb i)) (D.fin (e.x i)) (hiD (e.ub i)) := by
  refine ⟨?_, ?_, ?_, ?_, rfl⟩
  · unfold Env.isAtLb Gen.SolCheck.isAtLb
    cases e.lb i <;> simp [loD, D.le, D.sub, D.neg, D.add, D.fin, ER.lt] <;> grind
  · unfold Env.isAtUb Gen.SolCheck.isAtUb
    cases e.ub i <;> simp [hiD, D.le, D.sub, D.neg, D.add, D.fin, ER.lt] <;> grind
  · unfold Env.isNonzero Gen.SolCheck.isNonzero
    have dl : ∀ a b : Rat, decide (a ≤ b) = !decide (b < a) := by
      intro a b; by_cases h : a ≤ b <;> simp [h] <;> grind
    cases e.isInt i <;> simp [D.ge, D.abs, D.fin, ER.lt, dl]
  · unfold Env.isPositive Gen.SolCheck.isPositive
    have dl : ∀ a b : Rat, decide (a ≤ b) = !decide (b < a) := by
      intro a b; by_cases h : a ≤ b <;> simp [h] <;> grind
    cases e.isInt i <;> simp [D.ge, D.fin, ER.lt, dl]

/-- **C07_gen_func**: the generic `ComputeViolation(CustomFunctionalConstraint)` by context / on recomputed values -/
theorem C07_gen_func (res : Nat) (ctx : Ctx) (f : Func) (e : Env) :
    G.funcComputeViolation e.recomp (ctxCode ctx) (D.fin (e.x res)) (D.fin (f.value e)) (D.fin (e.raw res)) (boundsViolD e res) =
      violD (funcViol res ctx f e) := by
  unfold funcViol violD recompViol
  cases hr : e.recomp
  · cases ctx <;>
      simp [Gen.SolCheck.funcComputeViolation, ctxCode, Gen.SolCheck.ctxnone, Gen.SolCheck.ctxpos, Gen.SolCheck.ctxneg,
        Gen.SolCheck.ctxmix, D.sub, D.neg, D.add, D.abs, D.fin, D.pinf, D.ofInt] <;> grind
  · simp only [Gen.SolCheck.funcComputeViolation, if_true, max0_boundsViolD, Bool.not_true, Bool.false_eq_true, if_false]
    simp [D.sub, D.neg, D.add, D.abs, D.fin]; grind

/-- **C07_gen_cond**: `ConditionalConstraint::ComputeViolation` -/
theorem C07_gen_cond (res : Nat) (ctx : Ctx) (c : AlgCon) (e : Env) :
    G.condComputeViolation e.recomp (ctxCode ctx) (c.viol e.x).viol (D.fin (c.viol e.x).ref) (D.fin (e.x res))
        (D.fin (e.raw res)) (boundsViolD e res) =
      violD (condViol res ctx c e) := by
  unfold condViol violD
  cases hr : e.recomp
  · simp only [Gen.SolCheck.condComputeViolation, Bool.false_eq_true, if_false]
    generalize (c.viol e.x) = v
    obtain ⟨viol, r⟩ := v
    cases ctx <;> cases viol <;>
      simp [ctxCode, Gen.SolCheck.ctxnone, Gen.SolCheck.ctxpos, Gen.SolCheck.ctxneg, Gen.SolCheck.ctxmix,
        D.le, D.ge, D.fin, D.ofInt, D.abs, D.neg, D.pinf, ER.lt, ER.gtRat] <;>
      (try (by_cases h1 : (1/2 : Rat) ≤ e.x res <;> (try by_cases h2 : (0 : Rat) < _) <;> simp_all <;> grind))
  · have := C07_gen_func res ctx (.affine ⟨[], [], 0⟩) e
    simp only [hr, funcViol, Bool.not_true, Bool.false_eq_true, if_false, violD] at this
    simp only [Gen.SolCheck.condComputeViolation, if_true, recompViol]
    simp only [Gen.SolCheck.funcComputeViolation, if_true] at this ⊢
    exact this

/-! ## evaluators without loops (`constr_eval.h`), complementarity and indicator violations (`constr_general.h`) -/

/-- **C07_gen_eval**: `ComputeValue` for Abs / Not / Div / IfThen / Implication constraints: the model's `Func.value` is the
generated function of the argument values (Div: for a non-zero divisor; at 0 the C++ returns ±∞, which the model does not represent) -/
theorem C07_gen_eval (e : Env) (a b c : Nat) :
    D.fin ((Func.abs a).value e) = Gen.SolCheck.evalAbs (D.fin (e.x a)) ∧
    D.fin ((Func.not a).value e) = Gen.SolCheck.evalNot (D.fin (e.x a)) ∧
    (e.x b ≠ 0 → D.fin ((Func.div a b).value e) = Gen.SolCheck.evalDiv (D.fin (e.x a)) (D.fin (e.x b))) ∧
    D.fin ((Func.ifthen a b c).value e) = Gen.SolCheck.evalIfThen (D.fin (e.x a)) (D.fin (e.x b)) (D.fin (e.x c)) ∧
    D.fin ((Func.impl a b c).value e) = Gen.SolCheck.evalImpl (D.fin (e.x a)) (D.fin (e.x b)) (D.fin (e.x c)) := by
  refine ⟨?_, ?_, ?_, ?_, ?_⟩
  · simp [Func.value, Gen.SolCheck.evalAbs, D.abs, D.fin]
  · simp [Func.value, Gen.SolCheck.evalNot, D.ofBool, D.lt, D.fin, ER.lt, b2r]
  · intro hb
    have : rabs (e.x b) ≠ 0 := by unfold rabs; split <;> grind
    simp [Func.value, Gen.SolCheck.evalDiv, D.eq, D.abs, D.ofInt, D.div, D.fin, hb, this]
    intro h0; exact absurd h0.symm this
  · simp only [Func.value, Gen.SolCheck.evalIfThen, D.ge, D.fin, ER.lt]
    by_cases h : (1/2 : Rat) ≤ e.x a
    · have : ¬ (e.x a < 1/2) := by grind
      simp [h, this]
    · have : e.x a < 1/2 := by grind
      simp [h, this]
  · simp [Func.value, Gen.SolCheck.evalImpl, D.ofBool, D.ge, D.lt, D.fin, ER.lt, b2r]
    have h1 : ∀ q : Rat, (¬ q < 1/2) ↔ (1/2 : Rat) ≤ q := by intro q; grind
    simp only [h1]

/-- **C07_gen_compl**: `ComplementarityConstraint::ComputeViolation`, with the position tests `is_at_lb` / `is_at_ub` of
`C07_gen_varinfo` and the expression value as operands -/
theorem C07_gen_compl (ex : Body) (v : Nat) (e : Env) :
    Gen.SolCheck.complComputeViolation (D.fin (ex.val e.x)) (e.isAtLb v) (e.isAtUb v) = violD (complViol ex v e) := by
  unfold complViol violD Gen.SolCheck.complComputeViolation
  cases e.isAtLb v <;> cases e.isAtUb v <;> simp [D.neg, D.abs, D.fin, D.ofInt]

/-- **C07_gen_indicator**: `IndicatorConstraint::ComputeViolation` (the inner row's violation is the operand, `C07_gen_alg`) -/
theorem C07_gen_indicator (b : Nat) (bv : Int) (a : AlgCon) (e : Env) :
    Gen.SolCheck.indComputeViolation (D.fin (e.x b)) bv (a.viol e.x).viol (D.fin (a.viol e.x).ref) = violD ((Con.indicator b bv a).viol e) := by
  unfold Con.viol violD Gen.SolCheck.indComputeViolation
  by_cases h : cround (e.x b) = bv <;> simp [h, D.eq, D.round, D.ofInt, D.fin]

/-! ### evaluators with a range-for loop -/
theorem foldl_inl {S : Type} (f : Sum D S → D → Sum D S) (hf : ∀ r x, f (Sum.inl r) x = Sum.inl r) (l : List D) (r : D) :
    l.foldl f (Sum.inl r) = Sum.inl r := by
  induction l with
  | nil => rfl
  | cons a t ih => simp [List.foldl, hf, ih]

theorem fold_exit (f : Sum D Unit → D → Sum D Unit) (p : Rat → Bool) (v : D) (hf1 : ∀ r x, f (Sum.inl r) x = Sum.inl r)
    (hf2 : ∀ q, f (Sum.inr ()) (D.fin q) = if p q then Sum.inl v else Sum.inr ()) (l : List Rat) :
    (l.map D.fin).foldl f (Sum.inr ()) = if l.any p then Sum.inl v else Sum.inr () := by
  induction l with
  | nil => rfl
  | cons a t ih =>
    simp only [List.map, List.foldl, hf2, List.any]
    by_cases hp : p a = true
    · rw [if_pos hp, foldl_inl f hf1]; simp [hp]
    · rw [if_neg hp, ih]; simp [hp]

theorem fold_state (f : Sum D D → D → Sum D D) (g : Rat → Rat → Rat)
    (hf2 : ∀ r q, f (Sum.inr (D.fin r)) (D.fin q) = Sum.inr (D.fin (g r q))) (l : List Rat) (a : Rat) :
    (l.map D.fin).foldl f (Sum.inr (D.fin a)) = Sum.inr (D.fin (l.foldl g a)) := by
  induction l generalizing a with
  | nil => rfl
  | cons b t ih => simp only [List.map, List.foldl, hf2, ih]

theorem count_fold (l : List Rat) (a : Rat) :
    l.foldl (fun r q => if (1/2 : Rat) ≤ q then r + 1 else r) a = a + ((l.filter (fun v => decide ((1/2 : Rat) ≤ v))).length : Nat) := by
  induction l generalizing a with
  | nil =>
    have : ((0 : Nat) : Rat) = 0 := by push_cast; rfl
    simp only [List.foldl, List.filter, List.length_nil, this]; grind
  | cons b t ih =>
    simp only [List.foldl, List.filter]
    by_cases h : (1/2 : Rat) ≤ b
    · simp only [h, if_true, decide_true, List.length_cons, ih]
      push_cast; grind
    · simp only [h, if_false, decide_false, ih]

/-- **C07_gen_eval_loops**: `ComputeValue` for And / Or / Count / Max / Min: the range-for over the arguments, generated as a
fold with early exit, computes the model's `Func.value` (Max / Min: for a non-empty argument list; on an empty one the C++
returns ∓∞) -/
theorem C07_gen_eval_loops (e : Env) (a : List Nat) :
    D.fin ((Func.and a).value e) = Gen.SolCheck.evalAnd ((a.map e.x).map D.fin) ∧
    D.fin ((Func.or a).value e) = Gen.SolCheck.evalOr ((a.map e.x).map D.fin) ∧
    D.fin ((Func.count a).value e) = Gen.SolCheck.evalCount ((a.map e.x).map D.fin) ∧
    (a ≠ [] → D.fin ((Func.max a).value e) = Gen.SolCheck.evalMax ((a.map e.x).map D.fin)) ∧
    (a ≠ [] → D.fin ((Func.min a).value e) = Gen.SolCheck.evalMin ((a.map e.x).map D.fin)) := by
  refine ⟨?_, ?_, ?_, ?_, ?_⟩
  · unfold Gen.SolCheck.evalAnd
    rw [fold_exit _ (fun q => decide (q < 1/2)) (D.ofInt 0) (by intros; rfl) (by intro q; simp [D.lt, ER.lt, D.fin])]
    simp only [Func.value, List.any_map]
    cases h : (a.any ((fun v => decide (v < 1/2)) ∘ e.x)) <;> simp_all [b2r, D.ofInt, D.fin, Function.comp_def]
  · unfold Gen.SolCheck.evalOr
    rw [fold_exit _ (fun q => decide ((1/2 : Rat) ≤ q)) (D.ofInt 1) (by intros; rfl) (by intro q; by_cases h : (1/2 : Rat) ≤ q <;> simp [D.ge, ER.lt, D.fin, h] <;> grind)]
    simp only [Func.value, List.any_map]
    cases h : (a.any ((fun v => decide ((1/2 : Rat) ≤ v)) ∘ e.x)) <;> simp_all [b2r, D.ofInt, D.fin, Function.comp_def]
  · unfold Gen.SolCheck.evalCount
    have h0 : (D.ofInt 0) = D.fin 0 := by simp [D.ofInt, D.fin]
    simp only [h0]
    rw [fold_state _ (fun r q => if (1/2 : Rat) ≤ q then r + 1 else r)
      (by intro r q; by_cases h : (1/2 : Rat) ≤ q <;> simp [D.ge, ER.lt, D.fin, D.add, D.ofInt, h] <;> grind)]
    simp only [Func.value, count_fold]
    simp [D.fin]; grind
  · intro hne
    unfold Gen.SolCheck.evalMax
    cases a with
    | nil => exact absurd rfl hne
    | cons a0 t =>
      have hstep : ∀ r q, (fun (acc : Sum D D) (xi : D) => match acc with
          | Sum.inl r => Sum.inl r
          | Sum.inr st => if (D.lt st xi) then Sum.inr xi else Sum.inr st) (Sum.inr (D.fin r)) (D.fin q) =
          Sum.inr (D.fin ((fun r v => if r < v then v else r) r q)) := by
        intro r q; by_cases h : r < q <;> simp [D.lt, ER.lt, D.fin, h]
      simp only [List.map, List.foldl]
      have h1 : D.lt (D.neg D.pinf) (D.fin (e.x a0)) = true := by simp [D.lt, D.neg, D.pinf, D.fin, ER.lt]
      simp only [h1, if_true]
      rw [fold_state _ _ hstep]
      simp [Func.value, maxL, D.fin]
  · intro hne
    unfold Gen.SolCheck.evalMin
    cases a with
    | nil => exact absurd rfl hne
    | cons a0 t =>
      have hstep : ∀ r q, (fun (acc : Sum D D) (xi : D) => match acc with
          | Sum.inl r => Sum.inl r
          | Sum.inr st => if (D.gt st xi) then Sum.inr xi else Sum.inr st) (Sum.inr (D.fin r)) (D.fin q) =
          Sum.inr (D.fin ((fun r v => if v < r then v else r) r q)) := by
        intro r q; by_cases h : q < r <;> simp [D.gt, ER.lt, D.fin, h]
      simp only [List.map, List.foldl]
      have h1 : D.gt D.pinf (D.fin (e.x a0)) = true := by simp [D.gt, D.pinf, D.fin, ER.lt]
      simp only [h1, if_true]
      rw [fold_state _ _ hstep]
      simp [Func.value, minL, D.fin]

/-! ### index loop (SOS1) and range-for with per-element pairs (NumberofConst) -/
theorem count_true_fold {R : Type} (f : Sum R Int → Bool → Sum R Int)
    (hf : ∀ n b, f (Sum.inr n) b = Sum.inr (if b then n + 1 else n)) (l : List Bool) (n : Int) :
    l.foldl f (Sum.inr n) = Sum.inr (n + ((l.filter id).length : Nat)) := by
  induction l generalizing n with
  | nil => simp
  | cons b t ih =>
    simp only [List.foldl, hf, ih]
    cases b <;> simp [List.filter] <;> omega

theorem sos_excess_cast (k : Nat) : D.ofInt (max (0 : Int) ((k : Int) - 1)) = ER.fin (((k - 1 : Nat) : Nat) : Rat) := by
  unfold D.ofInt
  cases k with
  | zero =>
    have : max (0 : Int) (((0 : Nat) : Int) - 1) = 0 := by omega
    rw [this]; rfl
  | succ m =>
    have : max (0 : Int) (((m + 1 : Nat) : Int) - 1) = (m : Int) := by omega
    rw [this]
    show ER.fin (((m : Int) : Rat)) = ER.fin (((m + 1 - 1 : Nat) : Nat) : Rat)
    have h2 : m + 1 - 1 = m := by omega
    rw [h2]; rfl

/-- **C07_gen_sos1**: `SOS_1or2_Constraint::ComputeViolationSOS1` — the index loop over the members, generated as a fold over the
reversed list of the members' `is_nonzero` flags (`C07_gen_varinfo`), is the model's `sos1Viol` -/
theorem C07_gen_sos1 (vs : List Nat) (e : Env) :
    Gen.SolCheck.sos1ComputeViolation (vs.map e.isNonzero) = violD (sos1Viol vs e) := by
  unfold Gen.SolCheck.sos1ComputeViolation
  simp only []
  rw [count_true_fold _ (by intro n b; cases b <;> rfl)]
  simp only [sos1Viol, violD]
  have hlen : ((List.filter id (vs.map e.isNonzero).reverse).length) = (vs.filter e.isNonzero).length := by
    rw [List.filter_reverse, List.length_reverse, List.filter_map, List.length_map]; rfl
  rw [hlen]
  simp only [Int.zero_add]
  rw [sos_excess_cast]
  simp [D.ofInt, D.fin]

theorem fold_count_map {α β : Type} (f : Sum D D → β → Sum D D) (g : α → β) (p : α → Bool)
    (hf : ∀ r v, f (Sum.inr (D.fin r)) (g v) = Sum.inr (D.fin (if p v then r + 1 else r))) (l : List α) (a : Rat) :
    (l.map g).foldl f (Sum.inr (D.fin a)) = Sum.inr (D.fin (a + ((l.filter p).length : Nat))) := by
  induction l generalizing a with
  | nil =>
    have : ((0 : Nat) : Rat) = 0 := by push_cast; rfl
    simp only [List.map, List.foldl, List.filter, List.length_nil, this]
    have : a + 0 = a := by grind
    rw [this]
  | cons b t ih =>
    simp only [List.map, List.foldl, List.filter, hf, ih]
    cases hp : p b
    · simp
    · simp only [if_true, List.length_cons]
      congr 2
      push_cast; grind

theorem D_sub_fin (a b : Rat) : D.sub (ER.fin a) (ER.fin b) = ER.fin (a - b) := by
  simp [D.sub, D.neg, D.add]; grind

theorem D_le_fin (a b : Rat) : D.le (ER.fin a) (ER.fin b) = decide (a ≤ b) := by
  simp only [D.le, ER.lt]
  by_cases h : a ≤ b
  · have : ¬ b < a := by grind
    simp [h, this]
  · have : b < a := by grind
    simp [h, this]

/-- **C07_gen_numberof**: `ComputeValue(NumberofConstConstraint)` — the range-for over the arguments with the per-argument
operands `x[v]`, `is_var_int(v)` and the tolerance `feastol()`, generated as a fold, is the model's `Func.value` -/
theorem C07_gen_numberof (e : Env) (k : Rat) (a : List Nat) :
    Gen.SolCheck.evalNumberofConst (D.fin k) (D.fin e.feastol) (a.map (fun v => (D.fin (e.x v), e.isInt v))) =
      D.fin ((Func.numberofConst k a).value e) := by
  unfold Gen.SolCheck.evalNumberofConst
  have h0 : (D.ofInt 0) = D.fin 0 := by simp [D.ofInt, D.fin]
  simp only [h0]
  rw [fold_count_map _ _ (numberofHit e k)]
  · simp only [Func.value]; simp [D.fin]; grind
  · intro r v
    unfold numberofHit
    by_cases hi : e.isInt v = true <;> by_cases h1 : ((cround (e.x v) : Int) : Rat) = k <;>
      by_cases h2 : rabs (e.x v - k) ≤ e.feastol <;>
      simp [hi, h1, h2, D.eq, D.round, D.fin, D_sub_fin, D_le_fin, D.abs, D.add, D.ofInt]

/-! ## `ViolSummary` -/

/-- **C07_gen_summ**: `ViolSummary::CheckViol` / `CountViol` (count, maxima and the names attached to them) -/
theorem C07_gen_summ (s : Summ) (c : Cand) (er : Rat) (he : c.epsrel = some er) (h : c.v.viol = .pinf → c.v.ref = 0) :
    G.checkViol s.n s.maxAbs s.nameAbs (D.fin s.maxRel) s.nameRel c.v.viol (D.fin c.v.ref) (D.fin c.epsabs) (D.fin er) (some c.name) =
      ((s.add c).n, (s.add c).maxAbs, (s.add c).nameAbs, D.fin (s.add c).maxRel, (s.add c).nameRel) := by
  simp only [Gen.SolCheck.checkViol, C07_gen_check c.v c.epsabs er h, Summ.add, he]
  cases hv : (c.v.check c.epsabs (some er)).1
  · simp
  · have hfin : ∀ a b : Rat, ER.lt (ER.fin a) (ER.fin b) = decide (a < b) := fun _ _ => rfl
    simp only [if_true, Gen.SolCheck.countViol, D.lt, D.fin, hfin]
    by_cases h1 : s.maxAbs.lt c.v.viol = true <;> by_cases h2 : s.maxRel < (c.v.check c.epsabs (some er)).2 <;>
      simp [h1, h2]

/-! ## class selection and mode bits -/

/-- **C07_gen_class**: class, selection test and report slot of a constraint -/
theorem C07_gen_class (it : Item) (mode : Nat) :
    it.cclass = G.conClass it.bridged it.depth ∧
    it.selected mode = (!it.unused && G.conSelected it.cclass mode) ∧
    it.slot = G.conSlot it.cclass := by
  refine ⟨?_, ?_, ?_⟩
  · unfold Item.cclass Gen.SolCheck.conClass
    cases it.bridged <;> by_cases hd : it.depth = 0 <;> simp [hd]
  · unfold Item.selected Gen.SolCheck.conSelected
    cases it.unused <;> by_cases h : it.cclass &&& mode = 0 <;> simp [h]
  · unfold Item.slot Gen.SolCheck.conSlot
    by_cases h2 : it.cclass &&& 2 = 0 <;> by_cases h8 : it.cclass &&& 8 = 0 <;> simp [h2, h8]

/-- **C07_gen_masks**: the constants the model combines with `sol:chk:mode` and the code raised by `sol:chk:fail` are those
of `CheckSolution` / `DoCheckSol` / `sol::MP_SOLUTION_CHECK` -/
theorem C07_gen_masks :
    G.realMask = 31 ∧ G.idealMask = 992 ∧ G.idealShift = 5 ∧ G.varsBit = 1 ∧ G.consMask = 14 ∧ G.objBit = 16 ∧
    (∀ o oc, solveCodeOverride o oc = some G.failCode ∨ solveCodeOverride o oc = none) := by
  refine ⟨rfl, rfl, rfl, rfl, rfl, rfl, ?_⟩
  intro o oc
  unfold solveCodeOverride Gen.SolCheck.failCode
  split <;> simp

/-! ## structure: which constraint types have an evaluator / a violation measure of their own -/

/-- evaluators the exact model covers (`Func` constructors / `adef`), evaluators observed through the floating-point
oracle only, and overloads that are not per-type evaluators -/
def evalExact : List String :=
  ["AbsConstraint", "AllDiffConstraint", "AndConstraint", "ConditionalConstraint<Con>", "CountConstraint", "DivConstraint",
   "IfThenConstraint", "ImplicationConstraint", "LinearFunctionalConstraint", "MaxConstraint", "MinConstraint", "NotConstraint",
   "NumberofConstConstraint", "NumberofVarConstraint", "OrConstraint", "PLConstraint", "PowConstraint",
   "QuadraticFunctionalConstraint", "QuadraticObjective"]
def evalFloat : List String :=
  ["AcosConstraint", "AcoshConstraint", "AsinConstraint", "AsinhConstraint", "AtanConstraint", "AtanhConstraint", "CosConstraint",
   "CoshConstraint", "ExpAConstraint", "ExpConstraint", "LogAConstraint", "LogConstraint", "SinConstraint", "SinhConstraint",
   "TanConstraint", "TanhConstraint"]
def evalOther : List String := ["GENERIC(Con)"]

/-- **C07_gen_structure**: the set of `ComputeValue` overloads in the source is exactly the set the model / the float oracle
cover, and the functions named `ComputeViolation*` are the known ones — a new or removed evaluator breaks this -/
theorem C07_gen_structure :
    (∀ t ∈ G.computeValueTypes, t ∈ evalExact ∨ t ∈ evalFloat ∨ t ∈ evalOther) ∧
    (∀ t ∈ evalExact ++ evalFloat ++ evalOther, t ∈ G.computeValueTypes) ∧
    G.computeViolationSites =
      ["ComputeViolation(CustomFunctionalConstraint)", "ComputeViolation(ExponentialConeConstraint)",
       "ComputeViolation(QuadraticConeConstraint)", "ComputeViolation(RotatedQuadraticConeConstraint)",
       "ComputeViolation(VarInfo)", "ComputeViolation(VarVec)", "ComputeViolationSOS1(VarInfo)", "ComputeViolationSOS2(VarInfo)",
       "ComputeViolations(SolCheck)"] := by
  decide


/-! ## 8b. the specification of `Spec.lean`: no report ⇔ the point satisfies the model within tolerances

`SatTolPassTested` / `SatTolTested` (and `SatTolPass` / `SatTol` without the restriction to tested constraints) are written from
the model data and the property text: no candidate list, no `Violation`, no violation measure, mathematical function values
(`Func.denote`).  What they still share with the checker model is listed in the header of `Spec.lean`.
`C07_sat_pass_tested_partial` / `C07_sat_iff_tested_partial`: the checker's report is empty exactly when the point satisfies the
bounds, integrality, objectives and the constraints the checker tests — under the explicit hypotheses `SatHypT`
(`no_ctx_none`, `in_domain`, well-formed rows, tolerances in `[0,1)`; hence `_partial`).  `C07_sat_pass_partial` /
`C07_sat_iff_partial` state it against the unrestricted `SatTol` and for that ASSUME `untested_hold`.  Without these hypotheses the
equivalence is FALSE for the code as it exists: `C07_counterexample_untested_adef`, `C07_counterexample_untested_unused`,
`C07_counterexample_ctx_none`, `C07_counterexample_domain` below. -/

/-- the row holds exactly -/
def RowExact (c : AlgCon) (x : Pt) : Prop :=
  (∀ l, c.lo = some l → l ≤ c.body.val x) ∧ (∀ u, c.hi = some u → c.body.val x ≤ u)

theorem alg_viol_gt_iff (c : AlgCon) (x : Pt) : (c.viol x).viol.gtRat 0 = true ↔ ¬ RowExact c x := by
  unfold AlgCon.viol RowExact
  generalize c.body.val x = bd
  cases hlo : c.lo <;> cases hhi : c.hi <;> simp only [] <;> (repeat' split) <;>
    simp [ER.gtRat, Rat.max_def] <;> (try split) <;> grind

theorem rowOK_of_exact (c : AlgCon) (x : Pt) (ea er : Rat) (hea : 0 ≤ ea) (h : RowExact c x) : RowOK c x ea er := by
  unfold RowOK TolLE; unfold RowExact at h
  constructor
  · intro l hl; left; have := h.1 l hl; grind
  · intro u hu; left; have := h.2 u hu; grind

theorem exact_of_margin (c : AlgCon) (x : Pt) (ea : Rat) (hea : 0 ≤ ea) (h : RowMargin c x ea) : RowExact c x := by
  unfold RowExact; unfold RowMargin at h
  constructor
  · intro l hl; have := h.1 l hl; grind
  · intro u hu; have := h.2 u hu; grind

/-- on a row that holds exactly the measure is `-slack` with reference 0 -/
theorem alg_viol_valid (c : AlgCon) (x : Pt) (ea : Rat) (h : RowExact c x) :
    (c.viol x).ref = 0 ∧
    ((c.viol x).viol = .ninf ∧ RowMargin c x ea ∨ ∃ a, (c.viol x).viol = .fin a ∧ a ≤ 0 ∧ (ea < -a ↔ RowMargin c x ea)) := by
  unfold AlgCon.viol RowMargin; unfold RowExact at h
  generalize c.body.val x = bd at h ⊢
  cases hlo : c.lo <;> cases hhi : c.hi <;> simp only [hlo, hhi] at h ⊢
  · simp
  · rename_i u
    have hu : bd ≤ u := h.2 u rfl
    have : ¬ (u < bd) := by grind
    simp [this]; grind
  · rename_i l
    have hl : l ≤ bd := h.1 l rfl
    have : ¬ (bd < l) := by grind
    simp [this]; grind
  · rename_i l u
    have hl : l ≤ bd := h.1 l rfl
    have hu : bd ≤ u := h.2 u rfl
    have h1 : ¬ (bd < l) := by grind
    have h2 : ¬ (u < bd) := by grind
    simp only [h1, h2, if_false, true_and]
    right
    refine ⟨_, rfl, ?_, ?_⟩
    · rw [Rat.max_def]; split <;> grind
    · rw [Rat.max_def]; split <;> constructor <;> intro hh <;> (try constructor) <;> (try intro _ hx; cases hx) <;> grind


theorem zero_check (ea : Rat) (er : Option Rat) (hea : 0 ≤ ea) : ((⟨.fin 0, 0⟩ : Violation).check ea er).1 = false := by
  have : ¬ (ea < 0) := by grind
  simp [Violation.check, this]

/-- reified row on the solver's values -/
theorem cond_real_iff (res : Nat) (ctx : Ctx) (c : AlgCon) (e : Env) (ea er : Rat) (hea : 0 ≤ ea) (hwf : c.wf) (hbd : c.bounded)
    (hr : e.recomp = false) (hc : ctx ≠ .none) :
    ((condViol res ctx c e).check ea (some er)).1 = false ↔
      CondSpec ctx (decide ((1/2 : Rat) ≤ e.x res)) c e.x ea er := by
  have hrow := C07_within_alg c e.x ea er hea hwf
  have hrowOK : ((c.viol e.x).check ea (some er)).1 = false ↔ RowOK c e.x ea er := by
    rw [hrow]; rfl
  unfold condViol CondSpec
  simp only [hr, Bool.false_eq_true, if_false]
  by_cases hv : RowExact c e.x
  · -- the row holds exactly
    have hgt : (c.viol e.x).viol.gtRat 0 = false := by
      cases h : (c.viol e.x).viol.gtRat 0 with
      | false => rfl
      | true => exact absurd hv ((alg_viol_gt_iff c e.x).mp h)
    have hok := rowOK_of_exact c e.x ea er hea hv
    obtain ⟨href, hcase⟩ := alg_viol_valid c e.x ea hv
    by_cases hb : (1/2 : Rat) ≤ e.x res
    · cases ctx <;> simp [hgt, hb, zero_check ea _ hea, hok] at hc ⊢
    · rcases hcase with ⟨hn, hm⟩ | ⟨a, ha, ha0, hiff⟩
      · exfalso
        unfold AlgCon.viol at hn; unfold AlgCon.bounded at hbd
        cases hlo : c.lo <;> cases hhi : c.hi <;> simp [hlo, hhi] at hn hbd <;> (repeat' split at hn) <;> simp at hn
      · have hra : rabs a = -a := by unfold rabs; split <;> grind
        have hg2 : (ER.fin a).gtRat 0 = false := by simp [ER.gtRat]; grind
        cases ctx <;> simp only [hgt, hb, ha, hg2, href, hra, decide_false, decide_true, Bool.not_false, Bool.not_true,
            Bool.false_or, Bool.or_false, Bool.true_or, Bool.or_true, if_true, if_false, Bool.false_eq_true, beq_iff_eq,
            within_fin_some _ _ _ _ hea, zero_check ea _ hea, true_iff, ne_eq, not_true_eq_false, false_and, or_false,
            forall_const, false_implies, true_and, reduceCtorEq, not_false_eq_true] at hc ⊢
        all_goals first | exact absurd rfl hc | grind
  · -- the row is violated
    have hgt : (c.viol e.x).viol.gtRat 0 = true := by
      cases h : (c.viol e.x).viol.gtRat 0 with
      | true => rfl
      | false =>
        exfalso; apply hv
        apply Classical.byContradiction
        intro hn
        have := (alg_viol_gt_iff c e.x).mpr hn
        simp [h] at this
    have hnm : ¬ RowMargin c e.x ea := fun h => hv (exact_of_margin c e.x ea hea h)
    -- the amount is finite and positive
    have hfin : ∃ a, (c.viol e.x).viol = .fin a ∧ 0 < a := by
      cases hvv : (c.viol e.x).viol with
      | ninf => simp [hvv, ER.gtRat] at hgt
      | pinf =>
        exfalso
        unfold AlgCon.viol at hvv
        cases hlo : c.lo <;> cases hhi : c.hi <;> simp [hlo, hhi] at hvv <;> (repeat' split at hvv) <;> simp at hvv
      | fin a => exact ⟨a, rfl, by simpa [hvv, ER.gtRat] using hgt⟩
    obtain ⟨a, ha, hpos⟩ := hfin
    have hra : rabs a = a := rabs_of_nonneg (by grind)
    have hv' : (⟨ER.fin a, (c.viol e.x).ref⟩ : Violation) = c.viol e.x := by
      cases hc2 : c.viol e.x; simp [hc2] at ha; simp [ha]
    by_cases hb : (1/2 : Rat) ≤ e.x res
    · cases ctx <;> simp only [hgt, hb, ha, hra, hv', decide_true, decide_false, Bool.not_true, Bool.not_false, Bool.false_or,
          Bool.or_false, Bool.true_or, Bool.or_true, if_true, if_false, Bool.false_eq_true, beq_iff_eq, hrowOK,
          zero_check ea _ hea, true_iff, forall_const, false_implies, true_and, and_true, reduceCtorEq,
          Bool.true_eq_false, not_false_eq_true] at hc ⊢
      all_goals first | exact absurd rfl hc | grind | (simp [hnm])
    · cases ctx <;> simp [hgt, hb, zero_check ea _ hea, hnm] at hc ⊢

/-- **the `ComputeValue` overloads (as modelled by `Func.value`) compute the mathematical functions** `Func.denote` wherever the
arguments are in the domain `Func.inDomain` (logical arguments 0/1, non-empty max/min, non-zero divisor, integral arguments and a
tolerance below 1/2 for alldiff/numberof) -/
theorem C07_value_eq_denote (f : Func) (e : Env) (h : f.inDomain e = true) (ht0 : 0 ≤ e.feastol) : f.value e = f.denote e :=
  value_eq_denote f e h ht0

/-- SOS1: the measure `max(0, #nonzero − 1)` is within a tolerance in `[0,1)` iff at most one member is non-zero beyond tolerance -/
theorem C07_sos1_spec (vs : List Nat) (e : Env) (ea er : Rat) (h0 : 0 ≤ ea) (h1 : ea < 1) :
    ((sos1Viol vs e).check ea (some er)).1 = false ↔ (vs.filter (nonZeroV e)).length ≤ 1 := sos1_iff vs e ea er h0 h1

/-- SOS2: the measure `max(0, #positive − 2) + |1 − distance|` is within a tolerance in `[0,1)` iff the positive members are
none, one, or two adjacent ones (in weight order) -/
theorem C07_sos2_spec (vs : List Nat) (e : Env) (ea er : Rat) (h0 : 0 ≤ ea) (h1 : ea < 1) :
    ((sos2Viol vs e).check ea (some er)).1 = false ↔
      SOS2OK ((List.range vs.length).filter (fun i => positiveV e (vs.getD i 0))) := sos2_iff vs e ea er h0 h1

/-- complementarity by the position of the variable: at its lower bound the expression is ≥ −tol, at its upper bound ≤ tol,
strictly inside |expression| ≤ tol -/
theorem C07_compl_spec (ex : Body) (v : Nat) (e : Env) (ea er : Rat) (h0 : 0 ≤ ea) :
    ((complViol ex v e).check ea (some er)).1 = false ↔
      (if atLbV e v then -(ex.val e.x) ≤ ea else if atUbV e v then ex.val e.x ≤ ea else rabs (ex.val e.x) ≤ ea) :=
  compl_iff ex v e ea er h0

/-- **one constraint**: its tolerance test passes iff the constraint's specification holds -/
theorem con_check_iff (c : Con) (e : Env) (ea er : Rat) (hea : 0 ≤ ea) (hea1 : ea < 1) (hft0 : 0 ≤ e.feastol) (hwf : c.wf)
    (hadef : ∀ r cx b, c ≠ .adef r cx b) (hnone : c.ctxNone = false ∨ e.recomp = true)
    (hdom : ∀ res ctx f, c = .func res ctx f → e.recomp = false → f.inDomain e = true) :
    ((c.viol e).check ea (some er)).1 = false ↔ ConSpec c e ea er := by
  cases c with
  | alg a =>
    have := C07_within_alg a e.x ea er hea hwf
    simpa [Con.viol, ConSpec, RowOK, TolLE] using this
  | func res ctx f =>
    cases hr : e.recomp
    · have hc : ctx ≠ .none := by
        rcases hnone with h | h
        · intro hcx; subst hcx; simp [Con.ctxNone] at h
        · simp [hr] at h
      have := C07_within_func res ctx f e ea er hea hr
      rw [value_eq_denote f e (hdom res ctx f rfl hr) hft0] at this
      cases ctx <;> simp_all [Con.viol, ConSpec, FuncSpec, TolLE]
    · have := C07_within_func_ideal res ctx f e ea er hea hr
      simpa [Con.viol, ConSpec, RecompSpec, TolLE, hr, show boundExcess e res = e.boundsViolPos res from rfl] using this
  | adef r cx b => exact absurd rfl (hadef r cx b)
  | cond res ctx a =>
    cases hr : e.recomp
    · have hc : ctx ≠ .none := by
        rcases hnone with h | h
        · intro hcx; subst hcx; simp [Con.ctxNone] at h
        · simp [hr] at h
      have := cond_real_iff res ctx a e ea er hea hwf.1 hwf.2 hr hc
      simpa [Con.viol, ConSpec, hr] using this
    · have := C07_within_cond_ideal res ctx a e ea er hea hr
      simpa [Con.viol, ConSpec, RecompSpec, TolLE, hr, show boundExcess e res = e.boundsViolPos res from rfl] using this
  | indicator b bv a =>
    simp only [Con.viol, ConSpec]
    by_cases hb : cround (e.x b) = bv
    · have := C07_within_alg a e.x ea er hea hwf
      simpa [hb, RowOK, TolLE] using this
    · simp [hb, zero_check ea _ hea]
  | sos1 vs => exact sos1_iff vs e ea er hea hea1
  | sos2 vs => exact sos2_iff vs e ea er hea hea1
  | compl ex v => exact compl_iff ex v e ea er hea

theorem mem_checkedVars (m : Model) (recomp aux : Bool) (i : Nat) :
    i ∈ m.checkedVars recomp aux ↔ i < m.nvars ∧ (!(m.var i).orig) = aux ∧ ((m.var i).orig = true ∨ recomp = false) := by
  unfold Model.checkedVars
  simp only [List.mem_filter, List.mem_reverse, List.mem_range, Bool.and_eq_true, beq_iff_eq, Bool.or_eq_true,
    Bool.not_eq_true']

/-- variables: all bound / integrality tests pass iff every checked variable is within its bounds and integral -/
theorem vars_iff (m : Model) (o : Opts) (x : Pt) (recomp : Bool) (hft : 0 ≤ o.feastol) (hit : 0 ≤ o.inttol) :
    (∀ c, (c ∈ m.varBndCands o x recomp false ∨ c ∈ m.varBndCands o x recomp true ∨
           c ∈ m.varIntCands o x recomp false ∨ c ∈ m.varIntCands o x recomp true) → c.violated = false) ↔
    (∀ i, i < m.nvars → ((m.var i).orig = true ∨ recomp = false) →
      BoundsOK (m.var i) (x i) o.feastol o.feastolrel ∧ ((m.var i).isInt = true → IntOK (x i) o.inttol)) := by
  have hlb := fun i => C07_within_lb (m.var i).lb (x i) o.feastol o.feastolrel (m.var i).name hft
  have hub := fun i => C07_within_ub (m.var i).ub (x i) o.feastol o.feastolrel (m.var i).name hft
  have hint := fun i => C07_integrality (x i) o.inttol (m.var i).name hit
  constructor
  · intro h i hi hsel
    have hmem : i ∈ m.checkedVars recomp (!(m.var i).orig) := (mem_checkedVars m recomp _ i).mpr ⟨hi, rfl, hsel⟩
    have hB : ∀ cd, cd ∈ [(⟨boundLbViol (m.var i).lb (x i), o.feastol, some o.feastolrel, (m.var i).name⟩ : Cand),
        ⟨boundUbViol (m.var i).ub (x i), o.feastol, some o.feastolrel, (m.var i).name⟩] → cd.violated = false := by
      intro cd hcd
      have hin : cd ∈ m.varBndCands o x recomp (!(m.var i).orig) := List.mem_flatMap.mpr ⟨i, hmem, hcd⟩
      apply h
      cases ho : (m.var i).orig <;> simp [ho] at hin ⊢ <;> simp [hin]
    refine ⟨⟨(hlb i).mp (hB _ (by simp)), (hub i).mp (hB _ (by simp))⟩, ?_⟩
    intro hI
    have hin : (⟨intViol (x i), o.inttol, some 0, (m.var i).name⟩ : Cand) ∈ m.varIntCands o x recomp (!(m.var i).orig) := by
      unfold Model.varIntCands
      exact List.mem_map.mpr ⟨i, List.mem_filter.mpr ⟨hmem, hI⟩, rfl⟩
    apply (hint i).mp
    apply h
    cases ho : (m.var i).orig <;> simp [ho] at hin ⊢ <;> simp [hin]
  · intro h c hc
    have key : ∀ aux, (c ∈ m.varBndCands o x recomp aux ∨ c ∈ m.varIntCands o x recomp aux) → c.violated = false := by
      intro aux hca
      rcases hca with hb | hi
      · unfold Model.varBndCands at hb
        obtain ⟨i, hmem, hcd⟩ := List.mem_flatMap.mp hb
        obtain ⟨hi, _, hsel⟩ := (mem_checkedVars m recomp aux i).mp hmem
        have := (h i hi hsel).1
        simp only [List.mem_cons, List.mem_nil_iff, or_false] at hcd
        rcases hcd with rfl | rfl
        · exact (hlb i).mpr this.1
        · exact (hub i).mpr this.2
      · unfold Model.varIntCands at hi
        obtain ⟨i, hmem, rfl⟩ := List.mem_map.mp hi
        obtain ⟨hmem, hI⟩ := List.mem_filter.mp hmem
        obtain ⟨hi, _, hsel⟩ := (mem_checkedVars m recomp aux i).mp hmem
        exact (hint i).mpr ((h i hi hsel).2 hI)
    rcases hc with h1 | h1 | h1 | h1
    · exact key false (Or.inl h1)
    · exact key true (Or.inl h1)
    · exact key false (Or.inr h1)
    · exact key true (Or.inr h1)

/-- the candidates of the constraint keepers all pass iff every selected constraint THE CHECKER TESTS meets its specification -/
theorem cons_iff (m : Model) (o : Opts) (mode : Nat) (e : Env) (hft : 0 ≤ o.feastol) (hft1 : o.feastol < 1)
    (hef : 0 ≤ e.feastol)
    (hwf : ∀ kp, kp ∈ m.keepers → ∀ it, it ∈ kp.items → it.con.wf)
    (hnone : e.recomp = true ∨ ∀ kp, kp ∈ m.keepers → ∀ it, it ∈ kp.items → it.unused = false → it.cclass &&& mode ≠ 0 →
      it.con.ctxNone = false)
    (hdom : e.recomp = true ∨ ∀ kp, kp ∈ m.keepers → ∀ it, it ∈ kp.items → it.unused = false → it.cclass &&& mode ≠ 0 →
      ∀ res ctx f, it.con = .func res ctx f → f.inDomain e = true) :
    (∀ c, c ∈ m.keepers.flatMap (fun kp => kp.selCands o mode e) → c.violated = false) ↔
    (∀ kp, kp ∈ m.keepers → ∀ it, it ∈ kp.items → specClass it &&& mode ≠ 0 → it.untested = false →
      ConSpec it.con e o.feastol o.feastolrel) := by
  have hcls : ∀ it : Item, specClass it = it.cclass := fun _ => rfl
  simp only [hcls]
  have hd : ∀ kp, kp ∈ m.keepers → ∀ it, it ∈ kp.items → it.unused = false → it.cclass &&& mode ≠ 0 →
      ∀ res ctx f, it.con = .func res ctx f → e.recomp = false → f.inDomain e = true := by
    intro kp hkp it hit hun hcl res ctx f hc hr
    rcases hdom with h1 | h1
    · rw [hr] at h1; exact absurd h1 (by decide)
    · exact h1 kp hkp it hit hun hcl res ctx f hc
  constructor
  · intro h kp hkp it hit hcl hu
    have hun : it.unused = false := by
      unfold Item.untested at hu; cases h1 : it.unused <;> simp [h1] at hu ⊢
    have hna : ∀ r cx b, it.con ≠ .adef r cx b := by
      intro r cx b hc; unfold Item.untested at hu; simp [hc] at hu
    have hsel : it.selected mode = true := by unfold Item.selected; simp [hun, hcl]
    have hc : (⟨it.con.viol e, o.feastol, some o.feastolrel, it.name⟩ : Cand).violated = false := by
      apply h
      refine List.mem_flatMap.mpr ⟨kp, hkp, ?_⟩
      unfold Keeper.selCands
      exact List.mem_map.mpr ⟨it, List.mem_filter.mpr ⟨List.mem_reverse.mpr hit, hsel⟩, rfl⟩
    have hn : it.con.ctxNone = false ∨ e.recomp = true := by
      rcases hnone with h1 | h1
      · exact Or.inr h1
      · exact Or.inl (h1 kp hkp it hit hun hcl)
    exact (con_check_iff it.con e o.feastol o.feastolrel hft hft1 hef (hwf kp hkp it hit) hna hn
      (hd kp hkp it hit hun hcl)).mp hc
  · intro h c hc
    obtain ⟨kp, hkp, hc⟩ := List.mem_flatMap.mp hc
    unfold Keeper.selCands at hc
    obtain ⟨it, hmem, rfl⟩ := List.mem_map.mp hc
    obtain ⟨hit, hsel⟩ := List.mem_filter.mp hmem
    have hit := List.mem_reverse.mp hit
    unfold Item.selected at hsel
    simp only [Bool.and_eq_true, Bool.not_eq_true', decide_eq_true_eq] at hsel
    unfold Cand.violated
    by_cases hadef : ∃ r cx b, it.con = .adef r cx b
    · obtain ⟨r, cx, b, hc⟩ := hadef
      rw [hc]; exact C07_adef_never_reported r cx b e o.feastol _ hft
    · have hna : ∀ r cx b, it.con ≠ .adef r cx b := fun r cx b hc => hadef ⟨r, cx, b, hc⟩
      have hu : it.untested = false := by
        unfold Item.untested
        rw [hsel.1, Bool.false_or]
        cases hcon : it.con <;> first | rfl | exact absurd hcon (hna _ _ _)
      have hspec := h kp hkp it hit hsel.2 hu
      have hn : it.con.ctxNone = false ∨ e.recomp = true := by
        rcases hnone with h1 | h1
        · exact Or.inr h1
        · exact Or.inl (h1 kp hkp it hit hsel.1 hsel.2)
      exact (con_check_iff it.con e o.feastol o.feastolrel hft hft1 hef (hwf kp hkp it hit) hna hn
        (hd kp hkp it hit hsel.1 hsel.2)).mpr hspec

theorem obj_iff (m : Model) (o : Opts) (x : Pt) (objv : List Rat) (hft : 0 ≤ o.feastol) :
    (∀ c, c ∈ m.objCands o x objv → c.violated = false) ↔
    (∀ i, i < min m.objs.length objv.length →
      TolLE (rabs (objv.getD i 0 - (m.objs.getD i default).body.val x)) ((m.objs.getD i default).body.val x)
        o.feastol o.feastolrel) := by
  unfold Model.objCands
  constructor
  · intro h i hi
    have := h _ (List.mem_map.mpr ⟨i, List.mem_reverse.mpr (List.mem_range.mpr hi), rfl⟩)
    unfold Cand.violated at this
    exact (within_fin_some _ _ _ _ hft).mp this
  · intro h c hc
    obtain ⟨i, hi, rfl⟩ := List.mem_map.mp hc
    have hi := List.mem_range.mp (List.mem_reverse.mp hi)
    unfold Cand.violated
    exact (within_fin_some _ _ _ _ hft).mpr (h i hi)

/-- hypotheses under which the checker's verdict on the constraints IT TESTS follows the specification -/
structure SatHypT (m : Model) (o : Opts) (e : Env) (mode : Nat) : Prop where
  feastol_nonneg : 0 ≤ o.feastol
  /-- SOS violations are counts: a tolerance of 1 or more would accept one member too many -/
  feastol_lt_one : o.feastol < 1
  inttol_nonneg : 0 ≤ o.inttol
  wf : ∀ kp, kp ∈ m.keepers → ∀ it, it ∈ kp.items → it.con.wf
  /-- EXCEPTION 2 (see `C07_counterexample_ctx_none`): on the solver's values no selected constraint has `CTX_NONE` -/
  no_ctx_none : e.recomp = true ∨ ∀ kp, kp ∈ m.keepers → ∀ it, it ∈ kp.items → it.unused = false →
      it.cclass &&& mode ≠ 0 → it.con.ctxNone = false
  /-- EXCEPTION 3: on the solver's values every selected functional constraint is evaluated inside the domain on which its
  evaluator computes the mathematical function (`Func.inDomain`; outside — e.g. a logical argument that is not 0/1, division
  by zero — the evaluator returns a value by its own convention and nothing is claimed; see `C07_counterexample_domain`) -/
  in_domain : e.recomp = true ∨ ∀ kp, kp ∈ m.keepers → ∀ it, it ∈ kp.items → it.unused = false →
      it.cclass &&& mode ≠ 0 → ∀ res ctx f, it.con = .func res ctx f → f.inDomain e = true

/-- `SatHypT` plus EXCEPTION 1 (see `C07_counterexample_untested_*`): the constraints the checker never tests are ASSUMED to hold -/
structure SatHyp (m : Model) (o : Opts) (e : Env) (mode : Nat) : Prop extends SatHypT m o e mode where
  untested_hold : ∀ kp, kp ∈ m.keepers → ∀ it, it ∈ kp.items → it.untested = true → it.cclass &&& mode ≠ 0 →
      ConSpec it.con e o.feastol o.feastolrel

/-- one pass: no report iff the point satisfies, within tolerances, the bounds, integrality, objective values and THE
CONSTRAINTS THE CHECKER TESTS (`SatTolPassTested`: items not marked unused and not linear/quadratic defining constraints) -/
theorem C07_sat_pass_tested_partial (m : Model) (o : Opts) (xs objv raw : List Rat) (recomp : Bool)
    (H : SatHypT m o (passEnv m o xs raw recomp) (passMode o recomp)) :
    (doCheckSol m o xs objv raw recomp).1 = [] ↔
      SatTolPassTested m o (passEnv m o xs raw recomp) (passMode o recomp) objv := by
  rw [doCheckSol_eq_nil]
  have hv := vars_iff m o (passEnv m o xs raw recomp).x recomp H.feastol_nonneg H.inttol_nonneg
  have hc := cons_iff m o (passMode o recomp) (passEnv m o xs raw recomp) H.feastol_nonneg H.feastol_lt_one
    (show 0 ≤ o.feastol from H.feastol_nonneg) H.wf H.no_ctx_none H.in_domain
  have ho := obj_iff m o (passEnv m o xs raw recomp).x objv H.feastol_nonneg
  have split : ∀ (A B C : List Cand), (∀ c, c ∈ A ++ B ++ C → c.violated = false) ↔
      ((∀ c, c ∈ A → c.violated = false) ∧ (∀ c, c ∈ B → c.violated = false) ∧ (∀ c, c ∈ C → c.violated = false)) := by
    intro A B C; simp only [List.mem_append]; grind
  have ite : ∀ (p : Prop) [Decidable p] (L : List Cand),
      (∀ c, c ∈ (if p then L else []) → c.violated = false) ↔ (p → ∀ c, c ∈ L → c.violated = false) := by
    intro p _ L; by_cases hp : p <;> simp [hp]
  unfold passCands SatTolPassTested
  simp only []
  rw [split, ite, ite, ite]
  refine and_congr (imp_congr_right fun _ => ?_) (and_congr (imp_congr_right fun _ => ?_) (imp_congr_right fun _ => ?_))
  · simp only [List.mem_append, or_assoc]; exact hv
  · exact hc
  · exact ho

/-- the tested restriction is the whole difference between `SatTolPassTested` and `SatTolPass` -/
theorem satTolPass_iff_tested (m : Model) (o : Opts) (e : Env) (mode : Nat) (objv : List Rat)
    (hunt : ∀ kp, kp ∈ m.keepers → ∀ it, it ∈ kp.items → it.untested = true → it.cclass &&& mode ≠ 0 →
      ConSpec it.con e o.feastol o.feastolrel) :
    SatTolPassTested m o e mode objv ↔ SatTolPass m o e mode objv := by
  unfold SatTolPassTested SatTolPass
  refine and_congr Iff.rfl (and_congr (imp_congr_right fun _ => ?_) Iff.rfl)
  constructor
  · intro h kp hkp it hit hcl
    by_cases hu : it.untested = true
    · exact hunt kp hkp it hit hu hcl
    · exact h kp hkp it hit hcl (by simpa using hu)
  · intro h kp hkp it hit hcl _
    exact h kp hkp it hit hcl

/-- one pass against the full specification: needs the ASSUMPTION `SatHyp.untested_hold` -/
theorem C07_sat_pass_partial (m : Model) (o : Opts) (xs objv raw : List Rat) (recomp : Bool)
    (H : SatHyp m o (passEnv m o xs raw recomp) (passMode o recomp)) :
    (doCheckSol m o xs objv raw recomp).1 = [] ↔
      SatTolPass m o (passEnv m o xs raw recomp) (passMode o recomp) objv := by
  rw [C07_sat_pass_tested_partial m o xs objv raw recomp H.toSatHypT]
  exact satTolPass_iff_tested m o _ _ objv H.untested_hold

/-- **the point satisfies the model within tolerances**: on the solver's values for the classes selected by the low mode bits,
on the recomputed values for the classes selected by the high ones -/
def SatTol (m : Model) (o : Opts) (xs objv : List Rat) : Prop :=
  (o.mode &&& 31 ≠ 0 → SatTolPass m o (passEnv m o xs [] false) (passMode o false) objv) ∧
  (o.mode &&& 992 ≠ 0 →
    SatTolPass m o (passEnv m o (recompute m o xs) (xBack m o xs) true) (passMode o true) objv)

/-- `SatTol` restricted to the constraints the checker tests -/
def SatTolTested (m : Model) (o : Opts) (xs objv : List Rat) : Prop :=
  (o.mode &&& 31 ≠ 0 → SatTolPassTested m o (passEnv m o xs [] false) (passMode o false) objv) ∧
  (o.mode &&& 992 ≠ 0 →
    SatTolPassTested m o (passEnv m o (recompute m o xs) (xBack m o xs) true) (passMode o true) objv)

/-- **C07_sat_iff_tested_partial**: for every solver status, `CheckSolution` has no report iff the check is exempt (status
200..299 without `sol:chk:infeas`) or the point satisfies, within tolerances, the bounds, integrality, objectives and the
constraints the checker tests (`SatTolTested`).  No assumption about the untested constraints; `SatHypT` (tolerances in
`[0,1)`, rows with `lo ≤ hi`, no selected `CTX_NONE` constraint and functional constraints inside their evaluator's domain on
the solver's values) for the passes that run. -/
theorem C07_sat_iff_tested_partial (m : Model) (o : Opts) (xs objv : List Rat) (code : Int)
    (Hreal : o.mode &&& 31 ≠ 0 → SatHypT m o (passEnv m o xs [] false) (passMode o false))
    (Hideal : o.mode &&& 992 ≠ 0 →
      SatHypT m o (passEnv m o (recompute m o xs) (xBack m o xs) true) (passMode o true)) :
    (checkSolutionCode m o xs objv code).hasReport = false ↔
      (((200 ≤ code ∧ code ≤ 299) ∧ o.infeas = false) ∨ SatTolTested m o xs objv) := by
  unfold checkSolutionCode
  rw [C07_iff]
  have hk : (isProblemInfeasible code = true ∧ o.infeas = false) ↔ ((200 ≤ code ∧ code ≤ 299) ∧ o.infeas = false) := by
    unfold isProblemInfeasible; simp only [Bool.and_eq_true, decide_eq_true_eq]
  rw [hk]
  unfold SatTolTested
  refine or_congr Iff.rfl (and_congr ?_ ?_)
  · constructor
    · intro h hb
      exact (C07_sat_pass_tested_partial m o xs objv [] false (Hreal hb)).mp ((doCheckSol_eq_nil m o xs objv [] false).mpr (h hb))
    · intro h hb
      exact (doCheckSol_eq_nil m o xs objv [] false).mp ((C07_sat_pass_tested_partial m o xs objv [] false (Hreal hb)).mpr (h hb))
  · constructor
    · intro h hb
      exact (C07_sat_pass_tested_partial m o _ objv _ true (Hideal hb)).mp ((doCheckSol_eq_nil m o _ objv _ true).mpr (h hb))
    · intro h hb
      exact (doCheckSol_eq_nil m o _ objv _ true).mp ((C07_sat_pass_tested_partial m o _ objv _ true (Hideal hb)).mpr (h hb))

/-- **C07_sat_iff_partial**: the same against the full `SatTol` — this form ASSUMES (`SatHyp.untested_hold`) that the
constraints the checker never tests hold -/
theorem C07_sat_iff_partial (m : Model) (o : Opts) (xs objv : List Rat) (code : Int)
    (Hreal : o.mode &&& 31 ≠ 0 → SatHyp m o (passEnv m o xs [] false) (passMode o false))
    (Hideal : o.mode &&& 992 ≠ 0 →
      SatHyp m o (passEnv m o (recompute m o xs) (xBack m o xs) true) (passMode o true)) :
    (checkSolutionCode m o xs objv code).hasReport = false ↔
      (((200 ≤ code ∧ code ≤ 299) ∧ o.infeas = false) ∨ SatTol m o xs objv) := by
  rw [C07_sat_iff_tested_partial m o xs objv code (fun h => (Hreal h).toSatHypT) (fun h => (Hideal h).toSatHypT)]
  unfold SatTolTested SatTol
  refine or_congr Iff.rfl (and_congr ?_ ?_)
  · exact ⟨fun h hb => (satTolPass_iff_tested m o _ _ objv (Hreal hb).untested_hold).mp (h hb),
      fun h hb => (satTolPass_iff_tested m o _ _ objv (Hreal hb).untested_hold).mpr (h hb)⟩
  · exact ⟨fun h hb => (satTolPass_iff_tested m o _ _ objv (Hideal hb).untested_hold).mp (h hb),
      fun h hb => (satTolPass_iff_tested m o _ _ objv (Hideal hb).untested_hold).mpr (h hb)⟩

/-! ### the exceptions are real: counterexamples to the equivalence without `SatHyp.untested_hold` / `SatHypT.no_ctx_none` / `SatHypT.in_domain` -/

/-- `r = 2·x` (linear functional constraint, never tested), row `r ≤ 5`; the solver claims `r = 1` at `x = 4` -/
def cexAdefModel : Model :=
  ⟨[⟨some 0, some 10, false, true, "x", none⟩, ⟨some (-100), some 100, false, false, "r", some (0, 0)⟩],
   [⟨"_linfunccon", false, [⟨.adef 1 .mix ⟨[(2, 0)], [], 0⟩, 0, true, false, "d"⟩]⟩,
    ⟨"_linrange", false, [⟨.alg ⟨⟨[(1, 1)], [], 0⟩, .range, none, some 5⟩, 0, false, false, "c"⟩]⟩], []⟩

/-- no report on the solver's values, although the specification fails (`|1 − 8|` is not within tolerance) -/
theorem C07_counterexample_untested_adef :
    (checkSolutionCode cexAdefModel (cexOpts 3) [4, 1] [] 0).hasReport = false ∧
    ¬ SatTolPass cexAdefModel (cexOpts 3) (passEnv cexAdefModel (cexOpts 3) [4, 1] [] false) (passMode (cexOpts 3) false) [] := by
  refine ⟨by decide +kernel, ?_⟩
  intro h
  have := h.2.1 (by decide) ⟨"_linfunccon", false, [⟨.adef 1 .mix ⟨[(2, 0)], [], 0⟩, 0, true, false, "d"⟩]⟩
    (by simp [cexAdefModel]) ⟨.adef 1 .mix ⟨[(2, 0)], [], 0⟩, 0, true, false, "d"⟩ (by simp) (by decide)
  simp only [ConSpec, passEnv, Model.envOf, Bool.false_eq_true, if_false, FuncSpec, TolLE] at this
  revert this
  decide +kernel

/-- a row `x ≤ 5` marked unused, `x = 7`: skipped by the checker -/
def cexUnusedModel : Model :=
  ⟨[⟨some 0, some 10, false, true, "x", none⟩],
   [⟨"_linrange", false, [⟨.alg ⟨⟨[(1, 0)], [], 0⟩, .range, none, some 5⟩, 0, true, true, "c"⟩]⟩], []⟩

theorem C07_counterexample_untested_unused :
    (checkSolutionCode cexUnusedModel (cexOpts 3) [7] [] 0).hasReport = false ∧
    ¬ SatTolPass cexUnusedModel (cexOpts 3) (passEnv cexUnusedModel (cexOpts 3) [7] [] false) (passMode (cexOpts 3) false) [] := by
  refine ⟨by decide +kernel, ?_⟩
  intro h
  have := h.2.1 (by decide) ⟨"_linrange", false, [⟨.alg ⟨⟨[(1, 0)], [], 0⟩, .range, none, some 5⟩, 0, true, true, "c"⟩]⟩
    (by simp [cexUnusedModel]) ⟨.alg ⟨⟨[(1, 0)], [], 0⟩, .range, none, some 5⟩, 0, true, true, "c"⟩ (by simp) (by decide)
  simp only [ConSpec, RowOK, TolLE] at this
  have h2 := this.2 5 rfl
  revert h2
  simp only [passEnv, Model.envOf]
  decide +kernel

/-- `r = |x|` whose result is used nowhere (`CTX_NONE`), with the exact value: the specification holds, the checker reports -/
def cexCtxNoneModel : Model :=
  ⟨[⟨some 0, some 10, false, true, "x", none⟩, ⟨some 0, some 10, false, false, "r", some (0, 0)⟩],
   [⟨"_abs", false, [⟨.func 1 .none (.abs 0), 0, false, false, "a"⟩]⟩], []⟩

theorem C07_counterexample_ctx_none :
    (checkSolutionCode cexCtxNoneModel (cexOpts 2) [3, 3] [] 0).hasReport = true ∧
    SatTolPass cexCtxNoneModel (cexOpts 2) (passEnv cexCtxNoneModel (cexOpts 2) [3, 3] [] false) (passMode (cexOpts 2) false) [] := by
  refine ⟨by decide +kernel, ?_, ?_, ?_⟩
  · intro h; exact absurd h (by decide)
  · intro _ kp hkp it hit _
    simp only [cexCtxNoneModel, List.mem_cons, List.mem_nil_iff, or_false] at hkp
    subst hkp
    simp only [List.mem_cons, List.mem_nil_iff, or_false] at hit
    subst hit
    simp [ConSpec, passEnv, Model.envOf, FuncSpec]
  · intro h; exact absurd h (by decide)

/-- `r = and(b)` with a logical argument that is not 0/1 (`b = 3/4`, outside `Func.inDomain`): the evaluator treats `3/4` as
true (threshold 1/2) and accepts `r = 1`; mathematically `b = 1` is false -/
def cexDomainModel : Model :=
  ⟨[⟨some 0, some 1, false, true, "b", none⟩, ⟨some 0, some 1, false, false, "r", some (0, 0)⟩],
   [⟨"_and", false, [⟨.func 1 .mix (.and [0]), 0, false, false, "a"⟩]⟩], []⟩

theorem C07_counterexample_domain :
    (checkSolutionCode cexDomainModel (cexOpts 3) [3/4, 1] [] 0).hasReport = false ∧
    ¬ SatTolPassTested cexDomainModel (cexOpts 3) (passEnv cexDomainModel (cexOpts 3) [3/4, 1] [] false) (passMode (cexOpts 3) false) [] := by
  refine ⟨by decide +kernel, ?_⟩
  intro h
  have := h.2.1 (by decide) ⟨"_and", false, [⟨.func 1 .mix (.and [0]), 0, false, false, "a"⟩]⟩
    (by simp [cexDomainModel]) ⟨.func 1 .mix (.and [0]), 0, false, false, "a"⟩ (by simp) (by decide) (by decide)
  simp only [ConSpec, passEnv, Model.envOf, Bool.false_eq_true, if_false, FuncSpec, TolLE] at this
  revert this
  decide +kernel

/-! ## 8c. `sol:chk:prec`: rounding to significant digits (`round_to_digits`, utils-math.h) -/

theorem pow10_pos (k : Int) : 0 < pow10 k := by
  unfold pow10
  split
  · have : 0 < (10 ^ k.toNat : Nat) := Nat.pow_pos (by decide)
    exact_mod_cast this
  · have h : 0 < (10 ^ (-k).toNat : Nat) := Nat.pow_pos (by decide)
    have h2 : (0 : Rat) < ((10 ^ (-k).toNat : Nat) : Rat) := by exact_mod_cast h
    rw [Rat.div_def]
    exact Rat.mul_pos (by decide) (Rat.inv_pos.mpr h2)

/-- `std::round` is within one half of its argument -/
theorem cround_err (q : Rat) : rabs ((cround q : Rat) - q) ≤ 1/2 := by
  unfold cround
  by_cases h : 0 ≤ q
  · simp only [h, if_true]
    have h1 := Rat.floor_le (q + 1/2)
    have h2 := Rat.lt_floor_add_one (q + 1/2)
    have h3 : (((q + 1/2).floor + 1 : Int) : Rat) = ((q + 1/2).floor : Rat) + 1 := by push_cast; rfl
    rw [h3] at h2
    unfold rabs; split <;> grind
  · simp only [h, if_false]
    have h1 := Rat.floor_le (-q + 1/2)
    have h2 := Rat.lt_floor_add_one (-q + 1/2)
    have h3 : (((-q + 1/2).floor + 1 : Int) : Rat) = ((-q + 1/2).floor : Rat) + 1 := by push_cast; rfl
    rw [h3] at h2
    have h4 : ((-(-q + 1/2).floor : Int) : Rat) = -((-q + 1/2).floor : Rat) := by push_cast; rfl
    rw [h4]
    unfold rabs; split <;> grind

theorem rabs_mul_pos (x f : Rat) (hf : 0 < f) : rabs (x * f) = rabs x * f := by
  unfold rabs
  by_cases hx : 0 ≤ x
  · have : 0 ≤ x * f := Rat.mul_nonneg hx (by grind)
    simp [hx, this]
  · have hx' : x < 0 := by grind
    have : x * f < 0 := by
      have := Rat.mul_lt_mul_of_pos_right hx' hf
      simpa using this
    have h2 : ¬ (0 ≤ x * f) := by grind
    simp [hx, h2]; grind

/-- **rounding to significant digits**: with `e = ⌈log10 |v|⌉` as found by the model's search, `roundDigits v d` is the
multiple of `10^(e−d)` nearest to `v` (ties away from zero): it is `k·10^(e−d)` for the integer `k = round(v·10^(d−e))`, and
differs from `v` by at most half a unit of the `d`-th significant digit -/
theorem round_digits_spec (v : Rat) (d : Int) (hv : v ≠ 0) :
    roundDigits v d = (cround (v * pow10 (d - ceilLog10 (rabs v))) : Rat) / pow10 (d - ceilLog10 (rabs v)) ∧
    rabs (roundDigits v d - v) ≤ 1 / (2 * pow10 (d - ceilLog10 (rabs v))) := by
  have hf := pow10_pos (d - ceilLog10 (rabs v))
  have hdef : roundDigits v d = (cround (v * pow10 (d - ceilLog10 (rabs v))) : Rat) / pow10 (d - ceilLog10 (rabs v)) := by
    unfold roundDigits; simp [hv]
  generalize pow10 (d - ceilLog10 (rabs v)) = f at hf hdef
  refine ⟨hdef, ?_⟩
  rw [hdef]
  have hne : f ≠ 0 := by grind
  have herr := cround_err (v * f)
  have hx : ((cround (v * f) : Rat) / f - v) * f = (cround (v * f) : Rat) - v * f := by grind
  have h1 : rabs ((cround (v * f) : Rat) / f - v) * f ≤ 1 / 2 := by
    rw [← rabs_mul_pos _ _ hf, hx]; exact herr
  have h2 : (1 / (2 * f)) * f = 1 / 2 := by grind
  exact Rat.le_of_mul_le_mul_right (by rw [h2]; exact h1) hf

theorem pow10_succ (k : Int) : pow10 (k + 1) = 10 * pow10 k := by
  unfold pow10
  by_cases h0 : 0 ≤ k
  · have h1 : 0 ≤ k + 1 := by omega
    have ht : (k + 1).toNat = k.toNat + 1 := by omega
    simp only [h0, h1, if_true, ht, Nat.pow_succ]
    push_cast; grind
  · by_cases h1 : k = -1
    · subst h1; decide +kernel
    · have h2 : ¬ (0 ≤ k + 1) := by omega
      have ht : (-k).toNat = (-(k + 1)).toNat + 1 := by omega
      simp only [h0, h2, if_false, ht, Nat.pow_succ]
      have hp : (0 : Rat) < ((10 ^ (-(k + 1)).toNat : Nat) : Rat) := by
        have : 0 < (10 ^ (-(k + 1)).toNat : Nat) := Nat.pow_pos (by decide)
        exact_mod_cast this
      push_cast
      have hne : ((10 : Rat) ^ (-(k + 1)).toNat) ≠ 0 := by
        have : ((10 ^ (-(k + 1)).toNat : Nat) : Rat) = (10 : Rat) ^ (-(k + 1)).toNat := by push_cast; rfl
        rw [← this]; grind
      grind

theorem pow10_lt_succ (k : Int) : pow10 k < pow10 (k + 1) := by
  rw [pow10_succ]; have := pow10_pos k; grind

theorem pow10_mono_nat (k : Int) (n : Nat) : pow10 k ≤ pow10 (k + n) := by
  induction n with
  | zero => simp
  | succ n ih =>
    have : k + ((n + 1 : Nat) : Int) = (k + n) + 1 := by omega
    rw [this]
    exact Rat.le_trans ih (Rat.le_of_lt (pow10_lt_succ _))

theorem pow10_mono {k j : Int} (h : k ≤ j) : pow10 k ≤ pow10 j := by
  have : j = k + ((j - k).toNat : Int) := by omega
  rw [this]; exact pow10_mono_nat k _

/-- `e = ⌈log10 a⌉`: `10^(e−1) < a ≤ 10^e` -/
def Bracket (a : Rat) (e : Int) : Prop := pow10 (e - 1) < a ∧ a ≤ pow10 e

/-- the search finds the decimal exponent whenever it is within `fuel` steps of the start -/
theorem ceilLog10Aux_bracket (a : Rat) (fuel : Nat) (e0 e : Int) (hb : Bracket a e) (hd : (e - e0).natAbs < fuel) :
    ceilLog10Aux a fuel e0 = e := by
  induction fuel generalizing e0 with
  | zero => omega
  | succ n ih =>
    unfold ceilLog10Aux
    by_cases h1 : a ≤ pow10 (e0 - 1)
    · simp only [h1, if_true]
      have : e < e0 := by
        apply Classical.byContradiction; intro hge
        have hm : pow10 (e0 - 1) ≤ pow10 (e - 1) := pow10_mono (by omega)
        have := hb.1; grind
      exact ih (e0 - 1) (by omega)
    · simp only [h1, if_false]
      by_cases h2 : pow10 e0 < a
      · simp only [h2, if_true]
        have : e0 < e := by
          apply Classical.byContradiction; intro hge
          have hm : pow10 e ≤ pow10 e0 := pow10_mono (by omega)
          have := hb.2; grind
        exact ih (e0 + 1) (by omega)
      · simp only [h2, if_false]
        -- e0 itself brackets a; brackets are unique
        apply Classical.byContradiction; intro hne
        rcases Int.lt_or_gt_of_ne hne with hlt | hgt
        · have hm : pow10 e0 ≤ pow10 (e - 1) := pow10_mono (by omega)
          have := hb.1; grind
        · have hm : pow10 e ≤ pow10 (e0 - 1) := pow10_mono (by omega)
          have := hb.2; grind

/-- for every magnitude between `10^-699` and `10^699` the model's `ceilLog10` is the decimal exponent -/
theorem ceilLog10_spec (a : Rat) (e : Int) (hb : Bracket a e) (hr : e.natAbs < 700) : ceilLog10 a = e := by
  unfold ceilLog10
  exact ceilLog10Aux_bracket a 700 0 e hb (by omega)


/-- **C07_round_digits**: for `v ≠ 0` with decimal exponent `e` (`10^(e−1) < |v| ≤ 10^e`, `|e| < 700`), `roundDigits v d` — what
`sol:chk:prec=d` applies to every component — is `v` rounded to `d` significant digits: an integer multiple of the unit of the
`d`-th significant digit, `10^(e−d) = 1/10^(d−e)`, within half that unit of `v` (nearest, ties away from zero) -/
theorem C07_round_digits (v : Rat) (d e : Int) (hv : v ≠ 0) (hb : Bracket (rabs v) e) (hr : e.natAbs < 700) :
    (∃ k : Int, roundDigits v d = (k : Rat) / pow10 (d - e)) ∧ rabs (roundDigits v d - v) ≤ 1 / (2 * pow10 (d - e)) := by
  have he := ceilLog10_spec (rabs v) e hb hr
  have h := round_digits_spec v d hv
  rw [he] at h
  exact ⟨⟨_, h.1⟩, h.2⟩

/-- `0.6006` to 3 significant digits is `0.601` (the input of seeded change C07-6), `0.96` to 2 digits stays `0.96`,
`2.0004` to 3 digits is `2`, `123.4` to 2 digits is `120` -/
theorem C07_round_digits_example :
    roundDigits (6006/10000) 3 = 601/1000 ∧ roundDigits (96/100) 2 = 96/100 ∧ roundDigits (20004/10000) 3 = 2 ∧
    roundDigits (1234/10) 2 = 120 ∧ Bracket (rabs (6006/10000)) 0 := by
  refine ⟨by decide +kernel, by decide +kernel, by decide +kernel, by decide +kernel, ?_⟩
  unfold Bracket; exact ⟨by decide +kernel, by decide +kernel⟩

/-- **C07_gen_round_digits**: the model's `roundDigits` is the generated `round_to_digits<double>` (with `std::pow(10,·)`,
`std::round`, `ceil(log10(fabs(·)))` read as `D.pow10`, `D.round`, `D.ceilLog10Abs`) -/
theorem C07_gen_round_digits (v : Rat) (d : Int) :
    Gen.SolCheck.roundToDigits (D.fin v) d = D.fin (roundDigits v d) := by
  unfold Gen.SolCheck.roundToDigits roundDigits
  by_cases hv : v = 0
  · subst hv; simp [D.eq, D.ofInt, D.fin]
  · have hne : ¬ (ER.fin v = ER.fin 0) := by intro h; injection h with h; exact hv h
    have hfl : ((d : Rat) + -((ceilLog10 (rabs v) : Int) : Rat)).floor = d - ceilLog10 (rabs v) := by
      have : ((d : Rat) + -((ceilLog10 (rabs v) : Int) : Rat)) = ((d - ceilLog10 (rabs v) : Int) : Rat) := by push_cast; grind
      rw [this, Rat.floor_intCast]
    have hp := pow10_pos (d - ceilLog10 (rabs v))
    have hp0 : pow10 (d - ceilLog10 (rabs v)) ≠ 0 := by grind
    simp [D.eq, D.ofInt, D.fin, hne, hv, D.sub, D.neg, D.add, D.ceilLog10Abs, D.pow10, D.mul, D.round, D.div, hfl, hp0]

/-! ## 9. non-vacuity: concrete, non-trivial instances of the hypotheses (and of each direction of the iff-theorems) -/

-- tolerance test (`C07_tolerance_test`, hypothesis `0 ≤ epsabs`): reported / within the relative tolerance / within the absolute one
example : ((⟨.fin (1/2), 4⟩ : Violation).check (1/4) (some (1/16))).1 = true := by decide +kernel
example : ((⟨.fin (1/2), 16⟩ : Violation).check (1/4) (some (1/16))).1 = false := by decide +kernel
example : ((⟨.fin (1/4), 4⟩ : Violation).check (1/4) (some 0)).1 = false := by decide +kernel
-- hypothesis of `C07_gen_check` / `C07_gen_summ` (an infinite amount comes with reference 0): what `CTX_NONE` produces
example (e : Env) : (funcViol 0 .none (.abs 0) { e with recomp := false }).viol = .pinf ∧
    (funcViol 0 .none (.abs 0) { e with recomp := false }).ref = 0 := ⟨rfl, rfl⟩

/-- the row `1 ≤ 2·x0 + x1 ≤ 3` (hypothesis `lo ≤ hi` of `C07_within_alg`) -/
def exRow : AlgCon := ⟨⟨[(2, 0), (1, 1)], [], 0⟩, .range, some 1, some 3⟩
example : ∀ l u, exRow.lo = some l → exRow.hi = some u → l ≤ u := by
  intro l u hl hu; simp [exRow] at hl hu; subst hl hu; decide +kernel
example : ((exRow.viol (ptOf [1, 3/2])).check (1/4) (some 0)).1 = true := by decide +kernel      -- body 7/2 > 3 + 1/4
example : ((exRow.viol (ptOf [1, 5/4])).check (1/4) (some 0)).1 = false := by decide +kernel     -- body 13/4 = 3 + 1/4: boundary
example : ((exRow.viol (ptOf [0, 1/2])).check (1/4) (some 0)).1 = true := by decide +kernel      -- body 1/2 < 1 - 1/4

-- `C07_recompute` / `C07_recompute_unique`: an ordered model with a definition, vector of the right length
example : cexCondModel.ordered = true ∧ [7, 0].length = cexCondModel.nvars ∧ cexCondModel.defOf 1 ≠ none := by decide +kernel
-- `C07_selected_con`: a selected item of a keeper of the model
example : ∃ kp ∈ cexCondModel.keepers, ∃ it ∈ kp.items, it.selected ((cexOpts 96).mode >>> 5) = true := by decide +kernel
-- `C07_selected_var_bounds`: bit 1 on, original variable
example : (cexOpts 1).mode &&& 1 ≠ 0 ∧ 0 < cexCondModel.nvars ∧ (cexCondModel.var 0).orig = true := by decide +kernel
-- `C07_pl_*`: strictly increasing points
example : plSorted [(-1, 1), (0, 0), (2, 2), (3, 5)] := by unfold plSorted; decide +kernel
-- `C07_infeas_skip` / `C07_checked_for_code`: both sides
example : checkSolutionCode cexIntModel (cexOpts 1) [5/2] [] 210 = .skipped :=
  (C07_infeas_skip _ _ _ _ _).mpr ⟨⟨by decide, by decide⟩, rfl⟩
example : (checkSolutionCode cexIntModel (cexOpts 1) [5/2] [] 300).hasReport = true := by decide +kernel
example : (checkSolutionCode cexIntModel { cexOpts 1 with infeas := true } [5/2] [] 210).hasReport = true := by decide +kernel
-- `C07_fail`: with the option a report gives 150, no report gives nothing
example : solveCodeOverride { cexOpts 1 with fail := true } (checkSolutionCode cexIntModel (cexOpts 1) [3] [] 0) = none := by decide +kernel

-- `C07_sat_pass_partial` / `C07_sat_iff_partial`: the hypotheses `SatHyp` hold for a non-trivial model (a reified row in negative
-- context, nothing untested, no `CTX_NONE`), and there the equivalence decides both ways (x = 7 violates, x = 3 satisfies)
example : SatHyp cexCondModel (cexOpts 3) (passEnv cexCondModel (cexOpts 3) [7, 0] [] false) (passMode (cexOpts 3) false) where
  feastol_nonneg := by decide +kernel
  feastol_lt_one := by decide +kernel
  inttol_nonneg := by decide +kernel
  in_domain := by
    right
    intro kp hkp it hit _ _ res ctx f hc
    simp only [cexCondModel, List.mem_cons, List.mem_nil_iff, or_false] at hkp; subst hkp
    simp only [List.mem_cons, List.mem_nil_iff, or_false] at hit; subst hit
    simp at hc
  wf := by
    intro kp hkp it hit
    simp only [cexCondModel, List.mem_cons, List.mem_nil_iff, or_false] at hkp; subst hkp
    simp only [List.mem_cons, List.mem_nil_iff, or_false] at hit; subst hit
    refine ⟨?_, Or.inl (by simp)⟩
    intro l u hl hu; simp at hu
  untested_hold := by
    intro kp hkp it hit hu
    simp only [cexCondModel, List.mem_cons, List.mem_nil_iff, or_false] at hkp; subst hkp
    simp only [List.mem_cons, List.mem_nil_iff, or_false] at hit; subst hit
    simp [Item.untested] at hu
  no_ctx_none := by
    right
    intro kp hkp it hit _ _
    simp only [cexCondModel, List.mem_cons, List.mem_nil_iff, or_false] at hkp; subst hkp
    simp only [List.mem_cons, List.mem_nil_iff, or_false] at hit; subst hit
    rfl
-- `SatHypT.in_domain` / `C07_value_eq_denote`: a functional constraint evaluated inside its domain (`r = and(b)`, `b = 1`)
example : (Func.and [0]).inDomain (passEnv cexDomainModel (cexOpts 3) [1, 1] [] false) = true ∧
    (Func.and [0]).inDomain (passEnv cexDomainModel (cexOpts 3) [3/4, 1] [] false) = false ∧
    (Func.numberofConst 2 [0, 1]).inDomain (passEnv cexDomainModel (cexOpts 3) [2, 1] [] false) = true := by decide +kernel
-- `C07_sos2_spec`: both sides (members 0 and 1 positive: adjacent; members 0 and 2: not)
example : SOS2OK ((List.range 3).filter (fun i => positiveV (passEnv cexDomainModel (cexOpts 3) [1, 1] [] false) ([0, 1, 5].getD i 0))) :=
  (C07_sos2_spec [0, 1, 5] _ (1/1000000) (1/1000000) (by decide +kernel) (by decide +kernel)).mp (by decide +kernel)
example : ¬ SOS2OK ((List.range 3).filter (fun i => positiveV (passEnv cexDomainModel (cexOpts 3) [1, 1] [] false) ([0, 5, 1].getD i 0))) :=
  fun h => absurd ((C07_sos2_spec [0, 5, 1] _ (1/1000000) (1/1000000) (by decide +kernel) (by decide +kernel)).mpr h) (by decide +kernel)
example : (checkSolutionCode cexCondModel (cexOpts 3) [7, 0] [] 0).hasReport = true ∧
    (checkSolutionCode cexCondModel (cexOpts 3) [3, 0] [] 0).hasReport = false := by decide +kernel

end MpVerif.C07

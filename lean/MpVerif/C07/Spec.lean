import MpVerif.C07.Model
/-!
# C07 — specification: "the point satisfies the model within the tolerances"

Written from the property text and the model *data* (variables, constraints with their context, objectives, options, the
point).  It does not mention the candidate list, `Violation`, `Violation.check`, the violation measures (`AlgCon.viol`,
`funcViol`, `condViol`, `sos1Viol`, `sos2Viol`, `complViol`) or the summaries, and function values are the mathematical
`Func.denote`, not the evaluator `Func.value` (`LemmasSpec.lean` `value_eq_denote` proves them equal on `Func.inDomain`).

What it DOES share with the checker model (`Model.lean`), and therefore cannot expose as wrong:
* the tolerance rule `TolLE` (absolute, or relative to a non-zero reference value) is the rule of `Violation::Check` written
  as a proposition; which value is the reference of each amount is taken from the code;
* "non-zero / positive beyond tolerance" and "at its lower / upper bound" (`nonZeroV`, `positiveV`, `atLbV`, `atUbV`) are the
  same expressions as `VarInfo::is_nonzero / is_positive / is_at_lb / is_at_ub` (tied to the C++ by `C07_gen_varinfo`);
* `cround`, `rabs`, `Body.val`, `plValue`, `AlgCon.isValid`, `maxL`, `minL` are the arithmetic of `Model.lean`;
* the evaluation point: `passEnv` applies the model's `applyPrecision`, and the idealistic pass evaluates at the model's
  `recompute` (characterised separately by `C07_recompute_unique`, `C07_round_digits`);
* the class of an item (`specClass`) is the same expression as `Item.cclass`.
`Props.lean` proves that the checker model's report is empty exactly when `SatTolPassTested` holds (`C07_sat_*`).
-/
namespace MpVerif.C07

/-- "amount `a` with reference value `r` is within the absolute or (reference non-zero) the relative tolerance" -/
def TolLE (a r ea er : Rat) : Prop := a ≤ ea ∨ (r ≠ 0 ∧ a ≤ er * rabs r)

/-- a row `lo ≤ body ≤ hi` holds within tolerance on each side that is present -/
def RowOK (c : AlgCon) (x : Pt) (ea er : Rat) : Prop :=
  (∀ l, c.lo = some l → TolLE (l - c.body.val x) l ea er) ∧
  (∀ u, c.hi = some u → TolLE (c.body.val x - u) u ea er)

/-- the row holds with a margin of more than `ea` on every side that is present -/
def RowMargin (c : AlgCon) (x : Pt) (ea : Rat) : Prop :=
  (∀ l, c.lo = some l → ea < c.body.val x - l) ∧ (∀ u, c.hi = some u → ea < u - c.body.val x)

/-- `res = v` in the direction the context asks for: positive context needs `res ≤ v`, negative `res ≥ v`, mixed both
(amounts relative to `res`); a result that is used nowhere (no context) asks for nothing -/
def FuncSpec (ctx : Ctx) (xres v ea er : Rat) : Prop :=
  match ctx with
  | .pos => TolLE (xres - v) xres ea er
  | .neg => TolLE (v - xres) xres ea er
  | .mix => TolLE (rabs (xres - v)) xres ea er
  | .none => True

/-- reified row `b ⇔ row`: positive context `b = 1 ⇒ row holds (within tolerance)`, negative `b = 0 ⇒ row does not hold with
margin`, mixed both -/
def CondSpec (ctx : Ctx) (b : Bool) (c : AlgCon) (x : Pt) (ea er : Rat) : Prop :=
  match ctx with
  | .pos => b = true → RowOK c x ea er
  | .neg => b = false → ¬ RowMargin c x ea
  | .mix => (b = true → RowOK c x ea er) ∧ (b = false → ¬ RowMargin c x ea)
  | .none => True

/-- by how much the value leaves `[lb, ub]` (0 inside) -/
def boundExcess (e : Env) (i : Nat) : Rat :=
  max 0 (max (match e.lb i with | some l => l - e.x i | none => 0) (match e.ub i with | some u => e.x i - u | none => 0))

/-- on recomputed values: the recomputed result equals the solver's value and respects its bounds -/
def RecompSpec (res : Nat) (e : Env) (ea er : Rat) : Prop :=
  TolLE (rabs (e.x res - e.raw res) + boundExcess e res) (e.x res) ea er

/-- some two entries are equal -/
def anyEq : List Rat → Bool
  | [] => false
  | a :: t => t.any (fun b => decide (a = b)) || anyEq t

/-- a value counts as non-zero / positive beyond tolerance: one half for integer variables, the feasibility tolerance otherwise -/
def nonZeroV (e : Env) (v : Nat) : Bool := decide ((if e.isInt v then (1/2 : Rat) else e.feastol) ≤ rabs (e.x v))
def positiveV (e : Env) (v : Nat) : Bool := decide ((if e.isInt v then (1/2 : Rat) else e.feastol) ≤ e.x v)
/-- the variable sits on its lower / upper bound (within the feasibility tolerance) -/
def atLbV (e : Env) (v : Nat) : Bool := match e.lb v with | some l => decide (e.x v - l ≤ e.feastol) | none => false
def atUbV (e : Env) (v : Nat) : Bool := match e.ub v with | some u => decide (u - e.x v ≤ e.feastol) | none => false
/-- SOS2 on the positions (in weight order) of the non-zero members: none, one, or two adjacent ones -/
def SOS2OK : List Nat → Prop
  | [] | [_] => True
  | [i, j] => j = i + 1
  | _ => False

/-- the class of a constraint in the reformulation: 8 if it is delivered to the solver (not reformulated further), 2 if it
comes directly from the model (depth 0) — both may apply —, otherwise 4 (intermediate) -/
def specClass (it : Item) : Nat :=
  let c := (if it.bridged then 0 else 8) + (if it.depth = 0 then 2 else 0)
  if c = 0 then 4 else c

/-! ### mathematical values of the functional constraints -/

def isBoolV (q : Rat) : Bool := decide (q = 0) || decide (q = 1)
def isIntV (q : Rat) : Bool := decide ((cround q : Rat) = q)

/-- the mathematical function each functional constraint denotes (logical values are 0/1) -/
def Func.denote (f : Func) (e : Env) : Rat :=
  match f with
  | .affine b => b.val e.x
  | .max a => maxL (a.map e.x)
  | .min a => minL (a.map e.x)
  | .abs a => rabs (e.x a)
  | .and a => b2r (a.all (fun i => decide (e.x i = 1)))
  | .or a => b2r (a.any (fun i => decide (e.x i = 1)))
  | .not a => b2r (decide (e.x a = 0))
  | .div a b => e.x a / e.x b
  | .ifthen c t el => if e.x c = 1 then e.x t else e.x el
  | .impl c t el => b2r (if e.x c = 1 then decide (e.x t = 1) else decide (e.x el = 1))
  | .alldiff a => b2r (!(anyEq (a.map e.x)))
  | .numberofConst k a => ((a.filter (fun v => decide (e.x v = k))).length : Nat)
  | .numberofVar v0 a => ((a.filter (fun v => decide (e.x v = e.x v0))).length : Nat)
  | .count a => ((a.filter (fun v => decide (e.x v = 1))).length : Nat)
  | .cond c => b2r (c.isValid (c.body.val e.x))
  | .pl pts a => plValue pts (e.x a)
  | .pow a k => (e.x a) ^ k

/-- where the evaluator of `constr_eval.h` computes that function: logical arguments are 0/1, `max`/`min` have an argument,
no division by zero, `alldiff` / `numberof` over integral values with a tolerance below 1/2 -/
def Func.inDomain (f : Func) (e : Env) : Bool :=
  match f with
  | .max a | .min a => !a.isEmpty
  | .and a | .or a | .count a => a.all (fun i => isBoolV (e.x i))
  | .not a => isBoolV (e.x a)
  | .div _ b => decide (e.x b ≠ 0)
  | .ifthen c _ _ => isBoolV (e.x c)
  | .impl c t el => isBoolV (e.x c) && isBoolV (e.x t) && isBoolV (e.x el)
  | .alldiff a => a.all (fun i => isIntV (e.x i))
  | .numberofConst k a => isIntV k && a.all (fun i => isIntV (e.x i)) && decide (e.feastol < 1/2)
  | .numberofVar v0 a => isIntV (e.x v0) && a.all (fun i => isIntV (e.x i)) && decide (e.feastol < 1/2)
  | _ => true

/-- what one constraint of the flat model asks of the point.  SOS1: at most one member non-zero beyond tolerance; SOS2: at most two, adjacent in weight order;
complementarity by the position of the complementing variable. -/
def ConSpec (c : Con) (e : Env) (ea er : Rat) : Prop :=
  match c with
  | .alg a => RowOK a e.x ea er
  | .func res ctx f => if e.recomp then RecompSpec res e ea er else FuncSpec ctx (e.x res) (f.denote e) ea er
  | .adef res ctx b => if e.recomp then RecompSpec res e ea er else FuncSpec ctx (e.x res) (b.val e.x) ea er
  | .cond res ctx a =>
      if e.recomp then RecompSpec res e ea er else CondSpec ctx (decide ((1/2 : Rat) ≤ e.x res)) a e.x ea er
  | .indicator b bv a => cround (e.x b) = bv → RowOK a e.x ea er
  | .sos1 vs => (vs.filter (nonZeroV e)).length ≤ 1
  | .sos2 vs => SOS2OK ((List.range vs.length).filter (fun i => positiveV e (vs.getD i 0)))
  | .compl ex v =>
      if atLbV e v then -(ex.val e.x) ≤ ea          -- at the lower bound the expression must be non-negative
      else if atUbV e v then ex.val e.x ≤ ea        -- at the upper bound non-positive
      else rabs (ex.val e.x) ≤ ea                   -- strictly inside it must vanish

/-- bounds of a variable -/
def BoundsOK (v : VarD) (x ea er : Rat) : Prop :=
  (∀ l, v.lb = some l → TolLE (l - x) l ea er) ∧ (∀ u, v.ub = some u → TolLE (x - u) u ea er)

/-- integrality -/
def IntOK (x it : Rat) : Prop := rabs (x - cround x) ≤ it

/-- **the point `e.x` satisfies the model within tolerances**, for the classes of items the mode selects:
bit 1 variables (auxiliary ones only on the solver's values), bits 2|4|8 every constraint whose class (2 top-level,
4 intermediate, 8 solver-side) is selected, bit 16 objective values -/
def SatTolPass (m : Model) (o : Opts) (e : Env) (mode : Nat) (objv : List Rat) : Prop :=
  (mode &&& 1 ≠ 0 → ∀ i, i < m.nvars → ((m.var i).orig = true ∨ e.recomp = false) →
      BoundsOK (m.var i) (e.x i) o.feastol o.feastolrel ∧ ((m.var i).isInt = true → IntOK (e.x i) o.inttol)) ∧
  (mode &&& 14 ≠ 0 → ∀ kp, kp ∈ m.keepers → ∀ it, it ∈ kp.items → specClass it &&& mode ≠ 0 →
      ConSpec it.con e o.feastol o.feastolrel) ∧
  (mode &&& 16 ≠ 0 → ∀ i, i < min m.objs.length objv.length →
      TolLE (rabs (objv.getD i 0 - (m.objs.getD i default).body.val e.x)) ((m.objs.getD i default).body.val e.x)
        o.feastol o.feastolrel)

/-- the mode one pass works with -/
def passMode (o : Opts) (recomp : Bool) : Nat := if recomp then o.mode >>> 5 else o.mode
/-- the point and variable information one pass works with -/
def passEnv (m : Model) (o : Opts) (xs raw : List Rat) (recomp : Bool) : Env := m.envOf o (applyPrecision o xs) raw recomp


/-! ### where the checker does not follow this specification (kept explicit) -/

/-- constraints the checker never tests: items marked unused, and linear / quadratic functional constraints (they have no
violation measure of their own) -/
def Item.untested (it : Item) : Bool :=
  it.unused || (match it.con with | .adef _ _ _ => true | _ => false)

/-- a functional / reified constraint whose result is used nowhere (`CTX_NONE`): the checker always reports it on the
solver's values although it asks for nothing -/
def Con.ctxNone : Con → Bool
  | .func _ .none _ => true
  | .cond _ .none _ => true
  | _ => false

/-- `SatTolPass` restricted to the constraints the checker tests: bounds, integrality, objectives as in `SatTolPass`;
constraints only for items with `untested = false` -/
def SatTolPassTested (m : Model) (o : Opts) (e : Env) (mode : Nat) (objv : List Rat) : Prop :=
  (mode &&& 1 ≠ 0 → ∀ i, i < m.nvars → ((m.var i).orig = true ∨ e.recomp = false) →
      BoundsOK (m.var i) (e.x i) o.feastol o.feastolrel ∧ ((m.var i).isInt = true → IntOK (e.x i) o.inttol)) ∧
  (mode &&& 14 ≠ 0 → ∀ kp, kp ∈ m.keepers → ∀ it, it ∈ kp.items → specClass it &&& mode ≠ 0 → it.untested = false →
      ConSpec it.con e o.feastol o.feastolrel) ∧
  (mode &&& 16 ≠ 0 → ∀ i, i < min m.objs.length objv.length →
      TolLE (rabs (objv.getD i 0 - (m.objs.getD i default).body.val e.x)) ((m.objs.getD i default).body.val e.x)
        o.feastol o.feastolrel)

/-- data well-formedness the measures rely on: rows have `lo ≤ hi` -/
def AlgCon.wf (c : AlgCon) : Prop := ∀ l u, c.lo = some l → c.hi = some u → l ≤ u
/-- a reified row compares with at least one finite bound -/
def AlgCon.bounded (c : AlgCon) : Prop := c.lo ≠ none ∨ c.hi ≠ none
def Con.wf : Con → Prop
  | .alg a | .indicator _ _ a => a.wf
  | .cond _ _ a => a.wf ∧ a.bounded
  | _ => True

end MpVerif.C07

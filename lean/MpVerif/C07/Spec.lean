import MpVerif.C07.Model
/-!
# C07 — specification: "the point satisfies the model within the tolerances"

Written from the property text and the model *data* only (variables, constraints with their context, objectives, options,
the point): no candidate list, no `Violation`, no `check`, no summaries.  `Props.lean` proves that the checker's report is
empty exactly when this predicate holds (`C07_sat_*`).
-/
namespace MpVerif.C07

/-- "amount `a` with reference value `r` is within the absolute or (reference non-zero) the relative tolerance" -/
def TolLE (a r ea er : Rat) : Prop := a ≤ ea ∨ (r ≠ 0 ∧ a ≤ er * rabs r)

/-- a row `lo ≤ body ≤ hi` holds within tolerance on each side that is present -/
def RowOK (c : AlgCon) (x : Pt) (ea er : Rat) : Prop :=
  (∀ l, c.lo = some l → TolLE (l - c.body.val x) l ea er) ∧
  (∀ u, c.hi = some u → TolLE (c.body.val x - u) u ea er)

/-- the row holds with a margin of more than `ea` on every side that is present -/
def RowMargin (c : AlgCon) (x : Pt) (ea : Rat) : Prop :=
  (∀ l, c.lo = some l → ea < c.body.val x - l) ∧ (∀ u, c.hi = some u → ea < u - c.body.val x)

/-- `res = v` in the direction the context asks for: positive context needs `res ≤ v`, negative `res ≥ v`, mixed both
(amounts relative to `res`); a result that is used nowhere (no context) asks for nothing -/
def FuncSpec (ctx : Ctx) (xres v ea er : Rat) : Prop :=
  match ctx with
  | .pos => TolLE (xres - v) xres ea er
  | .neg => TolLE (v - xres) xres ea er
  | .mix => TolLE (rabs (xres - v)) xres ea er
  | .none => True

/-- reified row `b ⇔ row`: positive context `b = 1 ⇒ row holds (within tolerance)`, negative `b = 0 ⇒ row does not hold with
margin`, mixed both -/
def CondSpec (ctx : Ctx) (b : Bool) (c : AlgCon) (x : Pt) (ea er : Rat) : Prop :=
  match ctx with
  | .pos => b = true → RowOK c x ea er
  | .neg => b = false → ¬ RowMargin c x ea
  | .mix => (b = true → RowOK c x ea er) ∧ (b = false → ¬ RowMargin c x ea)
  | .none => True

/-- on recomputed values: the recomputed result equals the solver's value and respects its bounds -/
def RecompSpec (res : Nat) (e : Env) (ea er : Rat) : Prop :=
  TolLE (rabs (e.x res - e.raw res) + e.boundsViolPos res) (e.x res) ea er

/-- what one constraint of the flat model asks of the point.  For SOS and complementarity rows the text gives no measure
of their own: "the number of excess non-zeros / the sign-restricted value of the complementing expression is at most the
absolute tolerance". -/
def ConSpec (c : Con) (e : Env) (ea er : Rat) : Prop :=
  match c with
  | .alg a => RowOK a e.x ea er
  | .func res ctx f => if e.recomp then RecompSpec res e ea er else FuncSpec ctx (e.x res) (f.value e) ea er
  | .adef res ctx b => if e.recomp then RecompSpec res e ea er else FuncSpec ctx (e.x res) (b.val e.x) ea er
  | .cond res ctx a =>
      if e.recomp then RecompSpec res e ea er else CondSpec ctx (decide ((1/2 : Rat) ≤ e.x res)) a e.x ea er
  | .indicator b bv a => cround (e.x b) = bv → RowOK a e.x ea er
  | .sos1 vs => (((vs.filter e.isNonzero).length - 1 : Nat) : Rat) ≤ ea
  | .sos2 vs => ∀ a, (sos2Viol vs e).viol = .fin a → a ≤ ea
  | .compl ex v => ∀ a, (complViol ex v e).viol = .fin a → a ≤ ea

/-- bounds of a variable -/
def BoundsOK (v : VarD) (x ea er : Rat) : Prop :=
  (∀ l, v.lb = some l → TolLE (l - x) l ea er) ∧ (∀ u, v.ub = some u → TolLE (x - u) u ea er)

/-- integrality -/
def IntOK (x it : Rat) : Prop := rabs (x - cround x) ≤ it

/-- **the point `e.x` satisfies the model within tolerances**, for the classes of items the mode selects:
bit 1 variables (auxiliary ones only on the solver's values), bits 2|4|8 every constraint whose class (2 top-level,
4 intermediate, 8 solver-side) is selected, bit 16 objective values -/
def SatTolPass (m : Model) (o : Opts) (e : Env) (mode : Nat) (objv : List Rat) : Prop :=
  (mode &&& 1 ≠ 0 → ∀ i, i < m.nvars → ((m.var i).orig = true ∨ e.recomp = false) →
      BoundsOK (m.var i) (e.x i) o.feastol o.feastolrel ∧ ((m.var i).isInt = true → IntOK (e.x i) o.inttol)) ∧
  (mode &&& 14 ≠ 0 → ∀ kp, kp ∈ m.keepers → ∀ it, it ∈ kp.items → it.cclass &&& mode ≠ 0 →
      ConSpec it.con e o.feastol o.feastolrel) ∧
  (mode &&& 16 ≠ 0 → ∀ i, i < min m.objs.length objv.length →
      TolLE (rabs (objv.getD i 0 - (m.objs.getD i default).body.val e.x)) ((m.objs.getD i default).body.val e.x)
        o.feastol o.feastolrel)

/-- the mode one pass works with -/
def passMode (o : Opts) (recomp : Bool) : Nat := if recomp then o.mode >>> 5 else o.mode
/-- the point and variable information one pass works with -/
def passEnv (m : Model) (o : Opts) (xs raw : List Rat) (recomp : Bool) : Env := m.envOf o (applyPrecision o xs) raw recomp


/-! ### where the checker does not follow this specification (kept explicit) -/

/-- constraints the checker never tests: items marked unused, and linear / quadratic functional constraints (they have no
violation measure of their own) -/
def Item.untested (it : Item) : Bool :=
  it.unused || (match it.con with | .adef _ _ _ => true | _ => false)

/-- a functional / reified constraint whose result is used nowhere (`CTX_NONE`): the checker always reports it on the
solver's values although it asks for nothing -/
def Con.ctxNone : Con → Bool
  | .func _ .none _ => true
  | .cond _ .none _ => true
  | _ => false

/-- data well-formedness the measures rely on: rows have `lo ≤ hi` -/
def AlgCon.wf (c : AlgCon) : Prop := ∀ l u, c.lo = some l → c.hi = some u → l ≤ u
/-- a reified row compares with at least one finite bound -/
def AlgCon.bounded (c : AlgCon) : Prop := c.lo ≠ none ∨ c.hi ≠ none
def Con.wf : Con → Prop
  | .alg a | .indicator _ _ a => a.wf
  | .cond _ _ a => a.wf ∧ a.bounded
  | _ => True

end MpVerif.C07

/-! Line driver for C07 (stub; replaced when the model is written). -/
def main : IO Unit := pure ()

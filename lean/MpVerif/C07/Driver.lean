import MpVerif.C07.Model
import MpVerif.C07.Arms
/-! Line driver for C07.  Builds a flat model from definition lines and prints the model's
`checkSolution` outcome for `check` lines.  No logic of its own: parsing and printing only. -/
open MpVerif.C07

abbrev P := StateT (List String) Option

def tok : P String := do
  match (← get) with
  | [] => failure
  | t :: r => set r; pure t

def pNat : P Nat := do
  let t ← tok
  match t.toNat? with | some n => pure n | none => failure

def pInt : P Int := do
  let t ← tok
  match t.toInt? with | some n => pure n | none => failure

def ratOfString (t : String) : Option Rat :=
  match t.splitOn "/" with
  | [a] => a.toInt?.map (fun (n : Int) => (n : Rat))
  | [a, b] => match a.toInt?, b.toNat? with
    | some n, some d => if d = 0 then none else some ((n : Rat) / (d : Rat))
    | _, _ => none
  | _ => none

def pRat : P Rat := do
  let t ← tok
  match ratOfString t with | some q => pure q | none => failure

def pBool : P Bool := do
  let t ← tok
  if t == "1" then pure true else if t == "0" then pure false else failure

/-- lower bound: rational or `-inf`; upper bound: rational or `inf` -/
def pLo : P (Option Rat) := do
  let t ← tok
  if t == "-inf" then pure none else match ratOfString t with | some q => pure (some q) | none => failure
def pHi : P (Option Rat) := do
  let t ← tok
  if t == "inf" then pure none else match ratOfString t with | some q => pure (some q) | none => failure

def pName : P String := do
  let t ← tok
  if t.startsWith "n:" then pure (t.drop 2).toString else failure

def pOptInt : P (Option Int) := do
  let t ← tok
  if t == "none" then pure none else match t.toInt? with | some n => pure (some n) | none => failure

def pMany {α} (p : P α) : Nat → P (List α)
  | 0 => pure []
  | n + 1 => do let a ← p; let r ← pMany p n; pure (a :: r)

def pList {α} (p : P α) : P (List α) := do let n ← pNat; pMany p n

def pBody : P Body := do
  let l ← tok; if l != "L" then failure
  let lin ← pList (do let c ← pRat; let v ← pNat; pure (c, v))
  let q ← tok; if q != "Q" then failure
  let quad ← pList (do let c ← pRat; let v1 ← pNat; let v2 ← pNat; pure (c, v1, v2))
  let k ← tok; if k != "K" then failure
  let c ← pRat
  pure ⟨lin, quad, c⟩

def pKind : P RKind := do
  match (← tok) with
  | "range" => pure .range | "lt" => pure .lt | "le" => pure .le
  | "eq" => pure .eq | "ge" => pure .ge | "gt" => pure .gt
  | _ => failure

def pAlg : P AlgCon := do
  let k ← pKind; let lo ← pLo; let hi ← pHi; let b ← pBody
  pure ⟨b, k, lo, hi⟩

def pCtx : P Ctx := do
  match (← tok) with
  | "none" => pure .none | "pos" => pure .pos | "neg" => pure .neg | "mix" => pure .mix
  | _ => failure

def pFunc : P Func := do
  match (← tok) with
  | "affine" => do pure (.affine (← pBody))
  | "max" => do pure (.max (← pList pNat))
  | "min" => do pure (.min (← pList pNat))
  | "abs" => do pure (.abs (← pNat))
  | "and" => do pure (.and (← pList pNat))
  | "or" => do pure (.or (← pList pNat))
  | "not" => do pure (.not (← pNat))
  | "div" => do let a ← pNat; let b ← pNat; pure (.div a b)
  | "ifthen" => do let c ← pNat; let t ← pNat; let e ← pNat; pure (.ifthen c t e)
  | "impl" => do let c ← pNat; let t ← pNat; let e ← pNat; pure (.impl c t e)
  | "alldiff" => do pure (.alldiff (← pList pNat))
  | "nofc" => do let k ← pRat; pure (.numberofConst k (← pList pNat))
  | "nofv" => do let v0 ← pNat; pure (.numberofVar v0 (← pList pNat))
  | "count" => do pure (.count (← pList pNat))
  | "pow" => do let a ← pNat; let k ← pNat; pure (.pow a k)
  | "pl" => do
      let pts ← pList (do let x ← pRat; let y ← pRat; pure (x, y))
      let a ← pNat
      pure (.pl pts a)
  | _ => failure

def pCon : P Con := do
  match (← tok) with
  | "alg" => do pure (.alg (← pAlg))
  | "func" => do let r ← pNat; let c ← pCtx; let f ← pFunc; pure (.func r c f)
  | "adef" => do let r ← pNat; let c ← pCtx; let b ← pBody; pure (.adef r c b)
  | "cond" => do let r ← pNat; let c ← pCtx; let a ← pAlg; pure (.cond r c a)
  | "ind" => do let b ← pNat; let bv ← pInt; let a ← pAlg; pure (.indicator b bv a)
  | "sos1" => do pure (.sos1 (← pList pNat))
  | "sos2" => do pure (.sos2 (← pList pNat))
  | "compl" => do let v ← pNat; let b ← pBody; pure (.compl b v)
  | _ => failure

def pEnd : P Unit := do
  match (← get) with | [] => pure () | _ => failure

structure St where
  vars : Array VarD := #[]
  keepers : Array Keeper := #[]
  objs : Array Obj := #[]
  opts : Opts := ⟨0, 0, 0, 0, none, none, false, false⟩

def St.model (s : St) : Model := ⟨s.vars.toList, s.keepers.toList, s.objs.toList⟩

def ratStr (q : Rat) : String := if q.den = 1 then toString q.num else toString q.num ++ "/" ++ toString q.den
def erStr : ER → String
  | .ninf => "-inf" | .pinf => "inf" | .fin q => ratStr q
def optStr : Option String → String
  | none => "-" | some s => "n:" ++ s

def lineStr (l : Line) : String :=
  l.label ++ "~" ++ (if l.fmax then "1" else "0") ++ "~" ++ toString l.s.n ++ "~" ++ erStr l.s.maxAbs ++ "~" ++
    optStr l.s.nameAbs ++ "~" ++ ratStr l.s.maxRel ++ "~" ++ optStr l.s.nameRel

def linesStr (ls : List Line) : String := ";;".intercalate (ls.map lineStr)

def outcomeStr (o : Opts) (oc : Outcome) : String :=
  let code := match solveCodeOverride o oc with | some c => toString c | none => "-"
  match oc with
  | .skipped => "ret=1 code=" ++ code ++ " skipped"
  | .checked ideal real =>
    "ret=" ++ (if oc.ret then "1" else "0") ++ " code=" ++ code ++ " warn=" ++ (if warningIssued o oc then "1" else "0") ++
      " ideal=[" ++ linesStr ideal ++ "] real=[" ++ linesStr real ++ "]"

def step (s : St) (toks : List String) : Option (St × String) :=
  match toks with
  | "reset" :: [] => some ({}, "ok")
  | "opts" :: r =>
    (do let mode ← pNat; let ft ← pRat; let fr ← pRat; let it ← pRat; let rn ← pOptInt; let pr ← pOptInt
        let fl ← pBool; let inf ← pBool; pEnd
        pure ({ s with opts := ⟨mode, ft, fr, it, rn, pr, fl, inf⟩ }, "ok") : P _).run' r
  | "var" :: r =>
    (do let lb ← pLo; let ub ← pHi; let isInt ← pBool; let orig ← pBool; let nm ← pName
        let k ← pInt; let j ← pInt; pEnd
        let init := if k < 0 then none else some (k.toNat, j.toNat)
        pure ({ s with vars := s.vars.push ⟨lb, ub, isInt, orig, nm, init⟩ }, "ok") : P _).run' r
  | "obj" :: r =>
    (do let nm ← pName; let b ← pBody; pEnd
        pure ({ s with objs := s.objs.push ⟨b, nm⟩ }, "ok") : P _).run' r
  | "keeper" :: r =>
    (do let key ← pName; let lg ← pBool; pEnd
        pure ({ s with keepers := s.keepers.push ⟨key, lg, []⟩ }, "ok") : P _).run' r
  | "con" :: r =>
    (do let depth ← pNat; let br ← pBool; let un ← pBool; let nm ← pName; let c ← pCon; pEnd
        if s.keepers.size = 0 then failure
        let kp := s.keepers.back!
        let kp' : Keeper := { kp with items := kp.items ++ [⟨c, depth, br, un, nm⟩] }
        pure ({ s with keepers := s.keepers.pop.push kp' }, "ok") : P _).run' r
  | "check" :: r =>
    (do let code ← pInt
        let xt ← tok; if xt != "X" then failure
        let xs ← pList pRat
        let ot ← tok; if ot != "O" then failure
        let ov ← pList pRat; pEnd
        let m := s.model
        if xs.length != m.nvars then failure
        if !(inFragment m s.opts xs) then
          pure (s, if m.ordered || s.opts.mode &&& 992 == 0 then "nonfinite" else "unordered")
        else
          pure (s, outcomeStr s.opts (checkSolutionCode m s.opts xs ov code)) : P _).run' r
  | "arms" :: r =>
    (do let code ← pInt
        let xt ← tok; if xt != "X" then failure
        let xs ← pList pRat
        let ot ← tok; if ot != "O" then failure
        let ov ← pList pRat; pEnd
        let m := s.model
        if xs.length != m.nvars then failure
        if !(inFragment m s.opts xs) then pure (s, "outside")
        else pure (s, ";;".intercalate (runArms m s.opts xs ov code).eraseDups) : P _).run' r
  | "recompute" :: r =>
    (do let xs ← pList pRat; pEnd
        let m := s.model
        if !(inFragment m s.opts xs) then pure (s, "outside")
        else pure (s, " ".intercalate ((recompute m s.opts xs).map ratStr)) : P _).run' r
  | _ => none

partial def loop (h : IO.FS.Stream) (out : IO.FS.Stream) (s : St) : IO Unit := do
  let line ← h.getLine
  if line.isEmpty then return ()
  let toks := (line.trimAscii.toString.splitOn " ").filter (· ≠ "")
  match step s toks with
  | some (s', msg) => out.putStrLn msg; loop h out s'
  | none => out.putStrLn "bad-op"; loop h out s

def main : IO Unit := do
  let out ← IO.getStdout
  loop (← IO.getStdin) out {}

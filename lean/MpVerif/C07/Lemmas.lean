import MpVerif.C07.Model
/-! Helper lemmas for the C07 property theorems (core Lean only). -/
namespace MpVerif.C07

theorem rabs_nonneg (q : Rat) : 0 ≤ rabs q := by
  unfold rabs; split <;> grind

theorem rabs_of_nonneg {q : Rat} (h : 0 ≤ q) : rabs q = q := by
  unfold rabs; simp [h]

theorem rabs_pos {q : Rat} (h : q ≠ 0) : 0 < rabs q := by
  unfold rabs; split <;> grind

theorem rabs_div_of_pos {a r : Rat} (ha : 0 < a) (hr : r ≠ 0) : rabs (a / r) = a / rabs r := by
  by_cases h : 0 ≤ r
  · have hr' : 0 < r := by grind
    have hq : 0 < a / r := (Rat.lt_div_iff (a := 0) (b := a) hr').mpr (by grind)
    have h1 : rabs (a / r) = a / r := rabs_of_nonneg (by grind)
    rw [h1, rabs_of_nonneg h]
  · have hr' : 0 < -r := by grind
    have hneg : a / r = -(a / -r) := by grind
    have hpos : 0 < a / -r := (Rat.lt_div_iff (a := 0) (b := a) hr').mpr (by grind)
    have h1 : rabs (a / r) = a / -r := by
      unfold rabs
      have : ¬ (0 ≤ a / r) := by rw [hneg]; grind
      simp only [this, if_false]; grind
    have h2 : rabs r = -r := by unfold rabs; simp [h]
    rw [h1, h2]

/-- `er < a / b ↔ er * b < a` for positive `b` -/
theorem lt_div_iff_pos {a b er : Rat} (hb : 0 < b) : er < a / b ↔ er * b < a :=
  Rat.lt_div_iff hb

/-! ### the tolerance test -/

theorem check_fin_some (a r ea er : Rat) :
    ((⟨.fin a, r⟩ : Violation).check ea (some er)).1 = true ↔ ea < a ∧ (r = 0 ∨ er < rabs (a / r)) := by
  unfold Violation.check
  simp only
  by_cases h1 : ea < a
  · by_cases h2 : r = 0
    · simp [h1, h2]
    · by_cases h3 : er < rabs (a / r) <;> simp [h1, h2, h3]
  · simp [h1]

theorem check_fin_none (a r ea : Rat) :
    ((⟨.fin a, r⟩ : Violation).check ea none).1 = true ↔ ea < a ∧ r = 0 := by
  unfold Violation.check
  simp only
  by_cases h1 : ea < a
  · by_cases h2 : r = 0 <;> simp [h1, h2]
  · simp [h1]

theorem check_ninf (r ea : Rat) (er : Option Rat) : ((⟨.ninf, r⟩ : Violation).check ea er).1 = false := rfl

/-- not reported ⇔ within the absolute tolerance, or (reference non-zero and) within the relative one -/
theorem within_fin_some (a r ea er : Rat) (hea : 0 ≤ ea) :
    ((⟨.fin a, r⟩ : Violation).check ea (some er)).1 = false ↔ (a ≤ ea ∨ (r ≠ 0 ∧ a ≤ er * rabs r)) := by
  have h := check_fin_some a r ea er
  constructor
  · intro hf
    by_cases h1 : ea < a
    · right
      have hne : r ≠ 0 := by
        intro h0; have : ((⟨.fin a, r⟩ : Violation).check ea (some er)).1 = true := h.mpr ⟨h1, Or.inl h0⟩
        simp [hf] at this
      refine ⟨hne, ?_⟩
      have hnot : ¬ (er < rabs (a / r)) := by
        intro h3; have : ((⟨.fin a, r⟩ : Violation).check ea (some er)).1 = true := h.mpr ⟨h1, Or.inr h3⟩
        simp [hf] at this
      have ha : 0 < a := by grind
      rw [rabs_div_of_pos ha hne, lt_div_iff_pos (rabs_pos hne)] at hnot
      grind
    · left; grind
  · intro hw
    cases hb : ((⟨.fin a, r⟩ : Violation).check ea (some er)).1 with
    | false => rfl
    | true =>
      have ⟨h1, h2⟩ := h.mp hb
      rcases hw with hw | ⟨hne, hw⟩
      · grind
      · rcases h2 with h2 | h2
        · exact absurd h2 hne
        · have ha : 0 < a := by grind
          rw [rabs_div_of_pos ha hne, lt_div_iff_pos (rabs_pos hne)] at h2
          grind

/-! ### summaries -/

theorem Summ.add_n (s : Summ) (c : Cand) : (s.add c).n = s.n + (if c.violated then 1 else 0) := by
  unfold Summ.add Cand.violated
  cases h : (c.v.check c.epsabs c.epsrel).1
  · simp [h]
  · simp only [h, if_true]
    split <;> split <;> simp

theorem foldl_add_n (cs : List Cand) (s : Summ) :
    (cs.foldl Summ.add s).n = s.n + (cs.filter Cand.violated).length := by
  induction cs generalizing s with
  | nil => simp
  | cons c t ih =>
    simp only [List.foldl_cons, ih, Summ.add_n, List.filter_cons]
    cases c.violated <;> simp <;> omega

theorem summarize_n (cs : List Cand) : (summarize cs).n = (cs.filter Cand.violated).length := by
  unfold summarize; rw [foldl_add_n]; simp

/-- a report line appears iff some candidate of the slot is violated -/
theorem slotLine_eq_nil (label : String) (fmax : Bool) (cs : List Cand) :
    slotLine label fmax cs = [] ↔ ∀ c ∈ cs, c.violated = false := by
  unfold slotLine
  simp only [summarize_n]
  constructor
  · intro h c hc
    cases hv : c.violated with
    | false => rfl
    | true =>
      have : c ∈ cs.filter Cand.violated := List.mem_filter.mpr ⟨hc, hv⟩
      have hpos : 0 < (cs.filter Cand.violated).length := List.length_pos_of_mem this
      simp [hpos] at h
  · intro h
    have : cs.filter Cand.violated = [] := by
      apply List.filter_eq_nil_iff.mpr
      intro c hc; simp [h c hc]
    simp [this]

/-! ### the checks one pass performs -/

/-- candidates of a keeper: every item that is not unused and whose class is enabled by the mode bits -/
def Keeper.selCands (kp : Keeper) (o : Opts) (mode : Nat) (e : Env) : List Cand :=
  (kp.items.reverse.filter (fun it => it.selected mode)).map (fun it =>
    ⟨it.con.viol e, o.feastol, some o.feastolrel, it.name⟩)

/-- all tolerance tests performed by one pass of `DoCheckSol` -/
def passCands (m : Model) (o : Opts) (xs objv raw : List Rat) (recomp : Bool) : List Cand :=
  let mode := if recomp then o.mode >>> 5 else o.mode
  let xr := applyPrecision o xs
  let e := m.envOf o xr raw recomp
  (if mode &&& 1 ≠ 0 then
     m.varBndCands o e.x recomp false ++ m.varBndCands o e.x recomp true ++
     m.varIntCands o e.x recomp false ++ m.varIntCands o e.x recomp true
   else []) ++
  (if mode &&& 14 ≠ 0 then m.keepers.flatMap (fun kp => kp.selCands o mode e) else []) ++
  (if mode &&& 16 ≠ 0 then m.objCands o e.x objv else [])

theorem Item.slot_cases (it : Item) : it.slot = 0 ∨ it.slot = 1 ∨ it.slot = 2 := by
  unfold Item.slot
  split
  · exact Or.inl rfl
  · split
    · exact Or.inr (Or.inr rfl)
    · exact Or.inr (Or.inl rfl)

theorem Keeper.mem_selCands (kp : Keeper) (o : Opts) (mode : Nat) (e : Env) (c : Cand) :
    c ∈ kp.selCands o mode e ↔ ∃ slot, slot ∈ [0, 1, 2] ∧ c ∈ kp.cands o mode e slot := by
  unfold Keeper.selCands Keeper.cands
  simp only [List.mem_map, List.mem_filter, Bool.and_eq_true, beq_iff_eq]
  constructor
  · rintro ⟨it, ⟨hit, hsel⟩, rfl⟩
    refine ⟨it.slot, ?_, it, ⟨hit, hsel, rfl⟩, rfl⟩
    rcases it.slot_cases with h | h | h <;> simp [h]
  · rintro ⟨slot, _, it, ⟨hit, hsel, _⟩, rfl⟩
    exact ⟨it, ⟨hit, hsel⟩, rfl⟩

theorem Keeper.lines_eq_nil (kp : Keeper) (o : Opts) (mode : Nat) (e : Env) :
    kp.lines o mode e = [] ↔ ∀ c ∈ kp.selCands o mode e, c.violated = false := by
  unfold Keeper.lines
  rw [List.flatMap_eq_nil_iff]
  simp only [slotLine_eq_nil]
  constructor
  · intro h c hc
    obtain ⟨slot, hs, hc'⟩ := (kp.mem_selCands o mode e c).mp hc
    exact h slot hs c hc'
  · intro h slot hs c hc
    exact h c ((kp.mem_selCands o mode e c).mpr ⟨slot, hs, hc⟩)

theorem conLines_eq_nil (ks : List Keeper) (o : Opts) (mode : Nat) (e : Env) :
    ((ks.filter (fun kp => kp.logical == false)).flatMap (fun kp => kp.lines o mode e) ++
     (ks.filter (fun kp => kp.logical == true)).flatMap (fun kp => kp.lines o mode e) = []) ↔
    ∀ c ∈ ks.flatMap (fun kp => kp.selCands o mode e), c.violated = false := by
  simp only [List.append_eq_nil_iff, List.flatMap_eq_nil_iff, List.mem_filter, Keeper.lines_eq_nil,
    List.mem_flatMap]
  constructor
  · rintro ⟨h0, h1⟩ c ⟨kp, hkp, hc⟩
    cases hl : kp.logical
    · exact h0 kp ⟨hkp, by simp [hl]⟩ c hc
    · exact h1 kp ⟨hkp, by simp [hl]⟩ c hc
  · intro h
    exact ⟨fun kp hk c hc => h c ⟨kp, hk.1, hc⟩, fun kp hk c hc => h c ⟨kp, hk.1, hc⟩⟩

/-- **one pass**: the report of `DoCheckSol` is empty iff none of the selected tolerance tests fires -/
theorem doCheckSol_eq_nil (m : Model) (o : Opts) (xs objv raw : List Rat) (recomp : Bool) :
    (doCheckSol m o xs objv raw recomp).1 = [] ↔
    ∀ c ∈ passCands m o xs objv raw recomp, c.violated = false := by
  unfold doCheckSol passCands
  simp only
  generalize (if recomp then o.mode >>> 5 else o.mode) = mode
  generalize m.envOf o (applyPrecision o xs) raw recomp = e
  simp only [List.append_eq_nil_iff, List.mem_append, List.append_assoc]
  have hk := conLines_eq_nil m.keepers o mode e
  by_cases h1 : mode &&& 1 ≠ 0 <;> by_cases h2 : mode &&& 14 ≠ 0 <;> by_cases h3 : mode &&& 16 ≠ 0 <;>
    (first | simp only [if_pos h1] | simp only [if_neg h1]) <;>
    (first | simp only [if_pos h2] | simp only [if_neg h2]) <;>
    (first | simp only [if_pos h3] | simp only [if_neg h3]) <;>
    simp only [List.append_eq_nil_iff, slotLine_eq_nil, List.mem_append, List.not_mem_nil,
      true_and, and_true, false_or, or_false, and_assoc] at hk ⊢ <;>
    grind

end MpVerif.C07

import MpVerif.C07.Model
/-! Piecewise-linear evaluator: `plValue` (the C++ scan) equals the mathematical PL function of the points. -/
namespace MpVerif.C07

/-- points strictly increasing in `x` -/
def plSorted (pts : List (Rat × Rat)) : Prop := pts.Pairwise (fun p q => p.1 < q.1)

/-- the line through `a` and `b` evaluated at `x` -/
def lineThrough (a b : Rat × Rat) (x : Rat) : Rat := a.2 + (b.2 - a.2) / (b.1 - a.1) * (x - a.1)

theorem plScan_between (pre : List (Rat × Rat)) (a b : Rat × Rat) (post : List (Rat × Rat)) (prev : Rat × Rat)
    (x : Rat) (hs : plSorted (pre ++ a :: b :: post)) (ha : a.1 ≤ x) (hb : x ≤ b.1) :
    plScan (pre ++ a :: b :: post) prev x = lineThrough a b x := by
  induction pre generalizing prev with
  | nil =>
    obtain ⟨ax, ay⟩ := a
    obtain ⟨bx, by'⟩ := b
    have hab : ax < bx := by
      have := (List.pairwise_cons.mp hs).1 (bx, by') (by simp)
      exact this
    simp only [List.nil_append, plScan, lineThrough]
    simp only at ha hb
    by_cases h1 : ax < x
    · simp only [h1, if_true]
      have h2 : ¬ (bx < x) := by grind
      simp only [h2, if_false]
      by_cases h3 : bx = x
      · simp only [h3, if_true]
        subst h3
        have : bx - ax ≠ 0 := by grind
        grind
      · simp only [h3, if_false]
        have : bx - ax ≠ 0 := by grind
        grind
    · have : ax = x := by grind
      simp only [h1, if_false, this, if_true]
      grind
  | cons p pre ih =>
    obtain ⟨px, py⟩ := p
    have hp : px < a.1 := by
      have := (List.pairwise_cons.mp hs).1 a (by simp)
      exact this
    have hlt : px < x := by grind
    simp only [List.cons_append, plScan, hlt, if_true]
    exact ih (px, py) (List.pairwise_cons.mp hs).2

theorem plSorted_head_le_last (p : Rat × Rat) (t : List (Rat × Rat)) (l : Rat × Rat) (rest : List (Rat × Rat))
    (hs : plSorted (p :: t)) (hr : (p :: t).reverse = l :: rest) : p.1 ≤ l.1 := by
  have hl : l ∈ p :: t := by
    have : l ∈ (p :: t).reverse := by rw [hr]; simp
    exact List.mem_reverse.mp this
  rcases List.mem_cons.mp hl with h | h
  · rw [h]; exact Rat.le_refl
  · exact Rat.le_of_lt ((List.pairwise_cons.mp hs).1 l h)

/-- **between two consecutive points** (end points included): linear interpolation -/
theorem plValue_between (pre : List (Rat × Rat)) (a b : Rat × Rat) (post : List (Rat × Rat)) (x : Rat)
    (hs : plSorted (pre ++ a :: b :: post)) (ha : a.1 ≤ x) (hb : x ≤ b.1) :
    plValue (pre ++ a :: b :: post) x = lineThrough a b x := by
  -- first point ≤ a.1 ≤ x, x ≤ b.1 ≤ last point
  cases hpts : pre ++ a :: b :: post with
  | nil => simp at hpts
  | cons p0 t =>
    obtain ⟨x0, y0⟩ := p0
    have hs' : plSorted ((x0, y0) :: t) := hpts ▸ hs
    have hx0 : x0 ≤ a.1 := by
      cases pre with
      | nil => simp at hpts; rw [hpts.1]; exact Rat.le_refl
      | cons q pre' =>
        simp at hpts
        have : a ∈ t := by rw [← hpts.2]; simp
        have := (List.pairwise_cons.mp hs').1 a this
        exact Rat.le_of_lt this
    have hnlt : ¬ (x < x0) := by grind
    cases hrev : ((x0, y0) :: t).reverse with
    | nil => simp at hrev
    | cons l rest =>
      have hbl : b.1 ≤ l.1 := by
        have hbm : b ∈ ((x0, y0) :: t) := by rw [← hpts]; simp
        have hlm : l ∈ ((x0, y0) :: t).reverse := by rw [hrev]; simp
        -- l is the last element: every other element is smaller
        have hrs : ((x0, y0) :: t).reverse.Pairwise (fun p q => q.1 < p.1) := List.pairwise_reverse.mpr hs'
        rw [hrev] at hrs
        have hbm' : b ∈ l :: rest := by rw [← hrev]; exact List.mem_reverse.mpr hbm
        rcases List.mem_cons.mp hbm' with h | h
        · rw [h]; exact Rat.le_refl
        · exact Rat.le_of_lt ((List.pairwise_cons.mp hrs).1 b h)
      obtain ⟨xl, yl⟩ := l
      have hnl : ¬ (xl < x) := by simp only at hbl; grind
      simp only [plValue, hnlt, if_false, hrev, hnl]
      rw [← hpts]
      exact plScan_between pre a b post (x0, y0) x hs ha hb

/-- **left of the first point**: the line of the first segment, extended -/
theorem plValue_left (a b : Rat × Rat) (post : List (Rat × Rat)) (x : Rat)
    (hs : plSorted (a :: b :: post)) (hx : x < a.1) :
    plValue (a :: b :: post) x = lineThrough a b x := by
  obtain ⟨ax, ay⟩ := a
  obtain ⟨bx, by'⟩ := b
  have hab : ax < bx := (List.pairwise_cons.mp hs).1 (bx, by') (by simp)
  simp only at hx
  have h1 : ¬ (bx ≤ ax) := by grind
  simp only [plValue, hx, if_true, plPre, h1, if_false, lineThrough]
  have : bx - ax ≠ 0 := by grind
  grind

/-- **right of the last point**: the line of the last segment, extended -/
theorem plValue_right (pre : List (Rat × Rat)) (a b : Rat × Rat) (x : Rat)
    (hs : plSorted (pre ++ [a, b])) (hx : b.1 < x) :
    plValue (pre ++ [a, b]) x = b.2 + (b.2 - a.2) / (b.1 - a.1) * (x - b.1) := by
  have hrev : (pre ++ [a, b]).reverse = b :: a :: pre.reverse := by simp
  have hab : a.1 < b.1 := by
    have h2 : plSorted [a, b] := (List.pairwise_append.mp hs).2.1
    exact (List.pairwise_cons.mp h2).1 b (by simp)
  cases hpts : pre ++ [a, b] with
  | nil => simp at hpts
  | cons p0 t =>
    obtain ⟨x0, y0⟩ := p0
    have hs' : plSorted ((x0, y0) :: t) := hpts ▸ hs
    have hrev' : ((x0, y0) :: t).reverse = b :: a :: pre.reverse := hpts ▸ hrev
    have h0 : x0 ≤ b.1 := plSorted_head_le_last (x0, y0) t b _ hs' hrev'
    have hnlt : ¬ (x < x0) := by grind
    obtain ⟨ax, ay⟩ := a
    obtain ⟨bx, by'⟩ := b
    simp only at hx hab
    have h1 : ¬ (bx ≤ ax) := by grind
    simp only [plValue, hnlt, if_false, hrev', hx, if_true, plPost, h1]

end MpVerif.C07

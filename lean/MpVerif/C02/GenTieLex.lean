import MpVerif.C02.GenTie
namespace MpVerif.C02
open MpVerif.CSem MpVerif.Gen MpVerif.Gen.NLGuards

/-! ### the digit loop and the sign handling of the text reader -/

theorem digit_char (c : UInt8) (hd : isDigit c = true) : asChar c = (c.toNat : Int) ∧ 48 ≤ c.toNat ∧ c.toNat ≤ 57 := by
  simp only [isDigit, Bool.and_eq_true, decide_eq_true_eq] at hd
  have h1 : 48 ≤ c.toNat := by have := hd.1; exact UInt8.le_iff_toNat_le.mp this
  have h2 : c.toNat ≤ 57 := by have := hd.2; exact UInt8.le_iff_toNat_le.mp this
  refine ⟨?_, h1, h2⟩
  unfold asChar
  split <;> omega

theorem arith_tU (r : Int) : arith tU r = .ret (r % 4294967296) := by simp [arith, tU, CTy.wrap]
theorem arith_tUL (r : Int) : arith tUL r = .ret (r % 18446744073709551616) := by simp [arith, tUL, CTy.wrap]
theorem conv_tU' (r : Int) : conv tU r = r % 4294967296 := by simp [conv, tU, CTy.wrap]
theorem conv_tUL' (r : Int) : conv tUL r = r % 18446744073709551616 := by simp [conv, tUL, CTy.wrap]
theorem conv_tUS' (r : Int) : conv tUS r = r % 65536 := by simp [conv, tUS, CTy.wrap]
theorem arith_tI' (r : Int) (h0 : -2147483648 ≤ r) (h1 : r ≤ 2147483647) : arith tI r = .ret r := by
  simp [arith, tI, CTy.lo, CTy.hi, h0, h1]

/-- `ReadIntWithoutSign<int>` / `<unsigned>`: `result * 10 + (c - '0')` in 32-bit unsigned arithmetic -/
theorem C02_gen_wrapped32 (result : Nat) (c : UInt8) (hr : result < 4294967296) (hd : isDigit c = true) :
    g_TextReader_ReadIntWithoutSign_u__number_is_too_big result (asChar c)
      = .ret (bi (decide (G.wrapped (G.newResult 32 result c) result))) := by
  obtain ⟨hc, h1, h2⟩ := digit_char c hd
  unfold g_TextReader_ReadIntWithoutSign_u__number_is_too_big G.wrapped G.newResult
  rw [hc]
  simp only [cmul, cadd, csub, arith_tU, conv_tU']
  rw [conv_tI_small (c.toNat : Int) (by omega) (by omega), conv_tI_small 48 (by omega) (by omega),
    arith_tI' ((c.toNat : Int) - 48) (by omega) (by omega)]
  simp only [Outcome.bind_ret, clt]
  have hiff : ((((result : Int) * (10 % 4294967296) % 4294967296 + ((c.toNat : Int) - 48) % 4294967296) % 4294967296 < (result : Int)))
      ↔ ((result * 10 + (c.toNat - 48)) % 2 ^ 32 < result) := by omega
  simp only [bi, hiff, decide_eq_true_eq]

theorem C02_gen_wrapped32i (result c : Int) :
    g_TextReader_ReadIntWithoutSign_i__number_is_too_big result c
      = g_TextReader_ReadIntWithoutSign_u__number_is_too_big result c := rfl

/-- `ReadIntWithoutSign<unsigned short>` (`ReadInt<short>`): arithmetic in `int`, truncated to 16 bits -/
theorem C02_gen_wrapped16 (result : Nat) (c : UInt8) (hr : result < 65536) (hd : isDigit c = true) :
    g_TextReader_ReadIntWithoutSign_us__number_is_too_big result (asChar c)
      = .ret (bi (decide (G.wrapped (G.newResult 16 result c) result))) := by
  obtain ⟨hc, h1, h2⟩ := digit_char c hd
  unfold g_TextReader_ReadIntWithoutSign_us__number_is_too_big G.wrapped G.newResult
  rw [hc]
  simp only [cmul, cadd, csub, conv_tUS']
  rw [conv_tI_small (result : Int) (by omega) (by omega), conv_tI_small (c.toNat : Int) (by omega) (by omega),
    conv_tI_small 48 (by omega) (by omega), arith_tI' ((result : Int) * 10) (by omega) (by omega),
    arith_tI' ((c.toNat : Int) - 48) (by omega) (by omega)]
  simp only [Outcome.bind_ret]
  rw [arith_tI' ((result : Int) * 10 + ((c.toNat : Int) - 48)) (by omega) (by omega)]
  simp only [Outcome.bind_ret, clt]
  rw [conv_tI_small (((result : Int) * 10 + ((c.toNat : Int) - 48)) % 65536) (by omega) (by omega)]
  have hiff : ((((result : Int) * 10 + ((c.toNat : Int) - 48)) % 65536 < (result : Int)))
      ↔ ((result * 10 + (c.toNat - 48)) % 2 ^ 16 < result) := by omega
  simp only [bi, hiff, decide_eq_true_eq]

/-- `ReadIntWithoutSign<std::size_t>` (header non-zero counts): 64-bit unsigned arithmetic -/
theorem C02_gen_wrapped64 (result : Nat) (c : UInt8) (hr : result < 18446744073709551616) (hd : isDigit c = true) :
    g_TextReader_ReadIntWithoutSign_ul__number_is_too_big result (asChar c)
      = .ret (bi (decide (G.wrapped (G.newResult 64 result c) result))) := by
  obtain ⟨hc, h1, h2⟩ := digit_char c hd
  unfold g_TextReader_ReadIntWithoutSign_ul__number_is_too_big G.wrapped G.newResult
  rw [hc]
  simp only [cmul, cadd, csub, arith_tUL, conv_tUL']
  rw [conv_tI_small (c.toNat : Int) (by omega) (by omega), conv_tI_small 48 (by omega) (by omega),
    arith_tI' ((c.toNat : Int) - 48) (by omega) (by omega)]
  simp only [Outcome.bind_ret, clt]
  have hiff : ((((result : Int) * (10 % 18446744073709551616) % 18446744073709551616 + ((c.toNat : Int) - 48) % 18446744073709551616) % 18446744073709551616 < (result : Int)))
      ↔ ((result * 10 + (c.toNat - 48)) % 2 ^ 64 < result) := by omega
  simp only [bi, hiff, decide_eq_true_eq]

/-- `if (result > max)` after the loop, per instantiation (`max = numeric_limits<Int>::max()`) -/
theorem C02_gen_tooBig_i (result : Nat) :
    g_TextReader_ReadIntWithoutSign_i__number_is_too_big_2 result = .ret (bi (decide (G.tooBig result intMax))) := by
  unfold g_TextReader_ReadIntWithoutSign_i__number_is_too_big_2 G.tooBig intMax
  simp only [conv_tU', cgt]
  have hiff : ((result : Int) > 2147483647 % 4294967296) ↔ (result > 2147483647) := by omega
  simp only [bi, hiff, decide_eq_true_eq]

theorem C02_gen_tooBig_u (result : Nat) :
    g_TextReader_ReadIntWithoutSign_u__number_is_too_big_2 result = .ret (bi (decide (G.tooBig result (2 ^ 32 - 1)))) := by
  unfold g_TextReader_ReadIntWithoutSign_u__number_is_too_big_2 G.tooBig
  simp only [cgt]
  have hiff : ((result : Int) > 4294967295) ↔ (result > 2 ^ 32 - 1) := by omega
  simp only [bi, hiff, decide_eq_true_eq]

theorem C02_gen_tooBig_ul (result : Nat) :
    g_TextReader_ReadIntWithoutSign_ul__number_is_too_big_2 result = .ret (bi (decide (G.tooBig result (2 ^ 64 - 1)))) := by
  unfold g_TextReader_ReadIntWithoutSign_ul__number_is_too_big_2 G.tooBig
  simp only [cgt]
  have hiff : ((result : Int) > 18446744073709551615) ↔ (result > 2 ^ 64 - 1) := by omega
  simp only [bi, hiff, decide_eq_true_eq]

theorem C02_gen_tooBig_us (result : Nat) (hr : result < 65536) :
    g_TextReader_ReadIntWithoutSign_us__number_is_too_big_2 result = .ret (bi (decide (G.tooBig result (2 ^ 16 - 1)))) := by
  unfold g_TextReader_ReadIntWithoutSign_us__number_is_too_big_2 G.tooBig
  simp only []
  rw [conv_tI_small (result : Int) (by omega) (by omega), conv_tI_small 65535 (by omega) (by omega)]
  simp only [cgt]
  have hiff : ((result : Int) > 65535) ↔ (result > 2 ^ 16 - 1) := by omega
  simp only [bi, hiff, decide_eq_true_eq]

/-- `DoReadOptionalInt<int>`: `result > max && !(sign == '-' && result == max + 1)` -/
theorem C02_gen_signedTooBig_i (result : Nat) (sign : UInt8) (hr : result < 4294967296) :
    g_TextReader_DoReadOptionalInt_i__number_is_too_big (asChar sign) result
      = .ret (bi (G.signedTooBig result (2 ^ (32 - 1) - 1) sign)) := by
  unfold g_TextReader_DoReadOptionalInt_i__number_is_too_big G.signedTooBig
  simp only []
  rw [conv_tI_char, conv_tI_small 45 (by omega) (by omega)]
  simp only [conv_tU', cadd, arith_tU]
  have hm := asChar_eq sign 45 (by omega)
  have e1 : (2147483647 % 4294967296 : Int) = 2147483647 := by omega
  have e2 : ((2147483647 + 1 % 4294967296) % 4294967296 : Int) = 2147483648 := by omega
  have e3 : (2 : Nat) ^ (32 - 1) - 1 = 2147483647 := by omega
  rw [e1, e2, e3]
  by_cases h1 : result > 2147483647
  · have h1' : (result : Int) > 2147483647 := by omega
    by_cases hs : sign = 45
    · subst hs
      have e : asChar 45 = 45 := by decide
      by_cases h2 : result = 2147483648
      · subst h2; simp [e, cand, cgt, ceq, cnot, tobool, bi]
      · have : ¬ (result : Int) = 2147483648 := by omega
        simp [e, h1, h1', this, h2, cand, cgt, ceq, cnot, tobool, bi]
    · have h' : ¬ asChar sign = 45 := fun e => hs (by simpa using hm.mp e)
      simp [h1, h1', hs, h', cand, cgt, ceq, cnot, tobool, bi]
  · have h1' : ¬ (result : Int) > 2147483647 := by omega
    simp [h1, h1', cand, cgt, bi]

/-- `DoReadOptionalInt<short>` -/
theorem C02_gen_signedTooBig_s (result : Nat) (sign : UInt8) (hr : result < 65536) :
    g_TextReader_DoReadOptionalInt_s__number_is_too_big (asChar sign) result
      = .ret (bi (G.signedTooBig result (2 ^ (16 - 1) - 1) sign)) := by
  unfold g_TextReader_DoReadOptionalInt_s__number_is_too_big G.signedTooBig
  simp only []
  rw [conv_tI_char, conv_tI_small 45 (by omega) (by omega), conv_tI_small (result : Int) (by omega) (by omega)]
  simp only [conv_tUS', cadd]
  have e1 : (32767 % 65536 : Int) = 32767 := by omega
  have e3 : (2 : Nat) ^ (16 - 1) - 1 = 32767 := by omega
  rw [e1, e3, conv_tI_small 32767 (by omega) (by omega), arith_tI' (32767 + 1) (by omega) (by omega)]
  have hm := asChar_eq sign 45 (by omega)
  by_cases h1 : result > 32767
  · have h1' : (result : Int) > 32767 := by omega
    by_cases hs : sign = 45
    · subst hs
      have e : asChar 45 = 45 := by decide
      by_cases h2 : result = 32768
      · subst h2; simp [e, cand, cgt, ceq, cnot, tobool, bi]
      · have : ¬ (result : Int) = 32768 := by omega
        simp [e, h1, h1', this, h2, cand, cgt, ceq, cnot, tobool, bi]
    · have h' : ¬ asChar sign = 45 := fun e => hs (by simpa using hm.mp e)
      simp [h1, h1', hs, h', cand, cgt, ceq, cnot, tobool, bi]
  · have h1' : ¬ (result : Int) > 32767 := by omega
    simp [h1, h1', cand, cgt, bi]

end MpVerif.C02

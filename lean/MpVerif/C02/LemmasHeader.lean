import MpVerif.C02.ModelCheck
import MpVerif.C02.LemmasSites
/-!
# C02 lemmas: an accepted header declares an index space that fits `int`

`ReadHeader` reads the five common-expression counts with `ReadUInt(int &accumulator)`: the accumulator
starts at `num_vars` and is updated by every count, so that `num_vars + Σ counts ≤ INT_MAX` for every
header that is accepted.  `NLReader::Read` relies on it (`num_vars_and_exprs_` is computed in `int`).
-/
namespace MpVerif.C02

/-- every normal result of `f` satisfies `Q` -/
structure LPost (f : L α) (Q : α → Prop) : Prop where
  h : ∀ r a r', f r = .ok a r' → Q a

theorem bind_ok {x : L α} {f : α → L β} {r : RState} {b : β} {r2 : RState}
    (h : (x >>= f) r = .ok b r2) : ∃ a r1, x r = .ok a r1 ∧ f a r1 = .ok b r2 := by
  change L.bind x f r = _ at h
  unfold L.bind at h
  cases hx : x r with
  | ok a r1 => rw [hx] at h; exact ⟨a, r1, rfl, h⟩
  | err e => rw [hx] at h; cases h
  | ub u => rw [hx] at h; cases h

theorem lpost_bind {x : L α} {f : α → L β} {Q : β → Prop} (hf : ∀ a, LPost (f a) Q) : LPost (x >>= f) Q := by
  constructor
  intro r b r2 h
  obtain ⟨a, r1, _, h2⟩ := bind_ok h
  exact (hf a).h r1 b r2 h2

theorem lpost_ite {p q : L α} {Q : α → Prop} {cnd : Prop} [Decidable cnd] (h1 : LPost p Q) (h2 : LPost q Q) :
    LPost (if cnd then p else q) Q := by
  by_cases hc : cnd
  · rw [if_pos hc]; exact h1
  · rw [if_neg hc]; exact h2

section
variable (inp : Inp)

theorem lpost_tReport {cls : ErrCls} {Q : α → Prop} : LPost (tReport inp cls : L α) Q := by
  constructor
  intro r a r' h
  unfold tReport tReportAt at h
  split at h <;> cases h

theorem lpost_ub {u : UB} {Q : α → Prop} : LPost (L.ub u : L α) Q := ⟨fun _ _ _ h => by cases h⟩

/-- `ReadUInt(int &accumulator)`: the new accumulator is the old one plus the value, and fits `int` -/
theorem tReadUIntAcc_spec (acc : Nat) {r : RState} {v acc' : Nat} {r' : RState}
    (h : tReadUIntAcc inp acc r = .ok (v, acc') r') : acc' = acc + v ∧ acc' ≤ intMax := by
  unfold tReadUIntAcc at h
  obtain ⟨v0, r1, _, h2⟩ := bind_ok h
  split at h2
  · exact absurd h2 (by
      intro h3
      exact (lpost_tReport inp (cls := .ioverflow) (Q := fun _ => False)).h r1 _ _ h3)
  · rename_i hle
    cases h2
    rw [Site.accNext_eq _ _ hle, Site.accValue_eq _ _ hle]
    refine ⟨rfl, ?_⟩
    have : ¬ ((acc : Int) > (intMax : Int) - (v0 : Int)) := hle
    omega

theorem readCommonExprs_spec (h : Header) : LPost (readCommonExprs inp h)
    (fun h' => h'.num_vars = h.num_vars ∧ h'.num_vars_and_exprs ≤ intMax ∧
      h'.num_algebraic_cons = h.num_algebraic_cons ∧ h'.num_logical_cons = h.num_logical_cons) := by
  constructor
  intro r h' r' hr
  unfold readCommonExprs at hr
  obtain ⟨⟨c1, a1⟩, r1, e1, hr⟩ := bind_ok hr
  simp only at hr
  obtain ⟨⟨c2, a2⟩, r2, e2, hr⟩ := bind_ok hr
  simp only at hr
  obtain ⟨⟨c3, a3⟩, r3, e3, hr⟩ := bind_ok hr
  simp only at hr
  obtain ⟨⟨c4, a4⟩, r4, e4, hr⟩ := bind_ok hr
  simp only at hr
  obtain ⟨⟨c5, a5⟩, r5, e5, hr⟩ := bind_ok hr
  simp only at hr
  obtain ⟨_, r6, _, hr⟩ := bind_ok hr
  cases hr
  have s1 := tReadUIntAcc_spec inp _ e1
  have s2 := tReadUIntAcc_spec inp _ e2
  have s3 := tReadUIntAcc_spec inp _ e3
  have s4 := tReadUIntAcc_spec inp _ e4
  have s5 := tReadUIntAcc_spec inp _ e5
  rw [Site.accInit_eq] at s1
  refine ⟨rfl, ?_, rfl, rfl⟩
  simp only [Header.num_vars_and_exprs, Header.num_common_exprs]
  omega

theorem lpost_dite {p q : L α} {Q : α → Prop} {cnd : Prop} [Decidable cnd] (h1 : cnd → LPost p Q) (h2 : ¬cnd → LPost q Q) :
    LPost (if cnd then p else q) Q := by
  by_cases hc : cnd
  · rw [if_pos hc]; exact h1 hc
  · rw [if_neg hc]; exact h2 hc

syntax "pstep" : tactic
macro_rules
  | `(tactic| pstep) => `(tactic| first
      | exact lpost_tReport _ | exact lpost_ub
      | apply lpost_ite | apply lpost_bind | intro _ | split)

/-- an accepted header: `num_vars + (all common expressions) ≤ INT_MAX` -/
theorem readHeader_index_space : LPost (readHeader inp) (fun h => h.num_vars_and_exprs ≤ intMax) := by
  have key : ∀ h0, LPost (readCommonExprs inp h0) (fun h => h.num_vars_and_exprs ≤ intMax) :=
    fun h0 => ⟨fun r a r' hh => ((readCommonExprs_spec inp h0).h r a r' hh).2.1⟩
  unfold readHeader
  repeat (first | exact key _ | pstep)

/-- an accepted header: `num_algebraic_cons + num_logical_cons ≤ INT_MAX` (the item count of constraint
    suffixes, `ConHandler::num_items()`) -/
theorem readHeader_con_space : LPost (readHeader inp) (fun h => h.num_algebraic_cons + h.num_logical_cons ≤ intMax) := by
  have key : ∀ h0, h0.num_algebraic_cons + h0.num_logical_cons ≤ intMax →
      LPost (readCommonExprs inp h0) (fun h => h.num_algebraic_cons + h.num_logical_cons ≤ intMax) := by
    intro h0 hh
    constructor
    intro r a r' hr
    have := (readCommonExprs_spec inp h0).h r a r' hr
    omega
  unfold readHeader
  repeat (first | (apply key; simp only [G.conOverflow, intMax] at *; omega) | exact lpost_tReport _ | exact lpost_ub | apply lpost_dite | apply lpost_bind | intro _ | split)

end
end MpVerif.C02

import MpVerif.C02.ModelEv
import MpVerif.Gen.NLGuards
/-!
# C02 model: the index bounds of the reader, taken from the generated call-site functions

`Gen.NLGuards.site_*` (regenerated from the source on every run) give, for every `NLReader::ReadUInt(ub)` /
`ReadUInt(lb, ub)` call whose bound is a header field, the bound as a function of the header record `Hdr` — the
field is selected by a projection in generated code.  The model's reader calls *these* functions (`Site.*`), so a
bound attached to another field in the source changes the behaviour of the modelled reader, and the lemmas below
(used by the consistency proof) stop holding.
-/
namespace MpVerif.C02
open MpVerif.CSem MpVerif.Gen.NLGuards

/-- `NLHeader`, and `NLReader::num_vars_and_exprs_` as assigned at the start of `NLReader::Read`, as the record the
    generated bound functions read (field-by-field, same names) -/
def hdrOf (h : Header) : Hdr :=
  { m_num_vars_and_exprs := h.num_vars_and_exprs
    m_num_algebraic_cons := h.num_algebraic_cons
    m_num_logical_cons := h.num_logical_cons
    m_num_objs := h.num_objs
    m_num_vars := h.num_vars
    m_num_funcs := h.num_funcs
    m_num_common_exprs_in_both := h.cexprs_both
    m_num_common_exprs_in_cons := h.cexprs_cons
    m_num_common_exprs_in_objs := h.cexprs_objs
    m_num_common_exprs_in_single_cons := h.cexprs_single_cons
    m_num_common_exprs_in_single_objs := h.cexprs_single_objs }

/-- the value of a generated bound expression (`0` for an outcome that is not a value; the bound expressions of the
    reader are unsigned conversions / unsigned additions and always evaluate) -/
def siteVal : Outcome Int → Nat
  | .ret v => v.toNat
  | _ => 0

namespace Site
/-- `C` segment: `ReadUInt(header_.num_algebraic_cons)` -/
def ubC (h : Header) : Nat := siteVal (site_NLReader_Read_1_ub (hdrOf h))
/-- `L` segment -/
def ubL (h : Header) : Nat := siteVal (site_NLReader_Read_2_ub (hdrOf h))
/-- `O` segment -/
def ubO (h : Header) : Nat := siteVal (site_NLReader_Read_3_ub (hdrOf h))
/-- `V` segment: `ReadUInt(header_.num_vars, num_vars_and_exprs_)` -/
def lbV (h : Header) : Nat := siteVal (site_NLReader_Read_4_lb (hdrOf h))
def ubV (h : Header) : Nat := siteVal (site_NLReader_Read_4_ub (hdrOf h))
/-- `F` segment -/
def ubF (h : Header) : Nat := siteVal (site_NLReader_Read_5_ub (hdrOf h))
/-- `DoReadReference`: `ReadUInt(num_vars_and_exprs_)` -/
def ubRef (h : Header) : Nat := siteVal (site_NLReader_DoReadReference_1_ub (hdrOf h))
/-- function call `f`: `ReadUInt(header_.num_funcs)` -/
def ubCall (h : Header) : Nat := siteVal (site_NLReader_ReadNumericExpr_c_b_1_ub (hdrOf h))
/-- linear term variable index: `ReadUInt(header_.num_vars)` -/
def ubTermVar (h : Header) : Nat := siteVal (site_NLReader_ReadLinearExpr_i_1_ub (hdrOf h))
/-- number of linear terms: `ReadUInt(1, header_.num_vars + 1u)` -/
def lbTerms : Nat := siteVal bound_NLReader_ReadLinearExpr_2_lb
def ubTerms (h : Header) : Nat := siteVal (site_NLReader_ReadLinearExpr_2_ub (hdrOf h))
/-- `num_items()` of the item handler `NLReader::Read` instantiates for a segment letter (`G J b r x d`) -/
def itemsSeg (h : Header) (letter : Nat) : Nat := siteVal (itemsOfSegment (hdrOf h) letter)
/-- `num_items()` of the item handler `ReadSuffix` is instantiated with for a suffix kind -/
def itemsSuffix (h : Header) (kind : Nat) : Nat := siteVal (itemsOfSuffixKind (hdrOf h) kind)
/-- `ReadUInt(int &accumulator)`: the caller's variable after the call (generated from the assignments to the parameter;
    unchanged if the parameter is not a reference) -/
def accNext (acc v : Nat) : Nat := siteVal (acc_next acc v)
/-- `ReadUInt(int &accumulator)`: the returned value -/
def accValue (acc v : Nat) : Nat := siteVal (acc_value acc v)
/-- `ReadHeader`: `int max_vars = header.num_vars`, the variable the five common-expression counts are accumulated in -/
def accInit (h : Header) : Nat := siteVal (acc_init (hdrOf h))
end Site

-- outside these definitions the site bounds are not unfolded by unification (their content is used only through the lemmas
-- above and the `C02_gen_site_*` theorems); they still compute in the driver
attribute [irreducible] Site.ubC Site.ubL Site.ubO Site.lbV Site.ubV Site.ubF Site.ubRef Site.ubCall Site.ubTermVar
  Site.lbTerms Site.ubTerms Site.itemsSeg Site.itemsSuffix Site.accNext Site.accValue Site.accInit

/-- `TextReader::ReadUInt(int &accumulator)`: returns the value read and the new value of the caller's variable; both are
    the generated `acc_value` / `acc_next` (data flow of the C++ function body), the guard is `G.accOverflow` -/
def tReadUIntAcc (inp : Inp) (acc : Nat) : L (Nat × Nat) := do
  let v ← tReadUInt inp
  if G.accOverflow acc v then tReport inp .ioverflow
  else pure (Site.accValue acc v, Site.accNext acc v)

end MpVerif.C02

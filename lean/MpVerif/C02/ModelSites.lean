import MpVerif.C02.ModelEv
import MpVerif.Gen.NLGuards
/-!
# C02 model: the index bounds of the reader, taken from the generated call-site functions

`Gen.NLGuards.site_*` (regenerated from the source on every run) give, for every `NLReader::ReadUInt(ub)` /
`ReadUInt(lb, ub)` call whose bound is a header field, the bound as a function of the header record `Hdr` — the
field is selected by a projection in generated code.  The model's reader calls *these* functions (`Site.*`), so a
bound attached to another field in the source changes the behaviour of the modelled reader, and the lemmas below
(used by the consistency proof) stop holding.
-/
namespace MpVerif.C02
open MpVerif.CSem MpVerif.Gen.NLGuards

/-- `NLHeader`, and `NLReader::num_vars_and_exprs_` as assigned at the start of `NLReader::Read`, as the record the
    generated bound functions read (field-by-field, same names) -/
def hdrOf (h : Header) : Hdr :=
  { m_num_vars_and_exprs := h.num_vars_and_exprs
    m_num_algebraic_cons := h.num_algebraic_cons
    m_num_logical_cons := h.num_logical_cons
    m_num_objs := h.num_objs
    m_num_vars := h.num_vars
    m_num_funcs := h.num_funcs
    m_num_common_exprs_in_both := h.cexprs_both
    m_num_common_exprs_in_cons := h.cexprs_cons
    m_num_common_exprs_in_objs := h.cexprs_objs
    m_num_common_exprs_in_single_cons := h.cexprs_single_cons
    m_num_common_exprs_in_single_objs := h.cexprs_single_objs }

/-- the value of a generated bound expression (`0` for an outcome that is not a value; the bound expressions of the
    reader are unsigned conversions / unsigned additions and always evaluate) -/
def siteVal : Outcome Int → Nat
  | .ret v => v.toNat
  | _ => 0

namespace Site
/-- `C` segment: `ReadUInt(header_.num_algebraic_cons)` -/
def ubC (h : Header) : Nat := siteVal (site_NLReader_Read_1_ub (hdrOf h))
/-- `L` segment -/
def ubL (h : Header) : Nat := siteVal (site_NLReader_Read_2_ub (hdrOf h))
/-- `O` segment -/
def ubO (h : Header) : Nat := siteVal (site_NLReader_Read_3_ub (hdrOf h))
/-- `V` segment: `ReadUInt(header_.num_vars, num_vars_and_exprs_)` -/
def lbV (h : Header) : Nat := siteVal (site_NLReader_Read_4_lb (hdrOf h))
def ubV (h : Header) : Nat := siteVal (site_NLReader_Read_4_ub (hdrOf h))
/-- `F` segment -/
def ubF (h : Header) : Nat := siteVal (site_NLReader_Read_5_ub (hdrOf h))
/-- `DoReadReference`: `ReadUInt(num_vars_and_exprs_)` -/
def ubRef (h : Header) : Nat := siteVal (site_NLReader_DoReadReference_1_ub (hdrOf h))
/-- function call `f`: `ReadUInt(header_.num_funcs)` -/
def ubCall (h : Header) : Nat := siteVal (site_NLReader_ReadNumericExpr_c_b_1_ub (hdrOf h))
/-- linear term variable index: `ReadUInt(header_.num_vars)` -/
def ubTermVar (h : Header) : Nat := siteVal (site_NLReader_ReadLinearExpr_i_1_ub (hdrOf h))
/-- number of linear terms: `ReadUInt(1, header_.num_vars + 1u)` -/
def lbTerms : Nat := siteVal bound_NLReader_ReadLinearExpr_2_lb
def ubTerms (h : Header) : Nat := siteVal (site_NLReader_ReadLinearExpr_2_ub (hdrOf h))
end Site

theorem siteVal_conv (x : Nat) : siteVal (.ret (conv tU (x : Int))) = x % 4294967296 := by
  have : conv tU (x : Int) = (x : Int) % 4294967296 := by simp [conv, tU, CTy.wrap]
  simp only [siteVal, this]
  omega

/-! what the consistency proof needs: every bound is at most the header field it is meant to be -/

theorem Site.ubC_le (h : Header) : Site.ubC h ≤ h.num_algebraic_cons := by
  have := siteVal_conv h.num_algebraic_cons
  simp only [Site.ubC, site_NLReader_Read_1_ub, bound_NLReader_Read_1_ub, hdrOf]; omega
theorem Site.ubL_le (h : Header) : Site.ubL h ≤ h.num_logical_cons := by
  have := siteVal_conv h.num_logical_cons
  simp only [Site.ubL, site_NLReader_Read_2_ub, bound_NLReader_Read_2_ub, hdrOf]; omega
theorem Site.ubO_le (h : Header) : Site.ubO h ≤ h.num_objs := by
  have := siteVal_conv h.num_objs
  simp only [Site.ubO, site_NLReader_Read_3_ub, bound_NLReader_Read_3_ub, hdrOf]; omega
theorem Site.ubF_le (h : Header) : Site.ubF h ≤ h.num_funcs := by
  have := siteVal_conv h.num_funcs
  simp only [Site.ubF, site_NLReader_Read_5_ub, bound_NLReader_Read_5_ub, hdrOf]; omega
theorem Site.ubCall_le (h : Header) : Site.ubCall h ≤ h.num_funcs := by
  have := siteVal_conv h.num_funcs
  simp only [Site.ubCall, site_NLReader_ReadNumericExpr_c_b_1_ub, bound_NLReader_ReadNumericExpr_c_b_1_ub, hdrOf]; omega
theorem Site.ubRef_le (h : Header) : Site.ubRef h ≤ h.num_vars_and_exprs := by
  have := siteVal_conv h.num_vars_and_exprs
  simp only [Site.ubRef, site_NLReader_DoReadReference_1_ub, bound_NLReader_DoReadReference_1_ub, hdrOf]; omega
theorem Site.ubTermVar_le (h : Header) : Site.ubTermVar h ≤ h.num_vars := by
  have := siteVal_conv h.num_vars
  simp only [Site.ubTermVar, site_NLReader_ReadLinearExpr_i_1_ub, bound_NLReader_ReadLinearExpr_i_1_ub, hdrOf]; omega
theorem Site.lbTerms_eq : Site.lbTerms = 1 := by decide
theorem Site.ubTerms_le (h : Header) : Site.ubTerms h ≤ h.num_vars + 1 := by
  have e : conv tU (h.num_vars : Int) = (h.num_vars : Int) % 4294967296 := by simp [conv, tU, CTy.wrap]
  simp only [Site.ubTerms, site_NLReader_ReadLinearExpr_2_ub, bound_NLReader_ReadLinearExpr_2_ub, hdrOf, cadd, arith, e]
  simp only [tU, CTy.wrap, Bool.false_eq_true, ↓reduceIte, siteVal]
  omega
/-- `V` segment: an index accepted between the two bounds denotes a declared common expression -/
theorem Site.V_index (h : Header) (idx : Nat) (h1 : Site.lbV h ≤ idx) (h2 : idx < Site.ubV h) :
    idx - h.num_vars < h.num_common_exprs := by
  have a := siteVal_conv h.num_vars
  have b := siteVal_conv h.num_vars_and_exprs
  simp only [Site.lbV, Site.ubV, site_NLReader_Read_4_lb, site_NLReader_Read_4_ub, bound_NLReader_Read_4_lb,
    bound_NLReader_Read_4_ub, hdrOf] at h1 h2
  simp only [Header.num_vars_and_exprs] at b h2
  omega

-- outside this file the site bounds are not unfolded by unification (their content is used only through the lemmas
-- above and the `C02_gen_site_*` theorems); they still compute in the driver
attribute [irreducible] Site.ubC Site.ubL Site.ubO Site.lbV Site.ubV Site.ubF Site.ubRef Site.ubCall Site.ubTermVar
  Site.lbTerms Site.ubTerms

end MpVerif.C02

import MpVerif.C02.LemmasTop
import MpVerif.C02.LemmasIn
/-!
# C02 lemmas: the parser never dereferences the cursor past the terminating NUL

`S len p` : started with the cursor inside the buffer, `p` never reaches a `ub` outcome and ends with the
cursor inside the buffer.  `SC len c p` : the same for a continuation of `ReadChar` that returned `c`
(cursor at most one past the NUL, and inside the buffer if `c ≠ 0`).
-/
namespace MpVerif.C02
open MpVerif.Gen.Opcodes

def PSafe (p : P α) (s : PState) (Q : α → PState → Prop) : Prop :=
  match p s with
  | .ok a s' => Q a s'
  | .err _ _ => True
  | .ub _ _ => False
  | .fuel => True

theorem psafe_bind {p : P α} {f : α → P β} {s : PState} {Q : β → PState → Prop}
    (hp : PSafe p s (fun a s' => PSafe (f a) s' Q)) : PSafe (p >>= f) s Q := by
  unfold PSafe at *
  show (match P.bind p f s with | .ok a s' => Q a s' | .err _ _ => True | .ub _ _ => False | .fuel => True)
  unfold P.bind
  cases hps : p s <;> simp_all

theorem psafe_mono {p : P α} {s : PState} {Q Q' : α → PState → Prop}
    (hp : PSafe p s Q) (hq : ∀ a s', Q a s' → Q' a s') : PSafe p s Q' := by
  unfold PSafe at *
  cases hps : p s <;> simp_all

structure S (len : Nat) (p : P α) : Prop where
  h : ∀ s, s.r.pos ≤ len → PSafe p s (fun _ s' => s'.r.pos ≤ len)

structure SC (len : Nat) (c : UInt8) (p : P α) : Prop where
  h : ∀ s, s.r.pos ≤ len + 1 → (c ≠ 0 → s.r.pos ≤ len) → PSafe p s (fun _ s' => s'.r.pos ≤ len)

section
variable {len : Nat}

theorem S_pure {a : α} : S len (pure a : P α) := ⟨fun _ hs => hs⟩
theorem S_emit {e : Ev} : S len (emit e) := ⟨fun _ hs => hs⟩

theorem fail_psafe {cx : Env} {cls : ErrCls} (s : PState) (Q : α → PState → Prop) :
    PSafe (fail cx cls : P α) s Q := by
  unfold PSafe fail lift
  cases hf : rReport cx.inp cx.k cls s.r with
  | ok a r' => exact absurd hf (rReport_not_ok _ _ _ _ a r')
  | err e => trivial
  | ub u =>
    exfalso
    cases hk : cx.k <;> simp [rReport, hk, tReport, tReportAt, bReport] at hf
    split at hf <;> cases hf

theorem S_fail {cx : Env} {cls : ErrCls} : S len (fail cx cls : P α) := ⟨fun s _ => fail_psafe s _⟩
theorem SC_fail {cx : Env} {cls : ErrCls} {c : UInt8} : SC len c (fail cx cls : P α) := ⟨fun s _ _ => fail_psafe s _⟩

theorem S_lift {f : L α} (hf : LSafe len f) : S len (lift f) := by
  constructor
  intro s hs
  unfold PSafe lift
  cases hfs : f s.r with
  | ok a r => exact hf.ok s.r hs a r hfs
  | err e => trivial
  | ub u => exact hf.noub s.r hs u hfs

theorem S_bind {p : P α} {f : α → P β} (hp : S len p) (hf : ∀ a, S len (f a)) : S len (p >>= f) := by
  constructor
  intro s hs
  apply psafe_bind
  exact psafe_mono (hp.h s hs) (fun a s' h' => (hf a).h s' h')

theorem SC_bind {c : UInt8} {p : P α} {f : α → P β} (hp : SC len c p) (hf : ∀ a, S len (f a)) :
    SC len c (p >>= f) := by
  constructor
  intro s hs hc
  apply psafe_bind
  exact psafe_mono (hp.h s hs hc) (fun a s' h' => (hf a).h s' h')

theorem S_ite {p q : P α} {cnd : Prop} [Decidable cnd] (h1 : S len p) (h2 : S len q) :
    S len (if cnd then p else q) := by
  by_cases hc : cnd
  · rw [if_pos hc]; exact h1
  · rw [if_neg hc]; exact h2

/-- after `ReadChar` returned `c`: a branch whose condition implies `c ≠ 0` runs inside the buffer -/
theorem SC_ite {c : UInt8} {p q : P α} {cnd : Prop} [Decidable cnd] (hne : cnd → c ≠ 0)
    (h1 : S len p) (h2 : SC len c q) : SC len c (if cnd then p else q) := by
  by_cases hc : cnd
  · rw [if_pos hc]
    exact ⟨fun s _ h => h1.h s (h (hne hc))⟩
  · rw [if_neg hc]; exact h2

/-- the same when the `else` branch is the one that knows `c ≠ 0` -/
theorem SC_ite_neg {c : UInt8} {p q : P α} {cnd : Prop} [Decidable cnd] (hne : ¬cnd → c ≠ 0)
    (h1 : SC len c p) (h2 : S len q) : SC len c (if cnd then p else q) := by
  by_cases hc : cnd
  · rw [if_pos hc]; exact h1
  · rw [if_neg hc]
    exact ⟨fun s _ h => h2.h s (h (hne hc))⟩

theorem S_forN {body : Nat → P Unit} (hb : ∀ j, S len (body j)) (n i : Nat) : S len (forN n i body) := by
  induction n generalizing i with
  | zero => exact S_pure
  | succ n ih => exact S_bind (hb i) (fun _ => ih (i + 1))

/-- `ReadChar` followed by a continuation that is safe given what `ReadChar` guarantees -/
theorem S_rdChar_bind {cx : Env} {f : UInt8 → P β} (hlen : len = cx.inp.len) (hf : ∀ c, SC len c (f c)) :
    S len (rdChar cx >>= f) := by
  constructor
  intro s hs
  apply psafe_bind
  unfold PSafe rdChar lift readChar
  subst hlen
  have h1 : ¬ s.r.pos > cx.inp.len := by omega
  simp only [h1, ↓reduceIte]
  refine (hf _).h _ (by simp; omega) ?_
  intro hc
  simp only
  have := lt_of_ne0 cx.inp.rd_zero hc
  omega

end

/-! ### the reader functions -/

section
variable {cx : Env} (ps : PrimSafe cx.inp cx.k)
include ps

theorem S_rdUInt : S cx.inp.len (rdUInt cx) := S_lift ps.uint
theorem S_rdInt (b : Nat) : S cx.inp.len (rdInt cx b) := S_lift (ps.int b)
theorem S_rdDouble : S cx.inp.len (rdDouble cx) := S_lift ps.dbl
theorem S_rdString : S cx.inp.len (rdString cx) := S_lift ps.str
theorem S_rdName : S cx.inp.len (rdName cx) := S_lift ps.name
theorem S_eol : S cx.inp.len (eol cx) := S_lift ps.eol

/-- discharge `cnd → c ≠ 0` where `cnd` compares `c` with non-zero literals -/
syntax "nz" : tactic
macro_rules
  | `(tactic| nz) => `(tactic| (intro h_ h0_; subst h0_; simp at h_))

syntax "sstep" : tactic
macro_rules
  | `(tactic| sstep) => `(tactic| first
      | exact S_pure | exact S_emit | exact S_fail | exact SC_fail
      | exact S_rdUInt (by assumption) | exact S_rdInt (by assumption) _ | exact S_rdDouble (by assumption)
      | exact S_rdString (by assumption) | exact S_rdName (by assumption) | exact S_eol (by assumption)
      | assumption
      | apply S_rdChar_bind rfl
      | (apply SC_ite; case hne => nz) | (apply SC_ite_neg; case hne => nz)
      | apply S_bind | apply SC_bind | apply S_ite | apply S_forN | intro _)

theorem S_readUIntUB (ub : Nat) : S cx.inp.len (readUIntUB cx ub) := by unfold readUIntUB; repeat sstep
theorem S_readUIntLU (lb ub : Nat) : S cx.inp.len (readUIntLU cx lb ub) := by unfold readUIntLU; repeat sstep
theorem S_readNumArgs (m : Nat) : S cx.inp.len (readNumArgs cx m) := by unfold readNumArgs; repeat sstep
theorem S_readOpCode : S cx.inp.len (readOpCode cx) := by unfold readOpCode; repeat sstep

theorem SC_readConstant (c : UInt8) : SC cx.inp.len c (readConstant cx c) := by
  unfold readConstant
  repeat sstep

theorem S_doReadReference : S cx.inp.len (doReadReference cx) := by
  unfold doReadReference
  have := S_readUIntUB ps (Site.ubRef cx.h)
  repeat sstep

theorem S_readReference : S cx.inp.len (readReference cx) := by
  unfold readReference
  have := S_doReadReference ps
  repeat sstep

variable {rec : Mode → P Unit} (hrec : ∀ m, S cx.inp.len (rec m))
include hrec

theorem S_readCountExpr : S cx.inp.len (readCountExpr cx rec) := by
  unfold readCountExpr
  have := S_readNumArgs ps 1
  have h1 := hrec .log
  repeat sstep

theorem S_readNumericOp (op : Nat) : S cx.inp.len (readNumericOp cx rec op) := by
  unfold readNumericOp
  have a1 := S_readNumArgs ps 1
  have a3 := S_readNumArgs ps 3
  have h1 := hrec .log
  have h2 := hrec (.num false)
  have h3 := hrec .sym
  have hc := S_readCountExpr ps hrec
  have hr := S_readReference ps
  have hk := fun c => SC_readConstant ps c
  simp only []
  repeat (first | exact hk _ | sstep)

theorem SC_readNumericC (code : UInt8) (iz : Bool) : SC cx.inp.len code (readNumericC cx rec code iz) := by
  unfold readNumericC
  have h3 := hrec .sym
  have := S_readUIntUB ps (Site.ubCall cx.h)
  have := S_readOpCode ps
  have := S_doReadReference ps
  have hn := fun op => S_readNumericOp ps hrec op
  have hk := SC_readConstant ps code
  repeat (first | exact hn _ | sstep)

theorem S_readLogicalOp (op : Nat) : S cx.inp.len (readLogicalOp cx rec op) := by
  unfold readLogicalOp
  have a1 := S_readNumArgs ps 1
  have a3 := S_readNumArgs ps 3
  have h1 := hrec .log
  have h2 := hrec (.num false)
  have hc := S_readCountExpr ps hrec
  have := S_readOpCode ps
  simp only []
  repeat sstep

end

section
variable {cx : Env} (ps : PrimSafe cx.inp cx.k)
include ps

theorem S_readExpr : ∀ (fuel : Nat) (m : Mode), S cx.inp.len (readExpr cx fuel m) := by
  intro fuel
  induction fuel with
  | zero => intro m; cases m <;> exact ⟨fun _ _ => trivial⟩
  | succ fuel ih =>
    intro m
    have hop := S_readOpCode ps
    have hn := fun op => S_readNumericOp ps ih op
    have hl := fun op => S_readLogicalOp ps ih op
    have hc := fun c iz => SC_readNumericC ps ih c iz
    have hk := fun c => SC_readConstant ps c
    have h1 := ih .log
    have h3 := ih .sym
    cases m with
    | sym => unfold readExpr; repeat (first | exact hn _ | exact hc _ _ | sstep)
    | num iz => unfold readExpr; repeat (first | exact hc _ _ | sstep)
    | log => unfold readExpr; repeat (first | exact hl _ | exact hk _ | sstep)

theorem S_readLinearTerms (n : Nat) (silent : Bool) : S cx.inp.len (readLinearTerms cx n silent) := by
  unfold readLinearTerms
  have := S_readUIntUB ps (Site.ubTermVar cx.h)
  repeat sstep

theorem S_readLinearExpr (isObj : Bool) : S cx.inp.len (readLinearExpr cx isObj) := by
  unfold readLinearExpr
  have := fun ub => S_readUIntUB ps ub
  have h2 := S_readUIntLU ps Site.lbTerms (Site.ubTerms cx.h)
  have h3 := fun n b => S_readLinearTerms ps n b
  repeat (first | exact this _ | exact h3 _ _ | sstep)

theorem S_readBounds (isCon : Bool) : S cx.inp.len (readBounds cx isCon) := by
  unfold readBounds
  simp only []
  repeat sstep

theorem S_colLoop (cum : Bool) : ∀ n prev, S cx.inp.len (readColumnSizes.loop cx cum n prev) := by
  intro n
  induction n with
  | zero => intro prev; unfold readColumnSizes.loop; exact S_pure
  | succ n ih =>
    intro prev
    unfold readColumnSizes.loop
    have := ih
    repeat (first | exact this _ | sstep)

theorem S_readColumnSizes (cum : Bool) : S cx.inp.len (readColumnSizes cx cum) := by
  unfold readColumnSizes
  have := S_colLoop ps cum
  repeat (first | exact this _ _ | sstep)

theorem S_readInitialValues (isCon : Bool) : S cx.inp.len (readInitialValues cx isCon) := by
  unfold readInitialValues
  have := fun ub => S_readUIntUB ps ub
  simp only []
  repeat (first | exact this _ | sstep)

theorem S_readSuffix : S cx.inp.len (readSuffix cx) := by
  unfold readSuffix
  have := fun ub => S_readUIntUB ps ub
  have h2 := fun a b => S_readUIntLU ps a b
  simp only []
  repeat (first | exact this _ | exact h2 _ _ | sstep)

theorem S_readSegment (ch : UInt8) : S cx.inp.len (readSegment cx ch) := by
  unfold readSegment
  have := fun ub => S_readUIntUB ps ub
  have h2 := fun a b => S_readUIntLU ps a b
  have h3 := fun n b => S_readLinearTerms ps n b
  have h4 := fun m => S_readExpr ps (exprFuel cx) m
  have h5 := fun b => S_readLinearExpr ps b
  have h6 := S_readSuffix ps
  have h7 := fun b => S_readBounds ps b
  have h8 := fun b => S_readColumnSizes ps b
  have h9 := fun b => S_readInitialValues ps b
  simp only []
  repeat (first | exact this _ | exact h2 _ _ | exact h3 _ _ | exact h4 _ | exact h5 _ | exact h7 _ | exact h8 _ | exact h9 _ | sstep)

/-- the segment loop: no UB; when it returns in the first pass of READ_BOUNDS_FIRST the cursor is inside
    the buffer (so the second pass may resume there) -/
theorem readLoop_safe : ∀ (fuel : Nat) (rb : Bool) (br : Option RState) (s : PState),
    s.r.pos ≤ cx.inp.len → (∀ r, br = some r → r.pos ≤ cx.inp.len) →
    PSafe (readLoop cx fuel rb br) s (fun _ s' => rb = true → cx.flags % 2 = 1 → s'.r.pos ≤ cx.inp.len) := by
  intro fuel
  induction fuel with
  | zero => intro rb br s _ _; trivial
  | succ fuel ih =>
    intro rb br s hs hbr
    unfold readLoop
    apply psafe_bind
    unfold PSafe rdChar lift readChar
    have h1 : ¬ s.r.pos > cx.inp.len := by omega
    simp only [h1, ↓reduceIte]
    generalize hs1 : ({ r := { pos := s.r.pos + 1, tok := s.r.pos, lineStart := s.r.lineStart, line := s.r.line }, evs := s.evs } : PState) = s1
    have hpos1 : s1.r.pos ≤ cx.inp.len + 1 := by rw [← hs1]; simp; omega
    have hin1 : cx.inp.rd s.r.pos ≠ 0 → s1.r.pos ≤ cx.inp.len := by
      intro hc; rw [← hs1]; simp only
      have := lt_of_ne0 cx.inp.rd_zero hc; omega
    generalize cx.inp.rd s.r.pos = c at hin1
    show PSafe _ s1 _
    by_cases hb : (c == 98) = true
    · rw [if_pos hb]
      have hin : s1.r.pos ≤ cx.inp.len := hin1 (by intro h0; subst h0; simp at hb)
      by_cases hrb : rb = true
      · rw [if_pos hrb]
        apply psafe_bind
        apply psafe_mono ((S_readBounds ps false).h s1 hin)
        intro _ s2 h2
        by_cases hfl : (cx.flags % 2 == 1) = true
        · rw [if_pos hfl]; exact fun _ _ => h2
        · rw [if_neg hfl]
          apply psafe_mono (ih false br s2 h2 hbr)
          intro _ s3 _ _ hodd
          exfalso; apply hfl; simp [hodd]
      · rw [if_neg hrb]
        cases br with
        | none => exact fail_psafe s1 _
        | some r =>
          simp only
          show PSafe (P.bind (setR r) (fun _ => readLoop cx fuel false none)) s1 _
          unfold P.bind setR
          simp only
          apply psafe_mono (ih false none _ (hbr r rfl) (fun _ h => by cases h))
          intro _ s3 _ hrb'
          exact absurd hrb' hrb
    · rw [if_neg hb]
      by_cases hz : (c == 0) = true
      · rw [if_pos hz]
        show PSafe (if (s1.r.pos == cx.inp.len + 1) = true then (if rb = true then fail cx .nob else pure ()) else fail cx .segment) s1 _
        by_cases he : (s1.r.pos == cx.inp.len + 1) = true
        · rw [if_pos he]
          by_cases hrb : rb = true
          · rw [if_pos hrb]; exact fail_psafe s1 _
          · rw [if_neg hrb]
            show (rb = true → _)
            intro hrb'; exact absurd hrb' hrb
        · rw [if_neg he]; exact fail_psafe s1 _
      · rw [if_neg hz]
        have hin : s1.r.pos ≤ cx.inp.len := hin1 (by intro h0; subst h0; simp at hz)
        apply psafe_bind
        apply psafe_mono ((S_readSegment ps c).h s1 hin)
        intro _ s2 h2
        exact ih rb br s2 h2 hbr

end

/-! ### ReadHeader -/

section
variable (inp : Inp)

theorem readOptions_safe : ∀ (n i : Nat) (opts : List Int), LSafe inp.len (readOptions inp n i opts) := by
  intro n
  induction n with
  | zero => intro i opts; unfold readOptions; exact lsafe_pure
  | succ n ih =>
    intro i opts
    unfold readOptions
    refine lsafe_bind (tReadOptionalDouble_safe inp) (fun o => ?_)
    cases o with
    | none => exact lsafe_pure
    | some tmp =>
      simp only
      split
      · exact lsafe_pure
      · split
        · exact ih _ _
        · exact lsafe_pure

syntax "lstep" : tactic
macro_rules
  | `(tactic| lstep) => `(tactic| first
      | exact lsafe_pure | exact tReport_safe _ | exact tReadOptionalUInt_safe _ | exact tReadOptionalDouble_safe _
      | exact tReadTillEndOfLine_safe _ | exact tReadUInt_safe _ | exact tReadUIntSize_safe _
      | exact tReadUIntAcc_safe _ _ | exact readOptions_safe _ _ _ _
      | apply lsafe_bind | apply lsafe_ite | intro _ | split)

theorem readHeader_safe : LSafe inp.len (readHeader inp) := by
  unfold readHeader
  -- ReadChar, then the format letter: a normal continuation implies the byte was 'g' or 'b', hence not NUL
  have key : ∀ (rest : Nat → L Header), (∀ fmt, LSafe inp.len (rest fmt)) →
      LSafe inp.len (readChar inp >>= fun c =>
        (if (c == 103) = true then pure 0 else if (c == 98) = true then pure 1 else tReport inp .format : L Nat) >>= rest) := by
    intro rest hrest
    have body : ∀ r, r.pos ≤ inp.len →
        (∀ a r', (readChar inp >>= fun c =>
          (if (c == 103) = true then pure 0 else if (c == 98) = true then pure 1 else tReport inp .format : L Nat) >>= rest) r = .ok a r' → r'.pos ≤ inp.len) ∧
        (∀ u, (readChar inp >>= fun c =>
          (if (c == 103) = true then pure 0 else if (c == 98) = true then pure 1 else tReport inp .format : L Nat) >>= rest) r ≠ .ub u) := by
      intro r hr
      have hg : ¬ r.pos > inp.len := by omega
      have e : (readChar inp >>= fun c =>
          (if (c == 103) = true then pure 0 else if (c == 98) = true then pure 1 else tReport inp .format : L Nat) >>= rest) r
          = ((if (inp.rd r.pos == 103) = true then pure 0 else if (inp.rd r.pos == 98) = true then pure 1 else tReport inp .format : L Nat) >>= rest)
              { r with tok := r.pos, pos := r.pos + 1 } := by
        show L.bind (readChar inp) _ r = _
        unfold L.bind readChar
        simp only [hg, ↓reduceIte]
      rw [e]
      by_cases h1 : (inp.rd r.pos == 103) = true
      · have hlt := lt_of_ne0 inp.rd_zero (beq_ne0 (by decide) h1)
        rw [if_pos h1]
        have e2 : ((pure 0 : L Nat) >>= rest) { r with tok := r.pos, pos := r.pos + 1 } = rest 0 { r with tok := r.pos, pos := r.pos + 1 } := rfl
        rw [e2]
        exact ⟨(hrest 0).ok _ (by simp; omega), (hrest 0).noub _ (by simp; omega)⟩
      · rw [if_neg h1]
        by_cases h2 : (inp.rd r.pos == 98) = true
        · have hlt := lt_of_ne0 inp.rd_zero (beq_ne0 (by decide) h2)
          rw [if_pos h2]
          have e2 : ((pure 1 : L Nat) >>= rest) { r with tok := r.pos, pos := r.pos + 1 } = rest 1 { r with tok := r.pos, pos := r.pos + 1 } := rfl
          rw [e2]
          exact ⟨(hrest 1).ok _ (by simp; omega), (hrest 1).noub _ (by simp; omega)⟩
        · rw [if_neg h2]
          constructor
          · intro a r' h
            change L.bind (tReport inp .format) rest _ = _ at h
            unfold L.bind at h
            generalize hres : (tReport inp .format : L Nat) { r with tok := r.pos, pos := r.pos + 1 } = res at h
            unfold tReport tReportAt at hres
            simp only at hres
            split at hres <;> subst hres <;> cases h
          · intro u h
            change L.bind (tReport inp .format) rest _ = _ at h
            unfold L.bind at h
            generalize hres : (tReport inp .format : L Nat) { r with tok := r.pos, pos := r.pos + 1 } = res at h
            unfold tReport tReportAt at hres
            simp only at hres
            split at hres <;> subst hres <;> cases h
    exact ⟨fun r hr => (body r hr).1, fun r hr => (body r hr).2⟩
  apply key
  intro fmt
  repeat lstep

end
end MpVerif.C02

import MpVerif.C02.LemmasSeg
/-! # C02 lemmas: the two passes of `NLReader::Read()` and the bridge to the in-order checker -/
namespace MpVerif.C02

theorem run_snoc (strict : Bool) (h : Header) (e : Ev) :
    ∀ (es : List Ev) (c : CState), run strict h c (es ++ [e]) =
      match run strict h c es with | some c' => step strict h c' e | none => none := by
  intro es
  induction es with
  | nil => intro c; simp [run]; cases step strict h c e <;> simp [run]
  | cons x xs ih =>
    intro c
    simp only [List.cons_append, run]
    cases step strict h c x with
    | none => rfl
    | some c1 => exact ih c1

theorem chkRev_eq_run (strict : Bool) (h : Header) :
    ∀ L : List Ev, chkRev strict h L = run strict h CState.init L.reverse := by
  intro L
  induction L with
  | nil => rfl
  | cons e es ih =>
    rw [List.reverse_cons, run_snoc, ← ih]
    rfl

/-- index range of `OnVarBounds`, read off an accepted list -/
theorem varBounds_in_range {strict : Bool} {h : Header} :
    ∀ (evs : List Ev) (c : CState), chkRev strict h evs = some c →
      ∀ e ∈ evs, isVarBounds e = true → ∃ i lb ub, e = .varBounds i lb ub ∧ i < h.num_vars := by
  intro evs
  induction evs with
  | nil => intro c _ e he; cases he
  | cons x xs ih =>
    intro c hc e he hv
    simp only [chkRev] at hc
    cases hxs : chkRev strict h xs with
    | none => simp [hxs] at hc
    | some c1 =>
      rw [hxs] at hc
      rcases List.mem_cons.mp he with rfl | hmem
      · cases e <;> simp [isVarBounds] at hv
        rename_i i lb ub
        refine ⟨i, lb, ub, rfl, ?_⟩
        simp only [step, stepCore] at hc
        split at hc
        · cases hc
        · split at hc
          · rename_i hcond; simp at hcond; exact hcond.2
          · cases hc
      · exact ih c1 hxs e hmem hv

/-- a list of in-range `OnVarBounds` notifications (the first pass of READ_BOUNDS_FIRST) is accepted and
    leaves the checker in its initial state -/
theorem varBounds_list_ok (strict : Bool) (h : Header) :
    ∀ F : List Ev, (∀ e ∈ F, ∃ i lb ub, e = Ev.varBounds i lb ub ∧ i < h.num_vars) →
      chkRev strict h F = some CState.init := by
  intro F
  induction F with
  | nil => intro _; rfl
  | cons x xs ih =>
    intro hall
    have hx := hall x (List.mem_cons_self ..)
    obtain ⟨i, lb, ub, rfl, hi⟩ := hx
    have := ih (fun e he => hall e (List.mem_cons_of_mem _ he))
    simp only [chkRev, this]
    cases strict <;> simp [step, stepCore, CState.init, topOK, hi]

theorem filter_varBounds_ok {strict strict' : Bool} {h : Header} {evs : List Ev} {c : CState}
    (hc : chkRev strict' h evs = some c) : chkRev strict h (evs.filter isVarBounds) = some CState.init := by
  apply varBounds_list_ok
  intro e he
  have := List.mem_filter.mp he
  exact varBounds_in_range evs c hc e this.1 this.2

theorem top_init (strict : Bool) : Top strict CState.init := ⟨rfl, rfl, fun _ => rfl⟩

/-- final state of a completed read -/
def Finished (c : CState) : Prop := c.done = true ∧ c.stack = [] ∧ c.vals = 0

/-- `NLReader::Read()` started with nothing delivered after the header -/
theorem readBody_ok {strict : Bool} (cx : Env) (hso : strict = true → cx.objsel = none) (r : RState) :
    Sat strict cx.h (readBody cx) ⟨r, []⟩ (fun _ s' => ∃ c, chkRev strict cx.h s'.evs = some c ∧ Finished c) := by
  have fin : ∀ (rb : Bool) (br : Option RState) (s : PState), chkRev strict cx.h s.evs = some CState.init →
      Sat strict cx.h (do readLoop cx (loopFuel cx.inp) rb br; emit .endInput : P Unit) s
        (fun _ s' => ∃ c, chkRev strict cx.h s'.evs = some c ∧ Finished c) := by
    intro rb br s hc
    apply sat_bind
    apply sat_mono (readLoop_ok hso _ rb br s _ hc (top_init strict))
    intro _ s1 ⟨c1, hc1, ht1⟩
    apply sat_emit
    refine ⟨{ c1 with vals := 0, done := true }, chk_emit hc1 ?_, rfl, ht1.1, rfl⟩
    simp [step, stepCore, ht1.2.1, topOK_of_top ht1 0]
  unfold readBody
  split
  · -- READ_BOUNDS_FIRST
    have h1 := readLoop_ok (strict := true) (cx := { cx with objsel := none }) (fun _ => rfl)
      (loopFuel cx.inp) true none ⟨r, []⟩ CState.init rfl (top_init true)
    have hfin := fun s1 : PState => fin false (some s1.r) ⟨r, s1.evs.filter isVarBounds ++ []⟩
    unfold Sat at h1 hfin ⊢
    simp only [] at h1 hfin ⊢
    generalize readLoop { inp := cx.inp, k := cx.k, h := cx.h, flags := cx.flags, objsel := none }
      (loopFuel cx.inp) true none ⟨r, []⟩ = res at h1 ⊢
    cases res with
    | ok a s1 =>
      obtain ⟨c1, hc1, _⟩ := h1
      have hF : chkRev strict cx.h (s1.evs.filter isVarBounds ++ []) = some CState.init := by
        rw [List.append_nil]; exact filter_varBounds_ok hc1
      exact hfin s1 hF
    | err e evs1 =>
      simp only
      unfold Good at h1 ⊢
      cases hc1 : chkRev true cx.h evs1 with
      | none => simp [hc1] at h1
      | some c1 => rw [List.append_nil, filter_varBounds_ok hc1]; rfl
    | ub u evs1 =>
      simp only
      unfold Good at h1 ⊢
      cases hc1 : chkRev true cx.h evs1 with
      | none => simp [hc1] at h1
      | some c1 => rw [List.append_nil, filter_varBounds_ok hc1]; rfl
    | fuel => trivial
  · exact fin true none ⟨r, []⟩ rfl

end MpVerif.C02

import MpVerif.C02.ModelCheck
/-! # C02 lemmas: no reader primitive moves the cursor backwards -/
namespace MpVerif.C02

/-- started at or beyond `b`, `f` ends at or beyond `b` -/
def LGe (b : Nat) (f : L α) : Prop := ∀ r, b ≤ r.pos → ∀ a r', f r = .ok a r' → b ≤ r'.pos

theorem lge_pure {b : Nat} {a : α} : LGe b (pure a : L α) := by
  intro r hr a' r' h; cases h; exact hr
theorem lge_ub {b : Nat} {u : UB} : LGe b (L.ub u : L α) := by
  intro r hr a' r' h; cases h

theorem lge_bind {b : Nat} {x : L α} {f : α → L β} (hx : LGe b x) (hf : ∀ a, LGe b (f a)) : LGe b (x >>= f) := by
  intro r hr a' r' h
  change L.bind x f r = _ at h
  unfold L.bind at h
  cases hxr : x r with
  | ok a r1 => rw [hxr] at h; exact hf a r1 (hx r hr a r1 hxr) a' r' h
  | err e => rw [hxr] at h; cases h
  | ub u => rw [hxr] at h; cases h

theorem lge_get_bind {b : Nat} {f : RState → L β} (hf : ∀ r0, b ≤ r0.pos → LGe b (f r0)) : LGe b (L.get >>= f) := by
  intro r hr a' r' h
  change L.bind L.get f r = _ at h
  unfold L.bind L.get at h
  exact hf r hr r hr a' r' h

theorem lge_set {b : Nat} {r' : RState} (h : b ≤ r'.pos) : LGe b (L.set r') := by
  intro r hr a' r'' h'; cases h'; exact h

theorem lge_ite {b : Nat} {p q : L α} {cnd : Prop} [Decidable cnd] (h1 : LGe b p) (h2 : LGe b q) :
    LGe b (if cnd then p else q) := by
  by_cases hc : cnd
  · rw [if_pos hc]; exact h1
  · rw [if_neg hc]; exact h2

/-! monotonicity -/

theorem scanDigits_ge (rd : Nat → UInt8) (hex : Bool) :
    ∀ fuel p acc cnt, p ≤ (scanDigits rd hex fuel p acc cnt).2.2 := by
  intro fuel; induction fuel with
  | zero => intro p acc cnt; simp [scanDigits]
  | succ n ih =>
    intro p acc cnt
    unfold scanDigits
    simp only
    split
    · split
      · exact Nat.le_trans (Nat.le_succ p) (ih _ _ _)
      · exact Nat.le_refl _
    · split
      · exact Nat.le_trans (Nat.le_succ p) (ih _ _ _)
      · exact Nat.le_refl _

theorem scanMant_ge (rd : Nat → UInt8) (hex : Bool) (fuel q : Nat) : q ≤ (scanMant rd hex fuel q).2.2.2 := by
  unfold scanMant
  simp only
  have h1 := scanDigits_ge rd hex fuel q 0 0
  split
  · have h2 := scanDigits_ge rd hex fuel ((scanDigits rd hex fuel q 0 0).2.2 + 1) (scanDigits rd hex fuel q 0 0).1 0
    simp only; omega
  · exact h1

theorem scanExp_ge (rd : Nat → UInt8) (fuel : Nat) (mk : UInt8) (r2 : Nat) : r2 ≤ (scanExp rd fuel mk r2).2 := by
  unfold scanExp
  by_cases hm : (lower (rd r2) == mk) = true
  · rw [if_pos hm]
    simp only
    generalize hr : (if (rd (r2 + 1) == 45 || rd (r2 + 1) == 43) = true then r2 + 2 else r2 + 1) = r
    have hrr : r2 ≤ r := by rw [← hr]; split <;> omega
    by_cases hd : isDigit (rd r) = true
    · rw [if_pos hd]; exact Nat.le_trans hrr (scanDigits_ge rd false fuel r 0 0)
    · rw [if_neg hd]; exact Nat.le_refl _
  · rw [if_neg hm]; exact Nat.le_refl _

theorem nanScan_ge (rd : Nat → UInt8) : ∀ fuel r, r ≤ nanScan rd fuel r := by
  intro fuel; induction fuel with
  | zero => intro r; simp [nanScan]
  | succ n ih =>
    intro r
    unfold nanScan
    split
    · exact Nat.le_trans (Nat.le_succ r) (ih _)
    · exact Nat.le_refl _

theorem strtodHex_ge (rd : Nat → UInt8) (fuel : Nat) (neg : Bool) (q : Nat) : q ≤ (strtodHex rd fuel neg q).1 := by
  have h1 := scanMant_ge rd true fuel (q + 2)
  have h2 := scanExp_ge rd fuel 112 (scanMant rd true fuel (q + 2)).2.2.2
  unfold strtodHex
  simp only
  repeat' split
  all_goals (simp only; omega)

theorem strtodDec_ge (rd : Nat → UInt8) (fuel : Nat) (neg : Bool) (p q : Nat) (hpq : p ≤ q) :
    p ≤ (strtodDec rd fuel neg p q).1 := by
  have h1 := scanMant_ge rd false fuel q
  have h2 := scanExp_ge rd fuel 101 (scanMant rd false fuel q).2.2.2
  unfold strtodDec
  simp only
  repeat' split
  all_goals (simp only; omega)

theorem strtod_ge (rd : Nat → UInt8) (fuel p : Nat) : p ≤ (strtod rd fuel p).1 := by
  unfold strtod
  simp only
  have hpq : p ≤ (if (rd p == 45 || rd p == 43) = true then p + 1 else p) := by split <;> omega
  generalize (if (rd p == 45 || rd p == 43) = true then p + 1 else p) = q at hpq ⊢
  split
  · split <;> (simp only; omega)
  split
  · split
    · have := nanScan_ge rd fuel (q + 4)
      split <;> (simp only; omega)
    · simp only; omega
  split
  · exact Nat.le_trans hpq (strtodHex_ge rd fuel _ q)
  · exact strtodDec_ge rd fuel _ p q hpq


section
variable (inp : Inp)

theorem tReportAt_lge {b loc : Nat} {cls : ErrCls} : LGe b (tReportAt inp loc cls : L α) := by
  intro r _ a r' h; unfold tReportAt at h; split at h <;> cases h
theorem tReport_lge {b : Nat} {cls : ErrCls} : LGe b (tReport inp cls : L α) := by
  intro r hr; exact tReportAt_lge inp r hr
theorem bReport_lge {b : Nat} {cls : ErrCls} : LGe b (bReport cls : L α) := by
  intro r _ a r' h; cases h

theorem readChar_lge {b : Nat} : LGe b (readChar inp) := by
  intro r hr a r' h; unfold readChar at h
  split at h
  · cases h
  · cases h; simp; omega

theorem skipSpaceFrom_ge : ∀ fuel p, p ≤ skipSpaceFrom inp fuel p := by
  intro fuel; induction fuel with
  | zero => intro p; exact Nat.le_refl _
  | succ n ih => intro p; unfold skipSpaceFrom; simp only; split
                 · exact Nat.le_trans (Nat.le_succ p) (ih (p + 1))
                 · exact Nat.le_refl _

theorem tSkipSpace_lge {b : Nat} : LGe b (tSkipSpace inp) := by
  intro r hr a r' h; unfold tSkipSpace at h
  split at h
  · cases h
  · cases h; exact Nat.le_trans hr (skipSpaceFrom_ge inp _ _)

theorem digitsLoop_ge (bits : Nat) : ∀ fuel p res v p', digitsLoop inp bits fuel p res = some (v, p') → p ≤ p' := by
  intro fuel; induction fuel with
  | zero => intro p res v p' h; simp [digitsLoop] at h; omega
  | succ n ih =>
    intro p res v p' h
    unfold digitsLoop at h
    simp only at h
    split at h
    · split at h
      · cases h
      · exact Nat.le_trans (Nat.le_succ p) (ih _ _ _ _ h)
    · simp at h; omega

theorem tReadIntWithoutSign_lge {b bits max : Nat} : LGe b (tReadIntWithoutSign inp bits max) := by
  intro r hr a r' h; unfold tReadIntWithoutSign at h
  split at h
  · cases h
  · split at h
    · cases h; exact hr
    · split at h
      · exact tReport_lge inp r hr a r' h
      · rename_i v p hd
        have := digitsLoop_ge inp bits _ _ _ _ _ hd
        split at h
        · exact tReport_lge inp _ (Nat.le_trans hr this) a r' h
        · cases h; exact Nat.le_trans hr this

theorem tReadUInt_lge {b : Nat} : LGe b (tReadUInt inp) := by
  unfold tReadUInt
  refine lge_bind (tSkipSpace_lge inp) (fun _ => lge_bind (tReadIntWithoutSign_lge inp) (fun o => ?_))
  cases o
  · exact tReport_lge inp
  · exact lge_pure

theorem tReadInt_lge {b bits : Nat} : LGe b (tReadInt inp bits) := by
  unfold tReadInt
  refine lge_bind (tSkipSpace_lge inp) (fun _ => lge_get_bind (fun r0 h0 => ?_))
  have rest : ∀ u : PUnit, LGe b (do
      let __do_lift ← tReadIntWithoutSign inp bits (2 ^ bits - 1)
      match __do_lift with
        | none => tReport inp ErrCls.int
        | some result =>
          if (decide (result > 2 ^ (bits - 1) - 1) && !(inp.rd r0.pos == 45 && result == 2 ^ (bits - 1) - 1 + 1)) = true then tReport inp ErrCls.toobig
          else pure (if (inp.rd r0.pos != 45) = true then (result : Int) else -(result : Int))) := by
    intro _
    refine lge_bind (tReadIntWithoutSign_lge inp) (fun o => ?_)
    cases o
    · exact tReport_lge inp
    · exact lge_ite (tReport_lge inp) lge_pure
  simp only []
  split
  · exact lge_bind (lge_set (by simp; omega)) rest
  · exact rest ()

theorem findEol_ge : ∀ fuel p p', findEol inp fuel p = some p' → p ≤ p' := by
  intro fuel; induction fuel with
  | zero => intro p p' h; simp [findEol] at h
  | succ n ih =>
    intro p p' h
    unfold findEol at h
    simp only at h
    split at h
    · cases h
    · split at h
      · simp at h; omega
      · exact Nat.le_trans (Nat.le_succ p) (ih _ _ h)

theorem tReadTillEndOfLine_lge {b : Nat} : LGe b (tReadTillEndOfLine inp) := by
  intro r hr a r' h; unfold tReadTillEndOfLine at h
  split at h
  · cases h
  · split at h
    · rename_i p hp
      cases h
      exact Nat.le_trans hr (findEol_ge inp _ _ _ hp)
    · unfold tReportAt at h
      simp only at h
      split at h <;> cases h

theorem nameEnd_ge : ∀ fuel p, p ≤ nameEnd inp fuel p := by
  intro fuel; induction fuel with
  | zero => intro p; exact Nat.le_refl _
  | succ n ih => intro p; unfold nameEnd; simp only; split
                 · exact Nat.le_trans (Nat.le_succ p) (ih (p + 1))
                 · exact Nat.le_refl _

theorem tReadName_lge {b : Nat} : LGe b (tReadName inp) := by
  unfold tReadName
  refine lge_bind (tSkipSpace_lge inp) (fun _ => lge_get_bind (fun r0 h0 => ?_))
  simp only
  refine lge_ite (tReport_lge inp) ?_
  refine lge_bind (lge_set ?_) (fun _ => lge_pure)
  simp only
  exact Nat.le_trans h0 (Nat.le_trans (Nat.le_succ _) (nameEnd_ge inp _ _))

theorem strLoop_ge : ∀ n r r', strLoop inp n r = some r' → r.pos ≤ r'.pos := by
  intro n; induction n with
  | zero => intro r r' h; simp [strLoop] at h; subst h; exact Nat.le_refl _
  | succ n ih =>
    intro r r' h
    unfold strLoop at h
    simp only at h
    split at h
    · have := ih _ _ h; simp at this; omega
    · split at h
      · cases h
      · have := ih _ _ h; simp at this; omega

theorem strLoopFail_ge : ∀ n r, r.pos ≤ (strLoopFail inp n r).pos := by
  intro n; induction n with
  | zero => intro r; exact Nat.le_refl _
  | succ n ih =>
    intro r
    unfold strLoopFail
    simp only
    split
    · have := ih { r with pos := r.pos + 1, lineStart := r.pos + 1, line := r.line + 1 }; simp at this; omega
    · split
      · exact Nat.le_refl _
      · have := ih { r with pos := r.pos + 1 }; simp at this; omega

theorem tReadString_lge {b : Nat} : LGe b (tReadString inp) := by
  unfold tReadString
  refine lge_bind (tReadUInt_lge inp) (fun length => lge_get_bind (fun r0 h0 => ?_))
  refine lge_ite (tReportAt_lge inp) ?_
  simp only
  split
  · refine lge_bind (lge_set ?_) (fun _ => tReportAt_lge inp)
    exact Nat.le_trans h0 (Nat.le_trans (by simp) (strLoopFail_ge inp _ _))
  · rename_i r' hr'
    have h1 := strLoop_ge inp _ _ _ hr'
    simp at h1
    refine lge_ite ?_ ?_
    · exact lge_bind (lge_set (by omega)) (fun _ => tReportAt_lge inp)
    · exact lge_bind (lge_set (by simp; omega)) (fun _ => lge_pure)

/-! binary -/

theorem bRead_lge {b n : Nat} : LGe b (bRead inp n) := by
  intro r hr a r' h; unfold bRead at h
  split at h
  · cases h
  · cases h; simp; omega

theorem bReadInt_lge {b n : Nat} {swap : Bool} : LGe b (bReadInt inp swap n) := by
  unfold bReadInt
  refine lge_get_bind (fun r0 h0 => lge_bind (lge_set (by simpa using h0)) (fun _ => lge_bind (bRead_lge inp) (fun _ => lge_pure)))

theorem bReadUInt_lge {b : Nat} {swap : Bool} : LGe b (bReadUInt inp swap) := by
  unfold bReadUInt
  exact lge_bind (bReadInt_lge inp) (fun _ => lge_ite (bReport_lge) lge_pure)

theorem bReadDouble_lge {b : Nat} {swap : Bool} : LGe b (bReadDouble inp swap) := by
  unfold bReadDouble
  refine lge_get_bind (fun r0 h0 => lge_bind (lge_set (by simpa using h0)) (fun _ => lge_bind (bRead_lge inp) (fun _ => lge_pure)))

theorem bReadString_lge {b : Nat} {swap : Bool} : LGe b (bReadString inp swap) := by
  unfold bReadString
  refine lge_bind (bReadUInt_lge inp) (fun _ => lge_ite (lge_bind (bRead_lge inp) (fun _ => lge_pure)) lge_pure)


theorem tReadDouble_lge {b : Nat} : LGe b (tReadDouble inp) := by
  unfold tReadDouble
  refine lge_bind (tSkipSpace_lge inp) (fun _ => lge_get_bind (fun r0 h0 => ?_))
  refine lge_ite ?_ (tReport_lge inp)
  have := strtod_ge inp.rd (inp.len + 2 - r0.pos) r0.pos
  generalize strtod inp.rd (inp.len + 2 - r0.pos) r0.pos = pv at this
  obtain ⟨p, v⟩ := pv
  simp only at this ⊢
  refine lge_ite (tReport_lge inp) (lge_bind (lge_set (by simp; omega)) (fun _ => lge_pure))

/-- a reader primitive never moves the cursor backwards -/
def LMono (f : L α) : Prop := ∀ r, match f r with | .ok _ r' => r.pos ≤ r'.pos | _ => True

theorem lmono_of_lge {f : L α} (h : ∀ b, LGe b f) : LMono f := by
  intro r
  cases hfr : f r with
  | ok a r' => exact h r.pos r (Nat.le_refl _) a r' hfr
  | err e => trivial
  | ub u => trivial

/-- the monotonicity facts about the lifted primitives of one reader kind -/
structure PrimMono (inp : Inp) (k : RKind) : Prop where
  uint : LMono (rReadUInt inp k)
  int : ∀ b, LMono (rReadInt inp k b)
  dbl : LMono (rReadDouble inp k)
  str : LMono (rReadString inp k)
  name : LMono (rReadName inp k)
  eol : LMono (rEol inp k)

theorem primMono (k : RKind) : PrimMono inp k := by
  cases k with
  | text =>
    exact ⟨lmono_of_lge fun _ => tReadUInt_lge inp, fun _ => lmono_of_lge fun _ => tReadInt_lge inp,
      lmono_of_lge fun _ => tReadDouble_lge inp, lmono_of_lge fun _ => tReadString_lge inp,
      lmono_of_lge fun _ => tReadName_lge inp, lmono_of_lge fun _ => tReadTillEndOfLine_lge inp⟩
  | bin s =>
    exact ⟨lmono_of_lge fun _ => bReadUInt_lge inp, fun _ => lmono_of_lge fun _ => bReadInt_lge inp,
      lmono_of_lge fun _ => bReadDouble_lge inp, lmono_of_lge fun _ => bReadString_lge inp,
      lmono_of_lge fun _ => bReadString_lge inp, lmono_of_lge fun _ => lge_pure⟩

end
end MpVerif.C02

/-!
# C02 model, part 1: numbers

IEEE-754 binary64 values are kept as their bit pattern (`Nat < 2^64`).  The text reader
hands number tokens to `strtod_l(.., "C")`; `strtod` below models *how many bytes* glibc's
strtod consumes and the correctly rounded value (round-to-nearest-even), so that the
value dependent branches of the reader (`value == 0`, `(long)tmp`, `ampl_options[1] == 3`)
can be reproduced exactly.  The function is compared with the real `strtod_l` on every
run (`strtod` ops of the line protocol and every double in every event).
-/
namespace MpVerif.C02

abbrev F64 := Nat   -- bit pattern, < 2^64

def F64.signBit : Nat := 2 ^ 63
def F64.inf : F64 := 0x7ff0000000000000
def F64.nan : F64 := 0x7ff8000000000000
def F64.isNaN (b : F64) : Bool := (b % 2 ^ 63) > 0x7ff0000000000000
def F64.isZero (b : F64) : Bool := b % 2 ^ 63 == 0
def F64.neg (b : F64) : F64 := if b ≥ 2 ^ 63 then b - 2 ^ 63 else b + 2 ^ 63

/-- correctly rounded `num/den` (`num > 0`, `den > 0`) as a non-negative binary64 bit pattern -/
def ratToF64Pos (num den : Nat) : F64 :=
  let e : Int := (Nat.log2 num : Int) - (Nat.log2 den : Int)
  -- is num/den ≥ 2^e ?
  let ge : Bool := if e ≥ 0 then num ≥ den * 2 ^ e.toNat else num * 2 ^ (-e).toNat ≥ den
  let E : Int := if ge then e else e - 1          -- 2^E ≤ num/den < 2^(E+1)
  let normal := E ≥ -1022
  let shift : Int := if normal then 52 - E else 1074
  let n' := if shift ≥ 0 then num * 2 ^ shift.toNat else num
  let d' := if shift ≥ 0 then den else den * 2 ^ (-shift).toNat
  let q := n' / d'
  let r := n' % d'
  let q := if 2 * r > d' ∨ (2 * r = d' ∧ q % 2 = 1) then q + 1 else q
  let bits : Int := if normal then (E + 1022) * 2 ^ 52 + q else q
  if bits ≥ 0x7ff0000000000000 then F64.inf else bits.toNat

def ratToF64 (negative : Bool) (num den : Nat) : F64 :=
  let p := if num = 0 then 0 else ratToF64Pos num den
  if negative then p + 2 ^ 63 else p

/-- `(double)i` for an integer that fits (exact for |i| < 2^53) -/
def intToF64 (i : Int) : F64 := ratToF64 (i < 0) i.natAbs 1

/-- the mathematical value of a finite bit pattern as sign, mantissa, binary exponent -/
def F64.decode (b : F64) : Bool × Nat × Int :=
  let s := b ≥ 2 ^ 63
  let m := b % 2 ^ 52
  let e : Nat := (b % 2 ^ 63) / 2 ^ 52
  if e = 0 then (s, m, -1074) else (s, m + 2 ^ 52, (e : Int) - 1075)

/-- `(long)tmp` : `none` when the conversion is undefined (NaN, ±inf, outside `[-2^63, 2^63)`),
    otherwise the value truncated toward zero together with "was integral". -/
def F64.toLong (b : F64) : Option (Int × Bool) :=
  if (b % 2 ^ 63) / 2 ^ 52 = 2047 then none else
  let (s, m, e) := F64.decode b
  let (q, exact) : Nat × Bool :=
    if e ≥ 0 then (m * 2 ^ e.toNat, true)
    else if (-e).toNat ≥ 64 then (0, m = 0)
    else (m / 2 ^ (-e).toNat, m % 2 ^ (-e).toNat = 0)
  if s then (if q > 2 ^ 63 then none else some (-(q : Int), exact))
  else (if q ≥ 2 ^ 63 then none else some ((q : Int), exact))

/-! ## strtod extent + value -/

def isDigit (c : UInt8) : Bool := c ≥ 48 && c ≤ 57
def isSpace (c : UInt8) : Bool := c == 32 || (c ≥ 9 && c ≤ 13)
def lower (c : UInt8) : UInt8 := if c ≥ 65 && c ≤ 90 then c + 32 else c
def hexVal (c : UInt8) : Option Nat :=
  if isDigit c then some (c.toNat - 48)
  else let l := lower c; if l ≥ 97 && l ≤ 102 then some (l.toNat - 87) else none
def isAlnum_ (c : UInt8) : Bool :=
  isDigit c || (lower c ≥ 97 && lower c ≤ 122) || c == 95

/-- scan digits (decimal or hex) from `p`: returns (value accumulated onto `acc`, count, new p) -/
def scanDigits (rd : Nat → UInt8) (hex : Bool) : (fuel : Nat) → (p acc cnt : Nat) → Nat × Nat × Nat
  | 0, p, acc, cnt => (acc, cnt, p)
  | fuel + 1, p, acc, cnt =>
    let c := rd p
    if hex then
      match hexVal c with
      | some v => scanDigits rd hex fuel (p + 1) (acc * 16 + v) (cnt + 1)
      | none => (acc, cnt, p)
    else if isDigit c then scanDigits rd hex fuel (p + 1) (acc * 10 + (c.toNat - 48)) (cnt + 1)
    else (acc, cnt, p)

def matchWord (rd : Nat → UInt8) (p : Nat) (w : List UInt8) : Bool :=
  match w with
  | [] => true
  | c :: w => lower (rd p) == c && matchWord rd (p + 1) w

def decimalDigits (n : Nat) : Nat := (Nat.toDigits 10 n).length

/-- digits, optional `.`, digits: (mantissa value, digits before the point, digits after it, end) -/
def scanMant (rd : Nat → UInt8) (hex : Bool) (fuel q : Nat) : Nat × Nat × Nat × Nat :=
  let a := scanDigits rd hex fuel q 0 0
  if rd a.2.2 == 46 then
    let b := scanDigits rd hex fuel (a.2.2 + 1) a.1 0
    (b.1, a.2.1, b.2.1, b.2.2)
  else (a.1, a.2.1, 0, a.2.2)

/-- optional exponent part (`marker` = 'e' or 'p') at `r2`: (exponent, end); not consumed unless a digit follows -/
def scanExp (rd : Nat → UInt8) (fuel : Nat) (marker : UInt8) (r2 : Nat) : Int × Nat :=
  if lower (rd r2) == marker then
    let s := rd (r2 + 1)
    let r := if s == 45 || s == 43 then r2 + 2 else r2 + 1
    if isDigit (rd r) then
      let d := scanDigits rd false fuel r 0 0
      ((if s == 45 then -(d.1 : Int) else (d.1 : Int)), d.2.2)
    else (0, r2)
  else (0, r2)

def nanScan (rd : Nat → UInt8) : Nat → Nat → Nat
  | 0, r => r
  | fuel + 1, r => if isAlnum_ (rd r) then nanScan rd fuel (r + 1) else r

def signed (negative : Bool) (v : F64) : F64 := if negative then v + 2 ^ 63 else v

def strtodHex (rd : Nat → UInt8) (fuel : Nat) (negative : Bool) (q : Nat) : Nat × F64 :=
  let mt := scanMant rd true fuel (q + 2)
  let ex := scanExp rd fuel 112 mt.2.2.2
  let m := mt.1
  let e2 : Int := ex.1 - 4 * (mt.2.2.1 : Int)
  let r3 := ex.2
  if m = 0 then (r3, signed negative 0) else
  let mag : Int := (Nat.log2 m : Int) + e2
  if mag > 1100 then (r3, signed negative F64.inf)
  else if mag < -1200 then (r3, signed negative 0)
  else if e2 ≥ 0 then (r3, ratToF64 negative (m * 2 ^ e2.toNat) 1)
  else (r3, ratToF64 negative m (2 ^ (-e2).toNat))

def strtodDec (rd : Nat → UInt8) (fuel : Nat) (negative : Bool) (p q : Nat) : Nat × F64 :=
  let mt := scanMant rd false fuel q
  if mt.2.1 + mt.2.2.1 = 0 then (p, 0) else
  let ex := scanExp rd fuel 101 mt.2.2.2
  let m := mt.1
  let e10 : Int := ex.1 - (mt.2.2.1 : Int)
  let r3 := ex.2
  if m = 0 then (r3, signed negative 0) else
  let mag : Int := (decimalDigits m : Int) + e10
  if mag > 400 then (r3, signed negative F64.inf)
  else if mag < -400 then (r3, signed negative 0)
  else if e10 ≥ 0 then (r3, ratToF64 negative (m * 10 ^ e10.toNat) 1)
  else (r3, ratToF64 negative m (10 ^ (-e10).toNat))

/-- Model of glibc `strtod` in the "C" locale started at `p` on a byte that is not white space.
    `fuel` bounds the scans (callers pass remaining length + 2).  Returns `(new p, value)`;
    `new p = p` means "no conversion". -/
def strtod (rd : Nat → UInt8) (fuel : Nat) (p : Nat) : Nat × F64 :=
  let c0 := rd p
  let negative := c0 == 45
  let q := if c0 == 45 || c0 == 43 then p + 1 else p
  if matchWord rd q [105, 110, 102] then
    if matchWord rd (q + 3) [105, 110, 105, 116, 121] then (q + 8, signed negative F64.inf)
    else (q + 3, signed negative F64.inf)
  else if matchWord rd q [110, 97, 110] then
    if rd (q + 3) == 40 then
      let r := nanScan rd fuel (q + 4)
      if rd r == 41 then (r + 1, F64.nan) else (q + 3, F64.nan)
    else (q + 3, F64.nan)
  else if rd q == 48 && lower (rd (q + 1)) == 120 &&
      ((hexVal (rd (q + 2))).isSome || (rd (q + 2) == 46 && (hexVal (rd (q + 3))).isSome)) then
    strtodHex rd fuel negative q
  else strtodDec rd fuel negative p q

end MpVerif.C02

import MpVerif.C02.LemmasMono
/-!
# C02 lemmas: the cursor stays inside the buffer

Buffer contract (`NLStringRef`): the bytes `data[0 .. len)` are followed by a terminating NUL at offset
`len` (`end_`); `Inp.rd p = 0` for every `p ≥ len`.  A text primitive advances the cursor only past a
byte it has seen to be non-NUL (so never past `len`); a binary primitive advances only after the
length check `end_ - ptr_ ≥ n`.  `ReadChar` is the one unconditional advance: from `pos ≤ len` it ends
at `pos + 1 ≤ len + 1`, and at `≤ len` whenever the byte it returns is not NUL.
-/
namespace MpVerif.C02

/-! ### byte classes never contain NUL -/

theorem isDigit_ne0 {c : UInt8} (h : isDigit c = true) : c ≠ 0 := by
  intro h0; subst h0; simp [isDigit] at h
theorem isSpace_ne0 {c : UInt8} (h : isSpace c = true) : c ≠ 0 := by
  intro h0; subst h0; simp [isSpace] at h
theorem hexVal_ne0 {c : UInt8} (h : (hexVal c).isSome = true) : c ≠ 0 := by
  intro h0; subst h0; simp [hexVal, isDigit, lower] at h
theorem isAlnum_ne0 {c : UInt8} (h : isAlnum_ c = true) : c ≠ 0 := by
  intro h0; subst h0; simp [isAlnum_, isDigit, lower] at h
theorem lower_eq_ne0 {c k : UInt8} (hk : k ≠ 0) (h : (lower c == k) = true) : c ≠ 0 := by
  intro h0; subst h0
  have : lower 0 = 0 := by simp [lower]
  rw [this] at h
  have h' : (0 : UInt8) = k := by simpa using h
  exact hk h'.symm
theorem beq_ne0 {c k : UInt8} (hk : k ≠ 0) (h : (c == k) = true) : c ≠ 0 := by
  intro h0; subst h0
  have h' : (0 : UInt8) = k := by simpa using h
  exact hk h'.symm

section
variable {rd : Nat → UInt8} {len : Nat} (hz : ∀ p, len ≤ p → rd p = 0)
include hz

theorem lt_of_ne0 {p : Nat} (h : rd p ≠ 0) : p < len := by
  apply Nat.lt_of_not_le
  intro hle
  exact h (hz p hle)

theorem scanDigits_le (hex : Bool) : ∀ fuel p acc cnt, p ≤ len → (scanDigits rd hex fuel p acc cnt).2.2 ≤ len := by
  intro fuel; induction fuel with
  | zero => intro p acc cnt hp; simpa [scanDigits] using hp
  | succ n ih =>
    intro p acc cnt hp
    unfold scanDigits
    simp only
    split
    · split
      · rename_i v hv
        have : (hexVal (rd p)).isSome = true := by rw [hv]; rfl
        exact ih _ _ _ (lt_of_ne0 hz (hexVal_ne0 this))
      · exact hp
    · split
      · rename_i hd
        exact ih _ _ _ (lt_of_ne0 hz (isDigit_ne0 hd))
      · exact hp

theorem scanMant_le (hex : Bool) (fuel q : Nat) (hq : q ≤ len) : (scanMant rd hex fuel q).2.2.2 ≤ len := by
  unfold scanMant
  simp only
  have h1 := scanDigits_le hz hex fuel q 0 0 hq
  split
  · rename_i hdot
    have : (scanDigits rd hex fuel q 0 0).2.2 < len := lt_of_ne0 hz (beq_ne0 (by decide) hdot)
    exact scanDigits_le hz hex fuel _ _ _ this
  · exact h1

theorem scanExp_le (fuel : Nat) (mk : UInt8) (hmk : mk ≠ 0) (r2 : Nat) (hr : r2 ≤ len) :
    (scanExp rd fuel mk r2).2 ≤ len := by
  unfold scanExp
  by_cases hm : (lower (rd r2) == mk) = true
  · rw [if_pos hm]
    have h2 : r2 < len := lt_of_ne0 hz (lower_eq_ne0 hmk hm)
    simp only
    have hr' : (if (rd (r2 + 1) == 45 || rd (r2 + 1) == 43) = true then r2 + 2 else r2 + 1) ≤ len := by
      split
      · rename_i hs
        have : rd (r2 + 1) ≠ 0 := by
          intro h0; rw [h0] at hs; simp at hs
        have := lt_of_ne0 hz this
        omega
      · omega
    generalize (if (rd (r2 + 1) == 45 || rd (r2 + 1) == 43) = true then r2 + 2 else r2 + 1) = r at hr'
    by_cases hd : isDigit (rd r) = true
    · rw [if_pos hd]; exact scanDigits_le hz false fuel r 0 0 hr'
    · rw [if_neg hd]; exact hr
  · rw [if_neg hm]; exact hr

theorem nanScan_le : ∀ fuel r, r ≤ len → nanScan rd fuel r ≤ len := by
  intro fuel; induction fuel with
  | zero => intro r hr; simpa [nanScan] using hr
  | succ n ih =>
    intro r hr
    unfold nanScan
    split
    · rename_i ha
      exact ih _ (lt_of_ne0 hz (isAlnum_ne0 ha))
    · exact hr

theorem matchWord_le : ∀ (w : List UInt8) (q : Nat), (∀ c ∈ w, c ≠ 0) → matchWord rd q w = true → q ≤ len →
    q + w.length ≤ len := by
  intro w; induction w with
  | nil => intro q _ _ hq; simpa using hq
  | cons c w ih =>
    intro q hw hm hq
    simp only [matchWord, Bool.and_eq_true] at hm
    have hc : rd q ≠ 0 := lower_eq_ne0 (hw c (List.mem_cons_self ..)) hm.1
    have := ih (q + 1) (fun c' hc' => hw c' (List.mem_cons_of_mem _ hc')) hm.2 (lt_of_ne0 hz hc)
    simp only [List.length_cons]
    omega

theorem strtodHex_le (fuel : Nat) (neg : Bool) (q : Nat) (hq : q + 2 ≤ len) : (strtodHex rd fuel neg q).1 ≤ len := by
  have h1 := scanMant_le hz true fuel (q + 2) hq
  have h2 := scanExp_le hz fuel 112 (by decide) _ h1
  unfold strtodHex
  simp only
  repeat' split
  all_goals (simp only; exact h2)

theorem strtodDec_le (fuel : Nat) (neg : Bool) (p q : Nat) (hp : p ≤ len) (hq : q ≤ len) :
    (strtodDec rd fuel neg p q).1 ≤ len := by
  have h1 := scanMant_le hz false fuel q hq
  have h2 := scanExp_le hz fuel 101 (by decide) _ h1
  unfold strtodDec
  simp only
  repeat' split
  all_goals (simp only; first | exact h2 | exact hp)

theorem strtod_le (fuel p : Nat) (hp : p ≤ len) : (strtod rd fuel p).1 ≤ len := by
  unfold strtod
  simp only
  have hq : (if (rd p == 45 || rd p == 43) = true then p + 1 else p) ≤ len := by
    split
    · rename_i hs
      have : rd p ≠ 0 := by intro h0; rw [h0] at hs; simp at hs
      exact lt_of_ne0 hz this
    · exact hp
  generalize (if (rd p == 45 || rd p == 43) = true then p + 1 else p) = q at hq ⊢
  split
  · rename_i hinf
    have h3 := matchWord_le hz [105, 110, 102] q (by decide) hinf hq
    split
    · rename_i hity
      have := matchWord_le hz [105, 110, 105, 116, 121] (q + 3) (by decide) hity h3
      simp only [List.length_cons, List.length_nil] at this ⊢; omega
    · simpa using h3
  split
  · rename_i hnan
    have h3 := matchWord_le hz [110, 97, 110] q (by decide) hnan hq
    simp only [List.length_cons, List.length_nil] at h3
    split
    · rename_i hpar
      have h4 : q + 3 < len := lt_of_ne0 hz (beq_ne0 (by decide) hpar)
      have h5 := nanScan_le hz fuel (q + 4) h4
      split
      · rename_i hcl
        exact lt_of_ne0 hz (beq_ne0 (by decide) hcl)
      · simpa using h3
    · simpa using h3
  split
  · rename_i hhex
    simp only [Bool.and_eq_true] at hhex
    have a1 : q < len := lt_of_ne0 hz (beq_ne0 (by decide) hhex.1.1)
    have a2 : q + 1 < len := lt_of_ne0 hz (lower_eq_ne0 (by decide) hhex.1.2)
    exact strtodHex_le hz fuel _ q (by omega)
  · exact strtodDec_le hz fuel _ p q hp hq

end
end MpVerif.C02

import MpVerif.C02.LemmasMono
/-!
# C02 lemmas: the cursor stays inside the buffer

Buffer contract (`NLStringRef`): the bytes `data[0 .. len)` are followed by a terminating NUL at offset
`len` (`end_`); `Inp.rd p = 0` for every `p ≥ len`.  A text primitive advances the cursor only past a
byte it has seen to be non-NUL (so never past `len`); a binary primitive advances only after the
length check `end_ - ptr_ ≥ n`.  `ReadChar` is the one unconditional advance: from `pos ≤ len` it ends
at `pos + 1 ≤ len + 1`, and at `≤ len` whenever the byte it returns is not NUL.
-/
namespace MpVerif.C02

/-! ### byte classes never contain NUL -/

theorem isDigit_ne0 {c : UInt8} (h : isDigit c = true) : c ≠ 0 := by
  intro h0; subst h0; simp [isDigit] at h
theorem isSpace_ne0 {c : UInt8} (h : isSpace c = true) : c ≠ 0 := by
  intro h0; subst h0; simp [isSpace] at h
theorem hexVal_ne0 {c : UInt8} (h : (hexVal c).isSome = true) : c ≠ 0 := by
  intro h0; subst h0; simp [hexVal, isDigit, lower] at h
theorem isAlnum_ne0 {c : UInt8} (h : isAlnum_ c = true) : c ≠ 0 := by
  intro h0; subst h0; simp [isAlnum_, isDigit, lower] at h
theorem lower_eq_ne0 {c k : UInt8} (hk : k ≠ 0) (h : (lower c == k) = true) : c ≠ 0 := by
  intro h0; subst h0
  have : lower 0 = 0 := by simp [lower]
  rw [this] at h
  have h' : (0 : UInt8) = k := by simpa using h
  exact hk h'.symm
theorem beq_ne0 {c k : UInt8} (hk : k ≠ 0) (h : (c == k) = true) : c ≠ 0 := by
  intro h0; subst h0
  have h' : (0 : UInt8) = k := by simpa using h
  exact hk h'.symm

section
variable {rd : Nat → UInt8} {len : Nat} (hz : ∀ p, len ≤ p → rd p = 0)
include hz

theorem lt_of_ne0 {p : Nat} (h : rd p ≠ 0) : p < len := by
  apply Nat.lt_of_not_le
  intro hle
  exact h (hz p hle)

theorem scanDigits_le (hex : Bool) : ∀ fuel p acc cnt, p ≤ len → (scanDigits rd hex fuel p acc cnt).2.2 ≤ len := by
  intro fuel; induction fuel with
  | zero => intro p acc cnt hp; simpa [scanDigits] using hp
  | succ n ih =>
    intro p acc cnt hp
    unfold scanDigits
    simp only
    split
    · split
      · rename_i v hv
        have : (hexVal (rd p)).isSome = true := by rw [hv]; rfl
        exact ih _ _ _ (lt_of_ne0 hz (hexVal_ne0 this))
      · exact hp
    · split
      · rename_i hd
        exact ih _ _ _ (lt_of_ne0 hz (isDigit_ne0 hd))
      · exact hp

theorem scanMant_le (hex : Bool) (fuel q : Nat) (hq : q ≤ len) : (scanMant rd hex fuel q).2.2.2 ≤ len := by
  unfold scanMant
  simp only
  have h1 := scanDigits_le hz hex fuel q 0 0 hq
  split
  · rename_i hdot
    have : (scanDigits rd hex fuel q 0 0).2.2 < len := lt_of_ne0 hz (beq_ne0 (by decide) hdot)
    exact scanDigits_le hz hex fuel _ _ _ this
  · exact h1

theorem scanExp_le (fuel : Nat) (mk : UInt8) (hmk : mk ≠ 0) (r2 : Nat) (hr : r2 ≤ len) :
    (scanExp rd fuel mk r2).2 ≤ len := by
  unfold scanExp
  by_cases hm : (lower (rd r2) == mk) = true
  · rw [if_pos hm]
    have h2 : r2 < len := lt_of_ne0 hz (lower_eq_ne0 hmk hm)
    simp only
    have hr' : (if (rd (r2 + 1) == 45 || rd (r2 + 1) == 43) = true then r2 + 2 else r2 + 1) ≤ len := by
      split
      · rename_i hs
        have : rd (r2 + 1) ≠ 0 := by
          intro h0; rw [h0] at hs; simp at hs
        have := lt_of_ne0 hz this
        omega
      · omega
    generalize (if (rd (r2 + 1) == 45 || rd (r2 + 1) == 43) = true then r2 + 2 else r2 + 1) = r at hr'
    by_cases hd : isDigit (rd r) = true
    · rw [if_pos hd]; exact scanDigits_le hz false fuel r 0 0 hr'
    · rw [if_neg hd]; exact hr
  · rw [if_neg hm]; exact hr

theorem nanScan_le : ∀ fuel r, r ≤ len → nanScan rd fuel r ≤ len := by
  intro fuel; induction fuel with
  | zero => intro r hr; simpa [nanScan] using hr
  | succ n ih =>
    intro r hr
    unfold nanScan
    split
    · rename_i ha
      exact ih _ (lt_of_ne0 hz (isAlnum_ne0 ha))
    · exact hr

theorem matchWord_le : ∀ (w : List UInt8) (q : Nat), (∀ c ∈ w, c ≠ 0) → matchWord rd q w = true → q ≤ len →
    q + w.length ≤ len := by
  intro w; induction w with
  | nil => intro q _ _ hq; simpa using hq
  | cons c w ih =>
    intro q hw hm hq
    simp only [matchWord, Bool.and_eq_true] at hm
    have hc : rd q ≠ 0 := lower_eq_ne0 (hw c (List.mem_cons_self ..)) hm.1
    have := ih (q + 1) (fun c' hc' => hw c' (List.mem_cons_of_mem _ hc')) hm.2 (lt_of_ne0 hz hc)
    simp only [List.length_cons]
    omega

theorem strtodHex_le (fuel : Nat) (neg : Bool) (q : Nat) (hq : q + 2 ≤ len) : (strtodHex rd fuel neg q).1 ≤ len := by
  have h1 := scanMant_le hz true fuel (q + 2) hq
  have h2 := scanExp_le hz fuel 112 (by decide) _ h1
  unfold strtodHex
  simp only
  repeat' split
  all_goals (simp only; exact h2)

theorem strtodDec_le (fuel : Nat) (neg : Bool) (p q : Nat) (hp : p ≤ len) (hq : q ≤ len) :
    (strtodDec rd fuel neg p q).1 ≤ len := by
  have h1 := scanMant_le hz false fuel q hq
  have h2 := scanExp_le hz fuel 101 (by decide) _ h1
  unfold strtodDec
  simp only
  repeat' split
  all_goals (simp only; first | exact h2 | exact hp)

theorem strtod_le (fuel p : Nat) (hp : p ≤ len) : (strtod rd fuel p).1 ≤ len := by
  unfold strtod
  simp only
  have hq : (if (rd p == 45 || rd p == 43) = true then p + 1 else p) ≤ len := by
    split
    · rename_i hs
      have : rd p ≠ 0 := by intro h0; rw [h0] at hs; simp at hs
      exact lt_of_ne0 hz this
    · exact hp
  generalize (if (rd p == 45 || rd p == 43) = true then p + 1 else p) = q at hq ⊢
  split
  · rename_i hinf
    have h3 := matchWord_le hz [105, 110, 102] q (by decide) hinf hq
    split
    · rename_i hity
      have := matchWord_le hz [105, 110, 105, 116, 121] (q + 3) (by decide) hity h3
      simp only [List.length_cons, List.length_nil] at this ⊢; omega
    · simpa using h3
  split
  · rename_i hnan
    have h3 := matchWord_le hz [110, 97, 110] q (by decide) hnan hq
    simp only [List.length_cons, List.length_nil] at h3
    split
    · rename_i hpar
      have h4 : q + 3 < len := lt_of_ne0 hz (beq_ne0 (by decide) hpar)
      have h5 := nanScan_le hz fuel (q + 4) h4
      split
      · rename_i hcl
        exact lt_of_ne0 hz (beq_ne0 (by decide) hcl)
      · simpa using h3
    · simpa using h3
  split
  · rename_i hhex
    simp only [Bool.and_eq_true] at hhex
    have a1 : q < len := lt_of_ne0 hz (beq_ne0 (by decide) hhex.1.1)
    have a2 : q + 1 < len := lt_of_ne0 hz (lower_eq_ne0 (by decide) hhex.1.2)
    exact strtodHex_le hz fuel _ q (by omega)
  · exact strtodDec_le hz fuel _ p q hp hq

end

/-! ### reader primitives keep the cursor inside the buffer and never trip the overrun guard -/

theorem Inp.rd_zero (inp : Inp) : ∀ p, inp.len ≤ p → inp.rd p = 0 := inp.nul

/-- started inside the buffer (`pos ≤ len`), `f` ends inside the buffer and does not execute UB -/
structure LSafe (len : Nat) (f : L α) : Prop where
  ok : ∀ r, r.pos ≤ len → ∀ a r', f r = .ok a r' → r'.pos ≤ len
  noub : ∀ r, r.pos ≤ len → ∀ u, f r ≠ .ub u

theorem lsafe_pure {len : Nat} {a : α} : LSafe len (pure a : L α) :=
  ⟨fun r hr a' r' h => (by cases h; exact hr), fun r _ u h => (by cases h)⟩

theorem lsafe_bind {len : Nat} {x : L α} {f : α → L β} (hx : LSafe len x) (hf : ∀ a, LSafe len (f a)) :
    LSafe len (x >>= f) := by
  constructor
  · intro r hr a' r' h
    change L.bind x f r = _ at h
    unfold L.bind at h
    cases hxr : x r with
    | ok a r1 => rw [hxr] at h; exact (hf a).ok r1 (hx.ok r hr a r1 hxr) a' r' h
    | err e => rw [hxr] at h; cases h
    | ub u => rw [hxr] at h; cases h
  · intro r hr u h
    change L.bind x f r = _ at h
    unfold L.bind at h
    cases hxr : x r with
    | ok a r1 => rw [hxr] at h; exact (hf a).noub r1 (hx.ok r hr a r1 hxr) u h
    | err e => rw [hxr] at h; cases h
    | ub u' => exact hx.noub r hr u' hxr

theorem lsafe_get_bind {len : Nat} {f : RState → L β} (hf : ∀ r0, r0.pos ≤ len → LSafe len (f r0)) :
    LSafe len (L.get >>= f) := by
  constructor
  · intro r hr a' r' h
    change L.bind L.get f r = _ at h
    unfold L.bind L.get at h
    exact (hf r hr).ok r hr a' r' h
  · intro r hr u h
    change L.bind L.get f r = _ at h
    unfold L.bind L.get at h
    exact (hf r hr).noub r hr u h

theorem lsafe_set {len : Nat} {r' : RState} (h : r'.pos ≤ len) : LSafe len (L.set r') :=
  ⟨fun r _ a r'' h' => (by cases h'; exact h), fun r _ u h' => (by cases h')⟩

theorem lsafe_ite {len : Nat} {p q : L α} {cnd : Prop} [Decidable cnd] (h1 : LSafe len p) (h2 : LSafe len q) :
    LSafe len (if cnd then p else q) := by
  by_cases hc : cnd
  · rw [if_pos hc]; exact h1
  · rw [if_neg hc]; exact h2

/-- conditional whose `then` branch may use the condition -/
theorem lsafe_dite {len : Nat} {p q : L α} {cnd : Prop} [Decidable cnd] (h1 : cnd → LSafe len p) (h2 : ¬cnd → LSafe len q) :
    LSafe len (if cnd then p else q) := by
  by_cases hc : cnd
  · rw [if_pos hc]; exact h1 hc
  · rw [if_neg hc]; exact h2 hc

section
variable (inp : Inp)

theorem tReportAt_safe {loc : Nat} {cls : ErrCls} : LSafe inp.len (tReportAt inp loc cls : L α) := by
  constructor
  · intro r _ a r' h; unfold tReportAt at h; split at h <;> cases h
  · intro r _ u h; unfold tReportAt at h; split at h <;> cases h
theorem tReport_safe {cls : ErrCls} : LSafe inp.len (tReport inp cls : L α) := by
  constructor
  · intro r hr a r' h; exact (tReportAt_safe inp).ok r hr a r' h
  · intro r hr u h; exact (tReportAt_safe inp).noub r hr u h
theorem bReport_safe {cls : ErrCls} : LSafe inp.len (bReport cls : L α) :=
  ⟨fun r _ a r' h => (by cases h), fun r _ u h => (by cases h)⟩

theorem skipSpaceFrom_le : ∀ fuel p, p ≤ inp.len → skipSpaceFrom inp fuel p ≤ inp.len := by
  intro fuel; induction fuel with
  | zero => intro p hp; exact hp
  | succ n ih =>
    intro p hp; unfold skipSpaceFrom; simp only; split
    · rename_i h
      simp only [Bool.and_eq_true] at h
      exact ih _ (lt_of_ne0 inp.rd_zero (isSpace_ne0 h.1))
    · exact hp

theorem tSkipSpace_safe : LSafe inp.len (tSkipSpace inp) := by
  constructor
  · intro r hr a r' h; unfold tSkipSpace at h
    split at h
    · cases h
    · cases h; exact skipSpaceFrom_le inp _ _ hr
  · intro r hr u h; unfold tSkipSpace at h
    split at h
    · omega
    · cases h

theorem digitsLoop_le (bits : Nat) : ∀ fuel p res v p', p ≤ inp.len →
    digitsLoop inp bits fuel p res = some (v, p') → p' ≤ inp.len := by
  intro fuel; induction fuel with
  | zero => intro p res v p' hp h; simp [digitsLoop] at h; omega
  | succ n ih =>
    intro p res v p' hp h
    unfold digitsLoop at h
    simp only at h
    split at h
    · rename_i hd
      split at h
      · cases h
      · exact ih _ _ _ _ (lt_of_ne0 inp.rd_zero (isDigit_ne0 hd)) h
    · simp at h; omega

theorem tReadIntWithoutSign_safe {bits max : Nat} : LSafe inp.len (tReadIntWithoutSign inp bits max) := by
  constructor
  · intro r hr a r' h; unfold tReadIntWithoutSign at h
    split at h
    · cases h
    · split at h
      · cases h; exact hr
      · split at h
        · exact (tReport_safe inp).ok r hr a r' h
        · rename_i v p hd
          have := digitsLoop_le inp bits _ _ _ _ _ hr hd
          split at h
          · exact (tReport_safe inp).ok _ this a r' h
          · cases h; exact this
  · intro r hr u h; unfold tReadIntWithoutSign at h
    split at h
    · omega
    · split at h
      · cases h
      · split at h
        · exact (tReport_safe inp).noub r hr u h
        · rename_i v p hd
          have := digitsLoop_le inp bits _ _ _ _ _ hr hd
          split at h
          · exact (tReport_safe inp).noub _ this u h
          · cases h

theorem tReadUInt_safe : LSafe inp.len (tReadUInt inp) := by
  unfold tReadUInt
  refine lsafe_bind (tSkipSpace_safe inp) (fun _ => lsafe_bind (tReadIntWithoutSign_safe inp) (fun o => ?_))
  cases o
  · exact tReport_safe inp
  · exact lsafe_pure

theorem tReadUIntSize_safe : LSafe inp.len (tReadUIntSize inp) := by
  unfold tReadUIntSize
  refine lsafe_bind (tSkipSpace_safe inp) (fun _ => lsafe_bind (tReadIntWithoutSign_safe inp) (fun o => ?_))
  cases o
  · exact tReport_safe inp
  · exact lsafe_pure

theorem tReadOptionalUInt_safe : LSafe inp.len (tReadOptionalUInt inp) := by
  unfold tReadOptionalUInt
  exact lsafe_bind (tSkipSpace_safe inp) (fun _ => tReadIntWithoutSign_safe inp)

theorem tReadUIntAcc_safe (acc : Nat) : LSafe inp.len (tReadUIntAcc inp acc) := by
  unfold tReadUIntAcc
  exact lsafe_bind (tReadUInt_safe inp) (fun _ => lsafe_ite (tReport_safe inp) lsafe_pure)

theorem tReadInt_safe {bits : Nat} : LSafe inp.len (tReadInt inp bits) := by
  unfold tReadInt
  refine lsafe_bind (tSkipSpace_safe inp) (fun _ => lsafe_get_bind (fun r0 h0 => ?_))
  have rest : ∀ u : PUnit, LSafe inp.len (do
      let __do_lift ← tReadIntWithoutSign inp bits (2 ^ bits - 1)
      match __do_lift with
        | none => tReport inp ErrCls.int
        | some result =>
          if (decide (result > 2 ^ (bits - 1) - 1) && !(inp.rd r0.pos == 45 && result == 2 ^ (bits - 1) - 1 + 1)) = true then tReport inp ErrCls.toobig
          else pure (if (inp.rd r0.pos != 45) = true then (result : Int) else -(result : Int))) := by
    intro _
    refine lsafe_bind (tReadIntWithoutSign_safe inp) (fun o => ?_)
    cases o
    · exact tReport_safe inp
    · exact lsafe_ite (tReport_safe inp) lsafe_pure
  simp only []
  split
  · rename_i hs
    have : inp.rd r0.pos ≠ 0 := by intro h0; rw [h0] at hs; simp at hs
    have := lt_of_ne0 inp.rd_zero this
    exact lsafe_bind (lsafe_set (by simp; omega)) rest
  · exact rest ()

theorem tReadDouble_safe : LSafe inp.len (tReadDouble inp) := by
  unfold tReadDouble
  refine lsafe_bind (tSkipSpace_safe inp) (fun _ => lsafe_get_bind (fun r0 h0 => ?_))
  refine lsafe_ite ?_ (tReport_safe inp)
  have := strtod_le inp.rd_zero (inp.len + 2 - r0.pos) r0.pos h0
  generalize strtod inp.rd (inp.len + 2 - r0.pos) r0.pos = pv at this
  obtain ⟨p, v⟩ := pv
  simp only at this ⊢
  exact lsafe_ite (tReport_safe inp) (lsafe_bind (lsafe_set (by simpa using this)) (fun _ => lsafe_pure))

theorem tReadOptionalDouble_safe : LSafe inp.len (tReadOptionalDouble inp) := by
  unfold tReadOptionalDouble
  refine lsafe_bind (tSkipSpace_safe inp) (fun _ => lsafe_get_bind (fun r0 h0 => ?_))
  refine lsafe_ite lsafe_pure ?_
  have := strtod_le inp.rd_zero (inp.len + 2 - r0.pos) r0.pos h0
  generalize strtod inp.rd (inp.len + 2 - r0.pos) r0.pos = pv at this
  obtain ⟨p, v⟩ := pv
  simp only at this ⊢
  exact lsafe_bind (lsafe_set (by simpa using this)) (fun _ => lsafe_pure)

theorem findEol_le : ∀ fuel p p', p ≤ inp.len → findEol inp fuel p = some p' → p' ≤ inp.len := by
  intro fuel; induction fuel with
  | zero => intro p p' _ h; simp [findEol] at h
  | succ n ih =>
    intro p p' hp h
    unfold findEol at h
    simp only at h
    split at h
    · cases h
    · rename_i hnz
      have hlt : p < inp.len := lt_of_ne0 inp.rd_zero (by intro h0; rw [h0] at hnz; simp at hnz)
      split at h
      · simp at h; omega
      · exact ih _ _ hlt h

theorem tReadTillEndOfLine_safe : LSafe inp.len (tReadTillEndOfLine inp) := by
  constructor
  · intro r hr a r' h; unfold tReadTillEndOfLine at h
    split at h
    · cases h
    · split at h
      · rename_i p hp
        cases h
        exact findEol_le inp _ _ _ hr hp
      · unfold tReportAt at h; simp only at h; split at h <;> cases h
  · intro r hr u h; unfold tReadTillEndOfLine at h
    split at h
    · omega
    · split at h
      · cases h
      · unfold tReportAt at h; simp only at h; split at h <;> cases h

theorem nameEnd_le : ∀ fuel p, p ≤ inp.len → nameEnd inp fuel p ≤ inp.len := by
  intro fuel; induction fuel with
  | zero => intro p hp; exact hp
  | succ n ih =>
    intro p hp; unfold nameEnd; simp only; split
    · rename_i h
      simp only [Bool.and_eq_true] at h
      exact ih _ (lt_of_ne0 inp.rd_zero (by intro h0; rw [h0] at h; simp at h))
    · exact hp

theorem tReadName_safe : LSafe inp.len (tReadName inp) := by
  unfold tReadName
  refine lsafe_bind (tSkipSpace_safe inp) (fun _ => lsafe_get_bind (fun r0 h0 => ?_))
  simp only
  refine lsafe_dite (fun _ => tReport_safe inp) (fun hc => ?_)
  have hlt : r0.pos < inp.len := lt_of_ne0 inp.rd_zero (by intro h0; rw [h0] at hc; simp at hc)
  exact lsafe_bind (lsafe_set (by simp only; exact nameEnd_le inp _ _ hlt)) (fun _ => lsafe_pure)

theorem strLoop_le : ∀ n r r', r.pos ≤ inp.len → strLoop inp n r = some r' → r'.pos ≤ inp.len := by
  intro n; induction n with
  | zero => intro r r' hr h; simp [strLoop] at h; subst h; exact hr
  | succ n ih =>
    intro r r' hr h
    unfold strLoop at h
    simp only at h
    split at h
    · rename_i hnl
      have hlt : r.pos < inp.len := lt_of_ne0 inp.rd_zero (beq_ne0 (by decide) hnl)
      exact ih _ _ (by simp; omega) h
    · split at h
      · cases h
      · rename_i hne
        have hlt : r.pos < inp.len := by
          apply Nat.lt_of_le_of_ne hr
          intro heq
          apply hne
          simp [heq, inp.rd_zero inp.len (Nat.le_refl _)]
        exact ih _ _ (by simp; omega) h

theorem strLoopFail_le : ∀ n r, r.pos ≤ inp.len → (strLoopFail inp n r).pos ≤ inp.len := by
  intro n; induction n with
  | zero => intro r hr; exact hr
  | succ n ih =>
    intro r hr
    unfold strLoopFail
    simp only
    split
    · rename_i hnl
      have hlt : r.pos < inp.len := lt_of_ne0 inp.rd_zero (beq_ne0 (by decide) hnl)
      exact ih _ (by simp; omega)
    · split
      · exact hr
      · rename_i hne
        have hlt : r.pos < inp.len := by
          apply Nat.lt_of_le_of_ne hr
          intro heq
          apply hne
          simp [heq, inp.rd_zero inp.len (Nat.le_refl _)]
        exact ih _ (by simp; omega)

theorem tReadString_safe : LSafe inp.len (tReadString inp) := by
  unfold tReadString
  refine lsafe_bind (tReadUInt_safe inp) (fun length => lsafe_get_bind (fun r0 h0 => ?_))
  refine lsafe_dite (fun _ => tReportAt_safe inp) (fun hc => ?_)
  have hlt : r0.pos < inp.len := lt_of_ne0 inp.rd_zero (by intro h0; rw [h0] at hc; simp at hc)
  simp only
  split
  · refine lsafe_bind (lsafe_set ?_) (fun _ => tReportAt_safe inp)
    exact strLoopFail_le inp _ _ (by simp; omega)
  · rename_i r' hr'
    have h1 := strLoop_le inp _ _ _ (by simp; omega) hr'
    refine lsafe_dite (fun _ => lsafe_bind (lsafe_set h1) (fun _ => tReportAt_safe inp)) (fun hnl => ?_)
    have : r'.pos < inp.len := lt_of_ne0 inp.rd_zero (by intro h0; rw [h0] at hnl; simp at hnl)
    exact lsafe_bind (lsafe_set (by simp; omega)) (fun _ => lsafe_pure)

/-! binary: every advance is length-checked -/

theorem bRead_safe {n : Nat} : LSafe inp.len (bRead inp n) := by
  constructor
  · intro r hr a r' h; unfold bRead at h
    split at h
    · cases h
    · rename_i hlen
      cases h; simp; omega
  · intro r hr u h; unfold bRead at h
    split at h <;> cases h

theorem bReadInt_safe {n : Nat} {swap : Bool} : LSafe inp.len (bReadInt inp swap n) := by
  unfold bReadInt
  exact lsafe_get_bind (fun r0 h0 => lsafe_bind (lsafe_set (by simpa using h0)) (fun _ => lsafe_bind (bRead_safe inp) (fun _ => lsafe_pure)))

theorem bReadUInt_safe {swap : Bool} : LSafe inp.len (bReadUInt inp swap) := by
  unfold bReadUInt
  exact lsafe_bind (bReadInt_safe inp) (fun _ => lsafe_ite (bReport_safe inp) lsafe_pure)

theorem bReadDouble_safe {swap : Bool} : LSafe inp.len (bReadDouble inp swap) := by
  unfold bReadDouble
  exact lsafe_get_bind (fun r0 h0 => lsafe_bind (lsafe_set (by simpa using h0)) (fun _ => lsafe_bind (bRead_safe inp) (fun _ => lsafe_pure)))

theorem bReadString_safe {swap : Bool} : LSafe inp.len (bReadString inp swap) := by
  unfold bReadString
  exact lsafe_bind (bReadUInt_safe inp) (fun _ => lsafe_ite (lsafe_bind (bRead_safe inp) (fun _ => lsafe_pure)) lsafe_pure)

/-- the safety facts about the lifted primitives of one reader kind -/
structure PrimSafe (inp : Inp) (k : RKind) : Prop where
  uint : LSafe inp.len (rReadUInt inp k)
  int : ∀ b, LSafe inp.len (rReadInt inp k b)
  dbl : LSafe inp.len (rReadDouble inp k)
  str : LSafe inp.len (rReadString inp k)
  name : LSafe inp.len (rReadName inp k)
  eol : LSafe inp.len (rEol inp k)

theorem primSafe (k : RKind) : PrimSafe inp k := by
  cases k with
  | text => exact ⟨tReadUInt_safe inp, fun _ => tReadInt_safe inp, tReadDouble_safe inp, tReadString_safe inp,
      tReadName_safe inp, tReadTillEndOfLine_safe inp⟩
  | bin s => exact ⟨bReadUInt_safe inp, fun _ => bReadInt_safe inp, bReadDouble_safe inp, bReadString_safe inp,
      bReadString_safe inp, lsafe_pure⟩

end
end MpVerif.C02

import MpVerif.C02.Model
/-!
# C02: the property as a decidable predicate on what the handler saw

`Consistent strict r` : the notifications of `r` (a `Result`) are consistent with the header
delivered first:
* every variable / constraint / objective / function / common-expression / suffix index is inside
  the range declared by the header;
* every announced number of linear terms, arguments, suffix values, PL slopes/breakpoints is followed by
  exactly that many, before anything else happens at that level;
* `Begin*`/`End*` are properly nested and matched (a `Begin*` of one kind is closed by the `End*` of
  the same kind; `EndCommonExpr` carries the index of its `BeginCommonExpr`);
* expression notifications form a well-formed postfix stream: every operator finds its operands,
  every `AddArg` hands over exactly one complete expression;
* item-level notifications (objective, constraint, bounds, suffix, ...) only happen outside any
  open `Begin*`; nothing follows `EndInput`; a completed read ends with `EndInput` and nothing open.

`strict` (used when the handler needs every objective): additionally no expression is ever left
without an owner.  With an objective filter (`NeedObj(i)` false) the reader still delivers the
expression of a skipped `O` segment and then drops it; `strict = false` tolerates exactly that.
-/
namespace MpVerif.C02

inductive Frame where
  | terms (k : Nat)                       -- k > 0 more `AddTerm` expected
  | cols (k : Nat)                        -- k > 0 more column sizes expected
  | suf (k items : Nat) (dbl : Bool)      -- k > 0 more suffix values, indices < items
  | ce (idx : Nat)                        -- inside BeginCommonExpr idx .. EndCommonExpr idx
  | args (k tag : Nat)                    -- k more `AddArg`, then the `End*` with this tag
  | pl (k : Nat)                          -- k more slopes/breakpoints (odd: slope next), then the reference and EndPLTerm
deriving Repr, BEq, DecidableEq

structure CState where
  vals : Nat            -- complete expressions delivered and not yet consumed
  stack : List Frame
  done : Bool
deriving Repr, BEq, DecidableEq

def CState.init : CState := ⟨0, [], false⟩
def CState.push1 (c : CState) : CState := { c with vals := c.vals + 1 }

/-- a counted frame is only opened for a positive count -/
def counted (f : Nat → Frame) (k : Nat) (rest : List Frame) : List Frame :=
  if k = 0 then rest else f k :: rest

/-- item-level notification: nothing open; in strict mode at most `maxVals` pending expressions -/
def topOK (strict : Bool) (c : CState) (maxVals : Nat) : Bool :=
  c.stack.isEmpty && (!strict || c.vals ≤ maxVals)

def stepCore (strict : Bool) (h : Header) (c : CState) : Ev → Option CState
  | .obj i _ => if topOK strict c 1 && i < h.num_objs then some { c with vals := 0 } else none
  | .algCon i => if topOK strict c 1 && i < h.num_algebraic_cons then some { c with vals := 0 } else none
  | .logCon i => if topOK strict c 1 && 1 ≤ c.vals && i < h.num_logical_cons then some { c with vals := 0 } else none
  | .beginCommonExpr i n =>
    if topOK strict c 0 && i < h.num_common_exprs then some { c with vals := 0, stack := counted .terms n [.ce i] } else none
  | .endCommonExpr i _ =>
    match c.stack with
    | [.ce j] => if i = j ∧ c.vals = 1 then some { c with vals := 0, stack := [] } else none
    | _ => none
  | .complementarity con var _ =>
    if topOK strict c 0 && con < h.num_algebraic_cons && var < h.num_vars then some { c with vals := 0 } else none
  | .linearObj i n =>
    if topOK strict c 0 && i < h.num_objs && 1 ≤ n && n ≤ h.num_vars then some { c with vals := 0, stack := [.terms n] } else none
  | .linearCon i n =>
    if topOK strict c 0 && i < h.num_algebraic_cons && 1 ≤ n && n ≤ h.num_vars then some { c with vals := 0, stack := [.terms n] } else none
  | .addTerm v _ =>
    match c.stack with
    | .terms k :: rest => if v < h.num_vars then some { c with stack := counted .terms (k - 1) rest } else none
    | _ => none
  | .varBounds i _ _ => if topOK strict c 0 && i < h.num_vars then some { c with vals := 0 } else none
  | .conBounds i _ _ => if topOK strict c 0 && i < h.num_algebraic_cons then some { c with vals := 0 } else none
  | .initVal i _ => if topOK strict c 0 && i < h.num_vars then some { c with vals := 0 } else none
  | .initDual i _ => if topOK strict c 0 && i < h.num_algebraic_cons then some { c with vals := 0 } else none
  | .columnSizes => if topOK strict c 0 then some { c with vals := 0, stack := counted .cols (h.num_vars - 1) [] } else none
  | .colSize _ =>
    match c.stack with
    | .cols k :: rest => some { c with stack := counted .cols (k - 1) rest }
    | _ => none
  | .function i _ _ t => if topOK strict c 0 && i < h.num_funcs && t ≤ 1 then some { c with vals := 0 } else none
  | .intSuffix _ kind n =>
    if topOK strict c 0 && kind ≤ 3 && 1 ≤ n && n ≤ h.suffixItems kind then
      some { c with vals := 0, stack := [.suf n (h.suffixItems kind) false] } else none
  | .dblSuffix _ kind n =>
    if topOK strict c 0 && kind ≤ 3 && 1 ≤ n && n ≤ h.suffixItems kind then
      some { c with vals := 0, stack := [.suf n (h.suffixItems kind) true] } else none
  | .setInt i _ =>
    match c.stack with
    | .suf k items false :: rest => if i < items then some { c with stack := counted (fun k => .suf k items false) (k - 1) rest } else none
    | _ => none
  | .setDbl i _ =>
    match c.stack with
    | .suf k items true :: rest => if i < items then some { c with stack := counted (fun k => .suf k items true) (k - 1) rest } else none
    | _ => none
  | .number _ => some c.push1
  | .string _ => some c.push1
  | .bool _ => some c.push1
  | .varRef i => if i < h.num_vars then some c.push1 else none
  | .commonRef i => if i < h.num_common_exprs then some c.push1 else none
  | .unary _ => if 1 ≤ c.vals then some c else none
  | .not => if 1 ≤ c.vals then some c else none
  | .binary _ => if 2 ≤ c.vals then some { c with vals := c.vals - 1 } else none
  | .binaryLogical _ => if 2 ≤ c.vals then some { c with vals := c.vals - 1 } else none
  | .relational _ => if 2 ≤ c.vals then some { c with vals := c.vals - 1 } else none
  | .logicalCount _ => if 2 ≤ c.vals then some { c with vals := c.vals - 1 } else none
  | .ifExpr => if 3 ≤ c.vals then some { c with vals := c.vals - 2 } else none
  | .implication => if 3 ≤ c.vals then some { c with vals := c.vals - 2 } else none
  | .symbolicIf => if 3 ≤ c.vals then some { c with vals := c.vals - 2 } else none
  | .beginPL n => if 1 ≤ n then some { c with stack := .pl (2 * n + 1) :: c.stack } else none
  | .slope _ =>
    match c.stack with
    | .pl k :: rest => if k % 2 = 1 then some { c with stack := .pl (k - 1) :: rest } else none
    | _ => none
  | .breakpoint _ =>
    match c.stack with
    | .pl k :: rest => if 0 < k ∧ k % 2 = 0 then some { c with stack := .pl (k - 1) :: rest } else none
    | _ => none
  | .endPL =>
    match c.stack with
    | .pl 0 :: rest => if 1 ≤ c.vals then some { c with stack := rest } else none
    | _ => none
  | .beginCall f n => if f < h.num_funcs then some { c with stack := .args n 0 :: c.stack } else none
  | .beginVarArg _ n => some { c with stack := .args n 1 :: c.stack }
  | .beginSum n => some { c with stack := .args n 2 :: c.stack }
  | .beginCount n => some { c with stack := .args n 3 :: c.stack }
  | .beginNumberOf n => if 1 ≤ c.vals ∧ 1 ≤ n then some { c with vals := c.vals - 1, stack := .args (n - 1) 4 :: c.stack } else none
  | .beginSymNumberOf n => if 1 ≤ c.vals ∧ 1 ≤ n then some { c with vals := c.vals - 1, stack := .args (n - 1) 5 :: c.stack } else none
  | .beginIterLogical _ n => some { c with stack := .args n 6 :: c.stack }
  | .beginPairwise _ n => some { c with stack := .args n 7 :: c.stack }
  | .addArg =>
    match c.stack with
    | .args (k + 1) tag :: rest => if 1 ≤ c.vals then some { c with vals := c.vals - 1, stack := .args k tag :: rest } else none
    | _ => none
  | .endCall => match c.stack with | .args 0 0 :: rest => some { c with vals := c.vals + 1, stack := rest } | _ => none
  | .endVarArg => match c.stack with | .args 0 1 :: rest => some { c with vals := c.vals + 1, stack := rest } | _ => none
  | .endSum => match c.stack with | .args 0 2 :: rest => some { c with vals := c.vals + 1, stack := rest } | _ => none
  | .endCount => match c.stack with | .args 0 3 :: rest => some { c with vals := c.vals + 1, stack := rest } | _ => none
  | .endNumberOf => match c.stack with | .args 0 4 :: rest => some { c with vals := c.vals + 1, stack := rest } | _ => none
  | .endSymNumberOf => match c.stack with | .args 0 5 :: rest => some { c with vals := c.vals + 1, stack := rest } | _ => none
  | .endIterLogical => match c.stack with | .args 0 6 :: rest => some { c with vals := c.vals + 1, stack := rest } | _ => none
  | .endPairwise => match c.stack with | .args 0 7 :: rest => some { c with vals := c.vals + 1, stack := rest } | _ => none
  | .endInput => if topOK strict c 0 then some { c with vals := 0, done := true } else none

def step (strict : Bool) (h : Header) (c : CState) (e : Ev) : Option CState :=
  if c.done then none else stepCore strict h c e

/-- run the checker over notifications in delivery order -/
def run (strict : Bool) (h : Header) : CState → List Ev → Option CState
  | c, [] => some c
  | c, e :: es => match step strict h c e with | some c' => run strict h c' es | none => none

/-- the same over a newest-first list (the representation inside the parser state) -/
def chkRev (strict : Bool) (h : Header) : List Ev → Option CState
  | [] => some CState.init
  | e :: es => match chkRev strict h es with | some c => step strict h c e | none => none

def Outcome.isOk : Outcome → Bool | .ok => true | _ => false

/-- **the property** for one `ReadNLString` call -/
def Consistent (strict : Bool) (r : Result) : Bool :=
  match r.header with
  | none => r.evs.isEmpty && !r.outcome.isOk
  | some h =>
    match run strict h CState.init r.evs with
    | none => false
    | some c => if r.outcome.isOk then c.done && c.stack.isEmpty && c.vals == 0 else true

end MpVerif.C02

import MpVerif.C02.ModelEv
import MpVerif.C02.ModelSites
import MpVerif.Gen.Opcodes
/-!
# C02 model: `ReadNLString` — `TextReader::ReadHeader`, `NLReader<Reader, Handler>::Read`

Entry point: `readNL data flags objsel : Result` (header delivered, notifications delivered in order,
outcome).  Everything below is a line-by-line transcription of include/mp/nl-reader.h /
src/nl-reader.cc at the pinned commit; see design_notes/C02.md for the list of reproduced quirks.

Conventions
* `P α` is the parser monad: cursor state + the list of notifications delivered so far (newest first).
  Reader primitives (`L α`, ModelLex) cannot touch the notification list.
* recursion: expression readers recurse on `fuel`; every level starts with `ReadChar`, so
  `fuel = len + 2` can never run out (`C02_total`).
* host assumptions: LP64, little-endian IEEE (`arith::GetKind() = IEEE_LITTLE_ENDIAN`).
-/
namespace MpVerif.C02
open MpVerif.Gen.Opcodes

structure PState where
  r : RState
  evs : List Ev      -- newest first

inductive PRes (α : Type) where
  | ok (a : α) (s : PState)
  | err (e : Err) (evs : List Ev)
  | ub (u : UB) (evs : List Ev)
  | fuel

abbrev P (α : Type) := PState → PRes α

@[inline] def P.pure (a : α) : P α := fun s => .ok a s
@[inline] def P.bind (x : P α) (f : α → P β) : P β := fun s =>
  match x s with
  | .ok a s' => f a s'
  | .err e evs => .err e evs
  | .ub u evs => .ub u evs
  | .fuel => .fuel

instance : Monad P where
  pure := P.pure
  bind := P.bind

/-- run a reader primitive -/
def lift (f : L α) : P α := fun s =>
  match f s.r with
  | .ok a r => .ok a { s with r := r }
  | .err e => .err e s.evs
  | .ub u => .ub u s.evs

/-- deliver a notification to the handler -/
def emit (e : Ev) : P Unit := fun s => .ok () { s with evs := e :: s.evs }

def outOfFuel : P α := fun _ => .fuel
def pub (u : UB) : P α := fun s => .ub u s.evs
def getR : P RState := fun s => .ok s.r s
def setR (r : RState) : P Unit := fun s => .ok () { s with r := r }

/-- `for (int i = 0; i < n; ++i) body(i)` -/
def forN : (n : Nat) → (i : Nat) → (body : Nat → P Unit) → P Unit
  | 0, _, _ => pure ()
  | n + 1, i, body => do body i; forN n (i + 1) body

/-- static context of one `NLReader` instance -/
structure Env where
  inp : Inp
  k : RKind
  h : Header
  flags : Nat
  /-- `none`: the handler needs every objective; `some k`: `NeedObj(i) = (i == k)`, resulting index 0 -/
  objsel : Option Nat

def Env.needObj (cx : Env) (i : Nat) : Bool := match cx.objsel with | none => true | some k => i == k
def Env.resObj (cx : Env) (i : Nat) : Nat := match cx.objsel with | none => i | some _ => 0

inductive Mode | sym | num (ignoreZero : Bool) | log
deriving Repr, BEq, DecidableEq

/-! ### the guards of `NLReader` / `ReadHeader` as named predicates (tied to the source by `Gen/NLGuards.lean`,
    theorems `C02_gen_*` in GenTie.lean) -/
namespace G
/-- `ReadUInt(unsigned ub)`: `unsigned_value >= ub` -/
abbrev oob (v ub : Nat) : Prop := v ≥ ub
/-- `ReadUInt(unsigned lb, unsigned ub)`: `unsigned_value < lb || unsigned_value >= ub` -/
abbrev oobLU (v lb ub : Nat) : Prop := v < lb ∨ v ≥ ub
/-- `ReadNumArgs`: `num_args < min_args` -/
abbrev fewArgs (n minArgs : Nat) : Prop := n < minArgs
/-- `ReadReference`: `reader_.ReadChar() != 'v'` -/
abbrev notRef (c : UInt8) : Bool := c != 118
/-- `ReadOpCode`: `opcode > MAX_OPCODE` -/
abbrev badOpcode (opcode : Nat) : Prop := opcode > MpVerif.Gen.Opcodes.maxOpcode
/-- PL term: `num_slopes <= 1` -/
abbrev fewSlopes (n : Nat) : Prop := n ≤ 1
/-- logical count: `c != 'o'`, then `GetOpCodeInfo(opcode).kind != expr::COUNT` -/
abbrev notOp (c : UInt8) : Bool := c != 111
abbrev notCountKind (kind : Nat) : Bool := kind != MpVerif.Gen.Opcodes.kCOUNT
/-- COMPL bound: `var_index == 0 || var_index > header_.num_vars` -/
abbrev badComplVar (v numVars : Nat) : Bool := v == 0 || v > numVars
/-- column sizes: `reader_.ReadUInt() != header_.num_vars - 1` (in `int`: never equal when `num_vars = 0`) -/
abbrev badNumSizes (v numVars : Nat) : Prop := numVars = 0 ∨ v != numVars - 1
/-- cumulative column sizes: `size < prev_size` -/
abbrev badOffset (size prev : Nat) : Prop := size < prev
/-- initial values: `num_values > vh.num_items()` -/
abbrev tooManyInit (n numItems : Nat) : Prop := n > numItems
/-- `F` segment: `type != func::NUMERIC && type != func::SYMBOLIC` -/
abbrev badFuncType (t : Nat) : Bool := t != 0 && t != 1
/-- `S` segment: `info > (SUFFIX_KIND_MASK | suf::FLOAT)` -/
abbrev badSuffixKind (info : Nat) : Prop := info > (MpVerif.Gen.Opcodes.kSUFFIX_KIND_MASK ||| MpVerif.Gen.Opcodes.kSUF_FLOAT)
/-- header: `num_ampl_options > MAX_AMPL_OPTIONS` -/
abbrev tooManyOptions (n : Nat) : Prop := n > MpVerif.Gen.Opcodes.kMAX_AMPL_OPTIONS
/-- header: `num_logical_cons > INT_MAX - num_algebraic_cons` -/
abbrev conOverflow (numLogical numAlgebraic : Nat) : Prop := numLogical + numAlgebraic > 2147483647
/-- header: `num_compl_conds > INT_MAX - num_nl_compl_conds` -/
abbrev complOverflow (cc ncc : Nat) : Prop := cc + ncc > 2147483647
/-- header: `arith_kind > arith::LAST` -/
abbrev badArith (ak : Nat) : Prop := ak > MpVerif.Gen.Opcodes.kARITH_LAST
/-- segment letters with their own `case` in `NLReader::Read` (besides `b` and NUL) -/
def segmentLetters : List UInt8 := [67, 76, 79, 86, 70, 71, 74, 83, 114, 75, 107, 120, 100]
end G

section
variable (cx : Env)

def fail (cls : ErrCls) : P α := lift (rReport cx.inp cx.k cls)
def rdChar : P UInt8 := lift (readChar cx.inp)
def rdUInt : P Nat := lift (rReadUInt cx.inp cx.k)
def rdInt (bits : Nat) : P Int := lift (rReadInt cx.inp cx.k bits)
def rdDouble : P F64 := lift (rReadDouble cx.inp cx.k)
def rdString : P (List UInt8) := lift (rReadString cx.inp cx.k)
def rdName : P (List UInt8) := lift (rReadName cx.inp cx.k)
def eol : P Unit := lift (rEol cx.inp cx.k)

/-- `NLReader::ReadUInt(unsigned ub)` -/
def readUIntUB (ub : Nat) : P Nat := do
  let v ← rdUInt cx
  if G.oob v ub then fail cx .oob else pure v

/-- `NLReader::ReadUInt(unsigned lb, unsigned ub)` -/
def readUIntLU (lb ub : Nat) : P Nat := do
  let v ← rdUInt cx
  if G.oobLU v lb ub then fail cx .oob else pure v

/-- `NLReader::ReadNumArgs(min_args)` -/
def readNumArgs (minArgs : Nat) : P Nat := do
  let n ← rdUInt cx
  if G.fewArgs n minArgs then fail cx .fewargs else pure n

/-- `NLReader::DoReadReference` -/
def doReadReference : P Unit := do
  let index ← readUIntUB cx (Site.ubRef cx.h)
  eol cx
  if index < cx.h.num_vars then emit (.varRef index) else emit (.commonRef (index - cx.h.num_vars))

/-- `NLReader::ReadReference` -/
def readReference : P Unit := do
  let c ← rdChar cx
  if G.notRef c then fail cx .ref else doReadReference cx

/-- `NLReader::ReadOpCode` -/
def readOpCode : P Nat := do
  let opcode ← rdUInt cx
  if G.badOpcode opcode then fail cx .opcode else do
  eol cx
  pure opcode

/-- `NLReader::ReadConstant(char code)` -/
def readConstant (code : UInt8) : P F64 := do
  let v ← (if code == 110 then rdDouble cx
    else if code == 115 then do let i ← rdInt cx 16; pure (intToF64 i)
    else if code == 108 then do let i ← rdInt cx 32; pure (intToF64 i)   -- sizeof(double) == 2*sizeof(int)
    else fail cx .const)
  eol cx
  pure v

def opKind (op : Nat) : Nat := (table.getD op (0, 0)).1
def opFirstKind (op : Nat) : Nat := (table.getD op (0, 0)).2

/-- `NLReader::ReadCountExpr` -/
def readCountExpr (rec : Mode → P Unit) : P Unit := do
  let n ← readNumArgs cx 1
  emit (.beginCount n)
  eol cx
  forN n 0 fun _ => do rec .log; emit .addArg
  emit .endCount

/-- `NLReader::ReadNumericExpr(int opcode)` -/
def readNumericOp (rec : Mode → P Unit) (opcode : Nat) : P Unit := do
  let kind := opKind opcode
  let fk := opFirstKind opcode
  if fk == kFIRST_UNARY then do
    rec (.num false); emit (.unary kind)
  else if fk == kFIRST_BINARY then do
    rec (.num false); rec (.num false); emit (.binary kind)
  else if fk == kIF then do
    rec .log; rec (.num false); rec (.num false); emit .ifExpr
  else if fk == kPLTERM then do
    let numSlopes ← rdUInt cx
    if G.fewSlopes numSlopes then fail cx .slopes else do
    eol cx
    emit (.beginPL (numSlopes - 1))
    forN (numSlopes - 1) 0 fun _ => do
      let c ← rdChar cx; let s ← readConstant cx c; emit (.slope s)
      let c ← rdChar cx; let b ← readConstant cx c; emit (.breakpoint b)
    let c ← rdChar cx; let s ← readConstant cx c; emit (.slope s)
    readReference cx
    emit .endPL
  else if fk == kFIRST_VARARG then do
    let n ← readNumArgs cx 1
    emit (.beginVarArg kind n)
    eol cx
    forN n 0 fun _ => do rec (.num false); emit .addArg
    emit .endVarArg
  else if fk == kSUM then do
    let n ← readNumArgs cx 3
    emit (.beginSum n)
    eol cx
    forN n 0 fun _ => do rec (.num false); emit .addArg
    emit .endSum
  else if fk == kCOUNT then readCountExpr cx rec
  else if fk == kNUMBEROF then do
    let n ← readNumArgs cx 1
    eol cx
    rec (.num false)
    emit (.beginNumberOf n)
    forN (n - 1) 0 fun _ => do rec (.num false); emit .addArg
    emit .endNumberOf
  else if fk == kNUMBEROF_SYM then do
    let n ← readNumArgs cx 1
    eol cx
    rec .sym
    emit (.beginSymNumberOf n)
    forN (n - 1) 0 fun _ => do rec .sym; emit .addArg
    emit .endSymNumberOf
  else fail cx .numop

/-- `NLReader::ReadNumericExpr(char code, bool ignore_zero)` -/
def readNumericC (rec : Mode → P Unit) (code : UInt8) (ignoreZero : Bool) : P Unit := do
  if code == 102 then do            -- 'f'
    let f ← readUIntUB cx (Site.ubCall cx.h)
    let n ← rdUInt cx
    eol cx
    emit (.beginCall f n)
    forN n 0 fun _ => do rec .sym; emit .addArg
    emit .endCall
  else if code == 110 || code == 108 || code == 115 then do   -- 'n' 'l' 's'
    let v ← readConstant cx code
    if ignoreZero && F64.isZero v then pure () else emit (.number v)
  else if code == 111 then do       -- 'o'
    let op ← readOpCode cx
    readNumericOp cx rec op
  else if code == 118 then doReadReference cx   -- 'v'
  else fail cx .expr

/-- `NLReader::ReadLogicalExpr(int opcode)` -/
def readLogicalOp (rec : Mode → P Unit) (opcode : Nat) : P Unit := do
  let kind := opKind opcode
  let fk := opFirstKind opcode
  if fk == kNOT then do
    rec .log; emit .not
  else if fk == kFIRST_BINARY_LOGICAL then do
    rec .log; rec .log; emit (.binaryLogical kind)
  else if fk == kFIRST_RELATIONAL then do
    rec (.num false); rec (.num false); emit (.relational kind)
  else if fk == kFIRST_LOGICAL_COUNT then do
    rec (.num false)
    let c ← rdChar cx
    if G.notOp c then fail cx .count else do
    let op ← readOpCode cx
    if G.notCountKind (opKind op) then fail cx .count else do
    readCountExpr cx rec
    emit (.logicalCount kind)
  else if fk == kIMPLICATION then do
    rec .log; rec .log; rec .log; emit .implication
  else if fk == kFIRST_ITERATED_LOGICAL then do
    let n ← readNumArgs cx 3
    emit (.beginIterLogical kind n)
    eol cx
    forN n 0 fun _ => do rec .log; emit .addArg
    emit .endIterLogical
  else if fk == kFIRST_PAIRWISE then do
    let n ← readNumArgs cx 1
    emit (.beginPairwise kind n)
    eol cx
    forN n 0 fun _ => do rec (.num false); emit .addArg
    emit .endPairwise
  else fail cx .logop

/-- `ReadSymbolicExpr` / `ReadNumericExpr(bool)` / `ReadLogicalExpr()`: one level of expression nesting -/
def readExpr : (fuel : Nat) → Mode → P Unit
  | 0, _ => outOfFuel
  | fuel + 1, .sym => do
    let c ← rdChar cx
    if c == 104 then do             -- 'h'
      let s ← rdString cx
      emit (.string s)
    else if c == 111 then do        -- 'o'
      let op ← readOpCode cx
      if op != knl_opcode_IFSYM then readNumericOp cx (readExpr fuel) op
      else do
        readExpr fuel .log; readExpr fuel .sym; readExpr fuel .sym
        emit .symbolicIf
    else readNumericC cx (readExpr fuel) c false
  | fuel + 1, .num iz => do
    let c ← rdChar cx
    readNumericC cx (readExpr fuel) c iz
  | fuel + 1, .log => do
    let c ← rdChar cx
    if c == 110 || c == 108 || c == 115 then do
      let v ← readConstant cx c
      emit (.bool (!F64.isZero v))
    else if c == 111 then do
      let op ← readOpCode cx
      readLogicalOp cx (readExpr fuel) op
    else fail cx .logical

def exprFuel : Nat := cx.inp.len + 2

/-- `NLReader::ReadLinearExpr(int num_terms, LinearHandler)`; `silent`: `NullLinearExprHandler` -/
def readLinearTerms (n : Nat) (silent : Bool) : P Unit :=
  forN n 0 fun _ => do
    let v ← readUIntUB cx (Site.ubTermVar cx.h)
    let coef ← rdDouble cx
    eol cx
    if silent then pure () else emit (.addTerm v coef)

/-- `NLReader::ReadLinearExpr<LinearHandler>()` (`isObj`: `ObjHandler`, else `AlgebraicConHandler`) -/
def readLinearExpr (isObj : Bool) : P Unit := do
  let index ← readUIntUB cx (Site.itemsSeg cx.h (if isObj then 71 else 74))   -- LinearHandler::num_items()
  let n ← readUIntLU cx Site.lbTerms (Site.ubTerms cx.h)
  eol cx
  if isObj && !cx.needObj index then readLinearTerms cx n true
  else do
    emit (if isObj then .linearObj (cx.resObj index) n else .linearCon index n)
    readLinearTerms cx n false

/-- `NLReader::ReadBounds<BoundHandler>()` (`isCon`: `AlgebraicConHandler`, else `VarHandler`) -/
def readBounds (isCon : Bool) : P Unit := do
  eol cx
  let inf : F64 := F64.inf
  let ninf : F64 := F64.inf + 2 ^ 63
  forN (Site.itemsSeg cx.h (if isCon then 114 else 98)) 0 fun i => do    -- BoundHandler::num_items()
    let c ← rdChar cx
    let finish (lb ub : F64) : P Unit := do
      eol cx
      emit (if isCon then .conBounds i lb ub else .varBounds i lb ub)
    if c == 48 then do let lb ← rdDouble cx; let ub ← rdDouble cx; finish lb ub
    else if c == 49 then do let ub ← rdDouble cx; finish ninf ub
    else if c == 50 then do let lb ← rdDouble cx; finish lb inf
    else if c == 51 then finish ninf inf
    else if c == 52 then do let v ← rdDouble cx; finish v v
    else if c == 53 then
      if isCon then do
        let flags ← rdInt cx 32
        let v ← rdUInt cx
        if G.badComplVar v cx.h.num_vars then fail cx .oob else do
        emit (.complementarity i (v - 1) (flags % 4).toNat)
        eol cx
      else fail cx .complvar
    else fail cx .bound

/-- `NLReader::ReadColumnSizes<CUMULATIVE>()` -/
def readColumnSizes (cumulative : Bool) : P Unit := do
  let v ← rdUInt cx
  -- num_sizes = num_vars - 1 is -1 for num_vars = 0, which no unsigned value equals
  if G.badNumSizes v cx.h.num_vars then fail cx .expectn else do
  eol cx
  emit .columnSizes
  let rec loop : (n : Nat) → (prev : Nat) → P Unit
    | 0, _ => pure ()
    | n + 1, prev => do
      let size ← rdUInt cx
      if cumulative then
        if G.badOffset size prev then fail cx .coloff else do
        emit (.colSize (size - prev)); eol cx
        loop n size
      else do
        emit (.colSize size); eol cx
        loop n prev
  loop (cx.h.num_vars - 1) 0

/-- `NLReader::ReadInitialValues<ValueHandler>()` (`isCon`: dual values) -/
def readInitialValues (isCon : Bool) : P Unit := do
  let numItems := Site.itemsSeg cx.h (if isCon then 100 else 120)   -- ValueHandler::num_items()
  let n ← rdUInt cx
  if G.tooManyInit n numItems then fail cx .manyinit else do
  eol cx
  forN n 0 fun _ => do
    let index ← readUIntUB cx numItems
    let v ← rdDouble cx
    emit (if isCon then .initDual index v else .initVal index v)
    eol cx

/-- the `'S'` case of `NLReader::Read` + `ReadSuffix<ItemInfo>(info)` -/
def readSuffix : P Unit := do
  let info ← rdUInt cx
  if G.badSuffixKind info then fail cx .sufkind else do
  let kind := info % 4
  -- ConHandler::num_items() cannot overflow (ReadHeader checks the sum); ReadUInt(1, num_items + 1u)
  let numItems := Site.itemsSuffix cx.h kind   -- ItemInfo::num_items()
  let n ← readUIntLU cx 1 (numItems + 1)
  let name ← rdName cx
  eol cx
  if (info &&& kSUF_FLOAT) != 0 then do
    emit (.dblSuffix name kind n)
    forN n 0 fun _ => do
      let index ← readUIntUB cx numItems
      let v ← rdDouble cx
      emit (.setDbl index v)
      eol cx
  else do
    emit (.intSuffix name kind n)
    forN n 0 fun _ => do
      let index ← readUIntUB cx numItems
      let v ← rdInt cx 32
      emit (.setInt index v)
      eol cx

/-- one segment other than `b` and end of input -/
def readSegment (c : UInt8) : P Unit := do
  if c == 67 then do          -- 'C'
    let index ← readUIntUB cx (Site.ubC cx.h)
    eol cx
    readExpr cx (exprFuel cx) (.num true)
    emit (.algCon index)
  else if c == 76 then do     -- 'L'
    let index ← readUIntUB cx (Site.ubL cx.h)
    eol cx
    readExpr cx (exprFuel cx) .log
    emit (.logCon index)
  else if c == 79 then do     -- 'O'
    let index ← readUIntUB cx (Site.ubO cx.h)
    let objType ← rdUInt cx
    eol cx
    readExpr cx (exprFuel cx) (.num true)
    if cx.needObj index then emit (.obj (cx.resObj index) (objType != 0)) else pure ()
  else if c == 86 then do     -- 'V'
    let idx ← readUIntLU cx (Site.lbV cx.h) (Site.ubV cx.h)
    let idx := idx - cx.h.num_vars
    let nlt ← rdUInt cx
    let position ← rdUInt cx
    eol cx
    emit (.beginCommonExpr idx nlt)
    if nlt != 0 then readLinearTerms cx nlt false else pure ()
    readExpr cx (exprFuel cx) (.num false)
    emit (.endCommonExpr idx position)
  else if c == 70 then do     -- 'F'
    let index ← readUIntUB cx (Site.ubF cx.h)
    let type ← rdUInt cx
    if G.badFuncType type then fail cx .functype else do
    let nargs ← rdInt cx 32
    let name ← rdName cx
    eol cx
    emit (.function index name nargs type)
  else if c == 71 then readLinearExpr cx true        -- 'G'
  else if c == 74 then readLinearExpr cx false       -- 'J'
  else if c == 83 then readSuffix cx                 -- 'S'
  else if c == 114 then readBounds cx true           -- 'r'
  else if c == 75 then readColumnSizes cx false      -- 'K'
  else if c == 107 then readColumnSizes cx true      -- 'k'
  else if c == 120 then readInitialValues cx false   -- 'x'
  else if c == 100 then readInitialValues cx true    -- 'd'
  else fail cx .segment

/-- `NLReader::Read(Reader *bound_reader)`: the segment loop.  `readBounds` = the local `read_bounds`,
    `br` = `bound_reader`.  Returns when the input ends (or, in the first pass of
    `READ_BOUNDS_FIRST`, right after the `b` segment). -/
def readLoop : (fuel : Nat) → (readBnds : Bool) → (br : Option RState) → P Unit
  | 0, _, _ => outOfFuel
  | fuel + 1, readBnds, br => do
    let c ← rdChar cx
    if c == 98 then             -- 'b'
      if readBnds then do
        readBounds cx false
        if cx.flags % 2 == 1 then pure () else readLoop fuel false br
      else match br with
        | none => fail cx .dupb
        | some r => do setR r; readLoop fuel false none
    else if c == 0 then do
      let r ← getR
      if r.pos == cx.inp.len + 1 then     -- IsEOF()
        if readBnds then fail cx .nob else pure ()
      else fail cx .segment
    else do
      readSegment cx c
      readLoop fuel readBnds br

end

/-! ### ReadHeader -/

section
variable (inp : Inp)

def readOptions : (n i : Nat) → List Int → L (List Int)
  | 0, _, opts => pure opts
  | n + 1, i, opts => do
    match ← tReadOptionalDouble inp with
    | none => pure opts
    | some tmp =>
      -- `if (!(tmp >= -2^63 && tmp < 2^63)) break;` (NaN, ±inf, out of range: option left unchanged)
      match F64.toLong tmp with
      | none => pure opts
      | some (v, exact) =>
        let opts := opts.set i v
        if exact then readOptions n (i + 1) opts else pure opts

/-- last header line: the five common-expression counts, read with `ReadUInt(int &accumulator)` so that the
    running total `max_vars = num_vars + c1 + .. + ck` is checked against `INT_MAX` after every count
    (variable/common-expression indices go from 0 to that total) -/
def readCommonExprs (h : Header) : L Header := do
  let (c1, acc) ← tReadUIntAcc inp (Site.accInit h)
  let (c2, acc) ← tReadUIntAcc inp acc
  let (c3, acc) ← tReadUIntAcc inp acc
  let (c4, acc) ← tReadUIntAcc inp acc
  let (c5, _) ← tReadUIntAcc inp acc
  tReadTillEndOfLine inp
  pure { h with cexprs_both := c1, cexprs_cons := c2, cexprs_objs := c3, cexprs_single_cons := c4,
                cexprs_single_objs := c5 }

/-- `TextReader::ReadHeader` -/
def readHeader : L Header := do
  let c ← readChar inp
  let fmt ← (if c == 103 then pure 0 else if c == 98 then pure 1 else tReport inp .format : L Nat)
  let h : Header := { format := fmt }
  let n? ← tReadOptionalUInt inp
  let nopts := n?.getD h.num_ampl_options
  if G.tooManyOptions nopts then tReport inp .manyopts else do
  let opts ← readOptions inp nopts 0 h.ampl_options
  let vb? ← (if opts.getD 1 0 == 3 then tReadOptionalDouble inp else pure none : L (Option F64))
  tReadTillEndOfLine inp
  let h := { h with num_ampl_options := nopts, ampl_options := opts, ampl_vbtol := vb?.getD 0 }
  -- problem dimensions
  let num_vars ← tReadUInt inp
  let num_algebraic_cons ← tReadUInt inp
  let num_objs ← tReadUInt inp
  let ranges? ← tReadOptionalUInt inp
  let eqns? ← (if ranges?.isSome then tReadOptionalUInt inp else pure none : L (Option Nat))
  let lcons? ← (if eqns?.isSome then tReadOptionalUInt inp else pure none : L (Option Nat))
  -- suffixes on constraints address algebraic and logical constraints together
  if G.conOverflow (lcons?.getD 0) num_algebraic_cons then tReport inp .ioverflow else do
  tReadTillEndOfLine inp
  let h := { h with num_vars, num_algebraic_cons, num_objs, num_ranges := ranges?.getD 0,
                    num_eqns := match eqns? with | some e => (e : Int) | none => -1,
                    num_logical_cons := lcons?.getD 0 }
  -- nonlinear and complementarity information
  let num_nl_cons ← tReadUInt inp
  let num_nl_objs ← tReadUInt inp
  let cc? ← tReadOptionalUInt inp
  let ncc? ← (if cc?.isSome then tReadOptionalUInt inp else pure none : L (Option Nat))
  let di? ← (if ncc?.isSome then tReadOptionalUInt inp else pure none : L (Option Nat))
  let nz? ← (if di?.isSome then tReadOptionalUInt inp else pure none : L (Option Nat))
  let allCompl := nz?.isSome
  let num_nl_compl_conds := ncc?.getD 0
  let num_compl_conds := cc?.getD 0 + num_nl_compl_conds
  if G.complOverflow (cc?.getD 0) num_nl_compl_conds then tReport inp .ioverflow else do
  tReadTillEndOfLine inp
  let h := { h with num_nl_cons, num_nl_objs, num_compl_conds, num_nl_compl_conds,
                    num_compl_dbl_ineqs := if num_compl_conds > 0 && !allCompl then -1 else ((di?.getD 0 : Nat) : Int),
                    num_compl_vars_with_nz_lb := nz?.getD 0 }
  -- network constraints
  let num_nl_net_cons ← tReadUInt inp
  let num_linear_net_cons ← tReadUInt inp
  tReadTillEndOfLine inp
  -- nonlinear variables
  let num_nl_vars_in_cons ← tReadUInt inp
  let num_nl_vars_in_objs ← tReadUInt inp
  let both? ← tReadOptionalUInt inp
  tReadTillEndOfLine inp
  let h := { h with num_nl_net_cons, num_linear_net_cons, num_nl_vars_in_cons, num_nl_vars_in_objs,
                    num_nl_vars_in_both := match both? with | some b => (b : Int) | none => -1 }
  let num_linear_net_vars ← tReadUInt inp
  let num_funcs ← tReadUInt inp
  let ak? ← tReadOptionalUInt inp
  let (arith_kind, flags) ← (match ak? with
    | some ak =>
      if G.badArith ak then tReport inp .arith else do
      let fl? ← tReadOptionalUInt inp
      pure (ak, fl?.getD h.flags)
    | none => pure (h.arith_kind, h.flags) : L (Nat × Nat))
  tReadTillEndOfLine inp
  let h := { h with num_linear_net_vars, num_funcs, arith_kind, flags }
  -- discrete variables
  let num_linear_binary_vars ← tReadUInt inp
  let num_linear_integer_vars ← tReadUInt inp
  let (ib, ic, io) ← (if both?.isSome then do
      let a ← tReadUInt inp; let b ← tReadUInt inp; let c ← tReadUInt inp; pure (a, b, c)
    else pure (0, 0, 0) : L (Nat × Nat × Nat))
  tReadTillEndOfLine inp
  let h := { h with num_linear_binary_vars, num_linear_integer_vars, num_nl_integer_vars_in_both := ib,
                    num_nl_integer_vars_in_cons := ic, num_nl_integer_vars_in_objs := io }
  -- nonzeros
  let num_con_nonzeros ← tReadUIntSize inp
  let num_obj_nonzeros ← tReadUIntSize inp
  tReadTillEndOfLine inp
  -- names
  let max_con_name_len ← tReadUInt inp
  let max_var_name_len ← tReadUInt inp
  tReadTillEndOfLine inp
  -- common expressions
  readCommonExprs inp { h with num_con_nonzeros, num_obj_nonzeros, max_con_name_len, max_var_name_len }

end

/-! ### ReadNLString -/

inductive Outcome | ok | err (e : Err) | ub (u : UB) | fuel
deriving Repr, BEq, DecidableEq

def Outcome.toStr : Outcome → String
  | .ok => "ok" | .err e => e.toStr | .ub u => u.toStr | .fuel => "model-out-of-fuel"

/-- what the handler saw (`header` first, then `evs` in delivery order) and how the call ended -/
structure Result where
  outcome : Outcome
  header : Option Header
  evs : List Ev
deriving Repr, BEq, DecidableEq

def isVarBounds : Ev → Bool | .varBounds .. => true | _ => false

def loopFuel (inp : Inp) : Nat := 2 * inp.len + 4

/-- `NLReader::Read()` on a state whose notification list is `evs0` -/
def readBody (cx : Env) (s : PState) : PRes Unit :=
  if cx.flags % 2 == 1 then
    -- first pass: `VarBoundHandler` forwards OnVarBounds only; it needs every objective
    let cx1 : Env := { cx with objsel := none }
    match readLoop cx1 (loopFuel cx.inp) true none { r := s.r, evs := [] } with
    | .ok _ s1 =>
      let s2 : PState := { r := s.r, evs := s1.evs.filter isVarBounds ++ s.evs }
      (do readLoop cx (loopFuel cx.inp) false (some s1.r); emit .endInput : P Unit) s2
    | .err e evs1 => .err e (evs1.filter isVarBounds ++ s.evs)
    | .ub u evs1 => .ub u (evs1.filter isVarBounds ++ s.evs)
    | .fuel => .fuel
  else (do readLoop cx (loopFuel cx.inp) true none; emit .endInput : P Unit) s

def finish (h : Header) : PRes Unit → Result
  | .ok _ s => ⟨.ok, some h, s.evs.reverse⟩
  | .err e evs => ⟨.err e, some h, evs.reverse⟩
  | .ub u evs => ⟨.ub u, some h, evs.reverse⟩
  | .fuel => ⟨.fuel, some h, []⟩

/-- `mp::ReadNLString(str, handler, name, flags)` for an `NLStringRef` `inp` -/
def readNLInp (inp : Inp) (flags : Nat) (objsel : Option Nat) : Result :=
  match readHeader inp ⟨0, 0, 0, 1⟩ with
  | .err e => ⟨.err e, none, []⟩
  | .ub u => ⟨.ub u, none, []⟩
  | .ok h r =>
    if h.format == 0 then
      finish h (readBody ⟨inp, .text, h, flags, objsel⟩ ⟨r, []⟩)
    else if h.arith_kind == 1 then        -- arith::GetKind() == header.arith_kind
      finish h (readBody ⟨inp, .bin false, h, flags, objsel⟩ ⟨r, []⟩)
    else if h.arith_kind == 2 then        -- the other IEEE byte order
      finish h (readBody ⟨inp, .bin true, h, flags, objsel⟩ ⟨r, []⟩)
    else ⟨.err ⟨.unsarith, false, 0, 0⟩, some h, []⟩

/-- `mp::ReadNLString(NLStringRef(data, size), handler, name, flags)` on the bytes `data` -/
def readNL (data : ByteArray) (flags : Nat) (objsel : Option Nat) : Result :=
  readNLInp (Inp.ofBytes data) flags objsel

/-! ### NLFileReader::Read -/

/-- `NLFileReader<>::Read(filename, handler, flags)` on a file with the bytes `content` and page size
    `pageSize`: `Open` rounds the size up to a page multiple; if the size already is one, the file is copied
    into a `size + 1` buffer with a NUL appended (copy path); otherwise it is mapped and the rest of the last
    page is zero-filled by the OS (mmap path).  Both paths call `ReadNLString(NLStringRef(buf, size), handler,
    filename, flags)`. -/
def fileBuffer (content : ByteArray) (pageSize : Nat) : Array UInt8 :=
  let size := content.size
  let remainder := size % pageSize
  let rounded := if remainder != 0 then size + pageSize - remainder else size
  if size == rounded then content.data.push 0
  else content.data ++ Array.replicate (rounded - size) 0

theorem pushBuf_nul (a : Array UInt8) : ∀ p, a.size ≤ p → bufRd (a.push 0) p = 0 := by
  intro p hp
  unfold bufRd
  split
  · rename_i hlt
    rw [Array.getElem_push]
    split
    · omega
    · rfl
  · rfl

theorem padBuf_nul (a : Array UInt8) (k : Nat) : ∀ p, a.size ≤ p → bufRd (a ++ Array.replicate k 0) p = 0 := by
  intro p hp
  unfold bufRd
  split
  · rename_i hlt
    rw [Array.getElem_append]
    split
    · omega
    · simp
  · rfl

theorem fileBuffer_nul (content : ByteArray) (pageSize : Nat) :
    ∀ p, content.size ≤ p → bufRd (fileBuffer content pageSize) p = 0 := by
  intro p hp
  have hsz : content.data.size = content.size := rfl
  unfold fileBuffer
  simp only
  generalize (if (content.size % pageSize != 0) = true then content.size + pageSize - content.size % pageSize
    else content.size) = rounded
  by_cases h : (content.size == rounded) = true
  · rw [if_pos h]; exact pushBuf_nul content.data p (by omega)
  · rw [if_neg h]; exact padBuf_nul content.data _ p (by omega)

def readNLFile (content : ByteArray) (pageSize : Nat) (flags : Nat) (objsel : Option Nat) : Result :=
  let size := content.size
  let remainder := size % pageSize
  let rounded := if remainder != 0 then size + pageSize - remainder else size
  if size == rounded then
    -- copy path
    readNLInp ⟨bufRd (fileBuffer content pageSize), size, fileBuffer_nul content pageSize⟩ flags objsel
  else
    -- mmap path
    readNLInp ⟨bufRd (fileBuffer content pageSize), size, fileBuffer_nul content pageSize⟩ flags objsel

end MpVerif.C02

import MpVerif.C02.ModelSites
/-!
# C02 lemmas: what the consistency proof needs from the generated call-site bounds

(kept apart from ModelSites.lean so that the driver still builds - and the correspondence still searches for a failing
input - when a changed bound in the source makes these lemmas fail)
-/
namespace MpVerif.C02
open MpVerif.CSem MpVerif.Gen.NLGuards

theorem siteVal_conv (x : Nat) : siteVal (.ret (conv tU (x : Int))) = x % 4294967296 := by
  have : conv tU (x : Int) = (x : Int) % 4294967296 := by simp [conv, tU, CTy.wrap]
  simp only [siteVal, this]
  omega

/-! what the consistency proof needs: every bound is at most the header field it is meant to be -/

theorem Site.ubC_le (h : Header) : Site.ubC h ≤ h.num_algebraic_cons := by
  have := siteVal_conv h.num_algebraic_cons
  simp only [Site.ubC, site_NLReader_Read_1_ub, bound_NLReader_Read_1_ub, hdrOf]; omega
theorem Site.ubL_le (h : Header) : Site.ubL h ≤ h.num_logical_cons := by
  have := siteVal_conv h.num_logical_cons
  simp only [Site.ubL, site_NLReader_Read_2_ub, bound_NLReader_Read_2_ub, hdrOf]; omega
theorem Site.ubO_le (h : Header) : Site.ubO h ≤ h.num_objs := by
  have := siteVal_conv h.num_objs
  simp only [Site.ubO, site_NLReader_Read_3_ub, bound_NLReader_Read_3_ub, hdrOf]; omega
theorem Site.ubF_le (h : Header) : Site.ubF h ≤ h.num_funcs := by
  have := siteVal_conv h.num_funcs
  simp only [Site.ubF, site_NLReader_Read_5_ub, bound_NLReader_Read_5_ub, hdrOf]; omega
theorem Site.ubCall_le (h : Header) : Site.ubCall h ≤ h.num_funcs := by
  have := siteVal_conv h.num_funcs
  simp only [Site.ubCall, site_NLReader_ReadNumericExpr_c_b_1_ub, bound_NLReader_ReadNumericExpr_c_b_1_ub, hdrOf]; omega
theorem Site.ubRef_le (h : Header) : Site.ubRef h ≤ h.num_vars_and_exprs := by
  have := siteVal_conv h.num_vars_and_exprs
  simp only [Site.ubRef, site_NLReader_DoReadReference_1_ub, bound_NLReader_DoReadReference_1_ub, hdrOf]; omega
theorem Site.ubTermVar_le (h : Header) : Site.ubTermVar h ≤ h.num_vars := by
  have := siteVal_conv h.num_vars
  simp only [Site.ubTermVar, site_NLReader_ReadLinearExpr_i_1_ub, bound_NLReader_ReadLinearExpr_i_1_ub, hdrOf]; omega
theorem Site.lbTerms_eq : Site.lbTerms = 1 := by unfold Site.lbTerms; decide
theorem Site.ubTerms_le (h : Header) : Site.ubTerms h ≤ h.num_vars + 1 := by
  have e : conv tU (h.num_vars : Int) = (h.num_vars : Int) % 4294967296 := by simp [conv, tU, CTy.wrap]
  simp only [Site.ubTerms, site_NLReader_ReadLinearExpr_2_ub, bound_NLReader_ReadLinearExpr_2_ub, hdrOf, cadd, arith, e]
  simp only [tU, CTy.wrap, Bool.false_eq_true, ↓reduceIte, siteVal]
  omega
/-- `V` segment: an index accepted between the two bounds denotes a declared common expression -/
theorem Site.V_index (h : Header) (idx : Nat) (h1 : Site.lbV h ≤ idx) (h2 : idx < Site.ubV h) :
    idx - h.num_vars < h.num_common_exprs := by
  have a := siteVal_conv h.num_vars
  have b := siteVal_conv h.num_vars_and_exprs
  simp only [Site.lbV, Site.ubV, site_NLReader_Read_4_lb, site_NLReader_Read_4_ub, bound_NLReader_Read_4_lb,
    bound_NLReader_Read_4_ub, hdrOf] at h1 h2
  simp only [Header.num_vars_and_exprs] at b h2
  omega

/-! item counts of the handler instantiated per segment letter / suffix kind -/

theorem siteVal_nat (x : Nat) : siteVal (.ret (x : Int)) = x := by simp [siteVal]

theorem Site.itemsSeg_G (h : Header) : Site.itemsSeg h 71 = h.num_objs := by
  unfold Site.itemsSeg; exact siteVal_nat _
theorem Site.itemsSeg_J (h : Header) : Site.itemsSeg h 74 = h.num_algebraic_cons := by
  unfold Site.itemsSeg; exact siteVal_nat _
theorem Site.itemsSeg_b (h : Header) : Site.itemsSeg h 98 = h.num_vars := by
  unfold Site.itemsSeg; exact siteVal_nat _
theorem Site.itemsSeg_r (h : Header) : Site.itemsSeg h 114 = h.num_algebraic_cons := by
  unfold Site.itemsSeg; exact siteVal_nat _
theorem Site.itemsSeg_x (h : Header) : Site.itemsSeg h 120 = h.num_vars := by
  unfold Site.itemsSeg; exact siteVal_nat _
theorem Site.itemsSeg_d (h : Header) : Site.itemsSeg h 100 = h.num_algebraic_cons := by
  unfold Site.itemsSeg; exact siteVal_nat _

/-- the suffix item count the reader uses is at most the declared one (equal unless `ConHandler::num_items()` would
    overflow `int`, which `ReadHeader` excludes) -/
theorem Site.itemsSuffix_le (h : Header) (kind : Nat) (hk : kind ≤ 3) : Site.itemsSuffix h kind ≤ h.suffixItems kind := by
  unfold Site.itemsSuffix
  have : kind = 0 ∨ kind = 1 ∨ kind = 2 ∨ kind = 3 := by omega
  rcases this with rfl | rfl | rfl | rfl
  · exact Nat.le_of_eq (siteVal_nat _)
  · show siteVal (items_ConHandler (hdrOf h)) ≤ _
    simp only [items_ConHandler, hdrOf, cadd, arith, Header.suffixItems]
    by_cases hr : tI.lo ≤ (h.num_algebraic_cons : Int) + h.num_logical_cons ∧ (h.num_algebraic_cons : Int) + h.num_logical_cons ≤ tI.hi
    · have e : tI.signed = true := rfl
      simp only [e, ↓reduceIte, hr, and_self, siteVal]
      omega
    · have e : tI.signed = true := rfl
      simp only [e, ↓reduceIte, hr, siteVal]
      omega
  · exact Nat.le_of_eq (siteVal_nat _)
  · exact Nat.le_of_eq (siteVal_nat _)

/-! the accumulating `ReadUInt(int &)` and the variable `ReadHeader` passes to it -/

theorem cadd_tI_nat (acc v : Nat) (h : ¬ G.accOverflow acc v) : cadd tI (acc : Int) (v : Int) = .ret ((acc + v : Nat) : Int) := by
  have h' : ¬ ((acc : Int) > (2147483647 : Int) - (v : Int)) := h
  have lo : tI.lo = -2147483648 := by decide
  have hi : tI.hi = 2147483647 := by decide
  have sg : tI.signed = true := rfl
  simp only [cadd, arith, sg, lo, hi, if_true]
  rw [if_pos (by constructor <;> omega)]
  simp
theorem Site.accNext_eq (acc v : Nat) (h : ¬ G.accOverflow acc v) : Site.accNext acc v = acc + v := by
  unfold Site.accNext acc_next
  rw [cadd_tI_nat acc v h]
  exact siteVal_nat _
theorem Site.accValue_eq (acc v : Nat) (h : ¬ G.accOverflow acc v) : Site.accValue acc v = v := by
  unfold Site.accValue acc_value
  rw [cadd_tI_nat acc v h]
  exact siteVal_nat _
theorem Site.accInit_eq (h : Header) : Site.accInit h = h.num_vars := by
  unfold Site.accInit acc_init; exact siteVal_nat _

end MpVerif.C02

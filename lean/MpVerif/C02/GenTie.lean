import MpVerif.C02.Model
import MpVerif.Gen.NLGuards
/-!
# C02: the guards of the hand model are the guards of the source

`MpVerif.Gen.NLGuards` is regenerated on every run from clang's typed AST of the instantiated reader templates
(translators/gen_nlguards.py): every `if (cond) ReportError(..)` of `TextReader`, `BinaryReader(Base)`, `NLReader`,
the bound arguments of every `NLReader::ReadUInt(..)` call, and the case labels of every `switch`.
The theorems `C02_gen_*` below state that the named guard predicates `G.*` the model is written with
(ModelLex.lean, Model.lean) decide exactly what the generated conditions decide, on the value ranges the
reader primitives produce (`ReadUInt()`: `0 … INT_MAX`; header counts: `0 … INT_MAX`; bytes: `char`).
A change of a guard in the source changes the generated definition and breaks its theorem.
-/
namespace MpVerif.C02
open MpVerif.CSem MpVerif.Gen MpVerif.Gen.NLGuards

def bi (b : Bool) : Int := if b then 1 else 0
/-- a byte as the (signed) `char` value the C++ code sees -/
def asChar (c : UInt8) : Int := if c.toNat ≥ 128 then (c.toNat : Int) - 256 else c.toNat

theorem asChar_range (c : UInt8) : -128 ≤ asChar c ∧ asChar c ≤ 127 := by
  have := c.toNat_lt
  unfold asChar; split <;> omega

theorem asChar_eq (c : UInt8) (k : Nat) (hk : k < 128) : asChar c = k ↔ c = k.toUInt8 := by
  have hc := c.toNat_lt
  unfold asChar
  constructor
  · intro h
    apply UInt8.toNat_inj.mp
    have : (k.toUInt8).toNat = k := by simp [Nat.toUInt8]; omega
    rw [this]
    split at h <;> omega
  · intro h
    subst h
    have : (k.toUInt8).toNat = k := by simp [Nat.toUInt8]; omega
    rw [this]
    simp; omega

/-- unfolding set for the generated terms -/
macro "gsimp" : tactic => `(tactic| simp only [conv, CTy.wrap, arith, CTy.lo, CTy.hi, tU, tI, tL, tUL, tUS, tS, tSC, cadd, csub, cmul,
  cge, cgt, clt, cle, ceq, cne, cnot, tobool, cand, cor, Outcome.bind, bi, Bool.false_eq_true, ↓reduceIte])

/-! ### NLReader -/

theorem C02_gen_oob (v ub : Nat) (hv : v ≤ 2147483647) (hub : ub < 4294967296) :
    g_NLReader_ReadUInt_u__integer_N_out_of_bounds v ub = .ret (bi (decide (G.oob v ub))) := by
  unfold g_NLReader_ReadUInt_u__integer_N_out_of_bounds G.oob
  gsimp
  have : ((v : Int) % 2 ^ 32) = v := by omega
  simp only [this]
  by_cases h : v ≥ ub <;> simp [h] <;> omega

theorem C02_gen_oobLU (v lb ub : Nat) (hv : v ≤ 2147483647) :
    g_NLReader_ReadUInt_u_u__integer_N_out_of_bounds v lb ub = .ret (bi (decide (G.oobLU v lb ub))) := by
  unfold g_NLReader_ReadUInt_u_u__integer_N_out_of_bounds G.oobLU
  gsimp
  have : ((v : Int) % 2 ^ 32) = v := by omega
  simp only [this]
  by_cases h1 : v < lb <;> by_cases h2 : v ≥ ub <;> simp [h1, h2] <;> omega

theorem C02_gen_fewArgs (n m : Nat) :
    g_NLReader_ReadNumArgs_i__too_few_arguments n m = .ret (bi (decide (G.fewArgs n m))) := by
  unfold g_NLReader_ReadNumArgs_i__too_few_arguments G.fewArgs
  gsimp
  by_cases h : n < m <;> simp [h] <;> omega

theorem conv_tI_char (c : UInt8) : conv tI (asChar c) = asChar c := by
  have := asChar_range c
  simp only [conv, CTy.wrap, tI, ↓reduceIte]
  omega

theorem conv_tI_small (k : Int) (h0 : -2147483648 ≤ k) (h1 : k ≤ 2147483647) : conv tI k = k := by
  simp only [conv, CTy.wrap, tI, ↓reduceIte]
  omega

theorem C02_gen_notRef (c : UInt8) :
    g_NLReader_ReadReference__expected_reference (asChar c) = .ret (bi (G.notRef c)) := by
  unfold g_NLReader_ReadReference__expected_reference G.notRef
  rw [conv_tI_char, conv_tI_small 118 (by decide) (by decide)]
  gsimp
  have := asChar_eq c 118 (by decide)
  by_cases h : c = 118
  · subst h; decide
  · have h' : ¬ asChar c = 118 := fun e => h (by simpa using this.mp e)
    simp [h, h']

theorem C02_gen_badOpcode (op : Nat) :
    g_NLReader_ReadOpCode__invalid_opcode_N op Opcodes.maxOpcode = .ret (bi (decide (G.badOpcode op))) := by
  unfold g_NLReader_ReadOpCode__invalid_opcode_N G.badOpcode
  rw [conv_tI_small _ (by decide) (by decide)]
  gsimp
  by_cases h : op > Opcodes.maxOpcode <;> simp [h] <;> omega

theorem C02_gen_fewSlopes (n : Nat) :
    g_NLReader_ReadNumericExpr_i__too_few_slopes_in_piecewise_linear_term n = .ret (bi (decide (G.fewSlopes n))) := by
  unfold g_NLReader_ReadNumericExpr_i__too_few_slopes_in_piecewise_linear_term G.fewSlopes
  gsimp
  by_cases h : n ≤ 1 <;> simp [h] <;> omega

theorem C02_gen_countExpr (c : UInt8) (kind : Nat) (hk : kind ≤ 1000) :
    g_NLReader_ReadLogicalExpr_i__expected_count_expression (asChar c) kind Opcodes.kCOUNT
      = .ret (bi (G.notOp c || G.notCountKind kind)) := by
  unfold g_NLReader_ReadLogicalExpr_i__expected_count_expression G.notOp G.notCountKind
  rw [conv_tI_char, conv_tI_small 111 (by decide) (by decide), conv_tI_small kind (by omega) (by omega),
    conv_tI_small _ (by decide) (by decide)]
  gsimp
  have := asChar_eq c 111 (by decide)
  by_cases h : c = 111
  · subst h
    have e : asChar 111 = 111 := by decide
    by_cases hk2 : kind = Opcodes.kCOUNT
    · subst hk2; simp [e]
    · have : ¬ (kind : Int) = (Opcodes.kCOUNT : Int) := by omega
      simp [e, hk2, this]
  · have h' : ¬ asChar c = 111 := fun e => h (by simpa using this.mp e)
    simp [h, h']

theorem C02_gen_badComplVar (v nv : Nat) :
    g_NLReader_ReadBounds__integer_N_out_of_bounds v nv = .ret (bi (G.badComplVar v nv)) := by
  unfold g_NLReader_ReadBounds__integer_N_out_of_bounds G.badComplVar
  gsimp
  by_cases h1 : v = 0 <;> by_cases h2 : v > nv <;> simp [h1, h2] <;> omega

theorem C02_gen_badNumSizes (v nv : Nat) (hnv : nv ≤ 2147483647) :
    g_NLReader_ReadColumnSizes__expected_N nv v = .ret (bi (decide (G.badNumSizes v nv))) := by
  unfold g_NLReader_ReadColumnSizes__expected_N G.badNumSizes
  gsimp
  have hr : (-(2 ^ (32 - 1)) ≤ (nv : Int) - 1 ∧ (nv : Int) - 1 ≤ 2 ^ (32 - 1) - 1) := by omega
  simp only [hr, and_self, ↓reduceIte]
  by_cases h1 : nv = 0
  · subst h1; simp
  · by_cases h2 : v = nv - 1
    · have : (v : Int) = (nv : Int) - 1 := by omega
      simp [h1, this]
      omega
    · have : ¬ (v : Int) = (nv : Int) - 1 := by omega
      simp [h1, h2, this]

theorem C02_gen_badOffset (size prev : Nat) :
    g_NLReader_ReadColumnSizes__invalid_column_offset size prev = .ret (bi (decide (G.badOffset size prev))) := by
  unfold g_NLReader_ReadColumnSizes__invalid_column_offset G.badOffset
  gsimp
  by_cases h : size < prev <;> simp [h] <;> omega

theorem C02_gen_tooManyInit (n items : Nat) :
    g_NLReader_ReadInitialValues__too_many_initial_values n items = .ret (bi (decide (G.tooManyInit n items))) := by
  unfold g_NLReader_ReadInitialValues__too_many_initial_values G.tooManyInit
  gsimp
  by_cases h : n > items <;> simp [h] <;> omega

theorem C02_gen_badFuncType (t : Nat) :
    g_NLReader_Read__invalid_function_type t Opcodes.kFUNC_NUMERIC Opcodes.kFUNC_SYMBOLIC = .ret (bi (G.badFuncType t)) := by
  unfold g_NLReader_Read__invalid_function_type G.badFuncType
  rw [conv_tI_small _ (by decide) (by decide), conv_tI_small _ (by decide) (by decide)]
  gsimp
  have e0 : (Opcodes.kFUNC_NUMERIC : Int) = 0 := by decide
  have e1 : (Opcodes.kFUNC_SYMBOLIC : Int) = 1 := by decide
  rw [e0, e1]
  by_cases h0 : t = 0
  · subst h0; simp
  · by_cases h1 : t = 1
    · subst h1; simp
    · have a : ¬ (t : Int) = 0 := by omega
      have b : ¬ (t : Int) = 1 := by omega
      simp [h0, h1, a, b]

theorem C02_gen_badSuffixKind (info : Nat) :
    g_NLReader_Read__invalid_suffix_kind info Opcodes.kSUFFIX_KIND_MASK Opcodes.kSUF_FLOAT
      = .ret (bi (decide (G.badSuffixKind info))) := by
  unfold g_NLReader_Read__invalid_suffix_kind G.badSuffixKind
  rw [conv_tI_small _ (by decide) (by decide), conv_tI_small _ (by decide) (by decide)]
  have e : cbor (Opcodes.kSUFFIX_KIND_MASK : Int) (Opcodes.kSUF_FLOAT : Int) = 7 := by decide
  have e2 : (Opcodes.kSUFFIX_KIND_MASK ||| Opcodes.kSUF_FLOAT) = 7 := by decide
  rw [e, e2]
  gsimp
  by_cases h : info > 7 <;> simp [h] <;> omega

/-! ### ReadHeader / TextReader / BinaryReader -/

theorem C02_gen_tooManyOptions (n : Nat) :
    g_TextReader_ReadHeader__too_many_options n Opcodes.kMAX_AMPL_OPTIONS = .ret (bi (decide (G.tooManyOptions n))) := by
  unfold g_TextReader_ReadHeader__too_many_options G.tooManyOptions
  rw [conv_tI_small _ (by decide) (by decide)]
  gsimp
  by_cases h : n > Opcodes.kMAX_AMPL_OPTIONS <;> simp [h] <;> omega

theorem C02_gen_conOverflow (nl nc : Nat) (hc : nc ≤ 2147483647) :
    g_TextReader_ReadHeader__integer_overflow nl nc = .ret (bi (decide (G.conOverflow nl nc))) := by
  unfold g_TextReader_ReadHeader__integer_overflow G.conOverflow
  gsimp
  have hr : (-(2 ^ (32 - 1)) ≤ (2147483647 : Int) - nc ∧ (2147483647 : Int) - nc ≤ 2 ^ (32 - 1) - 1) := by omega
  simp only [hr, and_self, ↓reduceIte]
  by_cases h : nl + nc > 2147483647 <;> simp [h] <;> omega

theorem C02_gen_complOverflow (cc ncc : Nat) (hc : ncc ≤ 2147483647) :
    g_TextReader_ReadHeader__integer_overflow_2 cc ncc = .ret (bi (decide (G.complOverflow cc ncc))) := by
  unfold g_TextReader_ReadHeader__integer_overflow_2 G.complOverflow
  gsimp
  have hr : (-(2 ^ (32 - 1)) ≤ (2147483647 : Int) - ncc ∧ (2147483647 : Int) - ncc ≤ 2 ^ (32 - 1) - 1) := by omega
  simp only [hr, and_self, ↓reduceIte]
  by_cases h : cc + ncc > 2147483647 <;> simp [h] <;> omega

theorem C02_gen_badArith (ak : Nat) :
    g_TextReader_ReadHeader__unknown_floating_point_arithmetic_kind ak Opcodes.kARITH_LAST = .ret (bi (decide (G.badArith ak))) := by
  unfold g_TextReader_ReadHeader__unknown_floating_point_arithmetic_kind G.badArith
  rw [conv_tI_small _ (by decide) (by decide)]
  gsimp
  by_cases h : ak > Opcodes.kARITH_LAST <;> simp [h] <;> omega

theorem C02_gen_accOverflow (acc v : Nat) (hv : v ≤ 2147483647) :
    g_TextReader_ReadUInt_i__integer_overflow acc v = .ret (bi (decide (G.accOverflow acc v))) := by
  unfold g_TextReader_ReadUInt_i__integer_overflow G.accOverflow
  gsimp
  have hr : (-(2 ^ (32 - 1)) ≤ (2147483647 : Int) - v ∧ (2147483647 : Int) - v ≤ 2 ^ (32 - 1) - 1) := by omega
  simp only [hr, and_self, ↓reduceIte]
  by_cases h : (acc : Int) > 2147483647 - v <;> simp [h]

theorem C02_gen_shortRead (len pos length : Nat) (hl : length ≤ 2147483647) :
    g_BinaryReaderBase_Read_i__unexpected_end_of_file ((len : Int) - pos) length = .ret (bi (decide (G.shortRead len pos length))) := by
  unfold g_BinaryReaderBase_Read_i__unexpected_end_of_file G.shortRead
  gsimp
  have : ((length : Int) + 2 ^ (64 - 1)) % 2 ^ 64 - 2 ^ (64 - 1) = length := by omega
  simp only [this]
  by_cases h : (len : Int) - pos < length <;> simp [h]

theorem C02_gen_negative (v : Int) :
    g_BinaryReader_ReadUInt__expected_unsigned_integer v = .ret (bi (decide (G.negative v))) := by
  unfold g_BinaryReader_ReadUInt__expected_unsigned_integer G.negative
  gsimp
  by_cases h : v < 0 <;> simp [h]

end MpVerif.C02

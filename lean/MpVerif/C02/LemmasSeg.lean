import MpVerif.C02.LemmasExpr
/-! # C02 lemmas: segments, the segment loop, the two passes -/
namespace MpVerif.C02
open MpVerif.Gen.Opcodes

/-- checker state between segments -/
def Top (strict : Bool) (c : CState) : Prop := c.stack = [] ∧ c.done = false ∧ (strict = true → c.vals = 0)

theorem topOK_of_top {strict : Bool} {c : CState} (ht : Top strict c) (m : Nat) : topOK strict c m = true := by
  obtain ⟨h1, _, h3⟩ := ht
  cases strict <;> simp_all [topOK]

theorem topOK_push {strict : Bool} {c : CState} (ht : Top strict c) : topOK strict c.push1 1 = true := by
  obtain ⟨h1, _, h3⟩ := ht
  cases strict <;> simp_all [topOK, CState.push1]

theorem top_reset {strict : Bool} {c : CState} (hs : c.stack = []) (hd : c.done = false) :
    Top strict { c with vals := 0 } := ⟨hs, hd, fun _ => rfl⟩

section
variable {strict : Bool} {cx : Env}

/-- post-condition of everything that runs between segments -/
def TopPost (strict : Bool) (cx : Env) : Unit → PState → Prop :=
  fun _ s' => ∃ c', chkRev strict cx.h s'.evs = some c' ∧ Top strict c'

/-- `ReadLinearExpr(num_terms, handler)` feeding a counted `terms` frame -/
theorem linearTerms_ok (n : Nat) (c : CState) (hd : c.done = false) (rest : List Frame) (s : PState)
    (hc : chkRev strict cx.h s.evs = some { c with stack := counted .terms n rest }) :
    Sat strict cx.h (readLinearTerms cx n false) s
      (fun _ s' => chkRev strict cx.h s'.evs = some { c with stack := rest }) := by
  unfold readLinearTerms
  have := sat_forN (strict := strict) (h := cx.h)
    (body := fun _ => do
      let v ← readUIntUB cx (Site.ubTermVar cx.h)
      let coef ← rdDouble cx
      eol cx
      if false then pure () else emit (.addTerm v coef))
    (I := fun k s' => chkRev strict cx.h s'.evs = some { c with stack := counted .terms k rest }) n 0 s
  simp only [counted] at this hc ⊢
  refine sat_mono (this ?_ hc) (fun _ s' h' => by simpa using h')
  intro k j s1 _ _ _ h1
  refine sat_rd_bind (reads_readUIntUB cx _) h1 (fun v s2 hc2 hv0 => ?_)
  have hv : v < cx.h.num_vars := Nat.lt_of_lt_of_le hv0 (Site.ubTermVar_le cx.h)
  refine sat_rd_bind (reads_rdDouble cx) hc2 (fun coef s3 hc3 _ => ?_)
  refine sat_rd_bind (reads_eol cx) hc3 (fun _ s4 hc4 _ => ?_)
  simp only [Bool.false_eq_true, ↓reduceIte]
  exact sat_em_last hc4 (by simp [step, stepCore, hd, hv, counted])

theorem linearTermsSilent_ok (n : Nat) (c : CState) (s : PState)
    (hc : chkRev strict cx.h s.evs = some c) :
    Sat strict cx.h (readLinearTerms cx n true) s (fun _ s' => chkRev strict cx.h s'.evs = some c) := by
  unfold readLinearTerms
  apply sat_forN (I := fun _ s' => chkRev strict cx.h s'.evs = some c) n 0 s _ hc
  intro k j s1 _ _ _ h1
  refine sat_rd_bind (reads_readUIntUB cx _) h1 (fun v s2 hc2 hv => ?_)
  refine sat_rd_bind (reads_rdDouble cx) hc2 (fun coef s3 hc3 _ => ?_)
  refine sat_rd_bind (reads_eol cx) hc3 (fun _ s4 hc4 _ => ?_)
  simp only [↓reduceIte]
  exact sat_pure hc4


/-- a single item-level notification between segments -/
theorem top_event {e : Ev} {s : PState} {c : CState} (hc : chkRev strict cx.h s.evs = some c) (ht : Top strict c)
    (hs : stepCore strict cx.h c e = some { c with vals := 0 }) :
    Sat strict cx.h (emit e) s (TopPost strict cx) := by
  apply sat_emit
  refine ⟨{ c with vals := 0 }, chk_emit hc ?_, top_reset ht.1 ht.2.1⟩
  simp [step, ht.2.1, hs]

/-- `ReadLinearExpr<LinearHandler>()` -/
theorem readLinearExpr_ok (isObj : Bool) {s : PState} {c : CState}
    (hc : chkRev strict cx.h s.evs = some c) (ht : Top strict c) :
    Sat strict cx.h (readLinearExpr cx isObj) s (TopPost strict cx) := by
  unfold readLinearExpr
  refine sat_rd_bind (reads_readUIntUB cx _) hc (fun idx s1 hc1 hidx0 => ?_)
  have hidx : idx < (if isObj = true then cx.h.num_objs else cx.h.num_algebraic_cons) := by
    cases isObj
    · simpa only [Bool.false_eq_true, ↓reduceIte, Site.itemsSeg_J] using hidx0
    · simpa only [↓reduceIte, Site.itemsSeg_G] using hidx0
  refine sat_rd_bind (reads_readUIntLU cx _ _) hc1 (fun n s2 hc2 hn0 => ?_)
  have hn : 1 ≤ n ∧ n < cx.h.num_vars + 1 := by
    have a := Site.lbTerms_eq
    have b := Site.ubTerms_le cx.h
    omega
  refine sat_rd_bind (reads_eol cx) hc2 (fun _ s3 hc3 _ => ?_)
  split
  · exact sat_mono (linearTermsSilent_ok n c s3 hc3) (fun _ s' h' => ⟨c, h', ht⟩)
  · have hres : isObj = true → cx.resObj idx < cx.h.num_objs := by
      intro hio
      simp only [hio, ↓reduceIte] at hidx
      unfold Env.resObj
      split <;> omega
    refine sat_em_bind (c' := { c with vals := 0, stack := counted .terms n [] }) hc3 ?_ (fun s4 hc4 => ?_)
    · have hto := topOK_of_top ht 0
      cases isObj
      · simp only [Bool.false_eq_true, ↓reduceIte] at hidx ⊢
        simp [step, stepCore, ht.2.1, hto, hidx, counted]; omega
      · simp only [↓reduceIte]
        simp [step, stepCore, ht.2.1, hto, hres rfl, counted]; omega
    · refine sat_mono (linearTerms_ok n { c with vals := 0 } ht.2.1 [] s4 hc4) (fun _ s' h' => ?_)
      exact ⟨_, h', top_reset (c := { c with stack := [] }) rfl ht.2.1⟩

/-- `ReadBounds<BoundHandler>()` -/
theorem readBounds_ok (isCon : Bool) {s : PState} {c : CState}
    (hc : chkRev strict cx.h s.evs = some c) (ht : Top strict c) :
    Sat strict cx.h (readBounds cx isCon) s (TopPost strict cx) := by
  unfold readBounds
  refine sat_rd_bind (reads_eol cx) hc (fun _ s1 hc1 _ => ?_)
  simp only []
  apply sat_forN (I := fun _ s' => TopPost strict cx () s') _ 0 s1 _ ⟨c, hc1, ht⟩
  intro k i s2 _ _ hi0 ⟨c2, hc2, ht2⟩
  have hi : i < 0 + (if isCon = true then cx.h.num_algebraic_cons else cx.h.num_vars) := by
    cases isCon
    · simpa only [Bool.false_eq_true, ↓reduceIte, Site.itemsSeg_b] using hi0
    · simpa only [↓reduceIte, Site.itemsSeg_r] using hi0
  have hto := topOK_of_top ht2 0
  have fin : ∀ (lb ub : F64) (s3 : PState), chkRev strict cx.h s3.evs = some c2 →
      Sat strict cx.h (do eol cx; emit (if isCon then .conBounds i lb ub else .varBounds i lb ub)) s3 (TopPost strict cx) := by
    intro lb ub s3 hc3
    refine sat_rd_bind (reads_eol cx) hc3 (fun _ s4 hc4 _ => ?_)
    apply top_event hc4 ht2
    cases isCon
    · simp only [Bool.false_eq_true, ↓reduceIte] at hi ⊢
      simp [stepCore, hto]; omega
    · simp only [↓reduceIte] at hi ⊢
      simp [stepCore, hto]; omega
  refine sat_rd_bind (reads_rdChar cx) hc2 (fun ch s3 hc3 _ => ?_)
  split
  · refine sat_rd_bind (reads_rdDouble cx) hc3 (fun lb s4 hc4 _ => ?_)
    refine sat_rd_bind (reads_rdDouble cx) hc4 (fun ub s5 hc5 _ => ?_)
    exact fin _ _ s5 hc5
  split
  · refine sat_rd_bind (reads_rdDouble cx) hc3 (fun ub s4 hc4 _ => ?_)
    exact fin _ _ s4 hc4
  split
  · refine sat_rd_bind (reads_rdDouble cx) hc3 (fun lb s4 hc4 _ => ?_)
    exact fin _ _ s4 hc4
  split
  · exact fin _ _ s3 hc3
  split
  · refine sat_rd_bind (reads_rdDouble cx) hc3 (fun v s4 hc4 _ => ?_)
    exact fin _ _ s4 hc4
  split
  · split
    · rename_i hcon
      refine sat_rd_bind (reads_rdInt cx 32) hc3 (fun fl s4 hc4 _ => ?_)
      refine sat_rd_bind (reads_rdUInt cx) hc4 (fun v s5 hc5 _ => ?_)
      split
      · exact sat_fail (good_of_some hc5)
      rename_i hv
      refine sat_em_bind (c' := { c2 with vals := 0 }) hc5 ?_ (fun s6 hc6 => ?_)
      · simp only [hcon, ↓reduceIte] at hi
        simp at hv
        simp [step, stepCore, ht2.2.1, hto]; omega
      · exact sat_rd_last (reads_eol cx) hc6 (fun _ s7 hc7 _ => ⟨_, hc7, top_reset ht2.1 ht2.2.1⟩)
    · exact sat_fail (good_of_some hc3)
  · exact sat_fail (good_of_some hc3)


theorem colLoop_ok (cum : Bool) (c : CState) (hd : c.done = false) :
    ∀ (n prev : Nat) (s : PState), chkRev strict cx.h s.evs = some { c with stack := counted .cols n [] } →
      Sat strict cx.h (readColumnSizes.loop cx cum n prev) s
        (fun _ s' => chkRev strict cx.h s'.evs = some { c with stack := [] }) := by
  intro n
  induction n with
  | zero => intro prev s hc; unfold readColumnSizes.loop; exact sat_pure (by simpa [counted] using hc)
  | succ n ih =>
    intro prev s hc
    unfold readColumnSizes.loop
    refine sat_rd_bind (reads_rdUInt cx) hc (fun size s1 hc1 _ => ?_)
    split
    · split
      · exact sat_fail (good_of_some hc1)
      · refine sat_em_bind (c' := { c with stack := counted .cols n [] }) hc1 (by simp [step, stepCore, hd, counted]) (fun s2 hc2 => ?_)
        refine sat_rd_bind (reads_eol cx) hc2 (fun _ s3 hc3 _ => ?_)
        exact ih _ s3 hc3
    · refine sat_em_bind (c' := { c with stack := counted .cols n [] }) hc1 (by simp [step, stepCore, hd, counted]) (fun s2 hc2 => ?_)
      refine sat_rd_bind (reads_eol cx) hc2 (fun _ s3 hc3 _ => ?_)
      exact ih _ s3 hc3

/-- `ReadColumnSizes<CUMULATIVE>()` -/
theorem readColumnSizes_ok (cum : Bool) {s : PState} {c : CState}
    (hc : chkRev strict cx.h s.evs = some c) (ht : Top strict c) :
    Sat strict cx.h (readColumnSizes cx cum) s (TopPost strict cx) := by
  unfold readColumnSizes
  refine sat_rd_bind (reads_rdUInt cx) hc (fun v s1 hc1 _ => ?_)
  split
  · exact sat_fail (good_of_some hc1)
  refine sat_rd_bind (reads_eol cx) hc1 (fun _ s2 hc2 _ => ?_)
  refine sat_em_bind (c' := { c with vals := 0, stack := counted .cols (cx.h.num_vars - 1) [] }) hc2
    (by simp [step, stepCore, ht.2.1, topOK_of_top ht 0]) (fun s3 hc3 => ?_)
  refine sat_mono (colLoop_ok cum { c with vals := 0 } ht.2.1 _ 0 s3 hc3) (fun _ s' h' => ?_)
  exact ⟨_, h', top_reset (c := { c with stack := [] }) rfl ht.2.1⟩

/-- `ReadInitialValues<ValueHandler>()` -/
theorem readInitialValues_ok (isCon : Bool) {s : PState} {c : CState}
    (hc : chkRev strict cx.h s.evs = some c) (ht : Top strict c) :
    Sat strict cx.h (readInitialValues cx isCon) s (TopPost strict cx) := by
  unfold readInitialValues
  cases isCon <;> simp only [Bool.false_eq_true, ↓reduceIte, Site.itemsSeg_x, Site.itemsSeg_d]
  all_goals
    refine sat_rd_bind (reads_rdUInt cx) hc (fun n s1 hc1 _ => ?_)
    split
    · exact sat_fail (good_of_some hc1)
    refine sat_rd_bind (reads_eol cx) hc1 (fun _ s2 hc2 _ => ?_)
    apply sat_forN (I := fun _ s' => TopPost strict cx () s') _ 0 s2 _ ⟨c, hc2, ht⟩
    intro k i s3 _ _ _ ⟨c3, hc3, ht3⟩
    refine sat_rd_bind (reads_readUIntUB cx _) hc3 (fun idx s4 hc4 hidx => ?_)
    refine sat_rd_bind (reads_rdDouble cx) hc4 (fun v s5 hc5 _ => ?_)
    refine sat_em_bind (c' := { c3 with vals := 0 }) hc5 ?_ (fun s6 hc6 => ?_)
    · simp [step, stepCore, ht3.2.1, topOK_of_top ht3 0, hidx]
    · exact sat_rd_last (reads_eol cx) hc6 (fun _ s7 hc7 _ => ⟨_, hc7, top_reset ht3.1 ht3.2.1⟩)

theorem kind_le_three (info : Nat) : info % 4 ≤ 3 := by omega

/-- the `S` segment -/
theorem readSuffix_ok {s : PState} {c : CState}
    (hc : chkRev strict cx.h s.evs = some c) (ht : Top strict c) :
    Sat strict cx.h (readSuffix cx) s (TopPost strict cx) := by
  unfold readSuffix
  refine sat_rd_bind (reads_rdUInt cx) hc (fun info s1 hc1 _ => ?_)
  split
  · exact sat_fail (good_of_some hc1)
  simp only []
  refine sat_rd_bind (reads_readUIntLU cx _ _) hc1 (fun n s2 hc2 hn => ?_)
  refine sat_rd_bind (reads_rdName cx) hc2 (fun name s3 hc3 _ => ?_)
  refine sat_rd_bind (reads_eol cx) hc3 (fun _ s4 hc4 _ => ?_)
  have hto := topOK_of_top ht 0
  have hk := kind_le_three info
  have hle := Site.itemsSuffix_le cx.h (info % 4) hk
  split
  · refine sat_em_bind (c' := { c with vals := 0, stack := counted (fun k => .suf k (cx.h.suffixItems (info % 4)) true) n [] }) hc4
      (by simp [step, stepCore, ht.2.1, hto, hk, counted]; omega) (fun s5 hc5 => ?_)
    have := sat_forN (strict := strict) (h := cx.h)
      (body := fun _ => do
        let index ← readUIntUB cx (Site.itemsSuffix cx.h (info % 4))
        let v ← rdDouble cx
        emit (.setDbl index v)
        eol cx)
      (I := fun k s' => chkRev strict cx.h s'.evs =
        some { c with vals := 0, stack := counted (fun k => .suf k (cx.h.suffixItems (info % 4)) true) k [] }) n 0 s5
    refine sat_mono (this ?_ hc5) (fun _ s' h' => ⟨_, h', top_reset (c := { c with stack := [] }) rfl ht.2.1⟩)
    intro k j s6 _ _ _ h6
    refine sat_rd_bind (reads_readUIntUB cx _) h6 (fun idx s7 hc7 hidx0 => ?_)
    have hidx : idx < cx.h.suffixItems (info % 4) := Nat.lt_of_lt_of_le hidx0 hle
    refine sat_rd_bind (reads_rdDouble cx) hc7 (fun v s8 hc8 _ => ?_)
    refine sat_em_bind (c' := { c with vals := 0, stack := counted (fun k => .suf k (cx.h.suffixItems (info % 4)) true) k [] }) hc8
      (by simp [step, stepCore, ht.2.1, counted, hidx]) (fun s9 hc9 => ?_)
    exact sat_rd_last (reads_eol cx) hc9 (fun _ s10 hc10 _ => hc10)
  · refine sat_em_bind (c' := { c with vals := 0, stack := counted (fun k => .suf k (cx.h.suffixItems (info % 4)) false) n [] }) hc4
      (by simp [step, stepCore, ht.2.1, hto, hk, counted]; omega) (fun s5 hc5 => ?_)
    have := sat_forN (strict := strict) (h := cx.h)
      (body := fun _ => do
        let index ← readUIntUB cx (Site.itemsSuffix cx.h (info % 4))
        let v ← rdInt cx 32
        emit (.setInt index v)
        eol cx)
      (I := fun k s' => chkRev strict cx.h s'.evs =
        some { c with vals := 0, stack := counted (fun k => .suf k (cx.h.suffixItems (info % 4)) false) k [] }) n 0 s5
    refine sat_mono (this ?_ hc5) (fun _ s' h' => ⟨_, h', top_reset (c := { c with stack := [] }) rfl ht.2.1⟩)
    intro k j s6 _ _ _ h6
    refine sat_rd_bind (reads_readUIntUB cx _) h6 (fun idx s7 hc7 hidx0 => ?_)
    have hidx : idx < cx.h.suffixItems (info % 4) := Nat.lt_of_lt_of_le hidx0 hle
    refine sat_rd_bind (reads_rdInt cx 32) hc7 (fun v s8 hc8 _ => ?_)
    refine sat_em_bind (c' := { c with vals := 0, stack := counted (fun k => .suf k (cx.h.suffixItems (info % 4)) false) k [] }) hc8
      (by simp [step, stepCore, ht.2.1, counted, hidx]) (fun s9 hc9 => ?_)
    exact sat_rd_last (reads_eol cx) hc9 (fun _ s10 hc10 _ => hc10)


theorem top_push {c : CState} (ht : Top strict c) : c.push1.stack = [] ∧ c.push1.done = false := ⟨ht.1, ht.2.1⟩

theorem sat_ite {α : Type} {p q : P α} {cnd : Prop} [Decidable cnd] {s : PState} {Q : α → PState → Prop}
    (h1 : cnd → Sat strict cx.h p s Q) (h2 : ¬cnd → Sat strict cx.h q s Q) :
    Sat strict cx.h (if cnd then p else q) s Q := by
  by_cases hc : cnd
  · rw [if_pos hc]; exact h1 hc
  · rw [if_neg hc]; exact h2 hc

/-- every segment other than `b` -/
theorem readSegment_ok (hso : strict = true → cx.objsel = none) (ch : UInt8) {s : PState} {c : CState}
    (hc : chkRev strict cx.h s.evs = some c) (ht : Top strict c) :
    Sat strict cx.h (readSegment cx ch) s (TopPost strict cx) := by
  have hd := ht.2.1
  have hto := topOK_of_top ht
  have htp : topOK strict { vals := c.vals + 1, stack := c.stack, done := false } 1 = true := by
    have := topOK_push ht; simpa [CState.push1, hd] using this
  unfold readSegment
  refine sat_ite (fun _ => ?_) (fun _ => ?_)
  · -- C
    refine sat_rd_bind (reads_readUIntUB cx _) hc (fun idx s1 hc1 hidx0 => ?_)
    have hidx : idx < cx.h.num_algebraic_cons := Nat.lt_of_lt_of_le hidx0 (Site.ubC_le cx.h)
    refine sat_rd_bind (reads_eol cx) hc1 (fun _ s2 hc2 _ => ?_)
    apply sat_bind
    apply sat_mono (readExpr_ok _ (.num true) s2 c hc2 hd)
    intro _ s3 h3
    simp only [ExprPost] at h3
    rcases h3 with h3 | h3
    · exact top_event h3 ht (by simp [stepCore, hto 1, hidx])
    · apply sat_emit
      exact ⟨{ c.push1 with vals := 0 }, chk_emit h3 (by simp [step, stepCore, htp, hidx, CState.push1, hd]),
        top_reset ht.1 hd⟩
  refine sat_ite (fun _ => ?_) (fun _ => ?_)
  · -- L
    refine sat_rd_bind (reads_readUIntUB cx _) hc (fun idx s1 hc1 hidx0 => ?_)
    have hidx : idx < cx.h.num_logical_cons := Nat.lt_of_lt_of_le hidx0 (Site.ubL_le cx.h)
    refine sat_rd_bind (reads_eol cx) hc1 (fun _ s2 hc2 _ => ?_)
    apply sat_bind
    apply sat_mono (readExpr_ok _ .log s2 c hc2 hd)
    intro _ s3 h3
    simp only [ExprPost] at h3
    apply sat_emit
    refine ⟨{ c.push1 with vals := 0 }, chk_emit h3 ?_, top_reset ht.1 hd⟩
    have : 1 ≤ c.push1.vals := by simp [CState.push1]
    simp [step, stepCore, htp, hidx, hd, this, CState.push1]
  refine sat_ite (fun _ => ?_) (fun _ => ?_)
  · -- O
    refine sat_rd_bind (reads_readUIntUB cx _) hc (fun idx s1 hc1 hidx0 => ?_)
    have hidx : idx < cx.h.num_objs := Nat.lt_of_lt_of_le hidx0 (Site.ubO_le cx.h)
    refine sat_rd_bind (reads_rdUInt cx) hc1 (fun ty s2 hc2 _ => ?_)
    refine sat_rd_bind (reads_eol cx) hc2 (fun _ s3 hc3 _ => ?_)
    apply sat_bind
    apply sat_mono (readExpr_ok _ (.num true) s3 c hc3 hd)
    intro _ s4 h4
    simp only [ExprPost] at h4
    have hres : cx.resObj idx < cx.h.num_objs := by
      unfold Env.resObj; split <;> omega
    split
    · rcases h4 with h4 | h4
      · exact top_event h4 ht (by simp [stepCore, hto 1, hres])
      · apply sat_emit
        exact ⟨{ c.push1 with vals := 0 }, chk_emit h4 (by simp [step, stepCore, htp, hres, CState.push1, hd]),
          top_reset ht.1 hd⟩
    · rename_i hneed
      have hns : strict = false := by
        cases hst : strict
        · rfl
        · have := hso hst; simp [Env.needObj, this] at hneed
      apply sat_pure
      rcases h4 with h4 | h4
      · exact ⟨c, h4, ht⟩
      · exact ⟨c.push1, h4, ht.1, hd, by simp [hns]⟩
  refine sat_ite (fun _ => ?_) (fun _ => ?_)
  · -- V
    refine sat_rd_bind (reads_readUIntLU cx _ _) hc (fun idx s1 hc1 hidx => ?_)
    refine sat_rd_bind (reads_rdUInt cx) hc1 (fun nlt s2 hc2 _ => ?_)
    refine sat_rd_bind (reads_rdUInt cx) hc2 (fun pos s3 hc3 _ => ?_)
    refine sat_rd_bind (reads_eol cx) hc3 (fun _ s4 hc4 _ => ?_)
    have hi : idx - cx.h.num_vars < cx.h.num_common_exprs := Site.V_index cx.h idx hidx.1 hidx.2
    refine sat_em_bind (c' := { c with vals := 0, stack := counted .terms nlt [.ce (idx - cx.h.num_vars)] }) hc4
      (by simp [step, stepCore, hd, hto 0, hi]) (fun s5 hc5 => ?_)
    have after : ∀ s6, chkRev strict cx.h s6.evs = some { c with vals := 0, stack := [.ce (idx - cx.h.num_vars)] } →
        Sat strict cx.h (do readExpr cx (exprFuel cx) (.num false); emit (.endCommonExpr (idx - cx.h.num_vars) pos)) s6
          (TopPost strict cx) := by
      intro s6 hc6
      apply sat_bind
      apply sat_mono (readExpr_ok _ (.num false) s6 _ hc6 hd)
      intro _ s7 h7
      simp only [ExprPost] at h7
      apply sat_emit
      exact ⟨{ c with vals := 0, stack := [] }, chk_emit h7 (by simp [step, stepCore, hd, CState.push1]),
        top_reset (c := { c with stack := [] }) rfl hd⟩
    simp only []
    refine sat_ite (fun _ => ?_) (fun hz => ?_)
    · apply sat_bind
      apply sat_mono (linearTerms_ok nlt { c with vals := 0 } hd [.ce (idx - cx.h.num_vars)] s5 hc5)
      intro _ s6 hc6
      exact after s6 hc6
    · have hz' : nlt = 0 := by simpa using hz
      exact after s5 (by simpa [hz', counted] using hc5)
  refine sat_ite (fun _ => ?_) (fun _ => ?_)
  · -- F
    refine sat_rd_bind (reads_readUIntUB cx _) hc (fun idx s1 hc1 hidx0 => ?_)
    have hidx : idx < cx.h.num_funcs := Nat.lt_of_lt_of_le hidx0 (Site.ubF_le cx.h)
    refine sat_rd_bind (reads_rdUInt cx) hc1 (fun ty s2 hc2 _ => ?_)
    split
    · exact sat_fail (good_of_some hc2)
    rename_i hty
    refine sat_rd_bind (reads_rdInt cx 32) hc2 (fun na s3 hc3 _ => ?_)
    refine sat_rd_bind (reads_rdName cx) hc3 (fun nm s4 hc4 _ => ?_)
    refine sat_rd_bind (reads_eol cx) hc4 (fun _ s5 hc5 _ => ?_)
    have : ty ≤ 1 := by
      simp at hty; omega
    exact top_event hc5 ht (by simp [stepCore, hto 0, hidx, this])
  refine sat_ite (fun _ => ?_) (fun _ => ?_)
  · exact readLinearExpr_ok true hc ht
  refine sat_ite (fun _ => ?_) (fun _ => ?_)
  · exact readLinearExpr_ok false hc ht
  refine sat_ite (fun _ => ?_) (fun _ => ?_)
  · exact readSuffix_ok hc ht
  refine sat_ite (fun _ => ?_) (fun _ => ?_)
  · exact readBounds_ok true hc ht
  refine sat_ite (fun _ => ?_) (fun _ => ?_)
  · exact readColumnSizes_ok false hc ht
  refine sat_ite (fun _ => ?_) (fun _ => ?_)
  · exact readColumnSizes_ok true hc ht
  refine sat_ite (fun _ => ?_) (fun _ => ?_)
  · exact readInitialValues_ok false hc ht
  refine sat_ite (fun _ => ?_) (fun _ => ?_)
  · exact readInitialValues_ok true hc ht
  · exact sat_fail (good_of_some hc)

/-- `NLReader::Read(Reader *bound_reader)` -/
theorem readLoop_ok (hso : strict = true → cx.objsel = none) :
    ∀ (fuel : Nat) (rb : Bool) (br : Option RState) (s : PState) (c : CState),
      chkRev strict cx.h s.evs = some c → Top strict c →
      Sat strict cx.h (readLoop cx fuel rb br) s (TopPost strict cx) := by
  intro fuel
  induction fuel with
  | zero => intro rb br s c _ _; exact sat_fuel
  | succ fuel ih =>
    intro rb br s c hc ht
    unfold readLoop
    refine sat_rd_bind (reads_rdChar cx) hc (fun ch s1 hc1 _ => ?_)
    split
    · split
      · apply sat_bind
        apply sat_mono (readBounds_ok false hc1 ht)
        intro _ s2 ⟨c2, hc2, ht2⟩
        split
        · exact sat_pure ⟨c2, hc2, ht2⟩
        · exact ih _ _ s2 c2 hc2 ht2
      · split
        · exact sat_fail (good_of_some hc1)
        · apply sat_bind
          apply sat_setR
          exact ih _ _ _ c hc1 ht
    split
    · apply sat_bind
      apply sat_getR
      split
      · split
        · exact sat_fail (good_of_some hc1)
        · exact sat_pure ⟨c, hc1, ht⟩
      · exact sat_fail (good_of_some hc1)
    · apply sat_bind
      apply sat_mono (readSegment_ok hso ch hc1 ht)
      intro _ s2 ⟨c2, hc2, ht2⟩
      exact ih _ _ s2 c2 hc2 ht2

end
end MpVerif.C02

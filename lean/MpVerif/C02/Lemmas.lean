import MpVerif.C02.ModelCheck
import MpVerif.C02.LemmasSites
/-!
# C02 lemmas: a small Hoare logic over the parser monad `P`

`Sat p s Q` : running `p` from `s` either returns normally in a state satisfying `Q`, or stops
(read error / modelled UB) with a notification list the checker accepts (`Good`), or runs out of
fuel (excluded separately by `C02_total`).
-/
namespace MpVerif.C02

section
variable (strict : Bool) (h : Header)

/-- the checker accepts the notifications delivered so far -/
def Good (evs : List Ev) : Prop := (chkRev strict h evs).isSome = true

def Sat (p : P α) (s : PState) (Q : α → PState → Prop) : Prop :=
  match p s with
  | .ok a s' => Q a s'
  | .err _ evs => Good strict h evs
  | .ub _ evs => Good strict h evs
  | .fuel => True

variable {strict h}

theorem sat_pure {a : α} {s : PState} {Q : α → PState → Prop} (hq : Q a s) :
    Sat strict h (pure a : P α) s Q := hq

theorem sat_bind {p : P α} {f : α → P β} {s : PState} {Q : β → PState → Prop}
    (hp : Sat strict h p s (fun a s' => Sat strict h (f a) s' Q)) : Sat strict h (p >>= f) s Q := by
  unfold Sat at *
  show (match P.bind p f s with | .ok a s' => Q a s' | .err _ evs => Good strict h evs | .ub _ evs => Good strict h evs | .fuel => True)
  unfold P.bind
  cases hps : p s <;> simp_all

theorem sat_mono {p : P α} {s : PState} {Q Q' : α → PState → Prop}
    (hp : Sat strict h p s Q) (hq : ∀ a s', Q a s' → Q' a s') : Sat strict h p s Q' := by
  unfold Sat at *
  cases hps : p s <;> simp_all

theorem sat_emit {e : Ev} {s : PState} {Q : Unit → PState → Prop}
    (hq : Q () { s with evs := e :: s.evs }) : Sat strict h (emit e) s Q := hq

/-- reader primitives never touch the notification list -/
theorem sat_lift {f : L α} {s : PState} {Q : α → PState → Prop}
    (hg : Good strict h s.evs) (hq : ∀ a r, Q a { s with r := r }) : Sat strict h (lift f) s Q := by
  unfold Sat lift
  cases hf : f s.r <;> simp_all

theorem sat_pub {u : UB} {s : PState} {Q : α → PState → Prop} (hg : Good strict h s.evs) :
    Sat strict h (pub u : P α) s Q := hg

theorem sat_getR {s : PState} {Q : RState → PState → Prop} (hq : Q s.r s) : Sat strict h getR s Q := hq
theorem sat_setR {r : RState} {s : PState} {Q : Unit → PState → Prop} (hq : Q () { s with r := r }) :
    Sat strict h (setR r) s Q := hq
theorem sat_fuel {s : PState} {Q : α → PState → Prop} : Sat strict h (outOfFuel : P α) s Q := trivial

theorem good_of_some {evs : List Ev} {c : CState} (hc : chkRev strict h evs = some c) : Good strict h evs := by
  unfold Good; rw [hc]; rfl

/-- `lift (rReport ..)` never returns normally -/
theorem rReport_not_ok (inp : Inp) (k : RKind) (cls : ErrCls) (r : RState) :
    ∀ (a : α) r', rReport inp k cls r ≠ LRes.ok a r' := by
  intro a r'
  cases k <;> simp [rReport, tReport, tReportAt, bReport] <;> split <;> simp

theorem sat_fail {cx : Env} {cls : ErrCls} {s : PState} {Q : α → PState → Prop}
    (hg : Good strict h s.evs) : Sat strict h (fail cx cls : P α) s Q := by
  unfold Sat fail lift
  cases hf : rReport cx.inp cx.k cls s.r with
  | ok a r' => exact absurd hf (rReport_not_ok _ _ _ _ a r')
  | err e => exact hg
  | ub u => exact hg

/-- `forN` with an invariant indexed by the number of remaining iterations -/
theorem sat_forN {body : Nat → P Unit} (I : Nat → PState → Prop) :
    ∀ (n i : Nat) (s : PState),
      (∀ k j s, k < n → i ≤ j → j < i + n → I (k + 1) s → Sat strict h (body j) s (fun _ s' => I k s')) →
      I n s → Sat strict h (forN n i body) s (fun _ s' => I 0 s') := by
  intro n
  induction n with
  | zero => intro i s _ h0; exact h0
  | succ n ih =>
    intro i s hb hI
    show Sat strict h (body i >>= fun _ => forN n (i + 1) body) s _
    apply sat_bind
    apply sat_mono (hb n i s (by omega) (by omega) (by omega) hI)
    intro _ s' hI'
    apply ih (i + 1) s' _ hI'
    intro k j s'' hk h1 h2 hI''
    exact hb k j s'' (by omega) (by omega) (by omega) hI''

end
end MpVerif.C02

import MpVerif.C02.ModelNum
/-!
# C02 model, part 2: the character-level readers

Transcription of `internal::ReaderBase`, `TextReader<>` and `BinaryReader<Converter>`
(include/mp/nl-reader.h, src/nl-reader.cc).  The input is the byte string `data` followed by
the terminating NUL that `NLStringRef` guarantees (`rd len = 0`).  The cursor state mirrors
`ptr_`, `token_`, `line_start_`, `line_` as offsets from `start_`.

Outcomes: a value and the new cursor, a located read error, or *undefined behaviour*
(`ub`): the C++ code at this point would read past the terminating NUL (`overrun`).
-/
namespace MpVerif.C02

/-- what `NLStringRef(buffer, size)` gives the reader: byte access `rd` (offsets from `start_`), the
    size `len` (`end_ - start_`), and the contract of `NLStringRef`: the buffer is NUL-terminated at `len`
    (the model takes every offset from `len` on to read as NUL; `C02_no_ub` shows they are never read) -/
structure Inp where
  rd : Nat → UInt8
  len : Nat
  nul : ∀ p, len ≤ p → rd p = 0

/-- bytes held in an array `buf`, of which the first `size` are the string; reading beyond the array gives 0 -/
def bufRd (buf : Array UInt8) (p : Nat) : UInt8 := if h : p < buf.size then buf[p] else 0

/-- `NLStringRef(s)` for a `std::string` / a NUL-terminated copy of the bytes `d` -/
def Inp.ofBytes (d : ByteArray) : Inp :=
  ⟨bufRd d.data, d.size, by
    intro p hp
    unfold bufRd
    have hsz : d.data.size = d.size := rfl
    split
    · omega
    · rfl⟩

structure RState where
  pos : Nat
  tok : Nat
  lineStart : Nat
  line : Nat
deriving Repr, BEq, DecidableEq

inductive ErrCls
  | format | manyopts | newline | uint | int | toobig | ioverflow | arith | double | colon | eofstr
  | name | eof | oob | fewargs | ref | opcode | const | expr | numop | slopes | logical | logop | count
  | complvar | bound | expectn | coloff | manyinit | functype | sufkind | dupb | nob | segment | unsarith
deriving Repr, BEq, DecidableEq

def ErrCls.toStr : ErrCls → String
  | .format => "format" | .manyopts => "manyopts" | .newline => "newline" | .uint => "uint" | .int => "int"
  | .toobig => "toobig" | .ioverflow => "ioverflow" | .arith => "arith" | .double => "double" | .colon => "colon"
  | .eofstr => "eofstr" | .name => "name" | .eof => "eof" | .oob => "oob" | .fewargs => "fewargs" | .ref => "ref"
  | .opcode => "opcode" | .const => "const" | .expr => "expr" | .numop => "numop" | .slopes => "slopes"
  | .logical => "logical" | .logop => "logop" | .count => "count" | .complvar => "complvar" | .bound => "bound"
  | .expectn => "expectn" | .coloff => "coloff" | .manyinit => "manyinit" | .functype => "functype"
  | .sufkind => "sufkind" | .dupb => "dupb" | .nob => "nob" | .segment => "segment" | .unsarith => "unsarith"

/-- a located error: `bin = false`: `ReadError(line a, column b)`; `bin = true`: `BinaryReadError(offset a)` -/
structure Err where
  cls : ErrCls
  bin : Bool
  a : Nat
  b : Nat
deriving Repr, BEq, DecidableEq

def Err.toStr (e : Err) : String :=
  if e.bin then s!"berr:{e.cls.toStr}:{e.a}" else s!"rerr:{e.cls.toStr}:{e.a}:{e.b}"

/-- the only undefined behaviour left in the model after the fixes 1efd01c..984b1d0: the cursor is
    dereferenced past the terminating NUL -/
inductive UB | overrun
deriving Repr, BEq, DecidableEq

def UB.toStr : UB → String
  | .overrun => "ub:overrun"

inductive LRes (α : Type) where
  | ok (a : α) (r : RState)
  | err (e : Err)
  | ub (u : UB)

abbrev L (α : Type) := RState → LRes α

@[inline] def L.pure (a : α) : L α := fun r => .ok a r
@[inline] def L.bind (x : L α) (f : α → L β) : L β := fun r =>
  match x r with
  | .ok a r' => f a r'
  | .err e => .err e
  | .ub u => .ub u

instance : Monad L where
  pure := L.pure
  bind := L.bind

def L.get : L RState := fun r => .ok r r
def L.set (r : RState) : L Unit := fun _ => .ok () r
def L.ub (u : UB) : L α := fun _ => .ub u

/-! ### the guards of the character readers as named predicates (tied to the source by `Gen/NLGuards.lean`,
    theorems `C02_gen_*` in GenTie.lean) -/
namespace G
/-- `ReadIntWithoutSign`: `UInt new_result = result * 10 + (c - '0')` in the unsigned type of width `bits` -/
abbrev newResult (bits result : Nat) (c : UInt8) : Nat := (result * 10 + (c.toNat - 48)) % 2 ^ bits
/-- `if (new_result < result) ReportError("number is too big")` -/
abbrev wrapped (newResult result : Nat) : Prop := newResult < result
/-- `if (result > max) ReportError("number is too big")` -/
abbrev tooBig (result max : Nat) : Prop := result > max
/-- `DoReadOptionalInt`: `result > max && !(sign == '-' && result == max + 1)` -/
abbrev signedTooBig (result max : Nat) (sign : UInt8) : Bool := result > max && !(sign == 45 && result == max + 1)
/-- `ReadUInt(int &accumulator)`: `accumulator > INT_MAX - value` -/
abbrev accOverflow (acc v : Nat) : Prop := (acc : Int) > (2147483647 : Int) - v
/-- `BinaryReaderBase::Read`: `end_ - ptr_ < length` -/
abbrev shortRead (len pos length : Nat) : Prop := (len : Int) - pos < length
/-- `BinaryReader::ReadUInt`: `value < 0` -/
abbrev negative (v : Int) : Prop := v < 0
/-- `ReadString`: `*ptr_ != ':'` -/
abbrev notColon (c : UInt8) : Bool := c != 58
/-- `ReadString`: `!c && ptr_ == end_` inside the string -/
abbrev eofInString (c : UInt8) (atEnd : Bool) : Bool := c == 0 && atEnd
/-- `ReadString`: `*ptr_ != '\n'` after the string -/
abbrev notNewline (c : UInt8) : Bool := c != 10
/-- `ReadName`: `*ptr_ == '\n' || !*ptr_` -/
abbrev noName (c : UInt8) : Bool := c == 10 || c == 0
end G

section
variable (inp : Inp)

/-- entry guard of every primitive that dereferences `ptr_` -/
def guardPos : L Unit := fun r => if r.pos > inp.len then .ub .overrun else .ok () r

/-! ### TextReader -/

/-- `TextReader::DoReportError(loc, ..)` : the line/column computation, including the search for the
    beginning of the previous line when `loc < line_start_` (line is then reported as `line_ - 1`
    whatever the real distance). -/
def backToLineStart : (fuel : Nat) → Nat → Nat
  | 0, p => p
  | fuel + 1, p => if inp.rd p != 10 && p != 0 then backToLineStart fuel (p - 1) else p

def tReportAt (loc : Nat) (cls : ErrCls) : L α := fun r =>
  if loc < r.lineStart then
    let ls := loc
    let ls := if inp.rd ls == 10 then ls - 1 else ls
    let ls := backToLineStart inp (ls + 1) ls
    let ls := if inp.rd ls == 10 then ls + 1 else ls
    .err ⟨cls, false, r.line - 1, loc - ls + 1⟩
  else .err ⟨cls, false, r.line, loc - r.lineStart + 1⟩

def tReport (cls : ErrCls) : L α := fun r => tReportAt inp r.tok cls r

/-- `ReaderBase::ReadChar` -/
def readChar : L UInt8 := fun r =>
  if r.pos > inp.len then .ub .overrun
  else .ok (inp.rd r.pos) { r with tok := r.pos, pos := r.pos + 1 }

def skipSpaceFrom : (fuel : Nat) → Nat → Nat
  | 0, p => p
  | fuel + 1, p => let c := inp.rd p; if isSpace c && c != 10 then skipSpaceFrom fuel (p + 1) else p

/-- `TextReader::SkipSpace` -/
def tSkipSpace : L Unit := fun r =>
  if r.pos > inp.len then .ub .overrun else
  let p := skipSpaceFrom inp (inp.len + 1 - r.pos) r.pos
  .ok () { r with pos := p, tok := p }

/-- the `do .. while` loop of `ReadIntWithoutSign`: `none` = the wrap test `new_result < result` fired -/
def digitsLoop (bits : Nat) : (fuel : Nat) → (p result : Nat) → Option (Nat × Nat)
  | 0, p, result => some (result, p)
  | fuel + 1, p, result =>
    let c := inp.rd p
    if isDigit c then
      let new_result := G.newResult bits result c
      if G.wrapped new_result result then none else digitsLoop bits fuel (p + 1) new_result
    else some (result, p)

/-- `TextReader::ReadIntWithoutSign<Int>`: `bits` = width of `MakeUnsigned<Int>`, `max` =
    `numeric_limits<Int>::max()`.  Note that the wrap test is not an overflow test:
    `5000000000` is accepted as `705032704` for 32 bits. -/
def tReadIntWithoutSign (bits max : Nat) : L (Option Nat) := fun r =>
  if r.pos > inp.len then .ub .overrun else
  if !isDigit (inp.rd r.pos) then .ok none r else
  match digitsLoop inp bits (inp.len + 1 - r.pos) r.pos 0 with
  | none => tReport inp .toobig r
  | some (v, p) =>
    let r' := { r with pos := p }
    if G.tooBig v max then tReport inp .toobig r' else .ok (some v) r'

def intMax : Nat := 2147483647

/-- `TextReader::ReadUInt<int>()` -/
def tReadUInt : L Nat := do
  tSkipSpace inp
  match ← tReadIntWithoutSign inp 32 intMax with
  | some v => pure v
  | none => tReport inp .uint

/-- `TextReader::ReadUInt<std::size_t>()` -/
def tReadUIntSize : L Nat := do
  tSkipSpace inp
  match ← tReadIntWithoutSign inp 64 (2 ^ 64 - 1) with
  | some v => pure v
  | none => tReport inp .uint

/-- `TextReader::ReadOptionalUInt(int&)` -/
def tReadOptionalUInt : L (Option Nat) := do
  tSkipSpace inp
  tReadIntWithoutSign inp 32 intMax

-- `TextReader::ReadUInt(int &accumulator)`: `tReadUIntAcc` in ModelSites.lean (its data flow is generated code)

/-- `TextReader::ReadInt<Int>()` via `DoReadOptionalInt` (`bits` = 16 for `short`, 32 for `int`) -/
def tReadInt (bits : Nat) : L Int := do
  tSkipSpace inp
  let r ← L.get
  let sign := inp.rd r.pos
  if sign == 43 || sign == 45 then L.set { r with pos := r.pos + 1 }
  match ← tReadIntWithoutSign inp bits (2 ^ bits - 1) with
  | none => tReport inp .int
  | some result =>
    let max := 2 ^ (bits - 1) - 1
    if G.signedTooBig result max sign then tReport inp .toobig
    else pure (if sign != 45 then (result : Int) else -(result : Int))

/-- `TextReader::ReadDouble` -/
def tReadDouble : L F64 := do
  tSkipSpace inp
  let r ← L.get
  if inp.rd r.pos != 10 then
    let (p, v) := strtod inp.rd (inp.len + 2 - r.pos) r.pos
    if p == r.pos then tReport inp .double
    else do L.set { r with pos := p }; pure v
  else tReport inp .double

/-- `TextReader::ReadOptionalDouble` -/
def tReadOptionalDouble : L (Option F64) := do
  tSkipSpace inp
  let r ← L.get
  if inp.rd r.pos == 10 then pure none else
  let (p, v) := strtod inp.rd (inp.len + 2 - r.pos) r.pos
  L.set { r with pos := p }
  pure (if p != r.pos then some v else none)

def findEol : (fuel : Nat) → Nat → Option Nat
  | 0, _ => none
  | fuel + 1, p => let c := inp.rd p; if c == 0 then none else if c == 10 then some (p + 1) else findEol fuel (p + 1)

def nulPos : (fuel : Nat) → Nat → Nat
  | 0, p => p
  | fuel + 1, p => let c := inp.rd p; if c == 0 || c == 10 then p else nulPos fuel (p + 1)

/-- `TextReader::ReadTillEndOfLine` -/
def tReadTillEndOfLine : L Unit := fun r =>
  if r.pos > inp.len then .ub .overrun else
  match findEol inp (inp.len + 1 - r.pos) r.pos with
  | some p => .ok () { r with pos := p, lineStart := p, line := r.line + 1 }
  | none =>
    let p := nulPos inp (inp.len + 1 - r.pos) r.pos
    tReportAt inp p .newline { r with pos := p }

/-- the `for` loop of `TextReader::ReadString` -/
def strLoop : (n : Nat) → RState → Option RState
  | 0, r => some r
  | n + 1, r =>
    let c := inp.rd r.pos
    if c == 10 then strLoop n { r with pos := r.pos + 1, lineStart := r.pos + 1, line := r.line + 1 }
    else if G.eofInString c (r.pos == inp.len) then none
    else strLoop n { r with pos := r.pos + 1 }

/-- position and line bookkeeping at the point where `strLoop` fails -/
def strLoopFail : (n : Nat) → RState → RState
  | 0, r => r
  | n + 1, r =>
    let c := inp.rd r.pos
    if c == 10 then strLoopFail n { r with pos := r.pos + 1, lineStart := r.pos + 1, line := r.line + 1 }
    else if G.eofInString c (r.pos == inp.len) then r
    else strLoopFail n { r with pos := r.pos + 1 }

def slice (a b : Nat) : List UInt8 := (List.range (b - a)).map fun i => inp.rd (a + i)

/-- `TextReader::ReadString` -/
def tReadString : L (List UInt8) := do
  let length ← tReadUInt inp
  let r ← L.get
  if G.notColon (inp.rd r.pos) then tReportAt inp r.pos .colon else
  let r := { r with pos := r.pos + 1 }
  let start := r.pos
  -- the loop can run at most to the terminating NUL, so `length` beyond the input fails
  match strLoop inp (min length (inp.len + 1 - start)) r with
  | none =>
    let rf := strLoopFail inp (min length (inp.len + 1 - start)) r
    L.set rf; tReportAt inp rf.pos .eofstr
  | some r' =>
    if G.notNewline (inp.rd r'.pos) then do L.set r'; tReportAt inp r'.pos .newline
    else do
      L.set { r' with pos := r'.pos + 1, lineStart := r'.pos + 1, line := r'.line + 1 }
      pure (slice inp start r'.pos)

def nameEnd : (fuel : Nat) → Nat → Nat
  | 0, p => p
  | fuel + 1, p => let c := inp.rd p; if !isSpace c && c != 0 then nameEnd fuel (p + 1) else p

/-- `TextReader::ReadName` -/
def tReadName : L (List UInt8) := do
  tSkipSpace inp
  let r ← L.get
  let c := inp.rd r.pos
  if G.noName c then tReport inp .name else
  let p := nameEnd inp (inp.len + 1 - r.pos) (r.pos + 1)
  L.set { r with pos := p }
  pure (slice inp r.pos p)

/-! ### BinaryReader<Converter> -/

def bReport (cls : ErrCls) : L α := fun r => .err ⟨cls, true, r.tok, 0⟩

/-- `BinaryReaderBase::Read(length)` : returns the start offset -/
def bRead (length : Nat) : L Nat := fun r =>
  if G.shortRead inp.len r.pos length then bReport .eof { r with tok := inp.len }
  else .ok r.pos { r with pos := r.pos + length }

/-- little-endian value of `n` bytes at `p` (`swap`: the bytes are reversed first, `EndiannessConverter`) -/
def leBytes (swap : Bool) (p n : Nat) : Nat :=
  (List.range n).foldl (fun acc i =>
    let b := (inp.rd (if swap then p + (n - 1 - i) else p + i)).toNat
    acc + b * 2 ^ (8 * i)) 0

def toSigned (bits v : Nat) : Int := if v ≥ 2 ^ (bits - 1) then (v : Int) - 2 ^ bits else v

/-- `BinaryReader::ReadInt<Int>` (`n` = sizeof(Int)) -/
def bReadInt (swap : Bool) (n : Nat) : L Int := do
  let r ← L.get
  L.set { r with tok := r.pos }
  let p ← bRead inp n
  pure (toSigned (8 * n) (leBytes inp swap p n))

/-- `BinaryReader::ReadUInt` -/
def bReadUInt (swap : Bool) : L Nat := do
  let v ← bReadInt inp swap 4
  if G.negative v then bReport .uint else pure v.toNat

/-- `BinaryReader::ReadDouble` -/
def bReadDouble (swap : Bool) : L F64 := do
  let r ← L.get
  L.set { r with tok := r.pos }
  let p ← bRead inp 8
  pure (leBytes inp swap p 8)

/-- `BinaryReader::ReadString` (= `ReadName`) -/
def bReadString (swap : Bool) : L (List UInt8) := do
  let length ← bReadUInt inp swap
  if length != 0 then
    let p ← bRead inp length
    pure (slice inp p (p + length))
  else pure []

/-! ### the reader interface used by `NLReader<Reader, Handler>` -/

inductive RKind | text | bin (swap : Bool)
deriving Repr, BEq, DecidableEq

def rReport (k : RKind) (cls : ErrCls) : L α :=
  match k with | .text => tReport inp cls | .bin _ => bReport cls
def rReadUInt (k : RKind) : L Nat :=
  match k with | .text => tReadUInt inp | .bin s => bReadUInt inp s
/-- `ReadInt<int>` (bits = 32) or `ReadInt<short>` (bits = 16) -/
def rReadInt (k : RKind) (bits : Nat) : L Int :=
  match k with | .text => tReadInt inp bits | .bin s => bReadInt inp s (bits / 8)
def rReadDouble (k : RKind) : L F64 :=
  match k with | .text => tReadDouble inp | .bin s => bReadDouble inp s
def rReadString (k : RKind) : L (List UInt8) :=
  match k with | .text => tReadString inp | .bin s => bReadString inp s
def rReadName (k : RKind) : L (List UInt8) :=
  match k with | .text => tReadName inp | .bin s => bReadString inp s
def rEol (k : RKind) : L Unit :=
  match k with | .text => tReadTillEndOfLine inp | .bin _ => pure ()

end
end MpVerif.C02

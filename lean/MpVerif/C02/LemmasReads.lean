import MpVerif.C02.Lemmas
/-! # C02 lemmas: parser functions that only read (no notification) -/
namespace MpVerif.C02

/-- `p` never changes the notification list; a normal result satisfies `φ` -/
def Reads (p : P α) (φ : α → Prop) : Prop :=
  ∀ s, match p s with
    | .ok a s' => s'.evs = s.evs ∧ φ a
    | .err _ evs => evs = s.evs
    | .ub _ evs => evs = s.evs
    | .fuel => False

theorem reads_lift (f : L α) : Reads (lift f) (fun _ => True) := by
  intro s; unfold lift; cases f s.r <;> simp

theorem reads_pure {a : α} {φ : α → Prop} (ha : φ a) : Reads (pure a : P α) φ := by
  intro s; exact ⟨rfl, ha⟩

theorem reads_bind {p : P α} {f : α → P β} {φ : α → Prop} {ψ : β → Prop}
    (hp : Reads p φ) (hf : ∀ a, φ a → Reads (f a) ψ) : Reads (p >>= f) ψ := by
  intro s
  show (match P.bind p f s with | .ok a s' => s'.evs = s.evs ∧ ψ a | .err _ evs => evs = s.evs | .ub _ evs => evs = s.evs | .fuel => False)
  unfold P.bind
  have h1 := hp s
  cases hps : p s with
  | ok a s' =>
    rw [hps] at h1
    have h2 := hf a h1.2 s'
    simp only
    cases hfs : f a s' with
    | ok b s'' => rw [hfs] at h2; simp only; exact ⟨h2.1.trans h1.1, h2.2⟩
    | err e evs => rw [hfs] at h2; simp only; exact h2.trans h1.1
    | ub u evs => rw [hfs] at h2; simp only; exact h2.trans h1.1
    | fuel => rw [hfs] at h2; exact h2
  | err e evs => rw [hps] at h1; exact h1
  | ub u evs => rw [hps] at h1; exact h1
  | fuel => rw [hps] at h1; exact h1

theorem reads_mono {p : P α} {φ ψ : α → Prop} (hp : Reads p φ) (hi : ∀ a, φ a → ψ a) : Reads p ψ := by
  intro s
  have h1 := hp s
  cases hps : p s <;> simp_all

theorem reads_fail (cx : Env) (cls : ErrCls) (φ : α → Prop) : Reads (fail cx cls : P α) φ := by
  intro s
  unfold fail lift
  cases hf : rReport cx.inp cx.k cls s.r with
  | ok a r' => exact absurd hf (rReport_not_ok _ _ _ _ a r')
  | err e => rfl
  | ub u => rfl

theorem reads_pub (u : UB) (φ : α → Prop) : Reads (pub u : P α) φ := by
  intro s; rfl

section
variable (cx : Env)

theorem reads_rdChar : Reads (rdChar cx) (fun _ => True) := reads_lift _
theorem reads_rdUInt : Reads (rdUInt cx) (fun _ => True) := reads_lift _
theorem reads_rdInt (b : Nat) : Reads (rdInt cx b) (fun _ => True) := reads_lift _
theorem reads_rdDouble : Reads (rdDouble cx) (fun _ => True) := reads_lift _
theorem reads_rdString : Reads (rdString cx) (fun _ => True) := reads_lift _
theorem reads_rdName : Reads (rdName cx) (fun _ => True) := reads_lift _
theorem reads_eol : Reads (eol cx) (fun _ => True) := reads_lift _

theorem reads_readUIntUB (ub : Nat) : Reads (readUIntUB cx ub) (fun v => v < ub) := by
  unfold readUIntUB
  apply reads_bind (reads_rdUInt cx)
  intro v _
  split
  · exact reads_fail _ _ _
  · exact reads_pure (by omega)

theorem reads_readUIntLU (lb ub : Nat) : Reads (readUIntLU cx lb ub) (fun v => lb ≤ v ∧ v < ub) := by
  unfold readUIntLU
  apply reads_bind (reads_rdUInt cx)
  intro v _
  split
  · exact reads_fail _ _ _
  · exact reads_pure (by omega)

theorem reads_readNumArgs (m : Nat) : Reads (readNumArgs cx m) (fun v => m ≤ v) := by
  unfold readNumArgs
  apply reads_bind (reads_rdUInt cx)
  intro v _
  split
  · exact reads_fail _ _ _
  · exact reads_pure (by omega)

theorem reads_readOpCode : Reads (readOpCode cx) (fun _ => True) := by
  unfold readOpCode
  apply reads_bind (reads_rdUInt cx)
  intro v _
  split
  · exact reads_fail _ _ _
  · exact reads_bind (reads_eol cx) (fun _ _ => reads_pure trivial)

theorem reads_readConstant (code : UInt8) : Reads (readConstant cx code) (fun _ => True) := by
  unfold readConstant
  refine reads_bind (φ := fun _ => True) ?_ (fun v _ => reads_bind (reads_eol cx) (fun _ _ => reads_pure trivial))
  split
  · exact reads_rdDouble cx
  · split
    · exact reads_bind (reads_rdInt cx 16) (fun _ _ => reads_pure trivial)
    · split
      · exact reads_bind (reads_rdInt cx 32) (fun _ _ => reads_pure trivial)
      · exact reads_fail _ _ _

end

/-- use a reading function inside a `Sat` proof -/
theorem sat_reads {strict : Bool} {h : Header} {p : P α} {φ : α → Prop} (hp : Reads p φ) {s : PState}
    {Q : α → PState → Prop} (hg : Good strict h s.evs)
    (hq : ∀ a s', s'.evs = s.evs → φ a → Q a s') : Sat strict h p s Q := by
  unfold Sat
  have h1 := hp s
  cases hps : p s with
  | ok a s' => rw [hps] at h1; exact hq a s' h1.1 h1.2
  | err e evs => rw [hps] at h1; simp only; rw [h1]; exact hg
  | ub u evs => rw [hps] at h1; simp only; rw [h1]; exact hg
  | fuel => trivial

end MpVerif.C02

import MpVerif.C02.LemmasTop
import MpVerif.C02.LemmasMono
/-!
# C02 lemmas: termination — the recursion fuel of the model can never run out

Every level of expression nesting and every iteration of the segment loop starts with `ReadChar`,
which either reports that the cursor is past the terminating NUL (`ub overrun`) or advances the
cursor; no reader primitive ever moves the cursor backwards.  So the number of nested/iterated levels
is bounded by `len + 1 - pos`, and `fuel = len + 2` is never exhausted.
-/
namespace MpVerif.C02
open MpVerif.Gen.Opcodes

/-- `Prog p s Q`: `p` does not run out of fuel from `s`, does not move the cursor backwards, and a normal
    result satisfies `Q` -/
def Prog (p : P α) (s : PState) (Q : α → PState → Prop) : Prop :=
  match p s with
  | .ok a s' => s.r.pos ≤ s'.r.pos ∧ Q a s'
  | .err _ _ => True
  | .ub _ _ => True
  | .fuel => False

theorem prog_pure {a : α} {s : PState} {Q : α → PState → Prop} (hq : Q a s) : Prog (pure a : P α) s Q :=
  ⟨Nat.le_refl _, hq⟩

theorem prog_bind {p : P α} {f : α → P β} {s : PState} {Q : β → PState → Prop}
    (hp : Prog p s (fun a s' => Prog (f a) s' Q)) : Prog (p >>= f) s Q := by
  unfold Prog at *
  show (match P.bind p f s with | .ok a s' => s.r.pos ≤ s'.r.pos ∧ Q a s' | .err _ _ => True | .ub _ _ => True | .fuel => False)
  unfold P.bind
  cases hps : p s with
  | ok a s1 =>
    rw [hps] at hp
    simp only at hp ⊢
    obtain ⟨h1, h2⟩ := hp
    cases hfs : f a s1 with
    | ok b s2 => rw [hfs] at h2; exact ⟨Nat.le_trans h1 h2.1, h2.2⟩
    | err e evs => trivial
    | ub u evs => trivial
    | fuel => rw [hfs] at h2; exact h2
  | err e evs => trivial
  | ub u evs => trivial
  | fuel => rw [hps] at hp; exact hp

theorem prog_mono {p : P α} {s : PState} {Q Q' : α → PState → Prop}
    (hp : Prog p s Q) (hq : ∀ a s', s.r.pos ≤ s'.r.pos → Q a s' → Q' a s') : Prog p s Q' := by
  unfold Prog at *
  cases hps : p s with
  | ok a s1 => rw [hps] at hp; exact ⟨hp.1, hq a s1 hp.1 hp.2⟩
  | err e evs => trivial
  | ub u evs => trivial
  | fuel => rw [hps] at hp; exact hp

theorem prog_emit {e : Ev} {s : PState} {Q : Unit → PState → Prop}
    (hq : Q () { s with evs := e :: s.evs }) : Prog (emit e) s Q := ⟨Nat.le_refl _, hq⟩

theorem prog_lift {f : L α} (hf : LMono f) {s : PState} {Q : α → PState → Prop}
    (hq : ∀ a r, s.r.pos ≤ r.pos → Q a { s with r := r }) : Prog (lift f) s Q := by
  unfold Prog lift
  have := hf s.r
  cases hfs : f s.r with
  | ok a r => rw [hfs] at this; exact ⟨this, hq a r this⟩
  | err e => trivial
  | ub u => trivial

theorem prog_fail {cx : Env} {cls : ErrCls} {s : PState} {Q : α → PState → Prop} :
    Prog (fail cx cls : P α) s Q := by
  unfold Prog fail lift
  cases hf : rReport cx.inp cx.k cls s.r with
  | ok a r' => exact absurd hf (rReport_not_ok _ _ _ _ a r')
  | err e => trivial
  | ub u => trivial

theorem prog_pub {u : UB} {s : PState} {Q : α → PState → Prop} : Prog (pub u : P α) s Q := trivial

theorem prog_ite {p q : P α} {cnd : Prop} [Decidable cnd] {s : PState} {Q : α → PState → Prop}
    (h1 : cnd → Prog p s Q) (h2 : ¬cnd → Prog q s Q) : Prog (if cnd then p else q) s Q := by
  by_cases hc : cnd
  · rw [if_pos hc]; exact h1 hc
  · rw [if_neg hc]; exact h2 hc

theorem prog_forN {body : Nat → P Unit} (I : PState → Prop) :
    ∀ (n i : Nat) (s : PState), (∀ j s, I s → Prog (body j) s (fun _ s' => I s')) → I s →
      Prog (forN n i body) s (fun _ s' => I s') := by
  intro n
  induction n with
  | zero => intro i s _ h0; exact prog_pure h0
  | succ n ih =>
    intro i s hb hI
    show Prog (body i >>= fun _ => forN n (i + 1) body) s _
    apply prog_bind
    apply prog_mono (hb i s hI)
    intro _ s' _ hI'
    exact ih (i + 1) s' hb hI'

/-- `ReadChar` advances the cursor by one, and only from a position inside the buffer -/
theorem prog_rdChar (cx : Env) {s : PState} {Q : UInt8 → PState → Prop}
    (hq : ∀ c s', s'.r.pos = s.r.pos + 1 → s.r.pos ≤ cx.inp.len → Q c s') : Prog (rdChar cx) s Q := by
  unfold Prog rdChar lift readChar
  by_cases h : s.r.pos > cx.inp.len
  · simp [h]
  · simp only [h, ↓reduceIte]
    exact ⟨by simp, hq _ _ rfl (by omega)⟩


/-! ### threshold-closed progress: `T P0 p` -/

/-- from every state whose cursor is at or beyond `P0`, `p` has progress in the sense of `Prog` -/
structure T (P0 : Nat) (p : P α) : Prop where
  h : ∀ s, P0 ≤ s.r.pos → Prog p s (fun _ _ => True)

theorem T_pure {P0 : Nat} {a : α} : T P0 (pure a : P α) := ⟨fun _ _ => prog_pure trivial⟩
theorem T_emit {P0 : Nat} {e : Ev} : T P0 (emit e) := ⟨fun _ _ => prog_emit trivial⟩
theorem T_fail {P0 : Nat} {cx : Env} {cls : ErrCls} : T P0 (fail cx cls : P α) := ⟨fun _ _ => prog_fail⟩
theorem T_pub {P0 : Nat} {u : UB} : T P0 (pub u : P α) := ⟨fun _ _ => prog_pub⟩
theorem T_lift {P0 : Nat} {f : L α} (hf : LMono f) : T P0 (lift f) :=
  ⟨fun _ _ => prog_lift hf (fun _ _ _ => trivial)⟩

theorem T_bind {P0 : Nat} {p : P α} {f : α → P β} (hp : T P0 p) (hf : ∀ a, T P0 (f a)) : T P0 (p >>= f) := by
  constructor
  intro s hs
  apply prog_bind
  apply prog_mono (hp.h s hs)
  intro a s' hle _
  exact (hf a).h s' (Nat.le_trans hs hle)

theorem T_ite {P0 : Nat} {p q : P α} {cnd : Prop} [Decidable cnd] (h1 : T P0 p) (h2 : T P0 q) :
    T P0 (if cnd then p else q) := by
  by_cases hc : cnd
  · rw [if_pos hc]; exact h1
  · rw [if_neg hc]; exact h2

theorem T_forN {P0 : Nat} {body : Nat → P Unit} (hb : ∀ j, T P0 (body j)) (n i : Nat) : T P0 (forN n i body) := by
  constructor
  intro s hs
  refine prog_mono (prog_forN (I := fun s' => P0 ≤ s'.r.pos) n i s ?_ hs) (fun _ _ _ _ => trivial)
  intro j s1 h1
  exact prog_mono ((hb j).h s1 h1) (fun _ s2 hle _ => Nat.le_trans h1 hle)

theorem readChar_mono (inp : Inp) : LMono (readChar inp) := by
  intro r; unfold readChar; by_cases h : r.pos > inp.len <;> simp [h]

section
variable {cx : Env} (pm : PrimMono cx.inp cx.k) {P0 : Nat}
include pm

omit pm in
theorem T_rdChar' : T P0 (rdChar cx) := T_lift (readChar_mono _)
set_option linter.unusedSectionVars false in
theorem T_rdChar : T P0 (rdChar cx) := T_rdChar'
theorem T_rdUInt : T P0 (rdUInt cx) := T_lift pm.uint
theorem T_rdInt (b : Nat) : T P0 (rdInt cx b) := T_lift (pm.int b)
theorem T_rdDouble : T P0 (rdDouble cx) := T_lift pm.dbl
theorem T_rdString : T P0 (rdString cx) := T_lift pm.str
theorem T_rdName : T P0 (rdName cx) := T_lift pm.name
theorem T_eol : T P0 (eol cx) := T_lift pm.eol

/-- one syntactic step of a progress proof -/
syntax "tstep" : tactic
macro_rules
  | `(tactic| tstep) => `(tactic| first
      | exact T_pure | exact T_emit | exact T_fail | exact T_pub
      | exact T_rdChar' | exact T_rdUInt (by assumption) | exact T_rdInt (by assumption) _
      | exact T_rdDouble (by assumption) | exact T_rdString (by assumption)
      | exact T_rdName (by assumption) | exact T_eol (by assumption)
      | assumption
      | apply T_bind | apply T_ite | apply T_forN | intro _)

theorem T_readUIntUB (ub : Nat) : T P0 (readUIntUB cx ub) := by unfold readUIntUB; repeat tstep
theorem T_readUIntLU (lb ub : Nat) : T P0 (readUIntLU cx lb ub) := by unfold readUIntLU; repeat tstep
theorem T_readNumArgs (m : Nat) : T P0 (readNumArgs cx m) := by unfold readNumArgs; repeat tstep
theorem T_readOpCode : T P0 (readOpCode cx) := by unfold readOpCode; repeat tstep
theorem T_readConstant (c : UInt8) : T P0 (readConstant cx c) := by unfold readConstant; repeat tstep


theorem T_doReadReference : T P0 (doReadReference cx) := by
  unfold doReadReference
  have := T_readUIntUB pm (P0 := P0) (Site.ubRef cx.h)
  repeat tstep
theorem T_readReference : T P0 (readReference cx) := by
  unfold readReference
  have := T_doReadReference pm (P0 := P0)
  repeat tstep

variable {rec : Mode → P Unit} (hrec : ∀ m, T P0 (rec m))
include hrec

theorem T_readCountExpr : T P0 (readCountExpr cx rec) := by
  unfold readCountExpr
  have := T_readNumArgs pm (P0 := P0) 1
  have h1 := hrec .log
  repeat tstep

theorem T_readNumericOp (op : Nat) : T P0 (readNumericOp cx rec op) := by
  unfold readNumericOp
  have a1 := T_readNumArgs pm (P0 := P0) 1
  have a3 := T_readNumArgs pm (P0 := P0) 3
  have h1 := hrec .log
  have h2 := hrec (.num false)
  have h3 := hrec .sym
  have hc := T_readCountExpr pm hrec
  have hr := T_readReference pm (P0 := P0)
  have hk := fun c => T_readConstant pm (P0 := P0) c
  simp only []
  repeat (first | exact hk _ | tstep)

theorem T_readNumericC (code : UInt8) (iz : Bool) : T P0 (readNumericC cx rec code iz) := by
  unfold readNumericC
  have h3 := hrec .sym
  have := T_readUIntUB pm (P0 := P0) (Site.ubCall cx.h)
  have := T_readConstant pm (P0 := P0) code
  have := T_readOpCode pm (P0 := P0)
  have := T_doReadReference pm (P0 := P0)
  have := fun op => T_readNumericOp pm hrec op
  repeat (first | exact this _ | tstep)

theorem T_readLogicalOp (op : Nat) : T P0 (readLogicalOp cx rec op) := by
  unfold readLogicalOp
  have a1 := T_readNumArgs pm (P0 := P0) 1
  have a3 := T_readNumArgs pm (P0 := P0) 3
  have h1 := hrec .log
  have h2 := hrec (.num false)
  have hc := T_readCountExpr pm hrec
  have := T_readOpCode pm (P0 := P0)
  simp only []
  repeat tstep

end

section
variable {cx : Env} (pm : PrimMono cx.inp cx.k)
include pm

/-- the expression readers never run out of fuel when `fuel` exceeds the number of bytes left -/
theorem readExpr_prog : ∀ (fuel : Nat) (m : Mode) (s : PState), cx.inp.len + 1 - s.r.pos < fuel →
    Prog (readExpr cx fuel m) s (fun _ _ => True) := by
  intro fuel
  induction fuel with
  | zero => intro m s h; omega
  | succ fuel ih =>
    intro m s hf
    have key : ∀ (g : UInt8 → P Unit), (∀ P0, (∀ m, T P0 (readExpr cx fuel m)) → ∀ c, T P0 (g c)) →
        Prog (rdChar cx >>= g) s (fun _ _ => True) := by
      intro g hg
      apply prog_bind
      apply prog_rdChar
      intro c s' hpos hle
      have hrec : ∀ m, T s'.r.pos (readExpr cx fuel m) := by
        intro m
        constructor
        intro s2 h2
        exact ih m s2 (by omega)
      exact (hg s'.r.pos hrec c).h s' (Nat.le_refl _)
    cases m with
    | sym =>
      unfold readExpr
      apply key
      intro P0 hrec c
      have := T_readOpCode pm (P0 := P0)
      have hn := fun op => T_readNumericOp pm hrec op
      have := T_readNumericC pm hrec c false
      have h1 := hrec .log
      have h3 := hrec .sym
      repeat (first | exact hn _ | tstep)
    | num iz =>
      unfold readExpr
      apply key
      intro P0 hrec c
      exact T_readNumericC pm hrec c iz
    | log =>
      unfold readExpr
      apply key
      intro P0 hrec c
      have := T_readOpCode pm (P0 := P0)
      have := T_readConstant pm (P0 := P0) c
      have hl := fun op => T_readLogicalOp pm hrec op
      repeat (first | exact hl _ | tstep)

theorem T_readExpr (m : Mode) {P0 : Nat} : T P0 (readExpr cx (exprFuel cx) m) := by
  constructor
  intro s _
  exact readExpr_prog pm _ m s (by unfold exprFuel; omega)

variable {P0 : Nat}

theorem T_readLinearTerms (n : Nat) (silent : Bool) : T P0 (readLinearTerms cx n silent) := by
  unfold readLinearTerms
  have := T_readUIntUB pm (P0 := P0) (Site.ubTermVar cx.h)
  repeat tstep

theorem T_readLinearExpr (isObj : Bool) : T P0 (readLinearExpr cx isObj) := by
  unfold readLinearExpr
  have := fun ub => T_readUIntUB pm (P0 := P0) ub
  have h2 := T_readUIntLU pm (P0 := P0) Site.lbTerms (Site.ubTerms cx.h)
  have h3 := fun n b => T_readLinearTerms pm (P0 := P0) n b
  repeat (first | exact this _ | exact h3 _ _ | tstep)

theorem T_readBounds (isCon : Bool) : T P0 (readBounds cx isCon) := by
  unfold readBounds
  simp only []
  repeat tstep

theorem T_colLoop (cum : Bool) : ∀ n prev, T P0 (readColumnSizes.loop cx cum n prev) := by
  intro n
  induction n with
  | zero => intro prev; unfold readColumnSizes.loop; exact T_pure
  | succ n ih =>
    intro prev
    unfold readColumnSizes.loop
    have := ih
    repeat (first | exact this _ | tstep)

theorem T_readColumnSizes (cum : Bool) : T P0 (readColumnSizes cx cum) := by
  unfold readColumnSizes
  have := T_colLoop pm (P0 := P0) cum
  repeat (first | exact this _ _ | tstep)

theorem T_readInitialValues (isCon : Bool) : T P0 (readInitialValues cx isCon) := by
  unfold readInitialValues
  have := fun ub => T_readUIntUB pm (P0 := P0) ub
  simp only []
  repeat (first | exact this _ | tstep)

theorem T_readSuffix : T P0 (readSuffix cx) := by
  unfold readSuffix
  have := fun ub => T_readUIntUB pm (P0 := P0) ub
  have h2 := fun a b => T_readUIntLU pm (P0 := P0) a b
  simp only []
  repeat (first | exact this _ | exact h2 _ _ | tstep)

theorem T_readSegment (ch : UInt8) : T P0 (readSegment cx ch) := by
  unfold readSegment
  have := fun ub => T_readUIntUB pm (P0 := P0) ub
  have h2 := fun a b => T_readUIntLU pm (P0 := P0) a b
  have h3 := fun n b => T_readLinearTerms pm (P0 := P0) n b
  have h4 := fun m => T_readExpr pm m (P0 := P0)
  have h5 := fun b => T_readLinearExpr pm (P0 := P0) b
  have h6 := T_readSuffix pm (P0 := P0)
  have h7 := fun b => T_readBounds pm (P0 := P0) b
  have h8 := fun b => T_readColumnSizes pm (P0 := P0) b
  have h9 := fun b => T_readInitialValues pm (P0 := P0) b
  simp only []
  repeat (first | exact this _ | exact h2 _ _ | exact h3 _ _ | exact h4 _ | exact h5 _ | exact h7 _ | exact h8 _ | exact h9 _ | tstep)

end

/-! ### the segment loop -/

def NoFuel : PRes α → Prop | .fuel => False | _ => True

theorem nofuel_bind {p : P α} {f : α → P β} {s : PState} {Q : α → PState → Prop}
    (hp : Prog p s Q) (hf : ∀ a s', s.r.pos ≤ s'.r.pos → Q a s' → NoFuel (f a s')) : NoFuel ((p >>= f) s) := by
  show NoFuel (P.bind p f s)
  unfold P.bind
  unfold Prog at hp
  cases hps : p s with
  | ok a s1 => rw [hps] at hp; exact hf a s1 hp.1 hp.2
  | err e evs => trivial
  | ub u evs => trivial
  | fuel => rw [hps] at hp; exact hp.elim

theorem nofuel_fail {cx : Env} {cls : ErrCls} {s : PState} : NoFuel ((fail cx cls : P α) s) := by
  have := prog_fail (cx := cx) (cls := cls) (s := s) (Q := fun (_ : α) _ => True)
  unfold Prog at this
  cases h : (fail cx cls : P α) s <;> simp_all [NoFuel]

theorem readLoop_nofuel {cx : Env} (pm : PrimMono cx.inp cx.k) :
    ∀ (fuel : Nat) (rb : Bool) (br : Option RState) (s : PState),
      (cx.inp.len + 1 - s.r.pos) + (match br with | some r1 => cx.inp.len + 2 - r1.pos | none => 0) < fuel →
      NoFuel (readLoop cx fuel rb br s) := by
  intro fuel
  induction fuel with
  | zero => intro rb br s h; omega
  | succ fuel ih =>
    intro rb br s hm
    unfold readLoop
    refine nofuel_bind (Q := fun _ s' => s'.r.pos = s.r.pos + 1 ∧ s.r.pos ≤ cx.inp.len)
      (prog_rdChar cx (fun c s' h1 h2 => ⟨h1, h2⟩)) ?_
    intro c s1 _ ⟨hp1, hle⟩
    by_cases hb : c == 98
    · rw [if_pos hb]
      by_cases hrb : rb = true
      · rw [if_pos hrb]
        refine nofuel_bind (Q := fun _ _ => True) ((T_readBounds pm (P0 := 0) false).h s1 (Nat.zero_le _)) ?_
        intro _ s2 hle2 _
        by_cases hfl : (cx.flags % 2 == 1) = true
        · rw [if_pos hfl]; trivial
        · rw [if_neg hfl]
          apply ih
          cases br <;> simp only at hm ⊢ <;> omega
      · rw [if_neg hrb]
        cases br with
        | none => exact nofuel_fail
        | some r =>
          simp only
          show NoFuel (P.bind (setR r) (fun _ => readLoop cx fuel false none) s1)
          unfold P.bind setR
          simp only
          apply ih
          simp only at hm ⊢
          omega
    · rw [if_neg hb]
      by_cases hz : c == 0
      · rw [if_pos hz]
        show NoFuel (P.bind getR _ s1)
        unfold P.bind getR
        simp only
        split
        · split
          · exact nofuel_fail
          · trivial
        · exact nofuel_fail
      · rw [if_neg hz]
        refine nofuel_bind (Q := fun _ _ => True) ((T_readSegment pm (P0 := 0) c).h s1 (Nat.zero_le _)) ?_
        intro _ s2 hle2 _
        apply ih
        cases br <;> simp only at hm ⊢ <;> omega

end MpVerif.C02

import MpVerif.C02.LemmasReads
/-! # C02 lemmas: the expression readers deliver well-formed postfix streams -/
namespace MpVerif.C02
open MpVerif.Gen.Opcodes

theorem chk_emit {strict : Bool} {h : Header} {evs : List Ev} {c c' : CState} {e : Ev}
    (h1 : chkRev strict h evs = some c) (h2 : step strict h c e = some c') :
    chkRev strict h (e :: evs) = some c' := by
  simp [chkRev, h1, h2]

/-- read with a non-emitting function: the checker state `hc` is carried over to the new state -/
syntax "rd " term " with " ident ident ident " from " ident : tactic
macro_rules
  | `(tactic| rd $hp with $v $s1 $hv from $hc) =>
    `(tactic| (apply sat_bind; apply sat_reads $hp (good_of_some $hc); intro $v $s1 he_ $hv;
               replace $hc : chkRev _ _ (PState.evs $s1) = some _ := (by rw [he_]; exact $hc); clear he_))

/-- emit: new checker state computed by `simp` -/
syntax "em " ident " => " ident ident : tactic
macro_rules
  | `(tactic| em $hc => $s1 $h1) =>
    `(tactic| (apply sat_bind; apply sat_emit; generalize hs_ : PState.mk _ _ = $s1;
               have $h1 := chk_emit (e := _) $hc (c' := _) (by simp [step, stepCore, CState.push1, counted, *] <;> rfl)))

section
variable (strict : Bool) (cx : Env)

def ExprPost (m : Mode) (c : CState) : Unit → PState → Prop := fun _ s' =>
  match m with
  | .num true => chkRev strict cx.h s'.evs = some c ∨ chkRev strict cx.h s'.evs = some c.push1
  | _ => chkRev strict cx.h s'.evs = some c.push1

def RecOK (rec : Mode → P Unit) : Prop :=
  ∀ m s c, chkRev strict cx.h s.evs = some c → c.done = false →
    Sat strict cx.h (rec m) s (ExprPost strict cx m c)

variable {strict cx}

/-- the argument loops: `k` more arguments expected on the innermost frame -/
theorem args_loop {rec : Mode → P Unit} (hrec : RecOK strict cx rec) (m : Mode) (hm : m ≠ .num true)
    (n tag : Nat) (c : CState) (hd : c.done = false) (i : Nat) (s : PState)
    (hc : chkRev strict cx.h s.evs = some { c with stack := .args n tag :: c.stack }) :
    Sat strict cx.h (forN n i fun _ => do rec m; emit .addArg) s
      (fun _ s' => chkRev strict cx.h s'.evs = some { c with stack := .args 0 tag :: c.stack }) := by
  apply sat_forN (I := fun k s' => chkRev strict cx.h s'.evs = some { c with stack := .args k tag :: c.stack }) n i s _ hc
  intro k j s1 _ _ _ h1
  apply sat_bind
  apply sat_mono (hrec m s1 _ h1 hd)
  intro _ s2 h2
  have h2' : chkRev strict cx.h s2.evs = some (CState.push1 { c with stack := .args (k + 1) tag :: c.stack }) := by
    cases m with
    | num iz => cases iz <;> simp_all [ExprPost]
    | sym => exact h2
    | log => exact h2
  apply sat_emit
  exact chk_emit h2' (by simp [step, stepCore, CState.push1, hd])


/-! continuation-style rules -/

theorem sat_rd_bind {p : P α} {φ : α → Prop} (hp : Reads p φ) {s : PState} {c : CState}
    (hc : chkRev strict cx.h s.evs = some c) {f : α → P β} {Q : β → PState → Prop}
    (hk : ∀ a s1, chkRev strict cx.h s1.evs = some c → φ a → Sat strict cx.h (f a) s1 Q) :
    Sat strict cx.h (p >>= f) s Q := by
  apply sat_bind
  apply sat_reads hp (good_of_some hc)
  intro a s1 he ha
  exact hk a s1 (by rw [he]; exact hc) ha

theorem sat_rd_last {p : P α} {φ : α → Prop} (hp : Reads p φ) {s : PState} {c : CState}
    (hc : chkRev strict cx.h s.evs = some c) {Q : α → PState → Prop}
    (hk : ∀ a s1, chkRev strict cx.h s1.evs = some c → φ a → Q a s1) :
    Sat strict cx.h p s Q := by
  apply sat_reads hp (good_of_some hc)
  intro a s1 he ha
  exact hk a s1 (by rw [he]; exact hc) ha

theorem sat_em_bind {e : Ev} {s : PState} {c c' : CState}
    (hc : chkRev strict cx.h s.evs = some c) (hs : step strict cx.h c e = some c')
    {f : Unit → P β} {Q : β → PState → Prop}
    (hk : ∀ s1, chkRev strict cx.h s1.evs = some c' → Sat strict cx.h (f ()) s1 Q) :
    Sat strict cx.h (emit e >>= f) s Q := by
  apply sat_bind
  apply sat_emit
  exact hk _ (chk_emit hc hs)

theorem sat_em_last {e : Ev} {s : PState} {c c' : CState}
    (hc : chkRev strict cx.h s.evs = some c) (hs : step strict cx.h c e = some c') :
    Sat strict cx.h (emit e) s (fun _ s' => chkRev strict cx.h s'.evs = some c') := by
  apply sat_emit
  exact chk_emit hc hs

theorem sat_rec_bind {rec : Mode → P Unit} (hrec : RecOK strict cx rec) (m : Mode) (hm : m ≠ .num true)
    {s : PState} {c : CState} (hc : chkRev strict cx.h s.evs = some c) (hd : c.done = false)
    {f : Unit → P β} {Q : β → PState → Prop}
    (hk : ∀ s1, chkRev strict cx.h s1.evs = some c.push1 → Sat strict cx.h (f ()) s1 Q) :
    Sat strict cx.h (rec m >>= f) s Q := by
  apply sat_bind
  apply sat_mono (hrec m s c hc hd)
  intro _ s1 h1
  apply hk
  cases m with
  | num iz => cases iz <;> simp_all [ExprPost]
  | sym => exact h1
  | log => exact h1

theorem sat_loop_bind {rec : Mode → P Unit} (hrec : RecOK strict cx rec) (m : Mode) (hm : m ≠ .num true)
    (n tag : Nat) {c : CState} (hd : c.done = false) {s : PState}
    (hc : chkRev strict cx.h s.evs = some { c with stack := .args n tag :: c.stack })
    {f : Unit → P β} {Q : β → PState → Prop}
    (hk : ∀ s1, chkRev strict cx.h s1.evs = some { c with stack := .args 0 tag :: c.stack } → Sat strict cx.h (f ()) s1 Q) :
    Sat strict cx.h ((forN n 0 fun _ => do rec m; emit .addArg) >>= f) s Q := by
  apply sat_bind
  apply sat_mono (args_loop hrec m hm n tag c hd 0 s hc)
  intro _ s1 h1
  exact hk s1 h1

/-- `ReadCountExpr` -/
theorem count_ok {rec : Mode → P Unit} (hrec : RecOK strict cx rec) {s : PState} {c : CState}
    (hc : chkRev strict cx.h s.evs = some c) (hd : c.done = false) :
    Sat strict cx.h (readCountExpr cx rec) s (fun _ s' => chkRev strict cx.h s'.evs = some c.push1) := by
  unfold readCountExpr
  refine sat_rd_bind (reads_readNumArgs cx 1) hc (fun n s1 hc1 _ => ?_)
  refine sat_em_bind (c' := { c with stack := .args n 3 :: c.stack }) hc1 (by simp [step, stepCore, hd]) (fun s2 hc2 => ?_)
  refine sat_rd_bind (reads_eol cx) hc2 (fun _ s3 hc3 _ => ?_)
  refine sat_loop_bind hrec .log (by simp) n 3 hd hc3 (fun s4 hc4 => ?_)
  exact sat_em_last hc4 (by simp [step, stepCore, hd, CState.push1])


/-- `DoReadReference` -/
theorem reference_ok {s : PState} {c : CState}
    (hc : chkRev strict cx.h s.evs = some c) (hd : c.done = false) :
    Sat strict cx.h (doReadReference cx) s (fun _ s' => chkRev strict cx.h s'.evs = some c.push1) := by
  unfold doReadReference
  refine sat_rd_bind (reads_readUIntUB cx _) hc (fun i s1 hc1 hi0 => ?_)
  have hi : i < cx.h.num_vars_and_exprs := Nat.lt_of_lt_of_le hi0 (Site.ubRef_le cx.h)
  refine sat_rd_bind (reads_eol cx) hc1 (fun _ s2 hc2 _ => ?_)
  split
  · exact sat_em_last hc2 (by simp [step, stepCore, hd, *])
  · refine sat_em_last hc2 ?_
    have : i - cx.h.num_vars < cx.h.num_common_exprs := by
      simp only [Header.num_vars_and_exprs] at hi; omega
    simp [step, stepCore, hd, this]

theorem readReference_ok {s : PState} {c : CState}
    (hc : chkRev strict cx.h s.evs = some c) (hd : c.done = false) :
    Sat strict cx.h (readReference cx) s (fun _ s' => chkRev strict cx.h s'.evs = some c.push1) := by
  unfold readReference
  refine sat_rd_bind (reads_rdChar cx) hc (fun ch s1 hc1 _ => ?_)
  split
  · exact sat_fail (good_of_some hc1)
  · exact reference_ok hc1 hd

/-- one `AddSlope(ReadConstant())` / `AddBreakpoint(ReadConstant())` -/
theorem pl_loop (n : Nat) (c : CState) (hd : c.done = false) (i : Nat) (s : PState)
    (hc : chkRev strict cx.h s.evs = some { c with stack := .pl (2 * n + 1) :: c.stack }) :
    Sat strict cx.h (forN n i fun _ => do
        let ch ← rdChar cx; let sl ← readConstant cx ch; emit (.slope sl)
        let ch ← rdChar cx; let b ← readConstant cx ch; emit (.breakpoint b)) s
      (fun _ s' => chkRev strict cx.h s'.evs = some { c with stack := .pl 1 :: c.stack }) := by
  apply sat_forN (I := fun k s' => chkRev strict cx.h s'.evs = some { c with stack := .pl (2 * k + 1) :: c.stack }) n i s _ hc
  intro k j s1 _ _ _ h1
  refine sat_rd_bind (reads_rdChar cx) h1 (fun ch s2 hc2 _ => ?_)
  refine sat_rd_bind (reads_readConstant cx ch) hc2 (fun v s3 hc3 _ => ?_)
  refine sat_em_bind (c' := { c with stack := .pl (2 * k + 2) :: c.stack }) hc3 (by simp [step, stepCore, hd] <;> omega) (fun s4 hc4 => ?_)
  refine sat_rd_bind (reads_rdChar cx) hc4 (fun ch s5 hc5 _ => ?_)
  refine sat_rd_bind (reads_readConstant cx ch) hc5 (fun v s6 hc6 _ => ?_)
  exact sat_em_last hc6 (by simp [step, stepCore, hd] <;> omega)

/-- `ReadNumericExpr(int opcode)` -/
theorem numericOp_ok {rec : Mode → P Unit} (hrec : RecOK strict cx rec) (op : Nat) {s : PState} {c : CState}
    (hc : chkRev strict cx.h s.evs = some c) (hd : c.done = false) :
    Sat strict cx.h (readNumericOp cx rec op) s (fun _ s' => chkRev strict cx.h s'.evs = some c.push1) := by
  unfold readNumericOp
  simp only []
  split
  · -- unary
    refine sat_rec_bind hrec _ (by simp) hc hd (fun s1 h1 => ?_)
    exact sat_em_last h1 (by simp [step, stepCore, hd, CState.push1])
  split
  · -- binary
    refine sat_rec_bind hrec _ (by simp) hc hd (fun s1 h1 => ?_)
    refine sat_rec_bind hrec _ (by simp) h1 hd (fun s2 h2 => ?_)
    exact sat_em_last h2 (by simp [step, stepCore, hd, CState.push1])
  split
  · -- if
    refine sat_rec_bind hrec _ (by simp) hc hd (fun s1 h1 => ?_)
    refine sat_rec_bind hrec _ (by simp) h1 hd (fun s2 h2 => ?_)
    refine sat_rec_bind hrec _ (by simp) h2 hd (fun s3 h3 => ?_)
    exact sat_em_last h3 (by simp [step, stepCore, hd, CState.push1])
  split
  · -- piecewise-linear term
    refine sat_rd_bind (reads_rdUInt cx) hc (fun ns s1 hc1 _ => ?_)
    split
    · exact sat_fail (good_of_some hc1)
    rename_i hns
    refine sat_rd_bind (reads_eol cx) hc1 (fun _ s2 hc2 _ => ?_)
    refine sat_em_bind (c' := { c with stack := .pl (2 * (ns - 1) + 1) :: c.stack }) hc2
      (by simp [step, stepCore, hd] <;> omega) (fun s3 hc3 => ?_)
    apply sat_bind
    apply sat_mono (pl_loop (ns - 1) c hd 0 s3 hc3)
    intro _ s4 hc4
    refine sat_rd_bind (reads_rdChar cx) hc4 (fun ch s5 hc5 _ => ?_)
    refine sat_rd_bind (reads_readConstant cx ch) hc5 (fun v s6 hc6 _ => ?_)
    refine sat_em_bind (c' := { c with stack := .pl 0 :: c.stack }) hc6 (by simp [step, stepCore, hd]) (fun s7 hc7 => ?_)
    apply sat_bind
    apply sat_mono (readReference_ok hc7 hd)
    intro _ s8 hc8
    exact sat_em_last hc8 (by simp [step, stepCore, hd, CState.push1])
  split
  · -- vararg
    refine sat_rd_bind (reads_readNumArgs cx 1) hc (fun n s1 hc1 _ => ?_)
    refine sat_em_bind (c' := { c with stack := .args n 1 :: c.stack }) hc1 (by simp [step, stepCore, hd]) (fun s2 hc2 => ?_)
    refine sat_rd_bind (reads_eol cx) hc2 (fun _ s3 hc3 _ => ?_)
    refine sat_loop_bind hrec _ (by simp) n 1 hd hc3 (fun s4 hc4 => ?_)
    exact sat_em_last hc4 (by simp [step, stepCore, hd, CState.push1])
  split
  · -- sum
    refine sat_rd_bind (reads_readNumArgs cx 3) hc (fun n s1 hc1 _ => ?_)
    refine sat_em_bind (c' := { c with stack := .args n 2 :: c.stack }) hc1 (by simp [step, stepCore, hd]) (fun s2 hc2 => ?_)
    refine sat_rd_bind (reads_eol cx) hc2 (fun _ s3 hc3 _ => ?_)
    refine sat_loop_bind hrec _ (by simp) n 2 hd hc3 (fun s4 hc4 => ?_)
    exact sat_em_last hc4 (by simp [step, stepCore, hd, CState.push1])
  split
  · exact count_ok hrec hc hd
  split
  · -- numberof
    refine sat_rd_bind (reads_readNumArgs cx 1) hc (fun n s1 hc1 hn => ?_)
    refine sat_rd_bind (reads_eol cx) hc1 (fun _ s2 hc2 _ => ?_)
    refine sat_rec_bind hrec _ (by simp) hc2 hd (fun s3 h3 => ?_)
    refine sat_em_bind (c' := { c with stack := .args (n - 1) 4 :: c.stack }) h3
      (by simp [step, stepCore, hd, CState.push1, hn]) (fun s4 hc4 => ?_)
    refine sat_loop_bind hrec _ (by simp) (n - 1) 4 hd hc4 (fun s5 hc5 => ?_)
    exact sat_em_last hc5 (by simp [step, stepCore, hd, CState.push1])
  split
  · -- symbolic numberof
    refine sat_rd_bind (reads_readNumArgs cx 1) hc (fun n s1 hc1 hn => ?_)
    refine sat_rd_bind (reads_eol cx) hc1 (fun _ s2 hc2 _ => ?_)
    refine sat_rec_bind hrec _ (by simp) hc2 hd (fun s3 h3 => ?_)
    refine sat_em_bind (c' := { c with stack := .args (n - 1) 5 :: c.stack }) h3
      (by simp [step, stepCore, hd, CState.push1, hn]) (fun s4 hc4 => ?_)
    refine sat_loop_bind hrec _ (by simp) (n - 1) 5 hd hc4 (fun s5 hc5 => ?_)
    exact sat_em_last hc5 (by simp [step, stepCore, hd, CState.push1])
  · exact sat_fail (good_of_some hc)


/-- `ReadNumericExpr(char code, bool ignore_zero)` -/
theorem numericC_ok {rec : Mode → P Unit} (hrec : RecOK strict cx rec) (code : UInt8) (iz : Bool)
    {s : PState} {c : CState} (hc : chkRev strict cx.h s.evs = some c) (hd : c.done = false) :
    Sat strict cx.h (readNumericC cx rec code iz) s (ExprPost strict cx (.num iz) c) := by
  have post_of : ∀ s', chkRev strict cx.h s'.evs = some c.push1 → ExprPost strict cx (.num iz) c () s' := by
    intro s' h'; cases iz <;> simp [ExprPost, h']
  unfold readNumericC
  split
  · -- function call
    refine sat_rd_bind (reads_readUIntUB cx _) hc (fun f s1 hc1 hf0 => ?_)
    have hf : f < cx.h.num_funcs := Nat.lt_of_lt_of_le hf0 (Site.ubCall_le cx.h)
    refine sat_rd_bind (reads_rdUInt cx) hc1 (fun n s2 hc2 _ => ?_)
    refine sat_rd_bind (reads_eol cx) hc2 (fun _ s3 hc3 _ => ?_)
    refine sat_em_bind (c' := { c with stack := .args n 0 :: c.stack }) hc3 (by simp [step, stepCore, hd, hf]) (fun s4 hc4 => ?_)
    refine sat_loop_bind hrec .sym (by simp) n 0 hd hc4 (fun s5 hc5 => ?_)
    exact sat_mono (sat_em_last hc5 (by simp [step, stepCore, hd, CState.push1])) (fun _ s' h' => post_of s' h')
  split
  · -- number
    refine sat_rd_bind (reads_readConstant cx code) hc (fun v s1 hc1 _ => ?_)
    split
    · rename_i hz
      apply sat_pure
      cases iz
      · simp at hz
      · simp [ExprPost, hc1]
    · exact sat_mono (sat_em_last hc1 (by simp [step, stepCore, hd])) (fun _ s' h' => post_of s' h')
  split
  · refine sat_rd_bind (reads_readOpCode cx) hc (fun op s1 hc1 _ => ?_)
    exact sat_mono (numericOp_ok hrec op hc1 hd) (fun _ s' h' => post_of s' h')
  split
  · exact sat_mono (reference_ok hc hd) (fun _ s' h' => post_of s' h')
  · exact sat_fail (good_of_some hc)

/-- `ReadLogicalExpr(int opcode)` -/
theorem logicalOp_ok {rec : Mode → P Unit} (hrec : RecOK strict cx rec) (op : Nat) {s : PState} {c : CState}
    (hc : chkRev strict cx.h s.evs = some c) (hd : c.done = false) :
    Sat strict cx.h (readLogicalOp cx rec op) s (fun _ s' => chkRev strict cx.h s'.evs = some c.push1) := by
  unfold readLogicalOp
  simp only []
  split
  · refine sat_rec_bind hrec _ (by simp) hc hd (fun s1 h1 => ?_)
    exact sat_em_last h1 (by simp [step, stepCore, hd, CState.push1])
  split
  · refine sat_rec_bind hrec _ (by simp) hc hd (fun s1 h1 => ?_)
    refine sat_rec_bind hrec _ (by simp) h1 hd (fun s2 h2 => ?_)
    exact sat_em_last h2 (by simp [step, stepCore, hd, CState.push1])
  split
  · refine sat_rec_bind hrec _ (by simp) hc hd (fun s1 h1 => ?_)
    refine sat_rec_bind hrec _ (by simp) h1 hd (fun s2 h2 => ?_)
    exact sat_em_last h2 (by simp [step, stepCore, hd, CState.push1])
  split
  · -- logical count
    refine sat_rec_bind hrec _ (by simp) hc hd (fun s1 h1 => ?_)
    refine sat_rd_bind (reads_rdChar cx) h1 (fun ch s2 hc2 _ => ?_)
    split
    · exact sat_fail (good_of_some hc2)
    refine sat_rd_bind (reads_readOpCode cx) hc2 (fun op2 s3 hc3 _ => ?_)
    split
    · exact sat_fail (good_of_some hc3)
    apply sat_bind
    apply sat_mono (count_ok hrec hc3 hd)
    intro _ s4 hc4
    exact sat_em_last hc4 (by simp [step, stepCore, hd, CState.push1])
  split
  · refine sat_rec_bind hrec _ (by simp) hc hd (fun s1 h1 => ?_)
    refine sat_rec_bind hrec _ (by simp) h1 hd (fun s2 h2 => ?_)
    refine sat_rec_bind hrec _ (by simp) h2 hd (fun s3 h3 => ?_)
    exact sat_em_last h3 (by simp [step, stepCore, hd, CState.push1])
  split
  · refine sat_rd_bind (reads_readNumArgs cx 3) hc (fun n s1 hc1 _ => ?_)
    refine sat_em_bind (c' := { c with stack := .args n 6 :: c.stack }) hc1 (by simp [step, stepCore, hd]) (fun s2 hc2 => ?_)
    refine sat_rd_bind (reads_eol cx) hc2 (fun _ s3 hc3 _ => ?_)
    refine sat_loop_bind hrec _ (by simp) n 6 hd hc3 (fun s4 hc4 => ?_)
    exact sat_em_last hc4 (by simp [step, stepCore, hd, CState.push1])
  split
  · refine sat_rd_bind (reads_readNumArgs cx 1) hc (fun n s1 hc1 _ => ?_)
    refine sat_em_bind (c' := { c with stack := .args n 7 :: c.stack }) hc1 (by simp [step, stepCore, hd]) (fun s2 hc2 => ?_)
    refine sat_rd_bind (reads_eol cx) hc2 (fun _ s3 hc3 _ => ?_)
    refine sat_loop_bind hrec _ (by simp) n 7 hd hc3 (fun s4 hc4 => ?_)
    exact sat_em_last hc4 (by simp [step, stepCore, hd, CState.push1])
  · exact sat_fail (good_of_some hc)

/-- all three expression readers, at every recursion depth -/
theorem readExpr_ok : ∀ fuel : Nat, RecOK strict cx (readExpr cx fuel) := by
  intro fuel
  induction fuel with
  | zero => intro m s c _ _; cases m <;> exact sat_fuel
  | succ fuel ih =>
    intro m s c hc hd
    cases m with
    | sym =>
      show Sat strict cx.h (readExpr cx (fuel + 1) .sym) s (fun _ s' => chkRev strict cx.h s'.evs = some c.push1)
      unfold readExpr
      refine sat_rd_bind (reads_rdChar cx) hc (fun ch s1 hc1 _ => ?_)
      split
      · refine sat_rd_bind (reads_rdString cx) hc1 (fun str s2 hc2 _ => ?_)
        exact sat_em_last hc2 (by simp [step, stepCore, hd])
      split
      · refine sat_rd_bind (reads_readOpCode cx) hc1 (fun op s2 hc2 _ => ?_)
        split
        · exact numericOp_ok ih op hc2 hd
        · refine sat_rec_bind ih _ (by simp) hc2 hd (fun s3 h3 => ?_)
          refine sat_rec_bind ih _ (by simp) h3 hd (fun s4 h4 => ?_)
          refine sat_rec_bind ih _ (by simp) h4 hd (fun s5 h5 => ?_)
          exact sat_em_last h5 (by simp [step, stepCore, hd, CState.push1])
      · exact numericC_ok ih ch false hc1 hd
    | num iz =>
      unfold readExpr
      refine sat_rd_bind (reads_rdChar cx) hc (fun ch s1 hc1 _ => ?_)
      exact numericC_ok ih ch iz hc1 hd
    | log =>
      show Sat strict cx.h (readExpr cx (fuel + 1) .log) s (fun _ s' => chkRev strict cx.h s'.evs = some c.push1)
      unfold readExpr
      refine sat_rd_bind (reads_rdChar cx) hc (fun ch s1 hc1 _ => ?_)
      split
      · refine sat_rd_bind (reads_readConstant cx ch) hc1 (fun v s2 hc2 _ => ?_)
        exact sat_em_last hc2 (by simp [step, stepCore, hd])
      split
      · refine sat_rd_bind (reads_readOpCode cx) hc1 (fun op s2 hc2 _ => ?_)
        exact logicalOp_ok ih op hc2 hd
      · exact sat_fail (good_of_some hc1)

end
end MpVerif.C02

import MpVerif.C02.Model
namespace MpVerif.C02
/-- placeholder while the real theorems are being written -/
theorem C02_emit_appends (e : Ev) (s : PState) : emit e s = .ok () { s with evs := e :: s.evs } := rfl
end MpVerif.C02

import MpVerif.C02.LemmasTop
import MpVerif.C02.LemmasTotal
import MpVerif.C02.LemmasSafe
import MpVerif.C02.LemmasHeader
import MpVerif.C02.GenTieStruct
/-!
# C02 — property theorems

Model: `readNL data flags objsel` (MpVerif/C02/Model.lean) = `mp::ReadNLString` over the bytes `data`
(text, binary native, binary byte-swapped; `flags` bit 0 = READ_BOUNDS_FIRST; `objsel` = the handler's
objective filter).  Property predicate: `Consistent` (MpVerif/C02/ModelCheck.lean).
All theorems quantify over every byte string, every flag value and every objective filter.
-/
namespace MpVerif.C02

theorem finish_consistent {strict : Bool} {h : Header} (p : P Unit) (s : PState)
    (hs : Sat strict h p s (fun _ s' => ∃ c, chkRev strict h s'.evs = some c ∧ Finished c)) :
    Consistent strict (finish h (p s)) = true := by
  unfold Sat at hs
  cases hres : p s with
  | ok a s1 =>
    rw [hres] at hs
    obtain ⟨c, hc, hd, hst, hv⟩ := hs
    simp [finish, Consistent, ← chkRev_eq_run, hc, hd, hst, hv, Outcome.isOk]
  | err e evs =>
    rw [hres] at hs
    unfold Good at hs
    simp only [finish, Consistent, ← chkRev_eq_run]
    cases hc : chkRev strict h evs with
    | none => simp [hc] at hs
    | some c => simp [Outcome.isOk]
  | ub u evs =>
    rw [hres] at hs
    unfold Good at hs
    simp only [finish, Consistent, ← chkRev_eq_run]
    cases hc : chkRev strict h evs with
    | none => simp [hc] at hs
    | some c => simp [Outcome.isOk]
  | fuel => simp [finish, Consistent, run, Outcome.isOk]

/-- **C02 (consistency).**  Whatever bytes are read, with or without READ_BOUNDS_FIRST, in text, native
    binary or byte-swapped binary form: everything delivered to the handler — including the prefix
    delivered before a read error — is consistent with the header delivered first (indices in declared
    ranges, announced counts honoured exactly, Begin/End properly nested and matched, well-formed postfix
    expression stream, `EndInput` last and only after everything is closed).  With a handler that needs
    every objective (`objsel = none`) in the strict sense; with an objective filter in the sense that
    tolerates the expression of a skipped `O` segment being delivered and dropped. -/
theorem C02_consistent (data : ByteArray) (flags : Nat) (objsel : Option Nat) :
    Consistent objsel.isNone (readNL data flags objsel) = true := by
  have hso : objsel.isNone = true → objsel = none := by cases objsel <;> simp
  unfold readNL readNLInp
  split
  · rfl
  · rfl
  · rename_i h r _
    split
    · exact finish_consistent _ _ (readBody_ok ⟨Inp.ofBytes data, .text, h, flags, objsel⟩ hso r)
    split
    · exact finish_consistent _ _ (readBody_ok ⟨Inp.ofBytes data, .bin false, h, flags, objsel⟩ hso r)
    split
    · exact finish_consistent _ _ (readBody_ok ⟨Inp.ofBytes data, .bin true, h, flags, objsel⟩ hso r)
    · simp [Consistent, run, Outcome.isOk]

/-- the same for the handler that needs every objective, spelled out -/
theorem C02_consistent_all_objectives (data : ByteArray) (flags : Nat) :
    Consistent true (readNL data flags none) = true := C02_consistent data flags none

/-- what `Consistent` gives for a single notification: its indices are inside the header's ranges -/
def evInRange (h : Header) : Ev → Prop
  | .obj i _ => i < h.num_objs
  | .algCon i => i < h.num_algebraic_cons
  | .logCon i => i < h.num_logical_cons
  | .beginCommonExpr i _ => i < h.num_common_exprs
  | .complementarity con var _ => con < h.num_algebraic_cons ∧ var < h.num_vars
  | .linearObj i n => i < h.num_objs ∧ 1 ≤ n ∧ n ≤ h.num_vars
  | .linearCon i n => i < h.num_algebraic_cons ∧ 1 ≤ n ∧ n ≤ h.num_vars
  | .addTerm v _ => v < h.num_vars
  | .varBounds i _ _ => i < h.num_vars
  | .conBounds i _ _ => i < h.num_algebraic_cons
  | .initVal i _ => i < h.num_vars
  | .initDual i _ => i < h.num_algebraic_cons
  | .function i _ _ t => i < h.num_funcs ∧ t ≤ 1
  | .intSuffix _ kind n => kind ≤ 3 ∧ 1 ≤ n ∧ n ≤ h.suffixItems kind
  | .dblSuffix _ kind n => kind ≤ 3 ∧ 1 ≤ n ∧ n ≤ h.suffixItems kind
  | .varRef i => i < h.num_vars
  | .commonRef i => i < h.num_common_exprs
  | .beginCall f _ => f < h.num_funcs
  | _ => True

theorem step_inRange {strict : Bool} {h : Header} {c c' : CState} {e : Ev}
    (hs : step strict h c e = some c') : evInRange h e := by
  unfold step at hs
  split at hs
  · cases hs
  · cases e <;> simp only [stepCore] at hs <;> simp only [evInRange]
    all_goals try trivial
    all_goals repeat' split at hs
    all_goals simp_all

theorem run_inRange {strict : Bool} {h : Header} :
    ∀ (evs : List Ev) (c c' : CState), run strict h c evs = some c' → ∀ e ∈ evs, evInRange h e := by
  intro evs
  induction evs with
  | nil => intro c c' _ e he; cases he
  | cons x xs ih =>
    intro c c' hr e he
    simp only [run] at hr
    cases hx : step strict h c x with
    | none => simp [hx] at hr
    | some c1 =>
      rw [hx] at hr
      rcases List.mem_cons.mp he with rfl | hmem
      · exact step_inRange hx
      · exact ih c1 c' hr e hmem

/-- **C02 (indices).**  Every index in every notification is inside the range declared by the header
    that was delivered first — for every input, every mode, also for the prefix before an error. -/
theorem C02_indices_in_range (data : ByteArray) (flags : Nat) (objsel : Option Nat) (h : Header)
    (hh : (readNL data flags objsel).header = some h) :
    ∀ e ∈ (readNL data flags objsel).evs, evInRange h e := by
  have hc := C02_consistent data flags objsel
  unfold Consistent at hc
  rw [hh] at hc
  simp only at hc
  cases hr : run objsel.isNone h CState.init (readNL data flags objsel).evs with
  | none => simp [hr] at hc
  | some c => exact run_inRange _ _ _ hr

/-- nothing is delivered unless the header was: no header ⇒ no notification, and not a normal return -/
theorem C02_header_first (data : ByteArray) (flags : Nat) (objsel : Option Nat)
    (hh : (readNL data flags objsel).header = none) :
    (readNL data flags objsel).evs = [] ∧ (readNL data flags objsel).outcome ≠ .ok := by
  have hc := C02_consistent data flags objsel
  unfold Consistent at hc
  rw [hh] at hc
  simp at hc
  refine ⟨hc.1, ?_⟩
  intro ho
  rw [ho] at hc
  simp [Outcome.isOk] at hc

/-! ### the header itself -/

theorem finish_header (h : Header) (res : PRes Unit) : (finish h res).header = some h := by
  cases res <;> rfl

/-- **C02 (declared index space).**  A header that is delivered to the handler declares index spaces that
    fit `int`: `num_vars + Σ common-expression counts ≤ INT_MAX` (the five counts are accumulated by
    `ReadUInt(int &accumulator)`, each checked against the running total) and
    `num_algebraic_cons + num_logical_cons ≤ INT_MAX`.  Every later range check is made against these sums. -/
theorem C02_header_index_space (data : ByteArray) (flags : Nat) (objsel : Option Nat) (h : Header)
    (hh : (readNL data flags objsel).header = some h) :
    h.num_vars + h.num_common_exprs ≤ 2147483647 ∧ h.num_algebraic_cons + h.num_logical_cons ≤ 2147483647 := by
  unfold readNL readNLInp at hh
  split at hh
  · cases hh
  · cases hh
  · rename_i h0 r hhd
    have e : h0 = h := by
      split at hh
      · rw [finish_header] at hh; exact Option.some.inj hh
      split at hh
      · rw [finish_header] at hh; exact Option.some.inj hh
      split at hh
      · rw [finish_header] at hh; exact Option.some.inj hh
      · exact Option.some.inj hh
    subst e
    exact ⟨(readHeader_index_space (Inp.ofBytes data)).h _ _ _ hhd, (readHeader_con_space (Inp.ofBytes data)).h _ _ _ hhd⟩

/-! ### termination -/

theorem nofuel_then_emit {p : P Unit} {e : Ev} {s : PState} (h : NoFuel (p s)) :
    NoFuel ((do p; emit e : P Unit) s) := by
  show NoFuel (P.bind p (fun _ => emit e) s)
  unfold P.bind
  cases hp : p s with
  | ok a s1 => trivial
  | err e evs => trivial
  | ub u evs => trivial
  | fuel => rw [hp] at h; exact h

theorem readBody_nofuel (cx : Env) (s : PState) : NoFuel (readBody cx s) := by
  have pm := primMono cx.inp cx.k
  unfold readBody
  split
  · have h1 := readLoop_nofuel (cx := { cx with objsel := none }) pm (loopFuel cx.inp) true none ⟨s.r, []⟩
      (by simp only [loopFuel]; omega)
    simp only []
    generalize readLoop { inp := cx.inp, k := cx.k, h := cx.h, flags := cx.flags, objsel := none }
      (loopFuel cx.inp) true none ⟨s.r, []⟩ = res at h1
    cases res with
    | ok a s1 =>
      simp only
      apply nofuel_then_emit
      apply readLoop_nofuel pm
      simp only [loopFuel]
      omega
    | err e evs => trivial
    | ub u evs => trivial
    | fuel => exact h1
  · apply nofuel_then_emit
    apply readLoop_nofuel pm
    simp only [loopFuel]
    omega

theorem finish_nofuel {h : Header} {res : PRes Unit} (hn : NoFuel res) : (finish h res).outcome ≠ .fuel := by
  cases res <;> simp [finish] at hn ⊢
  exact hn

/-- **C02 (termination).**  The recursion of the reader (expression nesting, argument loops, the segment
    loop, both passes of READ_BOUNDS_FIRST) is bounded by the number of bytes consumed: the model's fuel
    (`len + 2` per expression, `2·len + 4` segment iterations) is never exhausted, for any input. -/
theorem C02_total (data : ByteArray) (flags : Nat) (objsel : Option Nat) :
    (readNL data flags objsel).outcome ≠ .fuel := by
  unfold readNL readNLInp
  split
  · simp
  · simp
  · split
    · exact finish_nofuel (readBody_nofuel _ _)
    split
    · exact finish_nofuel (readBody_nofuel _ _)
    split
    · exact finish_nofuel (readBody_nofuel _ _)
    · simp

/-! ### memory safety of the cursor at model level

Buffer contract (`NLStringRef`, `NLFileReader`): `data[0 .. len)` followed by a NUL at offset `len`
(`end_`); `Inp.rd p = 0` for `p ≥ len` (`Inp.rd_zero`).  The model marks every dereference of the cursor
(`ReadChar`, `SkipSpace`, `ReadIntWithoutSign`, `ReadTillEndOfLine`) with a guard that yields `ub overrun`
if the cursor is past that NUL.  `LemmasIn` shows that every text primitive advances only past bytes it
has seen to be non-NUL (including the model of `strtod`) and every binary primitive only after the length
check `end_ - ptr_ ≥ n`; `LemmasSafe` shows that every continuation of `ReadChar` either knows the byte
was not NUL or stops.  Since `overrun` is the only `ub` left after the fixes 1efd01c, e1c4ee8, e61f0aa,
984b1d0 (conversion / signed-arithmetic UB found by this check), this is the full-strength statement. -/

theorem readBody_safe (cx : Env) (s : PState) (hs : s.r.pos ≤ cx.inp.len) :
    PSafe (readBody cx) s (fun _ _ => True) := by
  have ps := primSafe cx.inp cx.k
  have fin : ∀ (rb : Bool) (br : Option RState) (s : PState), s.r.pos ≤ cx.inp.len →
      (∀ r, br = some r → r.pos ≤ cx.inp.len) →
      PSafe (do readLoop cx (loopFuel cx.inp) rb br; emit .endInput : P Unit) s (fun _ _ => True) := by
    intro rb br s hs hbr
    apply psafe_bind
    apply psafe_mono (readLoop_safe ps _ rb br s hs hbr)
    intro _ s1 _
    trivial
  unfold readBody
  split
  · have h1 := readLoop_safe (cx := { cx with objsel := none }) ps (loopFuel cx.inp) true none ⟨s.r, []⟩ hs
      (fun _ h => by cases h)
    have hfin := fun s1 : PState => fin false (some s1.r) ⟨s.r, s1.evs.filter isVarBounds ++ s.evs⟩ hs
    unfold PSafe at h1 hfin ⊢
    simp only [] at h1 hfin ⊢
    generalize readLoop { inp := cx.inp, k := cx.k, h := cx.h, flags := cx.flags, objsel := none }
      (loopFuel cx.inp) true none ⟨s.r, []⟩ = res at h1 ⊢
    cases res with
    | ok a s1 =>
      rename_i hfl
      have hodd : cx.flags % 2 = 1 := by simpa using hfl
      exact hfin s1 (fun r hr => by cases hr; exact h1 trivial hodd)
    | err e evs1 => trivial
    | ub u evs1 => exact h1
    | fuel => trivial
  · exact fin true none s hs (fun _ h => by cases h)

theorem finish_noub {h : Header} (p : P Unit) (s : PState) {Q : Unit → PState → Prop} (hn : PSafe p s Q) :
    ∀ u, (finish h (p s)).outcome ≠ .ub u := by
  intro u
  unfold PSafe at hn
  cases hres : p s <;> rw [hres] at hn <;> simp [finish] at hn ⊢

/-- **C02 (no undefined behaviour at model level).**  For every byte string, flag value and objective
    filter the reader never dereferences its cursor past the terminating NUL — in the header, in text and
    in (native or byte-swapped) binary bodies, in both passes of READ_BOUNDS_FIRST — and no other
    undefined behaviour is left in the model. -/
theorem C02_no_ub (data : ByteArray) (flags : Nat) (objsel : Option Nat) :
    ∀ u, (readNL data flags objsel).outcome ≠ .ub u := by
  intro u
  unfold readNL readNLInp
  have hh := readHeader_safe (Inp.ofBytes data)
  split
  · simp
  · rename_i u' hhd
    exact absurd hhd (hh.noub _ (Nat.zero_le _) u')
  · rename_i h r hhd
    have hr : r.pos ≤ (Inp.ofBytes data).len := hh.ok _ (Nat.zero_le _) h r hhd
    split
    · exact finish_noub _ _ (readBody_safe ⟨Inp.ofBytes data, .text, h, flags, objsel⟩ ⟨r, []⟩ hr) u
    split
    · exact finish_noub _ _ (readBody_safe ⟨Inp.ofBytes data, .bin false, h, flags, objsel⟩ ⟨r, []⟩ hr) u
    split
    · exact finish_noub _ _ (readBody_safe ⟨Inp.ofBytes data, .bin true, h, flags, objsel⟩ ⟨r, []⟩ hr) u
    · simp

/-- every call ends in exactly one of: normal completion, or a located read error -/
theorem C02_completes_or_read_error (data : ByteArray) (flags : Nat) (objsel : Option Nat) :
    (readNL data flags objsel).outcome = .ok ∨ ∃ e, (readNL data flags objsel).outcome = .err e := by
  have h1 := C02_total data flags objsel
  have h2 := C02_no_ub data flags objsel
  cases ho : (readNL data flags objsel).outcome with
  | ok => exact Or.inl rfl
  | err e => exact Or.inr ⟨e, rfl⟩
  | ub u => exact absurd ho (h2 u)
  | fuel => exact absurd ho h1

/-! ### file path = in-memory path -/

theorem Inp.ext' {a b : Inp} (hrd : ∀ p, a.rd p = b.rd p) (hlen : a.len = b.len) : a = b := by
  cases a with | mk rd1 len1 nul1 => cases b with | mk rd2 len2 nul2 =>
  have : rd1 = rd2 := funext hrd
  subst this
  simp only at hlen
  subst hlen
  rfl

/-- the buffer `NLFileReader::Read` hands to `ReadNLString` (either path) reads exactly like the file's
    bytes followed by NULs -/
theorem fileBuffer_rd (content : ByteArray) (pageSize : Nat) (p : Nat) :
    bufRd (fileBuffer content pageSize) p = bufRd content.data p := by
  have hsz : content.data.size = content.size := rfl
  by_cases hp : p < content.data.size
  · have hp' : p < content.size := by omega
    unfold fileBuffer
    simp only
    generalize (if (content.size % pageSize != 0) = true then content.size + pageSize - content.size % pageSize
      else content.size) = rounded
    by_cases h : (content.size == rounded) = true
    · rw [if_pos h]
      unfold bufRd
      have h1 : p < (content.data.push 0).size := by simp; omega
      simp only [h1, hp, ↓reduceDIte]
      rw [Array.getElem_push]
      simp [hp']
    · rw [if_neg h]
      unfold bufRd
      have h1 : p < (content.data ++ Array.replicate (rounded - content.size) 0).size := by simp; omega
      simp only [h1, hp, ↓reduceDIte]
      rw [Array.getElem_append]
      simp [hp']
  · have hp' : ¬ p < content.size := by omega
    rw [fileBuffer_nul content pageSize p (by omega)]
    unfold bufRd
    simp [hp']

/-- **C02 (file path = memory path).**  `NLFileReader::Read` — through the copy path (file size a multiple
    of the page size) or the mmap path (zero-filled tail of the last page) — delivers exactly what
    `ReadNLString` delivers on the same bytes with the same flags: same header, same notifications, same
    outcome, for every content, page size, flag value and objective filter. -/
theorem C02_file_eq_string (content : ByteArray) (pageSize flags : Nat) (objsel : Option Nat) :
    readNLFile content pageSize flags objsel = readNL content flags objsel := by
  have key : (⟨bufRd (fileBuffer content pageSize), content.size, fileBuffer_nul content pageSize⟩ : Inp)
      = Inp.ofBytes content :=
    Inp.ext' (fun p => fileBuffer_rd content pageSize p) rfl
  unfold readNLFile readNL
  simp only [key, ite_self]

/-! ### byte order -/

theorem foldl_congr_mem {α β : Type} (f g : α → β → α) : ∀ (l : List β) (a : α),
    (∀ x ∈ l, ∀ acc, f acc x = g acc x) → l.foldl f a = l.foldl g a := by
  intro l
  induction l with
  | nil => intro a _; rfl
  | cons x xs ih =>
    intro a h
    simp only [List.foldl_cons]
    rw [h x (List.mem_cons_self ..) a]
    exact ih _ (fun y hy acc => h y (List.mem_cons_of_mem _ hy) acc)

/-- **C02 (byte order, per field).**  `EndiannessConverter` on a field whose `n` bytes are stored in
    reverse order yields the value `IdentityConverter` yields on the field in native order: the byte-swapped
    binary reader reads every `short`/`int`/`double` of a byte-swapped file as the native reader reads it in
    the native file.  (The whole-file statement needs the field boundaries, i.e. the parse itself; it is
    checked on generated twins — the same problem written in both byte orders must give the same
    notifications from the real reader — by `checks/c02.py`.) -/
theorem C02_swap_field (native swapped : Inp) (p n : Nat)
    (hrev : ∀ i, i < n → swapped.rd (p + i) = native.rd (p + (n - 1 - i))) :
    leBytes swapped true p n = leBytes native false p n := by
  unfold leBytes
  apply foldl_congr_mem
  intro i hi acc
  have hi' : i < n := List.mem_range.mp hi
  simp only [↓reduceIte, Bool.false_eq_true]
  have h1 : n - 1 - i < n := by omega
  rw [hrev (n - 1 - i) h1]
  have : n - 1 - (n - 1 - i) = i := by omega
  rw [this]

def bytesOf (l : List Nat) : ByteArray := ⟨(l.map Nat.toUInt8).toArray⟩

/-- regression of fix e1c4ee8: `g1 1e30\n` stops option reading and then fails on the missing newline/
    dimension line instead of converting 1e30 to `long` -/
theorem C02_fixed_float_cast :
    (readNL (bytesOf [103, 49, 32, 49, 101, 51, 48, 10]) 0 none).outcome = .err ⟨.uint, false, 2, 1⟩ := by decide

/-- regression of fix 984b1d0: header line 3 ` 0 0 2147483647 1` is a located `integer overflow` error -/
theorem C02_fixed_compl_overflow :
    (readNL (bytesOf [103, 10, 32, 49, 32, 48, 32, 48, 10, 32, 48, 32, 48, 32, 50, 49, 52, 55, 52, 56, 51, 54, 52, 55, 32, 49, 10]) 0 none).outcome
      = .err ⟨.ioverflow, false, 3, 18⟩ := by decide

/-! ### statement audit (round 4): non-vacuity and guards of totalised definitions -/

/-- the predicate discriminates: a header with two variables accepts `OnVariableRef(1)` inside a constraint body and
    rejects `OnVariableRef(5)`, a count that is not honoured, a negative-length (here: missing) argument list, an
    `End*` of the wrong kind, and anything after `EndInput` -/
def hdr2 : Header := { format := 0, num_vars := 2, num_algebraic_cons := 1, num_objs := 1, num_funcs := 1 }
example : Consistent true ⟨.ok, some hdr2, [.varRef 1, .algCon 0, .endInput]⟩ = true := by decide
example : Consistent true ⟨.ok, some hdr2, [.varRef 5, .algCon 0, .endInput]⟩ = false := by decide
example : Consistent true ⟨.ok, some hdr2, [.linearCon 0 2, .addTerm 0 0, .endInput]⟩ = false := by decide
example : Consistent true ⟨.ok, some hdr2, [.beginSum 3, .number 0, .addArg, .endSum, .algCon 0, .endInput]⟩ = false := by decide
example : Consistent true ⟨.ok, some hdr2, [.beginCall 0 1, .number 0, .addArg, .endSum, .algCon 0, .endInput]⟩ = false := by decide
example : Consistent true ⟨.ok, some hdr2, [.endInput, .varBounds 0 0 0]⟩ = false := by decide
example : Consistent true ⟨.ok, some hdr2, [.varRef 1, .algCon 0]⟩ = false := by decide            -- completed without EndInput
example : Consistent true ⟨.err ⟨.expr, false, 12, 1⟩, some hdr2, [.beginSum 3, .number 0, .addArg]⟩ = true := by decide   -- a prefix
/-- the strict / relaxed distinction: an expression left without owner -/
example : Consistent true ⟨.ok, some hdr2, [.number 0, .varBounds 0 0 0, .endInput]⟩ = false := by decide
example : Consistent false ⟨.ok, some hdr2, [.number 0, .varBounds 0 0 0, .endInput]⟩ = true := by decide

/-- instance of the hypothesis of `C02_header_first` (no header): the empty input -/
example : (readNL ByteArray.empty 0 none).header = none := by decide
/-- instances of the range hypotheses of the `C02_gen_*` theorems, one per direction -/
example : Gen.NLGuards.g_NLReader_ReadUInt_u__integer_N_out_of_bounds 5 3 = .ret 1 := by decide
example : Gen.NLGuards.g_NLReader_ReadUInt_u__integer_N_out_of_bounds 2 3 = .ret 0 := by decide
/-- outside the range hypothesis the C++ guard really differs from the mathematical one (a negative `int` converts to a
    huge `unsigned`): the hypothesis `v ≤ INT_MAX` of `C02_gen_oob` is the postcondition of `ReadUInt()`, see
    `C02_text_uint_range` -/
example : Gen.NLGuards.g_NLReader_ReadUInt_u__integer_N_out_of_bounds (-1) 3 = .ret 1 := by decide

/-- `TextReader::ReadUInt()` only returns values in `0 … INT_MAX` (the range hypothesis under which the `C02_gen_*`
    guard theorems are stated) -/
theorem C02_text_uint_range (inp : Inp) : LPost (tReadUInt inp) (fun v => v ≤ intMax) := by
  constructor
  intro r v r' h
  unfold tReadUInt at h
  obtain ⟨_, r1, _, h⟩ := bind_ok h
  obtain ⟨o, r2, ho, h⟩ := bind_ok h
  cases o with
  | none => exact absurd h (fun h3 => (lpost_tReport inp (cls := .uint) (Q := fun _ => False)).h r2 _ _ h3)
  | some w =>
    cases h
    unfold tReadIntWithoutSign at ho
    split at ho
    · cases ho
    · split at ho
      · cases ho
      · split at ho
        · exact absurd ho (fun h3 => (lpost_tReport inp (cls := .toobig) (Q := fun _ => False)).h _ _ _ h3)
        · split at ho
          · exact absurd ho (fun h3 => (lpost_tReport inp (cls := .toobig) (Q := fun _ => False)).h _ _ _ h3)
          · rename_i hle
            cases ho
            simp only [G.tooBig] at hle
            omega

theorem foldl_bytes_lt (f : Nat → Nat) (hb : ∀ i, f i < 256) :
    ∀ n, (List.range n).foldl (fun acc i => acc + f i * 2 ^ (8 * i)) 0 < 2 ^ (8 * n) := by
  intro n
  induction n with
  | zero => simp
  | succ n ih =>
    rw [List.range_succ, List.foldl_append]
    simp only [List.foldl_cons, List.foldl_nil]
    have hx : 2 ^ (8 * (n + 1)) = 2 ^ (8 * n) * 256 := by
      rw [Nat.mul_add, Nat.pow_add]
    rw [hx]
    have h1 : f n * 2 ^ (8 * n) ≤ 255 * 2 ^ (8 * n) := Nat.mul_le_mul_right _ (by have := hb n; omega)
    generalize 2 ^ (8 * n) = X at *
    generalize f n * X = t at *
    omega

/-- an `n`-byte field is below `2^(8n)`; in particular what `BinaryReader::ReadInt<int>` reads is below 2^32 -/
theorem leBytes_lt (inp : Inp) (swap : Bool) (p n : Nat) : leBytes inp swap p n < 2 ^ (8 * n) := by
  unfold leBytes
  exact foldl_bytes_lt (fun i => (inp.rd (if swap then p + (n - 1 - i) else p + i)).toNat)
    (fun i => (inp.rd _).toNat_lt) n

/-- `BinaryReader::ReadUInt()` (native or byte-swapped) only returns values in `0 … INT_MAX`: the binary counterpart of
    `C02_text_uint_range`, so the range hypotheses of the `C02_gen_*` guard theorems hold for both reader kinds -/
theorem C02_bin_uint_range (inp : Inp) (swap : Bool) : LPost (bReadUInt inp swap) (fun v => v ≤ intMax) := by
  constructor
  intro r v r' h
  unfold bReadUInt at h
  obtain ⟨w, r1, hw, h⟩ := bind_ok h
  unfold bReadInt at hw
  obtain ⟨r0, r2, _, hw⟩ := bind_ok hw
  obtain ⟨_, r3, _, hw⟩ := bind_ok hw
  obtain ⟨q, r4, _, hw⟩ := bind_ok hw
  cases hw
  have hlt : leBytes inp swap q 4 < 4294967296 := leBytes_lt inp swap q 4
  split at h
  · cases h
  · rename_i hneg
    cases h
    simp only [G.negative, toSigned] at hneg ⊢
    unfold intMax
    split at hneg <;> split <;> omega

/-- the reader-kind independent form: whatever `reader_.ReadUInt()` returns is in `0 … INT_MAX` -/
theorem C02_uint_range (inp : Inp) (k : RKind) : LPost (rReadUInt inp k) (fun v => v ≤ intMax) := by
  cases k with
  | text => exact C02_text_uint_range inp
  | bin s => exact C02_bin_uint_range inp s

/-- `C02_file_eq_string` does not rest on the totalised read beyond the array: for a positive page size the buffer
    handed to `ReadNLString` physically contains a byte at offset `size` (copy path: the appended NUL; mmap path: the
    zero tail of the last page) and that byte is NUL -/
theorem C02_file_buffer_terminated (content : ByteArray) (pageSize : Nat) (hp : 0 < pageSize) :
    content.size < (fileBuffer content pageSize).size ∧ bufRd (fileBuffer content pageSize) content.size = 0 := by
  refine ⟨?_, fileBuffer_nul content pageSize content.size (Nat.le_refl _)⟩
  have hsz : content.data.size = content.size := rfl
  unfold fileBuffer
  simp only
  by_cases h0 : (content.size % pageSize != 0) = true
  · rw [if_pos h0]
    have hlt : content.size % pageSize < pageSize := Nat.mod_lt _ hp
    have hle : content.size % pageSize ≤ content.size := Nat.mod_le _ _
    have hne : ¬ (content.size == content.size + pageSize - content.size % pageSize) = true := by
      simp only [beq_iff_eq]; omega
    rw [if_neg hne]
    simp only [Array.size_append, Array.size_replicate]
    omega
  · rw [if_neg h0]
    simp only [beq_self_eq_true, ↓reduceIte, Array.size_push]
    omega

/-- instance of the hypothesis of `C02_swap_field`: the two-byte field `01 02` stored as `02 01` -/
def twoBytes (a b : UInt8) : Inp :=
  ⟨fun p => if p = 0 then a else if p = 1 then b else 0, 2, by
    intro p hp
    have h0 : p ≠ 0 := by omega
    have h1 : p ≠ 1 := by omega
    simp [h0, h1]⟩

example : leBytes (twoBytes 2 1) true 0 2 = leBytes (twoBytes 1 2) false 0 2 :=
  C02_swap_field _ _ 0 2 (by
    intro i hi
    have : i = 0 ∨ i = 1 := by omega
    rcases this with rfl | rfl <;> simp [twoBytes])

end MpVerif.C02

import MpVerif.C02.LemmasTop
/-!
# C02 — property theorems

Model: `readNL data flags objsel` (MpVerif/C02/Model.lean) = `mp::ReadNLString` over the bytes `data`
(text, binary native, binary byte-swapped; `flags` bit 0 = READ_BOUNDS_FIRST; `objsel` = the handler's
objective filter).  Property predicate: `Consistent` (MpVerif/C02/ModelCheck.lean).
All theorems quantify over every byte string, every flag value and every objective filter.
-/
namespace MpVerif.C02

theorem finish_consistent {strict : Bool} {h : Header} (p : P Unit) (s : PState)
    (hs : Sat strict h p s (fun _ s' => ∃ c, chkRev strict h s'.evs = some c ∧ Finished c)) :
    Consistent strict (finish h (p s)) = true := by
  unfold Sat at hs
  cases hres : p s with
  | ok a s1 =>
    rw [hres] at hs
    obtain ⟨c, hc, hd, hst, hv⟩ := hs
    simp [finish, Consistent, ← chkRev_eq_run, hc, hd, hst, hv, Outcome.isOk]
  | err e evs =>
    rw [hres] at hs
    unfold Good at hs
    simp only [finish, Consistent, ← chkRev_eq_run]
    cases hc : chkRev strict h evs with
    | none => simp [hc] at hs
    | some c => simp [Outcome.isOk]
  | ub u evs =>
    rw [hres] at hs
    unfold Good at hs
    simp only [finish, Consistent, ← chkRev_eq_run]
    cases hc : chkRev strict h evs with
    | none => simp [hc] at hs
    | some c => simp [Outcome.isOk]
  | fuel => simp [finish, Consistent, run, Outcome.isOk]

/-- **C02 (consistency).**  Whatever bytes are read, with or without READ_BOUNDS_FIRST, in text, native
    binary or byte-swapped binary form: everything delivered to the handler — including the prefix
    delivered before a read error — is consistent with the header delivered first (indices in declared
    ranges, announced counts honoured exactly, Begin/End properly nested and matched, well-formed postfix
    expression stream, `EndInput` last and only after everything is closed).  With a handler that needs
    every objective (`objsel = none`) in the strict sense; with an objective filter in the sense that
    tolerates the expression of a skipped `O` segment being delivered and dropped. -/
theorem C02_consistent (data : ByteArray) (flags : Nat) (objsel : Option Nat) :
    Consistent objsel.isNone (readNL data flags objsel) = true := by
  have hso : objsel.isNone = true → objsel = none := by cases objsel <;> simp
  unfold readNL
  simp only []
  split
  · rfl
  · rfl
  · rename_i h r _
    split
    · exact finish_consistent _ _ (readBody_ok ⟨⟨data⟩, .text, h, flags, objsel⟩ hso r)
    split
    · exact finish_consistent _ _ (readBody_ok ⟨⟨data⟩, .bin false, h, flags, objsel⟩ hso r)
    split
    · exact finish_consistent _ _ (readBody_ok ⟨⟨data⟩, .bin true, h, flags, objsel⟩ hso r)
    · simp [Consistent, run, Outcome.isOk]

/-- the same for the handler that needs every objective, spelled out -/
theorem C02_consistent_all_objectives (data : ByteArray) (flags : Nat) :
    Consistent true (readNL data flags none) = true := C02_consistent data flags none

/-- what `Consistent` gives for a single notification: its indices are inside the header's ranges -/
def evInRange (h : Header) : Ev → Prop
  | .obj i _ => i < h.num_objs
  | .algCon i => i < h.num_algebraic_cons
  | .logCon i => i < h.num_logical_cons
  | .beginCommonExpr i _ => i < h.num_common_exprs
  | .complementarity con var _ => con < h.num_algebraic_cons ∧ var < h.num_vars
  | .linearObj i n => i < h.num_objs ∧ 1 ≤ n ∧ n ≤ h.num_vars
  | .linearCon i n => i < h.num_algebraic_cons ∧ 1 ≤ n ∧ n ≤ h.num_vars
  | .addTerm v _ => v < h.num_vars
  | .varBounds i _ _ => i < h.num_vars
  | .conBounds i _ _ => i < h.num_algebraic_cons
  | .initVal i _ => i < h.num_vars
  | .initDual i _ => i < h.num_algebraic_cons
  | .function i _ _ t => i < h.num_funcs ∧ t ≤ 1
  | .intSuffix _ kind n => kind ≤ 3 ∧ 1 ≤ n ∧ n ≤ h.suffixItems kind
  | .dblSuffix _ kind n => kind ≤ 3 ∧ 1 ≤ n ∧ n ≤ h.suffixItems kind
  | .varRef i => i < h.num_vars
  | .commonRef i => i < h.num_common_exprs
  | .beginCall f _ => f < h.num_funcs
  | _ => True

theorem step_inRange {strict : Bool} {h : Header} {c c' : CState} {e : Ev}
    (hs : step strict h c e = some c') : evInRange h e := by
  unfold step at hs
  split at hs
  · cases hs
  · cases e <;> simp only [stepCore] at hs <;> simp only [evInRange]
    all_goals try trivial
    all_goals repeat' split at hs
    all_goals simp_all

theorem run_inRange {strict : Bool} {h : Header} :
    ∀ (evs : List Ev) (c c' : CState), run strict h c evs = some c' → ∀ e ∈ evs, evInRange h e := by
  intro evs
  induction evs with
  | nil => intro c c' _ e he; cases he
  | cons x xs ih =>
    intro c c' hr e he
    simp only [run] at hr
    cases hx : step strict h c x with
    | none => simp [hx] at hr
    | some c1 =>
      rw [hx] at hr
      rcases List.mem_cons.mp he with rfl | hmem
      · exact step_inRange hx
      · exact ih c1 c' hr e hmem

/-- **C02 (indices).**  Every index in every notification is inside the range declared by the header
    that was delivered first — for every input, every mode, also for the prefix before an error. -/
theorem C02_indices_in_range (data : ByteArray) (flags : Nat) (objsel : Option Nat) (h : Header)
    (hh : (readNL data flags objsel).header = some h) :
    ∀ e ∈ (readNL data flags objsel).evs, evInRange h e := by
  have hc := C02_consistent data flags objsel
  unfold Consistent at hc
  rw [hh] at hc
  simp only at hc
  cases hr : run objsel.isNone h CState.init (readNL data flags objsel).evs with
  | none => simp [hr] at hc
  | some c => exact run_inRange _ _ _ hr

/-- nothing is delivered unless the header was: no header ⇒ no notification, and not a normal return -/
theorem C02_header_first (data : ByteArray) (flags : Nat) (objsel : Option Nat)
    (hh : (readNL data flags objsel).header = none) :
    (readNL data flags objsel).evs = [] ∧ (readNL data flags objsel).outcome ≠ .ok := by
  have hc := C02_consistent data flags objsel
  unfold Consistent at hc
  rw [hh] at hc
  simp at hc
  refine ⟨hc.1, ?_⟩
  intro ho
  rw [ho] at hc
  simp [Outcome.isOk] at hc

end MpVerif.C02

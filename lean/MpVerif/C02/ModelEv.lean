import MpVerif.C02.ModelLex
/-!
# C02 model, part 3: the NL header and the notifications (`NLHandler` concept) as data
-/
namespace MpVerif.C02

/-- `mp::NLHeader` (the fields `ReadHeader` can set; the rest stays zero) -/
structure Header where
  format : Nat := 1                 -- NLInfo(): BINARY; ReadHeader always overwrites it
  num_ampl_options : Nat := 3       -- NLInfo() default
  ampl_options : List Int := [1, 1, 0, 0, 0, 0, 0, 0, 0]
  ampl_vbtol : F64 := 0
  arith_kind : Nat := 1             -- NL_ARITH_IEEE_LITTLE_ENDIAN
  flags : Nat := 1                  -- WANT_OUTPUT_SUFFIXES
  num_vars : Nat := 0
  num_algebraic_cons : Nat := 0
  num_objs : Nat := 0
  num_ranges : Nat := 0
  num_eqns : Int := 0
  num_logical_cons : Nat := 0
  num_nl_cons : Nat := 0
  num_nl_objs : Nat := 0
  num_compl_conds : Nat := 0
  num_nl_compl_conds : Nat := 0
  num_compl_dbl_ineqs : Int := 0
  num_compl_vars_with_nz_lb : Nat := 0
  num_nl_net_cons : Nat := 0
  num_linear_net_cons : Nat := 0
  num_nl_vars_in_cons : Nat := 0
  num_nl_vars_in_objs : Nat := 0
  num_nl_vars_in_both : Int := 0
  num_linear_net_vars : Nat := 0
  num_funcs : Nat := 0
  num_linear_binary_vars : Nat := 0
  num_linear_integer_vars : Nat := 0
  num_nl_integer_vars_in_both : Nat := 0
  num_nl_integer_vars_in_cons : Nat := 0
  num_nl_integer_vars_in_objs : Nat := 0
  num_con_nonzeros : Nat := 0
  num_obj_nonzeros : Nat := 0
  max_con_name_len : Nat := 0
  max_var_name_len : Nat := 0
  cexprs_both : Nat := 0
  cexprs_cons : Nat := 0
  cexprs_objs : Nat := 0
  cexprs_single_cons : Nat := 0
  cexprs_single_objs : Nat := 0
deriving Repr, BEq, DecidableEq

def Header.num_common_exprs (h : Header) : Nat :=
  h.cexprs_both + h.cexprs_cons + h.cexprs_objs + h.cexprs_single_cons + h.cexprs_single_objs

/-- `NLReader::num_vars_and_exprs_` -/
def Header.num_vars_and_exprs (h : Header) : Nat := h.num_vars + h.num_common_exprs

/-- number of items a suffix of kind `k & 3` may address (`ItemInfo::num_items()`) -/
def Header.suffixItems (h : Header) (kind : Nat) : Nat :=
  match kind % 4 with
  | 0 => h.num_vars
  | 1 => h.num_algebraic_cons + h.num_logical_cons
  | 2 => h.num_objs
  | _ => 1

/-- notifications delivered to the handler, in delivery order -/
inductive Ev where
  | obj (index : Nat) (isMax : Bool) | algCon (index : Nat) | logCon (index : Nat)
  | beginCommonExpr (index nterms : Nat) | endCommonExpr (index position : Nat)
  | complementarity (con var flags : Nat)
  | linearObj (index n : Nat) | linearCon (index n : Nat) | addTerm (var : Nat) (coef : F64)
  | varBounds (i : Nat) (lb ub : F64) | conBounds (i : Nat) (lb ub : F64)
  | initVal (i : Nat) (v : F64) | initDual (i : Nat) (v : F64)
  | columnSizes | colSize (n : Nat)
  | function (index : Nat) (name : List UInt8) (nargs : Int) (type : Nat)
  | intSuffix (name : List UInt8) (kind n : Nat) | dblSuffix (name : List UInt8) (kind n : Nat)
  | setInt (i : Nat) (v : Int) | setDbl (i : Nat) (v : F64)
  | number (v : F64) | varRef (i : Nat) | commonRef (i : Nat) | unary (k : Nat) | binary (k : Nat) | ifExpr
  | beginPL (n : Nat) | slope (v : F64) | breakpoint (v : F64) | endPL
  | beginCall (f n : Nat) | endCall | beginVarArg (k n : Nat) | endVarArg | beginSum (n : Nat) | endSum
  | beginCount (n : Nat) | endCount | beginNumberOf (n : Nat) | endNumberOf
  | beginSymNumberOf (n : Nat) | endSymNumberOf
  | addArg
  | bool (b : Bool) | not | binaryLogical (k : Nat) | relational (k : Nat) | logicalCount (k : Nat) | implication
  | beginIterLogical (k n : Nat) | endIterLogical | beginPairwise (k n : Nat) | endPairwise
  | string (s : List UInt8) | symbolicIf
  | endInput
deriving Repr, BEq, DecidableEq

/-! ### canonical printing (line protocol, design_notes/C02-protocol.md) -/

def hexDigit (n : Nat) : Char := if n < 10 then Char.ofNat (48 + n) else Char.ofNat (87 + n)
def hexByte (b : UInt8) : String := String.ofList [hexDigit (b.toNat / 16), hexDigit (b.toNat % 16)]
def hexStr (s : List UInt8) : String := if s.isEmpty then "-" else String.join (s.map hexByte)
def dblStr (v : F64) : String :=
  if F64.isNaN v then "nan" else
  String.ofList ((List.range 16).map fun i => hexDigit ((v / 16 ^ (15 - i)) % 16))

def Header.toStr (h : Header) : String :=
  let i (n : Nat) := toString n
  "H:" ++ ",".intercalate ([i h.format, i h.num_ampl_options] ++ h.ampl_options.map toString ++
    [dblStr h.ampl_vbtol, i h.arith_kind, i h.flags,
     i h.num_vars, i h.num_algebraic_cons, i h.num_objs, i h.num_ranges, toString h.num_eqns, i h.num_logical_cons,
     i h.num_nl_cons, i h.num_nl_objs, i h.num_compl_conds, i h.num_nl_compl_conds, toString h.num_compl_dbl_ineqs,
     i h.num_compl_vars_with_nz_lb, i h.num_nl_net_cons, i h.num_linear_net_cons,
     i h.num_nl_vars_in_cons, i h.num_nl_vars_in_objs, toString h.num_nl_vars_in_both,
     i h.num_linear_net_vars, i h.num_funcs,
     i h.num_linear_binary_vars, i h.num_linear_integer_vars, i h.num_nl_integer_vars_in_both,
     i h.num_nl_integer_vars_in_cons, i h.num_nl_integer_vars_in_objs,
     i h.num_con_nonzeros, i h.num_obj_nonzeros, i h.max_con_name_len, i h.max_var_name_len,
     i h.cexprs_both, i h.cexprs_cons, i h.cexprs_objs, i h.cexprs_single_cons, i h.cexprs_single_objs])

def Ev.toStr : Ev → String
  | .obj i m => s!"obj:{i},{if m then 1 else 0}" | .algCon i => s!"acon:{i}" | .logCon i => s!"lcon:{i}"
  | .beginCommonExpr i n => s!"bce:{i},{n}" | .endCommonExpr i p => s!"ece:{i},{p}"
  | .complementarity c v f => s!"compl:{c},{v},{f}"
  | .linearObj i n => s!"linobj:{i},{n}" | .linearCon i n => s!"lincon:{i},{n}"
  | .addTerm v c => s!"term:{v},{dblStr c}"
  | .varBounds i l u => s!"vb:{i},{dblStr l},{dblStr u}" | .conBounds i l u => s!"cb:{i},{dblStr l},{dblStr u}"
  | .initVal i v => s!"iv:{i},{dblStr v}" | .initDual i v => s!"idv:{i},{dblStr v}"
  | .columnSizes => "cols" | .colSize n => s!"col:{n}"
  | .function i nm na t => s!"func:{i},{hexStr nm},{na},{t}"
  | .intSuffix nm k n => s!"isuf:{hexStr nm},{k},{n}" | .dblSuffix nm k n => s!"dsuf:{hexStr nm},{k},{n}"
  | .setInt i v => s!"sv:{i},{v}" | .setDbl i v => s!"sd:{i},{dblStr v}"
  | .number v => s!"num:{dblStr v}" | .varRef i => s!"var:{i}" | .commonRef i => s!"cref:{i}"
  | .unary k => s!"un:{k}" | .binary k => s!"bin:{k}" | .ifExpr => "if"
  | .beginPL n => s!"bpl:{n}" | .slope v => s!"sl:{dblStr v}" | .breakpoint v => s!"bp:{dblStr v}" | .endPL => "epl"
  | .beginCall f n => s!"bcall:{f},{n}" | .endCall => "ecall"
  | .beginVarArg k n => s!"bva:{k},{n}" | .endVarArg => "eva"
  | .beginSum n => s!"bsum:{n}" | .endSum => "esum" | .beginCount n => s!"bcnt:{n}" | .endCount => "ecnt"
  | .beginNumberOf n => s!"bno:{n}" | .endNumberOf => "eno"
  | .beginSymNumberOf n => s!"bsno:{n}" | .endSymNumberOf => "esno"
  | .addArg => "arg"
  | .bool b => s!"bool:{if b then 1 else 0}" | .not => "not" | .binaryLogical k => s!"blog:{k}"
  | .relational k => s!"rel:{k}" | .logicalCount k => s!"lcnt:{k}" | .implication => "impl"
  | .beginIterLogical k n => s!"bil:{k},{n}" | .endIterLogical => "eil"
  | .beginPairwise k n => s!"bpw:{k},{n}" | .endPairwise => "epw"
  | .string s => s!"str:{hexStr s}" | .symbolicIf => "symif"
  | .endInput => "end"

end MpVerif.C02

import MpVerif.C02.Model
/-! Line driver for C02 (protocol: design_notes/C02-protocol.md).  No logic of its own:
    decodes the op, calls `readNL` / `strtod`, prints the canonical line. -/
open MpVerif.C02

def unhex (s : String) : Option ByteArray :=
  if s == "-" then some ByteArray.empty else
  let cs := s.toList
  let rec go : List Char → ByteArray → Option ByteArray
    | [], acc => some acc
    | [_], _ => none
    | a :: b :: rest, acc =>
      match hexVal a.toNat.toUInt8, hexVal b.toNat.toUInt8 with
      | some x, some y => go rest (acc.push (x * 16 + y).toUInt8)
      | _, _ => none
  go cs ByteArray.empty

def resultLine (id : String) (r : Result) : String :=
  let evs := (match r.header with | some h => [h.toStr] | none => []) ++ r.evs.map Ev.toStr
  s!"{id} {r.outcome.toStr} | {" ".intercalate evs}"

partial def loop (h : IO.FS.Stream) (out : IO.FS.Stream) : IO Unit := do
  let line ← h.getLine
  if line.isEmpty then return ()
  match line.trimAscii.toString.splitOn " " with
  | ["case", id, flags, objsel, hex] =>
    match flags.toNat?, objsel.toInt?, unhex hex with
    | some f, some o, some data =>
      let sel := if o < 0 then none else some o.toNat
      let r := readNL data f sel
      -- the model of NLFileReader::Read (page size 4096) on the same bytes: outcome, and whether header + events agree
      let rf := readNLFile data 4096 f sel
      out.putStrLn (resultLine id r ++ s!" | filemodel={rf.outcome.toStr},{if rf == r then 1 else 0}")
    | _, _, _ => out.putStrLn "bad-op"
  | ["strtod", hex] =>
    match unhex hex with
    | some data =>
      let inp : Inp := Inp.ofBytes data
      let (p, v) := strtod inp.rd (inp.len + 2) 0
      out.putStrLn s!"strtod {p} {dblStr v}"
    | none => out.putStrLn "bad-op"
  | _ => out.putStrLn "bad-op"
  loop h out

def main : IO Unit := do
  let out ← IO.getStdout
  loop (← IO.getStdin) out

/-! Line driver for C02 (stub; replaced when the model is written). -/
def main : IO Unit := pure ()

import MpVerif.C02.GenTieLex
import MpVerif.C02.LemmasSites
/-!
# C02: structure ties — which guards, which bounds with which header field, which switch cases exist in the source

The expected tables below are the hand model's view; the generated ones come from the current source.  A guard, a
`ReadUInt` bound, a segment letter, a bound type, an expression letter or an opcode class that is added, removed or
attached to another header field in the source makes one of these theorems fail.
-/
namespace MpVerif.C02
open MpVerif.CSem MpVerif.Gen MpVerif.Gen.NLGuards

/-- the two lists have the same elements -/
def sameSet (a b : List Int) : Bool := a.all (b.contains ·) && b.all (a.contains ·)

/-- every `if (..) ReportError(..)` of the reader classes and every `ReadUInt(..)` bound the model knows about -/
def knownGuards : List String := ["g_BinaryReader_ReadUInt__expected_unsigned_integer", "g_BinaryReaderBase_Read_i__unexpected_end_of_file", "g_NLReader_ReadUInt_u__integer_N_out_of_bounds", "g_NLReader_ReadUInt_u_u__integer_N_out_of_bounds", "g_NLReader_ReadNumArgs_i__too_few_arguments", "g_NLReader_ReadReference__expected_reference", "g_NLReader_ReadOpCode__invalid_opcode_N", "g_NLReader_ReadNumericExpr_i__too_few_slopes_in_piecewise_linear_term", "g_NLReader_ReadLogicalExpr_i__expected_count_expression", "g_NLReader_ReadBounds__integer_N_out_of_bounds", "g_NLReader_ReadColumnSizes__expected_N", "g_NLReader_ReadColumnSizes__invalid_column_offset", "g_NLReader_ReadInitialValues__too_many_initial_values", "g_NLReader_Read__invalid_function_type", "g_NLReader_Read__invalid_suffix_kind", "g_TextReader_ReadString__expected", "g_TextReader_ReadString__unexpected_end_of_file_in_string", "g_TextReader_ReadString__expected_newline", "g_TextReader_ReadName__expected_name", "g_TextReader_ReadHeader__too_many_options", "g_TextReader_ReadHeader__integer_overflow", "g_TextReader_ReadHeader__integer_overflow_2", "g_TextReader_ReadHeader__unknown_floating_point_arithmetic_kind", "g_TextReader_ReadIntWithoutSign_i__number_is_too_big", "g_TextReader_ReadIntWithoutSign_u__number_is_too_big", "g_TextReader_ReadIntWithoutSign_ul__number_is_too_big", "g_TextReader_ReadIntWithoutSign_us__number_is_too_big", "g_TextReader_ReadIntWithoutSign_i__number_is_too_big_2", "g_TextReader_ReadIntWithoutSign_u__number_is_too_big_2", "g_TextReader_ReadIntWithoutSign_ul__number_is_too_big_2", "g_TextReader_ReadIntWithoutSign_us__number_is_too_big_2", "g_TextReader_DoReadOptionalInt_i__number_is_too_big", "g_TextReader_DoReadOptionalInt_l__number_is_too_big", "g_TextReader_DoReadOptionalInt_s__number_is_too_big", "g_TextReader_ReadUInt_i__integer_overflow", "g_TextReader_ReadUInt__expected_unsigned_integer", "g_TextReader_ReadInt__expected_integer", "g_TextReader_ReadDouble__expected_double", "bound_NLReader_DoReadReference_1_ub", "bound_NLReader_Read_1_ub", "bound_NLReader_Read_2_ub", "bound_NLReader_Read_3_ub", "bound_NLReader_Read_4_lb", "bound_NLReader_Read_4_ub", "bound_NLReader_Read_5_ub", "bound_NLReader_ReadInitialValues_1_ub", "bound_NLReader_ReadLinearExpr_1_ub", "bound_NLReader_ReadLinearExpr_2_lb", "bound_NLReader_ReadLinearExpr_2_ub", "bound_NLReader_ReadLinearExpr_i_1_ub", "bound_NLReader_ReadNumericExpr_c_b_1_ub", "bound_NLReader_ReadSuffixValues_i_i_1_ub", "bound_NLReader_ReadSuffix_i_1_lb", "bound_NLReader_ReadSuffix_i_1_ub", "bound_TextReader_ReadHeader_1_ub", "bound_TextReader_ReadHeader_2_ub", "bound_TextReader_ReadHeader_3_ub", "bound_TextReader_ReadHeader_4_ub", "bound_TextReader_ReadHeader_5_ub", "site_NLReader_DoReadReference_1_ub", "site_NLReader_Read_1_ub", "site_NLReader_Read_2_ub", "site_NLReader_Read_3_ub", "site_NLReader_Read_4_lb", "site_NLReader_Read_4_ub", "site_NLReader_Read_5_ub", "site_NLReader_ReadLinearExpr_2_ub", "site_NLReader_ReadLinearExpr_i_1_ub", "site_NLReader_ReadNumericExpr_c_b_1_ub", "items_AlgebraicConHandler", "items_ConHandler", "items_ObjHandler", "items_ProblemHandler", "items_VarHandler", "assign_num_vars_and_exprs", "itemsOfSegment", "itemsOfSuffixKind", "acc_next", "acc_value", "acc_init"]

/-- which source variables / header fields / calls each of them reads (parameter order of the generated definition) -/
def knownParams : List (String × List String) := [("g_BinaryReader_ReadUInt__expected_unsigned_integer", ["v_value"]), ("g_BinaryReaderBase_Read_i__unexpected_end_of_file", ["pdiff_end_ptr", "v_length"]), ("g_NLReader_ReadUInt_u__integer_N_out_of_bounds", ["v_value", "v_ub"]), ("g_NLReader_ReadUInt_u_u__integer_N_out_of_bounds", ["v_value", "v_lb", "v_ub"]), ("g_NLReader_ReadNumArgs_i__too_few_arguments", ["v_num_args", "v_min_args"]), ("g_NLReader_ReadReference__expected_reference", ["c_ReadChar"]), ("g_NLReader_ReadOpCode__invalid_opcode_N", ["v_opcode", "k_MAX_OPCODE"]), ("g_NLReader_ReadNumericExpr_i__too_few_slopes_in_piecewise_linear_term", ["v_num_slopes"]), ("g_NLReader_ReadLogicalExpr_i__expected_count_expression", ["v_c", "m_kind", "k_COUNT"]), ("g_NLReader_ReadBounds__integer_N_out_of_bounds", ["v_var_index", "m_num_vars"]), ("g_NLReader_ReadColumnSizes__expected_N", ["m_num_vars", "c_ReadUInt"]), ("g_NLReader_ReadColumnSizes__invalid_column_offset", ["v_size", "v_prev_size"]), ("g_NLReader_ReadInitialValues__too_many_initial_values", ["v_num_values", "c_num_items"]), ("g_NLReader_Read__invalid_function_type", ["v_type", "k_NUMERIC", "k_SYMBOLIC"]), ("g_NLReader_Read__invalid_suffix_kind", ["v_info", "k_SUFFIX_KIND_MASK", "k_FLOAT"]), ("g_TextReader_ReadString__expected", ["deref_ptr"]), ("g_TextReader_ReadString__unexpected_end_of_file_in_string", ["deref_ptr", "peq_ptr_end"]), ("g_TextReader_ReadString__expected_newline", ["deref_ptr"]), ("g_TextReader_ReadName__expected_name", ["deref_ptr"]), ("g_TextReader_ReadHeader__too_many_options", ["m_num_ampl_options", "k_MAX_AMPL_OPTIONS"]), ("g_TextReader_ReadHeader__integer_overflow", ["m_num_logical_cons", "m_num_algebraic_cons"]), ("g_TextReader_ReadHeader__integer_overflow_2", ["m_num_compl_conds", "m_num_nl_compl_conds"]), ("g_TextReader_ReadHeader__unknown_floating_point_arithmetic_kind", ["v_arith_kind", "k_LAST"]), ("g_TextReader_ReadIntWithoutSign_i__number_is_too_big", ["v_result", "v_c"]), ("g_TextReader_ReadIntWithoutSign_u__number_is_too_big", ["v_result", "v_c"]), ("g_TextReader_ReadIntWithoutSign_ul__number_is_too_big", ["v_result", "v_c"]), ("g_TextReader_ReadIntWithoutSign_us__number_is_too_big", ["v_result", "v_c"]), ("g_TextReader_ReadIntWithoutSign_i__number_is_too_big_2", ["v_result"]), ("g_TextReader_ReadIntWithoutSign_u__number_is_too_big_2", ["v_result"]), ("g_TextReader_ReadIntWithoutSign_ul__number_is_too_big_2", ["v_result"]), ("g_TextReader_ReadIntWithoutSign_us__number_is_too_big_2", ["v_result"]), ("g_TextReader_DoReadOptionalInt_i__number_is_too_big", ["deref_ptr", "v_result"]), ("g_TextReader_DoReadOptionalInt_l__number_is_too_big", ["deref_ptr", "v_result"]), ("g_TextReader_DoReadOptionalInt_s__number_is_too_big", ["deref_ptr", "v_result"]), ("g_TextReader_ReadUInt_i__integer_overflow", ["v_accumulator", "v_value"]), ("g_TextReader_ReadUInt__expected_unsigned_integer", ["c_ReadIntWithoutSign"]), ("g_TextReader_ReadInt__expected_integer", ["c_DoReadOptionalInt"]), ("g_TextReader_ReadDouble__expected_double", ["peq_ptr_start"]), ("bound_NLReader_DoReadReference_1_ub", ["m_num_vars_and_exprs"]), ("bound_NLReader_Read_1_ub", ["m_num_algebraic_cons"]), ("bound_NLReader_Read_2_ub", ["m_num_logical_cons"]), ("bound_NLReader_Read_3_ub", ["m_num_objs"]), ("bound_NLReader_Read_4_lb", ["m_num_vars"]), ("bound_NLReader_Read_4_ub", ["m_num_vars_and_exprs"]), ("bound_NLReader_Read_5_ub", ["m_num_funcs"]), ("bound_NLReader_ReadInitialValues_1_ub", ["c_num_items"]), ("bound_NLReader_ReadLinearExpr_1_ub", ["c_num_items"]), ("bound_NLReader_ReadLinearExpr_2_lb", []), ("bound_NLReader_ReadLinearExpr_2_ub", ["m_num_vars"]), ("bound_NLReader_ReadLinearExpr_i_1_ub", ["m_num_vars"]), ("bound_NLReader_ReadNumericExpr_c_b_1_ub", ["m_num_funcs"]), ("bound_NLReader_ReadSuffixValues_i_i_1_ub", ["v_num_items"]), ("bound_NLReader_ReadSuffix_i_1_lb", []), ("bound_NLReader_ReadSuffix_i_1_ub", ["v_num_items"]), ("bound_TextReader_ReadHeader_1_ub", ["v_max_vars"]), ("bound_TextReader_ReadHeader_2_ub", ["v_max_vars"]), ("bound_TextReader_ReadHeader_3_ub", ["v_max_vars"]), ("bound_TextReader_ReadHeader_4_ub", ["v_max_vars"]), ("bound_TextReader_ReadHeader_5_ub", ["v_max_vars"]), ("site_NLReader_DoReadReference_1_ub", ["m_num_vars_and_exprs"]), ("site_NLReader_Read_1_ub", ["m_num_algebraic_cons"]), ("site_NLReader_Read_2_ub", ["m_num_logical_cons"]), ("site_NLReader_Read_3_ub", ["m_num_objs"]), ("site_NLReader_Read_4_lb", ["m_num_vars"]), ("site_NLReader_Read_4_ub", ["m_num_vars_and_exprs"]), ("site_NLReader_Read_5_ub", ["m_num_funcs"]), ("site_NLReader_ReadLinearExpr_2_ub", ["m_num_vars"]), ("site_NLReader_ReadLinearExpr_i_1_ub", ["m_num_vars"]), ("site_NLReader_ReadNumericExpr_c_b_1_ub", ["m_num_funcs"]), ("items_AlgebraicConHandler", ["m_num_algebraic_cons"]), ("items_ConHandler", ["m_num_algebraic_cons", "m_num_logical_cons"]), ("items_ObjHandler", ["m_num_objs"]), ("items_ProblemHandler", []), ("items_VarHandler", ["m_num_vars"]), ("assign_num_vars_and_exprs", ["m_num_vars", "m_num_common_exprs_in_both", "m_num_common_exprs_in_cons", "m_num_common_exprs_in_objs", "m_num_common_exprs_in_single_cons", "m_num_common_exprs_in_single_objs"]), ("itemsOfSegment", ["letter"]), ("itemsOfSuffixKind", ["kind"]), ("acc_next", ["v_accumulator", "v_value"]), ("acc_value", ["v_accumulator", "v_value"]), ("acc_init", ["m_num_vars"])]

theorem C02_gen_all_guards_known : guardNames = knownGuards := rfl
theorem C02_gen_guard_params : paramTable = knownParams := rfl

/-- segment letters of `NLReader::Read` (0 = end of input) -/
theorem C02_gen_cases_NLReader_Read : cases_NLReader_Read = [0, 67, 70, 71, 74, 75, 76, 79, 83, 86, 98, 100, 107, 114, 120] := rfl
/-- suffix kinds dispatched in the `S` case -/
theorem C02_gen_cases_NLReader_Read_2 : cases_NLReader_Read_2 = [0, 1, 2, 3] := rfl
/-- bound types -/
theorem C02_gen_cases_NLReader_ReadBounds : cases_NLReader_ReadBounds = [0, 1, 2, 3, 4, 5] := rfl
/-- constant letters n, s, l -/
theorem C02_gen_cases_NLReader_ReadConstant_c : cases_NLReader_ReadConstant_c = [108, 110, 115] := rfl
/-- logical expression letters -/
theorem C02_gen_cases_NLReader_ReadLogicalExpr : cases_NLReader_ReadLogicalExpr = [108, 110, 111, 115] := rfl
/-- first_kind classes handled by ReadLogicalExpr(opcode) -/
theorem C02_gen_cases_NLReader_ReadLogicalExpr_i : cases_NLReader_ReadLogicalExpr_i = [49, 50, 53, 59, 65, 66, 68] := rfl
/-- numeric expression letters -/
theorem C02_gen_cases_NLReader_ReadNumericExpr_c_b : cases_NLReader_ReadNumericExpr_c_b = [102, 108, 110, 111, 115, 118] := rfl
/-- first_kind classes handled by ReadNumericExpr(opcode) -/
theorem C02_gen_cases_NLReader_ReadNumericExpr_i : cases_NLReader_ReadNumericExpr_i = [4, 25, 39, 40, 42, 44, 45, 46, 47] := rfl
/-- symbolic expression letters -/
theorem C02_gen_cases_NLReader_ReadSymbolicExpr : cases_NLReader_ReadSymbolicExpr = [104, 111] := rfl
/-- format letters -/
theorem C02_gen_cases_TextReader_ReadHeader : cases_TextReader_ReadHeader = [98, 103] := rfl

/-- the model dispatches exactly on the segment letters of the source: `b` and NUL in `readLoop`, the others in `readSegment` -/
theorem C02_gen_segment_letters :
    sameSet cases_NLReader_Read (([0, 98] : List Int) ++ G.segmentLetters.map (fun (c : UInt8) => (c.toNat : Int))) = true := by decide

/-- the model's opcode classes are the `case` labels of the two opcode switches (numeric: unary, binary, if, plterm,
    vararg, sum, numberof, numberof_sym, count; logical: not, binary logical, relational, logical count, implication,
    iterated logical, pairwise) -/
theorem C02_gen_numeric_classes :
    sameSet cases_NLReader_ReadNumericExpr_i ([Opcodes.kFIRST_UNARY, Opcodes.kFIRST_BINARY, Opcodes.kIF, Opcodes.kPLTERM, Opcodes.kFIRST_VARARG,
      Opcodes.kSUM, Opcodes.kNUMBEROF, Opcodes.kNUMBEROF_SYM, Opcodes.kCOUNT].map (fun (k : Nat) => (k : Int))) = true := by decide
theorem C02_gen_logical_classes :
    sameSet cases_NLReader_ReadLogicalExpr_i ([Opcodes.kNOT, Opcodes.kFIRST_BINARY_LOGICAL, Opcodes.kFIRST_RELATIONAL, Opcodes.kFIRST_LOGICAL_COUNT,
      Opcodes.kIMPLICATION, Opcodes.kFIRST_ITERATED_LOGICAL, Opcodes.kFIRST_PAIRWISE].map (fun (k : Nat) => (k : Int))) = true := by decide

/-! ### index bounds: the call-site functions the model's reader uses

`Gen.NLGuards.site_*` select the header field by a projection in generated code; the model's reader calls them
(`Site.*`, ModelSites.lean), and the consistency proof uses `Site.*_le` / `Site.V_index`.  The theorems below say
what they evaluate to for every header the reader accepts (`C02_header_index_space`: all counts ≤ INT_MAX). -/

theorem siteVal_conv_small (x : Nat) (h : x ≤ 2147483647) : siteVal (.ret (conv tU (x : Int))) = x := by
  rw [siteVal_conv]; omega

theorem C02_gen_site_C (h : Header) (hr : h.num_algebraic_cons ≤ 2147483647) : Site.ubC h = h.num_algebraic_cons := by
  unfold Site.ubC; exact siteVal_conv_small _ hr
theorem C02_gen_site_L (h : Header) (hr : h.num_logical_cons ≤ 2147483647) : Site.ubL h = h.num_logical_cons := by
  unfold Site.ubL; exact siteVal_conv_small _ hr
theorem C02_gen_site_O (h : Header) (hr : h.num_objs ≤ 2147483647) : Site.ubO h = h.num_objs := by
  unfold Site.ubO; exact siteVal_conv_small _ hr
theorem C02_gen_site_F (h : Header) (hr : h.num_funcs ≤ 2147483647) : Site.ubF h = h.num_funcs := by
  unfold Site.ubF; exact siteVal_conv_small _ hr
theorem C02_gen_site_call (h : Header) (hr : h.num_funcs ≤ 2147483647) : Site.ubCall h = h.num_funcs := by
  unfold Site.ubCall; exact siteVal_conv_small _ hr
theorem C02_gen_site_ref (h : Header) (hr : h.num_vars_and_exprs ≤ 2147483647) : Site.ubRef h = h.num_vars_and_exprs := by
  unfold Site.ubRef; exact siteVal_conv_small _ hr
theorem C02_gen_site_V (h : Header) (hr : h.num_vars_and_exprs ≤ 2147483647) :
    Site.lbV h = h.num_vars ∧ Site.ubV h = h.num_vars_and_exprs := by
  have : h.num_vars ≤ 2147483647 := by simp only [Header.num_vars_and_exprs] at hr; omega
  unfold Site.lbV Site.ubV
  exact ⟨siteVal_conv_small _ this, siteVal_conv_small _ hr⟩
theorem C02_gen_site_termVar (h : Header) (hr : h.num_vars ≤ 2147483647) : Site.ubTermVar h = h.num_vars := by
  unfold Site.ubTermVar; exact siteVal_conv_small _ hr
theorem C02_gen_site_numTerms (h : Header) (hr : h.num_vars ≤ 2147483647) :
    Site.lbTerms = 1 ∧ Site.ubTerms h = h.num_vars + 1 := by
  refine ⟨Site.lbTerms_eq, ?_⟩
  unfold Site.ubTerms
  have e : conv tU (h.num_vars : Int) = (h.num_vars : Int) := by
    simp only [conv, CTy.wrap, tU, Bool.false_eq_true, ↓reduceIte]; omega
  simp only [site_NLReader_ReadLinearExpr_2_ub, bound_NLReader_ReadLinearExpr_2_ub, hdrOf, cadd, arith, e]
  simp only [tU, CTy.wrap, Bool.false_eq_true, ↓reduceIte, siteVal]
  omega

/-- `num_vars_and_exprs_ = num_vars + Σ common-expression counts` in `int`: no overflow for an accepted header -/
theorem C02_gen_num_vars_and_exprs (h : Header) (hr : h.num_vars_and_exprs ≤ 2147483647) :
    assign_num_vars_and_exprs (hdrOf h) = .ret (h.num_vars_and_exprs : Int) := by
  simp only [Header.num_vars_and_exprs, Header.num_common_exprs] at hr
  unfold assign_num_vars_and_exprs
  simp only [hdrOf, cadd]
  rw [arith_tI' _ (by omega) (by omega)]; simp only [Outcome.bind_ret]
  rw [arith_tI' _ (by omega) (by omega)]; simp only [Outcome.bind_ret]
  rw [arith_tI' _ (by omega) (by omega)]; simp only [Outcome.bind_ret]
  rw [arith_tI' _ (by omega) (by omega)]; simp only [Outcome.bind_ret]
  rw [arith_tI' _ (by omega) (by omega)]
  simp only [Header.num_vars_and_exprs, Header.num_common_exprs]
  congr 1; omega

/-- the item counts of the five item handlers (`num_items()`), as the checker's `suffixItems` / the model's counts -/
theorem C02_gen_items_var (h : Header) : items_VarHandler (hdrOf h) = .ret (h.suffixItems 0 : Nat) := rfl
theorem C02_gen_items_obj (h : Header) : items_ObjHandler (hdrOf h) = .ret (h.suffixItems 2 : Nat) := rfl
theorem C02_gen_items_problem (h : Header) : items_ProblemHandler (hdrOf h) = .ret (h.suffixItems 3 : Nat) := rfl
theorem C02_gen_items_algcon (h : Header) : items_AlgebraicConHandler (hdrOf h) = .ret (h.num_algebraic_cons : Int) := rfl
theorem C02_gen_items_con (h : Header) (hr : h.num_algebraic_cons + h.num_logical_cons ≤ 2147483647) :
    items_ConHandler (hdrOf h) = .ret (h.suffixItems 1 : Nat) := by
  unfold items_ConHandler
  simp only [hdrOf, cadd]
  rw [arith_tI' _ (by omega) (by omega)]
  simp [Header.suffixItems]

/-! ### item counts: which item handler a segment / suffix kind instantiates

`Gen.NLGuards.itemsOfSegment` / `itemsOfSuffixKind` are generated from the template arguments of the
`ReadBounds<..>` / `ReadInitialValues<..>` / `ReadLinearExpr<..>` / `ReadSuffix<..>` calls in the `case`s of
`NLReader::Read` and from the bodies of the handlers' `num_items()`.  The modelled reader calls them
(`Site.itemsSeg`, `Site.itemsSuffix`): loop count of the bounds segments, index bound and count of initial values,
index bound of `G`/`J`, count and index bound of suffixes.  The consistency proof uses `Site.itemsSeg_*` and
`Site.itemsSuffix_le` (LemmasSites.lean). -/

theorem C02_gen_itemsSeg (h : Header) :
    Site.itemsSeg h 71 = h.num_objs ∧ Site.itemsSeg h 74 = h.num_algebraic_cons ∧
    Site.itemsSeg h 98 = h.num_vars ∧ Site.itemsSeg h 114 = h.num_algebraic_cons ∧
    Site.itemsSeg h 120 = h.num_vars ∧ Site.itemsSeg h 100 = h.num_algebraic_cons :=
  ⟨Site.itemsSeg_G h, Site.itemsSeg_J h, Site.itemsSeg_b h, Site.itemsSeg_r h, Site.itemsSeg_x h, Site.itemsSeg_d h⟩

/-- for an accepted header (`C02_header_index_space`) the suffix item count the reader uses is the declared one -/
theorem C02_gen_itemsSuffix (h : Header) (kind : Nat) (hk : kind ≤ 3)
    (hr : h.num_algebraic_cons + h.num_logical_cons ≤ 2147483647) :
    Site.itemsSuffix h kind = h.suffixItems kind := by
  unfold Site.itemsSuffix
  have : kind = 0 ∨ kind = 1 ∨ kind = 2 ∨ kind = 3 := by omega
  rcases this with rfl | rfl | rfl | rfl
  · exact siteVal_nat _
  · show siteVal (items_ConHandler (hdrOf h)) = _
    rw [C02_gen_items_con h hr]; exact siteVal_nat _
  · exact siteVal_nat _
  · exact siteVal_nat _

/-- tripwire: the (case label, template, handler) table as text -/
theorem C02_gen_segment_handlers : segmentHandlers = [(71, "ReadLinearExpr", "ObjHandler"), (74, "ReadLinearExpr", "AlgebraicConHandler"), (98, "ReadBounds", "VarHandler"), (114, "ReadBounds", "AlgebraicConHandler"), (120, "ReadInitialValues", "VarHandler"), (100, "ReadInitialValues", "AlgebraicConHandler"), (0, "ReadSuffix", "VarHandler"), (1, "ReadSuffix", "ConHandler"), (2, "ReadSuffix", "ObjHandler"), (3, "ReadSuffix", "ProblemHandler")] := rfl

/-! ### the header parse as a script of reads

`TextReader::ReadHeader` interleaves its reads with assignments of defaults (`-1`), two sums and four guards (the guards are
translated: `C02_gen_tooManyOptions`, `C02_gen_conOverflow`, `C02_gen_complOverflow`, `C02_gen_badArith`, the accumulating
check `C02_gen_accOverflow`).  Its *read structure* — which primitive fills which header field, in which order, which reads
are optional (`&&` chains), conditional (`if>`) or in the option loop (`for>`) — is extracted from the AST as
`Gen.NLGuards.headerScript`; the list below is the order in which `readHeader` / `readCommonExprs` / `readOptions`
(Model.lean) perform them.  An added, removed, reordered or re-targeted header field breaks this theorem.  (A full
translation of `ReadHeader` into an executable step function was not attempted: the reads are calls with side effects on the
cursor inside short-circuit conditions; the model keeps them hand-written and the correspondence compares all 47 header
fields on every input.) -/
def knownHeaderScript : List (String × String × String) := [
  ("ReadChar", "-", "top"),
  ("ReadOptionalUInt", "num_ampl_options", "top"),
  ("ReadOptionalDouble", "tmp", "for>"),
  ("ReadOptionalDouble", "ampl_vbtol", "if>"),
  ("ReadTillEndOfLine", "-", "top"),
  ("ReadUInt", "num_vars", "top"),
  ("ReadUInt", "num_algebraic_cons", "top"),
  ("ReadUInt", "num_objs", "top"),
  ("ReadOptionalUInt", "num_ranges", "top"),
  ("ReadOptionalUInt", "num_eqns", "&&"),
  ("ReadOptionalUInt", "num_logical_cons", "if>"),
  ("ReadTillEndOfLine", "-", "top"),
  ("ReadUInt", "num_nl_cons", "top"),
  ("ReadUInt", "num_nl_objs", "top"),
  ("ReadOptionalUInt", "num_compl_conds", "top"),
  ("ReadOptionalUInt", "num_nl_compl_conds", "&&"),
  ("ReadOptionalUInt", "num_compl_dbl_ineqs", "&&"),
  ("ReadOptionalUInt", "num_compl_vars_with_nz_lb", "&&"),
  ("ReadTillEndOfLine", "-", "top"),
  ("ReadUInt", "num_nl_net_cons", "top"),
  ("ReadUInt", "num_linear_net_cons", "top"),
  ("ReadTillEndOfLine", "-", "top"),
  ("ReadUInt", "num_nl_vars_in_cons", "top"),
  ("ReadUInt", "num_nl_vars_in_objs", "top"),
  ("ReadOptionalUInt", "num_nl_vars_in_both", "top"),
  ("ReadTillEndOfLine", "-", "top"),
  ("ReadUInt", "num_linear_net_vars", "top"),
  ("ReadUInt", "num_funcs", "top"),
  ("ReadOptionalUInt", "arith_kind", "top"),
  ("ReadOptionalUInt", "flags", "if>"),
  ("ReadTillEndOfLine", "-", "top"),
  ("ReadUInt", "num_linear_binary_vars", "top"),
  ("ReadUInt", "num_linear_integer_vars", "top"),
  ("ReadUInt", "num_nl_integer_vars_in_both", "if>"),
  ("ReadUInt", "num_nl_integer_vars_in_cons", "if>"),
  ("ReadUInt", "num_nl_integer_vars_in_objs", "if>"),
  ("ReadTillEndOfLine", "-", "top"),
  ("ReadUInt<size_t>", "num_con_nonzeros", "top"),
  ("ReadUInt<size_t>", "num_obj_nonzeros", "top"),
  ("ReadTillEndOfLine", "-", "top"),
  ("ReadUInt", "max_con_name_len", "top"),
  ("ReadUInt", "max_var_name_len", "top"),
  ("ReadTillEndOfLine", "-", "top"),
  ("ReadUInt", "num_common_exprs_in_both(max_vars)", "top"),
  ("ReadUInt", "num_common_exprs_in_cons(max_vars)", "top"),
  ("ReadUInt", "num_common_exprs_in_objs(max_vars)", "top"),
  ("ReadUInt", "num_common_exprs_in_single_cons(max_vars)", "top"),
  ("ReadUInt", "num_common_exprs_in_single_objs(max_vars)", "top"),
  ("ReadTillEndOfLine", "-", "top")
]
theorem C02_gen_header_script : headerScript = knownHeaderScript := rfl

/-! ### character guards of the text reader -/

theorem char_cne (c : UInt8) (k : Nat) (hk : k < 128) :
    cne (conv tI (asChar c)) (conv tI (k : Int)) = bi (c != k.toUInt8) := by
  rw [conv_tI_char, conv_tI_small (k : Int) (by omega) (by omega)]
  have := asChar_eq c k hk
  by_cases h : c = k.toUInt8
  · have h' : asChar c = k := this.mpr h
    simp only [cne, bi, h', ne_eq, not_true_eq_false, ↓reduceIte]
    simp [h]
  · have h' : ¬ asChar c = k := fun e => h (this.mp e)
    simp [cne, bi, h, h']

/-- `ReadString`: `*ptr_ != ':'` -/
theorem C02_gen_expected_colon (c : UInt8) :
    g_TextReader_ReadString__expected (asChar c) = .ret (bi (G.notColon c)) := by
  unfold g_TextReader_ReadString__expected
  exact congrArg Outcome.ret (char_cne c 58 (by omega))

/-- `ReadString`: `*ptr_ != '\n'` after the string -/
theorem C02_gen_expected_newline_after_string (c : UInt8) :
    g_TextReader_ReadString__expected_newline (asChar c) = .ret (bi (G.notNewline c)) := by
  unfold g_TextReader_ReadString__expected_newline
  exact congrArg Outcome.ret (char_cne c 10 (by omega))

theorem asChar_zero (c : UInt8) : asChar c = 0 ↔ c = 0 := by
  have := asChar_eq c 0 (by omega)
  simpa using this

/-- `ReadName`: `*ptr_ == '\\n' || !*ptr_` -/
theorem C02_gen_noName (c : UInt8) :
    g_TextReader_ReadName__expected_name (asChar c) = .ret (bi (G.noName c)) := by
  unfold g_TextReader_ReadName__expected_name G.noName
  rw [conv_tI_char, conv_tI_small 10 (by omega) (by omega)]
  have h10 := asChar_eq c 10 (by omega)
  have h0 := asChar_zero c
  by_cases a : c = 10
  · subst a
    have e10 : asChar 10 = 10 := by decide
    simp [cor, ceq, bi, e10]
  · have na : ¬ asChar c = 10 := fun e => a (by simpa using h10.mp e)
    by_cases b : c = 0
    · subst b
      have e0 : asChar 0 = 0 := by decide
      simp [cor, ceq, cnot, tobool, bi, e0, Outcome.bind]
    · have nb : ¬ asChar c = 0 := fun e => b (h0.mp e)
      simp [cor, ceq, cnot, tobool, bi, na, nb, a, b, Outcome.bind]

/-- `ReadString`: `!c && ptr_ == end_` -/
theorem C02_gen_eofInString (c : UInt8) (atEnd : Bool) :
    g_TextReader_ReadString__unexpected_end_of_file_in_string (asChar c) (bi atEnd) = .ret (bi (G.eofInString c atEnd)) := by
  unfold g_TextReader_ReadString__unexpected_end_of_file_in_string G.eofInString
  have h0 := asChar_zero c
  by_cases b : c = 0
  · subst b
    have e0 : asChar 0 = 0 := by decide
    cases atEnd <;> simp [cand, cnot, tobool, bi, e0, Outcome.bind]
  · have nb : ¬ asChar c = 0 := fun e => b (h0.mp e)
    cases atEnd <;> simp [cand, cnot, tobool, bi, nb, b]

/-- `ReadUInt` / `ReadInt`: the error is reported iff the optional read found no digit -/
theorem C02_gen_expected_uint (found : Bool) :
    g_TextReader_ReadUInt__expected_unsigned_integer (bi found) = .ret (bi (!found)) := by
  cases found <;> rfl
theorem C02_gen_expected_int (found : Bool) :
    g_TextReader_ReadInt__expected_integer (bi found) = .ret (bi (!found)) := by
  cases found <;> rfl
/-- `ReadDouble`: the error is reported iff `strtod` did not advance (`ptr_ == start`) -/
theorem C02_gen_expected_double (same : Bool) :
    g_TextReader_ReadDouble__expected_double (bi same) = .ret (bi same) := rfl

/-! ### the accumulating `ReadUInt(int &accumulator)` and its use in `ReadHeader`

`Site.accNext` / `Site.accValue` / `Site.accInit` (ModelSites.lean), which the modelled `tReadUIntAcc` and
`readCommonExprs` call, are these generated functions; `C02_header_index_space` rests on `Site.accNext_eq`,
`Site.accValue_eq`, `Site.accInit_eq`. -/

/-- when the overflow guard does not fire, the caller's variable becomes `accumulator + value` (the parameter is a
    reference and is assigned `+= value`) -/
theorem C02_gen_acc_next (acc v : Nat) (h : ¬ G.accOverflow acc v) : acc_next acc v = .ret ((acc + v : Nat) : Int) := by
  unfold acc_next; rw [cadd_tI_nat acc v h]; rfl
/-- ... and the call returns the value read, not the accumulator -/
theorem C02_gen_acc_value (acc v : Nat) (h : ¬ G.accOverflow acc v) : acc_value acc v = .ret (v : Int) := by
  unfold acc_value; rw [cadd_tI_nat acc v h]; rfl
/-- `int max_vars = header.num_vars` -/
theorem C02_gen_acc_init (h : Header) : acc_init (hdrOf h) = .ret (h.num_vars : Int) := rfl
/-- the model's accumulating read returns exactly these -/
theorem C02_model_acc (acc v : Nat) (h : ¬ G.accOverflow acc v) :
    Site.accNext acc v = acc + v ∧ Site.accValue acc v = v :=
  ⟨Site.accNext_eq acc v h, Site.accValue_eq acc v h⟩
example : acc_next 2147483640 7 = .ret 2147483647 := by decide
example : acc_next 2147483640 8 = .ub := by decide
/-- tripwire: the five accumulating calls, their target fields, the one variable they all pass -/
theorem C02_gen_acc_targets : accTargets = [("num_common_exprs_in_both", "max_vars"), ("num_common_exprs_in_cons", "max_vars"),
    ("num_common_exprs_in_objs", "max_vars"), ("num_common_exprs_in_single_cons", "max_vars"),
    ("num_common_exprs_in_single_objs", "max_vars")] := rfl

/-! ### the model dispatches on exactly these letters -/

theorem C02_model_segment_dispatch (cx : Env) (c : UInt8) (h : c ∉ G.segmentLetters) :
    readSegment cx c = fail cx .segment := by
  simp only [G.segmentLetters, List.mem_cons, List.not_mem_nil, or_false, not_or] at h
  obtain ⟨h1, h2, h3, h4, h5, h6, h7, h8, h9, h10, h11, h12, h13⟩ := h
  unfold readSegment
  simp [h1, h2, h3, h4, h5, h6, h7, h8, h9, h10, h11, h12, h13]

end MpVerif.C02

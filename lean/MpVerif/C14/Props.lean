import MpVerif.C14.Model
namespace MpVerif.C14
theorem C14_placeholder : (readSol 0 0 ⟨0, .all, .all, .all⟩ []).code = .earlyEof := by decide
end MpVerif.C14

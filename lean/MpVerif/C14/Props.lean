import MpVerif.C14.LemmasMain
import MpVerif.Gen.SolGuards
/-!
# C14 — SOL reader is total and memory-safe on arbitrary files: property theorems

`readSol fx fm nVars nCons pol bytes` (Model.lean) mirrors `SOLReader2::ReadSOLFile`
(nl-writer2/include/mp/sol-reader2.hpp) on a file with contents `bytes`, declared sizes
`nVars`/`nCons`, and a handler following policy `pol`.

* `fx = true` is the reader **as it is in the tree** since ampl/mp commit 602adf1 (bounds checks in
  `gsufread`/`Lget`/`sufheadcheck`); `fx = false` is the reader before that commit, kept as history
  (`C14_history_*`) and because the check decides by a behavioural probe which variant the tree under test
  implements — a tree that falls back to `fx = false` behaviour is reported as a violation.
* `fm = true` is the reader **as it is in the tree** since ampl/mp 927b124 (Bad_Options carries a message; was `repo_patches/C14-badoptions-message.diff`);
  `fm = false` is the reader before that commit (history; the probe selects it for a tree that loses the fix).

All theorems quantify over **all** byte strings, **all** declared sizes and **all** handler
policies that pass a documented error code (not OK) to `SetError` (`SanePol`).  `C14_codes` and `C14_buf`
are the full-strength statements about the current tree.
-/
namespace MpVerif.C14

theorem evsInv_mem {P : Event → Prop} {es : List Event} {c : Code} (h : EvsInv P es c) :
    ∀ e ∈ es, P e := by
  induction es with
  | nil => simp
  | cons x xs ih =>
    intro e he
    simp only [EvsInv] at h
    rcases List.mem_cons.mp he with rfl | he
    · exact h.1
    · exact ih h.2.2 e he

theorem evsInv_split {P : Event → Prop} {pre post : List Event} {e : Event} {c : Code}
    (h : EvsInv P (pre ++ e :: post) c) (v : VecOut) (hv : e.vec? = some v) (hn : ¬ v.complete) :
    post = [] ∧ c ≠ .ok := by
  induction pre with
  | nil => simp only [List.nil_append, EvsInv] at h; exact h.2.1 v hv hn
  | cons x xs ih => simp only [List.cons_append, EvsInv] at h; exact ih h.2.2

/-- **Totality.**  Lean accepts `readSol` as a total function (every loop is structurally
recursive on a fuel argument initialised to the remaining file length + 1); this theorem says
the fuel is never exhausted, i.e. every loop of the reader terminates because each iteration
consumes at least one byte of the file. -/
theorem C14_total (fx fm : Bool) (nv nc : Nat) (pol : Policy) (bytes : Bytes) (hs : SanePol pol) :
    (readSol fx fm nv nc pol bytes).code ≠ .fuel :=
  (readSol_inv (nv := nv) (nc := nc) pol bytes hs).nofuel

/-- The handler is never offered more dual values than the problem has constraints, nor more
primal values than it has variables. -/
theorem C14_offer_bound (fx fm : Bool) (nv nc : Nat) (pol : Policy) (bytes : Bytes) (hs : SanePol pol) :
    ∀ e ∈ (readSol fx fm nv nc pol bytes).evs,
      (∀ b v, e = .dual b v → v.offered ≤ nc) ∧ (∀ b v, e = .primal b v → v.offered ≤ nv) := by
  intro e he
  have := evsInv_mem (readSol_inv (fx := fx) (fm := fm) (nv := nv) (nc := nc) pol bytes hs).evs e he
  constructor
  · intro b v h; subst h; exact this.1
  · intro b v h; subst h; exact this.1

/-- **Hostile counts are rejected before anything is offered.**  If the Options block states a number of dual or
primal values that is negative or exceeds the declared problem size (and the handler accepted the options), the
checks after the Options block return Bad_Format and no vector is offered.  (The counts are C `int`s — any value from
INT_MIN to INT_MAX; after this check they are non-negative, which is why offered counts are `Nat` in the model.) -/
theorem C14_hostile_counts_rejected (fm : Bool) (nVars nCons : Nat) (pol : Policy) (binary : Bool) (o : Opts) (inp : Bytes)
    (hrv : pol.optRv = 0) (h : o.z 3 < 0 ∨ o.z 3 > nVars ∨ o.z 1 < 0 ∨ o.z 1 > nCons) :
    ∃ r, preCheck fm nVars nCons pol binary (some o) inp = .error r ∧ r.code = .badFormat ∧ r.evs = [] := by
  unfold preCheck
  simp only [hrv, ne_eq, not_true_eq_false, if_false]
  by_cases h3 : o.z 3 > nVars ∨ o.z 3 < 0
  · simp only [h3, if_true]; exact ⟨_, rfl, rfl, rfl⟩
  · have h1 : o.z 1 > nCons ∨ o.z 1 < 0 := by omega
    simp only [h3, if_false, h1, if_true]; exact ⟨_, rfl, rfl, rfl⟩

/-- `msg\n\nOptions\n3\n1\n1\n0\n2\n-1\n2\n2\n1\n2\n3\n4\n5\nobjno 0 0\n`: dual count −1 with a valid primal count -/
def negDual : Bytes := [109, 115, 103, 10, 10, 79, 112, 116, 105, 111, 110, 115, 10, 51, 10, 49, 10, 49, 10, 48, 10, 50, 10, 45, 49, 10, 50, 10, 50, 10, 49, 10, 50, 10, 51, 10, 52, 10, 53, 10, 111, 98, 106, 110, 111, 32, 48, 32, 48, 10]

/-- … on a concrete file, for a read-while-Size()≠0 handler: only the message and the options are delivered -/
theorem C14_negative_dual_count_instance :
    readSol true true 2 2 ⟨0, .whileNz, .whileNz, .all⟩ negDual =
      ⟨.badFormat, [.msg [109, 115, 103, 10] 0, .options [3, 1, 1, 0, 2, -1, 2, 2] false []], true⟩ := by decide

/-- Text format: a suffix name is delivered with fewer than `namelen` characters and a table
with at most `tablen` characters, `namelen`/`tablen` being the header fields of that suffix
(the name buffer of `namelen` bytes and the table buffer of `tablen` bytes are never overrun). -/
theorem C14_lengths_text (fx fm : Bool) (nv nc : Nat) (pol : Policy) (bytes : Bytes) (hs : SanePol pol) :
    ∀ e ∈ (readSol fx fm nv nc pol bytes).evs, ∀ kind namelen tablen name table v,
      e = .suffix false kind namelen tablen name table v →
        (name.length : Int) + 1 ≤ namelen ∧ (table.length : Int) ≤ tablen := by
  intro e he kind namelen tablen name table v h
  have := evsInv_mem (readSol_inv (fx := fx) (fm := fm) (nv := nv) (nc := nc) pol bytes hs).evs e he
  subst h
  exact ⟨this.2.2.2.2.1 rfl, this.2.2.2.1⟩

/- Full-strength statement for the binary format (FALSE for the code as it is, and not repaired
by the patch): `… e = .suffix true kind namelen tablen name table v → name.length + 1 ≤ namelen`.
`bsufread` freads `namelen` bytes and builds `std::string(SR.name)` without terminating it, so an
unterminated name runs on into the table.  Proved instead: -/
theorem C14_lengths_binary_partial (fx fm : Bool) (nv nc : Nat) (pol : Policy) (bytes : Bytes) (hs : SanePol pol) :
    ∀ e ∈ (readSol fx fm nv nc pol bytes).evs, ∀ kind namelen tablen name table v,
      e = .suffix true kind namelen tablen name table v →
        (name.length : Int) ≤ namelen + tablen ∧ (table.length : Int) ≤ tablen := by
  intro e he kind namelen tablen name table v h
  have := evsInv_mem (readSol_inv (fx := fx) (fm := fm) (nv := nv) (nc := nc) pol bytes hs).evs e he
  subst h
  exact ⟨this.2.2.2.2.2 rfl, this.2.2.2.1⟩

def readAll : Policy := ⟨0, .all, .all, .all⟩

/-- binary file whose suffix record says `namelen = 3`, `tablen = 2` and carries `foo` `t\0`:
the handler receives the 4-character name `foot`. -/
def cexBinName : Bytes := [6, 0, 0, 0, 98, 105, 110, 97, 114, 121, 6, 0, 0, 0, 2, 0, 0, 0, 104, 105, 2, 0, 0, 0, 0, 0, 0, 0, 0, 0, 0, 0, 0, 0, 0, 0, 0, 0, 0, 0, 8, 0, 0, 0, 0, 0, 0, 0, 0, 0, 248, 63, 8, 0, 0, 0, 8, 0, 0, 0, 0, 0, 0, 0, 7, 0, 0, 0, 8, 0, 0, 0, 29, 0, 0, 0, 10, 83, 117, 102, 102, 105, 120, 10, 0, 0, 0, 0, 0, 0, 0, 0, 3, 0, 0, 0, 2, 0, 0, 0, 102, 111, 111, 116, 0, 29, 0, 0, 0]

theorem C14_counterexample_binary_name :
    (readSol false false 1 0 readAll cexBinName).code = .ok ∧
    ∃ v, Event.suffix true 0 3 2 [102, 111, 111, 116] [116] v ∈ (readSol false false 1 0 readAll cexBinName).evs := by
  refine ⟨by decide, ⟨0, [], .ok, 0⟩, by decide⟩

/-- **No partially delivered vector is reported complete.**  When a vector callback returns
with the reader's status OK, every delivered value was read from the file and
delivered + remaining = offered; in particular "complete" (status OK, nothing remaining) means
all offered values were delivered.  A failed read closes the vector (`Size() = 0`) with a
non-OK status. -/
theorem C14_no_false_complete (fx fm : Bool) (nv nc : Nat) (pol : Policy) (bytes : Bytes) (hs : SanePol pol) :
    ∀ e ∈ (readSol fx fm nv nc pol bytes).evs, ∀ v, e.vec? = some v →
      (v.rr = .ok → v.items.length + v.remaining = v.offered) ∧
      (v.complete → v.items.length = v.offered) ∧
      (v.rr ≠ .ok → v.remaining = 0) := by
  intro e he v hv
  have := evsInv_mem (readSol_inv (fx := fx) (fm := fm) (nv := nv) (nc := nc) pol bytes hs).evs e he
  have hok : VecOK v := by
    cases e <;> simp [Event.vec?] at hv <;> subst hv
    · exact this.2
    · exact this.2
    · exact this.1
  refine ⟨hok.ok_count, ?_, hok.fail_closed⟩
  intro hc
  have := hok.ok_count hc.1
  rw [hc.2] at this; simpa using this

/-- … and a vector that was not reported complete ends the run with an error: it is the last
event the handler sees and the result is not OK. -/
theorem C14_failure_reported (fx fm : Bool) (nv nc : Nat) (pol : Policy) (bytes : Bytes) (hs : SanePol pol)
    (pre post : List Event) (e : Event) (v : VecOut)
    (hsplit : (readSol fx fm nv nc pol bytes).evs = pre ++ e :: post) (hv : e.vec? = some v) (hn : ¬ v.complete) :
    post = [] ∧ (readSol fx fm nv nc pol bytes).code ≠ .ok := by
  have := (readSol_inv (fx := fx) (fm := fm) (nv := nv) (nc := nc) pol bytes hs).evs
  rw [hsplit] at this
  exact evsInv_split this v hv hn

/-! ## result codes, messages, the 512-byte buffer -/

/- Full-strength statements (FALSE for the code as it is):
   `C14_codes : (readSol false fm nv nc pol bytes).code.documented = true`
   `C14_buf   : (readSol false fm nv nc pol bytes).code ≠ .ubOob`   (every index into `buf[512]` is < 512)
`gsufread` indexes its 512-byte stack buffer with the file-provided `namelen` (A7), compares a byte
that `fgets` never stored when the name line is shorter than `namelen`, `Lget` overflows `int` on
10+ digit fields and `sufheadcheck` overflows `int` computing `tablen + 2*namelen + 6`.
Found by this check, fixed by 602adf1.  The theorems for the current tree follow; the `C14_history_*` theorems record what
held before the fix and the inputs that exhibited the defects (`corpus/C14` replays them on every run: now rejected). -/

theorem C14_codes (fm : Bool) (nv nc : Nat) (pol : Policy) (bytes : Bytes) (hs : SanePol pol) :
    (readSol true fm nv nc pol bytes).code.documented = true := by
  have h := readSol_inv (fx := true) (fm := fm) (nv := nv) (nc := nc) pol bytes hs
  have h1 := h.nofuel
  have h2 := h.noub rfl
  revert h1 h2
  cases (readSol true fm nv nc pol bytes).code <;> simp [Code.documented, Code.isUb]

/-- the patched reader never indexes the line buffer out of bounds, never reads a byte `fgets`
did not store, never overflows an `int` in `Lget`/`sufheadcheck` -/
theorem C14_buf (fm : Bool) (nv nc : Nat) (pol : Policy) (bytes : Bytes) (hs : SanePol pol) :
    (readSol true fm nv nc pol bytes).code.isUb = false :=
  (readSol_inv (nv := nv) (nc := nc) pol bytes hs).noub rfl

theorem C14_history_codes_before_602adf1 (fm : Bool) (nv nc : Nat) (pol : Policy) (bytes : Bytes) (hs : SanePol pol) :
    (readSol false fm nv nc pol bytes).code.documented = true ∨ (readSol false fm nv nc pol bytes).code.isUb = true := by
  have h1 := (readSol_inv (fx := false) (fm := fm) (nv := nv) (nc := nc) pol bytes hs).nofuel
  revert h1
  cases (readSol false fm nv nc pol bytes).code <;> simp [Code.documented, Code.isUb]

/-- reader as it is: the out-of-bounds index can only come from a suffix header with `namelen ≥ 512` -/
theorem C14_history_buf_before_602adf1 (buf : Buf) (namelen tablen tablines : Nat) (inp : Bytes) (h : namelen ≤ 511) :
    gsufBody false buf namelen tablen tablines inp ≠ .error .ubOob := by
  have hb : ∀ i, i < 512 → bufRead buf i ≠ .error .ubOob ∧
      ∀ chunk, bufRead (bufStore buf chunk) i ≠ .error .ubOob := by
    intro i hi
    constructor
    · unfold bufRead
      have : ¬ i ≥ 512 := by omega
      simp only [this, if_false]; split <;> simp
    · intro chunk
      unfold bufRead
      have : ¬ i ≥ 512 := by omega
      simp only [this, if_false]; split <;> simp
  intro hg
  unfold gsufBody at hg
  split at hg
  · simp at hg
  · rename_i chunk inp1 _
    dsimp only at hg
    split at hg
    · simp at hg
    · split at hg
      · rename_i c hne
        simp at hg; subst hg
        unfold nameEnd at hne
        split at hne
        · rename_i c' hc; simp at hne; subst hne
          exact ((hb (namelen - 1) (by omega)).2 chunk) hc
        · split at hne
          · simp at hne
          · split at hne
            · simp at hne
            · split at hne
              · rename_i c' hc; simp at hne; subst hne
                exact ((hb namelen (by omega)).2 chunk) hc
              · simp at hne
      · simp at hg
      · split at hg
        · simp at hg
        · split at hg
          · rename_i c hc
            simp at hg; subst hg
            have := (tabLines_facts (tablines - 1) (List.replicate tablen 0) 0 tablen inp1 (by omega) (by simp)).1 _ hc
            simp at this
          · repeat' split at hg
            all_goals simp at hg

/-- `m\n\nobjno 0 0\nsuffix 0 0 600 0 0\nfoo\n`: `buf[599]` of `char buf[512]` -/
def cexOob : Bytes := [109, 10, 10, 111, 98, 106, 110, 111, 32, 48, 32, 48, 10, 115, 117, 102, 102, 105, 120, 32, 48, 32, 48, 32, 54, 48, 48, 32, 48, 32, 48, 10, 102, 111, 111, 10]
theorem C14_history_counterexample_buf_oob : (readSol false false 0 0 readAll cexOob).code = .ubOob := by decide

/-- `… suffix 0 0 100 0 0\nfoo\n`: `buf[99]` was never written -/
def cexUninit : Bytes := [109, 10, 10, 111, 98, 106, 110, 111, 32, 48, 32, 48, 10, 115, 117, 102, 102, 105, 120, 32, 48, 32, 48, 32, 49, 48, 48, 32, 48, 32, 48, 10, 102, 111, 111, 10]
theorem C14_history_counterexample_buf_uninit : (readSol false false 0 0 readAll cexUninit).code = .ubUninit := by decide

/-- `… suffix 0 0 99999999999 0 0\n…`: `10*L + c - '0'` overflows `int` in `Lget` -/
def cexLget : Bytes := [109, 10, 10, 111, 98, 106, 110, 111, 32, 48, 32, 48, 10, 115, 117, 102, 102, 105, 120, 32, 48, 32, 48, 32, 57, 57, 57, 57, 57, 57, 57, 57, 57, 57, 57, 32, 48, 32, 48, 10, 102, 111, 111, 10]
theorem C14_history_counterexample_lget_overflow : (readSol false false 0 0 readAll cexLget).code = .ubOverflow := by decide

/-- binary suffix record with `namelen = 2^30`: `2*namelen` overflows `int` in `sufheadcheck` -/
def cexHead : Bytes := [6, 0, 0, 0, 98, 105, 110, 97, 114, 121, 6, 0, 0, 0, 2, 0, 0, 0, 104, 105, 2, 0, 0, 0, 0, 0, 0, 0, 0, 0, 0, 0, 0, 0, 0, 0, 0, 0, 0, 0, 8, 0, 0, 0, 0, 0, 0, 0, 0, 0, 248, 63, 8, 0, 0, 0, 8, 0, 0, 0, 0, 0, 0, 0, 7, 0, 0, 0, 8, 0, 0, 0, 24, 0, 0, 0, 10, 83, 117, 102, 102, 105, 120, 10, 0, 0, 0, 0, 0, 0, 0, 0, 0, 0, 0, 64, 0, 0, 0, 0, 24, 0, 0, 0]
theorem C14_history_counterexample_headcheck_overflow : (readSol false false 1 0 readAll cexHead).code = .ubOverflow := by decide

/-- the same four inputs are rejected with a documented code by the patched reader -/
theorem C14_regression_inputs_rejected :
    (readSol true false 0 0 readAll cexOob).code = .badLine ∧ (readSol true false 0 0 readAll cexUninit).code = .badLine ∧
    (readSol true false 0 0 readAll cexLget).code = .badLine ∧ (readSol true false 1 0 readAll cexHead).code = .badSuffix := by
  decide

/-- **An error comes with a message** — the current tree (`fm = true`, since ampl/mp 927b124):
every result other than OK has a non-empty message. -/
theorem C14_error_has_message (fx : Bool) (nv nc : Nat) (pol : Policy) (bytes : Bytes) (hs : SanePol pol)
    (h1 : (readSol fx true nv nc pol bytes).code ≠ .ok) : (readSol fx true nv nc pol bytes).hasMsg = true :=
  (readSol_inv (nv := nv) (nc := nc) pol bytes hs).msg h1 (.inr rfl)

/- History (`fm = false`, before 927b124): the full-strength statement was FALSE: `code ≠ .ok → hasMsg = true`.
`OnAMPLOptions` returning non-zero makes the reader return `NLW2_SOLRead_Bad_Options` without calling `serror`. -/
theorem C14_error_has_message_partial (fx fm : Bool) (nv nc : Nat) (pol : Policy) (bytes : Bytes) (hs : SanePol pol)
    (h1 : (readSol fx fm nv nc pol bytes).code ≠ .ok) (h2 : (readSol fx fm nv nc pol bytes).code ≠ .badOptions) :
    (readSol fx fm nv nc pol bytes).hasMsg = true :=
  (readSol_inv (nv := nv) (nc := nc) pol bytes hs).msg h1 (.inl h2)

/-- `m\n\nOptions\n3\n0\n1\n0\n0\n0\n0\n0\n` with a handler that rejects the options -/
def cexOpts : Bytes := [109, 10, 10, 79, 112, 116, 105, 111, 110, 115, 10, 51, 10, 48, 10, 49, 10, 48, 10, 48, 10, 48, 10, 48, 10, 48, 10]
theorem C14_counterexample_badoptions_no_message :
    (readSol true false 0 0 ⟨1, .all, .all, .all⟩ cexOpts).code = .badOptions ∧
    (readSol true false 0 0 ⟨1, .all, .all, .all⟩ cexOpts).hasMsg = false ∧
    (readSol true true 0 0 ⟨1, .all, .all, .all⟩ cexOpts).hasMsg = true := by decide

/-! ## the `Long Options[14]` array (statement audit, ROUND 4)

The model indexes the options with the totalised `List.getD`; the real code indexes a fixed array `Long Options[14]`.  These theorems
state the guard the real code relies on: whenever an options block is accepted (text or binary), exactly `nOpts + 5 ≤ 14` entries were
stored, so `z[1] = Options[nOpts+2]` and `z[3] = Options[nOpts+4]` (and every index the reader writes) are inside the array and inside the
model's list — `getD` never falls back to its default. -/

theorem C14_options_array_bound_text (inp r : Bytes) (o : Opts) (h : optsText inp = .ok (o, r)) :
    o.opts.length = o.nOpts + 5 ∧ o.nOpts + 5 ≤ 14 ∧ 1 ≤ o.nOpts := optsText_bound inp r o h

/-- the same for the binary format: an accepted Options record stored exactly `nOpts + 5 ≤ 14` integers -/
theorem C14_options_array_bound_bin (L : Nat) (inp r : Bytes) (o : Opts) (h : optsBin L inp = .ok (o, r)) :
    o.opts.length = o.nOpts + 5 ∧ o.nOpts + 5 ≤ 14 ∧ 1 ≤ o.nOpts := optsBin_bound L inp r o h

/-- **What `OnAMPLOptions` receives.**  Every options block delivered to the handler (`ao.options_.assign(Options, Options+nOpts+5)`) has between 6 and 14
values, for every file, format, declared size and handler. -/
theorem C14_options_handed_to_handler (fx fm : Bool) (nv nc : Nat) (pol : Policy) (bytes : Bytes) (hs : SanePol pol) :
    ∀ e ∈ (readSol fx fm nv nc pol bytes).evs, ∀ opts vb t, e = .options opts vb t → 6 ≤ opts.length ∧ opts.length ≤ 14 := by
  intro e he opts vb t h
  have := evsInv_mem (readSol_inv (fx := fx) (fm := fm) (nv := nv) (nc := nc) pol bytes hs).evs e he
  subst h
  exact this

/-- `m\n\nOptions\n5\n1\n1\n0\n0\n0\n0\n0\n0\n0\n`: a valid file with 5 AMPL options -/
def fiveOpts : Bytes := [109, 10, 10, 79, 112, 116, 105, 111, 110, 115, 10, 53, 10, 49, 10, 49, 10, 48, 10, 48, 10, 48, 10, 48, 10, 48, 10, 48, 10, 48, 10]

/-- **A receiving array of 9 entries is too small** (history: the C API's `AMPLOptions_C::options_[MAX_AMPL_OPTIONS]` before f8d8c0f, filled by `std::copy` of the
whole list in `NLW2_SOLHandler_C_Impl::OnAMPLOptions`): a valid file with 5 options is read OK and hands 10 values to the handler; the bound 14 of the previous
theorem is attained with 9 options, so no capacity below 14 is enough. -/
theorem C14_history_counterexample_c_api_options_array :
    (readSol true true 0 0 readAll fiveOpts) = ⟨.ok, [.msg [109, 10] 0, .options [5, 1, 1, 0, 0, 0, 0, 0, 0, 0] false []], false⟩ ∧
    ([5, 1, 1, 0, 0, 0, 0, 0, 0, 0] : List Int).length > 9 ∧
    (∃ o r, optsText (str "9\n1\n1\n1\n1\n1\n1\n1\n1\n1\n0\n0\n0\n0\n") = .ok (o, r) ∧ o.opts.length = 14) := by
  refine ⟨by decide, by decide, ⟨[9, 1, 1, 1, 1, 1, 1, 1, 1, 1, 0, 0, 0, 0], 9, false, []⟩, [], by rfl, rfl⟩

/-- the capacity of the C struct as it is in the tree under test (`long options_[…]` in sol-handler-c.h with the macros of nl-header-c.h, regenerated on every run)
is at least the 14 values the reader can hand over.  With the capacity of 9 that the tree had before f8d8c0f this statement is false and the proof stage fails. -/
theorem C14_gen_c_api_capacity : 14 ≤ MpVerif.Gen.SolGuards.c_api_options_capacity := by decide

/-- **The C API copy stays inside its array.**  Every options block the reader delivers — any file, format, declared size, handler — fits
`AMPLOptions_C::options_` of the tree under test, so `std::copy(ao.options_.begin(), ao.options_.end(), ao_c.options_)` in
`NLW2_SOLHandler_C_Impl::OnAMPLOptions` writes `opts.length ≤ capacity` entries and `n_options_ = opts.length` describes the stored values exactly. -/
theorem C14_c_api_options_fit (fx fm : Bool) (nv nc : Nat) (pol : Policy) (bytes : Bytes) (hs : SanePol pol) :
    ∀ e ∈ (readSol fx fm nv nc pol bytes).evs, ∀ opts vb t, e = .options opts vb t →
      opts.length ≤ MpVerif.Gen.SolGuards.c_api_options_capacity := by
  intro e he opts vb t h
  have h1 := (C14_options_handed_to_handler fx fm nv nc pol bytes hs e he opts vb t h).2
  have h2 := C14_gen_c_api_capacity
  omega

/-- **The number of values the C API copies** (`n = std::min(ao.options_.size(), cap); ao_c.n_options_ = (int)n; std::copy(begin, begin + n, ao_c.options_)` in
`NLW2_SOLHandler_C_Impl::OnAMPLOptions`, re-translated from sol-handler-c-impl.h on every run): for every vector size below 2^31 the generated code yields
`min size capacity` — never more than the array holds … -/
theorem C14_gen_c_api_copy_count (size : Nat) (h : size < 2147483648) :
    MpVerif.Gen.SolGuards.c_api_copy_count (size : Int) = .ret ((min size MpVerif.Gen.SolGuards.c_api_options_capacity : Nat) : Int) ∧
    min size MpVerif.Gen.SolGuards.c_api_options_capacity ≤ MpVerif.Gen.SolGuards.c_api_options_capacity := by
  refine ⟨?_, Nat.min_le_right _ _⟩
  have hconv : ∀ v : Int, 0 ≤ v → v < 2147483648 → MpVerif.CSem.conv MpVerif.CSem.tI v = v := by
    intro v h1 h2
    simp only [MpVerif.CSem.conv, MpVerif.CSem.CTy.wrap, MpVerif.CSem.tI]
    simp
    omega
  unfold MpVerif.Gen.SolGuards.c_api_copy_count MpVerif.Gen.SolGuards.sg_min_ul__ul_ul MpVerif.Gen.SolGuards.c_api_options_capacity
  by_cases hc : (14 : Int) < (size : Int)
  · have hm : min size 14 = 14 := by omega
    simp [MpVerif.CSem.clt, hc, hm, MpVerif.CSem.Outcome.bind, hconv 14 (by omega) (by omega)]
  · have hm : min size 14 = size := by omega
    simp [MpVerif.CSem.clt, hc, hm, MpVerif.CSem.Outcome.bind, hconv (size : Int) (by omega) (by omega)]

/-- … and for every options block the reader delivers (any file, format, declared size, handler) it is the whole block: `n_options_ = opts.length`, nothing is
dropped and nothing is written outside `options_`. -/
theorem C14_c_api_copies_whole_block (fx fm : Bool) (nv nc : Nat) (pol : Policy) (bytes : Bytes) (hs : SanePol pol) :
    ∀ e ∈ (readSol fx fm nv nc pol bytes).evs, ∀ opts vb t, e = .options opts vb t →
      MpVerif.Gen.SolGuards.c_api_copy_count (opts.length : Int) = .ret (opts.length : Int) := by
  intro e he opts vb t h
  have h1 := C14_c_api_options_fit fx fm nv nc pol bytes hs e he opts vb t h
  have h2 := (C14_gen_c_api_copy_count opts.length (by
    have := (C14_options_handed_to_handler fx fm nv nc pol bytes hs e he opts vb t h).2; omega)).1
  rw [h2, Nat.min_eq_left h1]

/-- … and every later use of the options (`z[1]`, `z[3]`) reads an entry that was stored -/
theorem C14_options_index_in_bounds (inp r : Bytes) (o : Opts) (L : Nat)
    (h : optsText inp = .ok (o, r) ∨ optsBin L inp = .ok (o, r)) (i : Nat) (hi : i ≤ 3) :
    o.nOpts + 1 + i < o.opts.length := by
  rcases h with h | h
  · have := C14_options_array_bound_text inp r o h; omega
  · have := C14_options_array_bound_bin L inp r o h; omega

/-! ## translator ties (ROUND 4)

`MpVerif.Gen.SolGuards` is regenerated on every run by `translators/gen_solguards.py` from the text of
`nl-writer2/include/mp/sol-reader2.hpp` in the tree under test (verbatim slices through clang's typed AST and `tr_cint`).
The theorems below prove the hand model's integer decisions equal to the generated definitions for all arguments, so the
property theorems above speak about the code as it is now: an edit of one of these decisions breaks a proof obligation. -/
section gen
open MpVerif.CSem MpVerif.Gen.SolGuards

/-- the 'Wrong NumVars / NumAlgCons' checks: generated code = the guard of `preCheck` -/
theorem C14_gen_count_guard (z3 z1 nv nc : Int) :
    count_guard z3 z1 nv nc = .ret (if (z3 > nv ∨ z3 < 0) ∨ (z1 > nc ∨ z1 < 0) then 3 else 0) := by
  by_cases h1 : z3 > nv <;> by_cases h2 : z3 < 0 <;> by_cases h3 : z1 > nc <;> by_cases h4 : z1 < 0 <;>
    simp [count_guard, cor, cgt, clt, tobool, h1, h2, h3, h4]

/-- … and `preCheck` (text format, options accepted by the handler) lets a file pass exactly when the generated checks return 0 -/
theorem C14_gen_preCheck (fm : Bool) (nVars nCons : Nat) (pol : Policy) (o : Opts) (inp : Bytes) (hrv : pol.optRv = 0) :
    preCheck fm nVars nCons pol false (some o) inp =
      (if count_guard (o.z 3) (o.z 1) nVars nCons = .ret 0 then .ok ((o.z 1).toNat, (o.z 3).toNat, inp) else .error (err .badFormat)) := by
  rw [C14_gen_count_guard]
  unfold preCheck
  simp only [hrv, ne_eq, not_true_eq_false, if_false, Bool.false_eq_true]
  by_cases h3 : o.z 3 > nVars ∨ o.z 3 < 0
  · simp [h3]
  · by_cases h1 : o.z 1 > nCons ∨ o.z 1 < 0
    · simp [h3, h1]
    · simp [h3, h1]

/-- the same in the binary format: the generated checks come first, then the record length of the dual vector is read and compared -/
theorem C14_gen_preCheck_bin (fm : Bool) (nVars nCons : Nat) (pol : Policy) (o : Opts) (inp : Bytes) (hrv : pol.optRv = 0) :
    preCheck fm nVars nCons pol true (some o) inp =
      (if count_guard (o.z 3) (o.z 1) nVars nCons = .ret 0 then
        (match readU32 inp with
          | none => .error (err .earlyEof)
          | some (L, r) => if L ≠ recLen (o.z 1).toNat then .error (err .badFormat) else .ok ((o.z 1).toNat, (o.z 3).toNat, r))
       else .error (err .badFormat)) := by
  rw [C14_gen_count_guard]
  unfold preCheck
  simp only [hrv, ne_eq, not_true_eq_false, if_false, if_true]
  by_cases h3 : o.z 3 > nVars ∨ o.z 3 < 0
  · simp [h3]
  · by_cases h1 : o.z 1 > nCons ∨ o.z 1 < 0
    · simp [h3, h1]
    · simp [h3, h1]
      rcases readU32 inp with _ | ⟨L, r⟩ <;> rfl

theorem arith_tI' {r : Int} (h1 : -2147483648 ≤ r) (h2 : r ≤ 2147483647) : arith tI r = .ret r := by
  simp [arith, tI, CTy.lo, CTy.hi, h1, h2]

/-- `sufheadcheck`: generated code (incl. the size computed for `xp.resize`, signed overflow = `ub`) = the model's `sufheadcheck true` -/
theorem C14_gen_sufheadcheck (kind n namelen tablen tablines : Int)
    (hk : -2147483648 ≤ kind ∧ kind ≤ 2147483647) (hn : -2147483648 ≤ n ∧ n ≤ 2147483647)
    (hl : -2147483648 ≤ namelen ∧ namelen ≤ 2147483647) (ht : -2147483648 ≤ tablen ∧ tablen ≤ 2147483647)
    (hs : -2147483648 ≤ tablines ∧ tablines ≤ 2147483647) :
    MpVerif.Gen.SolGuards.sufheadcheck kind n namelen tablen tablines =
      .ret (if MpVerif.C14.sufheadcheck true kind n namelen tablen tablines = .ok then 0 else 1) := by
  unfold MpVerif.Gen.SolGuards.sufheadcheck MpVerif.C14.sufheadcheck
  by_cases c1 : kind < 0 ∨ kind > 15 ∨ n < 0 ∨ namelen < 2 ∨ tablen < 0
  · have : (kind < 0) ∨ (kind > 15) ∨ (n < 0) ∨ (namelen < 2) ∨ (tablen < 0) := c1
    by_cases a : kind < 0 <;> by_cases b : kind > 15 <;> by_cases c : n < 0 <;> by_cases d : namelen < 2 <;> by_cases e : tablen < 0 <;>
      simp [cor, cand, clt, cgt, tobool, a, b, c, d, e, c1] <;> omega
  · have a : ¬ kind < 0 := by omega
    have b : ¬ kind > 15 := by omega
    have c : ¬ n < 0 := by omega
    have d : ¬ namelen < 2 := by omega
    have e : ¬ tablen < 0 := by omega
    by_cases c2 : namelen > 268435455 ∨ tablen > 268435455
    · by_cases f : namelen > 268435455 <;> by_cases g : tablen > 268435455 <;>
        simp [cor, cand, clt, cgt, tobool, a, b, c, d, e, c1, c2, f, g] <;> omega
    · have f : ¬ namelen > 268435455 := by omega
      have g : ¬ tablen > 268435455 := by omega
      have r1 : arith tI (tablen + 1) = .ret (tablen + 1) := arith_tI' (by omega) (by omega)
      have r2 : arith tI (2 * namelen) = .ret (2 * namelen) := arith_tI' (by omega) (by omega)
      have r3 : arith tI (tablen + 2 * namelen) = .ret (tablen + 2 * namelen) := arith_tI' (by omega) (by omega)
      have r4 : arith tI (tablen + 2 * namelen + 6) = .ret (tablen + 2 * namelen + 6) := arith_tI' (by omega) (by omega)
      by_cases t0 : tablen = 0
      · subst t0
        simp [cor, cand, clt, cgt, tobool, a, b, c, d, c1, c2, f, cadd, cmul, r2, arith_tI' (r := 2 * namelen + 6) (by omega) (by omega),
          arith_tI' (r := 0 + 2 * namelen) (by omega) (by omega)]
        omega
      · have m1 : ¬ (tablen ≠ 0 ∧ tablen + 1 > 2147483647) := by omega
        have m3 : ¬ (2 * namelen > 2147483647 ∨ tablen + 2 * namelen > 2147483647 ∨ tablen + 2 * namelen + 6 > 2147483647) := by omega
        by_cases u : tablines > tablen + 1 <;> by_cases v : tablines < 1 <;>
          simp [cor, cand, clt, cgt, tobool, a, b, c, d, e, c1, c2, f, g, t0, cadd, cmul, r1, r2, r3, r4, u, v, m1, m3] <;>
          (try (split <;> simp)) <;> (try omega)

/-- one digit of `Lget`: generated code = the step of the model's `lgetDigits true` -/
theorem C14_gen_lget_step (L c : Int) (hL : 0 ≤ L) (hc : 48 ≤ c ∧ c ≤ 57) :
    lget_step L c = .ret (if L > 214748363 then -1 else 10 * L + (c - 48)) := by
  have c48 : conv tI 48 = 48 := by decide
  by_cases h : L > 214748363
  · simp [lget_step, cgt, h, cneg, arith_tI' (r := -1) (by omega) (by omega)]
  · have r1 : arith tI (10 * L) = .ret (10 * L) := arith_tI' (by omega) (by omega)
    have r2 : arith tI (c - 48) = .ret (c - 48) := arith_tI' (by omega) (by omega)
    have r3 : arith tI (10 * L + (c - 48)) = .ret (10 * L + (c - 48)) := arith_tI' (by omega) (by omega)
    simp [lget_step, cgt, h, cmul, csub, cadd, c48, r1, r2, r3]

theorem C14_gen_lget_step_model (acc c : Nat) (cs : Bytes) (hc : isDigit c = true) :
    lgetDigits true (c :: cs) acc =
      (if lget_step acc c = .ret (-1) then .fail else lgetDigits true cs (10 * acc + (c - 48))) := by
  have hd : 48 ≤ c ∧ c ≤ 57 := by simpa [isDigit] using hc
  rw [C14_gen_lget_step acc c (by omega) (by omega)]
  simp only [lgetDigits, hc, if_true]
  by_cases h : acc > 214748363
  · have : (acc : Int) > 214748363 := by omega
    simp [h, this]
  · have : ¬ (acc : Int) > 214748363 := by omega
    have hne : ¬ (10 * (acc : Int) + ((c : Int) - 48) = -1) := by omega
    simp [h, this, hne]

/-- option count 3..9 and the vbtol flag: both copies of the check (text and binary branch) = the model's `optHeader` -/
theorem C14_gen_opts_header (o0 o2 : Int) (h : -2147483648 ≤ o0 ∧ o0 ≤ 2147483647) :
    opts_header_text o0 o2 = opts_header_bin o0 o2 ∧
    opts_header_text o0 o2 = .ret (match optHeader o0 o2 with
      | none => -1
      | some (nOpts, vb) => 2 * ((nOpts : Int) + 5) + (if vb then 1 else 0)) := by
  unfold optHeader
  by_cases c1 : o0 < 3 ∨ o0 > 9
  · by_cases a : o0 < 3 <;> by_cases b : o0 > 9 <;>
      simp [opts_header_text, opts_header_bin, cor, clt, cgt, tobool, a, b, c1, cneg, arith_tI' (r := -1) (by omega) (by omega)] <;> omega
  · have a : ¬ o0 < 3 := by omega
    have b : ¬ o0 > 9 := by omega
    by_cases v : o2 = 3
    · have e1 : arith tI (o0 - 2) = .ret (o0 - 2) := arith_tI' (by omega) (by omega)
      have e2 : arith tI (o0 - 2 + 5) = .ret (o0 - 2 + 5) := arith_tI' (by omega) (by omega)
      have e3 : arith tI ((o0 - 2 + 5) * 2) = .ret ((o0 - 2 + 5) * 2) := arith_tI' (by omega) (by omega)
      have e4 : arith tI ((o0 - 2 + 5) * 2 + 1) = .ret ((o0 - 2 + 5) * 2 + 1) := arith_tI' (by omega) (by omega)
      simp [opts_header_text, opts_header_bin, cor, clt, cgt, ceq, tobool, a, b, c1, v, csub, cadd, cmul, e1, e2, e3, e4]
      omega
    · have e2 : arith tI (o0 + 5) = .ret (o0 + 5) := arith_tI' (by omega) (by omega)
      have e3 : arith tI ((o0 + 5) * 2) = .ret ((o0 + 5) * 2) := arith_tI' (by omega) (by omega)
      have e4 : arith tI ((o0 + 5) * 2 + 0) = .ret ((o0 + 5) * 2 + 0) := arith_tI' (by omega) (by omega)
      simp [opts_header_text, opts_header_bin, cor, clt, cgt, ceq, tobool, a, b, c1, v, csub, cadd, cmul, e2, e3, e4]
      omega

/-- reader: `SR.h.kind & 4` selects the real-valued suffix reader exactly when the model's `sufKind` says `dpair`
(kinds that pass `sufheadcheck` are 0..15) -/
theorem C14_gen_suffix_is_real : ∀ k : Fin 16,
    suffix_is_real_bin (k.val : Int) = .ret (if sufKind (k.val : Int) = .dpair then 1 else 0) ∧
    suffix_is_real_text (k.val : Int) = .ret (if sufKind (k.val : Int) = .dpair then 1 else 0) := by decide

theorem cband_three (x : Nat) (h : x < 4294967296) : cband (x : Int) 3 = ((x % 4 : Nat) : Int) := by
  unfold cband sx64
  have h1 : ((x : Int) % 18446744073709551616).toNat = x := by omega
  have h2 : ((3 : Int) % 18446744073709551616).toNat = 3 := by decide
  rw [h1, h2]
  have h3 : x &&& 3 = x % 4 := Nat.and_two_pow_sub_one_eq_mod x 2
  rw [h3]
  have : ¬ (x % 4 ≥ 9223372036854775808) := by omega
  simp [this]

/-- binary: `L1 = j * sizeof(real)` in `uiolen` arithmetic = the model's `recLen` (every count is a non-negative `int`) -/
theorem C14_gen_rec_len (j : Nat) (h : j ≤ 2147483647) : rec_len (j : Int) = .ret ((recLen j : Nat) : Int) := by
  simp only [rec_len, cmul, arith, tUL, CTy.wrap, conv, tU, recLen, u32]
  simp
  omega

/-- binary: the test that a record announces an Options block = the model's `isOptsRecord` (`L` is a `uiolen`) -/
theorem C14_gen_is_opts_record (L : Nat) (h : L < 4294967296) :
    is_opts_record (L : Int) = .ret (if isOptsRecord L then 1 else 0) := by
  have k : ∃ m : Nat, m = u32 (L + 4294967296 - 39) := ⟨_, rfl⟩
  obtain ⟨m, hm⟩ := k
  have hlt : m < 4294967296 := by unfold u32 at hm; omega
  have e5 : conv tU (CTy.wrap tUL (conv tUL (L : Int) - CTy.wrap tUL (CTy.wrap tUL (conv tUL 8 * 4) + conv tUL 7))) = (m : Int) := by
    unfold u32 at hm
    simp [conv, CTy.wrap, tUL, tU]; omega
  have cm : conv tUL (m : Int) = (m : Int) := by simp [conv, CTy.wrap, tUL]; omega
  have c24 : CTy.wrap tUL (CTy.wrap tUL (conv tUL 4 * 4) + 8) = 24 := by decide
  have c3 : CTy.wrap tUL (4 - conv tUL 1) = 3 := by decide
  unfold isOptsRecord
  rw [← hm]
  have sU : tUL.signed = false := rfl
  simp only [is_opts_record, cmul, cadd, csub, arith, sU, Bool.false_eq_true, if_false, Outcome.bind_ret]
  rw [e5, cm, c24, c3, cband_three m hlt]
  by_cases h1 : m ≤ 24
  · have h1' : (m : Int) ≤ 24 := by omega
    by_cases h2 : m % 4 = 0
    · simp [cand, cle, cnot, tobool, h1, h1', h2, conv, CTy.wrap, tI]
    · have this' : ¬ ((m : Int) % 4 = 0) := by omega
      simp [cand, cle, cnot, tobool, h1, h1', h2, this', conv, CTy.wrap, tI]
  · have h1' : ¬ (m : Int) ≤ 24 := by omega
    simp [cand, cle, h1, h1', conv, CTy.wrap, tI]

end gen

/-! ## non-vacuity: well-formed files of both formats are read completely -/

/-- `hello\n\nOptions\n3\n0\n1\n0\n1\n1\n2\n2\n0.5\n1\n2\nobjno 0 100\nsuffix 0 1 4 0 0\nfoo\n1 3\n` -/
def okText : Bytes := [104, 101, 108, 108, 111, 10, 10, 79, 112, 116, 105, 111, 110, 115, 10, 51, 10, 48, 10, 49, 10, 48, 10, 49, 10, 49, 10, 50, 10, 50, 10, 48, 46, 53, 10, 49, 10, 50, 10, 111, 98, 106, 110, 111, 32, 48, 32, 49, 48, 48, 10, 115, 117, 102, 102, 105, 120, 32, 48, 32, 49, 32, 52, 32, 48, 32, 48, 10, 102, 111, 111, 10, 49, 32, 51, 10]

example : readSol false false 2 1 readAll okText =
    ⟨.ok, [.msg [104, 101, 108, 108, 111, 10] 0, .options [3, 0, 1, 0, 1, 1, 2, 2] false [],
           .dual false ⟨1, [⟨0, [48, 46, 53]⟩], .ok, 0⟩, .primal false ⟨2, [⟨0, [49]⟩, ⟨0, [50]⟩], .ok, 0⟩,
           .objno false [48] [32, 49, 48, 48], .suffix false 0 4 0 [102, 111, 111] [] ⟨1, [⟨1, [32, 51]⟩], .ok, 0⟩], false⟩ := by
  decide

def okBin : Bytes := [6, 0, 0, 0, 98, 105, 110, 97, 114, 121, 6, 0, 0, 0, 2, 0, 0, 0, 104, 105, 2, 0, 0, 0, 0, 0, 0, 0, 0, 0, 0, 0, 0, 0, 0, 0, 0, 0, 0, 0, 8, 0, 0, 0, 0, 0, 0, 0, 0, 0, 248, 63, 8, 0, 0, 0, 8, 0, 0, 0, 0, 0, 0, 0, 7, 0, 0, 0, 8, 0, 0, 0, 36, 0, 0, 0, 10, 83, 117, 102, 102, 105, 120, 10, 0, 0, 0, 0, 1, 0, 0, 0, 4, 0, 0, 0, 0, 0, 0, 0, 102, 111, 111, 0, 0, 0, 0, 0, 9, 0, 0, 0, 36, 0, 0, 0]

example : readSol false false 1 0 readAll okBin =
    ⟨.ok, [.msg [104, 105, 10] 0, .primal true ⟨1, [⟨0, [0, 0, 0, 0, 0, 0, 248, 63]⟩], .ok, 0⟩,
           .objno true [0, 0, 0, 0] [7, 0, 0, 0], .suffix true 0 4 0 [102, 111, 111] [] ⟨1, [⟨0, [9, 0, 0, 0]⟩], .ok, 0⟩], false⟩ := by
  decide

/-- a truncated vector is *not* reported complete, and the run fails with EarlyEOF -/
example : readSol false false 3 0 readAll [109, 10, 10, 49, 10, 50, 10] =
    ⟨.earlyEof, [.msg [109, 10] 0, .primal false ⟨3, [⟨0, [49]⟩, ⟨0, [50]⟩], .earlyEof, 0⟩], true⟩ := by decide

example : SanePol readAll := ⟨trivial, trivial, trivial⟩
/-- a handler that reads everything / stops silently after 2 values / rejects a suffix after 1 value with Bad_Suffix -/
example : SanePol ⟨0, .whileNz, .some 2, .someErr 1 .badSuffix⟩ := ⟨trivial, trivial, ⟨rfl, by decide⟩⟩

/-- hypotheses of `C14_failure_reported` on a concrete run: the truncated primal vector is the last event, the result is EarlyEOF -/
example : ∃ pre e post v, (readSol true true 3 0 readAll [109, 10, 10, 49, 10, 50, 10]).evs = pre ++ e :: post ∧ e.vec? = some v ∧ ¬ v.complete ∧
    post = [] ∧ (readSol true true 3 0 readAll [109, 10, 10, 49, 10, 50, 10]).code = .earlyEof :=
  ⟨[.msg [109, 10] 0], .primal false ⟨3, [⟨0, [49]⟩, ⟨0, [50]⟩], .earlyEof, 0⟩, [], ⟨3, [⟨0, [49]⟩, ⟨0, [50]⟩], .earlyEof, 0⟩,
    by decide, rfl, by simp [VecOut.complete], rfl, by decide⟩

/-- hypotheses of `C14_hostile_counts_rejected`: an options block stating −1 dual values for a problem with 2 constraints -/
example : (⟨[3, 1, 1, 0, 2, -1, 2, 2], 3, false, []⟩ : Opts).z 1 < 0 ∧ (⟨[3, 1, 1, 0, 2, -1, 2, 2], 3, false, []⟩ : Opts).z 3 ≤ 2 := by
  unfold Opts.z; decide

/-- hypotheses of `C14_options_array_bound_text`: an accepted options block with the maximum of 9 options fills exactly `Options[0..13]` -/
example : ∃ o r, optsText (str "9\n1\n1\n1\n1\n1\n1\n1\n1\n1\n0\n0\n0\n0\nrest") = .ok (o, r) ∧ o.opts.length = 14 ∧ r = str "rest" :=
  ⟨⟨[9, 1, 1, 1, 1, 1, 1, 1, 1, 1, 0, 0, 0, 0], 9, false, []⟩, str "rest", by rfl, rfl, rfl⟩

/-- the generated decisions on concrete arguments (both directions of each guard) -/
example : MpVerif.Gen.SolGuards.sufheadcheck 0 1 4 8 2 = .ret 0 ∧ MpVerif.Gen.SolGuards.sufheadcheck 0 1 4 8 10 = .ret 1 ∧
    MpVerif.Gen.SolGuards.sufheadcheck 16 1 4 0 0 = .ret 1 ∧ MpVerif.Gen.SolGuards.sufheadcheck 0 1 300000000 0 0 = .ret 1 := by decide
example : MpVerif.Gen.SolGuards.count_guard 2 (-1) 2 2 = .ret 3 ∧ MpVerif.Gen.SolGuards.count_guard 2 2 2 2 = .ret 0 ∧
    MpVerif.Gen.SolGuards.lget_step 214748364 57 = .ret (-1) ∧ MpVerif.Gen.SolGuards.lget_step 214748363 57 = .ret 2147483639 := by decide
example : MpVerif.Gen.SolGuards.is_opts_record 39 = .ret 1 ∧ MpVerif.Gen.SolGuards.is_opts_record 40 = .ret 0 ∧
    MpVerif.Gen.SolGuards.is_opts_record 67 = .ret 0 ∧ MpVerif.Gen.SolGuards.rec_len 536870912 = .ret 0 := by decide

end MpVerif.C14

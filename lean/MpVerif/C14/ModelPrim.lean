/-!
# C14 / C05 — primitives of the SOL-file model (core Lean only)

Bytes are `Nat`s (the driver only ever supplies values `< 256`).  A `FILE*`
is the list of bytes that have not been consumed yet.  The C library calls the
reader uses are modelled by the functions below:

* `fgets(buf, size, f)`          ↦ `fgets size inp`
* `fread(p, n, 1, f)`            ↦ `fread n inp`
* the C-string view of a buffer  ↦ `cstr`
* `strtol(s, &se, 10)` + `(int)` ↦ `strtol`, `toInt32`
* `strtod(s, &se)`               ↦ `strtodLen` (how many characters are consumed; the
  *value* is kept as the consumed text, see DESIGN §1 "Numbers": the decimal⇄binary
  conversion is outside the model)
* `Lget` of `sol-reader2.hpp`    ↦ `lget` (with the signed-overflow of `10*L + c - '0'`)
-/
namespace MpVerif.C14

abbrev Bytes := List Nat

/-- documented result codes of `NLW2_SOLReadResultCode` plus the model-only outcomes
(`ub*`: the C++ code performs an out-of-bounds access / reads an indeterminate value /
overflows a signed int; `fuel`: a model loop ran out of fuel, proved unreachable). -/
inductive Code
  | ok | failOpen | earlyEof | badFormat | badLine | badOptions | vecNotFinished | badSuffix
  | ubOob | ubUninit | ubOverflow | fuel
  deriving DecidableEq, Repr, Inhabited

def Code.documented : Code → Bool
  | .ok | .failOpen | .earlyEof | .badFormat | .badLine | .badOptions | .vecNotFinished | .badSuffix => true
  | _ => false

def Code.isUb : Code → Bool
  | .ubOob | .ubUninit | .ubOverflow => true
  | _ => false

def Code.toStr : Code → String
  | .ok => "OK" | .failOpen => "FailOpen" | .earlyEof => "EarlyEOF" | .badFormat => "BadFormat"
  | .badLine => "BadLine" | .badOptions => "BadOptions" | .vecNotFinished => "VecNotFinished"
  | .badSuffix => "BadSuffix" | .ubOob => "UB-oob" | .ubUninit => "UB-uninit"
  | .ubOverflow => "UB-overflow" | .fuel => "FUEL"

/-! ## stdio -/

def fgetsAux : Nat → Bytes → Bytes × Bytes
  | 0, inp => ([], inp)
  | _+1, [] => ([], [])
  | k+1, c :: cs =>
    if c = 10 then ([c], cs) else
      let r := fgetsAux k cs
      (c :: r.1, r.2)

/-- `fgets(buf, size, f)`: `none` is `NULL`; otherwise (characters stored, rest of file).
glibc: `size ≤ 0` gives `NULL`, `size = 1` stores the empty string without reading. -/
def fgets (size : Nat) (inp : Bytes) : Option (Bytes × Bytes) :=
  if size = 0 then none
  else if size = 1 then some ([], inp)
  else match inp with
    | [] => none
    | _ :: _ => some (fgetsAux (size - 1) inp)

/-- `fread(p, n, 1, f)`; a short read returns 0 items (and leaves the stream at EOF) -/
def fread (n : Nat) (inp : Bytes) : Option (Bytes × Bytes) :=
  if inp.length < n then none else some (inp.take n, inp.drop n)

/-- the C string stored at the start of a buffer -/
def cstr (b : Bytes) : Bytes := b.takeWhile (· ≠ 0)

def le32 : Bytes → Nat
  | [a, b, c, d] => a + 256 * (b + 256 * (c + 256 * d))
  | _ => 0

def toInt32 (v : Int) : Int :=
  let m := v % 4294967296
  if m ≥ 2147483648 then m - 4294967296 else m

/-- `fread(&L, sizeof(uiolen), 1, f)` -/
def readU32 (inp : Bytes) : Option (Nat × Bytes) :=
  match fread 4 inp with
  | none => none
  | some (b, r) => some (le32 b, r)

/-- `fread(&x, sizeof(int), 1, f)` -/
def readI32 (inp : Bytes) : Option (Int × Bytes) :=
  match fread 4 inp with
  | none => none
  | some (b, r) => some (toInt32 (le32 b), r)

/-! ## character classes -/

def isSpace (c : Nat) : Bool := c = 32 || (9 ≤ c && c ≤ 13)
def isDigit (c : Nat) : Bool := 48 ≤ c && c ≤ 57
def isHex (c : Nat) : Bool := isDigit c || (65 ≤ c && c ≤ 70) || (97 ≤ c && c ≤ 102)
def isAlnum_ (c : Nat) : Bool := isDigit c || (65 ≤ c && c ≤ 90) || (97 ≤ c && c ≤ 122) || c = 95
def lower (c : Nat) : Nat := if 65 ≤ c && c ≤ 90 then c + 32 else c

def str (s : String) : Bytes := s.toList.map Char.toNat

/-- case-insensitive prefix test against a lower-case pattern -/
def prefixCI : Bytes → Bytes → Bool
  | [], _ => true
  | _ :: _, [] => false
  | p :: ps, c :: cs => lower c = p && prefixCI ps cs

/-! ## strtol (base 10) -/

def digitsVal : Bytes → Nat → Nat × Nat   -- (value, number of digits)
  | [], acc => (acc, 0)
  | c :: cs, acc =>
    if isDigit c then
      let r := digitsVal cs (10 * acc + (c - 48))
      (r.1, r.2 + 1)
    else (acc, 0)

/-- `strtol(s, &se, 10)`: (value saturated to 64-bit `long`, `se - s`) ; 0 consumed = no conversion -/
def strtol (s : Bytes) : Int × Nat :=
  let ws := (s.takeWhile isSpace).length
  let s1 := s.drop ws
  let sg : Nat × Bool := match s1 with
    | c :: _ => if c = 43 then (1, false) else if c = 45 then (1, true) else (0, false)
    | [] => (0, false)
  let r := digitsVal (s1.drop sg.1) 0
  if r.2 = 0 then (0, 0) else
    let v : Int := if sg.2 then
        (if r.1 > 9223372036854775808 then -9223372036854775808 else -(r.1 : Int))
      else (if r.1 > 9223372036854775807 then 9223372036854775807 else (r.1 : Int))
    (v, ws + sg.1 + r.2)

/-! ## strtod: how far it scans (glibc, "C" locale) -/

def countWhile (p : Nat → Bool) : Bytes → Nat
  | [] => 0
  | c :: cs => if p c then countWhile p cs + 1 else 0

/-- optional exponent `[eE][+-]?digits` (marker given lower-case); consumed only with ≥ 1 digit -/
def expLen (marker : Nat) (s : Bytes) : Nat :=
  match s with
  | c :: r =>
    if lower c = marker then
      let sg := match r with
        | d :: _ => if d = 43 || d = 45 then 1 else 0
        | [] => 0
      let n := countWhile isDigit (r.drop sg)
      if n = 0 then 0 else 1 + sg + n
    else 0
  | [] => 0

/-- mantissa `digits[.digits]` with at least one digit overall, then exponent -/
def mantLen (isD : Nat → Bool) (marker : Nat) (s : Bytes) : Nat :=
  let d1 := countWhile isD s
  let r := s.drop d1
  let dot : Bool := match r with | c :: _ => c == 46 | [] => false
  let d2 := if dot then countWhile isD (r.drop 1) else 0
  if d1 + d2 = 0 then 0 else
    let m := d1 + (if dot then 1 + d2 else 0)
    m + expLen marker (s.drop m)

def nanParen (s : Bytes) : Nat :=
  match s with
  | 40 :: r =>
    let k := countWhile isAlnum_ r
    match r.drop k with
    | 41 :: _ => k + 2
    | _ => 0
  | _ => 0

def scanBody (s : Bytes) : Nat :=
  if prefixCI (str "infinity") s then 8
  else if prefixCI (str "inf") s then 3
  else if prefixCI (str "nan") s then 3 + nanParen (s.drop 3)
  else
    let hex := match s with
      | 48 :: x :: r => if lower x = 120 then mantLen isHex 112 r else 0
      | _ => 0
    if hex ≠ 0 then 2 + hex else mantLen isDigit 101 s

/-- `se - s` after `strtod(s, &se)`; 0 = no conversion -/
def strtodLen (s : Bytes) : Nat :=
  let ws := (s.takeWhile isSpace).length
  let s1 := s.drop ws
  let sg := match s1 with
    | c :: _ => if c = 43 || c = 45 then 1 else 0
    | [] => 0
  let b := scanBody (s1.drop sg)
  if b = 0 then 0 else ws + sg + b

/-- `decstring(buf, &val)`: accepted iff something was consumed and the last consumed
character is a digit or `.`; returns the consumed text -/
def decstring (s : Bytes) : Option Bytes :=
  let k := strtodLen s
  if k = 0 then none else
    let c := s.getD (k - 1) 0
    if isDigit c || c = 46 then some (s.take k) else none

/-! ## `Lget` -/

inductive LgetRes
  | fail
  | ub                      -- signed overflow in `10*L + c - '0'`
  | ok (v : Nat) (rest : Bytes)
  deriving DecidableEq, Repr

/-- `fx = true` models the reader with `repo_patches/C14-sol-reader-bounds.diff` applied
(digit accumulation guarded against overflow); `fx = false` is the code as it is. -/
def lgetDigits (fx : Bool) : Bytes → Nat → LgetRes
  | [], acc => .ok acc []
  | c :: cs, acc =>
    if isDigit c then
      if fx then
        (if acc > 214748363 then .fail else lgetDigits fx cs (10 * acc + (c - 48)))
      else
        (if 10 * acc + c > 2147483647 then .ub else lgetDigits fx cs (10 * acc + c - 48))
    else .ok acc (c :: cs)

/-- `Lget(&s, &L)`; the argument is the C string starting at `*sp` -/
def lget (fx : Bool) (s : Bytes) : LgetRes :=
  match s.dropWhile (· = 32) with
  | [] => .fail
  | c :: r =>
    if !isDigit c then .fail else
    match lgetDigits fx r (c - 48) with
    | .fail => .fail
    | .ub => .ub
    | .ok v rest =>
      match rest with
      | [] => .ok v rest
      | d :: r2 =>
        if d = 32 || d = 10 then .ok v rest
        else if d = 13 then
          (match r2 with
           | 10 :: _ => .ok v r2
           | _ => .fail)
        else .fail

end MpVerif.C14

import MpVerif.C14.LemmasInv
/-! # C14 — suffix sections, tails, and the whole reader satisfy the invariant -/
namespace MpVerif.C14

/-! ## `Lget`, `sufheadcheck` -/

theorem lgetDigits_fx (s : Bytes) (acc : Nat) : lgetDigits true s acc ≠ .ub := by
  induction s generalizing acc with
  | nil => simp [lgetDigits]
  | cons c cs ih =>
    unfold lgetDigits
    split
    · simp only [if_true]
      split
      · simp
      · exact ih _
    · simp

@[simp] theorem lget_fx (s : Bytes) : lget true s = .ub ↔ False := by
  constructor
  · intro h
    unfold lget at h
    split at h
    · simp at h
    · split at h
      · simp at h
      · split at h
        · simp at h
        · rename_i hd; exact lgetDigits_fx _ _ hd
        · repeat' split at h
          all_goals simp at h
  · exact False.elim

theorem lget5_err {fx : Bool} {s : Bytes} {c : Code} (h : lget5 fx s = .error c) :
    c = .badLine ∨ (c = .ubOverflow ∧ fx = false) := by
  cases fx
  · unfold lget5 at h
    repeat' split at h
    all_goals simp_all
  · unfold lget5 at h
    repeat' split at h
    all_goals simp_all

theorem sufheadcheck_ok {fx : Bool} {k n nl tl tls : Int} (h : sufheadcheck fx k n nl tl tls = .ok) :
    0 ≤ k ∧ 0 ≤ n ∧ 2 ≤ nl ∧ 0 ≤ tl ∧ (tl ≠ 0 → 1 ≤ tls ∧ tls ≤ tl + 1) := by
  unfold sufheadcheck at h
  repeat' split at h
  all_goals first
    | (simp at h; done)
    | omega

theorem sufheadcheck_fx {k n nl tl tls : Int} : sufheadcheck true k n nl tl tls ≠ .ub := by
  unfold sufheadcheck
  repeat' split
  all_goals first
    | (simp; done)
    | (exfalso; simp at *; omega)

/-! ## buffers -/

theorem writeAt_length (region : Bytes) (off : Nat) (data : Bytes) (h : off + data.length ≤ region.length) :
    (writeAt region off data).length = region.length := by
  simp [writeAt, List.length_append, List.length_take, List.length_drop]; omega

theorem bufStore_length (buf : Buf) (chunk : Bytes) (hb : buf.length = 512) (hc : chunk.length ≤ 510) :
    (bufStore buf chunk).length = 512 := by
  simp [bufStore, List.length_append, List.length_drop]; omega

theorem bufCstr_set_le (buf : Buf) (i : Nat) (h : i < buf.length) :
    (bufCstr (buf.set i (some 0))).length ≤ i := by
  induction buf generalizing i with
  | nil => simp at h
  | cons x xs ih =>
    cases i with
    | zero => simp [bufCstr]
    | succ i =>
      simp only [List.set_cons_succ]
      cases x with
      | none => simp [bufCstr]
      | some c =>
        simp only [bufCstr]
        split
        · simp
        · have := ih i (by simpa using h); simp; omega

theorem getD_store (chunk : Bytes) (rest : Buf) (i : Nat) (hi : i ≤ chunk.length) :
    ∃ v, (chunk.map some ++ some 0 :: rest).getD i none = some v := by
  induction chunk generalizing i with
  | nil =>
    have : i = 0 := by simpa using hi
    subst this; exact ⟨0, by simp⟩
  | cons c cs ih =>
    cases i with
    | zero => exact ⟨c, by simp⟩
    | succ i =>
      have := ih i (by simpa using hi)
      simpa using this

theorem bufRead_store (buf : Buf) (chunk : Bytes) (i : Nat) (hi : i ≤ chunk.length) (hc : chunk.length ≤ 510) :
    ∃ v, bufRead (bufStore buf chunk) i = .ok v := by
  unfold bufRead bufStore
  have h1 : ¬ i ≥ 512 := by omega
  simp only [h1, if_false]
  obtain ⟨v, hv⟩ := getD_store chunk (buf.drop (chunk.length + 1)) i hi
  rw [hv]; exact ⟨v, rfl⟩

theorem nameEnd_err {buf : Buf} {namelen : Nat} {c : Code} (h : nameEnd buf namelen = .error c) :
    c = .ubOob ∨ c = .ubUninit := by
  have hb : ∀ i c, bufRead buf i = .error c → c = .ubOob ∨ c = .ubUninit := by
    intro i c h
    unfold bufRead at h
    split at h
    · simp at h; exact .inl h.symm
    · split at h
      · simp at h; exact .inr h.symm
      · simp at h
  unfold nameEnd at h
  split at h
  · rename_i c' hc; simp at h; subst h; exact hb _ _ hc
  · split at h
    · simp at h
    · split at h
      · simp at h
      · split at h
        · rename_i c' hc; simp at h; subst h; exact hb _ _ hc
        · simp at h

theorem nameEnd_fx (buf : Buf) (chunk : Bytes) (namelen : Nat) (hc : chunk.length ≤ 510)
    (hn : namelen ≤ (cstr chunk).length) (c : Code) : nameEnd (bufStore buf chunk) namelen ≠ .error c := by
  have hl := cstr_length_le chunk
  obtain ⟨v1, h1⟩ := bufRead_store buf chunk (namelen - 1) (by omega) hc
  obtain ⟨v2, h2⟩ := bufRead_store buf chunk namelen (by omega) hc
  unfold nameEnd
  rw [h1]
  dsimp only
  split
  · simp
  · split
    · simp
    · rw [h2]; simp

theorem tabLines_facts (k : Nat) (region : Bytes) (s se : Nat) (inp : Bytes) (hs : s < se) (hlen : region.length = se) :
    (∀ c, tabLines k region s se inp = .error c → c = .earlyEof) ∧
    (∀ region' s' inp', tabLines k region s se inp = .ok (region', s', inp') →
      inp'.length ≤ inp.length ∧ region'.length = se ∧ s' < se) := by
  induction k generalizing region s inp with
  | zero =>
    simp only [tabLines]
    refine ⟨fun c h => by simp at h, fun r s' i h => ?_⟩
    simp at h; obtain ⟨rfl, rfl, rfl⟩ := h; exact ⟨Nat.le_refl _, hlen, hs⟩
  | succ k ih =>
    simp only [tabLines]
    split
    · exact ⟨fun c h => by simp at h; exact h.symm, fun _ _ _ h => by simp at h⟩
    · rename_i chunk rest hg
      have hf := fgets_some hg
      have hcl := cstr_length_le chunk
      have hw : (writeAt region s (chunk ++ [0])).length = se := by
        rw [writeAt_length _ _ _ (by simp; omega)]; exact hlen
      have := ih (writeAt region s (chunk ++ [0])) (s + (cstr chunk).length) rest (by omega) hw
      refine ⟨this.1, fun r s' i h => ?_⟩
      have := this.2 r s' i h
      omega

/-- `gsufBody`: which errors it can raise, and what holds when it succeeds -/
theorem gsufBody_facts {fx : Bool} (buf : Buf) (namelen tablen tablines : Nat) (inp : Bytes)
    (hb : buf.length = 512) (hn : 1 ≤ namelen) :
    (∀ c, gsufBody fx buf namelen tablen tablines inp = .error c →
      c = .badLine ∨ c = .earlyEof ∨ (fx = false ∧ (c = .ubOob ∨ c = .ubUninit))) ∧
    (∀ name table inp' buf', gsufBody fx buf namelen tablen tablines inp = .ok (name, table, inp', buf') →
      inp'.length ≤ inp.length ∧ buf'.length = 512 ∧ name.length + 1 ≤ namelen ∧ table.length ≤ tablen) := by
  unfold gsufBody
  split
  · exact ⟨fun c h => by simp at h; exact .inl h.symm, fun _ _ _ _ h => by simp at h⟩
  · rename_i chunk inp1 hg
    have hf := fgets_some hg
    have hc510 : chunk.length ≤ 510 := by omega
    have hbl := bufStore_length buf chunk hb hc510
    dsimp only
    split
    · exact ⟨fun c h => by simp at h; exact .inl h.symm, fun _ _ _ _ h => by simp at h⟩
    · rename_i hfx
      split
      · rename_i c' hne
        refine ⟨fun c h => ?_, fun _ _ _ _ h => by simp at h⟩
        simp at h; subst h
        cases fx
        · exact .inr (.inr ⟨rfl, nameEnd_err hne⟩)
        · exfalso
          have : namelen ≤ (cstr chunk).length := by
            simp at hfx; omega
          exact nameEnd_fx buf chunk namelen hc510 this _ hne
      · exact ⟨fun c h => by simp at h; exact .inl h.symm, fun _ _ _ _ h => by simp at h⟩
      · rename_i hne
        -- the read of buf[namelen-1] succeeded, so namelen-1 < 512
        have hidx : namelen - 1 < 512 := by
          unfold nameEnd at hne
          split at hne
          · simp at hne
          · rename_i c1 hr
            unfold bufRead at hr
            split at hr
            · simp at hr
            · omega
        have hname : (bufCstr ((bufStore buf chunk).set (namelen - 1) (some 0))).length + 1 ≤ namelen := by
          have := bufCstr_set_le (bufStore buf chunk) (namelen - 1) (by omega)
          omega
        have hset : ((bufStore buf chunk).set (namelen - 1) (some 0)).length = 512 := by
          simp [hbl]
        split
        · refine ⟨fun c h => by simp at h, fun name table inp' buf' h => ?_⟩
          simp at h
          obtain ⟨rfl, rfl, rfl, rfl⟩ := h
          exact ⟨by omega, hset, hname, by simp⟩
        · rename_i htl
          have htab := tabLines_facts (tablines - 1) (List.replicate tablen 0) 0 tablen inp1 (by omega) (by simp)
          split
          · rename_i c' hc
            refine ⟨fun c h => ?_, fun _ _ _ _ h => by simp at h⟩
            simp at h; subst h
            exact .inr (.inl (htab.1 _ hc))
          · rename_i region s inp2 hc
            have ht := htab.2 _ _ _ hc
            split
            · exact ⟨fun c h => by simp at h; exact .inr (.inl h.symm), fun _ _ _ _ h => by simp at h⟩
            · rename_i chunk2 inp3 hg2
              have hf2 := fgets_some hg2
              have hbl2 := bufStore_length ((bufStore buf chunk).set (namelen - 1) (some 0)) chunk2 hset (by omega)
              split
              · exact ⟨fun c h => by simp at h; exact .inl h.symm, fun _ _ _ _ h => by simp at h⟩
              · split
                · exact ⟨fun c h => by simp at h; exact .inl h.symm, fun _ _ _ _ h => by simp at h⟩
                · split
                  · exact ⟨fun c h => by simp at h; exact .inl h.symm, fun _ _ _ _ h => by simp at h⟩
                  · rename_i hL
                    refine ⟨fun c h => by simp at h, fun name table inp' buf' h => ?_⟩
                    simp only [Except.ok.injEq, Prod.mk.injEq] at h
                    obtain ⟨h1, h2, h3, h4⟩ := h
                    subst h1 h3 h4
                    have key : ∀ L', L' ≤ (cstr chunk2).length - 1 →
                        (cstr (if L' = 0 then region else writeAt region s ((cstr chunk2).take L'))).length ≤ tablen := by
                      intro L' hL'
                      refine Nat.le_trans (cstr_length_le _) ?_
                      split
                      · omega
                      · rw [writeAt_length]
                        · omega
                        · simp only [List.length_take]; omega
                    refine ⟨by omega, hbl2, hname, ?_⟩
                    rw [← h2]
                    apply key
                    split <;> omega

end MpVerif.C14

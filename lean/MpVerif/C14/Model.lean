import MpVerif.C14.ModelPrim
/-!
# C14 — model of `SOLReader2<Handler>::ReadSOLFile` (nl-writer2/include/mp/sol-reader2.hpp)

`readSol nVars nCons pol bytes` mirrors the C++ reader statement by statement for both
formats.  The handler is a *policy* (`Policy`): what `OnAMPLOptions` returns and, for every
offered vector, whether the handler reads everything, stops after `k` values silently, or
stops after `k` values and calls `SetError`.

Quirks reproduced on purpose (each is exercised by the correspondence):
* text: after the message, an `O` starts an options block only if `ptions` follows;
  otherwise the line is silently swallowed;
* text: a chunk of a long line that happens to start with `\n` terminates the message;
* text: `objno <x>` without a second number returns OK without delivering anything;
* binary: a partial `fread` of the options block is not detected at once;
* binary: the suffix name is not NUL-terminated by the reader (`std::string(SR.name)` runs
  on into the table);
* `gsufread`: `buf[namelen-1]` with a file-provided `namelen` (out of bounds for
  `namelen > 512`, indeterminate beyond what `fgets` stored), `Lget` overflows `int`;
* `sufheadcheck`: `tablen + 2*namelen + 6` and `tablen + 1` overflow `int`.
-/
namespace MpVerif.C14

/-! ## vectors -/

/-- one successfully read element: index (sparse vectors only) and the value as the text
`strtod` consumed (text format) or the raw bytes (binary format) -/
structure Item where
  idx : Int
  val : Bytes
  deriving DecidableEq, Repr

inductive RdKind | dbl | ipair | dpair
  deriving DecidableEq, Repr

/-- the two `Read(FILE*, binary, v, err)` overloads -/
def readItem (binary : Bool) (k : RdKind) (inp : Bytes) : Except Code Item × Bytes :=
  if binary then
    match k with
    | .dbl =>
      match fread 8 inp with
      | none => (.error .earlyEof, [])
      | some (b, r) => (.ok ⟨0, b⟩, r)
    | .ipair =>
      match readI32 inp with
      | none => (.error .earlyEof, [])
      | some (i, r) =>
        match fread 4 r with
        | none => (.error .earlyEof, [])
        | some (b, r2) => (.ok ⟨i, b⟩, r2)
    | .dpair =>
      match readI32 inp with
      | none => (.error .earlyEof, [])
      | some (i, r) =>
        match fread 8 r with
        | none => (.error .earlyEof, [])
        | some (b, r2) => (.ok ⟨i, b⟩, r2)
  else
    match fgets 511 inp with
    | none => (.error .earlyEof, inp)
    | some (chunk, rest) =>
      let s := cstr chunk
      match k with
      | .dbl =>
        match decstring s with
        | none => (.error .badLine, rest)
        | some t => (.ok ⟨0, t⟩, rest)
      | _ =>
        let r := strtol s
        if r.2 = 0 then (.error .badLine, rest) else
          let s2 := s.drop r.2
          let k2 := strtodLen s2
          if k2 = 0 then (.error .badLine, rest) else (.ok ⟨toInt32 r.1, s2.take k2⟩, rest)

/-- what the handler does with an offered vector -/
inductive VecAct
  | all                             -- `for (i = rd.Size(); i--; ) rd.ReadNext()`: reads `Size()` items (stops when `Size()` reaches 0)
  | whileNz                         -- `while (rd.Size()) rd.ReadNext()` (the default `SOLHandler`); same as `all` for a count ≥ 0,
                                    -- and the reader never offers a negative count (`C14_offer_bound`, counts are `Nat` after `preCheck`)
  | some (k : Nat)                  -- reads `min k n` values, returns without `SetError`
  | someErr (k : Nat) (c : Code)    -- reads `min k n` values, then `SetError(c, …)` if no read error
  deriving DecidableEq, Repr

structure Policy where
  optRv : Int        -- return value of `OnAMPLOptions`
  dual : VecAct
  primal : VecAct
  suf : VecAct
  deriving Repr

/-- state of a `VecReader` when the handler callback returns -/
structure VecOut where
  offered : Nat
  items : List Item
  rr : Code
  remaining : Nat
  deriving DecidableEq, Repr

/-- `want` calls of `ReadNext` (or fewer if `Size()` reaches 0) -/
def vecLoop (binary : Bool) (k : RdKind) : Nat → Nat → Bytes → List Item × Code × Nat × Bytes
  | 0, n, inp => ([], .ok, n, inp)
  | w+1, n, inp =>
    if n = 0 then ([], .ok, 0, inp) else
    match readItem binary k inp with
    | (.ok it, rest) =>
      let r := vecLoop binary k w (n - 1) rest
      (it :: r.1, r.2.1, r.2.2.1, r.2.2.2)
    | (.error c, rest) => ([], c, 0, rest)

def runVec (binary : Bool) (k : RdKind) (act : VecAct) (n : Nat) (inp : Bytes) : VecOut × Bytes :=
  let want := match act with
    | .all => n
    | .whileNz => n
    | .some j => min j n
    | .someErr j _ => min j n
  let r := vecLoop binary k want n inp
  match act with
  | .someErr _ c =>
    if r.2.1 = .ok then (⟨n, r.1, c, 0⟩, r.2.2.2) else (⟨n, r.1, r.2.1, r.2.2.1⟩, r.2.2.2)
  | _ => (⟨n, r.1, r.2.1, r.2.2.1⟩, r.2.2.2)

/-- `CheckReader`: `none` = go on -/
def checkReader (v : VecOut) : Option Code :=
  if v.rr = .earlyEof then some .earlyEof
  else if v.rr = .badLine then some .badLine
  else if v.remaining ≠ 0 then some .badFormat
  else if v.rr ≠ .ok then some v.rr
  else none

/-! ## events and results -/

inductive Event
  | msg (text : Bytes) (nbs : Nat)
  | options (opts : List Int) (hasVbtol : Bool) (vbtol : Bytes)
  | dual (binary : Bool) (v : VecOut)
  | primal (binary : Bool) (v : VecOut)
  | objno (binary : Bool) (objno : Bytes) (code : Bytes)  -- text: strtod tokens; binary: 4 raw bytes each
  /-- ghost (no handler callback): the reader evaluated `(int)strtod(text)` and then stopped without
  delivering it (`objno <x>` with no second number); undefined behaviour if the value is out of range -/
  | cast (text : Bytes)
  /-- `namelen`, `tablen` are the header fields (ghost: not observable by the handler) -/
  | suffix (binary : Bool) (kind : Int) (namelen tablen : Int) (name table : Bytes) (v : VecOut)
  deriving DecidableEq, Repr

structure Result where
  code : Code
  evs : List Event
  hasMsg : Bool      -- whether `serror` was called at least once
  deriving DecidableEq, Repr

def err (c : Code) : Result := ⟨c, [], true⟩
def done : Result := ⟨.ok, [], false⟩
def Result.cons (e : Event) (r : Result) : Result := { r with evs := e :: r.evs }

/-- continue after a vector callback: `CheckReader`, then `k` -/
def afterVec (v : VecOut) (k : Unit → Result) : Result :=
  match checkReader v with
  | some c => err c
  | none => k ()

/-! ## message block -/

/-- text: the C string in `buf` with the first `\r\n` turned into `\n` + NUL -/
def crlfCut : Bytes → Bytes
  | [] => []
  | c :: cs => if c = 13 ∧ cs.head? = some 10 then [10] else c :: crlfCut cs

/-- leading-backspace handling shared by both formats: (text to append, backspaces skipped, new `bs`) -/
def procLine (line : Bytes) (bs : Bool) : Bytes × Nat × Bool :=
  if bs && line.head? = some 8 then
    let k := (line.takeWhile (· = 8)).length
    if k = line.length then ([], k, true) else (line.drop k, k, false)
  else (line, 0, bs)

structure MsgState where
  msg : Bytes
  nbs : Nat
  bs : Bool
  deriving Repr

def msgText : Nat → Bytes → MsgState → Except Code (MsgState × Bytes)
  | 0, _, _ => .error .fuel
  | f+1, inp, st =>
    match fgets 512 inp with
    | none => .error .earlyEof
    | some (chunk, rest) =>
      let line := crlfCut (cstr chunk)
      if line.head? = some 10 then .ok (st, rest)
      else
        let p := procLine line st.bs
        msgText f rest ⟨st.msg ++ p.1, st.nbs + p.2.1, p.2.2⟩

def trimSp (b : Bytes) : Bytes := (b.reverse.dropWhile (· = 32)).reverse

/-- binary: the `do … while(L)` loop over ≤ 512-byte pieces of one record -/
def binChunks : Nat → Nat → Bytes → MsgState → Except Code (MsgState × Bytes)
  | 0, _, _, _ => .error .fuel
  | f+1, L, inp, st =>
    let n := min L 512
    match fread n inp with
    | none => .error .earlyEof
    | some (buf, rest) =>
      let buf' := if L - n = 0 then trimSp buf else buf
      let p := procLine buf' st.bs
      let st' : MsgState := ⟨st.msg ++ p.1, st.nbs + p.2.1, p.2.2⟩
      if L - n = 0 then .ok (st', rest) else binChunks f (L - n) rest st'

def msgBin : Nat → Bytes → MsgState → Except Code (MsgState × Bytes)
  | 0, _, _ => .error .fuel
  | f+1, inp, st =>
    match readU32 inp with
    | none => .error .earlyEof
    | some (L, r1) =>
      match (if L = 0 then Except.ok (st, r1) else binChunks (r1.length + 1) L r1 st) with
      | .error c => .error c
      | .ok (st', r2) =>
        match readU32 r2 with
        | none => .error .earlyEof
        | some (L', r3) =>
          if L' ≠ L then .error .badFormat
          else if L = 0 then .ok (st', r3)
          else msgBin f r3 st'

/-! ## options block -/

structure Opts where
  opts : List Int      -- `Options[0 .. nOpts+4]`
  nOpts : Nat          -- after the vbtol adjustment
  needVbtol : Bool
  vbtol : Bytes
  deriving Repr, DecidableEq

def Opts.z (o : Opts) (i : Nat) : Int := o.opts.getD (o.nOpts + 1 + i) 0

def readIntLine (inp : Bytes) : Except Code (Int × Bytes) :=
  match fgets 512 inp with
  | none => .error .earlyEof
  | some (chunk, rest) =>
    let r := strtol (cstr chunk)
    if r.2 = 0 then .error .badLine else .ok (toInt32 r.1, rest)

def readIntLines : Nat → Bytes → Except Code (List Int × Bytes)
  | 0, inp => .ok ([], inp)
  | k+1, inp =>
    match readIntLine inp with
    | .error c => .error c
    | .ok (v, r) =>
      match readIntLines k r with
      | .error c => .error c
      | .ok (vs, r2) => .ok (v :: vs, r2)

/-- option-count check (3..9) and the vbtol flag (`Options[2] == 3`): `none` = "expected nOpts between 3 and 9",
else (nOpts after the vbtol adjustment, need_vbtol).  Tied to the source by `C14_gen_opts_header`. -/
def optHeader (o0 o2 : Int) : Option (Nat × Bool) :=
  if o0 < 3 ∨ o0 > 9 then none
  else if o2 = 3 then some (o0.toNat - 2, true) else some (o0.toNat, false)

/-- text: after `Options\n` -/
def optsText (inp : Bytes) : Except Code (Opts × Bytes) :=
  match readIntLines 4 inp with
  | .error c => .error c
  | .ok (o4, r) =>
    match optHeader (o4.getD 0 0) (o4.getD 2 0) with
    | none => .error .badFormat
    | some (nOpts, vb) =>
    match readIntLines (nOpts + 1) r with
    | .error c => .error c
    | .ok (more, r2) =>
      if vb then
        match fgets 512 r2 with
        | none => .error .earlyEof
        | some (chunk, r3) =>
          let s := cstr chunk
          let k := strtodLen s
          if k = 0 then .error .badLine else .ok (⟨o4 ++ more, nOpts, true, s.take k⟩, r3)
      else .ok (⟨o4 ++ more, nOpts, false, []⟩, r2)

def i32s : Nat → Bytes → List Int
  | 0, _ => []
  | k+1, b => toInt32 (le32 (b.take 4)) :: i32s k (b.drop 4)

/-- binary: after the record header `L` that looks like an options record -/
def optsBin (L : Nat) (inp : Bytes) : Except Code (Opts × Bytes) :=
  match fread 7 inp with
  | none => .error .earlyEof
  | some (w, r) =>
    if w ≠ str "Options" then .error .badFormat else
    if r.length < 4 then .error .earlyEof else
    if r.length < 16 then
      -- partial `fread(Options, 4, 4, f)`: nOpts is checked, every later read hits EOF
      let n0 := toInt32 (le32 (r.take 4))
      if n0 < 3 ∨ n0 > 9 then .error .badFormat else .error .earlyEof
    else
    let o4 := i32s 4 r
    let r := r.drop 16
    match optHeader (o4.getD 0 0) (o4.getD 2 0) with
    | none => .error .badFormat
    | some (nOpts, vb) =>
    if r.length < 4 then .error .earlyEof else
    if r.length < 4 * (nOpts + 1) then
      -- partial read: stream at EOF; next read fails
      (if vb then .error .earlyEof else .error .badFormat)
    else
    let more := i32s (nOpts + 1) r
    let r := r.drop (4 * (nOpts + 1))
    let vbr : Option (Bytes × Bytes) := if vb then fread 8 r else some ([], r)
    match vbr with
    | none => .error .earlyEof
    | some (vbt, r2) =>
      match readU32 r2 with
      | none => .error .badFormat
      | some (L2, r3) =>
        if L ≠ L2 then .error .badFormat else .ok (⟨o4 ++ more, nOpts, vb, vbt⟩, r3)

/-! ## suffixes

`fx = true` everywhere below models the reader with the proposed patch
`repo_patches/C14-sol-reader-bounds.diff` applied; `fx = false` is the code as it is. -/

inductive HeadCheck | bad | ub | ok
  deriving DecidableEq, Repr

/-- `sufheadcheck` (return value and the signed overflows on the way) -/
def sufheadcheck (fx : Bool) (kind n namelen tablen tablines : Int) : HeadCheck :=
  if kind < 0 ∨ kind > 15 ∨ n < 0 ∨ namelen < 2 ∨ tablen < 0 then .bad
  else if fx = true ∧ (namelen > 268435455 ∨ tablen > 268435455) then .bad
  else if tablen ≠ 0 ∧ tablen + 1 > 2147483647 then .ub
  else if tablen ≠ 0 ∧ (tablines > tablen + 1 ∨ tablines < 1) then .bad
  else if 2 * namelen > 2147483647 ∨ tablen + 2 * namelen > 2147483647
          ∨ tablen + 2 * namelen + 6 > 2147483647 then .ub
  else .ok

def sufKind (kind : Int) : RdKind := if (kind.toNat / 4) % 2 = 1 then .dpair else .ipair

/-- the 512-byte stack buffer of `gsufread`; `none` marks bytes never written -/
abbrev Buf := List (Option Nat)
def bufInit : Buf := List.replicate 512 none
def bufStore (buf : Buf) (chunk : Bytes) : Buf := chunk.map some ++ some 0 :: buf.drop (chunk.length + 1)
def bufRead (buf : Buf) (i : Nat) : Except Code Nat :=
  if i ≥ 512 then .error .ubOob
  else match buf.getD i none with
    | none => .error .ubUninit
    | some v => .ok v
/-- the C string at the start of the buffer -/
def bufCstr : Buf → Bytes
  | [] => []
  | none :: _ => []
  | some c :: r => if c = 0 then [] else c :: bufCstr r

/-- write `data` at offset `off` of `region` (never beyond its end: see `C14_table_region`) -/
def writeAt (region : Bytes) (off : Nat) (data : Bytes) : Bytes :=
  region.take off ++ data ++ region.drop (off + data.length)

/-- the `for (i = 1; i < tablines; i++) fgets(s, se - s, f)` loop; `s` is an offset into the table region -/
def tabLines : Nat → Bytes → Nat → Nat → Bytes → Except Code (Bytes × Nat × Bytes)
  | 0, region, s, _, inp => .ok (region, s, inp)
  | k+1, region, s, se, inp =>
    match fgets (se - s) inp with
    | none => .error .earlyEof
    | some (chunk, rest) =>
      tabLines k (writeAt region s (chunk ++ [0])) (s + (cstr chunk).length) se rest

def lget5 (fx : Bool) (s : Bytes) : Except Code (List Nat) :=
  match lget fx s with
  | .fail => .error .badLine | .ub => .error .ubOverflow
  | .ok a s =>
  match lget fx s with
  | .fail => .error .badLine | .ub => .error .ubOverflow
  | .ok b s =>
  match lget fx s with
  | .fail => .error .badLine | .ub => .error .ubOverflow
  | .ok c s =>
  match lget fx s with
  | .fail => .error .badLine | .ub => .error .ubOverflow
  | .ok d s =>
  match lget fx s with
  | .fail => .error .badLine | .ub => .error .ubOverflow
  | .ok e _ => .ok [a, b, c, d, e]

/-- the `buf[namelen-1]` / `buf[namelen]` tests on the name line -/
def nameEnd (buf : Buf) (namelen : Nat) : Except Code Bool :=
  match bufRead buf (namelen - 1) with
  | .error c => .error c
  | .ok c1 =>
    if c1 = 10 then .ok true
    else if c1 ≠ 13 then .ok false
    else match bufRead buf namelen with
      | .error c => .error c
      | .ok c2 => .ok (c2 = 10)

/-- one suffix of the text format after its header line was parsed and checked:
name line, table; returns (name, table, rest of file, buf) -/
def gsufBody (fx : Bool) (buf : Buf) (namelen tablen tablines : Nat) (inp : Bytes) :
    Except Code (Bytes × Bytes × Bytes × Buf) :=
  match fgets 511 inp with
  | none => .error .badLine
  | some (chunk, inp) =>
    let buf := bufStore buf chunk
    if fx = true ∧ (cstr chunk).length < namelen then .error .badLine else
    match nameEnd buf namelen with
    | .error c => .error c
    | .ok false => .error .badLine
    | .ok true =>
      let buf := buf.set (namelen - 1) (some 0)
      let name := bufCstr buf
      if tablen = 0 then .ok (name, [], inp, buf) else
      match tabLines (tablines - 1) (List.replicate tablen 0) 0 tablen inp with
      | .error c => .error c
      | .ok (region, s, inp) =>
        match fgets 511 inp with
        | none => .error .earlyEof
        | some (chunk, inp) =>
          let buf := bufStore buf chunk
          let l := cstr chunk
          if l.length = 0 then .error .badLine
          else if l.getLast? ≠ some 10 then .error .badLine
          else
            let L := l.length - 1
            if L ≥ tablen - s then .error .badLine
            else
              let L' := if L ≠ 0 ∧ l.getD (L - 1) 0 = 13 then L - 1 else L
              let region := if L' = 0 then region else writeAt region s (l.take L')
              .ok (name, cstr region, inp, buf)

def gsuf (fx : Bool) : Nat → Policy → Buf → Bytes → Result
  | 0, _, _, _ => err .fuel
  | f+1, pol, buf, inp =>
    match fgets 511 inp with
    | none => done
    | some (chunk, inp) =>
      let buf := bufStore buf chunk
      let line := cstr chunk
      if line.take 7 ≠ str "suffix " then err .badLine else
      match lget5 fx (line.drop 7) with
      | .error c => err c
      | .ok h =>
        let kind := h.getD 0 0
        let n := h.getD 1 0
        let namelen := h.getD 2 0
        let tablen := h.getD 3 0
        let tablines := h.getD 4 0
        match sufheadcheck fx kind n namelen tablen tablines with
        | .bad => err .badLine
        | .ub => err .ubOverflow
        | .ok =>
          match gsufBody fx buf namelen tablen tablines inp with
          | .error c => err c
          | .ok (name, table, inp, buf) =>
            let v := runVec false (sufKind kind) pol.suf n inp
            Result.cons (.suffix false kind namelen tablen name table v.1)
              (afterVec v.1 fun _ => gsuf fx f pol buf v.2)

def sufMagic : Bytes := [10, 83, 117, 102, 102, 105, 120, 10]   -- "\nSuffix\n"

def bsuf (fx : Bool) : Nat → Policy → Bytes → Result
  | 0, _, _ => err .fuel
  | f+1, pol, inp =>
    match readU32 inp with
    | none => done
    | some (L, inp) =>
      if L < 24 then err .badSuffix else
      match fread 24 inp with
      | none => err .earlyEof
      | some (h, inp) =>
        let kind := toInt32 (le32 ((h.drop 8).take 4))
        let n := toInt32 (le32 ((h.drop 12).take 4))
        let namelen := toInt32 (le32 ((h.drop 16).take 4))
        let tablen := toInt32 (le32 ((h.drop 20).take 4))
        -- `SR.tablines = SR.h.tablen - 1` (patched: only for tablen > 0)
        if fx = false ∧ tablen = -2147483648 then err .ubOverflow else
        if h.take 8 ≠ sufMagic then err .badSuffix else
        match sufheadcheck fx kind n namelen tablen (tablen - 1) with
        | .bad => err .badSuffix
        | .ub => err .ubOverflow
        | .ok =>
          match fread namelen.toNat inp with
          | none => err .earlyEof
          | some (nameB, inp) =>
            match (if tablen = 0 then some ([], inp) else fread tablen.toNat inp) with
            | none => err .badSuffix
            | some (tabB, inp) =>
              let v := runVec true (sufKind kind) pol.suf n.toNat inp
              Result.cons (.suffix true kind namelen tablen (cstr (nameB ++ tabB)) (cstr tabB) v.1)
                (afterVec v.1 fun _ =>
                  match readU32 v.2 with
                  | none => err .earlyEof
                  | some (L1, inp) => if L ≠ L1 then err .earlyEof else bsuf fx f pol inp)

/-! ## the reader -/

/-- text format after the primal vector -/
def textTail (fx : Bool) (pol : Policy) (inp : Bytes) : Result :=
  match fgets 512 inp with
  | none => done
  | some (chunk, inp) =>
    let s := cstr chunk
    if s.take 6 ≠ str "objno " then err .badLine else
    let s1 := s.drop 6
    let k1 := strtodLen s1
    if k1 = 0 then err .badLine else
    let s2 := s1.drop k1
    let k2 := strtodLen s2
    if k2 = 0 then Result.cons (.cast (s1.take k1)) done else
    Result.cons (.objno false (s1.take k1) (s2.take k2)) (gsuf fx (inp.length + 1) pol bufInit inp)

/-- binary format after the closing record length of the primal vector -/
def binTail (fx : Bool) (pol : Policy) (inp : Bytes) : Result :=
  match readU32 inp with
  | none => done
  | some (L, inp) =>
    if L ≠ 8 ∧ L ≠ 4 then err .badFormat else
    match fread L inp with
    | none => err .badFormat
    | some (ob, inp) =>
      match readU32 inp with
      | none => err .badFormat
      | some (L1, inp) =>
        if L ≠ L1 then err .badFormat else
        -- `Objno[1]` keeps its initial value -2 when only one integer is present
        let code := if L = 8 then ob.drop 4 else [254, 255, 255, 255]
        Result.cons (.objno true (ob.take 4) code)
          (if L = 8 then bsuf fx (inp.length + 1) pol inp else done)

/-- record-length check `fread(&L) && L == L1`, failure = `ReportBadFormat` -/
def expectLen (L1 : Nat) (inp : Bytes) : Option Bytes :=
  match readU32 inp with
  | none => none
  | some (L, r) => if L ≠ L1 then none else some r

def u32 (x : Nat) : Nat := x % 4294967296

/-- binary: record length (`uiolen`) of a vector of `j` reals, `L1 = j * sizeof(real)`; tied to the source by `C14_gen_rec_len` -/
def recLen (j : Nat) : Nat := u32 (j * 8)

/-- binary: does a record of length `L` announce an Options block (`L2 = L - (8*sizeof(Long)+7)` in `uiolen` arithmetic,
`L2 <= 4*sizeof(Long)+sizeof(real) && !(L2 & (sizeof(Long)-1))`); tied to the source by `C14_gen_is_opts_record` -/
def isOptsRecord (L : Nat) : Bool := u32 (L + 4294967296 - 39) ≤ 24 && u32 (L + 4294967296 - 39) % 4 = 0

/-- binary: closing record length of the primal vector, then the objno/suffix tail -/
def afterPrimalBin (fx : Bool) (pol : Policy) (i : Nat) (inp : Bytes) : Result :=
  match expectLen (recLen i) inp with
  | none => err .badFormat
  | some inp => binTail fx pol inp

/-- the primal vector (`i` values offered) and what follows -/
def primalPart (fx : Bool) (pol : Policy) (binary : Bool) (i : Nat) (inp : Bytes) : Result :=
  if binary then
    if i = 0 then afterPrimalBin fx pol i inp else
      let v := runVec true .dbl pol.primal i inp
      Result.cons (.primal true v.1) (afterVec v.1 fun _ => afterPrimalBin fx pol i v.2)
  else
    if i = 0 then textTail fx pol inp else
      let v := runVec false .dbl pol.primal i inp
      Result.cons (.primal false v.1) (afterVec v.1 fun _ => textTail fx pol v.2)

/-- binary: closing length of the dual record and opening length of the primal record -/
def afterDual (fx : Bool) (pol : Policy) (binary : Bool) (j i : Nat) (inp : Bytes) : Result :=
  if binary then
    match expectLen (recLen j) inp with
    | none => err .badFormat
    | some inp =>
      match expectLen (recLen i) inp with
      | none => err .badFormat
      | some inp => primalPart fx pol true i inp
  else primalPart fx pol false i inp

/-- the dual vector (`j` values offered) and what follows -/
def dualPart (fx : Bool) (pol : Policy) (binary : Bool) (j i : Nat) (inp : Bytes) : Result :=
  if j = 0 then afterDual fx pol binary j i inp else
    let v := runVec binary .dbl pol.dual j inp
    Result.cons (.dual binary v.1) (afterVec v.1 fun _ => afterDual fx pol binary j i v.2)

/-- `OnAMPLOptions` verdict and the 'Wrong NumVars/NumAlgCons' checks (`fm = true`: with
repo_patches/C14-badoptions-message.diff the Bad_Options return carries a message):
(j = #duals, i = #primals, rest of input) or the error result -/
def preCheck (fm : Bool) (nVars nCons : Nat) (pol : Policy) (binary : Bool) (o : Option Opts) (inp : Bytes) :
    Except Result (Nat × Nat × Bytes) :=
  match o with
  | none => .ok (nCons, nVars, inp)
  | some o =>
    if pol.optRv ≠ 0 then .error ⟨.badOptions, [], fm⟩ else
    let nv := o.z 3
    let nc := o.z 1
    if nv > nVars ∨ nv < 0 then .error (err .badFormat) else
    if nc > nCons ∨ nc < 0 then .error (err .badFormat) else
    if binary then
      match readU32 inp with
      | none => .error (err .earlyEof)
      | some (L, r) => if L ≠ recLen nc.toNat then .error (err .badFormat) else .ok (nc.toNat, nv.toNat, r)
    else .ok (nc.toNat, nv.toNat, inp)

def optEvent (o : Option Opts) (r : Result) : Result :=
  match o with
  | none => r
  | some o => Result.cons (.options o.opts o.needVbtol o.vbtol) r

/-- everything after the message and options blocks were read -/
def body (fx fm : Bool) (nVars nCons : Nat) (pol : Policy) (binary : Bool) (o : Option Opts) (inp : Bytes) : Result :=
  optEvent o <|
    match preCheck fm nVars nCons pol binary o inp with
    | .error r => r
    | .ok (j, i, inp) => dualPart fx pol binary j i inp

/-- the message as the handler sees it (`solve_msg_.c_str()`), if it is delivered at all -/
def msgEvent (binary : Bool) (st : MsgState) (r : Result) : Result :=
  let m := if st.nbs ≠ 0 then st.msg.dropWhile (· = 8) else st.msg
  if m.length = 0 then r
  else Result.cons (.msg (cstr (if binary then m ++ [10] else m)) st.nbs) r

def skipNl : Bytes → Bytes
  | [] => []
  | c :: cs => if c = 10 ∨ c = 13 then skipNl cs else c :: cs

def readText (fx fm : Bool) (nVars nCons : Nat) (pol : Policy) (inp : Bytes) : Result :=
  match msgText (inp.length + 1) inp ⟨[], 0, true⟩ with
  | .error c => err c
  | .ok (st, inp) =>
    let inp := skipNl inp
    let hdr : Except Code (Option Opts × Bytes) :=
      match inp with
      | 79 :: r =>
        (match fgets 512 r with
         | none => .error .earlyEof
         | some (chunk, r2) =>
           if (cstr chunk).take 6 = str "ptions" then
             (match optsText r2 with
              | .error c => .error c
              | .ok (o, r3) => .ok (some o, r3))
           else .ok (none, r2))
      | _ => .ok (none, inp)
    match hdr with
    | .error c => err c
    | .ok (o, inp) => msgEvent false st (body fx fm nVars nCons pol false o inp)

def readBin (fx fm : Bool) (nVars nCons : Nat) (pol : Policy) (inp : Bytes) : Result :=
  match msgBin (inp.length + 1) inp ⟨[], 0, true⟩ with
  | .error c => err c
  | .ok (st, inp) =>
    match readU32 inp with
    | none => err .earlyEof
    | some (L, inp) =>
      if isOptsRecord L then
        match optsBin L inp with
        | .error c => err c
        | .ok (o, inp) => msgEvent true st (body fx fm nVars nCons pol true (some o) inp)
      else if L ≠ recLen nCons then err .badFormat
      else msgEvent true st (body fx fm nVars nCons pol true none inp)

/-- `mp::ReadSOLFile` on a file with the given contents (the file exists) -/
def readSol (fx fm : Bool) (nVars nCons : Nat) (pol : Policy) (bytes : Bytes) : Result :=
  match readU32 bytes with
  | some (6, r) =>
    (match fread 6 r with
     | none => err .badFormat
     | some (w, r2) =>
       if w ≠ str "binary" then err .badFormat else
       match readU32 r2 with
       | none => err .badFormat
       | some (L, r3) => if L ≠ 6 then err .badFormat else readBin fx fm nVars nCons pol r3)
  | _ => readText fx fm nVars nCons pol bytes

end MpVerif.C14

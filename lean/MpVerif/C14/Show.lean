import MpVerif.C14.Model
/-! Canonical printing / parsing shared by the C14 and C05 line drivers (no model logic). -/
namespace MpVerif.C14.Show
open MpVerif.C14

def hexVal (c : Char) : Option Nat :=
  if '0' ≤ c ∧ c ≤ '9' then some (c.toNat - 48)
  else if 'a' ≤ c ∧ c ≤ 'f' then some (c.toNat - 87)
  else none

def unhexAux : List Char → List Nat → Option (List Nat)
  | [], acc => some acc.reverse
  | [_], _ => none
  | a :: b :: r, acc =>
    match hexVal a, hexVal b with
    | some x, some y => unhexAux r ((16 * x + y) :: acc)
    | _, _ => none

def unhex (s : String) : Option (List Nat) :=
  if s = "-" then some [] else unhexAux s.toList []

def hexDigit (n : Nat) : Char := if n < 10 then Char.ofNat (48 + n) else Char.ofNat (87 + n)
def hex (b : List Nat) : String :=
  if b.isEmpty then "-" else String.ofList (b.foldr (fun x acc => hexDigit (x / 16 % 16) :: hexDigit (x % 16) :: acc) [])

def codeOfNat : Nat → Option Code
  | 0 => some .ok | 1 => some .failOpen | 2 => some .earlyEof | 3 => some .badFormat
  | 4 => some .badLine | 5 => some .badOptions | 6 => some .vecNotFinished | 7 => some .badSuffix
  | _ => none

def parseAct (s : String) : Option VecAct :=
  match s.splitOn ":" with
  | ["all"] => some .all
  | ["while"] => some .whileNz
  | ["some", k] => k.toNat?.map .some
  | ["err", k, c] =>
    match k.toNat?, c.toNat? with
    | some k, some c => (codeOfNat c).map (.someErr k)
    | _, _ => none
  | _ => none

def showItems (binary : Bool) (sparse : Bool) (items : List Item) : String :=
  let tag := if binary then "R" else "T"
  if items.isEmpty then "-" else
  ",".intercalate (items.map fun it =>
    (if sparse then toString it.idx ++ ":" else "") ++ tag ++ hex it.val)

def showVec (binary sparse : Bool) (v : VecOut) : String :=
  s!"{v.offered} {v.rr.toStr} {v.remaining} {showItems binary sparse v.items}"

def showEvent : Event → String
  | .msg t n => s!"msg {hex t} {n}"
  | .options o vb t => s!"opts {",".intercalate (o.map toString)} {if vb then 1 else 0} {hex t}"
  | .dual b v => s!"dual {showVec b false v}"
  | .primal b v => s!"primal {showVec b false v}"
  | .objno b a c => s!"objno {if b then "R" else "T"}{hex a} {if b then "R" else "T"}{hex c}"
  | .suffix b k _ _ name tab v => s!"suf {k} {hex name} {hex tab} {showVec b true v}"
  | .cast t => s!"cast T{hex t}"


def showResult (r : Result) : String :=
  s!"code={r.code.toStr} msg={if r.hasMsg then 1 else 0} | {" ; ".intercalate (r.evs.map showEvent)}"

end MpVerif.C14.Show

import MpVerif.C14.Show
/-! Line driver for C14.  No logic of its own: parses a case line, calls `readSol`,
prints the result canonically.

`case <id> <flags: bit0 = fx, bit1 = fm> <nVars> <nCons> <optRv> <dualAct> <primalAct> <sufAct> <hex bytes | ->`
act ::= `all` | `some:<k>` | `err:<k>:<code number>` -/
open MpVerif.C14 MpVerif.C14.Show

def runCase (w : List String) : String :=
  match w with
  | ["case", id, fx, nv, nc, rv, da, pa, sa, bytes] =>
    match fx.toNat?, nv.toNat?, nc.toNat?, rv.toInt?, parseAct da, parseAct pa, parseAct sa, unhex bytes with
    | some fx, some nv, some nc, some rv, some da, some pa, some sa, some bytes =>
      let r := readSol (fx % 2 != 0) (fx / 2 % 2 != 0) nv nc ⟨rv, da, pa, sa⟩ bytes
      s!"{id} {showResult r}"
    | _, _, _, _, _, _, _, _ => "bad-op"
  | _ => "bad-op"

partial def loop (h : IO.FS.Stream) (out : IO.FS.Stream) : IO Unit := do
  let line ← h.getLine
  if line.isEmpty then return ()
  out.putStrLn (runCase (line.trimAscii.toString.splitOn " "))
  loop h out

def main : IO Unit := do
  let out ← IO.getStdout
  loop (← IO.getStdin) out

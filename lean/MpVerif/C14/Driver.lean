/-! Line driver for C14 (stub; replaced when the model is written). -/
def main : IO Unit := pure ()

import MpVerif.C14.LemmasSuf
/-! # C14 — the suffix loops, the tails and the whole reader satisfy the invariant -/
namespace MpVerif.C14

theorem codeOK_ub_false {c : Code} (h : c ≠ .fuel) : CodeOK false c := ⟨h, by simp⟩

theorem gsuf_inv {fx fm : Bool} {nv nc : Nat} (f : Nat) (pol : Policy) (buf : Buf) (inp : Bytes)
    (hs : SanePol pol) (hf : inp.length < f) (hb : buf.length = 512) :
    RInv fx fm (EvOK nv nc) (gsuf fx f pol buf inp) := by
  induction f generalizing buf inp with
  | zero => omega
  | succ f ih =>
    unfold gsuf
    split
    · exact rinv_done
    · rename_i chunk inp1 hg
      have hfg := fgets_some hg
      have hbl := bufStore_length buf chunk hb (by omega)
      dsimp only
      split
      · exact rinv_err (codeOK_plain (.inr (.inl rfl)))
      · split
        · rename_i c hc
          apply rinv_err
          rcases lget5_err hc with h | ⟨h, hfx⟩
          · subst h; exact codeOK_plain (.inr (.inl rfl))
          · subst h; subst hfx; exact codeOK_ub_false (by simp)
        · rename_i h hh
          split
          · exact rinv_err (codeOK_plain (.inr (.inl rfl)))
          · rename_i hsc
            apply rinv_err
            refine ⟨by simp, ?_⟩
            intro hfx; subst hfx; exact absurd hsc sufheadcheck_fx
          · rename_i hsc
            have hk := sufheadcheck_ok hsc
            have hbody := gsufBody_facts (fx := fx) (bufStore buf chunk) (h.getD 2 0) (h.getD 3 0) (h.getD 4 0) inp1 hbl (by omega)
            split
            · rename_i c hc
              apply rinv_err
              rcases hbody.1 _ hc with h | h | ⟨hfx, h | h⟩
              · subst h; exact codeOK_plain (.inr (.inl rfl))
              · subst h; exact codeOK_plain (.inl rfl)
              · subst h; subst hfx; exact codeOK_ub_false (by simp)
              · subst h; subst hfx; exact codeOK_ub_false (by simp)
            · rename_i name table inp2 buf2 hc
              have hfacts := hbody.2 _ _ _ _ hc
              have hv := runVec_facts false (sufKind ↑(h.getD 0 0)) pol.suf (h.getD 1 0) inp2 hs.suf
              apply rinv_vec (v := (runVec false (sufKind ↑(h.getD 0 0)) pol.suf (h.getD 1 0) inp2).1)
              · refine ⟨hv.2.2, by omega, by omega, by omega, ?_, by simp⟩
                intro _; omega
              · rfl
              · exact hv.2.2
              · intro _
                exact ih _ _ (by omega) hfacts.2.1

theorem bsuf_inv {fx fm : Bool} {nv nc : Nat} (f : Nat) (pol : Policy) (inp : Bytes)
    (hs : SanePol pol) (hf : inp.length < f) :
    RInv fx fm (EvOK nv nc) (bsuf fx f pol inp) := by
  induction f generalizing inp with
  | zero => omega
  | succ f ih =>
    unfold bsuf
    split
    · exact rinv_done
    · rename_i L inp1 h1
      have l1 := readU32_some h1
      split
      · exact rinv_err (codeOK_plain (.inr (.inr (.inr rfl))))
      · split
        · exact rinv_err (codeOK_plain (.inl rfl))
        · rename_i hd inp2 h2
          have l2 := fread_some h2
          dsimp only
          split
          · rename_i hub
            have : fx = false := hub.1
            subst this; exact rinv_err (codeOK_ub_false (by simp))
          · split
            · exact rinv_err (codeOK_plain (.inr (.inr (.inr rfl))))
            · split
              · exact rinv_err (codeOK_plain (.inr (.inr (.inr rfl))))
              · rename_i hsc
                apply rinv_err
                refine ⟨by simp, ?_⟩
                intro hfx; subst hfx; exact absurd hsc sufheadcheck_fx
              · rename_i hsc
                have hk := sufheadcheck_ok hsc
                split
                · exact rinv_err (codeOK_plain (.inl rfl))
                · rename_i nameB inp3 h3
                  have l3 := fread_some h3
                  split
                  · exact rinv_err (codeOK_plain (.inr (.inr (.inr rfl))))
                  · rename_i tabB inp4 h4
                    have l4 : tabB.length ≤ (toInt32 (le32 ((hd.drop 20).take 4))).toNat ∧ inp4.length ≤ inp3.length := by
                      split at h4
                      · simp at h4; obtain ⟨rfl, rfl⟩ := h4; simp
                      · have := fread_some h4; omega
                    have hv := runVec_facts true (sufKind (toInt32 (le32 ((hd.drop 8).take 4)))) pol.suf
                      (toInt32 (le32 ((hd.drop 12).take 4))).toNat inp4 hs.suf
                    apply rinv_vec (v := (runVec true (sufKind (toInt32 (le32 ((hd.drop 8).take 4)))) pol.suf
                      (toInt32 (le32 ((hd.drop 12).take 4))).toNat inp4).1)
                    · have c1 := cstr_length_le (nameB ++ tabB)
                      have c2 := cstr_length_le tabB
                      simp only [List.length_append] at c1
                      refine ⟨hv.2.2, hk.2.2.1, hk.2.2.2.1, by omega, by simp, ?_⟩
                      intro _; omega
                    · rfl
                    · exact hv.2.2
                    · intro _
                      split
                      · exact rinv_err (codeOK_plain (.inl rfl))
                      · rename_i L1 inp5 h5
                        have l5 := readU32_some h5
                        split
                        · exact rinv_err (codeOK_plain (.inl rfl))
                        · exact ih _ (by omega)

theorem textTail_inv {fx fm : Bool} {nv nc : Nat} (pol : Policy) (inp : Bytes) (hs : SanePol pol) :
    RInv fx fm (EvOK nv nc) (textTail fx pol inp) := by
  unfold textTail
  split
  · exact rinv_done
  · dsimp only
    split
    · exact rinv_err (codeOK_plain (.inr (.inl rfl)))
    · split
      · exact rinv_err (codeOK_plain (.inr (.inl rfl)))
      · split
        · exact rinv_cons trivial rfl rinv_done
        · apply rinv_cons
          · trivial
          · rfl
          · exact gsuf_inv _ _ _ _ hs (by omega) (by simp only [bufInit, List.length_replicate])

theorem binTail_inv {fx fm : Bool} {nv nc : Nat} (pol : Policy) (inp : Bytes) (hs : SanePol pol) :
    RInv fx fm (EvOK nv nc) (binTail fx pol inp) := by
  unfold binTail
  split
  · exact rinv_done
  · split
    · exact rinv_err (codeOK_plain (.inr (.inr (.inl rfl))))
    · split
      · exact rinv_err (codeOK_plain (.inr (.inr (.inl rfl))))
      · split
        · exact rinv_err (codeOK_plain (.inr (.inr (.inl rfl))))
        · split
          · exact rinv_err (codeOK_plain (.inr (.inr (.inl rfl))))
          · dsimp only
            apply rinv_cons
            · trivial
            · rfl
            · split
              · exact bsuf_inv _ _ _ hs (by omega)
              · exact rinv_done

/-! ## the options block: how many integers are stored / handed to the handler -/

theorem readIntLines_length {k : Nat} {inp r : Bytes} {vs : List Int} (h : readIntLines k inp = .ok (vs, r)) : vs.length = k := by
  induction k generalizing inp vs r with
  | zero => simp [readIntLines] at h; rw [h.1]; rfl
  | succ k ih =>
    unfold readIntLines at h
    split at h
    · simp at h
    · split at h
      · simp at h
      · rename_i v r1 _ vs' r2 h2
        simp at h
        rw [← h.1]; simp [ih h2]

theorem optHeader_bound {o0 o2 : Int} {n : Nat} {vb : Bool} (h : optHeader o0 o2 = some (n, vb)) : 1 ≤ n ∧ n ≤ 9 := by
  unfold optHeader at h
  split at h
  · simp at h
  · split at h <;> simp at h <;> omega

theorem optsText_bound (inp r : Bytes) (o : Opts) (h : optsText inp = .ok (o, r)) :
    o.opts.length = o.nOpts + 5 ∧ o.nOpts + 5 ≤ 14 ∧ 1 ≤ o.nOpts := by
  unfold optsText at h
  split at h
  · simp at h
  · rename_i o4 r1 h4
    have l4 := readIntLines_length h4
    split at h
    · simp at h
    · rename_i nOpts vb hh
      have hb := optHeader_bound hh
      split at h
      · simp at h
      · rename_i more r2 hm
        have lm := readIntLines_length hm
        by_cases hv : vb = true
        · simp only [hv, if_true] at h
          split at h
          · simp at h
          · split at h
            · simp at h
            · simp at h; obtain ⟨h1, _⟩ := h; subst h1; simp [l4, lm]; omega
        · simp only [hv] at h
          simp at h; obtain ⟨h1, _⟩ := h; subst h1; simp [l4, lm]; omega

theorem i32s_length (k : Nat) (b : Bytes) : (i32s k b).length = k := by
  induction k generalizing b with
  | zero => simp [i32s]
  | succ k ih => simp [i32s, ih]

theorem optsBin_bound (L : Nat) (inp r : Bytes) (o : Opts) (h : optsBin L inp = .ok (o, r)) :
    o.opts.length = o.nOpts + 5 ∧ o.nOpts + 5 ≤ 14 ∧ 1 ≤ o.nOpts := by
  unfold optsBin at h
  split at h
  · simp at h
  · split at h
    · simp at h
    · split at h
      · simp at h
      · split at h
        · dsimp only at h; split at h <;> simp at h
        · dsimp only at h
          split at h
          · simp at h
          · rename_i nOpts vb hh
            have hb := optHeader_bound hh
            repeat' split at h
            all_goals first
              | (simp at h; done)
              | (simp at h; obtain ⟨h1, _⟩ := h; subst h1; simp [i32s_length]; omega)

theorem afterPrimalBin_inv {fx fm : Bool} {nv nc : Nat} (pol : Policy) (i : Nat) (inp : Bytes) (hs : SanePol pol) :
    RInv fx fm (EvOK nv nc) (afterPrimalBin fx pol i inp) := by
  unfold afterPrimalBin
  split
  · exact rinv_err (codeOK_plain (.inr (.inr (.inl rfl))))
  · exact binTail_inv _ _ hs

theorem primalPart_inv {fx fm : Bool} {nv nc : Nat} (pol : Policy) (binary : Bool) (i : Nat) (inp : Bytes)
    (hs : SanePol pol) (hi : i ≤ nv) : RInv fx fm (EvOK nv nc) (primalPart fx pol binary i inp) := by
  unfold primalPart
  split
  · split
    · exact afterPrimalBin_inv _ _ _ hs
    · have hv := runVec_facts true .dbl pol.primal i inp hs.primal
      dsimp only
      apply rinv_vec (v := (runVec true .dbl pol.primal i inp).1)
      · exact ⟨by rw [hv.1]; exact hi, hv.2.2⟩
      · rfl
      · exact hv.2.2
      · intro _; exact afterPrimalBin_inv _ _ _ hs
  · split
    · exact textTail_inv _ _ hs
    · have hv := runVec_facts false .dbl pol.primal i inp hs.primal
      dsimp only
      apply rinv_vec (v := (runVec false .dbl pol.primal i inp).1)
      · exact ⟨by rw [hv.1]; exact hi, hv.2.2⟩
      · rfl
      · exact hv.2.2
      · intro _; exact textTail_inv _ _ hs

theorem afterDual_inv {fx fm : Bool} {nv nc : Nat} (pol : Policy) (binary : Bool) (j i : Nat) (inp : Bytes)
    (hs : SanePol pol) (hi : i ≤ nv) : RInv fx fm (EvOK nv nc) (afterDual fx pol binary j i inp) := by
  unfold afterDual
  split
  · split
    · exact rinv_err (codeOK_plain (.inr (.inr (.inl rfl))))
    · split
      · exact rinv_err (codeOK_plain (.inr (.inr (.inl rfl))))
      · exact primalPart_inv _ _ _ _ hs hi
  · exact primalPart_inv _ _ _ _ hs hi

theorem dualPart_inv {fx fm : Bool} {nv nc : Nat} (pol : Policy) (binary : Bool) (j i : Nat) (inp : Bytes)
    (hs : SanePol pol) (hj : j ≤ nc) (hi : i ≤ nv) : RInv fx fm (EvOK nv nc) (dualPart fx pol binary j i inp) := by
  unfold dualPart
  split
  · exact afterDual_inv _ _ _ _ _ hs hi
  · have hv := runVec_facts binary .dbl pol.dual j inp hs.dual
    dsimp only
    apply rinv_vec (v := (runVec binary .dbl pol.dual j inp).1)
    · exact ⟨by rw [hv.1]; exact hj, hv.2.2⟩
    · rfl
    · exact hv.2.2
    · intro _; exact afterDual_inv _ _ _ _ _ hs hi

theorem preCheck_facts {fx fm : Bool} {P : Event → Prop} (nv nc : Nat) (pol : Policy) (binary : Bool) (o : Option Opts) (inp : Bytes) :
    (∀ r, preCheck fm nv nc pol binary o inp = .error r → RInv fx fm P r) ∧
    (∀ j i inp', preCheck fm nv nc pol binary o inp = .ok (j, i, inp') → j ≤ nc ∧ i ≤ nv) := by
  unfold preCheck
  cases o with
  | none =>
    refine ⟨fun r h => by simp at h, fun j i inp' h => ?_⟩
    simp at h; obtain ⟨rfl, rfl, _⟩ := h; exact ⟨Nat.le_refl _, Nat.le_refl _⟩
  | some o =>
    dsimp only
    split
    · refine ⟨fun r h => ?_, fun _ _ _ h => by simp at h⟩
      simp at h; subst h
      exact ⟨by simp, by simp [Code.isUb], by simp, by simp [EvsInv]⟩
    · split
      · refine ⟨fun r h => ?_, fun _ _ _ h => by simp at h⟩
        simp at h; subst h; exact rinv_err (codeOK_plain (.inr (.inr (.inl rfl))))
      · split
        · refine ⟨fun r h => ?_, fun _ _ _ h => by simp at h⟩
          simp at h; subst h; exact rinv_err (codeOK_plain (.inr (.inr (.inl rfl))))
        · split
          · split
            · refine ⟨fun r h => ?_, fun _ _ _ h => by simp at h⟩
              simp at h; subst h; exact rinv_err (codeOK_plain (.inl rfl))
            · split
              · refine ⟨fun r h => ?_, fun _ _ _ h => by simp at h⟩
                simp at h; subst h; exact rinv_err (codeOK_plain (.inr (.inr (.inl rfl))))
              · refine ⟨fun r h => by simp at h, fun j i inp' h => ?_⟩
                simp at h; obtain ⟨rfl, rfl, _⟩ := h; omega
          · refine ⟨fun r h => by simp at h, fun j i inp' h => ?_⟩
            simp at h; obtain ⟨rfl, rfl, _⟩ := h; omega

theorem body_inv {fx fm : Bool} {nv nc : Nat} (pol : Policy) (binary : Bool) (o : Option Opts) (inp : Bytes)
    (hs : SanePol pol) (ho : ∀ o', o = some o' → 6 ≤ o'.opts.length ∧ o'.opts.length ≤ 14) :
    RInv fx fm (EvOK nv nc) (body fx fm nv nc pol binary o inp) := by
  unfold body
  have hp := preCheck_facts (fx := fx) (fm := fm) (P := EvOK nv nc) nv nc pol binary o inp
  have inner : RInv fx fm (EvOK nv nc) (match preCheck fm nv nc pol binary o inp with
      | .error r => r
      | .ok (j, i, inp) => dualPart fx pol binary j i inp) := by
    split
    · rename_i r h; exact hp.1 r h
    · rename_i j i inp' h
      have := hp.2 j i inp' h
      exact dualPart_inv _ _ _ _ _ hs this.1 this.2
  unfold optEvent
  cases o with
  | none => exact inner
  | some o => exact rinv_cons (ho o rfl) rfl inner

theorem msgEvent_inv {fx fm : Bool} {nv nc : Nat} (binary : Bool) (st : MsgState) (r : Result)
    (h : RInv fx fm (EvOK nv nc) r) : RInv fx fm (EvOK nv nc) (msgEvent binary st r) := by
  unfold msgEvent
  generalize (if st.nbs ≠ 0 then st.msg.dropWhile (· = 8) else st.msg) = m
  dsimp only
  split
  · exact h
  · exact rinv_cons trivial rfl h

theorem readText_inv {fx fm : Bool} {nv nc : Nat} (pol : Policy) (inp : Bytes) (hs : SanePol pol) :
    RInv fx fm (EvOK nv nc) (readText fx fm nv nc pol inp) := by
  unfold readText
  split
  · rename_i c hc; exact rinv_err (msgText_err _ _ _ _ (by omega) hc)
  · dsimp only
    split
    · rename_i c hc
      apply rinv_err
      split at hc
      · split at hc
        · simp at hc; subst hc; exact codeOK_plain (.inl rfl)
        · split at hc
          · split at hc
            · rename_i c' hc'; simp at hc; subst hc; exact optsText_err _ _ hc'
            · simp at hc
          · simp at hc
      · simp at hc
    · rename_i o inp' hc
      refine msgEvent_inv _ _ _ (body_inv _ _ _ _ hs ?_)
      intro o' ho'
      subst ho'
      -- the options come from an accepted `optsText`
      split at hc
      · split at hc
        · simp at hc
        · split at hc
          · split at hc
            · simp at hc
            · rename_i o2 r3 hopt
              simp at hc
              obtain ⟨h1, _⟩ := hc
              subst h1
              have := optsText_bound _ _ _ hopt
              omega
          · simp at hc
      · simp at hc

theorem readBin_inv {fx fm : Bool} {nv nc : Nat} (pol : Policy) (inp : Bytes) (hs : SanePol pol) :
    RInv fx fm (EvOK nv nc) (readBin fx fm nv nc pol inp) := by
  unfold readBin
  split
  · rename_i c hc; exact rinv_err (msgBin_err _ _ _ _ (by omega) hc)
  · split
    · exact rinv_err (codeOK_plain (.inl rfl))
    · split
      · split
        · rename_i c hc; exact rinv_err (optsBin_err _ _ _ hc)
        · rename_i o r3 hopt
          refine msgEvent_inv _ _ _ (body_inv _ _ _ _ hs ?_)
          intro o' ho'
          have : o' = o := by simpa using ho'.symm
          subst this
          have := optsBin_bound _ _ _ _ hopt
          omega
      · split
        · exact rinv_err (codeOK_plain (.inr (.inr (.inl rfl))))
        · exact msgEvent_inv _ _ _ (body_inv _ _ _ _ hs (by intro o' ho'; simp at ho'))

theorem readSol_inv {fx fm : Bool} {nv nc : Nat} (pol : Policy) (bytes : Bytes) (hs : SanePol pol) :
    RInv fx fm (EvOK nv nc) (readSol fx fm nv nc pol bytes) := by
  unfold readSol
  split
  · split
    · exact rinv_err (codeOK_plain (.inr (.inr (.inl rfl))))
    · split
      · exact rinv_err (codeOK_plain (.inr (.inr (.inl rfl))))
      · split
        · exact rinv_err (codeOK_plain (.inr (.inr (.inl rfl))))
        · split
          · exact rinv_err (codeOK_plain (.inr (.inr (.inl rfl))))
          · exact readBin_inv _ _ hs
  · exact readText_inv _ _ hs

end MpVerif.C14

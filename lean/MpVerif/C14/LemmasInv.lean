import MpVerif.C14.Lemmas
/-! # C14 — the result invariant and its preservation by every part of the reader -/
namespace MpVerif.C14

def Event.vec? : Event → Option VecOut
  | .dual _ v => some v
  | .primal _ v => some v
  | .suffix _ _ _ _ _ _ v => some v
  | _ => none

/-- "reported complete": the reader's own status is OK and nothing is left to read -/
def VecOut.complete (v : VecOut) : Prop := v.rr = .ok ∧ v.remaining = 0

/-- what every delivered event satisfies (for declared sizes `nv`, `nc`) -/
def EvOK (nv nc : Nat) : Event → Prop
  | .dual _ v => v.offered ≤ nc ∧ VecOK v
  | .primal _ v => v.offered ≤ nv ∧ VecOK v
  | .suffix b _ namelen tablen name table v =>
      VecOK v ∧ 2 ≤ namelen ∧ 0 ≤ tablen ∧ (table.length : Int) ≤ tablen ∧
      (b = false → (name.length : Int) + 1 ≤ namelen) ∧
      (b = true → (name.length : Int) ≤ namelen + tablen)
  | .options opts _ _ => 6 ≤ opts.length ∧ opts.length ≤ 14     -- what `OnAMPLOptions` receives: `Options[0 .. nOpts+4]`
  | _ => True

/-- every event is `P`-good, and a vector that was not reported complete is the last event
of a run that ended with an error -/
def EvsInv (P : Event → Prop) : List Event → Code → Prop
  | [], _ => True
  | e :: es, c => P e ∧ (∀ v, e.vec? = some v → ¬ v.complete → es = [] ∧ c ≠ .ok) ∧ EvsInv P es c

structure RInv (fx fm : Bool) (P : Event → Prop) (r : Result) : Prop where
  nofuel : r.code ≠ .fuel
  noub : fx = true → r.code.isUb = false
  msg : r.code ≠ .ok → (r.code ≠ .badOptions ∨ fm = true) → r.hasMsg = true
  evs : EvsInv P r.evs r.code

/-- an error code coming out of a sub-parser: not `fuel`, and no UB in the patched reader -/
def CodeOK (fx : Bool) (c : Code) : Prop := c ≠ .fuel ∧ (fx = true → c.isUb = false)

theorem codeOK_plain {fx : Bool} {c : Code} (h : c = .earlyEof ∨ c = .badLine ∨ c = .badFormat ∨ c = .badSuffix) :
    CodeOK fx c := by
  rcases h with h | h | h | h <;> subst h <;> simp [CodeOK, Code.isUb]

theorem rinv_err {fx fm : Bool} {P : Event → Prop} {c : Code} (h : CodeOK fx c) : RInv fx fm P (err c) :=
  ⟨h.1, h.2, by simp [err], by simp [err, EvsInv]⟩

theorem rinv_done {fx fm : Bool} {P : Event → Prop} : RInv fx fm P done :=
  ⟨by simp [done], by simp [done, Code.isUb], by simp [done], by simp [done, EvsInv]⟩

theorem rinv_cons {fx fm : Bool} {P : Event → Prop} {e : Event} {r : Result}
    (he : P e) (hv : e.vec? = none) (hr : RInv fx fm P r) : RInv fx fm P (r.cons e) :=
  ⟨hr.nofuel, hr.noub, hr.msg, by
    simp only [Result.cons, EvsInv]
    exact ⟨he, by simp [hv], hr.evs⟩⟩

theorem checkReader_cases (v : VecOut) (hok : VecOK v) :
    (∃ c, checkReader v = some c ∧ c ≠ .ok ∧ c ≠ .fuel ∧ c.isUb = false) ∨
    (checkReader v = none ∧ v.complete) := by
  have hdoc := hok.rr_doc
  unfold checkReader
  split
  · exact .inl ⟨_, rfl, by simp, by simp, by simp [Code.isUb]⟩
  · split
    · exact .inl ⟨_, rfl, by simp, by simp, by simp [Code.isUb]⟩
    · split
      · exact .inl ⟨_, rfl, by simp, by simp, by simp [Code.isUb]⟩
      · split
        · rename_i h4
          refine .inl ⟨_, rfl, h4, ?_, ?_⟩
          · intro h; rw [h] at hdoc; simp [Code.documented] at hdoc
          · revert hdoc; cases v.rr <;> simp [Code.documented, Code.isUb]
        · rename_i h3 h4
          exact .inr ⟨rfl, by simpa using h4, by simpa using h3⟩

theorem rinv_vec {fx fm : Bool} {P : Event → Prop} {e : Event} {v : VecOut} {k : Unit → Result}
    (he : P e) (hv : e.vec? = some v) (hok : VecOK v)
    (hk : v.complete → RInv fx fm P (k ())) : RInv fx fm P ((afterVec v k).cons e) := by
  unfold afterVec
  rcases checkReader_cases v hok with ⟨c, h, h1, h2, h3⟩ | ⟨h, hc⟩
  · rw [h]
    refine ⟨by simpa [Result.cons, err] using h2, by intro _; simpa [Result.cons, err] using h3, by simp [Result.cons, err], ?_⟩
    simp only [Result.cons, err, EvsInv]
    exact ⟨he, fun _ _ _ => ⟨by simp, h1⟩, trivial⟩
  · rw [h]
    have hr := hk hc
    refine ⟨hr.nofuel, hr.noub, hr.msg, ?_⟩
    simp only [Result.cons, EvsInv]
    refine ⟨he, ?_, hr.evs⟩
    intro v' hv' hn
    rw [hv] at hv'; cases hv'
    exact absurd hc hn

/-! ## message loops -/

theorem msgText_err {fx : Bool} (f : Nat) (inp : Bytes) (st : MsgState) (c : Code)
    (hf : inp.length < f) (h : msgText f inp st = .error c) : CodeOK fx c := by
  induction f generalizing inp st with
  | zero => omega
  | succ f ih =>
    unfold msgText at h
    split at h
    · simp at h; subst h; exact codeOK_plain (.inl rfl)
    · rename_i chunk rest hg
      have := fgets_rest_lt (by omega) hg
      dsimp only at h
      split at h
      · simp at h
      · exact ih rest _ (by omega) h

theorem binChunks_facts {fx : Bool} (f L : Nat) (inp : Bytes) (st : MsgState)
    (hf : inp.length < f) (hL : L ≠ 0) :
    (∀ c, binChunks f L inp st = .error c → CodeOK fx c) ∧
    (∀ st' r, binChunks f L inp st = .ok (st', r) → r.length < inp.length) := by
  induction f generalizing L inp st with
  | zero => omega
  | succ f ih =>
    unfold binChunks
    dsimp only
    split
    · exact ⟨fun c h => by simp at h; subst h; exact codeOK_plain (.inl rfl), fun _ _ h => by simp at h⟩
    · rename_i buf rest hr
      have h1 := fread_some hr
      have hn : 0 < min L 512 := by omega
      split
      · refine ⟨fun c h => by simp at h, fun st' r h => ?_⟩
        simp at h; obtain ⟨_, rfl⟩ := h; omega
      · rename_i hne
        have := ih (L - min L 512) rest ⟨st.msg ++ (procLine buf st.bs).1, st.nbs + (procLine buf st.bs).2.1, (procLine buf st.bs).2.2⟩
          (by omega) hne
        refine ⟨this.1, fun st' r h => ?_⟩
        have := this.2 st' r h
        omega

theorem msgBin_err {fx : Bool} (f : Nat) (inp : Bytes) (st : MsgState) (c : Code)
    (hf : inp.length < f) (h : msgBin f inp st = .error c) : CodeOK fx c := by
  induction f generalizing inp st with
  | zero => omega
  | succ f ih =>
    unfold msgBin at h
    split at h
    · simp at h; subst h; exact codeOK_plain (.inl rfl)
    · rename_i L r1 h1
      have l1 := readU32_some h1
      split at h
      · rename_i c' hc
        simp at h; subst h
        split at hc
        · simp at hc
        · rename_i hL
          exact (binChunks_facts (fx := fx) (r1.length + 1) L r1 st (by omega) hL).1 _ hc
      · rename_i st' r2 hc
        have l2 : r2.length ≤ r1.length := by
          split at hc
          · simp at hc; obtain ⟨_, rfl⟩ := hc; omega
          · rename_i hL
            have := (binChunks_facts (fx := fx) (r1.length + 1) L r1 st (by omega) hL).2 _ _ hc
            omega
        split at h
        · simp at h; subst h; exact codeOK_plain (.inl rfl)
        · rename_i L' r3 h3
          have l3 := readU32_some h3
          split at h
          · simp at h; subst h; exact codeOK_plain (.inr (.inr (.inl rfl)))
          · split at h
            · simp at h
            · exact ih r3 st' (by omega) h

/-! ## options -/

theorem readIntLine_err {fx : Bool} (inp : Bytes) (c : Code) (h : readIntLine inp = .error c) : CodeOK fx c := by
  unfold readIntLine at h
  split at h
  · simp at h; subst h; exact codeOK_plain (.inl rfl)
  · dsimp only at h
    split at h
    · simp at h; subst h; exact codeOK_plain (.inr (.inl rfl))
    · simp at h

theorem readIntLines_err {fx : Bool} (k : Nat) (inp : Bytes) (c : Code) (h : readIntLines k inp = .error c) :
    CodeOK fx c := by
  induction k generalizing inp with
  | zero => simp [readIntLines] at h
  | succ k ih =>
    unfold readIntLines at h
    split at h
    · rename_i c' hc; simp at h; subst h; exact readIntLine_err _ _ hc
    · split at h
      · rename_i c' hc; simp at h; subst h; exact ih _ hc
      · simp at h

theorem optsText_err {fx : Bool} (inp : Bytes) (c : Code) (h : optsText inp = .error c) : CodeOK fx c := by
  unfold optsText at h
  split at h
  · rename_i c' hc; simp at h; subst h; exact readIntLines_err _ _ _ hc
  · dsimp only at h
    split at h
    · simp at h; subst h; exact codeOK_plain (.inr (.inr (.inl rfl)))
    · split at h
      · rename_i c' hc; simp at h; subst h; exact readIntLines_err _ _ _ hc
      · split at h
        · split at h
          · simp at h; subst h; exact codeOK_plain (.inl rfl)
          · split at h
            · simp at h; subst h; exact codeOK_plain (.inr (.inl rfl))
            · simp at h
        · simp at h

theorem optsBin_err {fx : Bool} (L : Nat) (inp : Bytes) (c : Code) (h : optsBin L inp = .error c) : CodeOK fx c := by
  have key : c = .earlyEof ∨ c = .badLine ∨ c = .badFormat ∨ c = .badSuffix := by
    unfold optsBin at h
    dsimp only at h
    repeat' split at h
    all_goals simp_all
  exact codeOK_plain key

end MpVerif.C14

import MpVerif.C14.Model
/-! # C14 — lemmas about the stdio primitives and the vector readers -/
namespace MpVerif.C14

/-! ## stdio -/

theorem fgetsAux_len (k : Nat) (inp : Bytes) :
    (fgetsAux k inp).1.length + (fgetsAux k inp).2.length = inp.length := by
  induction k generalizing inp with
  | zero => simp [fgetsAux]
  | succ k ih =>
    cases inp with
    | nil => simp [fgetsAux]
    | cons c cs =>
      simp only [fgetsAux]
      split
      · simp; omega
      · have := ih cs; simp; omega

theorem fgetsAux_le (k : Nat) (inp : Bytes) : (fgetsAux k inp).1.length ≤ k := by
  induction k generalizing inp with
  | zero => simp [fgetsAux]
  | succ k ih =>
    cases inp with
    | nil => simp [fgetsAux]
    | cons c cs =>
      simp only [fgetsAux]
      split
      · simp
      · have := ih cs; simp; omega

theorem fgetsAux_pos (k : Nat) (c : Nat) (cs : Bytes) : 0 < (fgetsAux (k+1) (c :: cs)).1.length := by
  simp only [fgetsAux]; split <;> simp

theorem fgets_some {sz : Nat} {inp c r : Bytes} (h : fgets sz inp = some (c, r)) :
    c.length + r.length = inp.length ∧ c.length + 1 ≤ sz ∧ (2 ≤ sz → 0 < c.length) := by
  unfold fgets at h
  split at h
  · simp at h
  · split at h
    · simp at h; obtain ⟨h1, h2⟩ := h; subst h1 h2; simp; omega
    · split at h
      · simp at h
      · rename_i x xs
        simp at h
        have h1 : (fgetsAux (sz - 1) (x :: xs)).1 = c := by rw [h]
        have h2 : (fgetsAux (sz - 1) (x :: xs)).2 = r := by rw [h]
        subst h1 h2
        refine ⟨fgetsAux_len _ _, ?_, ?_⟩
        · have := fgetsAux_le (sz - 1) (x :: xs); omega
        · intro h2
          have : sz - 1 = (sz - 2) + 1 := by omega
          rw [this]; exact fgetsAux_pos _ _ _

theorem fgets_rest_le {sz : Nat} {inp c r : Bytes} (h : fgets sz inp = some (c, r)) : r.length ≤ inp.length := by
  have := fgets_some h; omega

theorem fgets_rest_lt {sz : Nat} {inp c r : Bytes} (hs : 2 ≤ sz) (h : fgets sz inp = some (c, r)) :
    r.length < inp.length := by
  have := fgets_some h; have := this.2.2 hs; omega

theorem fread_some {n : Nat} {inp b r : Bytes} (h : fread n inp = some (b, r)) :
    b.length = n ∧ r.length + n = inp.length := by
  unfold fread at h
  split at h
  · simp at h
  · simp at h; obtain ⟨h1, h2⟩ := h; subst h1 h2; simp; omega

theorem readU32_some {inp r : Bytes} {v : Nat} (h : readU32 inp = some (v, r)) : r.length + 4 = inp.length := by
  unfold readU32 at h
  split at h
  · simp at h
  · rename_i b r' hf
    simp at h; obtain ⟨_, rfl⟩ := h
    exact (fread_some hf).2

theorem readI32_some {inp r : Bytes} {v : Int} (h : readI32 inp = some (v, r)) : r.length + 4 = inp.length := by
  unfold readI32 at h
  split at h
  · simp at h
  · rename_i b r' hf
    simp at h; obtain ⟨_, rfl⟩ := h
    exact (fread_some hf).2

theorem cstr_length_le (b : Bytes) : (cstr b).length ≤ b.length := by
  unfold cstr; exact (List.takeWhile_sublist _).length_le

/-! ## vector readers -/

theorem readItem_rest (binary : Bool) (k : RdKind) (inp : Bytes) :
    (readItem binary k inp).2.length ≤ inp.length := by
  unfold readItem
  split
  · split
    · split
      · simp
      · rename_i h; have := fread_some h; simp; omega
    · split
      · simp
      · rename_i h1; have := readI32_some h1
        split
        · simp
        · rename_i h2; have := fread_some h2; simp; omega
    · split
      · simp
      · rename_i h1; have := readI32_some h1
        split
        · simp
        · rename_i h2; have := fread_some h2; simp; omega
  · split
    · simp
    · rename_i h; have := fgets_rest_le h
      dsimp only
      split
      · split <;> simpa
      · split
        · simpa
        · split <;> simpa

theorem readItem_err (binary : Bool) (k : RdKind) (inp : Bytes) (c : Code) (r : Bytes)
    (h : readItem binary k inp = (.error c, r)) : c = .earlyEof ∨ c = .badLine := by
  unfold readItem at h
  dsimp only at h
  repeat' split at h
  all_goals simp_all

/-- facts about `vecLoop`: input only shrinks; status is OK / EarlyEOF / BadLine; with status OK
delivered + remaining = offered; a failed read leaves `Size() = 0` -/
theorem vecLoop_facts (binary : Bool) (k : RdKind) (w n : Nat) (inp : Bytes) :
    let r := vecLoop binary k w n inp
    r.2.2.2.length ≤ inp.length ∧
    (r.2.1 = .ok ∨ r.2.1 = .earlyEof ∨ r.2.1 = .badLine) ∧
    (r.2.1 = .ok → r.1.length + r.2.2.1 = n) ∧
    (r.2.1 ≠ .ok → r.2.2.1 = 0) ∧
    r.1.length ≤ w := by
  induction w generalizing n inp with
  | zero => simp [vecLoop]
  | succ w ih =>
    simp only [vecLoop]
    split
    · simp_all
    · rename_i hn
      split
      · rename_i it rest hr
        have h1 := readItem_rest binary k inp
        rw [hr] at h1
        have := ih (n - 1) rest
        simp only at this h1 ⊢
        obtain ⟨a, b, c, d, e⟩ := this
        refine ⟨by omega, b, ?_, d, by simp; omega⟩
        intro h; have := c h; simp; omega
      · rename_i c rest hr
        have h1 := readItem_rest binary k inp
        rw [hr] at h1
        have := readItem_err binary k inp c rest hr
        simp only at h1 ⊢
        refine ⟨h1, ?_, ?_, by simp, by simp⟩
        · rcases this with h | h <;> simp [h]
        · rcases this with h | h <;> simp [h]

/-- the handler passes a documented error code (not OK) to `SetError` -/
def SaneAct : VecAct → Prop
  | .someErr _ c => c.documented = true ∧ c ≠ .ok
  | _ => True

structure SanePol (pol : Policy) : Prop where
  dual : SaneAct pol.dual
  primal : SaneAct pol.primal
  suf : SaneAct pol.suf

/-- what a handler can rely on when its callback returns -/
structure VecOK (v : VecOut) : Prop where
  ok_count : v.rr = .ok → v.items.length + v.remaining = v.offered
  fail_closed : v.rr ≠ .ok → v.remaining = 0
  rr_doc : v.rr.documented = true

theorem runVec_facts (binary : Bool) (k : RdKind) (act : VecAct) (n : Nat) (inp : Bytes) (hs : SaneAct act) :
    (runVec binary k act n inp).1.offered = n ∧
    (runVec binary k act n inp).2.length ≤ inp.length ∧
    VecOK (runVec binary k act n inp).1 := by
  unfold runVec
  cases act with
  | all =>
    have := vecLoop_facts binary k n n inp
    simp only at this ⊢
    obtain ⟨a, b, c, d, _⟩ := this
    refine ⟨by simp, a, ⟨c, d, ?_⟩⟩
    rcases b with h | h | h <;> simp [h, Code.documented]
  | whileNz =>
    have := vecLoop_facts binary k n n inp
    simp only at this ⊢
    obtain ⟨a, b, c, d, _⟩ := this
    refine ⟨by simp, a, ⟨c, d, ?_⟩⟩
    rcases b with h | h | h <;> simp [h, Code.documented]
  | some j =>
    have := vecLoop_facts binary k (min j n) n inp
    simp only at this ⊢
    obtain ⟨a, b, c, d, _⟩ := this
    refine ⟨by simp, a, ⟨c, d, ?_⟩⟩
    rcases b with h | h | h <;> simp [h, Code.documented]
  | someErr j c =>
    have := vecLoop_facts binary k (min j n) n inp
    simp only at this ⊢
    obtain ⟨a, b, c', d, _⟩ := this
    simp only [SaneAct] at hs
    split
    · refine ⟨by simp, a, ⟨?_, by simp, hs.1⟩⟩
      intro h; exact absurd h hs.2
    · rename_i hne
      refine ⟨by simp, a, ⟨c', d, ?_⟩⟩
      rcases b with h | h | h <;> simp [h, Code.documented]

end MpVerif.C14

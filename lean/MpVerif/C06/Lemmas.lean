import Mathlib.Tactic.Linarith
import Mathlib.Tactic.SplitIfs
import Mathlib.Algebra.Order.Field.Rat
import MpVerif.C06.Sem
/-! Helper lemmas for C06 (interval arithmetic over `ER`).  Proof-only file: not imported by the driver. -/
namespace MpVerif.C06
open ER

theorem narrow_lb (a l : ER) (v : Rat) (ha : lbOK a v) (hl : lbW l v) : lbOK (smax a l) v := by
  cases a <;> cases l <;> simp_all [smax, ER.lt, lbOK, lbW]
  next p q => by_cases h : p < q <;> simp [h, lbOK] <;> linarith

theorem narrow_ub (a u : ER) (v : Rat) (ha : ubOK a v) (hu : ubW u v) : ubOK (smin a u) v := by
  cases a <;> cases u <;> simp_all [smin, ER.lt, ubOK, ubW]
  next p q => by_cases h : q < p <;> simp [h, ubOK] <;> linarith

theorem lbW_of_lbOK {b : ER} {v : Rat} (h : lbOK b v) : lbW b v := Or.inr h
theorem ubW_of_ubOK {b : ER} {v : Rat} (h : ubOK b v) : ubW b v := Or.inr h

theorem add_lbW (a b : ER) (x y : Rat) (ha : lbW a x) (hb : lbW b y) : lbW (add a b) (x + y) := by
  cases a <;> cases b <;> simp [lbW, lbOK, add] at * <;> linarith

theorem add_ubW (a b : ER) (x y : Rat) (ha : ubW a x) (hb : ubW b y) : ubW (add a b) (x + y) := by
  cases a <;> cases b <;> simp [ubW, ubOK, add] at * <;> linarith


theorem isInt_of_ratIsInt {q : Rat} (h : ratIsInt q = true) : IsInt q := by
  refine ⟨q.num, ?_⟩
  have hd : q.den = 1 := by simpa [ratIsInt] using h
  exact (Rat.coe_int_num_of_den_eq_one hd).symm

theorem IsInt.add {x y : Rat} (hx : IsInt x) (hy : IsInt y) : IsInt (x + y) := by
  obtain ⟨a, rfl⟩ := hx; obtain ⟨b, rfl⟩ := hy; exact ⟨a + b, by simp⟩
theorem IsInt.mul {x y : Rat} (hx : IsInt x) (hy : IsInt y) : IsInt (x * y) := by
  obtain ⟨a, rfl⟩ := hx; obtain ⟨b, rfl⟩ := hy; exact ⟨a * b, by simp⟩
theorem IsInt.neg {x : Rat} (hx : IsInt x) : IsInt (-x) := by
  obtain ⟨a, rfl⟩ := hx; exact ⟨-a, by simp⟩
theorem IsInt.zero : IsInt 0 := ⟨0, by simp⟩
theorem IsInt.one : IsInt 1 := ⟨1, by simp⟩
theorem IsInt.natCast (n : Nat) : IsInt (n : Rat) := ⟨n, by simp⟩
theorem IsInt.intCast (n : Int) : IsInt (n : Rat) := ⟨n, rfl⟩

theorem scale_pos_lb (c : Rat) (b : ER) (x : Rat) (hc : 0 ≤ c) (h : lbOK b x) : lbW (mul (fin c) b) (c * x) := by
  cases b with
  | ninf =>
    by_cases h0 : c = 0
    · simp [mul, infTimes, h0, lbW]
    · have : 0 < c := lt_of_le_of_ne hc (Ne.symm h0)
      simp [mul, infTimes, h0, this, lbW, lbOK]
  | fin q => right; simp only [mul, lbOK]; exact mul_le_mul_of_nonneg_left h hc
  | pinf => exact absurd h (by simp [lbOK])
  | nan => exact absurd h (by simp [lbOK])

theorem scale_pos_ub (c : Rat) (b : ER) (x : Rat) (hc : 0 ≤ c) (h : ubOK b x) : ubW (mul (fin c) b) (c * x) := by
  cases b with
  | pinf =>
    by_cases h0 : c = 0
    · simp [mul, infTimes, h0, ubW]
    · have : 0 < c := lt_of_le_of_ne hc (Ne.symm h0)
      simp [mul, infTimes, h0, this, ubW, ubOK]
  | fin q => right; simp only [mul, ubOK]; exact mul_le_mul_of_nonneg_left h hc
  | ninf => exact absurd h (by simp [ubOK])
  | nan => exact absurd h (by simp [ubOK])

theorem scale_neg_lb (c : Rat) (b : ER) (x : Rat) (hc : c < 0) (h : ubOK b x) : lbW (mul (fin c) b) (c * x) := by
  have h0 : c ≠ 0 := ne_of_lt hc
  have hn : ¬ (0 < c) := not_lt.mpr hc.le
  cases b with
  | pinf => simp [mul, infTimes, h0, hn, lbW, lbOK]
  | fin q => right; simp only [mul, lbOK]; exact mul_le_mul_of_nonpos_left h hc.le
  | ninf => exact absurd h (by simp [ubOK])
  | nan => exact absurd h (by simp [ubOK])

theorem scale_neg_ub (c : Rat) (b : ER) (x : Rat) (hc : c < 0) (h : lbOK b x) : ubW (mul (fin c) b) (c * x) := by
  have h0 : c ≠ 0 := ne_of_lt hc
  have hn : ¬ (0 < c) := not_lt.mpr hc.le
  cases b with
  | ninf => simp [mul, infTimes, h0, hn, ubW, ubOK]
  | fin q => right; simp only [mul, ubOK]; exact mul_le_mul_of_nonpos_left h hc.le
  | pinf => exact absurd h (by simp [lbOK])
  | nan => exact absurd h (by simp [lbOK])


theorem boundsLin_cons (e : Env) (t : Rat × Nat) (ts : LinT) :
    boundsLin e (t :: ts) =
      (let r := boundsLin e ts
       let c := t.1; let b := e t.2
       let r' : Pre := if 0 ≤ c then { r with lb := add r.lb (mul (fin c) b.lb), ub := add r.ub (mul (fin c) b.ub) }
                       else { r with lb := add r.lb (mul (fin c) b.ub), ub := add r.ub (mul (fin c) b.lb) }
       { r' with int := r'.int && (b.int && ratIsInt c) }) := by
  simp [boundsLin]

theorem linVal_cons (val : Val) (t : Rat × Nat) (ts : LinT) : linVal val (t :: ts) = t.1 * val t.2 + linVal val ts := by
  simp [linVal]

/-- `ComputeBoundsAndType(LinTerms)` is sound (NaN = no information) -/
theorem boundsLin_sound (e : Env) (val : Val) (h : Feasible e val) (ts : LinT) :
    (boundsLin e ts).ContainsW (linVal val ts) := by
  induction ts with
  | nil => exact ⟨Or.inr (by simp [boundsLin, linVal, lbOK]), Or.inr (by simp [boundsLin, linVal, ubOK]), fun _ => by simpa [linVal] using IsInt.zero⟩
  | cons t ts ih =>
    obtain ⟨hl, hu, hi⟩ := ih
    obtain ⟨bl, bu, bi⟩ := h t.2
    rw [boundsLin_cons, linVal_cons]
    by_cases hc : 0 ≤ t.1
    · refine ⟨?_, ?_, ?_⟩
      · simp only [hc, if_true]; rw [add_comm (t.1 * val t.2)]
        exact add_lbW _ _ _ _ hl (scale_pos_lb _ _ _ hc bl)
      · simp only [hc, if_true]; rw [add_comm (t.1 * val t.2)]
        exact add_ubW _ _ _ _ hu (scale_pos_ub _ _ _ hc bu)
      · intro hint
        simp only [hc, if_true, Bool.and_eq_true] at hint
        exact IsInt.add (IsInt.mul (isInt_of_ratIsInt hint.2.2) (bi hint.2.1)) (hi hint.1)
    · have hc' : t.1 < 0 := not_le.mp hc
      refine ⟨?_, ?_, ?_⟩
      · simp only [hc, if_false]; rw [add_comm (t.1 * val t.2)]
        exact add_lbW _ _ _ _ hl (scale_neg_lb _ _ _ hc' bu)
      · simp only [hc, if_false]; rw [add_comm (t.1 * val t.2)]
        exact add_ubW _ _ _ _ hu (scale_neg_ub _ _ _ hc' bl)
      · intro hint
        simp only [hc, if_false, Bool.and_eq_true] at hint
        exact IsInt.add (IsInt.mul (isInt_of_ratIsInt hint.2.2) (bi hint.2.1)) (hi hint.1)

/-- adding the constant term -/
theorem withConst_sound (r : Pre) (x c0 : Rat) (h : r.ContainsW x) : (withConst r c0).ContainsW (x + c0) := by
  obtain ⟨hl, hu, hi⟩ := h
  refine ⟨add_lbW _ _ _ _ hl (Or.inr (by simp [lbOK])), add_ubW _ _ _ _ hu (Or.inr (by simp [ubOK])), ?_⟩
  intro hint
  simp only [withConst, Bool.and_eq_true] at hint
  exact IsInt.add (hi hint.1) (isInt_of_ratIsInt hint.2)

/-- `narrow_result_bounds` + `set_result_type` on a fresh `PreprocessInfo` -/
theorem fresh_narrow_sound (r : Pre) (x : Rat) (h : r.ContainsW x) :
    (((({} : Pre).narrow r.lb r.ub).setType r.int)).Contains x := by
  obtain ⟨hl, hu, hi⟩ := h
  exact ⟨narrow_lb _ _ _ (by simp [lbOK]) hl, narrow_ub _ _ _ (by simp [ubOK]) hu, hi⟩


/-- `narrow_result_bounds(l, u)` + `set_result_type(t)` on a fresh `PreprocessInfo` -/
theorem fresh_range_sound (l u : ER) (t : Bool) (x : Rat) (hl : lbW l x) (hu : ubW u x) (hi : t = true → IsInt x) :
    ((({} : Pre).narrow l u).setType t).Contains x :=
  ⟨narrow_lb ninf l x (by simp [lbOK]) hl, narrow_ub pinf u x (by simp [ubOK]) hu, hi⟩

/-- the same without a type (CONTINUOUS) -/
theorem fresh_range_sound' (l u : ER) (x : Rat) (hl : lbW l x) (hu : ubW u x) :
    (({} : Pre).narrow l u).Contains x :=
  ⟨narrow_lb ninf l x (by simp [lbOK]) hl, narrow_ub pinf u x (by simp [ubOK]) hu, fun h => by simp [Pre.narrow] at h⟩


/-! ### ProductBounds on finite boxes -/

theorem minElem_fin (p : Rat) (l : List Rat) :
    ∃ m, minElem (fin p) (l.map fin) = fin m ∧ m ≤ p ∧ ∀ q ∈ l, m ≤ q := by
  induction l generalizing p with
  | nil => exact ⟨p, rfl, le_refl _, by simp⟩
  | cons a l ih =>
    simp only [List.map_cons, minElem, List.foldl_cons, ER.lt]
    by_cases h : a < p
    · simp only [h, decide_true, if_true]
      obtain ⟨m, hm, hmp, hml⟩ := ih a
      refine ⟨m, hm, by linarith, ?_⟩
      intro q hq
      rcases List.mem_cons.mp hq with rfl | hq
      · exact hmp
      · exact hml q hq
    · simp only [h, decide_false]
      obtain ⟨m, hm, hmp, hml⟩ := ih p
      refine ⟨m, hm, hmp, ?_⟩
      intro q hq
      rcases List.mem_cons.mp hq with rfl | hq
      · linarith [not_lt.mp h]
      · exact hml q hq

theorem maxElem_fin (p : Rat) (l : List Rat) :
    ∃ m, maxElem (fin p) (l.map fin) = fin m ∧ p ≤ m ∧ ∀ q ∈ l, q ≤ m := by
  induction l generalizing p with
  | nil => exact ⟨p, rfl, le_refl _, by simp⟩
  | cons a l ih =>
    simp only [List.map_cons, maxElem, List.foldl_cons, ER.lt]
    by_cases h : p < a
    · simp only [h, decide_true, if_true]
      obtain ⟨m, hm, hmp, hml⟩ := ih a
      refine ⟨m, hm, by linarith, ?_⟩
      intro q hq
      rcases List.mem_cons.mp hq with rfl | hq
      · exact hmp
      · exact hml q hq
    · simp only [h, decide_false]
      obtain ⟨m, hm, hmp, hml⟩ := ih p
      refine ⟨m, hm, hmp, ?_⟩
      intro q hq
      rcases List.mem_cons.mp hq with rfl | hq
      · linarith [not_lt.mp h]
      · exact hml q hq

/-- some corner is below / above the product -/
theorem corner_le_mul {a b c d x y : Rat} (hax : a ≤ x) (hxb : x ≤ b) (hcy : c ≤ y) (hyd : y ≤ d) (m : Rat)
    (h1 : m ≤ a * c) (h2 : m ≤ a * d) (h3 : m ≤ b * c) (h4 : m ≤ b * d) : m ≤ x * y := by
  rcases le_total 0 y with hy | hy
  · have s1 : a * y ≤ x * y := mul_le_mul_of_nonneg_right hax hy
    rcases le_total 0 a with ha | ha
    · have := mul_le_mul_of_nonneg_left hcy ha; linarith
    · have := mul_le_mul_of_nonpos_left hyd ha; linarith
  · have s1 : b * y ≤ x * y := mul_le_mul_of_nonpos_right hxb hy
    rcases le_total 0 b with hb | hb
    · have := mul_le_mul_of_nonneg_left hcy hb; linarith
    · have := mul_le_mul_of_nonpos_left hyd hb; linarith

theorem mul_le_corner {a b c d x y : Rat} (hax : a ≤ x) (hxb : x ≤ b) (hcy : c ≤ y) (hyd : y ≤ d) (m : Rat)
    (h1 : a * c ≤ m) (h2 : a * d ≤ m) (h3 : b * c ≤ m) (h4 : b * d ≤ m) : x * y ≤ m := by
  rcases le_total 0 y with hy | hy
  · have s1 : x * y ≤ b * y := mul_le_mul_of_nonneg_right hxb hy
    rcases le_total 0 b with hb | hb
    · have := mul_le_mul_of_nonneg_left hyd hb; linarith
    · have := mul_le_mul_of_nonpos_left hcy hb; linarith
  · have s1 : x * y ≤ a * y := mul_le_mul_of_nonpos_right hax hy
    rcases le_total 0 a with ha | ha
    · have := mul_le_mul_of_nonneg_left hyd ha; linarith
    · have := mul_le_mul_of_nonpos_left hcy ha; linarith

theorem sq_le_of_bounds {a b x : Rat} (ha : a ≤ x) (hb : x ≤ b) : x * x ≤ a * a ∨ x * x ≤ b * b := by
  rcases le_total 0 x with h | h
  · right; nlinarith [mul_nonneg (sub_nonneg.2 hb) (by linarith : (0 : Rat) ≤ b + x)]
  · left; nlinarith [mul_nonneg (sub_nonneg.2 ha) (by linarith : (0 : Rat) ≤ -(a + x))]
theorem sq_ge_of_pos {a x : Rat} (h0 : 0 < a) (ha : a ≤ x) : a * a ≤ x * x := by
  nlinarith [mul_nonneg (sub_nonneg.2 ha) (by linarith : (0 : Rat) ≤ x + a)]
theorem sq_ge_of_neg {b x : Rat} (h0 : b < 0) (hb : x ≤ b) : b * b ≤ x * x := by
  nlinarith [mul_nonneg (sub_nonneg.2 hb) (by linarith : (0 : Rat) ≤ -(b + x))]

theorem le_fin (p q : Rat) : le (fin p) (fin q) = decide (p ≤ q) := by
  simp only [le, ER.lt, ER.eq]
  by_cases h : p ≤ q
  · rcases lt_or_eq_of_le h with h1 | h1 <;> simp [h, h1]
  · have h1 : ¬ p < q := fun h' => h h'.le
    have h2 : ¬ p = q := fun h' => h h'.le
    simp [h, h1, h2]

/-- every variable has finite bounds -/
def FinBox (e : Env) : Prop := ∀ v, ∃ p q, (e v).lb = fin p ∧ (e v).ub = fin q

/-- `ProductBounds` is sound on finite boxes (distinct variables: corner products; same variable: the square rule) -/
theorem productBounds_sound (e : Env) (val : Val) (h : Feasible e val) (hf : FinBox e) (x y : Nat) :
    lbW (productBounds e x y).1 (val x * val y) ∧ ubW (productBounds e x y).2 (val x * val y) := by
  obtain ⟨a, b, hla, hub⟩ := hf x
  obtain ⟨c, d, hlc, hud⟩ := hf y
  obtain ⟨hxl, hxu, _⟩ := h x
  obtain ⟨hyl, hyu, _⟩ := h y
  rw [hla] at hxl; rw [hub] at hxu; rw [hlc] at hyl; rw [hud] at hyu
  simp only [lbOK, ubOK] at hxl hxu hyl hyu
  unfold productBounds
  by_cases hxy : x = y
  · subst hxy
    rw [hla] at hlc; rw [hub] at hud
    injection hlc with hac; injection hud with hbd
    subst hac; subst hbd
    simp only [ne_eq, not_true_eq_false, if_false, hla, hub, mul, le_fin]
    constructor
    · right
      by_cases hz : a ≤ 0 ∧ 0 ≤ b
      · have : (decide (a ≤ 0) && decide (0 ≤ b)) = true := by simp [hz.1, hz.2]
        simp only [this, if_true, lbOK]; exact mul_self_nonneg _
      · have : (decide (a ≤ 0) && decide (0 ≤ b)) = false := by
          rw [Bool.and_eq_false_iff]; rw [not_and_or] at hz
          rcases hz with h1 | h1
          · left; simp [h1]
          · right; simp [h1]
        have hz' : 0 < a ∨ b < 0 := by
          rw [not_and_or] at hz; rcases hz with h1 | h1
          · left; exact not_le.mp h1
          · right; exact not_le.mp h1
        simp only [this, smin, ER.lt]
        by_cases hc : b * b < a * a
        · simp only [hc, decide_true, if_true, lbOK]
          rcases hz' with h0 | h0
          · have := sq_ge_of_pos h0 hxl; exact le_trans hc.le this
          · exact sq_ge_of_neg h0 hxu
        · simp only [hc, decide_false, lbOK]
          have : (false = true) = False := by simp
          simp only [this, if_false]
          rcases hz' with h0 | h0
          · exact sq_ge_of_pos h0 hxl
          · have := sq_ge_of_neg h0 hxu; linarith [not_lt.mp hc]
    · right
      simp only [smax, ER.lt]
      by_cases hc : a * a < b * b
      · simp only [hc, decide_true, if_true, ubOK]
        rcases sq_le_of_bounds hxl hxu with h1 | h1 <;> linarith
      · simp only [hc, decide_false, ubOK]
        have : (false = true) = False := by simp
        simp only [this, if_false]
        rcases sq_le_of_bounds hxl hxu with h1 | h1 <;> linarith [not_lt.mp hc]
  · simp only [ne_eq, hxy, not_false_eq_true, if_true, hla, hub, hlc, hud, mul]
    obtain ⟨m, hm, hm1, hml⟩ := minElem_fin (a * c) [a * d, b * c, b * d]
    obtain ⟨M, hM, hM1, hMl⟩ := maxElem_fin (a * c) [a * d, b * c, b * d]
    simp only [List.map_cons, List.map_nil] at hm hM
    rw [hm, hM]
    exact ⟨Or.inr (corner_le_mul hxl hxu hyl hyu m hm1 (hml _ (by simp)) (hml _ (by simp)) (hml _ (by simp))),
           Or.inr (mul_le_corner hxl hxu hyl hyu M hM1 (hMl _ (by simp)) (hMl _ (by simp)) (hMl _ (by simp)))⟩


theorem mul_fin_nan (c : Rat) : mul (fin c) nan = nan := rfl

theorem scaleW_pos_lb (c : Rat) (b : ER) (x : Rat) (hc : 0 ≤ c) (h : lbW b x) : lbW (mul (fin c) b) (c * x) := by
  rcases h with rfl | h
  · left; rfl
  · exact scale_pos_lb c b x hc h
theorem scaleW_pos_ub (c : Rat) (b : ER) (x : Rat) (hc : 0 ≤ c) (h : ubW b x) : ubW (mul (fin c) b) (c * x) := by
  rcases h with rfl | h
  · left; rfl
  · exact scale_pos_ub c b x hc h
theorem scaleW_neg_lb (c : Rat) (b : ER) (x : Rat) (hc : c < 0) (h : ubW b x) : lbW (mul (fin c) b) (c * x) := by
  rcases h with rfl | h
  · left; rfl
  · exact scale_neg_lb c b x hc h
theorem scaleW_neg_ub (c : Rat) (b : ER) (x : Rat) (hc : c < 0) (h : lbW b x) : ubW (mul (fin c) b) (c * x) := by
  rcases h with rfl | h
  · left; rfl
  · exact scale_neg_ub c b x hc h

theorem boundsQuadT_cons (e : Env) (t : Rat × Nat × Nat) (qs : QuadT) :
    boundsQuadT e (t :: qs) =
      (let r := boundsQuadT e qs
       let c := t.1; let v1 := t.2.1; let v2 := t.2.2
       let pb := productBounds e v1 v2
       let r' : Pre := if 0 ≤ c then { r with lb := add r.lb (mul (fin c) pb.1), ub := add r.ub (mul (fin c) pb.2) }
                       else { r with lb := add r.lb (mul (fin c) pb.2), ub := add r.ub (mul (fin c) pb.1) }
       { r' with int := r'.int && ((e v1).int && (e v2).int && ratIsInt c) }) := by
  simp [boundsQuadT]

theorem quadVal_cons (val : Val) (t : Rat × Nat × Nat) (qs : QuadT) :
    quadVal val (t :: qs) = t.1 * (val t.2.1 * val t.2.2) + quadVal val qs := by
  simp [quadVal]

/-- `ComputeBoundsAndType(QuadTerms)` is sound, given that `ProductBounds` is (hypothesis `hpb`) -/
theorem boundsQuadT_sound (e : Env) (val : Val) (h : Feasible e val)
    (hpb : ∀ x y, lbW (productBounds e x y).1 (val x * val y) ∧ ubW (productBounds e x y).2 (val x * val y))
    (qs : QuadT) : (boundsQuadT e qs).ContainsW (quadVal val qs) := by
  induction qs with
  | nil => exact ⟨Or.inr (by simp [boundsQuadT, quadVal, lbOK]), Or.inr (by simp [boundsQuadT, quadVal, ubOK]),
                  fun _ => by simpa [quadVal] using IsInt.zero⟩
  | cons t qs ih =>
    obtain ⟨hl, hu, hi⟩ := ih
    obtain ⟨pl, pu⟩ := hpb t.2.1 t.2.2
    obtain ⟨_, _, i1⟩ := h t.2.1
    obtain ⟨_, _, i2⟩ := h t.2.2
    rw [boundsQuadT_cons, quadVal_cons]
    by_cases hc : 0 ≤ t.1
    · refine ⟨?_, ?_, ?_⟩
      · simp only [hc, if_true]; rw [add_comm (t.1 * _)]
        exact add_lbW _ _ _ _ hl (scaleW_pos_lb _ _ _ hc pl)
      · simp only [hc, if_true]; rw [add_comm (t.1 * _)]
        exact add_ubW _ _ _ _ hu (scaleW_pos_ub _ _ _ hc pu)
      · intro hint
        simp only [hc, if_true, Bool.and_eq_true] at hint
        exact IsInt.add (IsInt.mul (isInt_of_ratIsInt hint.2.2) (IsInt.mul (i1 hint.2.1.1) (i2 hint.2.1.2))) (hi hint.1)
    · have hc' : t.1 < 0 := not_le.mp hc
      refine ⟨?_, ?_, ?_⟩
      · simp only [hc, if_false]; rw [add_comm (t.1 * _)]
        exact add_lbW _ _ _ _ hl (scaleW_neg_lb _ _ _ hc' pu)
      · simp only [hc, if_false]; rw [add_comm (t.1 * _)]
        exact add_ubW _ _ _ _ hu (scaleW_neg_ub _ _ _ hc' pl)
      · intro hint
        simp only [hc, if_false, Bool.and_eq_true] at hint
        exact IsInt.add (IsInt.mul (isInt_of_ratIsInt hint.2.2) (IsInt.mul (i1 hint.2.1.1) (i2 hint.2.1.2))) (hi hint.1)

theorem addBounds_sound (a b : Pre) (x y : Rat) (ha : a.ContainsW x) (hb : b.ContainsW y) :
    (addBounds a b).ContainsW (x + y) := by
  obtain ⟨al, au, ai⟩ := ha
  obtain ⟨bl, bu, bi⟩ := hb
  refine ⟨add_lbW _ _ _ _ al bl, add_ubW _ _ _ _ au bu, ?_⟩
  intro hint
  simp only [addBounds, Bool.and_eq_true] at hint
  exact IsInt.add (ai hint.1) (bi hint.2)

end MpVerif.C06

import Mathlib.Tactic.Linarith
import Mathlib.Tactic.SplitIfs
import Mathlib.Algebra.Order.Field.Rat
import MpVerif.C06.Sem
/-! Helper lemmas for C06 (interval arithmetic over `ER`).  Proof-only file: not imported by the driver. -/
namespace MpVerif.C06
open ER

theorem narrow_lb (a l : ER) (v : Rat) (ha : lbOK a v) (hl : lbW l v) : lbOK (smax a l) v := by
  cases a <;> cases l <;> simp_all [smax, ER.lt, lbOK, lbW]
  next p q => by_cases h : p < q <;> simp [h, lbOK] <;> linarith

theorem narrow_ub (a u : ER) (v : Rat) (ha : ubOK a v) (hu : ubW u v) : ubOK (smin a u) v := by
  cases a <;> cases u <;> simp_all [smin, ER.lt, ubOK, ubW]
  next p q => by_cases h : q < p <;> simp [h, ubOK] <;> linarith

theorem lbW_of_lbOK {b : ER} {v : Rat} (h : lbOK b v) : lbW b v := Or.inr h
theorem ubW_of_ubOK {b : ER} {v : Rat} (h : ubOK b v) : ubW b v := Or.inr h

theorem add_lbW (a b : ER) (x y : Rat) (ha : lbW a x) (hb : lbW b y) : lbW (add a b) (x + y) := by
  cases a <;> cases b <;> simp [lbW, lbOK, add] at * <;> linarith

theorem add_ubW (a b : ER) (x y : Rat) (ha : ubW a x) (hb : ubW b y) : ubW (add a b) (x + y) := by
  cases a <;> cases b <;> simp [ubW, ubOK, add] at * <;> linarith


theorem isInt_of_ratIsInt {q : Rat} (h : ratIsInt q = true) : IsInt q := by
  refine ⟨q.num, ?_⟩
  have hd : q.den = 1 := by simpa [ratIsInt] using h
  exact (Rat.coe_int_num_of_den_eq_one hd).symm

theorem IsInt.add {x y : Rat} (hx : IsInt x) (hy : IsInt y) : IsInt (x + y) := by
  obtain ⟨a, rfl⟩ := hx; obtain ⟨b, rfl⟩ := hy; exact ⟨a + b, by simp⟩
theorem IsInt.mul {x y : Rat} (hx : IsInt x) (hy : IsInt y) : IsInt (x * y) := by
  obtain ⟨a, rfl⟩ := hx; obtain ⟨b, rfl⟩ := hy; exact ⟨a * b, by simp⟩
theorem IsInt.neg {x : Rat} (hx : IsInt x) : IsInt (-x) := by
  obtain ⟨a, rfl⟩ := hx; exact ⟨-a, by simp⟩
theorem IsInt.zero : IsInt 0 := ⟨0, by simp⟩
theorem IsInt.one : IsInt 1 := ⟨1, by simp⟩
theorem IsInt.natCast (n : Nat) : IsInt (n : Rat) := ⟨n, by simp⟩
theorem IsInt.intCast (n : Int) : IsInt (n : Rat) := ⟨n, rfl⟩

theorem scale_pos_lb (c : Rat) (b : ER) (x : Rat) (hc : 0 ≤ c) (h : lbOK b x) : lbW (mul (fin c) b) (c * x) := by
  cases b with
  | ninf =>
    by_cases h0 : c = 0
    · simp [mul, infTimes, h0, lbW]
    · have : 0 < c := lt_of_le_of_ne hc (Ne.symm h0)
      simp [mul, infTimes, h0, this, lbW, lbOK]
  | fin q => right; simp only [mul, lbOK]; exact mul_le_mul_of_nonneg_left h hc
  | pinf => exact absurd h (by simp [lbOK])
  | nan => exact absurd h (by simp [lbOK])

theorem scale_pos_ub (c : Rat) (b : ER) (x : Rat) (hc : 0 ≤ c) (h : ubOK b x) : ubW (mul (fin c) b) (c * x) := by
  cases b with
  | pinf =>
    by_cases h0 : c = 0
    · simp [mul, infTimes, h0, ubW]
    · have : 0 < c := lt_of_le_of_ne hc (Ne.symm h0)
      simp [mul, infTimes, h0, this, ubW, ubOK]
  | fin q => right; simp only [mul, ubOK]; exact mul_le_mul_of_nonneg_left h hc
  | ninf => exact absurd h (by simp [ubOK])
  | nan => exact absurd h (by simp [ubOK])

theorem scale_neg_lb (c : Rat) (b : ER) (x : Rat) (hc : c < 0) (h : ubOK b x) : lbW (mul (fin c) b) (c * x) := by
  have h0 : c ≠ 0 := ne_of_lt hc
  have hn : ¬ (0 < c) := not_lt.mpr hc.le
  cases b with
  | pinf => simp [mul, infTimes, h0, hn, lbW, lbOK]
  | fin q => right; simp only [mul, lbOK]; exact mul_le_mul_of_nonpos_left h hc.le
  | ninf => exact absurd h (by simp [ubOK])
  | nan => exact absurd h (by simp [ubOK])

theorem scale_neg_ub (c : Rat) (b : ER) (x : Rat) (hc : c < 0) (h : lbOK b x) : ubW (mul (fin c) b) (c * x) := by
  have h0 : c ≠ 0 := ne_of_lt hc
  have hn : ¬ (0 < c) := not_lt.mpr hc.le
  cases b with
  | ninf => simp [mul, infTimes, h0, hn, ubW, ubOK]
  | fin q => right; simp only [mul, ubOK]; exact mul_le_mul_of_nonpos_left h hc.le
  | pinf => exact absurd h (by simp [lbOK])
  | nan => exact absurd h (by simp [lbOK])


theorem boundsLin_cons (e : Env) (t : Rat × Nat) (ts : LinT) :
    boundsLin e (t :: ts) =
      (let r := boundsLin e ts
       let c := t.1; let b := e t.2
       let r' : Pre := if 0 ≤ c then { r with lb := add r.lb (mul (fin c) b.lb), ub := add r.ub (mul (fin c) b.ub) }
                       else { r with lb := add r.lb (mul (fin c) b.ub), ub := add r.ub (mul (fin c) b.lb) }
       { r' with int := r'.int && (b.int && ratIsInt c) }) := by
  simp [boundsLin]

theorem linVal_cons (val : Val) (t : Rat × Nat) (ts : LinT) : linVal val (t :: ts) = t.1 * val t.2 + linVal val ts := by
  simp [linVal]

/-- `ComputeBoundsAndType(LinTerms)` is sound (NaN = no information) -/
theorem boundsLin_sound (e : Env) (val : Val) (h : Feasible e val) (ts : LinT) :
    (boundsLin e ts).ContainsW (linVal val ts) := by
  induction ts with
  | nil => exact ⟨Or.inr (by simp [boundsLin, linVal, lbOK]), Or.inr (by simp [boundsLin, linVal, ubOK]), fun _ => by simpa [linVal] using IsInt.zero⟩
  | cons t ts ih =>
    obtain ⟨hl, hu, hi⟩ := ih
    obtain ⟨bl, bu, bi⟩ := h t.2
    rw [boundsLin_cons, linVal_cons]
    by_cases hc : 0 ≤ t.1
    · refine ⟨?_, ?_, ?_⟩
      · simp only [hc, if_true]; rw [add_comm (t.1 * val t.2)]
        exact add_lbW _ _ _ _ hl (scale_pos_lb _ _ _ hc bl)
      · simp only [hc, if_true]; rw [add_comm (t.1 * val t.2)]
        exact add_ubW _ _ _ _ hu (scale_pos_ub _ _ _ hc bu)
      · intro hint
        simp only [hc, if_true, Bool.and_eq_true] at hint
        exact IsInt.add (IsInt.mul (isInt_of_ratIsInt hint.2.2) (bi hint.2.1)) (hi hint.1)
    · have hc' : t.1 < 0 := not_le.mp hc
      refine ⟨?_, ?_, ?_⟩
      · simp only [hc, if_false]; rw [add_comm (t.1 * val t.2)]
        exact add_lbW _ _ _ _ hl (scale_neg_lb _ _ _ hc' bu)
      · simp only [hc, if_false]; rw [add_comm (t.1 * val t.2)]
        exact add_ubW _ _ _ _ hu (scale_neg_ub _ _ _ hc' bl)
      · intro hint
        simp only [hc, if_false, Bool.and_eq_true] at hint
        exact IsInt.add (IsInt.mul (isInt_of_ratIsInt hint.2.2) (bi hint.2.1)) (hi hint.1)

/-- adding the constant term -/
theorem withConst_sound (r : Pre) (x c0 : Rat) (h : r.ContainsW x) : (withConst r c0).ContainsW (x + c0) := by
  obtain ⟨hl, hu, hi⟩ := h
  refine ⟨add_lbW _ _ _ _ hl (Or.inr (by simp [lbOK])), add_ubW _ _ _ _ hu (Or.inr (by simp [ubOK])), ?_⟩
  intro hint
  simp only [withConst, Bool.and_eq_true] at hint
  exact IsInt.add (hi hint.1) (isInt_of_ratIsInt hint.2)

/-- `narrow_result_bounds` + `set_result_type` on a fresh `PreprocessInfo` -/
theorem fresh_narrow_sound (r : Pre) (x : Rat) (h : r.ContainsW x) :
    (((({} : Pre).narrow r.lb r.ub).setType r.int)).Contains x := by
  obtain ⟨hl, hu, hi⟩ := h
  exact ⟨narrow_lb _ _ _ (by simp [lbOK]) hl, narrow_ub _ _ _ (by simp [ubOK]) hu, hi⟩


/-- `narrow_result_bounds(l, u)` + `set_result_type(t)` on a fresh `PreprocessInfo` -/
theorem fresh_range_sound (l u : ER) (t : Bool) (x : Rat) (hl : lbW l x) (hu : ubW u x) (hi : t = true → IsInt x) :
    ((({} : Pre).narrow l u).setType t).Contains x :=
  ⟨narrow_lb ninf l x (by simp [lbOK]) hl, narrow_ub pinf u x (by simp [ubOK]) hu, hi⟩

/-- the same without a type (CONTINUOUS) -/
theorem fresh_range_sound' (l u : ER) (x : Rat) (hl : lbW l x) (hu : ubW u x) :
    (({} : Pre).narrow l u).Contains x :=
  ⟨narrow_lb ninf l x (by simp [lbOK]) hl, narrow_ub pinf u x (by simp [ubOK]) hu, fun h => by simp [Pre.narrow] at h⟩

end MpVerif.C06
